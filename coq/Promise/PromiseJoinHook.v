(* The proxy-hook clauses on the Join model (ports of NS / N4 / N5 / NT of PromiseLive.v) and the path invariant:
   a proxy in r's table has an owner whose next-chain leads to r, and a call through it is somewhere on that chain. *)
From CV Require Import Promise.Promise Promise.PromiseProofs Promise.PromiseJoin Promise.PromiseJoinThms
  Promise.PromiseJoinInv Promise.PromiseJoinRefs Promise.PromiseJoinDest Promise.PromiseJoinChain
  Promise.PromiseJoinForest.
Open Scope Z_scope.

(* ---- rows of the client tables *)
Lemma rows_add_row : forall cl q row x, In x (concat (map snd (add_row cl q row))) <-> In x (concat (map snd cl)) \/ In x row.
Proof.
  induction cl as [|[q' row'] cl IH]; intros q row x; simpl.
  - rewrite app_nil_r. tauto.
  - destruct (path_eqb q' q); simpl; rewrite ?in_app_iff; [tauto|]. rewrite IH. tauto.
Qed.

Lemma rows_merge_tab : forall src dst x,
  In x (concat (map snd (merge_tab dst src))) <-> In x (concat (map snd dst)) \/ In x (concat (map snd src)).
Proof.
  induction src as [|[q row] src IH]; intros dst x; simpl; [tauto|].
  rewrite IH, rows_add_row, in_app_iff. tauto.
Qed.

Lemma find_row_in : forall cl q x, In x (find_row cl q) -> In x (concat (map snd cl)).
Proof.
  induction cl as [|[q' row'] cl IH]; intros q x H; simpl in *; [destruct H|].
  rewrite in_app_iff. destruct (path_eqb q' q); auto. right. eapply IH; eauto.
Qed.

Lemma clients_close_sigs_h : forall sigs c k, p_clients (getp (close_sigs c sigs) k) = p_clients (getp c k).
Proof. intros. destruct (getp_close_sigs sigs c k) as [H|H]; rewrite H; reflexivity. Qed.

Definition in_rows (c : jconfig) (r x : nat) : Prop := In x (rows_of (getp c r)).

(* RV: tables, slots and loop lists only mention existing proxies *)
Record JV (c : jconfig) : Prop := {
  V_rows : forall r x, in_rows c r x -> (x < length (jproxies c))%nat;
  V_slots : forall s x, In (s, HProxy x) (jslots c) -> (x < length (jproxies c))%nat;
  V_thr : forall t th, nth_error (jthreads c) t = Some th ->
            (forall x, In x (j_rest th) -> (x < length (jproxies c))%nat) /\
            (match j_pc th with QFulWait | QRelWait => (j_waitx th < length (jproxies c))%nat | _ => True end) /\
            (forall x, j_via th = Some x -> (x < length (jproxies c))%nat)
}.

Lemma len_setx : forall c x p, length (jproxies (setx c x p)) = length (jproxies c).
Proof. intros. unfold setx. simpl. apply length_upd. Qed.

Ltac len_simp :=
  repeat progress (autorewrite with jc_simp; simpl; rewrite ?length_upd, ?app_length); simpl.

Lemma prx_sett : forall c t th, jproxies (sett c t th) = jproxies c. Proof. reflexivity. Qed.
Lemma prx_setp : forall c k p, jproxies (setp c k p) = jproxies c. Proof. reflexivity. Qed.
Lemma prx_jlog : forall c e, jproxies (jlog c e) = jproxies c. Proof. reflexivity. Qed.
Lemma prx_sjslots : forall c v, jproxies (sjslots c v) = jproxies c. Proof. reflexivity. Qed.
Lemma prx_sjgates : forall c v, jproxies (sjgates c v) = jproxies c. Proof. reflexivity. Qed.
Lemma prx_setx : forall c x p, jproxies (setx c x p) = upd x p (jproxies c). Proof. reflexivity. Qed.
Lemma prx_close_sigs : forall sigs c, jproxies (close_sigs c sigs) = jproxies c.
Proof. induction sigs; intros; simpl; auto. rewrite IHsigs. reflexivity. Qed.
Lemma slots_close_sigs : forall sigs c, jslots (close_sigs c sigs) = jslots c.
Proof. induction sigs; intros; simpl; auto. rewrite IHsigs. reflexivity. Qed.
Lemma prx_sjproxies : forall c v, jproxies (sjproxies c v) = v. Proof. reflexivity. Qed.
#[export] Hint Rewrite prx_sett prx_setp prx_jlog prx_sjslots prx_sjgates prx_setx prx_close_sigs prx_sjproxies : prx_simp.

Lemma JV_step : forall v c t c', JV c -> jstep v c t = Some c' -> JV c'.
Proof.
  intros v c t c' HV Hs.
  jleaves v Hs Hth.
  all: destruct (V_thr c HV t th Hth) as [Hrest [Hwx Hvia]].
  all: goal_matches.
  all: assert (Hlen : (length (jproxies c) <= length (jproxies c))%nat) by lia.
  all: constructor;
    [ (* rows *)
      intros r0 x0 Hin; unfold in_rows, rows_of in *;
      repeat progress (autorewrite with getp_simp in Hin; rewrite ?clients_close_sigs_h in Hin);
      revert Hin; eqb_all; simpl; rewrite ?clients_close_joined; simpl; intros Hin;
      repeat progress (autorewrite with prx_simp); rewrite ?length_upd, ?app_length; simpl;
      rewrite ?rows_merge_tab, ?rows_add_row in Hin; simpl in Hin;
      repeat match goal with H : _ \/ _ |- _ => destruct H end; try contradiction; subst;
      try (match goal with H : In ?x (concat (map snd (p_clients (getp ?cc ?r)))) |- _ =>
             pose proof (V_rows cc HV r x H) end); try lia
    | (* slots *)
      intros s0 x0 Hin; simpl in Hin; rewrite ?slots_close_sigs in Hin; simpl in Hin;
      repeat progress (autorewrite with prx_simp); rewrite ?length_upd, ?app_length; simpl;
      repeat match goal with H : _ \/ _ |- _ => destruct H end;
      try (match goal with H : (_, _) = (_, _) |- _ => inversion H; subst end);
      try (match goal with H : In (_, HProxy ?x) (jslots ?cc) |- _ => pose proof (V_slots cc HV _ x H) end); try lia
    | (* threads *)
      intros t0 th0 H0; simpl in H0; rewrite ?close_sigs_threads in H0; simpl in H0;
      destruct (jupd_nth_cases _ _ _ _ _ _ Hth H0) as [[-> ->]|[Hne H0']]; clear H0;
      repeat progress (autorewrite with prx_simp); rewrite ?length_upd, ?app_length; simpl;
      [ idtac
      | destruct (V_thr c HV _ _ H0') as [A [B C]]; repeat split;
        [ intros y Hy; specialize (A y Hy); lia
        | destruct (j_pc th0); auto; lia
        | intros y Hy; specialize (C y Hy); lia ] ] ].
  (* the stepping thread *)
  all: cbn [j_pc j_rest j_via j_waitx jgoto jfinish sj_pc sj_cur sj_par sj_path sj_via sj_rest sj_waitx sj_res sj_out];
       repeat match goal with |- context [match j_via ?th with _ => _ end] => destruct (j_via th) eqn:? end;
       cbn [j_pc j_rest j_via j_waitx jgoto jfinish sj_pc sj_cur sj_par sj_path sj_via sj_rest sj_waitx sj_res sj_out];
       repeat match goal with H : j_pc _ = _ |- _ => rewrite H in * end;
       repeat match goal with H : j_rest _ = _ |- _ => rewrite H in * end.
  all: repeat split.
  all: try exact I.
  all: try (intros y Hy; first [ apply Hrest; first [exact Hy | right; exact Hy] | apply Hvia; exact Hy ];
            fail).
  all: try (first [ (apply Hrest; left; reflexivity) | exact Hwx ]; fail).
  all: try (intros y Hy; unfold rows_of in Hy;
            repeat progress (autorewrite with getp_simp in Hy; rewrite ?clients_close_sigs_h in Hy);
            revert Hy; eqb_all; simpl; rewrite ?clients_close_joined; simpl; intros Hy;
            apply (V_rows c HV _ _ Hy); fail).
  all: try (intros y Hy; first [discriminate Hy | (inversion Hy; subst)];
            match goal with H : lookup_slot _ _ = Some (HProxy ?x) |- _ =>
              destruct (lookup_slot_in _ _ _ H) as [s' Hs']; exact (V_slots c HV _ _ Hs') end).
  all: try (intros y Hy; try discriminate Hy; specialize (Hvia y); rewrite ?app_length; simpl;
            first [ (pose proof (Hvia Hy); lia) | (pose proof (Hrest y Hy); lia) | (pose proof (Hrest y (or_intror Hy)); lia) ]; fail).
  all: try (intros y Hy; apply Hvia; congruence).
  all: try (apply (V_rows c HV (j_cur th) x0); unfold in_rows, rows_of; eapply find_row_in;
            match goal with H : find_row _ _ = _ |- _ => rewrite H end; left; reflexivity).
  all: destruct p as [q row]; rewrite rows_merge_tab, rows_add_row in Hin;
       destruct Hin as [[Hin|Hin]|Hin];
       [ exact (V_rows c HV (j_par th) x0 Hin)
       | apply (V_rows c HV (j_cur th) x0); unfold in_rows, rows_of; rewrite Heql; simpl; apply in_or_app; left; exact Hin
       | apply (V_rows c HV (j_cur th) x0); unfold in_rows, rows_of; rewrite Heql; simpl; apply in_or_app; right; exact Hin ].
Qed.

Lemma JV_reach : forall v np ops c, jreach v np ops c -> JV c.
Proof.
  intros v np ops c H. induction H as [|c t c' Hr IH Hs]; [|exact (JV_step v c t c' IH Hs)].
  constructor.
  - intros r x Hin. unfold in_rows, rows_of in Hin. destruct (getp_init np ops r) as [E|E]; rewrite E in Hin; destruct Hin.
  - intros s x [].
  - intros t th Hth. simpl in Hth. rewrite nth_error_map in Hth. destruct (nth_error ops t); inversion Hth; subst.
    simpl. repeat split; auto; intros; try contradiction; discriminate.
Qed.

(* ---- P3: hook.calls of a proxy counts the threads inside a call through it *)
Definition jcallpc (p : jpc) : bool :=
  match p with QTrav | QWaitJ | QInCaller | QRelock | QWaitKnown | QAfterKnown | QCallFinish => true | _ => false end.

Definition jin_px (x : nat) (th : jthread) : bool :=
  match j_op th with
  | JCall _ _ => match j_via th with Some y => Nat.eqb x y && jcallpc (j_pc th) | None => false end
  | _ => false
  end.

Definition JP3 (c : jconfig) : Prop :=
  forall x px, nth_error (jproxies c) x = Some px -> jx_calls px = jcount (jin_px x) (jthreads c).

Lemma getx_nth : forall c x px, nth_error (jproxies c) x = Some px -> getx c x = px.
Proof. intros. unfold getx. apply nth_error_nth. exact H. Qed.

Lemma jcount_zero : forall f l, (forall t th, nth_error l t = Some th -> f th = false) -> jcount f l = 0.
Proof.
  induction l as [|a l IH]; intros H; cbn [jcount]; [reflexivity|].
  rewrite (H 0%nat a eq_refl), IH; [reflexivity|]. intros t th Ht. exact (H (S t) th Ht).
Qed.

Ltac jpx_cases Hx0 :=
  repeat progress (autorewrite with prx_simp in Hx0);
  match type of Hx0 with
  | nth_error (upd ?x ?p ?l) ?x0 = Some ?px0 =>
    let b0 := fresh "b0" in let Hb0 := fresh "Hb0" in let Hne := fresh "Hne" in let Hx0' := fresh "Hx0'" in
    destruct (nth_error_upd_cases _ _ _ _ _ _ Hx0) as [[-> [-> [b0 Hb0]]]|[Hne Hx0']];
    [rewrite ?(getx_nth _ _ _ Hb0) in *|]
  | nth_error (?l ++ [?a]) ?x0 = Some ?px0 =>
    let Hx0' := fresh "Hx0'" in
    destruct (nth_error_app_new _ _ _ _ _ Hx0) as [Hx0'|[-> ->]]
  | _ => idtac
  end.

(* only calls made through a client carry a proxy *)
Definition JVia (c : jconfig) : Prop :=
  forall t th, nth_error (jthreads c) t = Some th ->
    match j_op th with JCall _ _ => True | _ => j_via th = None end.

Lemma JVia_step : forall v c t c', JVia c -> jstep v c t = Some c' -> JVia c'.
Proof.
  intros v c t c' HO Hs.
  unfold jstep in Hs. destruct (nth_error (jthreads c) t) as [th|] eqn:Hth; [|discriminate].
  pose proof (HO t th Hth) as Hown.
  junfold Hs. jexplode Hs; inversion Hs; subst; clear Hs.
  all: unfold resolve_entry, do_known, do_final; goal_matches.
  all: intros t0 th0 H0; simpl in H0; rewrite ?close_sigs_threads in H0; simpl in H0;
       destruct (jupd_nth_cases _ _ _ _ _ _ Hth H0) as [[-> ->]|[Hne H0']]; [|exact (HO _ _ H0')].
  all: simpl; repeat match goal with H : j_op _ = _ |- _ => rewrite H in * end; simpl in *; auto; try congruence.
  all: destruct (j_op th); auto; congruence.
Qed.

Lemma JVia_reach : forall v np ops c, jreach v np ops c -> JVia c.
Proof.
  intros v np ops c H. induction H as [|c t c' Hr IH Hs]; [|exact (JVia_step v c t c' IH Hs)].
  intros t th H. simpl in H. rewrite nth_error_map in H. destruct (nth_error ops t) as [o|]; inversion H; subst.
  destruct o; reflexivity.
Qed.

Lemma JP3_step : forall v c t c', JV c -> JVia c -> JP3 c -> jstep v c t = Some c' -> JP3 c'.
Proof.
  intros v c t c' HV HA HP Hs.
  jleaves v Hs Hth.
  all: pose proof (HA t th Hth) as Hvia0.
  all: goal_matches.
  all: intros x0 px0 Hx0; jpx_cases Hx0.
  all: thr_simp Hth.
  all: first [ rewrite <- (HP _ _ Hb0) | rewrite <- (HP _ _ Hx0') | rewrite <- (HP _ _ Hx0) | idtac ].
  all: unfold jin_px; cbn [j_op j_pc j_via jgoto jfinish sj_pc sj_cur sj_par sj_path sj_via sj_rest sj_waitx sj_res sj_out];
       repeat match goal with H : j_pc _ = _ |- _ => rewrite H end;
       repeat match goal with H : j_op _ = _ |- _ => rewrite H end;
       repeat match goal with H : j_via _ = _ |- _ => rewrite H end; cbn [jcallpc]; simpl.
  all: rewrite ?andb_false_r, ?andb_true_r; eqb_all; simpl; try lia.
  all: try (destruct (j_via th); rewrite ?andb_false_r; simpl; lia).
  all: try (rewrite jcount_zero; [lia|];
            intros t1 th1 H1; destruct (V_thr c HV t1 th1 H1) as [_ [_ Hv1]];
            destruct (j_op th1); auto; destruct (j_via th1) as [y|] eqn:Ey; auto;
            specialize (Hv1 y eq_refl); destruct (Nat.eqb_spec (length (jproxies c)) y); [lia|reflexivity]).
  all: destruct (j_op th); simpl; try lia; congruence.
Qed.

Lemma JP3_reach : forall v np ops c, jreach v np ops c -> JP3 c.
Proof.
  intros v np ops c H. induction H as [|c t c' Hr IH Hs].
  - intros x px Hx. destruct x; discriminate.
  - exact (JP3_step v c t c' (JV_reach v np ops c Hr) (JVia_reach v np ops c Hr) IH Hs).
Qed.

(* ---- P2: hook.refs is 0 or 1 and done is closed once refs = 0 and calls = 0 *)
Definition JP2 (c : jconfig) : Prop :=
  forall x px, nth_error (jproxies c) x = Some px ->
    0 <= jx_refs px /\ (jx_target px = None -> jx_rel px = false -> jx_refs px = 1) /\
    (jx_refs px <= 0 -> jx_calls px = 0 -> jx_done px = true).

Ltac jboolp :=
  repeat match goal with
         | H : (_ <? _) = true |- _ => apply Z.ltb_lt in H
         | H : (_ <? _) = false |- _ => apply Z.ltb_ge in H
         | H : (_ =? _) = true |- _ => apply Z.eqb_eq in H
         | H : (_ =? _) = false |- _ => apply Z.eqb_neq in H
         end.

Lemma JP2_step : forall v c t c', JP3 c -> JP2 c -> jstep v c t = Some c' -> JP2 c'.
Proof.
  intros v c t c' H3 HP Hs.
  jleaves v Hs Hth.
  all: goal_matches.
  all: intros x0 px0 Hx0; jpx_cases Hx0.
  all: try (exact (HP _ _ Hx0)); try (exact (HP _ _ Hx0')).
  all: try (simpl; repeat split; intros; try lia; try discriminate; fail).
  all: pose proof (HP _ _ Hb0) as [Ha [Hb Hc]]; pose proof (H3 _ _ Hb0) as Hcnt;
       match type of Hb0 with nth_error _ ?x = _ =>
         pose proof (jcount_nonneg (jin_px x) (jthreads c)) as Hnn end.
  all: simpl; jboolp; repeat split; intros; try lia; try discriminate; try congruence;
       repeat match goal with
              | |- context [if ?b then _ else _] => destruct b eqn:?
              | H : context [if ?b then _ else _] |- _ => destruct b eqn:?
              end; jboolp;
       try reflexivity; try lia; try (apply Hc; lia); try (rewrite Hb in *; auto; lia); try congruence.
Qed.

Lemma JP2_reach : forall v np ops c, jreach v np ops c -> JP2 c.
Proof.
  intros v np ops c H. induction H as [|c t c' Hr IH Hs].
  - intros x px Hx. destruct x; discriminate.
  - exact (JP2_step v c t c' (JP3_reach v np ops c Hr) IH Hs).
Qed.

(* ---- P1: a thread waiting for a hook's done has dropped that hook's last reference *)
Definition JP1 (c : jconfig) : Prop :=
  forall t th, nth_error (jthreads c) t = Some th ->
    match j_pc th with
    | QFulWait | QRelWait => exists px, nth_error (jproxies c) (j_waitx th) = Some px /\ jx_refs px <= 0
    | _ => True
    end.

Definition refs_mono (c c' : jconfig) : Prop :=
  forall x px, nth_error (jproxies c) x = Some px ->
    exists px', nth_error (jproxies c') x = Some px' /\ jx_refs px' <= jx_refs px.

Lemma refs_mono_upd : forall (l : list jproxy) x p' y px,
  nth_error l y = Some px -> (forall b0, nth_error l x = Some b0 -> jx_refs p' <= jx_refs b0) ->
  exists px', nth_error (upd x p' l) y = Some px' /\ jx_refs px' <= jx_refs px.
Proof.
  intros l x p' y px Hy Hr. destruct (Nat.eq_dec x y) as [->|Hne].
  - exists p'. split; [eapply nth_error_upd_same; eauto|auto].
  - exists px. split; [rewrite nth_error_upd_other; auto|lia].
Qed.

Lemma refs_mono_step : forall v c t c', JP2 c -> jstep v c t = Some c' -> refs_mono c c'.
Proof.
  intros v c t c' H2 Hs.
  jleaves v Hs Hth; goal_matches.
  all: intros y px Hy; repeat progress (autorewrite with prx_simp).
  all: try (exists px; split; [exact Hy|lia]).
  all: try (exists px; split; [rewrite nth_error_app1; [exact Hy|apply nth_error_Some; congruence]|lia]).
  all: apply refs_mono_upd; [exact Hy|]; intros b0 Hb0; rewrite ?(getx_nth _ _ _ Hb0) in *; simpl;
       pose proof (H2 _ _ Hb0) as [Ha _]; jboolp; lia.
Qed.

Lemma JP1_step : forall v c t c', JV c -> JP2 c -> JP1 c -> jstep v c t = Some c' -> JP1 c'.
Proof.
  intros v c t c' HV H2 HP Hs.
  pose proof (refs_mono_step v c t c' H2 Hs) as Hm.
  intros t0 th0 H0.
  unfold jstep in Hs. destruct (nth_error (jthreads c) t) as [th|] eqn:Hth; [|discriminate].
  destruct (V_thr c HV t th Hth) as [Hrest _].
  destruct (jstep_frame v c t th c' Hth Hs) as [[th' [Hup _]] _].
  rewrite Hup in H0. destruct (jupd_nth_cases _ _ _ _ _ _ Hth H0) as [[-> ->]|[Hne H0']].
  2:{ pose proof (HP t0 th0 H0') as Hold. destruct (j_pc th0); auto;
        destruct Hold as [px [A B]]; destruct (Hm _ _ A) as [px' [A' B']]; exists px'; split; auto; lia. }
  (* the stepping thread: it enters a wait right after dropping the reference *)
  clear H0. junfold Hs. jexplode Hs; inversion Hs; subst; clear Hs.
  all: unfold resolve_entry, do_known, do_final in *; simpl in Hup; rewrite ?close_sigs_threads in Hup; simpl in Hup.
  all: repeat match type of Hup with context [match ?x with _ => _ end] => destruct x eqn:? end; simpl in Hup;
       rewrite ?close_sigs_threads in Hup; simpl in Hup.
  all: assert (Hth' : nth_error (upd t th' (jthreads c)) t = Some th') by (eapply nth_error_upd_same; eauto);
       rewrite <- Hup in Hth'; rewrite (nth_error_upd_same _ _ _ _ _ Hth) in Hth'; inversion Hth'; subst th'; clear Hth' Hup.
  all: cbn [j_pc j_waitx jgoto jfinish sj_pc sj_cur sj_par sj_path sj_via sj_rest sj_waitx sj_res sj_out];
       repeat match goal with H : j_pc _ = _ |- _ => rewrite H end; try exact I.
  all: assert (Hn : (n < length (jproxies c))%nat) by (apply Hrest; left; reflexivity);
       destruct (nth_error (jproxies c) n) as [b0|] eqn:Hb0; [|apply nth_error_None in Hb0; lia];
       eexists; split; [autorewrite with prx_simp; eapply nth_error_upd_same; exact Hb0|];
       rewrite ?(getx_nth _ _ _ Hb0) in *; simpl; jboolp; lia.
Qed.

Lemma JP1_reach : forall v np ops c, jreach v np ops c -> JP1 c.
Proof.
  intros v np ops c H. induction H as [|c t c' Hr IH Hs].
  - intros t th Hth. simpl in Hth. rewrite nth_error_map in Hth. destruct (nth_error ops t); inversion Hth; subst. exact I.
  - exact (JP1_step v c t c' (JV_reach v np ops c Hr) (JP2_reach v np ops c Hr) IH Hs).
Qed.
