(* The proxy-hook clauses on the Join model (ports of NS / N4 / N5 / NT of PromiseLive.v) and the path invariant:
   a proxy in r's table has an owner whose next-chain leads to r, and a call through it is somewhere on that chain. *)
From CV Require Import Promise.Promise Promise.PromiseProofs Promise.PromiseJoin Promise.PromiseJoinThms
  Promise.PromiseJoinInv Promise.PromiseJoinRefs Promise.PromiseJoinDest Promise.PromiseJoinChain
  Promise.PromiseJoinForest Promise.PromiseJoinLive.
Open Scope Z_scope.

(* ---- rows of the client tables *)
Lemma rows_add_row : forall cl q row x, In x (concat (map snd (add_row cl q row))) <-> In x (concat (map snd cl)) \/ In x row.
Proof.
  induction cl as [|[q' row'] cl IH]; intros q row x; simpl.
  - rewrite app_nil_r. tauto.
  - destruct (path_eqb q' q); simpl; rewrite ?in_app_iff; [tauto|]. rewrite IH. tauto.
Qed.

Lemma rows_merge_tab : forall src dst x,
  In x (concat (map snd (merge_tab dst src))) <-> In x (concat (map snd dst)) \/ In x (concat (map snd src)).
Proof.
  induction src as [|[q row] src IH]; intros dst x; simpl; [tauto|].
  rewrite IH, rows_add_row, in_app_iff. tauto.
Qed.

Lemma find_row_in : forall cl q x, In x (find_row cl q) -> In x (concat (map snd cl)).
Proof.
  induction cl as [|[q' row'] cl IH]; intros q x H; simpl in *; [destruct H|].
  rewrite in_app_iff. destruct (path_eqb q' q); auto. right. eapply IH; eauto.
Qed.

Lemma clients_close_sigs_h : forall sigs c k, p_clients (getp (close_sigs c sigs) k) = p_clients (getp c k).
Proof. intros. destruct (getp_close_sigs sigs c k) as [H|H]; rewrite H; reflexivity. Qed.

Definition in_rows (c : jconfig) (r x : nat) : Prop := In x (rows_of (getp c r)).

(* RV: tables, slots and loop lists only mention existing proxies *)
Record JV (c : jconfig) : Prop := {
  V_rows : forall r x, in_rows c r x -> (x < length (jproxies c))%nat;
  V_slots : forall s x, In (s, HProxy x) (jslots c) -> (x < length (jproxies c))%nat;
  V_thr : forall t th, nth_error (jthreads c) t = Some th ->
            (forall x, In x (j_rest th) -> (x < length (jproxies c))%nat) /\
            (match j_pc th with QFulWait | QRelWait => (j_waitx th < length (jproxies c))%nat | _ => True end) /\
            (forall x, j_via th = Some x -> (x < length (jproxies c))%nat)
}.

Lemma len_setx : forall c x p, length (jproxies (setx c x p)) = length (jproxies c).
Proof. intros. unfold setx. simpl. apply length_upd. Qed.

Ltac len_simp :=
  repeat progress (autorewrite with jc_simp; simpl; rewrite ?length_upd, ?app_length); simpl.

Lemma prx_sett : forall c t th, jproxies (sett c t th) = jproxies c. Proof. reflexivity. Qed.
Lemma prx_setp : forall c k p, jproxies (setp c k p) = jproxies c. Proof. reflexivity. Qed.
Lemma prx_jlog : forall c e, jproxies (jlog c e) = jproxies c. Proof. reflexivity. Qed.
Lemma prx_sjslots : forall c v, jproxies (sjslots c v) = jproxies c. Proof. reflexivity. Qed.
Lemma prx_sjgates : forall c v, jproxies (sjgates c v) = jproxies c. Proof. reflexivity. Qed.
Lemma prx_setx : forall c x p, jproxies (setx c x p) = upd x p (jproxies c). Proof. reflexivity. Qed.
Lemma prx_close_sigs : forall sigs c, jproxies (close_sigs c sigs) = jproxies c.
Proof. induction sigs; intros; simpl; auto. rewrite IHsigs. reflexivity. Qed.
Lemma slots_close_sigs : forall sigs c, jslots (close_sigs c sigs) = jslots c.
Proof. induction sigs; intros; simpl; auto. rewrite IHsigs. reflexivity. Qed.
Lemma prx_sjproxies : forall c v, jproxies (sjproxies c v) = v. Proof. reflexivity. Qed.
#[export] Hint Rewrite prx_sett prx_setp prx_jlog prx_sjslots prx_sjgates prx_setx prx_close_sigs prx_sjproxies : prx_simp.

Lemma JV_step : forall v c t c', JV c -> jstep v c t = Some c' -> JV c'.
Proof.
  intros v c t c' HV Hs.
  jleaves v Hs Hth.
  all: destruct (V_thr c HV t th Hth) as [Hrest [Hwx Hvia]].
  all: goal_matches.
  all: assert (Hlen : (length (jproxies c) <= length (jproxies c))%nat) by lia.
  all: constructor;
    [ (* rows *)
      intros r0 x0 Hin; unfold in_rows, rows_of in *;
      repeat progress (autorewrite with getp_simp in Hin; rewrite ?clients_close_sigs_h in Hin);
      revert Hin; eqb_all; simpl; rewrite ?clients_close_joined; simpl; intros Hin;
      repeat progress (autorewrite with prx_simp); rewrite ?length_upd, ?app_length; simpl;
      rewrite ?rows_merge_tab, ?rows_add_row in Hin; simpl in Hin;
      repeat match goal with H : _ \/ _ |- _ => destruct H end; try contradiction; subst;
      try (match goal with H : In ?x (concat (map snd (p_clients (getp ?cc ?r)))) |- _ =>
             pose proof (V_rows cc HV r x H) end); try lia
    | (* slots *)
      intros s0 x0 Hin; simpl in Hin; rewrite ?slots_close_sigs in Hin; simpl in Hin;
      repeat progress (autorewrite with prx_simp); rewrite ?length_upd, ?app_length; simpl;
      repeat match goal with H : _ \/ _ |- _ => destruct H end;
      try (match goal with H : (_, _) = (_, _) |- _ => inversion H; subst end);
      try (match goal with H : In (_, HProxy ?x) (jslots ?cc) |- _ => pose proof (V_slots cc HV _ x H) end); try lia
    | (* threads *)
      intros t0 th0 H0; simpl in H0; rewrite ?close_sigs_threads in H0; simpl in H0;
      destruct (jupd_nth_cases _ _ _ _ _ _ Hth H0) as [[-> ->]|[Hne H0']]; clear H0;
      repeat progress (autorewrite with prx_simp); rewrite ?length_upd, ?app_length; simpl;
      [ idtac
      | destruct (V_thr c HV _ _ H0') as [A [B C]]; repeat split;
        [ intros y Hy; specialize (A y Hy); lia
        | destruct (j_pc th0); auto; lia
        | intros y Hy; specialize (C y Hy); lia ] ] ].
  (* the stepping thread *)
  all: cbn [j_pc j_rest j_via j_waitx jgoto jfinish sj_pc sj_cur sj_par sj_path sj_via sj_rest sj_waitx sj_res sj_out];
       repeat match goal with |- context [match j_via ?th with _ => _ end] => destruct (j_via th) eqn:? end;
       cbn [j_pc j_rest j_via j_waitx jgoto jfinish sj_pc sj_cur sj_par sj_path sj_via sj_rest sj_waitx sj_res sj_out];
       repeat match goal with H : j_pc _ = _ |- _ => rewrite H in * end;
       repeat match goal with H : j_rest _ = _ |- _ => rewrite H in * end.
  all: repeat split.
  all: try exact I.
  all: try (intros y Hy; first [ apply Hrest; first [exact Hy | right; exact Hy] | apply Hvia; exact Hy ];
            fail).
  all: try (first [ (apply Hrest; left; reflexivity) | exact Hwx ]; fail).
  all: try (intros y Hy; unfold rows_of in Hy;
            repeat progress (autorewrite with getp_simp in Hy; rewrite ?clients_close_sigs_h in Hy);
            revert Hy; eqb_all; simpl; rewrite ?clients_close_joined; simpl; intros Hy;
            apply (V_rows c HV _ _ Hy); fail).
  all: try (intros y Hy; first [discriminate Hy | (inversion Hy; subst)];
            match goal with H : lookup_slot _ _ = Some (HProxy ?x) |- _ =>
              destruct (lookup_slot_in _ _ _ H) as [s' Hs']; exact (V_slots c HV _ _ Hs') end).
  all: try (intros y Hy; try discriminate Hy; specialize (Hvia y); rewrite ?app_length; simpl;
            first [ (pose proof (Hvia Hy); lia) | (pose proof (Hrest y Hy); lia) | (pose proof (Hrest y (or_intror Hy)); lia) ]; fail).
  all: try (intros y Hy; apply Hvia; congruence).
  all: try (apply (V_rows c HV (j_cur th) x0); unfold in_rows, rows_of; eapply find_row_in;
            match goal with H : find_row _ _ = _ |- _ => rewrite H end; left; reflexivity).
  all: destruct p as [q row]; rewrite rows_merge_tab, rows_add_row in Hin;
       destruct Hin as [[Hin|Hin]|Hin];
       [ exact (V_rows c HV (j_par th) x0 Hin)
       | apply (V_rows c HV (j_cur th) x0); unfold in_rows, rows_of; rewrite Heql; simpl; apply in_or_app; left; exact Hin
       | apply (V_rows c HV (j_cur th) x0); unfold in_rows, rows_of; rewrite Heql; simpl; apply in_or_app; right; exact Hin ].
Qed.

Lemma JV_reach : forall v np ops c, jreach v np ops c -> JV c.
Proof.
  intros v np ops c H. induction H as [|c t c' Hr IH Hs]; [|exact (JV_step v c t c' IH Hs)].
  constructor.
  - intros r x Hin. unfold in_rows, rows_of in Hin. destruct (getp_init np ops r) as [E|E]; rewrite E in Hin; destruct Hin.
  - intros s x [].
  - intros t th Hth. simpl in Hth. rewrite nth_error_map in Hth. destruct (nth_error ops t); inversion Hth; subst.
    simpl. repeat split; auto; intros; try contradiction; discriminate.
Qed.
