(* Destination of pipelined calls along a joined chain, all op lists and interleavings: a call that is not
   handed to a PipelineCaller is delivered to what the result of the promise at the end of its traversal holds at
   the call's path, and that result is final. *)
From CV Require Import Promise.Promise Promise.PromiseProofs Promise.PromiseJoin Promise.PromiseJoinThms
  Promise.PromiseJoinInv.
Open Scope Z_scope.

Lemma signals_close_sigs : forall sigs c k, p_signals (getp (close_sigs c sigs) k) = p_signals (getp c k).
Proof. intros. destruct (getp_close_sigs sigs c k) as [H|H]; rewrite H; reflexivity. Qed.
Lemma signals_close_joined : forall p, p_signals (close_joined p) = p_signals p.
Proof. intros. unfold close_joined. destruct (p_joined p); reflexivity. Qed.

(* ---- U: an unresolved promise still has its own signal; P: so does a promise that is being resolved/joined *)
Definition has_sig (c : jconfig) (k : nat) : Prop := p_signals (getp c k) <> [].

Record JS (c : jconfig) : Prop := {
  S_unres : forall k, p_caller (getp c k) = true -> has_sig c k;
  S_thr : forall t th k, nth_error (jthreads c) t = Some th -> (jpre th k = true \/ jpost th k = true) -> has_sig c k
}.

Lemma app_not_nil : forall (A : Type) (a b : list A), a <> [] -> a ++ b <> [].
Proof. intros A a b H E. apply app_eq_nil in E. tauto. Qed.

Lemma JS_step : forall v c t c', JR c -> JS c -> jstep v c t = Some c' -> JS c'.
Proof.
  intros v c t c' HR HS Hs.
  jleaves v Hs Hth.
  all: own_phase HR Hth.
  all: goal_matches.
  all: norm_negb.
  all: try (specialize (Hpre eq_refl); destruct Hpre as [Hin Hrn]).
  all: try (specialize (Hpost eq_refl); destruct Hpost as [Hin Hrs]).
  all: constructor.
  (* unresolved promises *)
  all: try (intros k0 Hc; unfold has_sig; revert Hc;
            repeat progress (autorewrite with getp_simp; rewrite ?caller_close_sigs, ?signals_close_sigs);
            simpl; eqb_all; simpl; rewrite ?caller_close_joined, ?signals_close_joined; simpl;
            intros Hc; try discriminate Hc;
            first [ exact (S_unres c HS _ Hc)
                  | (apply app_not_nil; exact (S_unres c HS _ Hc))
                  | (pose proof (begin_not_caller c _ _ HR Hin); congruence) ]).
  (* threads *)
  all: intros t0 th0 k0 H0 Hp; simpl in H0; rewrite ?close_sigs_threads in H0; simpl in H0;
       destruct (jupd_nth_cases _ _ _ _ _ _ Hth H0) as [[-> ->]|[Hne H0']]; clear H0.
  (* another thread: its promise is not the one the stepping thread finishes *)
  all: try (assert (Hne' : t0 <> t) by exact Hne;
            pose proof (S_thr c HS t0 th0 k0 H0' Hp) as Hold;
            assert (Hin0 : In (JEBegin t0 k0) (jevents c))
              by (destruct Hp as [Hp|Hp]; [exact (proj1 (R_pre c HR t0 th0 k0 H0' Hp))|exact (proj1 (R_post c HR t0 th0 k0 H0' Hp))]);
            pose proof (begin_not_caller c _ _ HR Hin0) as Hcf0;
            unfold has_sig in *;
            repeat progress (autorewrite with getp_simp; rewrite ?signals_close_sigs);
            simpl; eqb_all; simpl; rewrite ?signals_close_joined; simpl;
            first [ exact Hold | (apply app_not_nil; exact Hold) | congruence
                  | (exfalso; apply Hne'; symmetry; eapply (begin_unique c); eauto) ]).
  (* the stepping thread *)
  all: pose proof (S_thr c HS t th (j_cur th) Hth) as Hown; unfold jpre, jpost in Hown, Hp; simpl in Hp;
       repeat match goal with H : j_pc _ = _ |- _ => rewrite H in Hown end;
       repeat match goal with H : j_pc _ = _ |- _ => rewrite H in Hp end;
       rewrite ?Nat.eqb_refl in Hown; simpl in Hp.
  all: destruct Hp as [Hp|Hp]; try discriminate Hp; apply Nat.eqb_eq in Hp; subst.
  all: unfold has_sig in *;
       repeat progress (autorewrite with getp_simp; rewrite ?signals_close_sigs);
       simpl; eqb_all; simpl; rewrite ?signals_close_joined; simpl.
  all: try (apply Hown; auto; fail).
  all: try (match goal with H : p_caller (getp ?cc ?k) = true |- _ => exact (S_unres cc HS k H) end).
Qed.

Lemma JS_init : forall np ops, JS (jinit np ops).
Proof.
  intros np ops. constructor.
  - intros k Hc. unfold has_sig. destruct (getp_init np ops k) as [E|E]; rewrite E in *; simpl in *; discriminate.
  - intros t th k H [Hp|Hp]; simpl in H; rewrite nth_error_map in H; destruct (nth_error ops t); inversion H; subst; discriminate.
Qed.

Lemma JS_reach : forall v np ops c, jreach v np ops c -> JS c.
Proof.
  intros v np ops c H. induction H as [|c t c' Hr IH Hs]; [apply JS_init|].
  exact (JS_step v c t c' (JR_reach v np ops c Hr) IH Hs).
Qed.

(* ---- G: a promise seen in the pending-resolution state (mu free) has its pendingDone open or its result set *)
Lemma known_close_sigs : forall sigs c k, p_known (getp (close_sigs c sigs) k) = p_known (getp c k).
Proof. intros. destruct (getp_close_sigs sigs c k) as [H|H]; rewrite H; reflexivity. Qed.
Lemma joined_close_sigs : forall sigs c k, p_joined (getp (close_sigs c sigs) k) = p_joined (getp c k).
Proof. intros. destruct (getp_close_sigs sigs c k) as [H|H]; rewrite H; reflexivity. Qed.

Lemma known_close_joined : forall p, p_known (close_joined p) = p_known p.
Proof. intros. unfold close_joined. destruct (p_joined p); reflexivity. Qed.

Definition pend_ok (p : prom) : Prop :=
  p_caller p = false -> p_next p = None -> is_pjoin p = false -> p_signals p <> [] -> p_mu p = None ->
  p_known p = COpen \/ p_result p <> None.

Definition JG (c : jconfig) : Prop := forall k, pend_ok (getp c k).

Lemma pend_ok_close : forall sigs c k, pend_ok (getp c k) -> pend_ok (getp (close_sigs c sigs) k).
Proof. intros sigs c k H. destruct (getp_close_sigs sigs c k) as [E|E]; rewrite E; exact H. Qed.

Lemma JG_step : forall v c t c', JG c -> jstep v c t = Some c' -> JG c'.
Proof.
  intros v c t c' HG Hs.
  jleaves v Hs Hth.
  all: goal_matches.
  all: intros k0; pose proof (HG k0) as H0.
  all: repeat progress (autorewrite with getp_simp); try apply pend_ok_close; repeat progress (autorewrite with getp_simp).
  all: eqb_all; try exact H0.
  all: unfold pend_ok in *; simpl; rewrite ?caller_close_joined, ?result_close_joined, ?mu_close_joined,
         ?signals_close_joined; simpl.
  all: intros; try discriminate; try congruence; auto.
  all: try (left; reflexivity).
  all: try (right; discriminate).
Qed.

Lemma JG_reach : forall v np ops c, jreach v np ops c -> JG c.
Proof.
  intros v np ops c H. induction H as [|c t c' Hr IH Hs]; [|exact (JG_step v c t c' IH Hs)].
  intros k. unfold pend_ok. destruct (getp_init np ops k) as [E|E]; rewrite E; simpl; intros; try discriminate; congruence.
Qed.

(* ---- K: a call that waits for / has seen pendingDone will find the result *)
Definition kok (c : jconfig) (th : jthread) : Prop :=
  match j_pc th with
  | QWaitKnown => p_caller (getp c (j_cur th)) = false /\
                  (p_known (getp c (j_cur th)) = COpen \/ p_result (getp c (j_cur th)) <> None)
  | QAfterKnown => p_caller (getp c (j_cur th)) = false /\ p_result (getp c (j_cur th)) <> None
  | _ => True
  end.

Definition JK (c : jconfig) : Prop := forall t th, nth_error (jthreads c) t = Some th -> kok c th.

Lemma kok_close : forall sigs c th, kok c th -> kok (close_sigs c sigs) th.
Proof.
  intros sigs c th H. unfold kok in *. destruct (j_pc th); auto;
    destruct (getp_close_sigs sigs c (j_cur th)) as [E|E]; rewrite E; exact H.
Qed.

Lemma JK_step : forall v c t c', JG c -> JK c -> jstep v c t = Some c' -> JK c'.
Proof.
  intros v c t c' HG HK Hs.
  jleaves v Hs Hth.
  all: pose proof (HK t th Hth) as Hown; unfold kok in Hown;
       repeat match goal with H : j_pc _ = _ |- _ => rewrite H in Hown end.
  all: goal_matches.
  all: norm_negb.
  all: intros t0 th0 H0; simpl in H0; rewrite ?close_sigs_threads in H0; simpl in H0;
       destruct (jupd_nth_cases _ _ _ _ _ _ Hth H0) as [[-> ->]|[Hne H0']]; clear H0.
  (* another thread *)
  all: try (pose proof (HK t0 th0 H0') as Hold; repeat progress (autorewrite with getp_simp); try apply kok_close;
            repeat progress (autorewrite with getp_simp);
            unfold kok in *; destruct (j_pc th0); auto;
            repeat progress (autorewrite with getp_simp); eqb_all; simpl;
            rewrite ?caller_close_joined, ?result_close_joined, ?known_close_joined; simpl;
            first [ exact Hold | (destruct Hold as [Ha Hb]; split; [congruence|]; try (right; discriminate);
                                  try (destruct Hb; [left|right]; congruence); congruence) ]).
  (* the stepping thread *)
  all: try (unfold kok; simpl; repeat match goal with H : j_pc _ = _ |- _ => rewrite H end; exact I).
  all: try (unfold kok; simpl; repeat match goal with H : j_pc _ = _ |- _ => rewrite H end;
            repeat progress (autorewrite with getp_simp); simpl; exact Hown).
  (* a call finds the promise pending: G *)
  all: try (unfold kok; simpl; repeat progress (autorewrite with getp_simp); simpl;
            match goal with |- p_caller (getp ?cc ?k) = false /\ _ =>
              pose proof (HG k) as Hg; unfold pend_ok in Hg;
              unfold is_pres, p_is_joined, no_signals in *;
              destruct (p_caller (getp cc k)); try discriminate;
              destruct (p_next (getp cc k)) eqn:En; try discriminate;
              destruct (is_pjoin (getp cc k)) eqn:Ej; try discriminate;
              destruct (p_signals (getp cc k)) eqn:Es; try discriminate;
              split; [reflexivity|apply Hg; auto; discriminate] end; fail).
  (* pendingDone was seen closed *)
  all: try (unfold kok; simpl; destruct Hown as [Ha [Hb|Hb]]; split; auto; congruence).
Qed.

Lemma JK_reach : forall v np ops c, jreach v np ops c -> JK c.
Proof.
  intros v np ops c H. induction H as [|c t c' Hr IH Hs].
  - intros t th H. simpl in H. rewrite nth_error_map in H. destruct (nth_error ops t); inversion H; subst. exact I.
  - exact (JK_step v c t c' (JG_reach v np ops c Hr) IH Hs).
Qed.

(* ---- the result a delivery was made on is final *)
Definition frozen (c : jconfig) (k : nat) : Prop :=
  p_caller (getp c k) = false /\ (p_result (getp c k) <> None \/ p_signals (getp c k) = []).

Definition JF (c : jconfig) : Prop :=
  forall t k d, In (JEDeliver t k d) (jevents c) -> d <> DCaller -> frozen c k.

Lemma frozen_close : forall sigs c k, frozen c k -> frozen (close_sigs c sigs) k.
Proof.
  intros sigs c k H. unfold frozen in *. destruct (getp_close_sigs sigs c k) as [E|E]; rewrite E; exact H.
Qed.

Lemma JF_step : forall v c t c', JK c -> JF c -> jstep v c t = Some c' -> JF c'.
Proof.
  intros v c t c' HK HF Hs.
  jleaves v Hs Hth.
  all: pose proof (HK t th Hth) as Hown; unfold kok in Hown;
       repeat match goal with H : j_pc _ = _ |- _ => rewrite H in Hown end.
  all: goal_matches.
  all: norm_negb.
  all: intros t0 k0 d0 Hin Hd; simpl in Hin; rewrite ?close_sigs_events in Hin; simpl in Hin.
  all: repeat (destruct Hin as [Hin|Hin]; [try discriminate Hin|]).
  (* an older delivery *)
  all: try (pose proof (HF _ _ _ Hin Hd) as [Ha Hb]; unfold frozen;
            repeat progress (autorewrite with getp_simp; rewrite ?caller_close_sigs, ?result_close_sigs, ?signals_close_sigs);
            eqb_all; simpl; rewrite ?caller_close_joined, ?result_close_joined, ?signals_close_joined; simpl;
            first [ (split; [exact Ha|exact Hb]) | congruence
                  | (split; [first [exact Ha|reflexivity]|first [left; discriminate | exact Hb | (right; reflexivity)]]) ]).
  (* the delivery made in this step *)
  all: try (inversion Hin; subst; try (exfalso; apply Hd; reflexivity);
            unfold frozen; repeat progress (autorewrite with getp_simp);
            first [ (destruct Hown as [Ha Hb]; split; [exact Ha|left; exact Hb])
                  | (unfold is_pres, p_is_joined, no_signals in *;
                     match goal with |- p_caller (getp ?cc ?k) = false /\ _ =>
                       repeat match goal with H : p_caller (getp cc k) = _ |- _ => rewrite H in * end;
                       repeat match goal with H : p_next (getp cc k) = _ |- _ => rewrite H in * end;
                       repeat match goal with H : is_pjoin (getp cc k) = _ |- _ => rewrite H in * end;
                       simpl in *;
                       destruct (p_signals (getp cc k)); simpl in *; try congruence;
                       split; [reflexivity|right; reflexivity] end) ]; fail).
Qed.

Lemma JF_reach : forall v np ops c, jreach v np ops c -> JF c.
Proof.
  intros v np ops c H. induction H as [|c t c' Hr IH Hs]; [intros t k d []|].
  exact (JF_step v c t c' (JK_reach v np ops c Hr) IH Hs).
Qed.

(* ---- where the deliveries went *)
Definition JD (c : jconfig) : Prop :=
  forall t th k d, nth_error (jthreads c) t = Some th -> In (JEDeliver t k d) (jevents c) ->
    d = DCaller \/ d = res_dest (jcur_res (getp c k)) (j_path th).

Lemma no_deliver_yet : forall t k d l, jcnt (jis_deliver t) l = 0%nat -> ~ In (JEDeliver t k d) l.
Proof.
  induction l as [|e l IH]; intros H Hin; [destruct Hin|]. rewrite jcnt_cons in H. destruct Hin as [->|Hin].
  - simpl in H. rewrite Nat.eqb_refl in H. discriminate.
  - apply IH; auto. destruct (jis_deliver t e); simpl in H; [discriminate|exact H].
Qed.

Lemma dest_caller_dec : forall d : dest, {d = DCaller} + {d <> DCaller}.
Proof. destruct d; [left; reflexivity|right; discriminate..]. Qed.

Lemma JD_step : forall v c t c', JR c -> JS c -> JF c -> JInv c -> JD c -> jstep v c t = Some c' -> JD c'.
Proof.
  intros v c t c' HR HS HF HI HD Hs.
  jleaves v Hs Hth.
  all: own_phase HR Hth.
  all: pose proof (S_thr c HS t th (j_cur th) Hth) as Hsig; unfold jpre, jpost in Hsig;
       repeat match goal with H : j_pc _ = _ |- _ => rewrite H in Hsig end; rewrite ?Nat.eqb_refl in Hsig.
  all: pose proof (HI t th Hth) as Hcnt; unfold jtinv in Hcnt;
       repeat match goal with H : j_pc _ = _ |- _ => rewrite H in Hcnt end;
       repeat match goal with H : j_op _ = _ |- _ => rewrite H in Hcnt end.
  all: goal_matches.
  all: norm_negb.
  all: try (specialize (Hpre eq_refl); destruct Hpre as [Hinb Hrn]).
  all: try (specialize (Hpost eq_refl); destruct Hpost as [Hinb Hrs]).
  all: intros t0 th0 k0 d0 H0 Hin; simpl in H0, Hin; rewrite ?close_sigs_threads in H0; rewrite ?close_sigs_events in Hin;
       simpl in H0, Hin.
  all: destruct (jupd_nth_cases _ _ _ _ _ _ Hth H0) as [[-> ->]|[Hne H0']]; clear H0.
  all: repeat (destruct Hin as [Hin|Hin]; [try discriminate Hin|]).
  (* the delivery made in this step *)
  all: try (inversion Hin; subst; try congruence;
            first [ (left; reflexivity)
                  | (right; repeat progress (autorewrite with getp_simp); simpl; reflexivity) ]; fail).
  (* a step before the thread's first delivery changes its path *)
  all: try (exfalso; simpl in Hcnt;
            first [ exact (no_deliver_yet _ _ _ _ (proj2 Hcnt) Hin) | exact (no_deliver_yet _ _ _ _ Hcnt Hin) ]; fail).
  (* an older delivery *)
  all: destruct (dest_caller_dec d0) as [Hdc|Hdc]; [left; exact Hdc|].
  all: pose proof (HF _ _ _ Hin Hdc) as [Ha Hb].
  all: first [ destruct (HD _ _ _ _ Hth Hin) as [Hold|Hold] | destruct (HD _ _ _ _ H0' Hin) as [Hold|Hold] ];
       [left; exact Hold|right].
  all: unfold jcur_res in *;
       repeat progress (autorewrite with getp_simp; rewrite ?result_close_sigs);
       simpl; eqb_all; simpl; rewrite ?result_close_joined; simpl.
  all: try exact Hold.
  all: try (rewrite Hrs in Hold; exact Hold).
  all: try (exfalso; destruct Hb as [Hb|Hb]; [congruence|apply Hsig; auto]; fail).
  all: try congruence.
  all: rewrite Hrs in *; first [exact Hold | reflexivity | (rewrite Hold; reflexivity)].
Qed.

Lemma JD_reach : forall v np ops c, jreach v np ops c -> JD c.
Proof.
  intros v np ops c H. induction H as [|c t c' Hr IH Hs]; [intros t th k d _ []|].
  exact (JD_step v c t c' (JR_reach v np ops c Hr) (JS_reach v np ops c Hr) (JF_reach v np ops c Hr)
                 (jreach_inv v np ops c Hr) IH Hs).
Qed.

(* Destination on chains, second half: every delivery that is not to a PipelineCaller was made on the result of the
   promise at the end of the call's traversal (what that result holds at the call's path: the capability, or the
   failure / rejection error), and that promise's result is final (it can no longer be set or changed). *)
Theorem join_delivery_destination : forall v np ops c, jreach v np ops c ->
  forall t th k d, nth_error (jthreads c) t = Some th -> In (JEDeliver t k d) (jevents c) ->
    d = DCaller \/
    (d = res_dest (jcur_res (getp c k)) (j_path th) /\ p_caller (getp c k) = false /\
     (p_result (getp c k) <> None \/ p_signals (getp c k) = [])).
Proof.
  intros v np ops c Hr t th k d Hth Hin.
  destruct (dest_caller_dec d) as [Hd|Hd]; [left; exact Hd|right].
  destruct (JD_reach v np ops c Hr t th k d Hth Hin) as [H|H]; [contradiction|].
  destruct (JF_reach v np ops c Hr t k d Hin Hd) as [Ha Hb]. auto.
Qed.
