(* Theorems over all operation lists and all interleavings for the model WITH Join (PromiseJoin.v):
   every pipelined call on a promise or anywhere in its joined chain is delivered at most once at any
   time and exactly once when it has returned. *)
From CV Require Import Promise.Promise Promise.PromiseProofs Promise.PromiseJoin.
Open Scope Z_scope.

Lemma close_sigs_events : forall sigs c, jevents (close_sigs c sigs) = jevents c.
Proof. induction sigs; intros; simpl; auto. rewrite IHsigs. reflexivity. Qed.

Lemma close_sigs_threads : forall sigs c, jthreads (close_sigs c sigs) = jthreads c.
Proof. induction sigs; intros; simpl; auto. rewrite IHsigs. reflexivity. Qed.

Definition jis_deliver (t : nat) (e : jevent) : bool :=
  match e with JEDeliver t' _ _ | JEDirect t' _ => Nat.eqb t t' | _ => false end.

Definition jcnt (f : jevent -> bool) (l : list jevent) : nat := length (filter f l).

Lemma jcnt_cons : forall f e l, jcnt f (e :: l) = (b2n (f e) + jcnt f l)%nat.
Proof. intros. unfold jcnt. simpl. destruct (f e); reflexivity. Qed.

Definition jdel (p : jpc) : bool :=
  match p with QInCaller | QRelock | QCallFinish | QDone => true | _ => false end.

(* the sections a pipelined call goes through *)
Definition jcall_pc (p : jpc) : bool :=
  match p with
  | QStart | QTrav | QWaitJ | QInCaller | QRelock | QWaitKnown | QAfterKnown | QCallFinish | QDone => true
  | _ => false
  end.

Definition jtinv (c : jconfig) (t : nat) (th : jthread) : Prop :=
  match j_op th with
  | JSend _ _ _ => jcall_pc (j_pc th) = true /\ jcnt (jis_deliver t) (jevents c) = b2n (jdel (j_pc th))
  | JCall _ _ =>
    jcall_pc (j_pc th) = true /\
    match j_pc th with
    | QDone => (j_out th = ONoSlot /\ jcnt (jis_deliver t) (jevents c) = 0%nat) \/
               (j_out th = ORet /\ jcnt (jis_deliver t) (jevents c) = 1%nat)
    | pc => jcnt (jis_deliver t) (jevents c) = b2n (jdel pc)
    end
  | _ => True
  end.

Definition JInv (c : jconfig) : Prop := forall t th, nth_error (jthreads c) t = Some th -> jtinv c t th.

Ltac jexplode Hs :=
  repeat (match type of Hs with
          | (if ?b then _ else _) = Some _ => destruct b eqn:?
          | match ?x with _ => _ end = Some _ => destruct x eqn:?
          end); try discriminate Hs.

Definition jev_thread (e : jevent) : nat :=
  match e with JEDeliver x _ _ | JEDirect x _ | JEBegin x _ | JEResolved x _ => x end.

Lemma cnt_deliver_other : forall t e l, t <> jev_thread e ->
  jcnt (jis_deliver t) (e :: l) = jcnt (jis_deliver t) l.
Proof.
  intros t e l Hne. rewrite jcnt_cons. destruct e; simpl in *; auto;
    (destruct (Nat.eqb t t0) eqn:E; [apply Nat.eqb_eq in E; congruence|reflexivity]).
Qed.

Lemma cnt_deliver_same : forall t k d l, jcnt (jis_deliver t) (JEDeliver t k d :: l) = S (jcnt (jis_deliver t) l).
Proof. intros. rewrite jcnt_cons. simpl. rewrite Nat.eqb_refl. reflexivity. Qed.

Lemma cnt_direct_same : forall t d l, jcnt (jis_deliver t) (JEDirect t d :: l) = S (jcnt (jis_deliver t) l).
Proof. intros. rewrite jcnt_cons. simpl. rewrite Nat.eqb_refl. reflexivity. Qed.

Lemma jupd_nth_cases : forall (l : list jthread) t th th' t0 th0,
  nth_error l t = Some th -> nth_error (upd t th' l) t0 = Some th0 ->
  (t0 = t /\ th0 = th') \/ (t0 <> t /\ nth_error l t0 = Some th0).
Proof.
  intros l t th th' t0 th0 Hth H0. destruct (Nat.eq_dec t0 t) as [->|Hne].
  - rewrite (nth_error_upd_same _ _ _ _ _ Hth) in H0. inversion H0. auto.
  - rewrite nth_error_upd_other in H0 by auto. auto.
Qed.

Ltac goal_matches :=
  repeat match goal with
         | |- context [match ?x with _ => _ end] => destruct x eqn:?
         | |- context [if ?b then _ else _] => destruct b eqn:?
         end.

(* every step rewrites only the stepping thread's record (same operation) and logs only deliveries of
   the stepping thread (or EBegin / EResolved) *)
Lemma jstep_frame : forall v c t th c',
  nth_error (jthreads c) t = Some th -> jstep_thread v c t th = Some c' ->
  (exists th', jthreads c' = upd t th' (jthreads c) /\ j_op th' = j_op th) /\
  (forall t0, t0 <> t -> jcnt (jis_deliver t0) (jevents c') = jcnt (jis_deliver t0) (jevents c)).
Proof.
  intros v c t th c' Hth Hs.
  unfold jstep_thread, sec_jresolve_start, sec_jfulfil, sec_join_start, sec_join_par, sec_trav, sec_jrelock,
    sec_jcall_finish, sec_jcall_start, sec_rel_walk, sec_jrelease_proxy, sec_wait_walk, jcall_done in Hs.
  jexplode Hs; inversion Hs; subst; clear Hs.
  all: unfold resolve_entry, do_known, do_final.
  all: split; [goal_matches; eexists; simpl; rewrite ?close_sigs_threads; simpl; (split; [reflexivity|simpl; congruence])
              |intros t0 Hne; goal_matches; simpl; rewrite ?close_sigs_events; simpl;
               repeat (rewrite cnt_deliver_other by (simpl; auto)); reflexivity].
Qed.

Definition is_call_op (o : jop) : bool := match o with JSend _ _ _ | JCall _ _ => true | _ => false end.

Lemma JInv_step : forall v c t c', JInv c -> jstep v c t = Some c' -> JInv c'.
Proof.
  intros v c t c' HN Hs. unfold JInv in *.
  unfold jstep in Hs. destruct (nth_error (jthreads c) t) as [th|] eqn:Hth; [|discriminate].
  destruct (jstep_frame v c t th c' Hth Hs) as [[th' [Hup Hop]] Hcnt].
  intros t0 th0 H0. rewrite Hup in H0.
  destruct (jupd_nth_cases _ _ _ _ _ _ Hth H0) as [[-> ->]|[Hne H0']].
  2:{ pose proof (HN _ _ H0') as T0. unfold jtinv in *. rewrite (Hcnt t0 Hne). exact T0. }
  (* the stepping thread *)
  destruct (is_call_op (j_op th)) eqn:Hcall.
  2:{ unfold jtinv. rewrite Hop. destruct (j_op th); try discriminate; exact I. }
  pose proof (HN t th Hth) as HT. unfold jtinv in HT.
  clear Hcnt HN.
  unfold jstep_thread, sec_jresolve_start, sec_jfulfil, sec_join_start, sec_join_par, sec_trav, sec_jrelock,
    sec_jcall_finish, sec_jcall_start, sec_rel_walk, sec_jrelease_proxy, sec_wait_walk, jcall_done in Hs.
  destruct (j_op th) eqn:Eop; try discriminate.
  all: jexplode Hs; inversion Hs; subst; clear Hs.
  all: repeat match goal with H : j_pc _ = _ |- _ => rewrite H in HT end.
  all: try (exfalso; simpl in HT; destruct HT; discriminate).
  all: destruct HT as [_ HT].
  all: simpl in Hup; rewrite ?close_sigs_threads in Hup; simpl in Hup.
  all: assert (Hth' : nth_error (upd t th' (jthreads c)) t = Some th') by (eapply nth_error_upd_same; eauto).
  all: rewrite <- Hup in Hth'; simpl in Hth'; rewrite ?close_sigs_threads in Hth'; simpl in Hth';
       rewrite (nth_error_upd_same _ _ _ _ _ Hth) in Hth'; inversion Hth'; subst th'; clear Hth' Hup.
  all: unfold jtinv; try (destruct (j_via th)); simpl; rewrite ?Eop; simpl; rewrite ?close_sigs_events; simpl.
  all: repeat match goal with H : j_pc _ = _ |- _ => rewrite H end; simpl.
  all: rewrite ?cnt_deliver_same, ?cnt_direct_same, ?jcnt_cons; simpl; simpl in HT.
  all: try (split; [reflexivity|]).
  all: try (rewrite HT; simpl; auto; fail); try (auto; fail).
Qed.

Lemma jinit_inv : forall np ops, JInv (jinit np ops).
Proof.
  intros np ops t th H. simpl in H. rewrite nth_error_map in H. destruct (nth_error ops t) as [o|]; inversion H; subst.
  unfold jtinv, mk_jthread. simpl. destruct o; simpl; auto.
Qed.

Lemma jreach_inv : forall v np ops c, jreach v np ops c -> JInv c.
Proof.
  intros v np ops c H. induction H as [|c t c' Hr IH Hs]; [apply jinit_inv|exact (JInv_step v c t c' IH Hs)].
Qed.

(* Exactly-once on a promise and its joined chain, for every variant of the code modelled, every number
   of promises, every operation list (any Joins, any transforms), every interleaving: the call of a
   PipelineSend/PipelineRecv thread, or of a call through a returned client, has been delivered at most
   once at any time, and exactly once when it has returned (a call on an empty slot returns ONoSlot
   without a delivery). *)
Theorem join_pipelined_exactly_once : forall v np ops c, jreach v np ops c ->
  forall t th, nth_error (jthreads c) t = Some th ->
    match j_op th with
    | JSend _ _ _ =>
      (jcnt (jis_deliver t) (jevents c) <= 1)%nat /\
      (j_pc th = QDone -> jcnt (jis_deliver t) (jevents c) = 1%nat)
    | JCall _ _ =>
      (jcnt (jis_deliver t) (jevents c) <= 1)%nat /\
      (j_pc th = QDone -> (j_out th = ONoSlot /\ jcnt (jis_deliver t) (jevents c) = 0%nat) \/
                          (j_out th = ORet /\ jcnt (jis_deliver t) (jevents c) = 1%nat))
    | _ => True
    end.
Proof.
  intros v np ops c Hr t th Hth. pose proof (jreach_inv v np ops c Hr t th Hth) as T. unfold jtinv in T.
  destruct (j_op th); auto.
  - destruct T as [_ T]. rewrite T. split; [destruct (jdel (j_pc th)); simpl; lia|].
    intros Hd. rewrite Hd. reflexivity.
  - destruct T as [_ T]. split.
    + destruct (j_pc th); simpl in T; try lia; destruct T as [[_ T]|[_ T]]; lia.
    + intros Hd. rewrite Hd in T. exact T.
Qed.
