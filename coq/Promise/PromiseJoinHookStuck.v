(* A resolver never waits forever for the calls of a proxy hook (ClientPromise.Fulfill waiting for the hook's calls
   to drain), on chains: the call it waits for travels along the next-chain from the proxy's owner to the promise
   being resolved, and that promise's joined / pendingDone channels are already closed. *)
From CV Require Import Promise.Promise Promise.PromiseProofs Promise.PromiseJoin Promise.PromiseJoinThms
  Promise.PromiseJoinInv Promise.PromiseJoinRefs Promise.PromiseJoinDest Promise.PromiseJoinChain
  Promise.PromiseJoinForest Promise.PromiseJoinLive Promise.PromiseJoinStuck Promise.PromiseJoinHook
  Promise.PromiseJoinPath.
Open Scope Z_scope.

Lemma act_next : forall p, act p = true -> p_next p = None.
Proof.
  intros p H. unfold act, p_is_joined in H. destruct (p_next p); [|reflexivity].
  rewrite andb_false_r in H. discriminate.
Qed.

Theorem join_fulfil_never_waits_for_hook : forall v np ops c,
  jv_close_joined v = true -> jv_alloc_table v = true -> join_ordered ops -> jreach v np ops c ->
  (forall t, jenabled v c t = false) ->
  (forall t th, nth_error (jthreads c) t = Some th -> j_pc th <> QInCaller) ->
  forall t th, nth_error (jthreads c) t = Some th -> j_pc th <> QFulWait.
Proof.
  intros v np ops c Hv1 Hv2 Hord Hr Hdis Hnogate t th Hth Hpc.
  pose proof (JT_reach v np ops c Hv1 Hv2 Hr) as HT.
  pose proof (JX_reach v np ops c Hv2 Hr) as HX.
  pose proof (JE4_reach v np ops c Hv2 Hr) as HE.
  pose proof (JP1_reach v np ops c Hr t th Hth) as P1. rewrite Hpc in P1. destruct P1 as [px [Hpx Hrefs]].
  assert (Hdone : jx_done px = false).
  { specialize (Hdis t). unfold jenabled, jstep in Hdis. rewrite Hth in Hdis. unfold jstep_thread in Hdis.
    rewrite Hpc in Hdis. rewrite (getx_nth _ _ _ Hpx) in Hdis. destruct (jx_done px); [discriminate|reflexivity]. }
  destruct (JP2_reach v np ops c Hr _ _ Hpx) as [_ [_ P2]].
  assert (Hcalls : jx_calls px <> 0) by (intros E; rewrite (P2 Hrefs E) in Hdone; discriminate).
  pose proof (JP3_reach v np ops c Hr _ _ Hpx) as P3.
  pose proof (jcount_nonneg (jin_px (j_waitx th)) (jthreads c)) as Hnn.
  destruct (jcount_pos (jin_px (j_waitx th)) (jthreads c) ltac:(lia)) as [t1 [th1 [Hth1 Hin]]].
  (* the resolver's promise is in its post phase: no next edge, channels closed *)
  assert (Hact : act (getp c (j_cur th)) = true).
  { assert (Hp : jphase (j_cur th) th = true) by (unfold jphase, jpre, jpost; rewrite Hpc, Nat.eqb_refl; reflexivity).
    pose proof (jcount_mem _ _ _ _ Hth Hp) as Hpos. rewrite (HE (j_cur th)) in Hpos.
    destruct (act (getp c (j_cur th))); [reflexivity|lia]. }
  pose proof (T_thr c HT t th Hth) as T. unfold tchan in T. rewrite Hpc in T. destruct T as [Tk Tj].
  destruct (X_thr c HX t th Hth) as [_ Xw]. rewrite Hpc in Xw. destruct Xw as [_ Xw].
  destruct (X_thr c HX t1 th1 Hth1) as [Xv _]. specialize (Xv _ Hin).
  assert (Hsame : act (getp c (j_cur th1)) = true -> j_cur th1 = j_cur th).
  { intros Ha. exact (nreach_det c _ _ _ Xv Xw (act_next _ Ha) (act_next _ Hact)). }
  (* the call cannot move: which wait is it in? *)
  assert (Hs1 : jstep_thread v c t1 th1 = None).
  { specialize (Hdis t1). unfold jenabled, jstep in Hdis. rewrite Hth1 in Hdis.
    destruct (jstep_thread v c t1 th1); [discriminate|reflexivity]. }
  assert (Hself : j_pc th1 = QJPar -> j_par th1 <> j_cur th1).
  { intros E. destruct (join_forest v np ops c Hord Hr) as [_ Hf].
    pose proof (Hf t1 th1 Hth1 ltac:(rewrite E; reflexivity)). lia. }
  unfold jin_px in Hin. destruct (j_op th1) eqn:Hop1; try discriminate Hin.
  destruct (j_via th1) eqn:Hvia1; try discriminate Hin.
  apply andb_true_iff in Hin. destruct Hin as [_ Hcp].
  destruct (jdisabled_cases v c t1 th1 (all_free v np ops c Hv2 Hord Hr Hdis)
              (JOP_reach v np ops c Hr t1 th1 Hth1) Hself Hs1) as [H|[H|[H|H]]].
  - rewrite H in Hcp. discriminate.
  - exact (Hnogate t1 th1 Hth1 (proj1 H)).
  - destruct H as [H|H]; rewrite H in Hcp; discriminate.
  - unfold wait_kind in H.
    destruct H as [[H _]|[[H J]|[[H K]|[[H _]|[[[H|H] _]|[[H _]|[H _]]]]]]]; try (rewrite H in Hcp; discriminate).
    + rewrite (Hsame (T_joined c HT _ J)) in J. contradiction.
    + rewrite (Hsame (T_known c HT _ K)) in K. contradiction.
Qed.

(* no_stuck on chains with the Fulfill-side hook wait eliminated: what remains of alternative (2) is only
   Client.Release / ReleaseClients waiting for a hook's calls (QRelWait). *)
Theorem join_no_stuck_chain_partial : forall v np ops c,
  jv_close_joined v = true -> jv_alloc_table v = true -> join_ordered ops -> jreach v np ops c ->
  (forall t, jenabled v c t = false) ->
  (exists t th, nth_error (jthreads c) t = Some th /\ j_pc th = QInCaller /\
                jop_gated (j_op th) = true /\ mem_nat t (jgates c) = false) \/
  (exists t th, nth_error (jthreads c) t = Some th /\ j_pc th = QRelWait) \/
  (forall t th, nth_error (jthreads c) t = Some th -> j_pc th <> QDone ->
                exists r, p_caller (getp c r) = true).
Proof.
  intros v np ops c Hv1 Hv2 Ho Hr Hdis.
  destruct (join_no_stuck_partial v np ops c Hv1 Hv2 Ho Hr Hdis) as [H|[[t [th [Hth [Hpc|Hpc]]]]|H]]; auto.
  - (* a Fulfill-side hook wait: only possible if the application holds a call *)
    set (f := fun th => match j_pc th with QInCaller => true | _ => false end).
    destruct (Z_lt_dec 0 (jcount f (jthreads c))) as [Hp|Hz].
    + left. destruct (jcount_pos _ _ Hp) as [t1 [th1 [Hth1 Hf]]]. exists t1, th1. unfold f in Hf.
      destruct (j_pc th1) eqn:Hpc1; try discriminate Hf.
      assert (Hs : jstep_thread v c t1 th1 = None).
      { specialize (Hdis t1). unfold jenabled, jstep in Hdis. rewrite Hth1 in Hdis.
        destruct (jstep_thread v c t1 th1); [discriminate|reflexivity]. }
      unfold jstep_thread in Hs. rewrite Hpc1 in Hs.
      destruct (negb (jop_gated (j_op th1)) || mem_nat t1 (jgates c)) eqn:E; [discriminate|].
      apply orb_false_iff in E. destruct E as [E1 E2]. apply negb_false_iff in E1. auto.
    + exfalso. apply (join_fulfil_never_waits_for_hook v np ops c Hv1 Hv2 Ho Hr Hdis) with (t := t) (th := th); auto.
      intros t0 th0 H0 Hpc0. apply Hz. apply (jcount_mem _ _ _ _ H0). unfold f. rewrite Hpc0. reflexivity.
  - right. left. exists t, th. auto.
Qed.
