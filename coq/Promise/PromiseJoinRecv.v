(* The promise a call is delivered at is the end of the traversal that STARTED at the call's receiver: for
   PipelineSend/Recv on k0 the delivery promise is reached from k0 along next edges; for a call through a proxy
   client, from the proxy's owner. *)
From CV Require Import Promise.Promise Promise.PromiseProofs Promise.PromiseJoin Promise.PromiseJoinThms
  Promise.PromiseJoinInv Promise.PromiseJoinRefs Promise.PromiseJoinDest Promise.PromiseJoinChain
  Promise.PromiseJoinForest Promise.PromiseJoinLive Promise.PromiseJoinHook Promise.PromiseJoinPath.
Open Scope Z_scope.

Definition rcv (c : jconfig) (th : jthread) (k : nat) : Prop :=
  match j_op th with
  | JSend k0 _ _ => nreach c k0 k
  | JCall _ _ => exists x, j_via th = Some x /\ nreach c (own c x) k
  | _ => True
  end.

Lemma rcv_ext : forall c a b k, j_op a = j_op b -> j_via a = j_via b -> rcv c a k -> rcv c b k.
Proof. intros c a b k Ho Hv H. unfold rcv in *. rewrite <- Ho, <- Hv. exact H. Qed.

Lemma rcv_snoc : forall c th k n, rcv c th k -> p_next (getp c k) = Some n -> rcv c th n.
Proof.
  intros c th k n H Hn. unfold rcv in *. destruct (j_op th); auto.
  - exact (nreach_snoc c _ _ _ H Hn).
  - destruct H as [x [E N]]. exists x. split; [exact E|exact (nreach_snoc c _ _ _ N Hn)].
Qed.

Record DN (c : jconfig) : Prop := {
  D_thr : forall t th, nth_error (jthreads c) t = Some th -> jcallpc (j_pc th) = true -> rcv c th (j_cur th);
  D_ev : forall t th k d, nth_error (jthreads c) t = Some th -> In (JEDeliver t k d) (jevents c) -> rcv c th k
}.

Lemma DN_step : forall v c t c', JV c -> JE4 c -> JInv c -> DN c -> jstep v c t = Some c' -> DN c'.
Proof.
  intros v c t c' HV HE HI HD Hs.
  pose proof (next_mono_step v c t c' HE Hs) as Hmono.
  pose proof (owner_step v c t c' Hs) as Hown.
  assert (Hrm : forall th0 k, (forall x, j_via th0 = Some x -> (x < length (jproxies c))%nat) ->
                              rcv c th0 k -> rcv c' th0 k).
  { intros th0 k Hvx H. unfold rcv in *. destruct (j_op th0); auto.
    - exact (nreach_mono c c' _ _ Hmono H).
    - destruct H as [x [E N]]. exists x. split; [exact E|]. unfold own. rewrite (Hown x (Hvx x E)).
      exact (nreach_mono c c' _ _ Hmono N). }
  unfold jstep in Hs. destruct (nth_error (jthreads c) t) as [th|] eqn:Hth; [|discriminate].
  destruct (V_thr c HV t th Hth) as [_ [_ Hvvia]].
  pose proof (D_thr c HD t th Hth) as Hdt.
  pose proof (D_ev c HD t th) as Hde.
  pose proof (HI t th Hth) as Hinv. unfold jtinv in Hinv.
  junfold Hs. jexplode Hs; inversion Hs; subst; clear Hs.
  all: unfold resolve_entry, do_known, do_final in *; goal_matches.
  all: repeat match goal with H : j_pc _ = _ |- _ => rewrite H in Hdt end; simpl in Hdt.
  all: constructor;
    [ intros t0 th0 H0; simpl in H0; rewrite ?close_sigs_threads in H0; simpl in H0;
      destruct (jupd_nth_cases _ _ _ _ _ _ Hth H0) as [[-> ->]|[Hne H0']]; clear H0;
      [ idtac
      | intros Hpc; apply Hrm; [exact (proj2 (proj2 (V_thr c HV _ _ H0')))|exact (D_thr c HD _ _ H0' Hpc)] ]
    | intros t0 th0 k0 d0 H0 Hin; simpl in H0; rewrite ?close_sigs_threads in H0; simpl in H0;
      simpl in Hin; rewrite ?close_sigs_events in Hin; simpl in Hin;
      repeat (destruct Hin as [Hin|Hin]; [try discriminate Hin|]);
      destruct (jupd_nth_cases _ _ _ _ _ _ Hth H0) as [[-> ->]|[Hne H0']]; clear H0;
      try (apply Hrm; [exact (proj2 (proj2 (V_thr c HV _ _ H0')))|exact (D_ev c HD _ _ _ _ H0' Hin)]);
      try (exfalso; inversion Hin; subst; apply Hne; reflexivity) ].
  (* threads *)
  all: try (intros Hpc; unfold jcall_done in *;
            repeat match goal with |- context [match j_via ?th with _ => _ end] => destruct (j_via th) eqn:? end;
            repeat match goal with H : context [match j_via ?th with _ => _ end] |- _ => destruct (j_via th) eqn:? end;
            cbn [j_pc j_op j_via j_cur jgoto jfinish sj_pc sj_cur sj_par sj_path sj_via sj_rest sj_waitx sj_res sj_out] in Hpc |- *;
            repeat match goal with H : j_pc _ = _ |- _ => rewrite H in Hpc end; simpl in Hpc; try discriminate Hpc).
  all: try (apply (rcv_ext _ th); [reflexivity|reflexivity|apply Hrm; [exact (proj2 (proj2 (V_thr c HV t th Hth)))|apply Hdt; reflexivity]]).
  all: try (apply (rcv_ext _ th); [reflexivity|reflexivity|
            apply Hrm; [exact (proj2 (proj2 (V_thr c HV t th Hth)))|eapply rcv_snoc; [apply Hdt; reflexivity|eassumption]]]).
  all: try (unfold rcv; cbn [j_op j_via j_cur jgoto sj_pc sj_cur sj_path sj_via];
            match goal with H : j_op _ = _ |- _ => rewrite H end; apply nr_refl).
  all: try (unfold rcv; cbn [j_op j_via j_cur jgoto sj_pc sj_cur sj_path sj_via];
            match goal with H : j_op _ = _ |- _ => rewrite H end;
            match goal with H : lookup_slot _ _ = Some (HProxy ?x) |- _ =>
              destruct (lookup_slot_in _ _ _ H) as [s' Hs']; pose proof (V_slots c HV _ _ Hs') as Hlt;
              exists x; split; [reflexivity|unfold own; rewrite (Hown x Hlt); apply nr_refl] end).
  (* events *)
  all: try (apply (rcv_ext _ th); [reflexivity|reflexivity|apply Hrm; [exact (proj2 (proj2 (V_thr c HV t th Hth)))|exact (Hde _ _ Hth Hin)]]).
  all: try (inversion Hin; subst;
            apply (rcv_ext _ th); [reflexivity|reflexivity|apply Hrm; [exact (proj2 (proj2 (V_thr c HV t th Hth)))|apply Hdt; reflexivity]]).
  all: try (unfold rcv; cbn [j_op j_via j_cur jgoto sj_pc sj_cur sj_path sj_via];
            match goal with H : j_op _ = _ |- _ => rewrite H end; exact I).
  all: exfalso; repeat match goal with H : j_op _ = _ |- _ => rewrite H in Hinv end;
       repeat match goal with H : j_pc _ = _ |- _ => rewrite H in Hinv end;
       destruct Hinv as [_ Hcnt]; exact (no_deliver_yet _ _ _ _ Hcnt Hin).
Qed.

Lemma DN_reach : forall v np ops c, jv_alloc_table v = true -> jreach v np ops c -> DN c.
Proof.
  intros v np ops c Hv H. induction H as [|c t c' Hr IH Hs].
  - constructor.
    + intros t th Hth Hpc. simpl in Hth. rewrite nth_error_map in Hth. destruct (nth_error ops t); inversion Hth; subst.
      discriminate Hpc.
    + intros t th k d _ [].
  - exact (DN_step v c t c' (JV_reach v np ops c Hr) (JE4_reach v np ops c Hv Hr) (jreach_inv v np ops c Hr) IH Hs).
Qed.

(* the delivery promise is reached from the call's receiver *)
Theorem join_delivery_receiver : forall v np ops c, jv_alloc_table v = true -> jreach v np ops c ->
  forall t th k d, nth_error (jthreads c) t = Some th -> In (JEDeliver t k d) (jevents c) ->
    match j_op th with
    | JSend k0 _ _ => nreach c k0 k
    | JCall _ _ => exists x, j_via th = Some x /\ nreach c (jx_owner (getx c x)) k
    | _ => True
    end.
Proof. intros v np ops c Hv Hr t th k d Hth Hin. exact (D_ev c (DN_reach v np ops c Hv Hr) t th k d Hth Hin). Qed.
