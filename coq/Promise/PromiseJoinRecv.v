(* The promise a call is delivered at is the end of the traversal that STARTED at the call's receiver: for
   PipelineSend/Recv on k0 the delivery promise is reached from k0 along next edges; for a call through a proxy
   client, from the proxy's owner. *)
From CV Require Import Promise.Promise Promise.PromiseProofs Promise.PromiseJoin Promise.PromiseJoinThms
  Promise.PromiseJoinInv Promise.PromiseJoinRefs Promise.PromiseJoinDest Promise.PromiseJoinChain
  Promise.PromiseJoinForest Promise.PromiseJoinLive Promise.PromiseJoinHook Promise.PromiseJoinPath.
Open Scope Z_scope.

Definition rcv (c : jconfig) (th : jthread) (k : nat) : Prop :=
  match j_op th with
  | JSend k0 _ _ => nreach c k0 k
  | JCall _ _ => exists x, j_via th = Some x /\ nreach c (own c x) k
  | _ => True
  end.

Lemma rcv_ext : forall c a b k, j_op a = j_op b -> j_via a = j_via b -> rcv c a k -> rcv c b k.
Proof. intros c a b k Ho Hv H. unfold rcv in *. rewrite <- Ho, <- Hv. exact H. Qed.

Lemma rcv_snoc : forall c th k n, rcv c th k -> p_next (getp c k) = Some n -> rcv c th n.
Proof.
  intros c th k n H Hn. unfold rcv in *. destruct (j_op th); auto.
  - exact (nreach_snoc c _ _ _ H Hn).
  - destruct H as [x [E N]]. exists x. split; [exact E|exact (nreach_snoc c _ _ _ N Hn)].
Qed.

Record DN (c : jconfig) : Prop := {
  D_thr : forall t th, nth_error (jthreads c) t = Some th -> jcallpc (j_pc th) = true -> rcv c th (j_cur th);
  D_ev : forall t th k d, nth_error (jthreads c) t = Some th -> In (JEDeliver t k d) (jevents c) -> rcv c th k
}.

Lemma DN_step : forall v c t c', JV c -> JE4 c -> JInv c -> DN c -> jstep v c t = Some c' -> DN c'.
Proof.
  intros v c t c' HV HE HI HD Hs.
  pose proof (next_mono_step v c t c' HE Hs) as Hmono.
  pose proof (owner_step v c t c' Hs) as Hown.
  assert (Hrm : forall th0 k, (forall x, j_via th0 = Some x -> (x < length (jproxies c))%nat) ->
                              rcv c th0 k -> rcv c' th0 k).
  { intros th0 k Hvx H. unfold rcv in *. destruct (j_op th0); auto.
    - exact (nreach_mono c c' _ _ Hmono H).
    - destruct H as [x [E N]]. exists x. split; [exact E|]. unfold own. rewrite (Hown x (Hvx x E)).
      exact (nreach_mono c c' _ _ Hmono N). }
  unfold jstep in Hs. destruct (nth_error (jthreads c) t) as [th|] eqn:Hth; [|discriminate].
  destruct (V_thr c HV t th Hth) as [_ [_ Hvvia]].
  pose proof (D_thr c HD t th Hth) as Hdt.
  pose proof (D_ev c HD t th) as Hde.
  pose proof (HI t th Hth) as Hinv. unfold jtinv in Hinv.
  junfold Hs. jexplode Hs; inversion Hs; subst; clear Hs.
  all: unfold resolve_entry, do_known, do_final in *; goal_matches.
  all: repeat match goal with H : j_pc _ = _ |- _ => rewrite H in Hdt end; simpl in Hdt.
  all: constructor;
    [ intros t0 th0 H0; simpl in H0; rewrite ?close_sigs_threads in H0; simpl in H0;
      destruct (jupd_nth_cases _ _ _ _ _ _ Hth H0) as [[-> ->]|[Hne H0']]; clear H0;
      [ idtac
      | intros Hpc; apply Hrm; [exact (proj2 (proj2 (V_thr c HV _ _ H0')))|exact (D_thr c HD _ _ H0' Hpc)] ]
    | intros t0 th0 k0 d0 H0 Hin; simpl in H0; rewrite ?close_sigs_threads in H0; simpl in H0;
      simpl in Hin; rewrite ?close_sigs_events in Hin; simpl in Hin;
      repeat (destruct Hin as [Hin|Hin]; [try discriminate Hin|]);
      destruct (jupd_nth_cases _ _ _ _ _ _ Hth H0) as [[-> ->]|[Hne H0']]; clear H0;
      try (apply Hrm; [exact (proj2 (proj2 (V_thr c HV _ _ H0')))|exact (D_ev c HD _ _ _ _ H0' Hin)]);
      try (exfalso; inversion Hin; subst; apply Hne; reflexivity) ].
  (* threads *)
  all: try (intros Hpc; unfold jcall_done in *;
            repeat match goal with |- context [match j_via ?th with _ => _ end] => destruct (j_via th) eqn:? end;
            repeat match goal with H : context [match j_via ?th with _ => _ end] |- _ => destruct (j_via th) eqn:? end;
            cbn [j_pc j_op j_via j_cur jgoto jfinish sj_pc sj_cur sj_par sj_path sj_via sj_rest sj_waitx sj_res sj_out] in Hpc |- *;
            repeat match goal with H : j_pc _ = _ |- _ => rewrite H in Hpc end; simpl in Hpc; try discriminate Hpc).
  all: try (apply (rcv_ext _ th); [reflexivity|reflexivity|apply Hrm; [exact (proj2 (proj2 (V_thr c HV t th Hth)))|apply Hdt; reflexivity]]).
  all: try (apply (rcv_ext _ th); [reflexivity|reflexivity|
            apply Hrm; [exact (proj2 (proj2 (V_thr c HV t th Hth)))|eapply rcv_snoc; [apply Hdt; reflexivity|eassumption]]]).
  all: try (unfold rcv; cbn [j_op j_via j_cur jgoto sj_pc sj_cur sj_path sj_via];
            match goal with H : j_op _ = _ |- _ => rewrite H end; apply nr_refl).
  all: try (unfold rcv; cbn [j_op j_via j_cur jgoto sj_pc sj_cur sj_path sj_via];
            match goal with H : j_op _ = _ |- _ => rewrite H end;
            match goal with H : lookup_slot _ _ = Some (HProxy ?x) |- _ =>
              destruct (lookup_slot_in _ _ _ H) as [s' Hs']; pose proof (V_slots c HV _ _ Hs') as Hlt;
              exists x; split; [reflexivity|unfold own; rewrite (Hown x Hlt); apply nr_refl] end).
  (* events *)
  all: try (apply (rcv_ext _ th); [reflexivity|reflexivity|apply Hrm; [exact (proj2 (proj2 (V_thr c HV t th Hth)))|exact (Hde _ _ Hth Hin)]]).
  all: try (inversion Hin; subst;
            apply (rcv_ext _ th); [reflexivity|reflexivity|apply Hrm; [exact (proj2 (proj2 (V_thr c HV t th Hth)))|apply Hdt; reflexivity]]).
  all: try (unfold rcv; cbn [j_op j_via j_cur jgoto sj_pc sj_cur sj_path sj_via];
            match goal with H : j_op _ = _ |- _ => rewrite H end; exact I).
  all: exfalso; repeat match goal with H : j_op _ = _ |- _ => rewrite H in Hinv end;
       repeat match goal with H : j_pc _ = _ |- _ => rewrite H in Hinv end;
       destruct Hinv as [_ Hcnt]; exact (no_deliver_yet _ _ _ _ Hcnt Hin).
Qed.

Lemma DN_reach : forall v np ops c, jv_alloc_table v = true -> jreach v np ops c -> DN c.
Proof.
  intros v np ops c Hv H. induction H as [|c t c' Hr IH Hs].
  - constructor.
    + intros t th Hth Hpc. simpl in Hth. rewrite nth_error_map in Hth. destruct (nth_error ops t); inversion Hth; subst.
      discriminate Hpc.
    + intros t th k d _ [].
  - exact (DN_step v c t c' (JV_reach v np ops c Hr) (JE4_reach v np ops c Hv Hr) (jreach_inv v np ops c Hr) IH Hs).
Qed.

(* the delivery promise is reached from the call's receiver *)
Theorem join_delivery_receiver : forall v np ops c, jv_alloc_table v = true -> jreach v np ops c ->
  forall t th k d, nth_error (jthreads c) t = Some th -> In (JEDeliver t k d) (jevents c) ->
    match j_op th with
    | JSend k0 _ _ => nreach c k0 k
    | JCall _ _ => exists x, j_via th = Some x /\ nreach c (jx_owner (getx c x)) k
    | _ => True
    end.
Proof. intros v np ops c Hv Hr t th k d Hth Hin. exact (D_ev c (DN_reach v np ops c Hv Hr) t th k d Hth Hin). Qed.

(* ---- a promise with a result is not joined; a non-caller delivery was made at the END of the chain *)
Definition RN (c : jconfig) : Prop := forall k, p_result (getp c k) <> None -> p_next (getp c k) = None.

Lemma RN_step : forall v c t c', JR c -> JZ c -> JE4 c -> RN c -> jstep v c t = Some c' -> RN c'.
Proof.
  intros v c t c' HR HZ HE HN Hs.
  unfold jstep in Hs. destruct (nth_error (jthreads c) t) as [th|] eqn:Hth; [|discriminate].
  assert (Hact : jphase (j_cur th) th = true -> p_next (getp c (j_cur th)) = None).
  { intros Hp. pose proof (jcount_mem _ _ _ _ Hth Hp) as Hpos. rewrite (HE (j_cur th)) in Hpos.
    unfold act, p_is_joined in Hpos. destruct (p_next (getp c (j_cur th))); [|reflexivity].
    rewrite andb_false_r in Hpos. simpl in Hpos. lia. }
  pose proof (fun k => proj1 (HZ k)) as Hcn.
  junfold Hs. jexplode Hs; inversion Hs; subst; clear Hs.
  all: unfold resolve_entry, do_known, do_final; goal_matches.
  all: own_phase HR Hth.
  all: norm_negb.
  all: unfold jphase, jpre, jpost in Hact;
       repeat match goal with H : j_pc _ = _ |- _ => rewrite H in Hact end; rewrite ?Nat.eqb_refl in Hact; simpl in Hact.
  all: intros k0; pose proof (HN k0) as H0.
  all: repeat progress (autorewrite with getp_simp; rewrite ?next_close_sigs, ?result_close_sigs).
  all: eqb_all; simpl; rewrite ?next_close_joined, ?result_close_joined; simpl; try exact H0.
  all: intros Hres.
  all: try (exfalso; specialize (Hpre eq_refl); destruct Hpre as [_ Hrn]; exact (Hres Hrn)).
  all: try (apply Hact; reflexivity).
  all: apply Hcn; assumption.
Qed.

Lemma RN_reach : forall v np ops c, jv_alloc_table v = true -> jreach v np ops c -> RN c.
Proof.
  intros v np ops c Hv H. induction H as [|c t c' Hr IH Hs].
  - intros k Hres. destruct (getp_init np ops k) as [E|E]; rewrite E in *; reflexivity.
  - exact (RN_step v c t c' (JR_reach v np ops c Hr) (JZ_reach v np ops c Hv Hr) (JE4_reach v np ops c Hv Hr) IH Hs).
Qed.

Definition DE (c : jconfig) : Prop :=
  forall t k d, In (JEDeliver t k d) (jevents c) -> d <> DCaller -> p_next (getp c k) = None.

Lemma DE_step : forall v c t c', JR c -> JS c -> JK c -> JF c -> RN c -> DE c -> jstep v c t = Some c' -> DE c'.
Proof.
  intros v c t c' HR HS HK HF HN HD Hs.
  unfold jstep in Hs. destruct (nth_error (jthreads c) t) as [th|] eqn:Hth; [|discriminate].
  pose proof (HK t th Hth) as Hkok. unfold kok in Hkok.
  assert (Hsig : forall k, jphase k th = true -> p_signals (getp c k) <> []).
  { intros k Hp. apply (S_thr c HS t th k Hth). unfold jphase in Hp. apply orb_true_iff in Hp. exact Hp. }
  junfold Hs. jexplode Hs; inversion Hs; subst; clear Hs.
  all: unfold resolve_entry, do_known, do_final; goal_matches.
  all: own_phase HR Hth.
  all: repeat match goal with H : j_pc _ = _ |- _ => rewrite H in Hkok end.
  all: unfold jphase, jpre, jpost in Hsig; repeat match goal with H : j_pc _ = _ |- _ => rewrite H in Hsig end; simpl in Hsig.
  all: intros t0 k0 d0 Hin Hd; simpl in Hin; rewrite ?close_sigs_events in Hin; simpl in Hin.
  all: repeat (destruct Hin as [Hin|Hin]; [try discriminate Hin|]).
  (* an older delivery *)
  all: try (pose proof (HD _ _ _ Hin Hd) as Hnx; pose proof (HF _ _ _ Hin Hd) as [Hfa Hfb];
            repeat progress (autorewrite with getp_simp; rewrite ?next_close_sigs);
            eqb_all; simpl; rewrite ?next_close_joined; simpl;
            first [ exact Hnx
                  | (exfalso; specialize (Hpre eq_refl); destruct Hpre as [_ Hrn];
                     destruct Hfb as [Hfb|Hfb]; [exact (Hfb Hrn)|];
                     apply (Hsig (j_cur th)); [rewrite ?Nat.eqb_refl; reflexivity|exact Hfb]) ]).
  (* the delivery made in this step: at a promise without a next edge *)
  all: inversion Hin; subst; try (exfalso; apply Hd; reflexivity).
  all: repeat progress (autorewrite with getp_simp); first [assumption|apply HN; exact (proj2 Hkok)].
Qed.

Lemma DE_reach : forall v np ops c, jv_alloc_table v = true -> jreach v np ops c -> DE c.
Proof.
  intros v np ops c Hv H. induction H as [|c t c' Hr IH Hs]; [intros t k d []|].
  exact (DE_step v c t c' (JR_reach v np ops c Hr) (JS_reach v np ops c Hr) (JK_reach v np ops c Hr)
           (JF_reach v np ops c Hr) (RN_reach v np ops c Hv Hr) IH Hs).
Qed.

(* pipelined_exactly_once, destination part on chains, tied to the receiver: a delivery of call t was made at a
   promise k reached along next from the call's receiver (the promise of PipelineSend/Recv, or the owner of the proxy
   client the call came through); it went to k's PipelineCaller (only while k was unresolved: join_caller_before_
   resolution), or k is the END of that chain, its result is final, and the call went to what that result holds at the
   call's path *)
Theorem join_delivery_destination_recv : forall v np ops c, jv_alloc_table v = true -> jreach v np ops c ->
  forall t th k d, nth_error (jthreads c) t = Some th -> In (JEDeliver t k d) (jevents c) ->
    match j_op th with
    | JSend k0 _ _ => nreach c k0 k
    | JCall _ _ => exists x, j_via th = Some x /\ nreach c (jx_owner (getx c x)) k
    | _ => True
    end /\
    (d = DCaller \/
     (p_next (getp c k) = None /\ d = res_dest (jcur_res (getp c k)) (j_path th) /\ p_caller (getp c k) = false /\
      (p_result (getp c k) <> None \/ p_signals (getp c k) = []))).
Proof.
  intros v np ops c Hv Hr t th k d Hth Hin. split; [exact (join_delivery_receiver v np ops c Hv Hr t th k d Hth Hin)|].
  destruct (join_delivery_destination v np ops c Hr t th k d Hth Hin) as [H|[A [B C]]]; [left; exact H|].
  destruct (dest_caller_dec d) as [Hd|Hd]; [left; exact Hd|right].
  split; [exact (DE_reach v np ops c Hv Hr t k d Hin Hd)|]. auto.
Qed.

(* pipelined_exactly_once on chains, the three parts in one statement *)
Theorem join_pipelined_exactly_once_full : forall v np ops c, jv_alloc_table v = true -> jreach v np ops c ->
  (forall t th, nth_error (jthreads c) t = Some th ->
    match j_op th with
    | JSend _ _ _ =>
      (jcnt (jis_deliver t) (jevents c) <= 1)%nat /\
      (j_pc th = QDone -> jcnt (jis_deliver t) (jevents c) = 1%nat)
    | JCall _ _ =>
      (jcnt (jis_deliver t) (jevents c) <= 1)%nat /\
      (j_pc th = QDone -> (j_out th = ONoSlot /\ jcnt (jis_deliver t) (jevents c) = 0%nat) \/
                          (j_out th = ORet /\ jcnt (jis_deliver t) (jevents c) = 1%nat))
    | _ => True
    end) /\
  wf_jcaller (jevents c) /\
  (forall t th k d, nth_error (jthreads c) t = Some th -> In (JEDeliver t k d) (jevents c) ->
    match j_op th with
    | JSend k0 _ _ => nreach c k0 k
    | JCall _ _ => exists x, j_via th = Some x /\ nreach c (jx_owner (getx c x)) k
    | _ => True
    end /\
    (d = DCaller \/
     (p_next (getp c k) = None /\ d = res_dest (jcur_res (getp c k)) (j_path th) /\ p_caller (getp c k) = false /\
      (p_result (getp c k) <> None \/ p_signals (getp c k) = [])))).
Proof.
  intros v np ops c Hv H. split; [exact (join_pipelined_exactly_once v np ops c H)|].
  split; [exact (join_caller_before_resolution v np ops c H)|exact (join_delivery_destination_recv v np ops c Hv H)].
Qed.
