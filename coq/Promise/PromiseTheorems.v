(* The C11 statements about the model of answer.go after the two fixes (variant [fixed]), for
   every operation list and every schedule, derived from the invariant Inv. *)
From CV Require Import Promise.Promise Promise.PromiseProofs Promise.PromiseStepProofs Promise.MuProofs.
Open Scope Z_scope.

Lemma reach_inv : forall ops c, reach fixed ops c -> Inv c.
Proof.
  intros ops c H. induction H as [|c t c' Hr IH Hs]; [apply init_inv|exact (step_inv c t c' IH Hs)].
Qed.

(* ---- the promise resolves at most once; a second Fulfill / Reject panics *)
Lemma resolve_once : forall ops c, reach fixed ops c ->
  (cnt is_resolved (events c) <= 1)%nat /\ (cnt is_begin (events c) <= 1)%nat /\
  (cnt is_resolved (events c) = 1%nat <-> sig_open c = false) /\
  forall t th, nth_error (threads c) t = Some th -> is_res_op (t_op th) = true -> t_pc th = PDone ->
    t_out th = OPanic \/
    (t_out th = ORet /\ In (EBegin t) (events c) /\ In (EResolved t) (events c) /\
     result c = Some (op_res (t_op th))).
Proof.
  intros ops c H. pose proof (reach_inv ops c H) as HI.
  rewrite (I_resolved c HI), (I_begin c HI).
  repeat split.
  - destruct (sig_open c); simpl; lia.
  - destruct (caller c); simpl; lia.
  - destruct (sig_open c); simpl; congruence.
  - destruct (sig_open c); simpl; congruence.
  - intros t th Hth Hop Hpc. pose proof (I_threads c HI t th Hth) as T. unfold tinv in T. rewrite Hpc in T.
    destruct (t_op th); try discriminate; exact T.
Qed.

(* ---- every pipelined call is delivered exactly once, to the PipelineCaller only before any
   Fulfill/Reject has passed its check, otherwise (after the resolution) to what the result
   holds at its path *)
Lemma pipelined_exactly_once : forall ops c, reach fixed ops c ->
  wf_log (events c) /\
  (sig_open c = true -> forall t d, In (EDeliver t d) (events c) -> d = DCaller) /\
  forall t th, nth_error (threads c) t = Some th ->
    match t_op th with
    | OSend p _ =>
      (cnt (is_deliver t) (events c) <= 1)%nat /\
      (t_pc th = PDone -> cnt (is_deliver t) (events c) = 1%nat /\ t_out th = ORet) /\
      (forall d, In (EDeliver t d) (events c) -> d = DCaller \/ d = res_dest (cur_res c) p)
    | OCall _ _ =>
      (cnt (is_deliver t) (events c) <= 1)%nat /\
      (t_pc th = PDone -> (t_out th = ONoSlot /\ cnt (is_deliver t) (events c) = 0%nat) \/
                          (t_out th = ORet /\ cnt (is_deliver t) (events c) = 1%nat))
    | _ => True
    end.
Proof.
  intros ops c H. pose proof (reach_inv ops c H) as HI.
  split; [apply HI|]. split; [apply HI|].
  intros t th Hth. pose proof (I_threads c HI t th Hth) as T. unfold tinv in T.
  destruct (t_op th); auto.
  - destruct T as [H1 [H2 [H3 H4]]]. rewrite H1. split; [|split; [|exact H2]].
    + destruct (delivered_pc (t_pc th)); simpl; lia.
    + intros Hpc. rewrite Hpc in H4. rewrite Hpc. simpl. auto.
  - split.
    + destruct (t_pc th); try tauto; try lia.
    + intros Hpc. rewrite Hpc in T. exact T.
Qed.

(* ---- asking for the same pipelined client again returns the same proxy and leaves mu free *)
Lemma nodup_map_nth : forall (l : list proxy) x y a b,
  NoDup (map px_path l) -> nth_error l x = Some a -> nth_error l y = Some b -> px_path a = px_path b -> x = y.
Proof.
  intros l x y a b Hn Hx Hy Hp.
  apply (proj1 (NoDup_nth_error (map px_path l)) Hn).
  - rewrite map_length. apply nth_error_Some. congruence.
  - rewrite (map_nth_error px_path x l Hx), (map_nth_error px_path y l Hy). congruence.
Qed.

Lemma client_idempotent : forall ops c, reach fixed ops c ->
  mu c = None /\
  forall t1 t2 th1 th2 p s1 s2 x1 x2,
    nth_error (threads c) t1 = Some th1 -> nth_error (threads c) t2 = Some th2 ->
    t_op th1 = OClient p s1 -> t_op th2 = OClient p s2 ->
    t_pc th1 = PDone -> t_pc th2 = PDone ->
    t_out th1 = OHandle (HProxy x1) -> t_out th2 = OHandle (HProxy x2) -> x1 = x2.
Proof.
  intros ops c H. pose proof (reach_inv ops c H) as HI. split; [apply HI|].
  intros t1 t2 th1 th2 p s1 s2 x1 x2 H1 H2 O1 O2 P1 P2 R1 R2.
  pose proof (I_threads c HI t1 th1 H1) as T1. pose proof (I_threads c HI t2 th2 H2) as T2.
  unfold tinv in T1, T2. rewrite O1, P1 in T1. rewrite O2, P2 in T2.
  destruct T1 as [h1 [E1 T1]]. destruct T2 as [h2 [E2 T2]].
  rewrite R1 in E1. rewrite R2 in E2. inversion E1; inversion E2; subst h1 h2.
  destruct T1 as [px1 [A1 B1]]. destruct T2 as [px2 [A2 B2]].
  apply (nodup_map_nth (proxies c) x1 x2 px1 px2 (I_paths c HI) A1 A2). congruence.
Qed.

(* ---- once the promise is resolved nobody who waits for it stays blocked: every unfinished
   Struct/Done waiter (and ReleaseClients caller) has an enabled step.  (That it then finishes
   in two steps is by the shape of the program; that resolution eventually comes is no_stuck,
   which is not proved here.) *)
Lemma waiters_released_partial : forall ops c, reach fixed ops c -> sig_open c = false ->
  forall t th, nth_error (threads c) t = Some th -> t_op th = OWait -> t_pc th <> PDone ->
               enabled fixed c t = true.
Proof.
  intros ops c H Hso t th Hth Hop Hpc. pose proof (reach_inv ops c H) as HI.
  pose proof (I_threads c HI t th Hth) as T. unfold tinv in T. rewrite Hop in T.
  unfold enabled, step. rewrite Hth. unfold step_thread.
  destruct (t_pc th) eqn:E; try contradiction; try congruence.
  - rewrite Hop, Hso. reflexivity.
  - unfold sec_after_res, mu_free. rewrite (I_mu c HI), Hop. reflexivity.
Qed.

(* ---- refuted on the model of answer.go before the second fix (F11 fixed only): the resolve
   deadlock.  Two proxy clients, a call through each is inside the PipelineCaller, Fulfill is
   requested, a new call through each proxy arrives while the resolution is pending, then the
   PipelineCaller returns both calls: Fulfill (thread 4) and the new call through the proxy that
   resolve had not reached yet (thread 6) wait for each other forever; the Struct waiter is never
   released. *)
Definition deadlock_history : list op :=
  [OClient [0] 0; OClient [1] 1; OCall 0 true; OCall 1 true; OFulfill [([0], 1); ([1], 2)] [];
   OCall 0 false; OCall 1 false; OUngate 2; OUngate 3; OWait].

Definition all_tids (c : config) : list nat := seq 0 (length (threads c)).

Example no_stuck_refuted :
  match quiesce f11_fixed 1000 (init deadlock_history) 10 with
  | Some c => forallb (fun t => negb (enabled f11_fixed c t)) (all_tids c) = true /\
              finished c 4 = false /\ finished c 6 = false /\ finished c 9 = false /\ mu c = None
  | None => False
  end.
Proof. vm_compute. repeat split; reflexivity. Qed.

(* the same history on the model of the fixed code runs to completion *)
Example deadlock_history_fixed :
  match quiesce fixed 1000 (init deadlock_history) 10 with
  | Some c => forallb (finished c) (all_tids c) = true
  | None => False
  end.
Proof. vm_compute. reflexivity. Qed.
