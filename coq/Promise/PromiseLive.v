(* Liveness side of C11 for the model of answer.go after the fixes: counting invariants
   (ongoingCalls = threads inside the PipelineCaller, hook.calls = threads inside a call through
   that proxy, ...) in every configuration reachable under any schedule, then deadlock freedom. *)
From CV Require Import Promise.Promise Promise.PromiseProofs Promise.PromiseStepProofs Promise.PromiseTheorems.
Open Scope Z_scope.

(* ---------------------------------------------------------------- counting threads *)

Definition b2z (b : bool) : Z := if b then 1 else 0.

Fixpoint countT (f : thread -> bool) (l : list thread) : Z :=
  match l with [] => 0 | a :: r => b2z (f a) + countT f r end.

Lemma countT_nonneg : forall f l, 0 <= countT f l.
Proof. induction l; cbn [countT]; [lia|]. destruct (f a); unfold b2z; lia. Qed.

Lemma countT_upd : forall f l t th th',
  nth_error l t = Some th -> countT f (upd t th' l) = countT f l - b2z (f th) + b2z (f th').
Proof.
  induction l as [|a l IH]; intros t th th' H; destruct t; cbn [countT upd nth_error] in *; try discriminate.
  - inversion H; subst. lia.
  - rewrite (IH t th th' H). lia.
Qed.

Lemma countT_pos : forall f l, 0 < countT f l -> exists t th, nth_error l t = Some th /\ f th = true.
Proof.
  induction l as [|a l IH]; cbn [countT]; intros H; [lia|].
  destruct (f a) eqn:E.
  - exists 0%nat, a. auto.
  - unfold b2z in H. destruct (IH ltac:(lia)) as [t [th [H1 H2]]]. exists (S t), th. auto.
Qed.

Lemma countT_mem : forall f l t th, nth_error l t = Some th -> f th = true -> 0 < countT f l.
Proof.
  induction l as [|a l IH]; intros t th H Hf; destruct t; cbn [countT nth_error] in *; try discriminate.
  - inversion H; subst. rewrite Hf. pose proof (countT_nonneg f l). unfold b2z. lia.
  - pose proof (IH t th H Hf). destruct (f a); unfold b2z; lia.
Qed.

Lemma countT_map_init : forall f ops, (forall o, f (mk_thread o) = false) -> countT f (map mk_thread ops) = 0.
Proof. induction ops; cbn [countT map]; intros H; auto. rewrite H, IHops; auto. Qed.

(* inside caller.PipelineSend / PipelineRecv: counted in ongoingCalls *)
Definition in_caller (th : thread) : bool :=
  match t_pc th with PInCaller | PCallRelock => true | _ => false end.

(* inside a call that came through proxy x: counted in that hook's calls *)
Definition call_pc (p : pc) : bool :=
  match p with PCallLock | PInCaller | PCallRelock | PWaitRes | PAfterRes | PCallFinish => true | _ => false end.

Definition in_px_call (x : nat) (th : thread) : bool :=
  match t_op th with
  | OCall _ _ => match t_via th with Some y => Nat.eqb x y && call_pc (t_pc th) | None => false end
  | _ => false
  end.

(* ---------------------------------------------------------------- exploding a step *)

Ltac explode Hs :=
  repeat (match type of Hs with
          | (if ?b then _ else _) = Some _ => destruct b eqn:?
          | match ?x with _ => _ end = Some _ => destruct x eqn:?
          end); try discriminate Hs.

Ltac step_cases HI Hs Hth :=
  unfold step in Hs;
  match type of Hs with match nth_error ?l ?t with _ => _ end = _ =>
    destruct (nth_error l t) as [th|] eqn:Hth; [|discriminate Hs] end;
  let Hmu := fresh "Hmu" in
  pose proof (I_mu _ HI) as Hmu;
  unfold step_thread, sec_resolve_start, sec_fulfil_proxy, sec_commit, sec_close, sec_call_lock, sec_call_relock,
    sec_call_finish, sec_after_res, sec_client, sec_call_start, sec_release_proxy, mu_free, call_done,
    commit, close_done, commit_k in Hs;
  rewrite Hmu in Hs; cbn [negb v_late_fulfil v_unlock_on_hit v_known_first fixed] in Hs;
  explode Hs; inversion Hs; subst; clear Hs.

(* ---- N1: ongoingCalls counts the threads inside the PipelineCaller *)
Definition N1 (c : config) : Prop := ongoing c = countT in_caller (threads c).

Ltac split_via :=
  repeat match goal with |- context [match t_via ?th with _ => _ end] => destruct (t_via th) eqn:? end.

Ltac count_tac Hth HN :=
  split_via; simpl; rewrite ?(countT_upd _ _ _ _ _ Hth); rewrite <- ?HN; unfold in_caller, in_px_call, call_pc; simpl;
  repeat match goal with H : t_pc _ = _ |- _ => rewrite H end;
  repeat match goal with H : t_via _ = _ |- _ => rewrite H end; simpl.

Lemma N1_step : forall c t c', Inv c -> N1 c -> step fixed c t = Some c' -> N1 c'.
Proof.
  intros c t c' HI HN Hs. unfold N1 in *.
  step_cases HI Hs Hth; count_tac Hth HN; unfold b2z; try lia.
Qed.

Ltac boolp :=
  repeat match goal with
         | H : (_ <? _) = true |- _ => apply Z.ltb_lt in H
         | H : (_ <? _) = false |- _ => apply Z.ltb_ge in H
         | H : (_ =? _) = true |- _ => apply Z.eqb_eq in H
         | H : (_ =? _) = false |- _ => apply Z.eqb_neq in H
         end.

(* ---- N2: callsStopped is open only while calls are still inside the PipelineCaller *)
Definition N2 (c : config) : Prop := stopped c = COpen -> 0 < ongoing c /\ caller c = false.

Lemma N2_step : forall c t c', Inv c -> N2 c -> step fixed c t = Some c' -> N2 c'.
Proof.
  intros c t c' HI HN Hs. unfold N2 in *.
  step_cases HI Hs Hth; split_via; simpl; intros;
    repeat match goal with
           | H : context [match stopped ?c0 with _ => _ end] |- _ => destruct (stopped c0) eqn:?
           | H : context [if ?b then _ else _] |- _ => destruct b eqn:?
           end; boolp; try discriminate;
    try (destruct HN as [H1 H2]; [congruence|]); try (split; [lia|congruence]); try congruence; auto.
Qed.

(* ---- N3: exactly one thread is between "caller := nil" and the commit while the promise is pending *)
Definition N3 (c : config) : Prop :=
  countT in_precommit (threads c) = b2z (negb (caller c) && sig_open c).

Lemma N3_step : forall c t c', Inv c -> N3 c -> step fixed c t = Some c' -> N3 c'.
Proof.
  intros c t c' HI HN Hs. unfold N3 in *.
  pose proof (I_caller_sig c HI) as Hcs.
  step_cases HI Hs Hth.
  all: pose proof (I_threads c HI t th Hth) as HT; unfold tinv in HT.
  all: split_via; simpl; rewrite ?(countT_upd _ _ _ _ _ Hth); rewrite ?HN; unfold in_precommit.
  all: cbn [t_pc t_op goto finish enter_call].
  all: repeat match goal with H : t_pc _ = _ |- _ => rewrite H in * end.
  all: destruct (t_op th) eqn:Hop; cbn [precommit_pc is_res_op andb negb] in *.
  all: try (exfalso; tauto).
  all: destruct (caller c); destruct (sig_open c); cbn [andb negb b2z] in *; try lia; try discriminate;
         try (exfalso; tauto); try (specialize (Hcs eq_refl); discriminate).
Qed.

(* ---- NL: the owner releases the result only after the resolution is signalled *)
Definition NL (c : config) : Prop := done_open c = true -> res_alive c = true.

Lemma NL_step : forall c t c', Inv c -> NL c -> step fixed c t = Some c' -> NL c'.
Proof.
  intros c t c' HI HN Hs. unfold NL in *.
  step_cases HI Hs Hth; split_via; simpl; intros; try discriminate; try congruence; auto.
Qed.

(* ---- N6: exactly one thread is between "result known" and closing the signals *)
Definition N6 (c : config) : Prop :=
  countT in_postk (threads c) = b2z (negb (sig_open c) && done_open c).

Lemma N6_step : forall c t c', Inv c -> NL c -> N6 c -> step fixed c t = Some c' -> N6 c'.
Proof.
  intros c t c' HI HL HN Hs. unfold N6, NL in *.
  pose proof (I_caller_sig c HI) as Hcs. pose proof (I_done c HI) as Hdn.
  step_cases HI Hs Hth.
  all: pose proof (I_threads c HI t th Hth) as HT; unfold tinv in HT.
  all: split_via; simpl; rewrite ?(countT_upd _ _ _ _ _ Hth); rewrite ?HN; unfold in_postk.
  all: cbn [t_pc t_op goto finish enter_call].
  all: repeat match goal with H : t_pc _ = _ |- _ => rewrite H in * end.
  all: destruct (t_op th) eqn:Hop; cbn [postk_pc is_res_op andb negb] in *.
  all: try (exfalso; tauto).
  all: destruct (caller c) eqn:Ec; destruct (sig_open c) eqn:Es; destruct (done_open c) eqn:Ed;
         cbn [andb negb b2z] in *; try lia; try discriminate;
         try (exfalso; tauto); try (specialize (Hcs eq_refl); discriminate); try (specialize (Hdn eq_refl); discriminate);
         try (rewrite (HL eq_refl) in *; discriminate).
Qed.

(* ---- NS: proxy handles in the slots refer to existing proxies *)
Definition NS (c : config) : Prop :=
  forall s x, In (s, HProxy x) (slots c) -> (x < length (proxies c))%nat.

Lemma NS_step : forall c t c', Inv c -> NS c -> step fixed c t = Some c' -> NS c'.
Proof.
  intros c t c' HI HN Hs. unfold NS in *.
  pose proof (I_table c HI) as Htab.
  step_cases HI Hs Hth; split_via; simpl; intros s0 x0 Hin; rewrite ?length_upd, ?app_length; simpl;
    try (destruct Hin as [He|Hin]; [inversion He; subst|]); try discriminate;
    try (specialize (HN _ _ Hin); lia); try lia.
  (* Future.Client found the proxy in the table *)
  destruct (Htab eq_refl) as [H1 H2].
  match goal with H : find_client _ _ = Some _ |- _ =>
    destruct (table_lookup _ _ 0%nat _ _ H1 H2 (find_client_some _ _ _ H)) as [px [Ha _]] end.
  rewrite Nat.sub_0_r in Ha. apply nth_error_Some. congruence.
Qed.

Lemma lookup_slot_in' : forall sl s h, lookup_slot sl s = Some h -> In (s, h) sl \/ exists s', In (s', h) sl.
Proof. intros. right. eapply lookup_slot_in; eauto. Qed.

(* ---- N4: hook.calls of a proxy counts the threads inside a call through it *)
Definition N4 (c : config) : Prop :=
  (forall x px, nth_error (proxies c) x = Some px -> px_calls px = countT (in_px_call x) (threads c)) /\
  (forall x, (length (proxies c) <= x)%nat -> countT (in_px_call x) (threads c) = 0).

Ltac px_cases Hx0 :=
  simpl in Hx0;
  match type of Hx0 with
  | nth_error (upd ?x ?p ?l) ?x0 = Some ?px0 =>
    let b0 := fresh "b0" in let Hb0 := fresh "Hb0" in let Hne := fresh "Hne" in
    destruct (nth_error_upd_cases _ _ _ _ _ _ Hx0) as [[-> [-> [b0 Hb0]]]|[Hne Hx0']];
    [rewrite ?(get_px_nth _ _ _ Hb0) in *|]
  | nth_error (?l ++ [?a]) ?x0 = Some ?px0 =>
    let Hx0' := fresh "Hx0'" in
    destruct (nth_error_app_new _ _ _ _ _ Hx0) as [Hx0'|[-> ->]]
  | _ => idtac
  end.

Ltac eqb_nat :=
  repeat match goal with
         | |- context [Nat.eqb ?a ?b] => destruct (Nat.eqb_spec a b)
         | H : context [Nat.eqb ?a ?b] |- _ => destruct (Nat.eqb_spec a b)
         end.

Ltac count_px Hth :=
  rewrite ?(countT_upd _ _ _ _ _ Hth); unfold in_px_call; cbn [t_pc t_via t_op goto finish enter_call];
  repeat match goal with H : t_pc _ = _ |- _ => rewrite H end;
  repeat match goal with H : t_op _ = _ |- _ => rewrite H end;
  repeat match goal with H : t_via _ = _ |- _ => rewrite H end;
  cbn [call_pc]; rewrite ?andb_false_r, ?andb_true_r.

Lemma via_none_b2z : forall (o : option nat) (f : nat -> bool),
  b2z (match o with Some y => f y && false | None => false end) = 0.
Proof. intros. destruct o; rewrite ?andb_false_r; reflexivity. Qed.

Lemma N4_step : forall c t c', Inv c -> NS c -> N4 c -> step fixed c t = Some c' -> N4 c'.
Proof.
  intros c t c' HI HS [HN HV] Hs. unfold N4.
  step_cases HI Hs Hth; split_via.
  all: pose proof (I_threads c HI t th Hth) as HT; unfold tinv in HT.
  all: repeat match goal with H : t_pc _ = _ |- _ => rewrite H in HT end.
  all: destruct (t_op th) eqn:Hop; try discriminate; try (exfalso; tauto); clear HT.
  all: split; [intros x0 px0 Hx0; px_cases Hx0 | intros x0 Hx0; simpl in Hx0; rewrite ?length_upd, ?app_length in Hx0; simpl in Hx0].
  all: simpl; rewrite ?(countT_upd _ _ _ _ _ Hth).
  all: try match goal with H : lookup_slot _ _ = Some (HProxy ?x) |- _ =>
             let s' := fresh in let Hi := fresh in
             destruct (lookup_slot_in _ _ _ H) as [s' Hi]; pose proof (HS _ _ Hi) end.
  all: first [ rewrite <- (HN _ _ Hb0) | rewrite <- (HN _ _ Hx0') | rewrite <- (HN _ _ Hx0)
             | rewrite (HV x0) by lia | rewrite (HV (length (proxies c))) by lia | idtac ].
  all: count_px Hth; simpl; eqb_nat; unfold b2z; try lia; try congruence.
  all: try (destruct (t_via th); rewrite ?andb_false_r; lia).
  (* finish() of a call through a proxy that does not exist: impossible, the thread is counted *)
  exfalso. subst.
  assert (Hf : in_px_call n th = true).
  { unfold in_px_call. rewrite Hop, Heqo, Heqp, Nat.eqb_refl. reflexivity. }
  pose proof (countT_mem _ _ _ _ Hth Hf) as Hpos. rewrite (HV n Hx0) in Hpos. lia.
Qed.

(* ---- N5: hook.refs is 0 or 1, and done is closed as soon as refs = 0 and calls = 0 *)
Definition N5 (c : config) : Prop :=
  forall x px, nth_error (proxies c) x = Some px ->
    0 <= px_refs px /\ (px_target px = None -> px_rel px = false -> px_refs px = 1) /\
    (px_refs px <= 0 -> px_calls px = 0 -> px_done px = true).

Lemma N5_step : forall c t c', Inv c -> N4 c -> N5 c -> step fixed c t = Some c' -> N5 c'.
Proof.
  intros c t c' HI [H4 _] HN Hs. unfold N5 in *.
  step_cases HI Hs Hth; split_via.
  all: intros x0 px0 Hx0; px_cases Hx0.
  all: try (exact (HN _ _ Hx0)); try (exact (HN _ _ Hx0')).
  all: try (simpl; repeat split; intros; try lia; try discriminate; fail).
  all: pose proof (HN _ _ Hb0) as [Ha [Hb Hc]]; pose proof (H4 _ _ Hb0) as Hcnt;
       match type of Hb0 with nth_error _ ?x = _ =>
         pose proof (countT_nonneg (in_px_call x) (threads c)) as Hnn end.
  all: simpl; boolp; repeat split; intros; try lia; try discriminate; try congruence;
       repeat match goal with
              | |- context [if ?b then _ else _] => destruct b eqn:?
              | H : context [if ?b then _ else _] |- _ => destruct b eqn:?
              end; boolp;
       try reflexivity; try lia; try (apply Hc; lia); try (rewrite Hb in *; auto; lia); try congruence.
Qed.

(* ---- thread-indexed clauses *)

Lemma upd_nth_cases : forall (l : list thread) t th th' t0 th0,
  nth_error l t = Some th -> nth_error (upd t th' l) t0 = Some th0 ->
  (t0 = t /\ th0 = th') \/ (t0 <> t /\ nth_error l t0 = Some th0).
Proof.
  intros l t th th' t0 th0 Hth H0. destruct (Nat.eq_dec t0 t) as [->|Hne].
  - rewrite (nth_error_upd_same _ _ _ _ _ Hth) in H0. inversion H0. auto.
  - rewrite nth_error_upd_other in H0 by auto. auto.
Qed.

(* NA: while Fulfill/Reject waits for callsStopped the channel exists *)
Definition NA (c : config) : Prop :=
  forall t0 th0, nth_error (threads c) t0 = Some th0 -> is_res_op (t_op th0) = true ->
                 t_pc th0 = PStopWait -> stopped c <> CNil.

Lemma NA_step : forall c t c', Inv c -> NA c -> step fixed c t = Some c' -> NA c'.
Proof.
  intros c t c' HI HN Hs. unfold NA in *.
  step_cases HI Hs Hth; split_via.
  all: intros t0 th0 H0 Hr Hp; simpl in H0;
       destruct (upd_nth_cases _ _ _ _ _ _ Hth H0) as [[-> ->]|[Hne H0']];
       [simpl in Hp; try discriminate; simpl; try discriminate | pose proof (HN _ _ H0' Hr Hp) as Hold; simpl].
  all: try exact Hold.
  all: try (destruct (stopped c); try congruence; destruct (_ =? _); discriminate).
  all: try (exfalso; pose proof (I_threads c HI _ _ H0') as T0; unfold tinv in T0; rewrite Hp in T0;
            destruct (t_op th0); try discriminate; destruct T0 as [T0 _]; rewrite T0 in *; simpl in *; discriminate).
  all: exfalso; apply Hne; apply (I_unique c HI t0 t th0 th H0' Hth);
       unfold in_precommit; [rewrite Hr, Hp; reflexivity|].
  all: pose proof (I_threads c HI _ _ Hth) as T; unfold tinv in T;
       repeat match goal with H : t_pc _ = _ |- _ => rewrite H in T; rewrite H end;
       try reflexivity; destruct (t_op th); try (exfalso; tauto); reflexivity.
Qed.

(* TV: the table only refers to existing proxies *)
Definition TV (c : config) : Prop := forall p x, In (p, x) (clients c) -> (x < length (proxies c))%nat.

Lemma TV_step : forall c t c', Inv c -> TV c -> step fixed c t = Some c' -> TV c'.
Proof.
  intros c t c' HI HN Hs. unfold TV in *.
  step_cases HI Hs Hth; split_via; simpl; intros p0 x0 Hin; rewrite ?length_upd, ?app_length; simpl;
    try (exact (HN _ _ Hin)); try contradiction.
  apply in_app_or in Hin. destruct Hin as [Hin|[He|[]]]; [specialize (HN _ _ Hin); lia|inversion He; lia].
Qed.

(* NT: indices carried in the program counters are valid; a thread waiting for a hook's done has
   dropped that hook's last reference; a call waiting for the resolution saw caller = nil *)
Definition valid_ix (c : config) (l : list nat) : Prop := forall y, In y l -> (y < length (proxies c))%nat.
Definition refs0 (c : config) (x : nat) : Prop :=
  exists px, nth_error (proxies c) x = Some px /\ px_refs px <= 0.

Definition tinv2 (c : config) (th : thread) : Prop :=
  (t_pc th = PWaitRes -> caller c = false) /\
  match t_pc th with
  | PFul rest | PRel rest => valid_ix c rest
  | PFulWait x rest | PRelWait x rest => valid_ix c rest /\ refs0 c x
  | _ => True
  end.

Definition NT (c : config) : Prop := forall t th, nth_error (threads c) t = Some th -> tinv2 c th.

Definition mono (c c' : config) : Prop :=
  (caller c = false -> caller c' = false) /\
  (forall y px, nth_error (proxies c) y = Some px ->
                exists px', nth_error (proxies c') y = Some px' /\ px_refs px' <= px_refs px).

Lemma valid_ix_mono : forall c c' l, mono c c' -> valid_ix c l -> valid_ix c' l.
Proof.
  intros c c' l [_ Hm] Hv y Hy. specialize (Hv y Hy).
  destruct (nth_error (proxies c) y) as [px|] eqn:E; [|apply nth_error_None in E; lia].
  destruct (Hm y px E) as [px' [H1 _]]. apply nth_error_Some. congruence.
Qed.

Lemma refs0_mono : forall c c' x, mono c c' -> refs0 c x -> refs0 c' x.
Proof.
  intros c c' x [_ Hm] [px [H1 H2]]. destruct (Hm x px H1) as [px' [H3 H4]]. exists px'. split; [auto|lia].
Qed.

Lemma tinv2_mono : forall c c' th, mono c c' -> tinv2 c th -> tinv2 c' th.
Proof.
  intros c c' th Hm [H1 H2]. split; [intros Hp; apply (proj1 Hm); auto|].
  destruct (t_pc th); auto; try (eapply valid_ix_mono; eauto).
  - destruct H2; split; [eapply valid_ix_mono|eapply refs0_mono]; eauto.
  - destruct H2; split; [eapply valid_ix_mono|eapply refs0_mono]; eauto.
Qed.

Lemma mono_px_upd : forall (l : list proxy) x p' y px,
  nth_error l y = Some px -> (forall b0, nth_error l x = Some b0 -> px_refs p' <= px_refs b0) ->
  exists px', nth_error (upd x p' l) y = Some px' /\ px_refs px' <= px_refs px.
Proof.
  intros l x p' y px Hy Hr. destruct (Nat.eq_dec x y) as [->|Hne].
  - exists p'. split; [eapply nth_error_upd_same; eauto|auto].
  - exists px. split; [rewrite nth_error_upd_other; auto|lia].
Qed.

Lemma pick_ord_in : forall ord cl y, In y (pick_ord ord cl) -> In y (map snd cl).
Proof.
  induction ord as [|q ord IH]; simpl; intros cl y H; [contradiction|].
  destruct (find_client cl q) as [x|] eqn:E; [|eauto].
  destruct (mem_nat x (pick_ord ord cl)); [eauto|].
  destruct H as [<-|H]; [|eauto].
  apply find_client_some in E. apply in_map_iff. exists (q, x). auto.
Qed.

Lemma iter_order_in : forall ord cl y, In y (iter_order ord cl) -> In y (map snd cl).
Proof.
  intros ord cl y H. unfold iter_order in H. apply in_app_or in H. destruct H as [H|H].
  - eapply pick_ord_in; eauto.
  - apply filter_In in H. tauto.
Qed.

Lemma table_valid : forall c l, TV c -> (forall y, In y l -> In y (map snd (clients c))) -> valid_ix c l.
Proof.
  intros c l HV H y Hy. apply H in Hy. apply in_map_iff in Hy. destruct Hy as [[p x] [<- Hin]]. exact (HV _ _ Hin).
Qed.

Lemma mono_step : forall c t c', Inv c -> N5 c -> step fixed c t = Some c' -> mono c c'.
Proof.
  intros c t c' HI H5 Hs.
  step_cases HI Hs Hth; split_via; (split; [simpl; intros; try congruence; auto|]).
  all: intros y px Hy; simpl.
  all: try (exists px; split; [exact Hy|lia]).
  all: try (exists px; split; [rewrite nth_error_app1; [exact Hy|apply nth_error_Some; congruence]|lia]).
  all: apply mono_px_upd; [exact Hy|]; intros b0 Hb0; rewrite (get_px_nth _ _ _ Hb0) in *; simpl;
       pose proof (H5 _ _ Hb0) as [Ha _]; boolp; lia.
Qed.

Lemma valid_cons : forall c x l, valid_ix c (x :: l) -> (x < length (proxies c))%nat /\ valid_ix c l.
Proof. intros c x l H. split; [apply H; left; reflexivity|intros y Hy; apply H; right; exact Hy]. Qed.

Lemma NT_step : forall c t c', Inv c -> N5 c -> TV c -> NT c -> step fixed c t = Some c' -> NT c'.
Proof.
  intros c t c' HI H5 HV HN Hs.
  pose proof (mono_step c t c' HI H5 Hs) as Hm.
  intros t0 th0 H0.
  unfold step in Hs. destruct (nth_error (threads c) t) as [th|] eqn:Hth; [|discriminate].
  assert (Hup : exists th', threads c' = upd t th' (threads c) /\ (tinv2 c th -> tinv2 c' th')).
  2:{ destruct Hup as [th' [Hup Hown]]. rewrite Hup in H0.
      destruct (upd_nth_cases _ _ _ _ _ _ Hth H0) as [[-> ->]|[Hne H0']].
      - apply Hown. exact (HN _ _ Hth).
      - exact (tinv2_mono c c' th0 Hm (HN _ _ H0')). }
  clear H0 t0 th0 Hm.
  pose proof (I_mu _ HI) as Hmu.
  unfold step_thread, sec_resolve_start, sec_fulfil_proxy, sec_commit, sec_close, sec_call_lock, sec_call_relock,
    sec_call_finish, sec_after_res, sec_client, sec_call_start, sec_release_proxy, mu_free, call_done,
    commit, close_done, commit_k in Hs.
  rewrite Hmu in Hs. cbn [negb v_late_fulfil v_unlock_on_hit v_known_first fixed] in Hs.
  explode Hs; inversion Hs; subst; clear Hs; split_via.
  all: eexists; split; [simpl; reflexivity|].
  all: unfold tinv2; cbn [t_pc goto finish enter_call];
       repeat match goal with H : t_pc _ = _ |- _ => rewrite H end; intros [HB HC].
  all: split; [intros; try discriminate; simpl;
               repeat match goal with H : negb (caller _) = _ |- _ => apply negb_true_iff in H || apply negb_false_iff in H end;
               try congruence; auto|].
  all: try exact I.
  all: try (apply valid_cons in HC; destruct HC as [HC1 HC2]).
  all: try (destruct HC as [HC1 HC2]).
  (* entering the fulfil / release loop: the indices come from the table *)
  all: try (apply table_valid; [exact HV|]; intros y Hy; simpl;
            first [ rewrite <- Heql in Hy; eapply iter_order_in; exact Hy | exact Hy ]).
  (* inside the loops *)
  all: try (intros y Hy; simpl; rewrite ?length_upd; first [apply HC2; exact Hy | apply HC; exact Hy | apply HC1; exact Hy]).
  all: try (split; [intros y Hy; simpl; rewrite ?length_upd; apply HC2; exact Hy|]).
  all: try (intros y Hy; simpl; apply (table_valid c _ HV (fun y H => H)); exact Hy).
  all: match goal with |- refs0 _ ?x =>
         destruct (nth_error (proxies c) x) as [b0|] eqn:Hb0; [|apply nth_error_None in Hb0; lia];
         eexists; split; [simpl; eapply nth_error_upd_same; exact Hb0|];
         rewrite ?(get_px_nth _ _ _ Hb0) in *; simpl; boolp; lia end.
Qed.

(* ---------------------------------------------------------------- all clauses together *)

Record Inv2 (c : config) : Prop := {
  J1 : N1 c; J2 : N2 c; J3 : N3 c; JL : NL c; J6 : N6 c; JS : NS c; J4 : N4 c; J5 : N5 c; JA : NA c; JV : TV c; JT : NT c
}.

Lemma init_inv2 : forall ops, Inv2 (init ops).
Proof.
  intros ops. constructor.
  - unfold N1. simpl. rewrite countT_map_init; auto.
  - unfold N2. simpl. discriminate.
  - unfold N3. simpl. rewrite countT_map_init; auto. intros o. unfold in_precommit. simpl. apply andb_false_r.
  - unfold NL. simpl. auto.
  - unfold N6. simpl. rewrite countT_map_init; auto. intros o. unfold in_postk. simpl. apply andb_false_r.
  - intros s x [].
  - split; simpl.
    + intros x px H. destruct x; discriminate.
    + intros x _. rewrite countT_map_init; auto. intros o. unfold in_px_call. destruct o; reflexivity.
  - intros x px H. destruct x; discriminate.
  - intros t0 th0 H _ Hp. simpl in H. rewrite nth_error_map in H. destruct (nth_error ops t0); inversion H; subst. discriminate.
  - intros p x [].
  - intros t th H. simpl in H. rewrite nth_error_map in H. destruct (nth_error ops t); inversion H; subst.
    split; [discriminate|exact I].
Qed.

Lemma step_inv2 : forall c t c', Inv c -> Inv2 c -> step fixed c t = Some c' -> Inv2 c'.
Proof.
  intros c t c' HI [H1 H2 H3 HL H6 HS H4 H5 HA HV HT] Hs. constructor.
  - eapply N1_step; eauto.
  - eapply N2_step; eauto.
  - eapply N3_step; eauto.
  - eapply NL_step; eauto.
  - eapply N6_step; eauto.
  - eapply NS_step; eauto.
  - eapply N4_step; eauto.
  - eapply N5_step; eauto.
  - eapply NA_step; eauto.
  - eapply TV_step; eauto.
  - eapply NT_step; eauto.
Qed.

Lemma reach_inv2 : forall ops c, reach fixed ops c -> Inv c /\ Inv2 c.
Proof.
  intros ops c H. induction H as [|c t c' Hr [IH1 IH2] Hs].
  - split; [apply init_inv|apply init_inv2].
  - split; [exact (step_inv c t c' IH1 Hs)|exact (step_inv2 c t c' IH1 IH2 Hs)].
Qed.

(* ---------------------------------------------------------------- why a thread cannot move *)

Ltac explode_none Hs :=
  repeat (match type of Hs with
          | (if ?b then _ else _) = None => destruct b eqn:?
          | match ?x with _ => _ end = None => destruct x eqn:?
          end); try discriminate Hs.

Lemma disabled_cases : forall c t th,
  Inv c -> nth_error (threads c) t = Some th -> step_thread fixed c t th = None ->
  t_pc th = PDone \/
  (t_pc th = PStart /\ (t_op th = OWait \/ t_op th = ORelease \/ t_op th = OConsume) /\ done_open c = true) \/
  (t_pc th = PInCaller /\ op_gated (t_op th) = true /\ mem_nat t (gates c) = false) \/
  (t_pc th = PWaitRes /\ ((exists p s, t_op th = OClient p s) /\ done_open c = true \/
                         (forall p s, t_op th <> OClient p s) /\ sig_open c = true)) \/
  (t_pc th = PStopWait /\ is_res_op (t_op th) = true /\ stopped c <> CClosed) \/
  (exists x rest, (t_pc th = PFulWait x rest \/ t_pc th = PRelWait x rest) /\
                  px_done (get_px c x) = false /\ sig_open c = false).
Proof.
  intros c t th HI Hth Hs.
  pose proof (I_mu _ HI) as Hmu. pose proof (I_threads c HI t th Hth) as HT. unfold tinv in HT.
  unfold step_thread, sec_resolve_start, sec_fulfil_proxy, sec_commit, sec_close, sec_call_lock, sec_call_relock,
    sec_call_finish, sec_after_res, sec_client, sec_call_start, sec_release_proxy, mu_free, call_done in Hs.
  rewrite Hmu in Hs. cbn [negb v_late_fulfil v_unlock_on_hit v_known_first fixed] in Hs.
  explode_none Hs.
  all: repeat match goal with H : t_pc _ = _ |- _ => rewrite H in HT end.
  all: repeat match goal with H : t_op _ = _ |- _ => rewrite H in HT end.
  all: try (exfalso; tauto).
  all: try (left; reflexivity).
  all: try (right; left; repeat split; auto; fail).
  all: try (right; right; left; apply orb_false_iff in Heqb; destruct Heqb as [Hg Hm];
            apply negb_false_iff in Hg; repeat split; auto; fail).
  all: try (match goal with H : (match t_op ?th0 with _ => _ end) = true |- _ => destruct (t_op th0) eqn:? end).
  all: try (exfalso; tauto).
  all: try (right; right; right; left; split; auto; left; split; eauto; fail).
  all: try (right; right; right; left; split; auto; right; split; [intros; discriminate|auto]; fail).
  all: try (right; right; right; right; left; repeat split; auto;
            [destruct (t_op th); try (exfalso; tauto); reflexivity | congruence]; fail).
  all: right; right; right; right; right; do 2 eexists; split; [eauto|]; split; auto;
       destruct (t_op th); try (exfalso; tauto); tauto.
Qed.

(* ---------------------------------------------------------------- deadlock freedom *)

Definition all_disabled (c : config) : Prop := forall t, enabled fixed c t = false.

Definition at_incaller (th : thread) : bool := match t_pc th with PInCaller => true | _ => false end.

Lemma disabled_thread : forall c t th, all_disabled c -> nth_error (threads c) t = Some th ->
  step_thread fixed c t th = None.
Proof.
  intros c t th H Hth. specialize (H t). unfold enabled, step in H. rewrite Hth in H.
  destruct (step_thread fixed c t th); [discriminate|reflexivity].
Qed.

(* If no thread can move, then either the application is holding a call inside the
   PipelineCaller (gated and not released), or every unfinished thread is a Done/Struct waiter,
   a ReleaseClients call or the result's owner waiting on a promise that nobody has asked to
   resolve (caller still set; in particular no Fulfill/Reject is unfinished). *)
Theorem no_stuck : forall ops c, reach fixed ops c -> all_disabled c ->
  (exists t th, nth_error (threads c) t = Some th /\ t_pc th = PInCaller /\
                op_gated (t_op th) = true /\ mem_nat t (gates c) = false) \/
  (forall t th, nth_error (threads c) t = Some th -> t_pc th <> PDone ->
     caller c = true /\ t_pc th = PStart /\ (t_op th = OWait \/ t_op th = ORelease \/ t_op th = OConsume)).
Proof.
  intros ops c Hr Hdis. destruct (reach_inv2 ops c Hr) as [HI H2].
  pose proof (fun t th H => disabled_cases c t th HI H (disabled_thread c t th Hdis H)) as DC.
  destruct (Z_lt_dec 0 (countT at_incaller (threads c))) as [Hpos|Hzero].
  { left. destruct (countT_pos _ _ Hpos) as [t [th [Hth Hf]]]. exists t, th.
    unfold at_incaller in Hf. destruct (t_pc th) eqn:Hpc; try discriminate.
    destruct (DC t th Hth) as [D|[[D _]|[[_ [D1 D2]]|[[D _]|[[D _]|[x [rest [[D|D] _]]]]]]]]; try congruence. auto. }
  right.
  assert (NoIn : forall t th, nth_error (threads c) t = Some th -> t_pc th <> PInCaller).
  { intros t th Hth Hpc. apply Hzero. apply (countT_mem _ _ _ _ Hth). unfold at_incaller. rewrite Hpc. reflexivity. }
  (* A: nobody is inside the PipelineCaller *)
  assert (A : ongoing c = 0).
  { rewrite (J1 c H2). pose proof (countT_nonneg in_caller (threads c)) as Hnn.
    destruct (Z_lt_dec 0 (countT in_caller (threads c))) as [Hp|]; [|lia]. exfalso.
    destruct (countT_pos _ _ Hp) as [t [th [Hth Hf]]]. unfold in_caller in Hf.
    destruct (t_pc th) eqn:Hpc; try discriminate; [exact (NoIn t th Hth Hpc)|].
    destruct (DC t th Hth) as [D|[[D _]|[[D _]|[[D _]|[[D _]|[x [rest [[D|D] _]]]]]]]]; congruence. }
  (* B: no Fulfill/Reject waits for callsStopped *)
  assert (B : forall t th, nth_error (threads c) t = Some th -> t_pc th <> PStopWait).
  { intros t th Hth Hpc.
    destruct (DC t th Hth) as [D|[[D _]|[[D _]|[[D _]|[[_ [D1 D2]]|[x [rest [[D|D] _]]]]]]]]; try congruence.
    pose proof (JA c H2 t th Hth D1 Hpc) as Hn. destruct (stopped c) eqn:Es; try congruence.
    destruct (J2 c H2 Es) as [Ho _]. lia. }
  (* C: pending resolution is impossible *)
  assert (C : sig_open c = true -> caller c = true).
  { intros Hs. destruct (caller c) eqn:Ec; auto. exfalso.
    pose proof (J3 c H2) as H3. unfold N3 in H3. rewrite Ec, Hs in H3. simpl in H3.
    destruct (countT_pos in_precommit (threads c) ltac:(lia)) as [t [th [Hth Hf]]].
    unfold in_precommit in Hf. apply andb_true_iff in Hf. destruct Hf as [_ Hf].
    destruct (t_pc th) eqn:Hpc; try discriminate; [exact (B t th Hth Hpc)|].
    destruct (DC t th Hth) as [D|[[D _]|[[D _]|[[D _]|[[D _]|[x [rest [[D|D] _]]]]]]]]; congruence. }
  (* D: nobody waits for a hook's done *)
  assert (D : forall t th x rest, nth_error (threads c) t = Some th ->
                (t_pc th = PFulWait x rest \/ t_pc th = PRelWait x rest) -> False).
  { intros t th x rest Hth Hpc.
    assert (Hfacts : px_done (get_px c x) = false /\ sig_open c = false).
    { destruct (DC t th Hth) as [E|[[E _]|[[E _]|[[E _]|[[E _]|[x' [rest' [[E|E] E2]]]]]]]];
        destruct Hpc as [Hpc|Hpc]; try congruence; rewrite Hpc in E; inversion E; subst; exact E2. }
    destruct Hfacts as [Hdone Hsig].
    assert (Hr0 : refs0 c x).
    { pose proof (JT c H2 t th Hth) as [_ T]. destruct Hpc as [Hpc|Hpc]; rewrite Hpc in T; tauto. }
    destruct Hr0 as [px [Hpx Hrefs]]. rewrite (get_px_nth c x px Hpx) in Hdone.
    destruct (J5 c H2 x px Hpx) as [_ [_ Hd]].
    destruct (J4 c H2) as [H4 _]. pose proof (H4 x px Hpx) as Hcalls.
    pose proof (countT_nonneg (in_px_call x) (threads c)) as Hnn.
    destruct (Z.eq_dec (px_calls px) 0) as [Hz|Hnz]; [rewrite (Hd Hrefs Hz) in Hdone; discriminate|].
    destruct (countT_pos (in_px_call x) (threads c) ltac:(lia)) as [t1 [th1 [Hth1 Hf]]].
    unfold in_px_call in Hf. destruct (t_op th1) eqn:Hop1; try discriminate.
    destruct (t_via th1); try discriminate. apply andb_true_iff in Hf. destruct Hf as [_ Hf].
    destruct (DC t1 th1 Hth1) as [E|[[E _]|[[E _]|[[E [[[p [s E2]] _]|[_ E2]]]|[[E _]|[x' [rest' [[E|E] _]]]]]]]];
      try (rewrite E in Hf; discriminate); try congruence.
    exact (NoIn t1 th1 Hth1 E). }
  (* E: the signals are closed as soon as the result is known *)
  assert (E : done_open c = true -> sig_open c = true).
  { intros Hd. destruct (sig_open c) eqn:Es; auto. exfalso.
    pose proof (J6 c H2) as H6. unfold N6 in H6. rewrite Es, Hd in H6. simpl in H6.
    destruct (countT_pos in_postk (threads c) ltac:(lia)) as [t [th [Hth Hf]]].
    unfold in_postk in Hf. apply andb_true_iff in Hf. destruct Hf as [_ Hf].
    destruct (t_pc th) eqn:Hpc; try discriminate.
    - destruct (DC t th Hth) as [F|[[F _]|[[F _]|[[F _]|[[F _]|[x [rest' [[F|F] _]]]]]]]]; congruence.
    - exact (D t th x rest Hth (or_introl Hpc)).
    - destruct (DC t th Hth) as [F|[[F _]|[[F _]|[[F _]|[[F _]|[x [rest' [[F|F] _]]]]]]]]; congruence. }
  intros t th Hth Hnd.
  destruct (DC t th Hth) as [F|[[F1 [F2 F3]]|[[F _]|[[F1 F2]|[[F _]|[x [rest [F _]]]]]]]].
  - contradiction.
  - repeat split; auto.
  - exfalso. exact (NoIn t th Hth F).
  - exfalso. pose proof (JT c H2 t th Hth) as [T _]. specialize (T F1).
    destruct F2 as [[_ F2]|[_ F2]]; [specialize (E F2)|]; rewrite (C ltac:(assumption)) in T; discriminate.
  - exfalso. exact (B t th Hth F).
  - exfalso. exact (D t th x rest Hth F).
Qed.

(* ---------------------------------------------------------------- waiters *)

(* When the system has come to rest, no call is held inside the PipelineCaller by the application,
   and a Fulfill or Reject was among the operations, then every operation has finished: in
   particular every Done/Struct waiter, ReleaseClients call and pipelined call was released. *)
Theorem waiters_released : forall ops c, reach fixed ops c -> all_disabled c ->
  (forall t th, nth_error (threads c) t = Some th -> t_pc th = PInCaller ->
                op_gated (t_op th) = true -> mem_nat t (gates c) = true) ->
  (exists t th, nth_error (threads c) t = Some th /\ is_res_op (t_op th) = true) ->
  forall t th, nth_error (threads c) t = Some th -> t_pc th = PDone.
Proof.
  intros ops c Hr Hdis Hgate [t0 [th0 [Hth0 Hop0]]] t th Hth.
  destruct (reach_inv2 ops c Hr) as [HI H2].
  destruct (no_stuck ops c Hr Hdis) as [[t1 [th1 [H1 [P1 [G1 M1]]]]]|Hrest].
  { rewrite (Hgate t1 th1 H1 P1 G1) in M1. discriminate. }
  (* the resolver has finished, so caller is nil: nobody can be left *)
  assert (Hcf : caller c = false).
  { destruct (t_pc th0) eqn:Hpc0.
    15:{ pose proof (I_threads c HI t0 th0 Hth0) as T. unfold tinv in T. rewrite Hpc0 in T.
         destruct (t_op th0); try discriminate.
         - destruct T as [[_ T]|[_ [T _]]]; auto.
           pose proof (I_begin c HI) as Hb. destruct (caller c); auto. simpl in Hb.
           exfalso. clear - T Hb. induction (events c) as [|e l IH]; [destruct T|].
           rewrite cnt_cons in Hb. destruct T as [->|T]; simpl in Hb; [lia|]. apply IH; auto. destruct (is_begin e); simpl in Hb; lia.
         - destruct T as [[_ T]|[_ [T _]]]; auto.
           pose proof (I_begin c HI) as Hb. destruct (caller c); auto. simpl in Hb.
           exfalso. clear - T Hb. induction (events c) as [|e l IH]; [destruct T|].
           rewrite cnt_cons in Hb. destruct T as [->|T]; simpl in Hb; [lia|]. apply IH; auto. destruct (is_begin e); simpl in Hb; lia. }
    all: assert (Hnd : t_pc th0 <> PDone) by congruence;
         destruct (Hrest t0 th0 Hth0 Hnd) as [_ [_ [E|[E|E]]]]; rewrite E in Hop0; discriminate. }
  destruct (t_pc th) eqn:Hpc; auto;
    assert (Hnd : t_pc th <> PDone) by congruence;
    destruct (Hrest t th Hth Hnd) as [Hc _]; congruence.
Qed.

(* ---------------------------------------------------------------- lifetime of the result *)

(* resolve reads the result (res.client(t) in the loop over the proxy clients) only while the
   resolution has not been signalled, hence before the owner of the result may release it *)
Theorem result_read_alive : forall ops c t th x rest, reach fixed ops c ->
  nth_error (threads c) t = Some th -> t_pc th = PFul (x :: rest) ->
  done_open c = true /\ res_alive c = true.
Proof.
  intros ops c t th x rest Hr Hth Hpc. destruct (reach_inv2 ops c Hr) as [HI H2].
  pose proof (I_threads c HI t th Hth) as T. unfold tinv in T. rewrite Hpc in T.
  assert (Hd : done_open c = true) by (destruct (t_op th); tauto).
  split; [exact Hd|exact (JL c H2 Hd)].
Qed.

(* refuted on the withdrawn repair (signals closed before the proxies are fulfilled): the owner
   releases the result between Done and resolve's read of it *)
Definition lifetime_history : list op := [OClient [0] 0; OFulfill [([0], 1)] []; OConsume].

Example result_lifetime_refuted :
  let c := run late_fixed (init lifetime_history) [0%nat; 1%nat; 2%nat; 1%nat] in
  match nth_error (threads c) 1 with
  | Some th => t_pc th = PDone /\ t_out th = OPanic /\ res_alive c = false
  | None => False
  end.
Proof. vm_compute. repeat split; reflexivity. Qed.

Example lifetime_history_fixed :
  let c := run fixed (init lifetime_history) [0%nat; 1%nat; 2%nat; 1%nat; 1%nat; 1%nat; 1%nat; 2%nat] in
  forallb (finished c) (seq 0 3) = true /\
  match nth_error (threads c) 1 with Some th => t_out th = ORet | None => False end.
Proof. vm_compute. repeat split; reflexivity. Qed.
