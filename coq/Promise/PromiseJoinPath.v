(* next edges are permanent; reachability along them; a proxy in r's client table has an owner whose next-chain leads
   to r, and a call made through the proxy is somewhere on that chain. *)
From CV Require Import Promise.Promise Promise.PromiseProofs Promise.PromiseJoin Promise.PromiseJoinThms
  Promise.PromiseJoinInv Promise.PromiseJoinRefs Promise.PromiseJoinDest Promise.PromiseJoinChain
  Promise.PromiseJoinForest Promise.PromiseJoinLive Promise.PromiseJoinHook.
Open Scope Z_scope.

Inductive nreach (c : jconfig) : nat -> nat -> Prop :=
| nr_refl : forall a, nreach c a a
| nr_step : forall a b d, p_next (getp c a) = Some b -> nreach c b d -> nreach c a d.

Lemma nreach_snoc : forall c a b d, nreach c a b -> p_next (getp c b) = Some d -> nreach c a d.
Proof. intros c a b d H. induction H; intros Hn; [eapply nr_step; [exact Hn|apply nr_refl]|eapply nr_step; eauto]. Qed.

Lemma nreach_mono : forall c c' a b,
  (forall k q, p_next (getp c k) = Some q -> p_next (getp c' k) = Some q) -> nreach c a b -> nreach c' a b.
Proof. intros c c' a b Hm H. induction H; [apply nr_refl|eapply nr_step; eauto]. Qed.

Lemma nreach_det : forall c a b d, nreach c a b -> nreach c a d ->
  p_next (getp c b) = None -> p_next (getp c d) = None -> b = d.
Proof.
  intros c a b d H. revert d. induction H as [a|a b' e Hn H IH]; intros d Hd Hb Hdn.
  - inversion Hd; subst; auto. congruence.
  - inversion Hd; subst; [congruence|]. assert (b' = b) by congruence. subst. apply IH; auto.
Qed.

(* next edges never change once set (they are set when the promise had none) *)
Lemma next_mono_step : forall v c t c', JE4 c -> jstep v c t = Some c' ->
  forall k q, p_next (getp c k) = Some q -> p_next (getp c' k) = Some q.
Proof.
  intros v c t c' HE Hs.
  unfold jstep in Hs. destruct (nth_error (jthreads c) t) as [th|] eqn:Hth; [|discriminate].
  assert (Hact : jphase (j_cur th) th = true -> act (getp c (j_cur th)) = true)
    by (intros Hp; pose proof (jcount_mem _ _ _ _ Hth Hp) as Hpos; rewrite (HE (j_cur th)) in Hpos;
        destruct (act (getp c (j_cur th))); [reflexivity|lia]).
  junfold Hs. jexplode Hs; inversion Hs; subst; clear Hs.
  all: unfold resolve_entry, do_known, do_final; goal_matches.
  all: unfold jphase, jpre, jpost in Hact;
       repeat match goal with H : j_pc _ = _ |- _ => rewrite H in Hact end; rewrite ?Nat.eqb_refl in Hact; simpl in Hact.
  all: intros k0 q0 Hn.
  all: repeat progress (autorewrite with getp_simp; rewrite ?next_close_sigs).
  all: eqb_all; simpl; rewrite ?next_close_joined; simpl; try exact Hn.
  all: exfalso; specialize (Hact eq_refl); unfold act, p_is_joined in Hact; rewrite Hn in Hact;
       rewrite andb_false_r in Hact || (destruct (p_caller _) in Hact; simpl in Hact); discriminate.
Qed.

Lemma owner_step : forall v c t c', jstep v c t = Some c' ->
  forall x, (x < length (jproxies c))%nat -> jx_owner (getx c' x) = jx_owner (getx c x).
Proof.
  intros v c t c' Hs.
  jleaves v Hs Hth; goal_matches.
  all: intros x0 Hx0; unfold getx; repeat progress (autorewrite with prx_simp).
  all: try reflexivity.
  all: try (rewrite app_nth1 by exact Hx0; reflexivity).
  all: match goal with |- context [nth ?y (upd ?x ?p ?l) ?d] =>
         destruct (Nat.eq_dec x y) as [->|Hne];
         [rewrite nth_upd_same by exact Hx0; reflexivity|rewrite nth_upd_other by exact Hne; reflexivity] end.
Qed.

Definition own (c : jconfig) (x : nat) : nat := jx_owner (getx c x).

Definition xthr (c : jconfig) (th : jthread) : Prop :=
  (forall x, jin_px x th = true -> nreach c (own c x) (j_cur th)) /\
  match j_pc th with
  | QFul => forall x, In x (j_rest th) -> nreach c (own c x) (j_cur th)
  | QFulWait => (forall x, In x (j_rest th) -> nreach c (own c x) (j_cur th)) /\ nreach c (own c (j_waitx th)) (j_cur th)
  | _ => True
  end.

Record JX (c : jconfig) : Prop := {
  X_rows : forall r x, in_rows c r x -> nreach c (own c x) r;
  X_thr : forall t th, nth_error (jthreads c) t = Some th -> xthr c th
}.

Lemma JX_step : forall v c t c', JV c -> JE4 c -> JX c -> jstep v c t = Some c' -> JX c'.
Proof.
  intros v c t c' HV HE HX Hs.
  pose proof (next_mono_step v c t c' HE Hs) as Hmono.
  pose proof (owner_step v c t c' Hs) as Hown.
  assert (Htr : forall x r, (x < length (jproxies c))%nat -> nreach c (own c x) r -> nreach c' (own c' x) r).
  { intros x r Hx H. unfold own. rewrite (Hown x Hx). exact (nreach_mono c c' _ _ Hmono H). }
  unfold jstep in Hs. destruct (nth_error (jthreads c) t) as [th|] eqn:Hth; [|discriminate].
  destruct (V_thr c HV t th Hth) as [Hvrest [Hvwx Hvvia]].
  destruct (X_thr c HX t th Hth) as [Hxvia Hxpc].
  junfold Hs. jexplode Hs; inversion Hs; subst; clear Hs.
  all: unfold resolve_entry, do_known, do_final in *; goal_matches.
  all: constructor;
    [ (* tables *)
      intros r0 x0 Hin; unfold in_rows, rows_of in Hin;
      repeat progress (autorewrite with getp_simp in Hin; rewrite ?clients_close_sigs_h in Hin);
      revert Hin; eqb_all; simpl; rewrite ?clients_close_joined; simpl; intros Hin;
      rewrite ?rows_merge_tab, ?rows_add_row in Hin; simpl in Hin;
      repeat match goal with H : _ \/ _ |- _ => destruct H end; try contradiction
    | (* threads *)
      intros t0 th0 H0; simpl in H0; rewrite ?close_sigs_threads in H0; simpl in H0;
      destruct (jupd_nth_cases _ _ _ _ _ _ Hth H0) as [[-> ->]|[Hne H0']]; clear H0;
      [ idtac
      | destruct (X_thr c HX _ _ H0') as [A B]; destruct (V_thr c HV _ _ H0') as [VA [VB VC]]; split;
        [ intros y Hx; apply Htr; [|exact (A y Hx)];
          unfold jin_px in Hx; destruct (j_op th0); try discriminate; destruct (j_via th0) as [z|] eqn:Ey; try discriminate;
          apply andb_true_iff in Hx; destruct Hx as [Hx _]; apply Nat.eqb_eq in Hx; subst; apply VC; reflexivity
        | destruct (j_pc th0); try exact I;
          first [ (intros y Hx; apply Htr; [exact (VA y Hx)|exact (B y Hx)])
                | (destruct B as [B1 B2]; split; [intros y Hx; apply Htr; [exact (VA y Hx)|exact (B1 y Hx)]|apply Htr; [exact VB|exact B2]]) ] ] ] ].
  (* old rows *)
  all: try (match goal with H : In ?x (concat (map snd (p_clients (getp ?cc ?r)))) |- _ =>
              apply Htr; [exact (V_rows cc HV r x H)|]; exact (X_rows cc HX r x H) end).
  (* the stepping thread *)
  all: try (unfold xthr;
            cbn [j_pc j_op j_via j_cur j_rest j_waitx jgoto jfinish sj_pc sj_cur sj_par sj_path sj_via sj_rest sj_waitx sj_res sj_out];
            repeat match goal with |- context [match j_via ?th with _ => _ end] => destruct (j_via th) eqn:? end;
            cbn [j_pc j_op j_via j_cur j_rest j_waitx jgoto jfinish sj_pc sj_cur sj_par sj_path sj_via sj_rest sj_waitx sj_res sj_out];
            split;
            [ intros y Hy; unfold jin_px in Hy;
              cbn [j_pc j_op j_via jgoto jfinish sj_pc sj_cur sj_par sj_path sj_via sj_rest sj_waitx sj_res sj_out] in Hy;
              repeat match goal with H : j_op _ = _ |- _ => rewrite H in Hy end;
              repeat match goal with H : j_via _ = _ |- _ => rewrite H in Hy end;
              repeat match goal with H : j_pc _ = _ |- _ => rewrite H in Hy end;
              simpl in Hy; rewrite ?andb_false_r in Hy; try discriminate Hy;
              try (destruct (j_op th) eqn:Hop; try discriminate Hy);
              try (destruct (j_via th) as [z|] eqn:Hvz; try discriminate Hy);
              rewrite ?andb_false_r in Hy; try discriminate Hy;
              apply andb_true_iff in Hy; destruct Hy as [Hy _]; apply Nat.eqb_eq in Hy; subst
            | repeat match goal with H : j_pc _ = _ |- _ => rewrite H in * end; try exact I ]).
  all: try (assert (Hjin : jin_px z th = true)
              by (unfold jin_px; rewrite Hop, Hvz;
                  repeat match goal with H : j_pc _ = _ |- _ => rewrite H end; simpl; rewrite Nat.eqb_refl; reflexivity)).
  all: try (apply Htr; [apply Hvvia; first [assumption|reflexivity]|apply Hxvia; exact Hjin]).
  all: try (eapply nreach_snoc; [apply Htr; [apply Hvvia; first [assumption|reflexivity]|apply Hxvia; exact Hjin]|apply Hmono; eassumption]).
  all: try congruence.
  all: repeat match goal with H : Some ?a = Some ?b |- _ => assert (a = b) by congruence; subst; clear H end.
  all: try (apply Htr; [apply Hvvia; first [assumption|reflexivity]|apply Hxvia; exact Hjin]).
  (* a call entering through a proxy starts at the proxy's owner *)
  all: try (match goal with H : lookup_slot _ _ = Some (HProxy ?x) |- _ =>
              destruct (lookup_slot_in _ _ _ H) as [s' Hs']; pose proof (V_slots c HV _ _ Hs') as Hlt;
              unfold own; rewrite (Hown x Hlt); apply nr_refl end).
  (* the loop list of a resolver is the table of its promise *)
  all: try (intros x0 Hin; unfold rows_of in Hin;
            repeat progress (autorewrite with getp_simp in Hin; rewrite ?clients_close_sigs_h in Hin); simpl in Hin;
            match goal with H : In ?x (concat (map snd (p_clients (getp ?cc ?r)))) |- _ =>
              apply Htr; [exact (V_rows cc HV r x H)|]; exact (X_rows cc HX r x H) end).
  (* a call that came through proxy n stays on the chain *)
  all: try (match goal with H : j_via ?tt = Some ?n |- nreach _ (own _ ?n) _ =>
              assert (Hjin : jin_px n tt = true)
                by (unfold jin_px; rewrite H; repeat match goal with H1 : j_op _ = _ |- _ => rewrite H1 end;
                    repeat match goal with H1 : j_pc _ = _ |- _ => rewrite H1 end; simpl; rewrite Nat.eqb_refl; reflexivity);
              apply Htr; [apply Hvvia; reflexivity|apply Hxvia; exact Hjin] end).
  (* the resolver's loop *)
  all: try (match goal with E : j_rest _ = _ :: _ |- _ =>
              try split; intros; (apply Htr; [apply Hvrest|apply Hxpc]; rewrite ?E; simpl; auto) end).
  all: try (intros x0 Hin; apply Htr; [apply Hvrest; exact Hin|apply (proj1 Hxpc); exact Hin]).
  all: try (intros x0 Hin; unfold rows_of in Hin;
            repeat progress (autorewrite with getp_simp in Hin; rewrite ?clients_close_sigs_h, ?Nat.eqb_refl in Hin; simpl in Hin);
            match goal with H : In ?x (concat (map snd (p_clients (getp ?cc ?r)))) |- _ =>
              apply Htr; [exact (V_rows cc HV r x H)|]; exact (X_rows cc HX r x H) end).
  (* Join: the child's rows move to the parent, one more edge *)
  all: try (destruct p as [q row]; rewrite rows_merge_tab, rows_add_row in Hin;
       destruct Hin as [[Hin|Hin]|Hin];
       [ apply Htr; [exact (V_rows c HV (j_par th) x0 Hin)|exact (X_rows c HX (j_par th) x0 Hin)] | | ]).
  (* a new proxy is owned by the promise whose table gets it *)
  all: try (subst x0; unfold own, getx; repeat progress (autorewrite with prx_simp); rewrite app_nth2 by lia;
            rewrite Nat.sub_diag; simpl; apply nr_refl).
  all: (assert (Hc : in_rows c (j_cur th) x0)
         by (unfold in_rows, rows_of; rewrite Heql; simpl; apply in_or_app; first [left; exact Hin|right; exact Hin]));
       eapply nreach_snoc; [apply Htr; [exact (V_rows c HV _ _ Hc)|exact (X_rows c HX _ _ Hc)]|].
  all: repeat progress (autorewrite with getp_simp); eqb_all; simpl; rewrite ?next_close_joined; simpl; try congruence.
Qed.

Lemma JX_reach : forall v np ops c, jv_alloc_table v = true -> jreach v np ops c -> JX c.
Proof.
  intros v np ops c Hv H. induction H as [|c t c' Hr IH Hs].
  - constructor.
    + intros r x Hin. unfold in_rows, rows_of in Hin. destruct (getp_init np ops r) as [E|E]; rewrite E in Hin; destruct Hin.
    + intros t th Hth. simpl in Hth. rewrite nth_error_map in Hth. destruct (nth_error ops t) as [o|]; inversion Hth; subst.
      split; [intros x Hx; unfold jin_px in Hx; destruct o; simpl in Hx; discriminate|destruct o; exact I].
  - exact (JX_step v c t c' (JV_reach v np ops c Hr) (JE4_reach v np ops c Hv Hr) IH Hs).
Qed.
