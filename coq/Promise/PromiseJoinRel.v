(* Released proxies on chains: every proxy is in some promise's client table, or in the loop of the ReleaseClients
   call that took its table, or released.  So once the table of a chain has been taken (C11_join_chain_release: by
   the last ReleaseClients of the chain) and that call has returned, every proxy that was in it is released. *)
From CV Require Import Promise.Promise Promise.PromiseProofs Promise.PromiseJoin Promise.PromiseJoinThms
  Promise.PromiseJoinInv Promise.PromiseJoinRefs Promise.PromiseJoinDest Promise.PromiseJoinChain
  Promise.PromiseJoinForest Promise.PromiseJoinLive Promise.PromiseJoinStuck Promise.PromiseJoinHook
  Promise.PromiseJoinPath Promise.PromiseJoinHookStuck Promise.PromiseJoinLands.
Open Scope Z_scope.

Definition in_loop (c : jconfig) (x : nat) : Prop :=
  exists t th, nth_error (jthreads c) t = Some th /\ j_pc th = QRel /\ In x (j_rest th).

Definition held (c : jconfig) (x : nat) : Prop :=
  (exists r, in_rows c r x) \/ in_loop c x \/ jx_rel (getx c x) = true.

Lemma rel_step : forall v c t c', jstep v c t = Some c' -> forall x, jx_rel (getx c x) = true -> jx_rel (getx c' x) = true.
Proof.
  intros v c t c' Hs x Hx.
  assert (Hlt : (x < length (jproxies c))%nat).
  { destruct (lt_dec x (length (jproxies c))); auto. exfalso. unfold getx in Hx. rewrite nth_overflow in Hx by lia. discriminate. }
  revert Hx. jleaves v Hs Hth; goal_matches.
  all: unfold getx; repeat progress (autorewrite with prx_simp); intros Hx; try exact Hx.
  all: try (rewrite app_nth1 by exact Hlt; exact Hx).
  all: match goal with |- context [nth ?y (upd ?x0 ?p ?l) ?d] =>
         destruct (Nat.eq_dec x0 y) as [->|Hne];
         [rewrite nth_upd_same by exact Hlt; simpl; first [exact Hx|reflexivity]|rewrite nth_upd_other by exact Hne; exact Hx] end.
Qed.

(* a proxy in a table stays in a table (its own, or the one its promise was joined onto) or goes to the loop of the
   ReleaseClients call that takes the table *)
Lemma rows_fwd_step : forall v c t c', jstep v c t = Some c' ->
  forall r x, in_rows c r x -> (exists r', in_rows c' r' x) \/ in_loop c' x.
Proof.
  intros v c t c' Hs.
  unfold jstep in Hs. destruct (nth_error (jthreads c) t) as [th|] eqn:Hth; [|discriminate].
  junfold Hs. jexplode Hs; inversion Hs; subst; clear Hs.
  all: unfold resolve_entry, do_known, do_final; goal_matches.
  all: intros r0 x0 Hin.
  (* the table of r0 is unchanged or has grown *)
  all: try (left; exists r0; unfold in_rows, rows_of in *;
            repeat progress (autorewrite with getp_simp; rewrite ?clients_close_sigs_h);
            eqb_all; simpl; rewrite ?clients_close_joined; simpl;
            rewrite ?rows_merge_tab, ?rows_add_row; auto; fail).
  (* Join: the joining promise's rows move to the promise joined onto *)
  all: try (destruct (Nat.eq_dec r0 (j_cur th)) as [->|Hne]; [left; exists (j_par th)|left; exists r0];
            unfold in_rows, rows_of in *;
            repeat progress (autorewrite with getp_simp; rewrite ?clients_close_sigs_h);
            eqb_all; simpl; rewrite ?clients_close_joined; simpl;
            try (destruct p as [q row]); rewrite ?rows_merge_tab, ?rows_add_row;
            try match goal with E : p_clients _ = _ |- _ => rewrite E in Hin end; simpl in Hin;
            try apply in_app_or in Hin; tauto).
  (* ReleaseClients takes the table *)
  all: destruct (Nat.eq_dec r0 (j_cur th)) as [->|Hne];
       [ right; eexists t, _; split; [simpl; eapply nth_error_upd_same; exact Hth|split; [reflexivity|exact Hin]]
       | left; exists r0; unfold in_rows, rows_of in *;
         repeat progress (autorewrite with getp_simp); eqb_all; simpl; exact Hin ].
Qed.

(* a proxy in a ReleaseClients loop stays there until that call releases it *)
Lemma loop_fwd_step : forall v c t c', JV c -> JW c -> jstep v c t = Some c' ->
  forall x, in_loop c x -> in_loop c' x \/ jx_rel (getx c' x) = true.
Proof.
  intros v c t c' HV HW Hs x [t0 [th0 [H0 [Hp0 Hr0]]]].
  destruct (Nat.eq_dec t0 t) as [->|Hne].
  - unfold jstep in Hs. rewrite H0 in Hs. unfold jstep_thread in Hs. rewrite Hp0 in Hs. unfold sec_jrelease_proxy in Hs.
    pose proof (HW t th0 H0) as W. unfold wrel in W. rewrite Hp0 in W.
    destruct (V_thr c HV t th0 H0) as [Hvr _].
    destruct (j_rest th0) as [|y rest] eqn:Er; [destruct Hr0|].
    pose proof (Hvr y (or_introl eq_refl)) as Hlt.
    assert (Hnew : forall cc, In x rest -> jthreads cc = jthreads c ->
                   in_loop (sett cc t (sj_rest th0 rest)) x).
    { intros cc Hin E. exists t, (sj_rest th0 rest). split; [simpl; rewrite E; eapply nth_error_upd_same; exact H0|].
      split; [exact Hp0|exact Hin]. }
    destruct Hr0 as [<-|Hr0].
    + right. destruct (jx_rel (getx c y)) eqn:E1; [inversion Hs; subst; exact E1|].
      destruct (jx_target (getx c y)) eqn:E2;
        [inversion Hs; subst; unfold getx; simpl; rewrite nth_upd_same by exact Hlt; reflexivity|].
      exfalso. apply (W y (or_introl eq_refl)). exact E2.
    + left. destruct (jx_rel (getx c y)) eqn:E1; [inversion Hs; subst; apply Hnew; auto|].
      destruct (jx_target (getx c y)) eqn:E2; [inversion Hs; subst; apply Hnew; auto|].
      exfalso. apply (W y (or_introl eq_refl)). exact E2.
  - left. unfold jstep in Hs. destruct (nth_error (jthreads c) t) as [th|] eqn:Hth; [|discriminate].
    destruct (jstep_frame v c t th c' Hth Hs) as [[th' [E _]] _].
    exists t0, th0. split; [rewrite E; rewrite nth_error_upd_other by auto; exact H0|]. auto.
Qed.

(* a new proxy is put into the table of the promise it was asked on *)
Lemma len_step : forall v c t c', jstep v c t = Some c' ->
  forall x, (x < length (jproxies c'))%nat -> (x < length (jproxies c))%nat \/ exists r, in_rows c' r x.
Proof.
  intros v c t c' Hs.
  jleaves v Hs Hth; goal_matches.
  all: intros x0 Hx0; repeat progress (autorewrite with prx_simp in Hx0); rewrite ?length_upd in Hx0; auto.
  rewrite app_length in Hx0. simpl in Hx0.
  destruct (Nat.eq_dec x0 (length (jproxies c))) as [->|Hne]; [|left; lia].
  right. exists (j_cur th). unfold in_rows, rows_of.
  repeat progress (autorewrite with getp_simp); rewrite ?Nat.eqb_refl; simpl.
  apply rows_add_row. right. left. reflexivity.
Qed.

(* every proxy is in a table, in a ReleaseClients loop, or released *)
Definition PR (c : jconfig) : Prop := forall x, (x < length (jproxies c))%nat -> held c x.

Lemma PR_step : forall v c t c', JV c -> JW c -> PR c -> jstep v c t = Some c' -> PR c'.
Proof.
  intros v c t c' HV HW HP Hs x Hx.
  destruct (len_step v c t c' Hs x Hx) as [Hlt|Hnew]; [|left; exact Hnew].
  destruct (HP x Hlt) as [[r Hin]|[Hl|Hrel]].
  - destruct (rows_fwd_step v c t c' Hs r x Hin) as [A|A]; [left; exact A|right; left; exact A].
  - destruct (loop_fwd_step v c t c' HV HW Hs x Hl) as [A|A]; [right; left; exact A|right; right; exact A].
  - right. right. exact (rel_step v c t c' Hs x Hrel).
Qed.

Lemma PR_reach : forall v np ops c, jv_alloc_table v = true -> jreach v np ops c -> PR c.
Proof.
  intros v np ops c Hv H. induction H as [|c t c' Hr IH Hs].
  - intros x Hx. simpl in Hx. lia.
  - exact (PR_step v c t c' (JV_reach v np ops c Hr) (JW_reach v np ops c Hv Hr) IH Hs).
Qed.

(* released proxies on chains: a proxy that is in no table any more, while no ReleaseClients call is in its loop, is
   released.  (The table of a chain is taken by the last ReleaseClients of the chain: join_chain_release.) *)
Theorem join_proxies_released : forall v np ops c,
  jv_alloc_table v = true -> jreach v np ops c ->
  forall x, (x < length (jproxies c))%nat ->
    (forall r, ~ in_rows c r x) ->
    (forall t th, nth_error (jthreads c) t = Some th -> j_pc th = QRel -> ~ In x (j_rest th)) ->
    jx_rel (getx c x) = true.
Proof.
  intros v np ops c Hv Hr x Hx Hno Hnl.
  destruct (PR_reach v np ops c Hv Hr x Hx) as [[r Hin]|[[t [th [Hth [Hp Hin]]]]|Hrel]].
  - exfalso. exact (Hno r Hin).
  - exfalso. exact (Hnl t th Hth Hp Hin).
  - exact Hrel.
Qed.
