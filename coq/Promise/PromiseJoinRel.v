(* Released proxies on chains: every proxy is in some promise's client table, or in the loop of the ReleaseClients
   call that took its table, or released.  So once the table of a chain has been taken (C11_join_chain_release: by
   the last ReleaseClients of the chain) and that call has returned, every proxy that was in it is released. *)
From CV Require Import Promise.Promise Promise.PromiseProofs Promise.PromiseJoin Promise.PromiseJoinThms
  Promise.PromiseJoinInv Promise.PromiseJoinRefs Promise.PromiseJoinDest Promise.PromiseJoinChain
  Promise.PromiseJoinForest Promise.PromiseJoinLive Promise.PromiseJoinStuck Promise.PromiseJoinHook
  Promise.PromiseJoinPath Promise.PromiseJoinHookStuck Promise.PromiseJoinLands.
Open Scope Z_scope.

Definition in_loop (c : jconfig) (x : nat) : Prop :=
  exists t th, nth_error (jthreads c) t = Some th /\ j_pc th = QRel /\ In x (j_rest th).

Definition held (c : jconfig) (x : nat) : Prop :=
  (exists r, in_rows c r x) \/ in_loop c x \/ jx_rel (getx c x) = true.

Lemma rel_step : forall v c t c', jstep v c t = Some c' -> forall x, jx_rel (getx c x) = true -> jx_rel (getx c' x) = true.
Proof.
  intros v c t c' Hs x Hx.
  assert (Hlt : (x < length (jproxies c))%nat).
  { destruct (lt_dec x (length (jproxies c))); auto. exfalso. unfold getx in Hx. rewrite nth_overflow in Hx by lia. discriminate. }
  revert Hx. jleaves v Hs Hth; goal_matches.
  all: unfold getx; repeat progress (autorewrite with prx_simp); intros Hx; try exact Hx.
  all: try (rewrite app_nth1 by exact Hlt; exact Hx).
  all: match goal with |- context [nth ?y (upd ?x0 ?p ?l) ?d] =>
         destruct (Nat.eq_dec x0 y) as [->|Hne];
         [rewrite nth_upd_same by exact Hlt; simpl; first [exact Hx|reflexivity]|rewrite nth_upd_other by exact Hne; exact Hx] end.
Qed.

(* a proxy in a table stays in a table (its own, or the one its promise was joined onto) or goes to the loop of the
   ReleaseClients call that takes the table *)
Lemma rows_fwd_step : forall v c t c', jstep v c t = Some c' ->
  forall r x, in_rows c r x -> (exists r', in_rows c' r' x) \/ in_loop c' x.
Proof.
  intros v c t c' Hs.
  unfold jstep in Hs. destruct (nth_error (jthreads c) t) as [th|] eqn:Hth; [|discriminate].
  junfold Hs. jexplode Hs; inversion Hs; subst; clear Hs.
  all: unfold resolve_entry, do_known, do_final; goal_matches.
  all: intros r0 x0 Hin.
  (* the table of r0 is unchanged or has grown *)
  all: try (left; exists r0; unfold in_rows, rows_of in *;
            repeat progress (autorewrite with getp_simp; rewrite ?clients_close_sigs_h);
            eqb_all; simpl; rewrite ?clients_close_joined; simpl;
            rewrite ?rows_merge_tab, ?rows_add_row; auto; fail).
  (* Join: the joining promise's rows move to the promise joined onto *)
  all: try (destruct (Nat.eq_dec r0 (j_cur th)) as [->|Hne]; [left; exists (j_par th)|left; exists r0];
            unfold in_rows, rows_of in *;
            repeat progress (autorewrite with getp_simp; rewrite ?clients_close_sigs_h);
            eqb_all; simpl; rewrite ?clients_close_joined; simpl;
            try (destruct p as [q row]); rewrite ?rows_merge_tab, ?rows_add_row;
            try match goal with E : p_clients _ = _ |- _ => rewrite E in Hin end; simpl in Hin;
            try apply in_app_or in Hin; tauto).
  (* ReleaseClients takes the table *)
  all: destruct (Nat.eq_dec r0 (j_cur th)) as [->|Hne];
       [ right; eexists t, _; split; [simpl; eapply nth_error_upd_same; exact Hth|split; [reflexivity|exact Hin]]
       | left; exists r0; unfold in_rows, rows_of in *;
         repeat progress (autorewrite with getp_simp); eqb_all; simpl; exact Hin ].
Qed.

(* a proxy in a ReleaseClients loop stays there until that call releases it *)
Lemma loop_fwd_step : forall v c t c', JV c -> JW c -> jstep v c t = Some c' ->
  forall x, in_loop c x -> in_loop c' x \/ jx_rel (getx c' x) = true.
Proof.
  intros v c t c' HV HW Hs x [t0 [th0 [H0 [Hp0 Hr0]]]].
  destruct (Nat.eq_dec t0 t) as [->|Hne].
  - unfold jstep in Hs. rewrite H0 in Hs. unfold jstep_thread in Hs. rewrite Hp0 in Hs. unfold sec_jrelease_proxy in Hs.
    pose proof (HW t th0 H0) as W. unfold wrel in W. rewrite Hp0 in W.
    destruct (V_thr c HV t th0 H0) as [Hvr _].
    destruct (j_rest th0) as [|y rest] eqn:Er; [destruct Hr0|].
    pose proof (Hvr y (or_introl eq_refl)) as Hlt.
    assert (Hnew : forall cc, In x rest -> jthreads cc = jthreads c ->
                   in_loop (sett cc t (sj_rest th0 rest)) x).
    { intros cc Hin E. exists t, (sj_rest th0 rest). split; [simpl; rewrite E; eapply nth_error_upd_same; exact H0|].
      split; [exact Hp0|exact Hin]. }
    destruct Hr0 as [<-|Hr0].
    + right. destruct (jx_rel (getx c y)) eqn:E1; [inversion Hs; subst; exact E1|].
      destruct (jx_target (getx c y)) eqn:E2;
        [inversion Hs; subst; unfold getx; simpl; rewrite nth_upd_same by exact Hlt; reflexivity|].
      exfalso. apply (W y (or_introl eq_refl)). exact E2.
    + left. destruct (jx_rel (getx c y)) eqn:E1; [inversion Hs; subst; apply Hnew; auto|].
      destruct (jx_target (getx c y)) eqn:E2; [inversion Hs; subst; apply Hnew; auto|].
      exfalso. apply (W y (or_introl eq_refl)). exact E2.
  - left. unfold jstep in Hs. destruct (nth_error (jthreads c) t) as [th|] eqn:Hth; [|discriminate].
    destruct (jstep_frame v c t th c' Hth Hs) as [[th' [E _]] _].
    exists t0, th0. split; [rewrite E; rewrite nth_error_upd_other by auto; exact H0|]. auto.
Qed.

(* a new proxy is put into the table of the promise it was asked on *)
Lemma len_step : forall v c t c', jstep v c t = Some c' ->
  forall x, (x < length (jproxies c'))%nat -> (x < length (jproxies c))%nat \/ exists r, in_rows c' r x.
Proof.
  intros v c t c' Hs.
  jleaves v Hs Hth; goal_matches.
  all: intros x0 Hx0; repeat progress (autorewrite with prx_simp in Hx0); rewrite ?length_upd in Hx0; auto.
  rewrite app_length in Hx0. simpl in Hx0.
  destruct (Nat.eq_dec x0 (length (jproxies c))) as [->|Hne]; [|left; lia].
  right. exists (j_cur th). unfold in_rows, rows_of.
  repeat progress (autorewrite with getp_simp); rewrite ?Nat.eqb_refl; simpl.
  apply rows_add_row. right. left. reflexivity.
Qed.

(* every proxy is in a table, in a ReleaseClients loop, or released *)
Definition PR (c : jconfig) : Prop := forall x, (x < length (jproxies c))%nat -> held c x.

Lemma PR_step : forall v c t c', JV c -> JW c -> PR c -> jstep v c t = Some c' -> PR c'.
Proof.
  intros v c t c' HV HW HP Hs x Hx.
  destruct (len_step v c t c' Hs x Hx) as [Hlt|Hnew]; [|left; exact Hnew].
  destruct (HP x Hlt) as [[r Hin]|[Hl|Hrel]].
  - destruct (rows_fwd_step v c t c' Hs r x Hin) as [A|A]; [left; exact A|right; left; exact A].
  - destruct (loop_fwd_step v c t c' HV HW Hs x Hl) as [A|A]; [right; left; exact A|right; right; exact A].
  - right. right. exact (rel_step v c t c' Hs x Hrel).
Qed.

Lemma PR_reach : forall v np ops c, jv_alloc_table v = true -> jreach v np ops c -> PR c.
Proof.
  intros v np ops c Hv H. induction H as [|c t c' Hr IH Hs].
  - intros x Hx. simpl in Hx. lia.
  - exact (PR_step v c t c' (JV_reach v np ops c Hr) (JW_reach v np ops c Hv Hr) IH Hs).
Qed.

(* released proxies on chains: a proxy that is in no table any more, while no ReleaseClients call is in its loop, is
   released.  (The table of a chain is taken by the last ReleaseClients of the chain: join_chain_release.) *)
Theorem join_proxies_released : forall v np ops c,
  jv_alloc_table v = true -> jreach v np ops c ->
  forall x, (x < length (jproxies c))%nat ->
    (forall r, ~ in_rows c r x) ->
    (forall t th, nth_error (jthreads c) t = Some th -> j_pc th = QRel -> ~ In x (j_rest th)) ->
    jx_rel (getx c x) = true.
Proof.
  intros v np ops c Hv Hr x Hx Hno Hnl.
  destruct (PR_reach v np ops c Hv Hr x Hx) as [[r Hin]|[[t [th [Hth [Hp Hin]]]]|Hrel]].
  - exfalso. exact (Hno r Hin).
  - exfalso. exact (Hnl t th Hth Hp Hin).
  - exact Hrel.
Qed.

(* ---- every proxy is still in a table or has its target set (a table is only taken from a settled promise) *)
Definition PT (c : jconfig) : Prop := forall x, (x < length (jproxies c))%nat -> (exists r, in_rows c r x) \/ tgt c x.

Lemma PT_reach : forall v np ops c, jv_alloc_table v = true -> jreach v np ops c -> PT c.
Proof.
  intros v np ops c Hv H. induction H as [|c t c' Hr IH Hs].
  - intros x Hx. simpl in Hx. lia.
  - intros x Hx.
    destruct (len_step v c t c' Hs x Hx) as [Hlt|Hnew]; [|left; exact Hnew].
    destruct (IH x Hlt) as [[r Hin]|Ht]; [|right; exact (tgt_step v c t c' Hs x Ht)].
    destruct (rows_fwd_step v c t c' Hs r x Hin) as [A|[t0 [th0 [H0 [Hp0 Hin0]]]]]; [left; exact A|].
    right. pose proof (JW_reach v np ops c' Hv (jreach_step v np ops c t c' Hr Hs) t0 th0 H0) as W.
    unfold wrel in W. rewrite Hp0 in W. exact (W x Hin0).
Qed.

(* proxy targets, table-free form: a proxy whose owner's next-chain ends in a settled promise r has r's result at its
   path - whether it is still in r's table or the table has already been taken by ReleaseClients *)
Theorem join_proxy_targets_chain : forall v np ops c,
  jv_alloc_table v = true -> jreach v np ops c ->
  forall x r res, (x < length (jproxies c))%nat -> nreach c (own c x) r -> settled c r ->
    p_result (getp c r) = Some res ->
    jx_target (getx c x) = Some (res_dest res (jx_path (getx c x))).
Proof.
  intros v np ops c Hv Hr x r res Hx Hn Hst Hres.
  destruct (PT_reach v np ops c Hv Hr x Hx) as [[r' Hin]|Ht].
  - assert (r' = r).
    { pose proof (X_rows c (JX_reach v np ops c Hv Hr) r' x Hin) as Hn'.
      apply (nreach_det c _ _ _ Hn' Hn); [|exact (proj2 Hst)].
      destruct (p_next (getp c r')) eqn:En; [|reflexivity]. exfalso.
      destruct (proj2 (JZ_reach v np ops c Hv Hr r') ltac:(congruence)) as [_ [Hc _]].
      unfold in_rows, rows_of in Hin. rewrite Hc in Hin. destruct Hin. }
    subst r'. exact (join_proxy_targets v np ops c Hv Hr r x res Hst Hres Hin).
  - unfold tgt in Ht. destruct (jx_target (getx c x)) as [d|] eqn:Ed; [|congruence]. f_equal.
    destruct (nth_error (jproxies c) x) as [px|] eqn:Ex; [|apply nth_error_None in Ex; lia].
    pose proof (getx_nth _ _ _ Ex) as Eg. unfold own in Hn. rewrite Eg in *.
    exact (endd_det c _ _ _ r res (TG_reach v np ops c Hv Hr x px Ex d Ed) Hn (proj2 Hst) Hres).
Qed.

(* ---- a Fulfill / Reject that has returned left its promise settled, with its resolution as the result *)
Definition res_pc (p : jpc) : bool := match p with QStopWait | QKnown | QFul | QFulWait | QClose => true | _ => false end.

Definition fdone (c : jconfig) (th : jthread) : Prop :=
  match j_op th with
  | JFulfill k _ | JReject k =>
    (res_pc (j_pc th) = true -> j_cur th = k /\ j_res th = jop_res (j_op th)) /\
    (j_pc th = QDone -> j_out th = ORet -> settled c k /\ p_result (getp c k) = Some (jop_res (j_op th)))
  | _ => True
  end.

Definition FD (c : jconfig) : Prop := forall t th, nth_error (jthreads c) t = Some th -> fdone c th.

Lemma FD_step : forall v c t c', JOP c -> JR c -> JS c -> JZ c -> JE4 c -> FD c -> jstep v c t = Some c' -> FD c'.
Proof.
  intros v c t c' HO HR HS HZ HE HF Hs.
  pose proof (settled_step v c t c' HS Hs) as Hset.
  pose proof (resend_step v c t c' HR Hs) as Hend.
  assert (Hkeep : forall k res, settled c k /\ p_result (getp c k) = Some res ->
                                settled c' k /\ p_result (getp c' k) = Some res).
  { intros k res [A B]. split; [exact (Hset k A)|exact (proj2 (Hend k res (proj2 A) B))]. }
  clear Hset Hend.
  unfold jstep in Hs. destruct (nth_error (jthreads c) t) as [th|] eqn:Hth; [|discriminate].
  pose proof (HF t th Hth) as Hown. unfold fdone in Hown.
  pose proof (HO t th Hth) as Hok.
  assert (Hact : jphase (j_cur th) th = true -> p_next (getp c (j_cur th)) = None).
  { intros Hp. pose proof (jcount_mem _ _ _ _ Hth Hp) as Hpos. rewrite (HE (j_cur th)) in Hpos.
    apply act_next. destruct (act (getp c (j_cur th))); [reflexivity|lia]. }
  pose proof (fun k => proj1 (HZ k)) as Hcn.
  junfold Hs. jexplode Hs; inversion Hs; subst; clear Hs.
  all: unfold resolve_entry, do_known, do_final in *; goal_matches.
  all: norm_negb.
  all: unfold jphase, jpre, jpost in Hact;
       repeat match goal with H : j_pc _ = _ |- _ => rewrite H in Hact end; rewrite ?Nat.eqb_refl in Hact; simpl in Hact.
  all: intros t0 th0 H0; simpl in H0; rewrite ?close_sigs_threads in H0; simpl in H0;
       destruct (jupd_nth_cases _ _ _ _ _ _ Hth H0) as [[-> ->]|[Hne H0']]; clear H0;
       [ idtac
       | pose proof (HF _ _ H0') as A; unfold fdone in *; destruct (j_op th0); try exact I;
         (destruct A as [A1 A2]; split; [exact A1|intros P1 P2; exact (Hkeep _ _ (A2 P1 P2))]) ].
  all: unfold fdone, jcall_done;
       repeat match goal with |- context [match j_via ?th with _ => _ end] => destruct (j_via th) eqn:? end;
       cbn [j_pc j_op j_via j_cur j_rest j_waitx j_res j_out jgoto jfinish sj_pc sj_cur sj_par sj_path sj_via sj_rest sj_waitx sj_res sj_out].
  all: match goal with
       | H : j_op _ = _ |- _ => rewrite H in Hok
       | _ => destruct (j_op th) eqn:Hop
       end; cbv beta iota in Hown |- *; try exact I.
  all: repeat match goal with H : j_pc _ = _ |- _ => rewrite H in Hok end;
       repeat match goal with H : j_pc _ = _ |- _ => rewrite H in Hown end; simpl in Hok; try discriminate Hok.
  all: repeat match goal with
              | H : JFulfill _ _ = _ |- _ => inversion H; subst; clear H
              | H : JReject _ = _ |- _ => inversion H; subst; clear H
              end.
  all: split; [intros Hp; simpl in Hp; try discriminate Hp|intros P1 P2; try discriminate P1; try discriminate P2].
  all: try (split; reflexivity).
  all: try (apply (proj1 Hown); reflexivity).
  all: try (destruct (proj1 Hown eq_refl) as [Hc Hrs]; rewrite <- Hrs, <- Hc).
  all: unfold settled;
       repeat progress (autorewrite with getp_simp; rewrite ?signals_close_sigs, ?next_close_sigs, ?result_close_sigs);
       rewrite ?Nat.eqb_refl; simpl; rewrite ?next_close_joined; simpl.
  all: split; [split; [reflexivity|]|reflexivity].
  all: first [apply Hact; reflexivity|apply Hcn; assumption].
Qed.

Lemma FD_reach : forall v np ops c, jv_alloc_table v = true -> jreach v np ops c -> FD c.
Proof.
  intros v np ops c Hv H. induction H as [|c t c' Hr IH Hs].
  - intros t th Hth. simpl in Hth. rewrite nth_error_map in Hth. destruct (nth_error ops t) as [o|]; inversion Hth; subst.
    unfold fdone. destruct o; simpl; try exact I; (split; [discriminate|discriminate]).
  - exact (FD_step v c t c' (JOP_reach v np ops c Hr) (JR_reach v np ops c Hr) (JS_reach v np ops c Hr)
             (JZ_reach v np ops c Hv Hr) (JE4_reach v np ops c Hv Hr) IH Hs).
Qed.

(* proxy_clients_resolved_and_released on chains, in the shape of the single-promise theorem:
   (resolved) once Fulfill / Reject of promise k has returned, every proxy whose owner's next-chain ends at k - the
   pipelined clients of k and of every promise joined, directly or not, onto k - refers to what that resolution holds
   at the proxy's path;
   (released) every proxy is in some promise's client table, in the loop of the ReleaseClients call that took its
   table, or released. *)
Theorem join_proxy_clients_resolved_and_released : forall v np ops c,
  jv_alloc_table v = true -> jreach v np ops c ->
  (forall t th k, nth_error (jthreads c) t = Some th -> (exists caps, j_op th = JFulfill k caps) \/ j_op th = JReject k ->
     j_pc th = QDone -> j_out th = ORet ->
     forall x, (x < length (jproxies c))%nat -> nreach c (own c x) k ->
       jx_target (getx c x) = Some (res_dest (jop_res (j_op th)) (jx_path (getx c x)))) /\
  (forall x, (x < length (jproxies c))%nat ->
     (exists r, in_rows c r x) \/
     (exists t th, nth_error (jthreads c) t = Some th /\ j_pc th = QRel /\ In x (j_rest th)) \/
     jx_rel (getx c x) = true).
Proof.
  intros v np ops c Hv Hr. split.
  - intros t th k Hth Hop Hpc Hout x Hx Hn.
    pose proof (FD_reach v np ops c Hv Hr t th Hth) as F. unfold fdone in F.
    assert (Hs : settled c k /\ p_result (getp c k) = Some (jop_res (j_op th))).
    { destruct Hop as [[caps E]|E]; rewrite E in F |- *; exact (proj2 F Hpc Hout). }
    destruct Hs as [Hst Hres].
    exact (join_proxy_targets_chain v np ops c Hv Hr x k _ Hx Hn Hst Hres).
  - exact (PR_reach v np ops c Hv Hr).
Qed.
