(* With no Join operation the Join-specific state of PromiseJoin.v is inert: no promise is ever pending join or joined,
   no Promise.mu is held at a section boundary, no thread is in a Join section.  Each promise then runs the
   single-promise protocol of Promise.v on its own fields.  (A full simulation between the two models on the projected
   observables is not proved; this lemma removes the Join-specific part of the difference.) *)
From CV Require Import Promise.Promise Promise.PromiseProofs Promise.PromiseJoin Promise.PromiseJoinThms
  Promise.PromiseJoinInv Promise.PromiseJoinForest.
Open Scope Z_scope.

Definition no_join_op (o : jop) : Prop := match o with JJoin _ _ => False | _ => True end.

Record NJ (c : jconfig) : Prop := {
  NJ_prom : forall k, p_next (getp c k) = None /\ p_joined (getp c k) = CNil /\ p_mu (getp c k) = None;
  NJ_thr : forall t th, nth_error (jthreads c) t = Some th -> no_join_op (j_op th) /\ jjoin_pc (j_pc th) = false
}.

Lemma joined_close_sigs' : forall sigs c k, p_joined (getp (close_sigs c sigs) k) = p_joined (getp c k).
Proof. intros. destruct (getp_close_sigs sigs c k) as [H|H]; rewrite H; reflexivity. Qed.

Lemma close_joined_nil : forall p, p_joined p = CNil -> close_joined p = p.
Proof. intros p H. unfold close_joined. rewrite H. reflexivity. Qed.

Lemma NJ_step : forall v c t c', NJ c -> jstep v c t = Some c' -> NJ c'.
Proof.
  intros v c t c' HN Hs.
  unfold jstep in Hs. destruct (nth_error (jthreads c) t) as [th|] eqn:Hth; [|discriminate].
  destruct (NJ_thr c HN t th Hth) as [Hop Hpc].
  junfold Hs. jexplode Hs; inversion Hs; subst; clear Hs.
  all: unfold resolve_entry, do_known, do_final; goal_matches.
  all: repeat match goal with H : j_op _ = _ |- _ => rewrite H in Hop end; simpl in Hop; try contradiction.
  all: repeat match goal with H : j_pc _ = _ |- _ => rewrite H in Hpc end; simpl in Hpc; try discriminate Hpc.
  all: constructor.
  all: try (intros k0; destruct (NJ_prom c HN k0) as [A [B C]];
            repeat progress (autorewrite with getp_simp; rewrite ?next_close_sigs, ?joined_close_sigs', ?mu_close_sigs);
            eqb_all; simpl;
            repeat match goal with |- context [close_joined ?p] =>
              rewrite (close_joined_nil p) by (simpl; first [exact B | apply (proj1 (proj2 (NJ_prom c HN _)))]) end;
            simpl; repeat split; first [assumption | reflexivity | apply (NJ_prom c HN)]).
  all: intros t0 th0 H0; simpl in H0; rewrite ?close_sigs_threads in H0; simpl in H0;
       destruct (jupd_nth_cases _ _ _ _ _ _ Hth H0) as [[-> ->]|[Hne H0']]; [|exact (NJ_thr c HN _ _ H0')].
  all: simpl; repeat match goal with H : j_op _ = _ |- _ => rewrite H end;
       repeat match goal with H : j_pc _ = _ |- _ => rewrite H end; simpl; split; try exact I; try reflexivity; try assumption.
Qed.

(* Join model with zero Joins: the Join-specific state is inert, in every reachable configuration *)
Theorem join_zero_joins_inert : forall v np ops c, Forall no_join_op ops -> jreach v np ops c ->
  (forall k, p_next (getp c k) = None /\ p_joined (getp c k) = CNil /\ p_mu (getp c k) = None) /\
  (forall t th, nth_error (jthreads c) t = Some th -> jjoin_pc (j_pc th) = false).
Proof.
  intros v np ops c Ho H.
  assert (HN : NJ c).
  { induction H as [|c t c' Hr IH Hs]; [|exact (NJ_step v c t c' IH Hs)].
    constructor.
    - intros k. destruct (getp_init np ops k) as [E|E]; rewrite E; auto.
    - intros t th Hth. simpl in Hth. rewrite nth_error_map in Hth. destruct (nth_error ops t) as [o|] eqn:E; inversion Hth; subst.
      split; [|reflexivity]. simpl. rewrite Forall_forall in Ho. exact (Ho o (nth_error_In _ _ E)). }
  split; [exact (NJ_prom c HN)|]. intros t th Hth. exact (proj2 (NJ_thr c HN t th Hth)).
Qed.

(* with zero Joins the precondition of Join holds vacuously: the chain theorems apply to every promise on its own *)
Lemma no_join_ordered : forall ops, Forall no_join_op ops -> join_ordered ops.
Proof.
  intros ops H. unfold join_ordered. eapply Forall_impl; [|exact H].
  intros o Ho. destruct o; simpl in *; auto; contradiction.
Qed.

Theorem join_zero_joins_inert_ordered : forall v np ops c, Forall no_join_op ops -> jreach v np ops c ->
  (forall k, p_next (getp c k) = None /\ p_joined (getp c k) = CNil /\ p_mu (getp c k) = None) /\
  (forall t th, nth_error (jthreads c) t = Some th -> jjoin_pc (j_pc th) = false) /\
  join_ordered ops.
Proof.
  intros v np ops c Hn Hr. destruct (join_zero_joins_inert v np ops c Hn Hr) as [A B].
  split; [exact A|]. split; [exact B|exact (no_join_ordered ops Hn)].
Qed.
