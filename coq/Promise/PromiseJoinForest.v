(* Joined promises form a forest.  Precondition of Join (answer.go: "When acquiring multiple Promise.mu mutexes,
   they must be acquired in traversal order"; a promise must not be joined to itself or to a promise that is or
   will be joined to it): here, as in the generators, promise k only joins promises of lower index.  Under this
   precondition every [next] edge goes to a lower index, in every configuration reachable under any schedule.
   Without it Join can block forever: [self_join_refuted], [cyclic_join_refuted]. *)
From CV Require Import Promise.Promise Promise.PromiseProofs Promise.PromiseJoin Promise.PromiseJoinThms
  Promise.PromiseJoinInv.
Open Scope Z_scope.

Definition op_ordered (o : jop) : Prop := match o with JJoin k par => (par < k)%nat | _ => True end.
Definition join_ordered (ops : list jop) : Prop := Forall op_ordered ops.

(* a Join thread past its first section works on its own promise and looks at a lower one *)
Definition jjoin_pc (p : jpc) : bool :=
  match p with QJStopWait | QJRelock | QJPar | QJWaitRes | QJWaitJ | QJLockP => true | _ => false end.

Definition ftinv (th : jthread) : Prop :=
  op_ordered (j_op th) /\ (jjoin_pc (j_pc th) = true -> (j_par th < j_cur th)%nat).

Record FO (c : jconfig) : Prop := {
  F_next : forall k q, p_next (getp c k) = Some q -> (q < k)%nat;
  F_thr : forall t th, nth_error (jthreads c) t = Some th -> ftinv th
}.

Lemma next_close_sigs : forall sigs c k, p_next (getp (close_sigs c sigs) k) = p_next (getp c k).
Proof. intros. destruct (getp_close_sigs sigs c k) as [H|H]; rewrite H; reflexivity. Qed.
Lemma next_close_joined : forall p, p_next (close_joined p) = p_next p.
Proof. intros. unfold close_joined. destruct (p_joined p); reflexivity. Qed.

Lemma FO_step : forall v c t c', FO c -> jstep v c t = Some c' -> FO c'.
Proof.
  intros v c t c' HF Hs.
  unfold jstep in Hs. destruct (nth_error (jthreads c) t) as [th|] eqn:Hth; [|discriminate].
  pose proof (F_thr c HF t th Hth) as [Hop Hpar].
  junfold Hs. jexplode Hs; inversion Hs; subst; clear Hs.
  all: unfold resolve_entry, do_known, do_final.
  all: goal_matches.
  all: constructor.
  (* next edges *)
  all: try (intros k0 q0 Hn; repeat progress (autorewrite with getp_simp in Hn; rewrite ?next_close_sigs in Hn);
            simpl in Hn; eqb_all; simpl in Hn; rewrite ?next_close_joined in Hn; simpl in Hn;
            first [ exact (F_next c HF _ _ Hn)
                  | (injection Hn as <-; repeat match goal with H : j_pc _ = _ |- _ => rewrite H in Hpar end;
                     apply Hpar; reflexivity) ]).
  (* threads *)
  all: intros t0 th0 H0; simpl in H0; rewrite ?close_sigs_threads in H0; simpl in H0;
       destruct (jupd_nth_cases _ _ _ _ _ _ Hth H0) as [[-> ->]|[Hne H0']];
       [|exact (F_thr c HF _ _ H0')].
  all: unfold ftinv; simpl; repeat match goal with H : j_pc _ = _ |- _ => rewrite H in * end;
       repeat match goal with H : j_op _ = _ |- _ => rewrite H in * end; simpl in *.
  all: (split; [exact Hop|]); intros Hj; try discriminate Hj; try (apply Hpar; reflexivity).
  all: try exact Hop.
  all: pose proof (F_next c HF _ _ Heqo); specialize (Hpar eq_refl); lia.
Qed.

Lemma FO_init : forall np ops, join_ordered ops -> FO (jinit np ops).
Proof.
  intros np ops Ho. constructor.
  - intros k q H. destruct (getp_init np ops k) as [E|E]; rewrite E in H; discriminate.
  - intros t th H. simpl in H. rewrite nth_error_map in H. destruct (nth_error ops t) as [o|] eqn:E; inversion H; subst.
    split; [|discriminate]. simpl. apply nth_error_In in E. unfold join_ordered in Ho.
    rewrite Forall_forall in Ho. exact (Ho o E).
Qed.

(* the forest invariant: every next edge goes to a promise of lower index (so chains are finite, acyclic and
   end in a promise that is not joined), and a Join thread always looks at a promise below its own *)
Theorem join_forest : forall v np ops c, join_ordered ops -> jreach v np ops c ->
  (forall k q, p_next (getp c k) = Some q -> (q < k)%nat) /\
  (forall t th, nth_error (jthreads c) t = Some th -> jjoin_pc (j_pc th) = true -> (j_par th < j_cur th)%nat).
Proof.
  intros v np ops c Ho H.
  assert (HF : FO c). { induction H as [|c t c' Hr IH Hs]; [apply FO_init; auto|exact (FO_step v c t c' IH Hs)]. }
  split; [exact (F_next c HF)|]. intros t th Hth. exact (proj2 (F_thr c HF t th Hth)).
Qed.

(* ---- without the precondition Join can block forever *)

(* p.Join(p.Answer()): the thread holds p.mu and waits for it *)
Example self_join_refuted :
  let c := jrun jfixed (jinit 1 [JJoin 0 0]) [0%nat; 0%nat; 0%nat] in
  jenabled jfixed c 0 = false /\ jfinished c 0 = false /\ jmutex_blocked c 0 = true.
Proof. vm_compute. repeat split; reflexivity. Qed.

(* p.Join(q) || q.Join(p): each holds its own mu and waits for the other's *)
Example cyclic_join_refuted :
  let c := jrun jfixed (jinit 2 [JJoin 0 1; JJoin 1 0]) [0%nat; 1%nat; 0%nat; 1%nat] in
  jenabled jfixed c 0 = false /\ jenabled jfixed c 1 = false /\
  jfinished c 0 = false /\ jfinished c 1 = false /\ jmutex_blocked c 0 = true /\ jmutex_blocked c 1 = true.
Proof. vm_compute. repeat split; reflexivity. Qed.
