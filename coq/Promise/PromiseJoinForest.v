(* Joined promises form a forest.  Precondition of Join (answer.go: "When acquiring multiple Promise.mu mutexes,
   they must be acquired in traversal order"; a promise must not be joined to itself or to a promise that is or
   will be joined to it): here, as in the generators, promise k only joins promises of lower index.  Under this
   precondition every [next] edge goes to a lower index, in every configuration reachable under any schedule.
   Without it Join can block forever: [self_join_refuted], [cyclic_join_refuted]. *)
From CV Require Import Promise.Promise Promise.PromiseProofs Promise.PromiseJoin Promise.PromiseJoinThms
  Promise.PromiseJoinInv.
Open Scope Z_scope.

Definition op_ordered (o : jop) : Prop := match o with JJoin k par => (par < k)%nat | _ => True end.
Definition join_ordered (ops : list jop) : Prop := Forall op_ordered ops.

(* a Join thread past its first section works on its own promise and looks at a lower one *)
Definition jjoin_pc (p : jpc) : bool :=
  match p with QJStopWait | QJRelock | QJPar | QJWaitRes | QJWaitJ | QJLockP => true | _ => false end.

Definition ftinv (th : jthread) : Prop :=
  op_ordered (j_op th) /\ (jjoin_pc (j_pc th) = true -> (j_par th < j_cur th)%nat).

Record FO (c : jconfig) : Prop := {
  F_next : forall k q, p_next (getp c k) = Some q -> (q < k)%nat;
  F_thr : forall t th, nth_error (jthreads c) t = Some th -> ftinv th
}.

Lemma next_close_sigs : forall sigs c k, p_next (getp (close_sigs c sigs) k) = p_next (getp c k).
Proof. intros. destruct (getp_close_sigs sigs c k) as [H|H]; rewrite H; reflexivity. Qed.
Lemma next_close_joined : forall p, p_next (close_joined p) = p_next p.
Proof. intros. unfold close_joined. destruct (p_joined p); reflexivity. Qed.

Lemma FO_step : forall v c t c', FO c -> jstep v c t = Some c' -> FO c'.
Proof.
  intros v c t c' HF Hs.
  unfold jstep in Hs. destruct (nth_error (jthreads c) t) as [th|] eqn:Hth; [|discriminate].
  pose proof (F_thr c HF t th Hth) as [Hop Hpar].
  junfold Hs. jexplode Hs; inversion Hs; subst; clear Hs.
  all: unfold resolve_entry, do_known, do_final.
  all: goal_matches.
  all: constructor.
  (* next edges *)
  all: try (intros k0 q0 Hn; repeat progress (autorewrite with getp_simp in Hn; rewrite ?next_close_sigs in Hn);
            simpl in Hn; eqb_all; simpl in Hn; rewrite ?next_close_joined in Hn; simpl in Hn;
            first [ exact (F_next c HF _ _ Hn)
                  | (injection Hn as <-; repeat match goal with H : j_pc _ = _ |- _ => rewrite H in Hpar end;
                     apply Hpar; reflexivity) ]).
  (* threads *)
  all: intros t0 th0 H0; simpl in H0; rewrite ?close_sigs_threads in H0; simpl in H0;
       destruct (jupd_nth_cases _ _ _ _ _ _ Hth H0) as [[-> ->]|[Hne H0']];
       [|exact (F_thr c HF _ _ H0')].
  all: unfold ftinv; simpl; repeat match goal with H : j_pc _ = _ |- _ => rewrite H in * end;
       repeat match goal with H : j_op _ = _ |- _ => rewrite H in * end; simpl in *.
  all: (split; [exact Hop|]); intros Hj; try discriminate Hj; try (apply Hpar; reflexivity).
  all: try exact Hop.
  all: pose proof (F_next c HF _ _ Heqo); specialize (Hpar eq_refl); lia.
Qed.

Lemma FO_init : forall np ops, join_ordered ops -> FO (jinit np ops).
Proof.
  intros np ops Ho. constructor.
  - intros k q H. destruct (getp_init np ops k) as [E|E]; rewrite E in H; discriminate.
  - intros t th H. simpl in H. rewrite nth_error_map in H. destruct (nth_error ops t) as [o|] eqn:E; inversion H; subst.
    split; [|discriminate]. simpl. apply nth_error_In in E. unfold join_ordered in Ho.
    rewrite Forall_forall in Ho. exact (Ho o E).
Qed.

(* the forest invariant: every next edge goes to a promise of lower index (so chains are finite, acyclic and
   end in a promise that is not joined), and a Join thread always looks at a promise below its own *)
Theorem join_forest : forall v np ops c, join_ordered ops -> jreach v np ops c ->
  (forall k q, p_next (getp c k) = Some q -> (q < k)%nat) /\
  (forall t th, nth_error (jthreads c) t = Some th -> jjoin_pc (j_pc th) = true -> (j_par th < j_cur th)%nat).
Proof.
  intros v np ops c Ho H.
  assert (HF : FO c). { induction H as [|c t c' Hr IH Hs]; [apply FO_init; auto|exact (FO_step v c t c' IH Hs)]. }
  split; [exact (F_next c HF)|]. intros t th Hth. exact (proj2 (F_thr c HF t th Hth)).
Qed.

(* ---- without the precondition Join can block forever *)

(* p.Join(p.Answer()): the thread holds p.mu and waits for it *)
Example self_join_refuted :
  let c := jrun jfixed (jinit 1 [JJoin 0 0]) [0%nat; 0%nat; 0%nat] in
  jenabled jfixed c 0 = false /\ jfinished c 0 = false /\ jmutex_blocked c 0 = true.
Proof. vm_compute. repeat split; reflexivity. Qed.

(* p.Join(q) || q.Join(p): each holds its own mu and waits for the other's *)
Example cyclic_join_refuted :
  let c := jrun jfixed (jinit 2 [JJoin 0 1; JJoin 1 0]) [0%nat; 1%nat; 0%nat; 1%nat] in
  jenabled jfixed c 0 = false /\ jenabled jfixed c 1 = false /\
  jfinished c 0 = false /\ jfinished c 1 = false /\ jmutex_blocked c 0 = true /\ jmutex_blocked c 1 = true.
Proof. vm_compute. repeat split; reflexivity. Qed.

(* ---------------------------------------------------------------- no deadlock on the mutexes *)

(* the section of a Join thread that holds p.mu and locks the promise it looks at can always run when that
   promise's mu is free (the traversal switch is exhaustive) *)
Lemma join_par_enabled : forall v c t th,
  j_par th <> j_cur th -> free c (j_par th) = true -> sec_join_par v c t th <> None.
Proof.
  intros v c t th Hne Hfree. unfold sec_join_par.
  destruct (Nat.eqb_spec (j_par th) (j_cur th)); [contradiction|]. rewrite Hfree. simpl.
  destruct (p_caller (getp c (j_par th))) eqn:Ec.
  - destruct (negb (jv_alloc_table v) && negb (p_hastable (getp c (j_par th))) &&
              negb match p_clients (getp c (j_cur th)) with [] => true | _ :: _ => false end); discriminate.
  - destruct (is_pres (getp c (j_par th))) eqn:E1; [discriminate|].
    destruct (is_pjoin (getp c (j_par th))) eqn:E2; [discriminate|].
    destruct (p_is_resolved (getp c (j_par th))) eqn:E3; [discriminate|].
    destruct (p_next (getp c (j_par th))) eqn:E4; [discriminate|].
    exfalso. unfold is_pres, p_is_resolved, p_is_joined in *. rewrite Ec, E2, E4 in *. simpl in *.
    destruct (no_signals (getp c (j_par th))); discriminate.
Qed.

(* Under the Join precondition: if some promise's mu is held (so that threads may be waiting for it), some thread
   can take a step.  Hence no operation is blocked forever on a Promise.mu: the lock order p, then the promise
   joined, is acyclic.  (PARTIAL no_stuck for chains: the channel waits are not covered here.) *)
Theorem join_no_mutex_deadlock : forall v np ops c, jv_alloc_table v = true -> join_ordered ops ->
  jreach v np ops c -> forall k t, p_mu (getp c k) = Some t -> exists t', jenabled v c t' = true.
Proof.
  intros v np ops c Hv Ho Hr.
  destruct (join_forest v np ops c Ho Hr) as [_ Hpar].
  destruct (join_mu_discipline v np ops c Hv Hr) as [HM _].
  intros k. induction k as [k IH] using lt_wf_ind. intros t Hmu.
  destruct (HM k t Hmu) as [th [Hth [Hpc Hcur]]].
  assert (Hlt : (j_par th < j_cur th)%nat) by (apply (Hpar t th Hth); rewrite Hpc; reflexivity).
  destruct (p_mu (getp c (j_par th))) as [t2|] eqn:E.
  - apply (IH (j_par th) ltac:(lia) t2 E).
  - exists t. unfold jenabled, jstep. rewrite Hth. unfold jstep_thread. rewrite Hpc.
    destruct (sec_join_par v c t th) eqn:Es; [reflexivity|].
    exfalso. apply (join_par_enabled v c t th); [lia| |exact Es]. unfold free. rewrite E. reflexivity.
Qed.
