(* C20 - totality of the rendering walk and well-formedness of the whole output.
   Statements only; each is closed by [exact] of a lemma proved in coq/Text/TextTotal.v,
   coq/Text/TextOutput.v.  Scope: see docs/C20.md ("Round 6"). *)
From CV Require Import Text.Strquote Text.TextSpec Text.StrquoteProofs Text.TextM Text.TextProofs
  Text.TextTotal Text.TextOutput.
Open Scope Z_scope.

(* ---- (A) totality.  All schemas with ranked (acyclic) groups whose struct-typed slots name a
   type of SS and have a default of depth <= DD and whose list defaults hold no pointers
   ([tot_schema]: nested structs, lists of lists, groups, unions, recursive and mutually recursive
   types included), all configurations with the default-expansion guard (c_cut), all stored
   values and type ids: with fuel >= fuel_bound = (depth v + |SS|*(DD+1))*(G+2) + G + 1 Encode
   returns text or an enumerated error, never OutOfFuel (no panic outcome exists in the model).
   _partial: the list-default premise; the inputs that give Err are not characterised by theorem. *)
Theorem C20_render_total_partial : forall ffmt c sc grank G DD SS fuel id v,
  c_cut c = true -> tot_schema sc grank G DD SS -> (fuel_bound G DD SS v <= fuel)%nat ->
  (exists out, render ffmt c sc fuel id v = Ok out) \/ (exists e, render ffmt c sc fuel id v = Err e).
Proof. exact render_total_partial. Qed.
Print Assumptions C20_render_total_partial.

(* the same on a used encoder: any cache state *)
Theorem C20_encode_total_partial : forall ffmt c sc grank G DD SS fuel id v st,
  c_cut c = true -> tot_schema sc grank G DD SS -> (fuel_bound G DD SS v <= fuel)%nat ->
  fst (encode ffmt c sc fuel id v st) <> OutOfFuel.
Proof. exact encode_total_partial. Qed.
Print Assumptions C20_encode_total_partial.

(* parse_render without the success premise: within the bound the outcome is an enumerated error
   or a text that reads back as exactly the shown field values *)
Theorem C20_render_faithful_total_partial : forall ffmt c sc grank G DD SS fuel id v,
  schema_ok sc -> rval_ok v ->
  c_cut c = true -> tot_schema sc grank G DD SS -> (fuel_bound G DD SS v <= fuel)%nat ->
  (exists out t, render ffmt c sc fuel id v = Ok out /\ shown ffmt c sc fuel id v = Ok t /\
                 out = print t /\ wf_tval t /\ parse_text out = Some t)
  \/ (exists e, render ffmt c sc fuel id v = Err e).
Proof. exact render_faithful_total_partial. Qed.
Print Assumptions C20_render_faithful_total_partial.

(* the list-default premise cannot be dropped: struct L { l :List(L) = [()]; } diverges for every
   fuel on the fixed configuration (Go: stack overflow) *)
Theorem C20_render_listdefault_refuted : forall fuel,
  render no_floats cfg_fixed ldef_schema fuel 1 (RStruct [] []) = OutOfFuel.
Proof. exact render_listdefault_refuted. Qed.
Print Assumptions C20_render_listdefault_refuted.

(* ---- (B) the whole output.  Print level (floats included: tokens of printable non-quote bytes) *)
Theorem C20_print_printable : forall t, out_ok t -> Forall printable (print t).
Proof. exact print_printable. Qed.
Print Assumptions C20_print_printable.

Theorem C20_print_quotes_balanced : forall t, out_ok t -> qstruct (print t).
Proof. exact print_quotes_balanced. Qed.
Print Assumptions C20_print_quotes_balanced.

(* Render level: all float-free schemas with identifier names, all stored values, all
   configurations: every byte written is printable ASCII; the output is a sequence of non-quote
   bytes and of whole literals [quote s] (every quote character opens or closes, or is escaped
   inside, a literal produced by the quoting function; inside: C20_quote_wellformed) *)
Theorem C20_output_printable : forall ffmt c sc fuel id v out,
  schema_ok sc -> rval_ok v -> render ffmt c sc fuel id v = Ok out -> Forall printable out.
Proof. exact output_printable. Qed.
Print Assumptions C20_output_printable.

Theorem C20_output_quotes_balanced : forall ffmt c sc fuel id v out,
  schema_ok sc -> rval_ok v -> render ffmt c sc fuel id v = Ok out -> qstruct out.
Proof. exact output_quotes_balanced. Qed.
Print Assumptions C20_output_quotes_balanced.
