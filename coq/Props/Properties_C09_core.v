(* C09, extension: "no internal lock stays held" for the locks below the RPC layer that
   C10-C12 rely on -- Promise.mu (answer.go), Client.mu / clientHook.mu (capability.go, with the
   lock hand-over of resolveHook), Server.mu (server/server.go), answerQueue.mu /
   structReturner.mu / returnEmbargoer.mu (server/answer.go).
   Statements only; each is closed by [exact] of a lemma proved elsewhere. *)
From Coq Require Import List String.
From CV Require Import Lock.LockCheck Lock.LockCheckProofs Lock.LockInstCore Gen.LockProgsCore.
Import ListNotations.

Theorem C09_core_lock_discipline : check_prog core_prog = true.
Proof. exact core_ok. Qed.
Print Assumptions C09_core_lock_discipline.

(* every execution of every function / closure / goroutine body of those files: no unlock of a
   mutex not held, no second lock of the same abstract mutex (in particular never two
   clientHook mutexes at once: resolveHook's hand-over releases before it acquires), no
   re-assignment of p / parent while the Promise.mu named through it is held, no application
   call-out or blocking wait while any mutex is held, return states = contract exits *)
Theorem C09_core_lock_sound : forall f fd b c r,
  nth_error core_prog f = Some fd -> f_body fd = Some b -> In c (f_cases fd) ->
  exec core_prog b (init c) r ->
  (forall v, r <> RFail v) /\
  (forall o σ, ret_of r = Some (o, σ) ->
     exists e, In e (c_exits c) /\ e_out e = o /\ e_held e = held σ /\
               e_sender e = sender σ /\ e_tasks e = tasks σ) /\
  (forall σ, r <> RBrk σ /\ r <> RCont σ).
Proof. exact (check_sound core_prog core_ok). Qed.
Print Assumptions C09_core_lock_sound.

(* exported functions and methods, ClientHook / PipelineCaller / Returner implementations,
   goroutine bodies and escaping closures are entered with nothing and leave nothing held *)
Theorem C09_core_api_exits_hold_nothing : forall f fd b c r o σ,
  nth_error core_prog f = Some fd -> f_api fd = true -> f_body fd = Some b ->
  In c (f_cases fd) -> exec core_prog b (init c) r -> ret_of r = Some (o, σ) ->
  c_held c = [] /\ c_sender c = false /\ held σ = [] /\ sender σ = false /\ tasks σ = 0.
Proof. exact (api_exits_empty core_prog core_ok). Qed.
Print Assumptions C09_core_api_exits_hold_nothing.
