(* C12 — a local server sees calls in order, within its concurrency cap, until shutdown.
   Statements only; each is closed by [exact] of a lemma proved in coq/Server/*.v.
   All theorems quantify over every parameter record P (MaxConcurrentCalls, AnswerQueueSize,
   every set of direct and pipelined calls and every caller order) and every reachable
   configuration, i.e. every schedule of the threads of coq/Server/Server.v. *)
From CV Require Import Server.Server Server.ServerProofs Server.ServerSteps Server.ServerStart Server.ServerTheorems
  Server.ServerOnce Server.ServerExamples.
From Coq Require Import List Arith Bool.
Import ListNotations.

(* reachability is closed under running any schedule *)
Theorem C12_run_reachable : forall P s c, reachable P c -> reachable P (run P c s).
Proof. exact run_reachable. Qed.
Print Assumptions C12_run_reachable.

(* running <= MaxConcurrentCalls: any set of distinct calls holding a slot (from the start of
   m.Impl until the slot is freed after Return) has at most p_max elements *)
Theorem C12_running_le_max : forall P c, reachable P c ->
  forall l, NoDup l -> (forall x, In x l -> holds_slot (ipc c x) = true) -> length l <= p_max P.
Proof. exact running_le_max_lemma. Qed.
Print Assumptions C12_running_le_max.

(* gate: the step that starts the implementation of call j happens in a state where every
   other started implementation has acknowledged or returned; it is a step of j's own start
   goroutine and srv.drain is nil *)
Theorem C12_gate : forall P c t c' j, reachable P c -> step P c t = Some c' ->
  ipc c j = INone -> ipc c' j <> INone -> forall i, i <> j -> ipc c' i <> IRun.
Proof. exact gate_lemma. Qed.
Print Assumptions C12_gate.

Theorem C12_gate_unique_unacked : forall P c, reachable P c ->
  forall i j, ipc c i = IRun -> ipc c j = IRun -> i = j.
Proof. exact unacked_unique. Qed.
Print Assumptions C12_gate_unique_unacked.

(* shutdown_drains *)
Theorem C12_shutdown_once : forall P c, reachable P c ->
  shcount c <= 1 /\ (shpc c = ShDone -> shcount c = 1).
Proof. exact shutdown_once_lemma. Qed.
Print Assumptions C12_shutdown_once.

Theorem C12_shutdown_after_calls : forall P c, reachable P c ->
  (shpc c = ShUser \/ shpc c = ShDone) -> forall x, holds_slot (ipc c x) = false.
Proof. exact shutdown_after_calls_lemma. Qed.
Print Assumptions C12_shutdown_after_calls.

Theorem C12_no_start_after_shutdown : forall P c t c' j, reachable P c -> step P c t = Some c' ->
  shpc c <> ShInit -> ipc c j = INone -> ipc c' j = INone.
Proof. exact no_start_after_shutdown_lemma. Qed.
Print Assumptions C12_no_start_after_shutdown.

Theorem C12_shutdown_cancels : forall P c c', reachable P c -> step P c TShutdown = Some c' ->
  shpc c = ShInit -> forall x, holds_slot (ipc c x) = true -> icanc c' x = true.
Proof. exact shutdown_cancels_lemma. Qed.
Print Assumptions C12_shutdown_cancels.

(* each_call_once, proved part: a DIRECT call (Server.Send / Server.Recv) never completes twice,
   has completed exactly once from the moment it is rejected by start or its goroutine has
   passed Returner.Return, and in particular once its Send/Recv has returned and its goroutine
   has terminated.
   Missing for the full statement (hence _partial): the same for pipelined calls (their
   completions go through the answerQueue / returnEmbargoer; checked by the correspondence
   run only), and liveness (every call eventually reaches that stage: no_stuck, not proved). *)
Theorem C12_each_call_once_partial : forall P c x, reachable P c -> p_kind P x = Direct ->
  length (compl c x) <= 1 /\ (finished_direct c x = true -> length (compl c x) = 1) /\
  (finished_direct c x = false -> compl c x = []).
Proof. exact direct_once_lemma. Qed.
Print Assumptions C12_each_call_once_partial.

Theorem C12_direct_done_once : forall P c x, reachable P c -> p_kind P x = Direct ->
  spc c x = SDone -> (ipc c x = INone \/ ipc c x = IDone) -> length (compl c x) = 1.
Proof. exact direct_done_once_lemma. Qed.
Print Assumptions C12_direct_done_once.

(* queue_order and no_stuck are NOT proved (no theorem is stated for them here); the model's
   behaviour for them is exercised by the correspondence run (the harness checks queue order,
   delivery target and absence of stuck histories on the implementation's own event log). *)

(* non-vacuity: the cap is reached, Shutdown waits for a running call; and the pre-fix variant of
   queueCaller.PipelineRecv (p_fixed = false) delivers to the wrong answer *)
Example C12_cap_reached :
  let c := run ex_params2 (init ex_params2) ex_sched2 in
  (in_impl (ipc c 0) && in_impl (ipc c 1) = true) /\ spc c 2 = SWaitFull /\ count_slots (ongoing c) = 2.
Proof. exact cap_reached. Qed.

Example C12_basis_refuted :
  hd_error (trace (run (ex_params false) (init (ex_params false)) ex_sched)) = Some (EvDeliver 2 (DRes 0)).
Proof. exact basis_refuted. Qed.

Example C12_basis_fixed :
  hd_error (trace (run (ex_params true) (init (ex_params true)) ex_sched)) = Some (EvDeliver 2 (DFwd 1)).
Proof. exact basis_fixed. Qed.
