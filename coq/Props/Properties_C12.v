(* C12 — a local server sees calls in order, within its concurrency cap, until shutdown.
   Statements only; each is closed by [exact] of a lemma proved in coq/Server/*Proofs.v. *)
From CV Require Import Server.Server Server.ServerProofs.
From Coq Require Import List Arith Bool.
Import ListNotations.
