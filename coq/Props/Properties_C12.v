(* C12 — a local server sees calls in order, within its concurrency cap, until shutdown.
   Statements only; each is closed by [exact] of a lemma proved in coq/Server/*.v.
   All theorems quantify over every parameter record P (MaxConcurrentCalls, AnswerQueueSize,
   every set of direct and pipelined calls and every caller order) and every reachable
   configuration, i.e. every schedule of the threads of coq/Server/Server.v. *)
From CV Require Import Server.Server Server.ServerProofs Server.ServerSteps Server.ServerStart Server.ServerTheorems.
From Coq Require Import List Arith Bool.
Import ListNotations.

(* reachability is closed under running any schedule *)
Theorem C12_run_reachable : forall P s c, reachable P c -> reachable P (run P c s).
Proof. exact run_reachable. Qed.
Print Assumptions C12_run_reachable.

(* running <= MaxConcurrentCalls: any set of distinct calls holding a slot (from the start of
   m.Impl until the slot is freed after Return) has at most p_max elements *)
Theorem C12_running_le_max : forall P c, reachable P c ->
  forall l, NoDup l -> (forall x, In x l -> holds_slot (ipc c x) = true) -> length l <= p_max P.
Proof. exact running_le_max_lemma. Qed.
Print Assumptions C12_running_le_max.

(* gate: the step that starts the implementation of call j happens in a state where every
   other started implementation has acknowledged or returned; it is a step of j's own start
   goroutine and srv.drain is nil *)
Theorem C12_gate : forall P c t c' j, reachable P c -> step P c t = Some c' ->
  ipc c j = INone -> ipc c' j <> INone -> forall i, i <> j -> ipc c' i <> IRun.
Proof. exact gate_lemma. Qed.
Print Assumptions C12_gate.

Theorem C12_gate_unique_unacked : forall P c, reachable P c ->
  forall i j, ipc c i = IRun -> ipc c j = IRun -> i = j.
Proof. exact unacked_unique. Qed.
Print Assumptions C12_gate_unique_unacked.

(* shutdown_drains *)
Theorem C12_shutdown_once : forall P c, reachable P c ->
  shcount c <= 1 /\ (shpc c = ShDone -> shcount c = 1).
Proof. exact shutdown_once_lemma. Qed.
Print Assumptions C12_shutdown_once.

Theorem C12_shutdown_after_calls : forall P c, reachable P c ->
  (shpc c = ShUser \/ shpc c = ShDone) -> forall x, holds_slot (ipc c x) = false.
Proof. exact shutdown_after_calls_lemma. Qed.
Print Assumptions C12_shutdown_after_calls.

Theorem C12_no_start_after_shutdown : forall P c t c' j, reachable P c -> step P c t = Some c' ->
  shpc c <> ShInit -> ipc c j = INone -> ipc c' j = INone.
Proof. exact no_start_after_shutdown_lemma. Qed.
Print Assumptions C12_no_start_after_shutdown.

Theorem C12_shutdown_cancels : forall P c c', reachable P c -> step P c TShutdown = Some c' ->
  shpc c = ShInit -> forall x, holds_slot (ipc c x) = true -> icanc c' x = true.
Proof. exact shutdown_cancels_lemma. Qed.
Print Assumptions C12_shutdown_cancels.
