(* C12 — a local server sees calls in order, within its concurrency cap, until shutdown.
   Statements only; each is closed by [exact] of a lemma proved in coq/Server/*.v.
   All theorems quantify over every parameter record P (MaxConcurrentCalls, AnswerQueueSize,
   every set of direct and pipelined calls, every caller order, slow targets) and every reachable
   configuration, i.e. every schedule of the threads of coq/Server/Server.v.
   P also contains the code variant p_fixed (false = queueCaller.PipelineRecv before the basis fix).
   Theorems without a premise on p_fixed hold for BOTH variants: they do not constrain the delivery
   target. The target theorems (C12_delivery_target, C12_delivered_is_pipelined,
   C12_basis_recorded) require p_fixed P = true and fail without it
   (C12_delivery_target_refuted). *)
From CV Require Import Server.Server Server.ServerProofs Server.ServerSteps Server.ServerStart Server.ServerTheorems
  Server.ServerOnce Server.ServerExamples Server.AqInv Server.AqTheorems Server.ServerOrder Server.OrderTheorems
  Server.OnceTheorems Server.Live Server.NoStuck Server.Measure Server.NoPanic Server.MeasureTheorems
  Server.Target Server.TargetTheorems Server.ServerArgs.
From Coq Require Import List Arith Bool.
Import ListNotations.

(* reachability is closed under running any schedule *)
Theorem C12_run_reachable : forall P s c, reachable P c -> reachable P (run P c s).
Proof. exact run_reachable. Qed.
Print Assumptions C12_run_reachable.

(* running <= MaxConcurrentCalls: any set of distinct calls holding a slot (from the start of
   m.Impl until the slot is freed after Return) has at most p_max elements *)
Theorem C12_running_le_max : forall P c, reachable P c ->
  forall l, NoDup l -> (forall x, In x l -> holds_slot (ipc c x) = true) -> length l <= p_max P.
Proof. exact running_le_max_lemma. Qed.
Print Assumptions C12_running_le_max.

(* gate: the step that starts the implementation of call j happens in a state where every
   other started implementation has acknowledged or returned; it is a step of j's own start
   goroutine and srv.drain is nil *)
Theorem C12_gate : forall P c t c' j, reachable P c -> step P c t = Some c' ->
  ipc c j = INone -> ipc c' j <> INone -> forall i, i <> j -> ipc c' i <> IRun.
Proof. exact gate_lemma. Qed.
Print Assumptions C12_gate.

Theorem C12_gate_unique_unacked : forall P c, reachable P c ->
  forall i j, ipc c i = IRun -> ipc c j = IRun -> i = j.
Proof. exact unacked_unique. Qed.
Print Assumptions C12_gate_unique_unacked.

(* shutdown_drains *)
Theorem C12_shutdown_once : forall P c, reachable P c ->
  shcount c <= 1 /\ (shpc c = ShDone -> shcount c = 1).
Proof. exact shutdown_once_lemma. Qed.
Print Assumptions C12_shutdown_once.

Theorem C12_shutdown_after_calls : forall P c, reachable P c ->
  (shpc c = ShUser \/ shpc c = ShDone) -> forall x, holds_slot (ipc c x) = false.
Proof. exact shutdown_after_calls_lemma. Qed.
Print Assumptions C12_shutdown_after_calls.

Theorem C12_no_start_after_shutdown : forall P c t c' j, reachable P c -> step P c t = Some c' ->
  shpc c <> ShInit -> ipc c j = INone -> ipc c' j = INone.
Proof. exact no_start_after_shutdown_lemma. Qed.
Print Assumptions C12_no_start_after_shutdown.

Theorem C12_shutdown_cancels : forall P c c', reachable P c -> step P c TShutdown = Some c' ->
  shpc c = ShInit -> forall x, holds_slot (ipc c x) = true -> icanc c' x = true.
Proof. exact shutdown_cancels_lemma. Qed.
Print Assumptions C12_shutdown_cancels.

(* gate, same-caller half: [before P i j] = i was issued before j by the same caller.
   A call is entered only after all earlier calls of its caller have returned from
   Send/Recv/PipelineRecv; so when j's implementation has been started every earlier direct call
   i of the same caller was rejected or has acknowledged / returned; and i's implementation can
   only start while j has not even been entered (calls are seen in the order they were made). *)
Theorem C12_program_order : forall P c i j, reachable P c -> before P i j -> entered P c j ->
  call_returned P c i = true.
Proof. exact program_order_lemma. Qed.
Print Assumptions C12_program_order.

Theorem C12_gate_same_caller : forall P c i j, reachable P c -> before P i j ->
  p_kind P i = Direct -> p_kind P j = Direct -> ipc c j <> INone ->
  spc c i = SDone /\ ipc c i <> IRun.
Proof. exact gate_same_caller_lemma. Qed.
Print Assumptions C12_gate_same_caller.

Theorem C12_seen_in_order : forall P c t c' i j, reachable P c -> before P i j -> p_kind P i = Direct ->
  step P c t = Some c' -> ipc c i = INone -> ipc c' i <> INone -> ~ entered P c j.
Proof. exact seen_in_order_lemma. Qed.
Print Assumptions C12_seen_in_order.

(* each_call_once (safety): in every reachable configuration every call - direct or pipelined -
   has had its Returner.Return called at most once, and exactly once iff it is at or past the stage
   [finished] (rejected by start / goroutine past Return / pipelined call in PDone). That every
   call reaches that stage is liveness: see no_stuck below. *)
Theorem C12_each_call_once : forall P c x, reachable P c ->
  length (compl c x) <= 1 /\ (finished P c x = true <-> length (compl c x) = 1).
Proof. exact each_call_once_lemma. Qed.
Print Assumptions C12_each_call_once.

Theorem C12_direct_done_once : forall P c x, reachable P c -> p_kind P x = Direct ->
  spc c x = SDone -> (ipc c x = INone \/ ipc c x = IDone) -> length (compl c x) = 1.
Proof. exact direct_done_once_lemma. Qed.
Print Assumptions C12_direct_done_once.

(* queue_order: [enqs a tr] = the calls queued on answer a in the order they were queued,
   [procs a tr] = the queue entries processed by a's fulfill/reject in processing order (both
   projections of the event trace). The processed calls are always a prefix of the queued ones,
   and all of them once the drain loop has ended; processing an entry delivers it (or fails it with
   the answer's error / the error of the queued call it was pipelined on); a call that arrives while
   the queue is draining is passed through only after the whole queue has been processed. *)
Theorem C12_queue_order_prefix : forall P c a, reachable P c ->
  procs a (trace c) = firstn (qidx (aq_ph c a) (length (aq_q c a))) (enqs a (trace c)).
Proof. exact queue_order_prefix_lemma. Qed.
Print Assumptions C12_queue_order_prefix.

Theorem C12_queue_order_complete : forall P c a, reachable P c -> aq_ph c a = ADrained ->
  procs a (trace c) = enqs a (trace c).
Proof. exact queue_order_complete_lemma. Qed.
Print Assumptions C12_queue_order_complete.

Theorem C12_queue_process_step : forall P c a c' k p, reachable P c -> step P c (TImpl a) = Some c' ->
  ipc c a = IDrain -> aq_ph c a = ADraining k -> nth_error (aq_q c a) k = Some p ->
  ppc c p = PQueued /\ compl c p = [] /\
  procs a (trace c') = procs a (trace c) ++ [p] /\
  if ierr c a then ppc c' p = PDone /\ compl c' p = [CErr a]
  else (ppc c' p = PDelivered /\ exists d, hd_error (trace c') = Some (EvDeliver p d))
       \/ (ppc c' p = PEmbRet /\ exists o, tret c' p = TErr o).
Proof. exact process_step_lemma. Qed.
Print Assumptions C12_queue_process_step.

Theorem C12_passthrough_after_queue : forall P c p c', reachable P c -> step P c (TPipe p) = Some c' ->
  ppc c p = PWaitReady ->
  if ierr c (proot c p) then ppc c' p = PDone /\ hd_error (compl c' p) = Some (CErr (proot c p))
  else aq_ph c (proot c p) = ADrained /\ procs (proot c p) (trace c) = enqs (proot c p) (trace c).
Proof. exact passthrough_after_queue_lemma. Qed.
Print Assumptions C12_passthrough_after_queue.

(* queue_order also covers calls that arrive DURING the drain - including while the drain loop is
   blocked inside a target that has not acknowledged the delivery of an earlier entry
   (ADrainWait): such a call is neither queued nor delivered, it waits (PWaitReady) and by
   C12_passthrough_after_queue it is passed through only after every queued call was processed *)
Theorem C12_arrival_during_drain : forall P c p c' on a b, step P c (TPipe p) = Some c' ->
  p_kind P p = Pipe on -> ppc c p = PInit -> pipe_target P c on = Some (a, b) -> aq_ph c a <> AQueueing ->
  ppc c' p = PWaitReady /\ proot c' p = a /\ trace c' = EvIssue p :: trace c.
Proof. exact arrival_during_drain_lemma. Qed.
Print Assumptions C12_arrival_during_drain.

Example C12_mid_drain_blocked :
  let c := run ex_params_mid (init ex_params_mid) ex_sched_mid in
  aq_ph c 0 = ADrainWait 1 /\ ppc c 1 = PDelivered /\ ppc c 2 = PQueued /\ ppc c 3 = PWaitReady /\
  step ex_params_mid c (TPipe 3) = None /\ step ex_params_mid c (TImpl 0) = None.
Proof. exact mid_drain_blocked. Qed.
Print Assumptions C12_mid_drain_blocked.

(* delivery TARGET (repaired code, p_fixed = true): every delivery ever recorded, in every history
   and schedule, went to the answer the call was pipelined on - to a capability in the RESULT of
   [on] (DRes on; the transform is applied there, it is opaque in the model), or, only when [on] is
   itself a pipelined call that has been delivered and is still running, to [on]'s pipeline caller
   (DFwd on) - never to another answer. (A call that is not delivered completes with ctx.Err, the
   answer's error or the error of the queued call it was pipelined on: C12_queue_process_step,
   C12_passthrough_after_queue.) The premise p_fixed = true is necessary:
   C12_delivery_target_refuted is the same statement failing for the code before the fix. All other
   theorems of this file hold for both variants - they do not speak about the target. *)
Theorem C12_delivery_target : forall P c p d on, p_fixed P = true -> reachable P c ->
  In (EvDeliver p d) (trace c) -> p_kind P p = Pipe on ->
  d = DRes on \/ (d = DFwd on /\ p_kind P on <> Direct).
Proof. exact delivery_target_lemma. Qed.
Print Assumptions C12_delivery_target.

Theorem C12_delivered_is_pipelined : forall P c p d, p_fixed P = true -> reachable P c ->
  In (EvDeliver p d) (trace c) -> exists on, p_kind P p = Pipe on.
Proof. exact delivered_is_pipelined_lemma. Qed.
Print Assumptions C12_delivered_is_pipelined.

(* the basis (index in aq.bases) recorded for a pipelined call: 0 and the answer itself for a call
   on a direct call's answer; 1 + the queue position of [on], in [on]'s queue, otherwise *)
Theorem C12_basis_recorded : forall P c p on, p_fixed P = true -> reachable P c ->
  p_kind P p = Pipe on -> ppc c p <> PInit -> basis_ok P c p on.
Proof. exact basis_recorded_lemma. Qed.
Print Assumptions C12_basis_recorded.

Theorem C12_delivery_target_refuted :
  exists c p d on, reachable (ex_params false) c /\ In (EvDeliver p d) (trace c) /\
                   p_kind (ex_params false) p = Pipe on /\ d <> DRes on /\ d <> DFwd on.
Proof. exact delivery_target_refuted. Qed.
Print Assumptions C12_delivery_target_refuted.

(* liveness of the drain (queue-full blocking): a caller blocked on a full queue is released when
   the drain STARTS (close(aq.draining) precedes the delivery / rejection of queued calls); in reject
   every blocked caller can move from the moment the goroutine is inside reject; after fulfill /
   reject has ended no caller stays blocked. (The wait of Promise.Reject/Fulfill for in-flight
   pipelined calls - capnp.Promise.ongoingCalls - is not part of this model; it is exercised by the
   correspondence run with PipelineSend-mode calls, see docs.) *)
Theorem C12_blocked_caller_enabled : forall P c p, reachable P c ->
  (ppc c p = PWaitDrain -> aq_ph c (proot c p) <> AQueueing -> step P c (TPipe p) <> None) /\
  (ppc c p = PWaitReady -> ready_closed c (proot c p) = true -> step P c (TPipe p) <> None).
Proof. exact blocked_caller_enabled_lemma. Qed.
Print Assumptions C12_blocked_caller_enabled.

Theorem C12_reject_releases_callers : forall P c a p, reachable P c ->
  ierr c a = true -> iclass (ipc c a) <> 0 -> proot c p = a -> waiting_caller (ppc c p) ->
  step P c (TPipe p) <> None.
Proof. exact reject_releases_callers_lemma. Qed.
Print Assumptions C12_reject_releases_callers.

Theorem C12_drained_releases_callers : forall P c a p, reachable P c ->
  aq_ph c a = ADrained -> proot c p = a -> waiting_caller (ppc c p) -> step P c (TPipe p) <> None.
Proof. exact drained_releases_callers_lemma. Qed.
Print Assumptions C12_drained_releases_callers.

Example C12_full_queue_reject_releases :
  let c := run ex_params_full (init ex_params_full) ex_sched_full in
  ppc c 1 = PQueued /\ ppc c 2 = PWaitDrain /\ ppc c 3 = PWaitDrain /\ aq_ph c 0 = ADraining 0 /\
  step ex_params_full c (TPipe 2) <> None /\ step ex_params_full c (TPipe 3) <> None.
Proof. exact full_queue_reject_releases. Qed.
Print Assumptions C12_full_queue_reject_releases.

(* no_stuck (deadlock freedom), for every policy with MaxConcurrentCalls >= 1 (New guarantees it):
   in every reachable configuration in which some thread has begun and not finished (a start
   goroutine, an implementation goroutine, a pipelined call, Shutdown) either a step of the
   library's own code is enabled, or the application holds the ball: a method implementation is
   executing (possibly un-acked), a delivered pipelined call has not been returned by the
   capability it was delivered to, or the drain loop is blocked in a target that has not acknowledged
   delivery - and then that application step is enabled.
   Pipelined calls are delivered to capabilities outside the server (see docs: a result that
   contains the server's own capability is outside the model). *)
Theorem C12_no_stuck : forall P c, 1 <= p_max P -> reachable P c -> live c ->
  lib_enabled P c \/ app_pending c.
Proof. exact no_stuck_lemma. Qed.
Print Assumptions C12_no_stuck.

Theorem C12_app_can_move : forall P c, app_pending c ->
  exists t, (exists x e, t = TRet x e \/ t = TTargetRet x e \/ t = TDrainAck x) /\ step P c t <> None.
Proof. exact app_can_move_lemma. Qed.
Print Assumptions C12_app_can_move.

(* no Go panic: srv.ongoing[-1] after the full wake-up, close of the closed drain channel, a second
   Shutdown (excluded: Shutdown is one thread), a nil bases[b].recv are unreachable - for both code
   variants *)
Theorem C12_no_panic : forall P c, reachable P c -> panicked c = false.
Proof. exact reachable_nopanic. Qed.
Print Assumptions C12_no_panic.

(* termination measures: in every reachable configuration each thread's own steps strictly decrease
   its measure *)
Theorem C12_impl_measure : forall P c x c', reachable P c -> step P c (TImpl x) = Some c' ->
  impl_measure c' x < impl_measure c x.
Proof. exact impl_measure_reach. Qed.
Print Assumptions C12_impl_measure.

Theorem C12_pipe_measure : forall P c p c', reachable P c ->
  (step P c (TPipe p) = Some c' \/ step P c (TPipeCtx p) = Some c') ->
  pipe_measure c' p < pipe_measure c p.
Proof. exact pipe_measure_reach. Qed.
Print Assumptions C12_pipe_measure.

Theorem C12_shutdown_measure : forall P c c', reachable P c -> step P c TShutdown = Some c' ->
  shut_measure c' < shut_measure c.
Proof. exact shut_measure_reach. Qed.
Print Assumptions C12_shutdown_measure.

(* partial: Server.start has a wait loop on the gate. Every own step decreases the measure except a
   re-wait: the goroutine was woken by the release of the gate it waited for and finds the gate
   taken by another call. Missing for a full termination measure: a bound on the number of
   re-waits (each call takes the gate at most once, so it is bounded by the number of competing
   calls; under an unfair scheduler with unboundedly many competing callers a waiter can starve -
   this is the behaviour of the Go code, which wakes all waiters and lets them race for srv.mu). *)
Theorem C12_start_measure_partial : forall P c x c', reachable P c ->
  (step P c (TStart x) = Some c' \/ step P c (TStartCtx x) = Some c') ->
  start_measure c' x < start_measure c x
  \/ (exists h h', spc c x = SWaitGate h /\ spc c' x = SWaitGate h' /\
                   gate_rel c h = true /\ starting c = Some h').
Proof. exact start_measure_reach. Qed.
Print Assumptions C12_start_measure_partial.

(* non-vacuity: the cap is reached, Shutdown waits for a running call; and the pre-fix variant of
   queueCaller.PipelineRecv (p_fixed = false) delivers to the wrong answer *)
Example C12_cap_reached :
  let c := run ex_params2 (init ex_params2) ex_sched2 in
  (in_impl (ipc c 0) && in_impl (ipc c 1) = true) /\ spc c 2 = SWaitFull /\ count_slots (ongoing c) = 2.
Proof. exact cap_reached. Qed.
Print Assumptions C12_cap_reached.

Example C12_basis_refuted :
  hd_error (trace (run (ex_params false) (init (ex_params false)) ex_sched)) = Some (EvDeliver 2 (DRes 0)).
Proof. exact basis_refuted. Qed.
Print Assumptions C12_basis_refuted.

Example C12_basis_fixed :
  hd_error (trace (run (ex_params true) (init (ex_params true)) ex_sched)) = Some (EvDeliver 2 (DFwd 1)).
Proof. exact basis_fixed. Qed.
Print Assumptions C12_basis_fixed.

(* known finding (self-pipelining deadlock) on the model: the nested start of the delivery is
   blocked on full while the goroutine that would free the slot is the one executing it *)
Example C12_self_pipe_blocked :
  let c := run ex_params_self (init ex_params_self) ex_sched_self in
  ipc c 0 = IDrain /\ ongoing c = [Some 0] /\ spc c 2 = SWaitFull /\ full c = Some 2 /\
  step ex_params_self c (TStart 2) = None /\ step ex_params_self c (TStartCtx 2) = None.
Proof. exact self_pipe_blocked. Qed.
Print Assumptions C12_self_pipe_blocked.

(* ReleaseArgs (also the parameter-capability part of C07: the capabilities in a Call's cap table are
   dropped by ReleaseArgs only).  rel c x = number of times r.ReleaseArgs() ran for call x.
   For the code as it is (p_relfix P = true), every reachable configuration, every call x - direct or
   pipelined, whatever path it takes through start (call after shutdown, cancelled at the gate,
   cancelled while waiting for a slot, woken into a shutdown), the method goroutine, the answerQueue
   (queued then delivered / rejected, pass-through, cancelled while blocked): released at most once;
   exactly once iff x is at/past the releasing stage args_done; and released whenever x has
   completed (Returner.Return called) - i.e. no later than its completion. *)
Theorem C12_args_released_once : forall P c x, p_relfix P = true -> reachable P c ->
  rel c x <= 1 /\
  (rel c x = 1 <-> args_done P c x = true) /\
  (compl c x <> [] -> rel c x = 1) /\
  (finished P c x = true -> rel c x = 1).
Proof. exact args_released_once_lemma. Qed.
Print Assumptions C12_args_released_once.

(* the counter is a function of the call's stage *)
Theorem C12_args_rel_is_stage : forall P c x, p_relfix P = true -> reachable P c ->
  rel c x = b2n (args_done P c x).
Proof. exact rel_is_stage. Qed.
Print Assumptions C12_args_rel_is_stage.

(* method goroutine: released strictly before Returner.Return *)
Theorem C12_args_released_before_return : forall P c x, p_relfix P = true -> reachable P c ->
  p_kind P x = Direct -> (ipc c x = IDrain \/ ipc c x = IReturn) -> rel c x = 1 /\ compl c x = [].
Proof. exact args_released_before_return_lemma. Qed.
Print Assumptions C12_args_released_before_return.

(* non-vacuity: cancelled while waiting for a slot (MaxConcurrentCalls = 1, slot held by an acked running call) *)
Example C12_args_released_example :
  let c := run (ex_params_rel true) (init (ex_params_rel true)) ex_sched_rel in
  compl c 1 = [CCtx] /\ rel c 1 = 1 /\ spc c 1 = SDone /\ rel c 0 = 0.
Proof. exact args_released_example. Qed.
Print Assumptions C12_args_released_example.

(* the variant that does r.Returner.Return(ctx.Err()) instead of r.Reject(ctx.Err()) on that branch
   (seeded change C07-r5-2): the call completes and its arguments are never released *)
Example C12_args_released_once_refuted :
  exists P c x, p_relfix P = false /\ reachable P c /\ compl c x <> [] /\ finished P c x = true /\ rel c x = 0 /\
                spc c x = SDone /\ ipc c x = INone.
Proof. exact args_released_once_refuted_lemma. Qed.
Print Assumptions C12_args_released_once_refuted.
