(* C04 - what is written through the builder API is what is read back, everywhere.
   Statements only; each is closed by [exact] of a lemma proved in coq/Core. *)
From CV Require Import Core.Builder Core.ReaderFacts Core.ArithFacts Core.BuilderFacts Core.AllocProofs
  Core.WritePtrProofs Core.BuildOps Core.BuildValid Core.BuildExamples.
Open Scope Z_scope.

(* [T1] nextAlloc: a multiple of the word size, at least the padded request *)
Theorem C04_nextAlloc_facts : forall curr max req r,
  0 <= curr < 9223372036854775808 -> 0 <= req ->
  nextAlloc curr max req = Ok r ->
  r mod 8 = 0 /\ 0 <= r /\ (req = 0 -> r = 0) /\ (0 < req -> padToWord req <= r).
Proof. exact nextAlloc_facts. Qed.
Print Assumptions C04_nextAlloc_facts.

(* [T1] alloc_fresh, for every arena kind and all capacities: the region starts at the old
   length of its segment, is word aligned, zero filled, inside len <= cap; no existing byte of
   any segment changes (single-segment regrowth and new multi-segment segments included);
   lengths, capacities and the number of segments only grow *)
Theorem C04_alloc_fresh : forall m sid sz m' sid' addr,
  bmsg_wf m -> arena_wf m -> 0 <= sid < zlen (bm_segs m) -> 0 <= sz ->
  alloc m sid sz = Ok (m', sid', addr) ->
  let n := padToWord sz in
  0 <= sid' < zlen (bm_segs m') /\
  addr = blen (get_seg m sid') /\ addr mod 8 = 0 /\ n mod 8 = 0 /\ sz <= n /\
  bs_data (get_seg m' sid') = bs_data (get_seg m sid') ++ repeat 0 (Z.to_nat n) /\
  addr + n = blen (get_seg m' sid') /\
  blen (get_seg m' sid') <= bs_cap (get_seg m' sid') /\
  blen (get_seg m' sid') <= maxSegmentSize /\
  (forall i, 0 <= i -> i <> sid' -> bs_data (get_seg m' i) = bs_data (get_seg m i)) /\
  (forall i, 0 <= i -> bs_cap (get_seg m i) <= bs_cap (get_seg m' i)) /\
  zlen (bm_segs m) <= zlen (bm_segs m') <= zlen (bm_segs m) + 1 /\
  bmsg_wf m' /\ arena_wf m' /\
  bm_arena m' = bm_arena m /\ bm_caps m' = bm_caps m /\ bm_rl m' = bm_rl m.
Proof. exact alloc_fresh. Qed.
Print Assumptions C04_alloc_fresh.

(* [T1] setter_frame: every data setter (SetUint8/16/32/64, SetBit, UIntNList.Set,
   BitList.Set) is one write of exactly its field's bytes ... *)
Theorem C04_setter_frame : forall m s m',
  setter_width_ok s -> 0 <= p_seg (setter_ptr s) ->
  zlen (mem m (p_seg (setter_ptr s))) < 4294967296 -> bytes_ok (mem m (p_seg (setter_ptr s))) ->
  run_setter m s = Ok m' ->
  exists addr bs, zlen bs = setter_width s /\ wrote m m' (p_seg (setter_ptr s)) addr bs.
Proof. exact setter_frame. Qed.
Print Assumptions C04_setter_frame.

(* ... so that every read that does not overlap those bytes - in another segment or at a
   disjoint range of the same one - returns what it returned before *)
Theorem C04_frame_reads : forall m m' sid addr bs sid' base n,
  wrote m m' sid addr bs -> 0 <= sid' -> 0 <= n < 4294967296 ->
  sid' <> sid \/ base + n <= addr \/ addr + zlen bs <= base ->
  slice (mem m' sid') base n = slice (mem m sid') base n.
Proof. exact wrote_slice_other. Qed.
Print Assumptions C04_frame_reads.

Theorem C04_frame_struct_uint : forall m m' sid addr bs q off n,
  wrote m m' sid addr bs -> 0 <= p_seg q -> 0 <= n < 4294967296 ->
  (forall a, dataAddress q off n = Ok (Some a) -> p_seg q <> sid \/ a + n <= addr \/ addr + zlen bs <= a) ->
  struct_uint (bm_data m') q off n = struct_uint (bm_data m) q off n.
Proof. exact struct_uint_other. Qed.
Print Assumptions C04_frame_struct_uint.

(* reading a field back returns the value written (truncated to the field width) *)
Theorem C04_set_uint_read_back : forall m p off n v m',
  width_ok n -> 0 <= p_seg p -> zlen (mem m (p_seg p)) < 4294967296 ->
  struct_set_uint m p off n v = Ok m' ->
  exists addr, dataAddress p off n = Ok (Some addr) /\
    wrote m m' (p_seg p) addr (le_encode (Z.to_nat n) v) /\
    struct_uint (bm_data m') p off n = Ok (v mod 256 ^ n).
Proof. exact struct_set_uint_frame. Qed.
Print Assumptions C04_set_uint_read_back.

Theorem C04_set_bit_read_back : forall m p n v m',
  0 <= p_seg p -> zlen (mem m (p_seg p)) < 4294967296 -> bytes_ok (mem m (p_seg p)) ->
  struct_set_bit m p n v = Ok m' ->
  exists addr b, addOffset (p_off p) (bitOffset_offset n) = Some addr /\
    readUintN (mem m (p_seg p)) addr 1 = Ok b /\ 0 <= b < 256 /\
    wrote m m' (p_seg p) addr [set_bit_in b (n mod 8) v] /\
    (forall j, 0 <= j < 8 -> Z.testbit (set_bit_in b (n mod 8) v) j = if j =? n mod 8 then v else Z.testbit b j) /\
    struct_bit (bm_data m') p n = Ok v.
Proof. exact struct_set_bit_frame. Qed.
Print Assumptions C04_set_bit_read_back.

Theorem C04_list_set_uint_read_back : forall m p i n v m',
  width_ok n -> 0 <= p_seg p -> zlen (mem m (p_seg p)) < 4294967296 ->
  list_set_uint m p i n v = Ok m' ->
  exists addr, primitiveElem true p i (mkOS n 0) = Ok addr /\
    wrote m m' (p_seg p) addr (le_encode (Z.to_nat n) v) /\
    list_uint_at true (bm_data m') p i n = Ok (v mod 256 ^ n).
Proof. exact list_set_uint_frame. Qed.
Print Assumptions C04_list_set_uint_read_back.

Theorem C04_bitlist_set_read_back : forall m p i v m',
  0 <= p_seg p -> zlen (mem m (p_seg p)) < 4294967296 -> bytes_ok (mem m (p_seg p)) ->
  bitlist_set m p i v = Ok m' ->
  let addr := u32 (p_off p + bitOffset_offset i) in
  exists b, readUintN (mem m (p_seg p)) addr 1 = Ok b /\ 0 <= b < 256 /\
    wrote m m' (p_seg p) addr [set_bit_in b (i mod 8) v] /\
    (forall j, 0 <= j < 8 -> Z.testbit (set_bit_in b (i mod 8) v) j = if j =? i mod 8 then v else Z.testbit b j) /\
    bitlist_at true (bm_data m') p i = Ok v.
Proof. exact bitlist_set_frame. Qed.
Print Assumptions C04_bitlist_set_read_back.

(* [T1] write_read_ptr: the placement switch of writePtr (near / far + landing pad /
   double-far + two-word pad, chosen by the capacity test of the code).  The reader resolves
   the stored pointer word to exactly (tsid, taddr) with raw's type and size fields; apart from
   the pointer word only pad words appended to segments are new *)
Theorem C04_write_read_ptr : forall w dsid off tsid taddr raw w',
  place_pre (w_dst w) dsid off tsid taddr raw ->
  place w dsid off tsid taddr raw = Ok w' ->
  resolves_to (bm_data (w_dst w')) dsid off tsid taddr raw /\
  w_src w' = w_src w /\ w_src_rl w' = w_src_rl w /\
  bm_caps (w_dst w') = bm_caps (w_dst w) /\ bm_rl (w_dst w') = bm_rl (w_dst w) /\
  (exists pw, forall i, 0 <= i -> exists t,
     mem (w_dst w') i = (if i =? dsid then write_bytes (mem (w_dst w) i) off (le_encode 8 pw)
                         else mem (w_dst w) i) ++ t).
Proof. exact place_resolves. Qed.
Print Assumptions C04_write_read_ptr.

(* ... hence Segment.readPtr returns the struct / list that was written *)
Theorem C04_write_read_ptr_struct : forall w dsid off tsid taddr sz raw w' strict depth,
  place_pre (w_dst w) dsid off tsid taddr raw ->
  rawStructPointer 0 sz = Some raw -> os_wf sz -> os_isZero sz = false ->
  taddr + totalSize sz <= zlen (mem (w_dst w) tsid) ->
  place w dsid off tsid taddr raw = Ok w' ->
  depth <> 0 -> totalSize sz <= bm_rl (w_dst w') ->
  readPtr strict (bm_data (w_dst w')) (bm_rl (w_dst w')) dsid (mem (w_dst w') dsid) off depth =
  (Ok (mkPtr true tsid taddr 0 sz (uint_dec depth) KStruct false false false), bm_rl (w_dst w') - totalSize sz).
Proof. exact write_read_ptr_struct. Qed.
Print Assumptions C04_write_read_ptr_struct.

Theorem C04_read_resolved_list : forall strict ms rl sid off tsid taddr raw depth lsize es,
  resolves_to ms sid off tsid taddr raw ->
  pointerType raw = listPointer -> listType raw <> 7 ->
  totalListSize raw = Some (Some lsize) -> elementSize raw = Some es ->
  regionInBounds (nth (Z.to_nat tsid) ms []) taddr lsize = true ->
  depth <> 0 ->
  let lp := if listType raw =? 1
            then mkPtr true tsid taddr (numListElements raw) (mkOS 0 0) 0 KList false true false
            else mkPtr true tsid taddr (numListElements raw) es 0 KList false false false in
  list_readSize lp <= rl ->
  readPtr strict ms rl sid (nth (Z.to_nat sid) ms []) off depth =
  (Ok (mkPtr true tsid taddr (numListElements raw) (p_size lp) (uint_dec depth) KList false (p_bit lp) false),
   rl - list_readSize lp).
Proof. exact resolved_read_list. Qed.
Print Assumptions C04_read_resolved_list.

(* non-vacuity: programs producing a far and a double-far pointer, read back and valid *)
Theorem C04_example_far :
  let segs := last_dump ex_far in
  pointerType (le_decode (firstn 8 (skipn 8 (nth 0 segs [])))) = farPointer /\
  read_values ex_far = [BV (VPtr (Ok (B_ptr 62))); BV (VNum (Ok 258))] /\
  valid_message segs = VOk.
Proof. exact ex_far_pointer. Qed.
Print Assumptions C04_example_far.
Theorem C04_example_double_far :
  let segs := last_dump ex_dfar in
  pointerType (le_decode (firstn 8 (skipn 8 (nth 0 segs [])))) = doubleFarPointer /\
  read_values ex_dfar = [BV (VPtr (Ok (B_ptr 62))); BV (VNum (Ok 258))] /\
  valid_message segs = VOk.
Proof. exact ex_double_far_pointer. Qed.
Print Assumptions C04_example_double_far.
Theorem C04_example_place_pre : place_pre ex_before 0 8 1 0 4294967296.
Proof. exact ex_place_pre. Qed.
Print Assumptions C04_example_place_pre.

(* ------------------------------------------------------------------ read back over the object table *)
(* For the states the pointer-level invariant [hinv] describes (reachable states of the C05
   sub-language, coq/Core/HeapOps.v), the message is an abstract store: table object -> bytes
   of its region, pointer slot -> resolved target. *)
From CV Require Import Core.HeapProofs Core.HeapInv.

(* [T16] a data setter (a write inside one table object, beside its pointer slots): the written
   bytes are read back; every byte outside the written range, in every segment, is unchanged -
   so is the data of every other object -; every pointer slot and the root resolve as before *)
Theorem C04_read_back_data : forall m objs pads m' h addr bs,
  hinv m objs pads -> In h objs -> 0 <= p_seg h ->
  wrote m m' (p_seg h) addr bs ->
  p_off h <= addr -> addr + zlen bs <= obj_start h + r_size (obj_reg h) ->
  (forall q, In q (slots h) -> addr + zlen bs <= snd q \/ snd q + 8 <= addr) ->
  slice (mem m' (p_seg h)) addr (zlen bs) = Ok bs /\
  keeps m m' (fun i k => i = p_seg h /\ addr <= k < addr + zlen bs) /\
  (forall q, In q ((0, 0) :: flat_map slots objs) ->
     resolve_ptr (bm_data m') (fst q) (snd q) = resolve_ptr (bm_data m) (fst q) (snd q)).
Proof. exact data_write_read_back. Qed.
Print Assumptions C04_read_back_data.

(* [T17] a pointer setter without copy (any slot of any table object or the root, any table
   object as target, all three placements): the slot resolves to exactly the target object,
   through the pads just allocated; every byte of the old segments except the slot word is
   unchanged (all object data); every other pointer slot resolves as before *)
Theorem C04_read_back_ptr : forall m objs pads w q ht raw w',
  w_dst w = m -> hinv m objs pads ->
  In q ((0, 0) :: flat_map slots objs) -> In ht objs ->
  (p_kind ht = KStruct -> os_isZero (p_size ht) = false) ->
  raw_of ht = Ok raw ->
  place w (fst q) (snd q) (p_seg ht) (obj_start ht) raw = Ok w' ->
  nsegs (w_dst w') < 4294967296 ->
  exists pads', hinv (w_dst w') objs (pads ++ pads') /\
    resolve_ptr (bm_data (w_dst w')) (fst q) (snd q) = (tgt_of ht, pads' ++ [obj_reg ht]) /\
    keeps m (w_dst w') (Rword (fst q) (snd q)) /\
    (forall q', In q' ((0, 0) :: flat_map slots objs) -> ~ (fst q' = fst q /\ snd q' = snd q) ->
       resolve_ptr (bm_data (w_dst w')) (fst q') (snd q') = resolve_ptr (bm_data m) (fst q') (snd q')) /\
    placed (bm_data (w_dst w')) (fst q) (snd q) (p_seg ht) (obj_start ht) raw (fun i => zlen (mem m i)) pads'.
Proof. exact hinv_place_full. Qed.
Print Assumptions C04_read_back_ptr.

From CV Require Import Core.Reader Core.ReadBridge.

(* [T18] ... and the reader model hands back the object: after the pointer setter,
   Segment.readPtr at the slot returns the handle of exactly the table object that was set (a
   struct, a list of any kind incl. composite lists through their tag word), with the depth
   limit one less - for every read limit / depth limit for which it returns a handle at all *)
Theorem C04_read_back_handle : forall m objs pads w q ht raw w' strict rl depth p rl',
  w_dst w = m -> hinv m objs pads ->
  In q ((0, 0) :: flat_map slots objs) -> In ht objs ->
  (p_kind ht = KStruct -> os_isZero (p_size ht) = false) ->
  raw_of ht = Ok raw ->
  place w (fst q) (snd q) (p_seg ht) (obj_start ht) raw = Ok w' ->
  nsegs (w_dst w') < 4294967296 ->
  readPtr strict (bm_data (w_dst w')) rl (fst q) (nth (Z.to_nat (fst q)) (bm_data (w_dst w')) []) (snd q) depth = (Ok p, rl') ->
  p = handle_of ht depth.
Proof. exact read_after_place. Qed.
Print Assumptions C04_read_back_handle.

(* [T19] in every state the invariant describes (any later time): Segment.readPtr at any pointer
   slot of any table object or at the root returns the null handle, the inline empty struct, a
   handle of a table object, or a capability handle - never anything else *)
Theorem C04_read_slot : forall strict m objs pads q rl depth p rl',
  hinv m objs pads -> In q ((0, 0) :: flat_map slots objs) ->
  readPtr strict (bm_data m) rl (fst q) (nth (Z.to_nat (fst q)) (bm_data m) []) (snd q) depth = (Ok p, rl') ->
  p = nullPtr \/ p = empty_handle q depth \/ (exists h, In h objs /\ p = handle_of h depth) \/
  (exists idx, 0 <= idx < 4294967296 /\ p = mkPtr true (fst q) 0 idx (mkOS 0 0) 0 KIface false false false).
Proof. exact read_slot. Qed.
Print Assumptions C04_read_slot.

(* ------------------------------------------------------------------ history level *)
From CV Require Import Core.HeapHistory.

(* [T20] the frame part of the invariant: a step whose write set lies inside one table entry (the
   root word or one object - every setter's does) leaves every other object, the root word and
   every landing pad byte for byte unchanged *)
Theorem C04_other_regions_unchanged : forall m objs pads m' R j,
  hinv m objs pads -> keeps m m' R -> (j < length (regsO objs))%nat -> inside (nth j (regsO objs) root_reg) R ->
  (forall j', j' <> j -> (j' < length (regsO objs))%nat ->
     reg_bytes m' (nth j' (regsO objs) root_reg) = reg_bytes m (nth j' (regsO objs) root_reg)) /\
  (forall p, In p pads -> reg_bytes m' p = reg_bytes m p).
Proof. exact hinv_other_regions. Qed.
Print Assumptions C04_other_regions_unchanged.

(* [T21] over any run (a chain of steps with frames; every op has one: data setters T3 = exactly
   the field, writePtr = the pointer word, copyStruct = the destination's sections, allocation =
   nothing): a byte no step touches keeps its value *)
Theorem C04_untouched_byte : forall m Rs m' i k,
  chain m Rs m' -> 0 <= i -> 0 <= k < zlen (mem m i) -> Forall (fun R : Z -> Z -> Prop => ~ R i k) Rs ->
  nth (Z.to_nat k) (mem m' i) 0 = nth (Z.to_nat k) (mem m i) 0.
Proof. exact chain_untouched. Qed.
Print Assumptions C04_untouched_byte.

(* [T22] a data field read back returns the value of the LAST setter on it: what a setter wrote
   is what is read after any number of later steps none of which touches the field (setters on
   other fields or objects, pointer setters, copies, allocations) *)
Theorem C04_last_write_wins : forall m0 m1 Rs m' sid addr bs,
  wrote m0 m1 sid addr bs -> 0 <= sid -> zlen (mem m0 sid) < 4294967296 -> zlen (mem m' sid) < 4294967296 ->
  chain m1 Rs m' ->
  Forall (fun R : Z -> Z -> Prop => forall k, addr <= k < addr + zlen bs -> ~ R sid k) Rs ->
  slice (mem m' sid) addr (zlen bs) = Ok bs.
Proof. exact last_write_wins. Qed.
Print Assumptions C04_last_write_wins.

(* [T23] a pointer slot read back returns the object of the LAST pointer setter on it: the words
   stored for [ht] at slot [q], any number of later steps none of which touches the slot word
   or its landing pads, then Segment.readPtr at [q] returns the handle of [ht] *)
Theorem C04_last_pointer_wins : forall m1 Rs m' objs' pads' q ht raw oldlen ps strict rl depth p rl',
  placed (bm_data m1) (fst q) (snd q) (p_seg ht) (obj_start ht) raw oldlen ps ->
  chain m1 Rs m' ->
  Forall (fun R : Z -> Z -> Prop => (forall k, snd q <= k < snd q + 8 -> ~ R (fst q) k) /\
            (forall r, In r ps -> forall k, r_start r <= k < r_start r + r_size r -> ~ R (r_seg r) k)) Rs ->
  hinv m' objs' pads' -> In ht objs' -> incl ps pads' -> snd q mod 8 = 0 ->
  raw_of ht = Ok raw -> (p_kind ht = KStruct -> os_isZero (p_size ht) = false) ->
  readPtr strict (bm_data m') rl (fst q) (nth (Z.to_nat (fst q)) (bm_data m') []) (snd q) depth = (Ok p, rl') ->
  p = handle_of ht depth.
Proof. exact last_pointer_wins. Qed.
Print Assumptions C04_last_pointer_wins.

(* ------------------------------------------------------------------ history level, for every program *)
From CV Require Import Core.BuildOps Core.BuildInv Core.HeapOps Core.HeapSteps Core.HeapFrames.

(* [T24] every op of the interpreter has the frame [touch state op] (a function of the state
   before the step): data setters exactly their field, Struct.SetPtr / PointerList.Set / SetRoot
   the pointer word (whatever they copy goes to fresh storage), List.SetStruct / CopyFrom the
   destination struct's own sections, every other op nothing *)
Theorem C04_step_frame : forall e st objs pads o st' out,
  sinv st objs pads -> spool st -> sub_op o = true -> dst_only st o -> bstep e st o = (Some st', out) ->
  keeps (w_dst (st_w st)) (w_dst (st_w st')) (touch st o) /\ nsegs (w_dst (st_w st)) <= nsegs (w_dst (st_w st')).
Proof. exact bstep_frame. Qed.
Print Assumptions C04_step_frame.

(* [T25] hence every run of every program is a chain of these frames *)
Theorem C04_run_chain : forall e, cfg_strict (e_cfgs e) = true -> forall ops st objs pads,
  sinv st objs pads -> spool st -> sub_prog ops = true -> dst_run e st ops -> Forall seg_bound (bstates e st ops) ->
  chain (w_dst (st_w st)) (touches e st ops) (w_dst (st_w (final e st ops))).
Proof. exact brun_chain. Qed.
Print Assumptions C04_run_chain.

(* [T26] history level, for every program of the interpreter: what a data setter wrote into a
   field is what is read back at the end of any program that follows, provided no later op
   touches the field (per op: its [touch] set) - setters on other fields or objects, pointer
   setters with all their copies, constructors, capabilities, reads, reopen do not change it *)
Theorem C04_run_last_write_wins : forall e m0 st1 objs pads ops sid addr bs,
  cfg_strict (e_cfgs e) = true ->
  wrote m0 (w_dst (st_w st1)) sid addr bs -> 0 <= sid -> zlen (mem m0 sid) < 4294967296 ->
  sinv st1 objs pads -> spool st1 -> sub_prog ops = true -> dst_run e st1 ops -> Forall seg_bound (bstates e st1 ops) ->
  Forall (fun R : Z -> Z -> Prop => forall k, addr <= k < addr + zlen bs -> ~ R sid k) (touches e st1 ops) ->
  slice (mem (w_dst (st_w (final e st1 ops))) sid) addr (zlen bs) = Ok bs.
Proof. exact run_last_write_wins. Qed.
Print Assumptions C04_run_last_write_wins.

(* [T27] history level, for every program of the interpreter, pointer slots: the words a pointer
   setter stored for table object [ht] at slot [q], then any program none of whose ops touches
   the slot word or its landing pads; at the end Segment.readPtr at [q] returns the handle of
   [ht] (the tables only grow along the run, so [ht] and the pads are still table entries) *)
Theorem C04_run_last_pointer_wins : forall e st1 objs pads ops q ht raw oldlen ps strict rl depth p rl',
  cfg_strict (e_cfgs e) = true ->
  sinv st1 objs pads -> spool st1 -> sub_prog ops = true -> dst_run e st1 ops -> Forall seg_bound (bstates e st1 ops) ->
  placed (bm_data (w_dst (st_w st1))) (fst q) (snd q) (p_seg ht) (obj_start ht) raw oldlen ps ->
  In ht objs -> incl ps pads -> snd q mod 8 = 0 ->
  raw_of ht = Ok raw -> (p_kind ht = KStruct -> os_isZero (p_size ht) = false) ->
  Forall (fun R : Z -> Z -> Prop => (forall k, snd q <= k < snd q + 8 -> ~ R (fst q) k) /\
            (forall r, In r ps -> forall k, r_start r <= k < r_start r + r_size r -> ~ R (r_seg r) k)) (touches e st1 ops) ->
  let m' := w_dst (st_w (final e st1 ops)) in
  readPtr strict (bm_data m') rl (fst q) (nth (Z.to_nat (fst q)) (bm_data m') []) (snd q) depth = (Ok p, rl') ->
  p = handle_of ht depth.
Proof. exact run_last_pointer_wins. Qed.
Print Assumptions C04_run_last_pointer_wins.

(* ------------------------------------------------------------------ establishment and serialisation *)
From CV Require Import Core.HeapMarshal.
From CV Require Frame.Frame.

(* [T28] the premise [sinv] of T24-T27 is established: for every arena configuration with a root
   word, every source message (bytes 0..255) and every program, every state the interpreter
   reaches (fewer than 2^32 segments) satisfies it *)
Theorem C04_reachable_sinv : forall a cfgd cfgs ncaps fuel src ops m,
  arena_spec_wf a -> root_cap_ok a -> create a (init_rlimit cfgd) = Ok m -> sub_prog ops = true ->
  msg_ok src -> cfg_strict cfgs = true ->
  let st0 := mkBSt (mkW m src (init_rlimit cfgs)) [] in
  dst_run (mkEnv cfgd cfgs ncaps fuel) st0 ops ->
  Forall seg_bound (bstates (mkEnv cfgd cfgs ncaps fuel) st0 ops) ->
  Forall (fun st => exists objs pads, sinv st objs pads) (bstates (mkEnv cfgd cfgs ncaps fuel) st0 ops).
Proof. exact heap_inv_sublang. Qed.
Print Assumptions C04_reachable_sinv.

(* [T29] serialisation, unpacked paths: the segments of every state the invariant describes (at
   most 2^30 - 1 segments) meet the premises of C14's frame theorems (C14_unmarshal_roundtrip,
   C14_encode_is_marshal): Marshal succeeds, the Encoder writes the same bytes, and Unmarshal -
   also with trailing bytes - returns exactly the segments, hence the same reads (T19 is a
   statement about [bm_data]).  The packed paths and the stream Decoder (C14
   all_paths_same_segments) additionally need every byte in 0..255: T33 / T34 below. *)
Theorem C04_marshal_roundtrip_states : forall m objs pads, hinv m objs pads -> nsegs m <= 1073741823 ->
  exists b, Frame.marshal (bm_data m) = Frame.Ok b /\ Frame.encode true (bm_data m) = Frame.Ok b /\
            Frame.unmarshal b = Frame.Ok (bm_data m) /\ forall junk, Frame.unmarshal (b ++ junk) = Frame.Ok (bm_data m).
Proof. exact marshal_roundtrip_states. Qed.
Print Assumptions C04_marshal_roundtrip_states.

(* ------------------------------------------------------------------ the success half of the pointer read-back *)
(* T18, T19, T23, T27 have the shape "if readPtr returns a handle, it is the right one"; these two
   say that it does return one. *)

(* [T30] with a non-zero depth limit and a read limit that covers the object, Segment.readPtr on
   a pointer that resolves to table object [h] (struct, list of any kind incl. composite lists)
   returns the handle of [h] and charges exactly [read_cost h] *)
Theorem C04_read_object_total : forall strict (ms : segs) rl sid off h raw depth,
  resolves_to ms sid off (p_seg h) (obj_start h) raw ->
  p_valid h = true -> good ms h -> tag_ok ms h -> raw_of h = Ok raw ->
  (p_kind h = KStruct -> os_isZero (p_size h) = false) ->
  seg_len ms (p_seg h) <= 4294967288 -> depth <> 0 -> read_cost h <= rl ->
  readPtr strict ms rl sid (nth (Z.to_nat sid) ms []) off depth = (Ok (handle_of h depth), rl - read_cost h).
Proof. exact read_resolved_total. Qed.
Print Assumptions C04_read_object_total.

(* [T31] in every state the invariant describes: with depth limit <> 0 and a read limit that
   covers every table object, Segment.readPtr at ANY pointer slot of any table object or at the
   root succeeds - null handle, the inline empty struct, the handle of the table object whose
   words the slot holds (charging its size), or the capability handle with the stored index
   (capability read-back) *)
Theorem C04_read_slot_total : forall strict m objs pads q rl depth,
  hinv m objs pads -> In q ((0, 0) :: flat_map slots objs) ->
  depth <> 0 -> 0 <= rl -> (forall h, In h objs -> read_cost h <= rl) ->
  exists p rl', readPtr strict (bm_data m) rl (fst q) (nth (Z.to_nat (fst q)) (bm_data m) []) (snd q) depth = (Ok p, rl') /\
    (p = nullPtr /\ rl' = rl \/ p = empty_handle q depth /\ rl' = rl \/
     (exists h, In h objs /\ p = handle_of h depth /\ rl' = rl - read_cost h) \/
     (exists idx, 0 <= idx < 4294967296 /\ p = mkPtr true (fst q) 0 idx (mkOS 0 0) 0 KIface false false false /\ rl' = rl)).
Proof. exact read_slot_total. Qed.
Print Assumptions C04_read_slot_total.

(* [T32] text / data read-back: NewData(v) / NewTextFromBytes(v) in any arena, then Ptr.Data() /
   Ptr.Text() on the bytes of the new message return what was written (for a text: v, and the
   data view shows the terminating NUL) *)
Theorem C04_new_bytes_read_back : forall m sid v nul m' p,
  inv m -> 0 <= sid < nsegs m -> zlen v < 536870911 ->
  newBytes m sid v nul = Ok (m', p) ->
  ptr_data (bm_data m') p = Ok (Some (if nul then v ++ [0] else v)) /\
  (nul = true -> ptr_text (bm_data m') p = Ok (Some v)).
Proof. exact new_bytes_read_back. Qed.
Print Assumptions C04_new_bytes_read_back.

(* ------------------------------------------------------------------ every serialisation path *)
From CV Require Import Core.HeapBytes Core.HeapPaths.
From CV Require Packed.Packed Frame.FramePacked Frame.FrameProofs Frame.FrameStream.

(* [T33] the bytes invariant: in every state of every program of the sub-language (sub_prog
   requires the argument of NewData / NewTextFromBytes to be bytes) every element of every segment
   of the message under construction, and of the source message, is in 0..255 ([mb], [wb]:
   Forall bytes_ok).  No premise besides the source being a message of bytes. *)
Theorem C04_bytes_inv_sublang : forall a cfgd cfgs ncaps fuel src ops m,
  create a (init_rlimit cfgd) = Ok m -> sub_prog ops = true -> msg_ok src ->
  Forall (fun st => Forall bytes_ok (bm_data (w_dst (st_w st))) /\ Forall bytes_ok (w_src (st_w st)))
         (bstates (mkEnv cfgd cfgs ncaps fuel) (mkBSt (mkW m src (init_rlimit cfgs)) []) ops).
Proof. exact bytes_inv_sublang. Qed.
Print Assumptions C04_bytes_inv_sublang.

(* [T34] "same tree after Marshal/Unmarshal, packed, Encoder/Decoder" at the segment level, for
   builder states: a state of the table invariant (T28: every reachable state) whose bytes are
   bytes (T33: every reachable state), with at most 512 segments (the stream Decoder's limit) and a
   frame within the Decoder's size limit [mx]: Marshal, the Encoder, MarshalPacked, the packed
   Encoder succeed, and Unmarshal, UnmarshalPacked and the stream Decoders - plain over ANY
   chunking of the bytes, packed over any reader behaviour [orc] - return exactly the segments of
   the built message; every read (T16-T31 are statements about [bm_data]) is therefore the same
   on the decoded message.  Composition with C14 / C13's all_paths_same_segments.  Not modelled:
   Marshal's own loading of the segments from the arena (message.go). *)
Theorem C04_all_paths_states : forall m objs pads mx,
  hinv m objs pads -> Forall bytes_ok (bm_data m) -> nsegs m <= 512 -> FrameStream.max_ok mx ->
  Frame.len (FrameProofs.frame (bm_data m)) <= Frame.eff_max mx ->
  let segs := bm_data m in
  exists b p pe,
    Frame.marshal segs = Frame.Ok b /\ Frame.encode true segs = Frame.Ok b /\
    FramePacked.marshal_packed segs = Frame.Ok p /\ Frame.encode_packed true segs = Frame.Ok pe /\
    Frame.unmarshal b = Frame.Ok segs /\
    FramePacked.unmarshal_packed p = Frame.Ok segs /\
    (forall cs hc bc ru, concat cs = b ->
       exists st' log, Frame.decode1 (Frame.mkD (Frame.mkReader cs Packed.EOF) hc bc ru mx) = (st', Frame.DMsg segs, log)) /\
    (forall orc hc bc ru,
       exists st' log, FramePacked.pdecode1 (Frame.mkD (FramePacked.p_init orc pe) hc bc ru mx) = (st', Frame.DMsg segs, log)) /\
    FramePacked.unmarshal_packed pe = Frame.Ok segs /\
    (forall orc hc bc ru,
       exists st' log, FramePacked.pdecode1 (Frame.mkD (FramePacked.p_init orc p) hc bc ru mx) = (st', Frame.DMsg segs, log)).
Proof. exact all_paths_states. Qed.
Print Assumptions C04_all_paths_states.
