(* C06 -- every RPC call gets exactly one correct return, in order, with pipelining.
   Statements only.  Proved at history level, for all histories OF THE MACHINE (coq/Rpc/Rpc.v):
   one_return, question_ids (ids and "each local call resolves exactly once").  What is NOT here:
   - delivery_order (T2): per-handler theorems in Properties_C06_order.v; the composition over whole
     histories is not proved (differential run);
   - no_sender_leak (T1): the machine has no sender-lock component; the one place where the as-found
     code kept the lock is a hand-placed [Stuck W_F14], refuted below on one history and excluded
     for all histories by C06_answers_progress (no step is Stuck); the lock discipline of the real
     code is C09's (C09_api_exits_hold_nothing);
   - the content of results: [OReturnRes id ds] keeps the answer id and the capability descriptors
     only, [LAppRes n cls] the class of the outcome (results / error / canceled / disconnected);
   - the machine follows rpc.Conn only on histories in which the peer never answers a question
     whose Call is still being built ([late_free], see C06_late_return_history): for those histories
     the statements below are statements about rpc.Conn (via the differential run). *)
From CV Require Import Rpc.Rpc Rpc.RpcSpec Rpc.RpcProofs Rpc.RpcInv Rpc.RpcResp Rpc.RpcLocal Rpc.RpcHist Rpc.RpcQids Rpc.RpcCalls Rpc.RpcRefuted.
Open Scope Z_scope.

(* ================= history-level theorems (second round) =================
   [run_h] runs a history from the initial state and threads two ghosts: [out], everything sent so
   far, and [cr id], the number of Bootstrap / Call messages ACCEPTED with answer id [id]
   ([creates]: the connection is up, the message asks for results to the caller, the id is not in
   use).  [pending id s] is 1 iff answer [id] is in the table and has not sent its Return. *)

(* one_return: for every history and every answer id, the Returns sent for the id never exceed the
   Bootstrap / Call messages accepted with it; while the connection is up they are EQUAL except for
   the (at most one) accepted message whose answer still owes its Return -- each accepted call has
   got exactly one Return as soon as its answer is no longer owing, never two *)
Theorem C06_one_return : forall boot evs s cr out, work evs < 4294967295 ->
  run_h (init boot) evs (fun _ => 0%nat) [] = Ok (s, cr, out) ->
  forall id, (returns id out <= cr id)%nat /\
             (s_shut s = false -> (returns id out + pending id s = cr id)%nat /\ (pending id s <= 1)%nat).
Proof. exact one_return. Qed.
Print Assumptions C06_one_return.

(* ... and the Return carries the target's outcome: when a local server returns from the call that
   runs for answer id, the step sends a results Return for id (normal return) or an exception Return
   for id (exception).  (A call rejected before it reaches a server gets an exception Return:
   [C06_exception_return_once] / response_class of C08.) *)
Theorem C06_return_is_targets : forall k r s s0 o0 ab id a, app_return cfg_fixed k r s = Ok (s0, o0, ab) -> live s ->
  find_running k (s_ans s) = Some (id, a) ->
  match r with ARExc => In (OReturnExc id) o0 | _ => exists ds, In (OReturnRes id ds) o0 end.
Proof. exact app_return_result. Qed.
Print Assumptions C06_return_is_targets.
(* not vacuous (a reachable live state with a running answer), and all the machine keeps of the
   content of a Return is the descriptor list: two different results give the same output *)
Example C06_return_reached :
  match run_o (init true) (firstn 2 (h_ret [FOther])) [] with
  | Ok (s, _) => exists a, find_running 0 (s_ans s) = Some (1, a) /\ live s
  | _ => False
  end /\
  match run_o (init true) (h_ret [FOther]) [], run_o (init true) (h_ret [FNull; FNull; FOther]) [] with
  | Ok (_, o1), Ok (_, o2) => In (OReturnRes 1 []) o1 /\ o1 = o2
  | _, _ => False
  end.
Proof. exact return_reached. Qed.
Print Assumptions C06_return_reached.
(* the local caller's side: a Return for a question that is neither canceled nor a bootstrap
   resolves its call in the same step, with class 0 (results) only if it is a results Return and
   class 1 (error) otherwise; by C06_call_resolves_once below this is the call's only resolution *)
Theorem C06_return_resolves_kind : forall qid rpc k s s0 o0 ab q, handle_return cfg_fixed qid rpc k s = Ok (s0, o0, ab) ->
  tget qid (s_qs s) = Some q -> q_fin q = false -> q_boot q = None ->
  exists c, In (LAppRes (q_call q) c) o0 /\ (c = 0 \/ c = 1) /\ (c = 0 -> exists p, k = RkResults (Some p)).
Proof. exact return_resolves_kind. Qed.
Print Assumptions C06_return_resolves_kind.

(* question_ids, first half: while the connection is up every Bootstrap / Call sent with question
   id [id] is matched by a Finish for [id] in the outbox, except the current use of the id
   ([qb] = 1 iff the id is in use, its message is out and its Finish is not); an id that is free --
   the only ids newQuestion hands out ([new_question_q]: the slot is empty) -- therefore has a Finish
   in the outbox for each of its earlier uses: it is never re-issued before its Finish was sent *)
Theorem C06_question_ids : forall boot evs s out, work evs < 4294967295 -> run_o (init boot) evs [] = Ok (s, out) -> s_shut s = false ->
  forall id, (cnt (is_issue id) out <= cnt (is_finish id) out + qb id (s_qs s))%nat /\
             (tget id (s_qs s) = None -> (cnt (is_issue id) out <= cnt (is_finish id) out)%nat).
Proof. exact question_ids. Qed.
Print Assumptions C06_question_ids.
Theorem C06_new_question_is_free : forall q s s1 id, new_question q s = Ok (s1, id) -> live s ->
  tget id (s_qs s) = None /\ (forall i, tget i (s_qs s1) = if i =? id then Some q else tget i (s_qs s)) /\
  s_handles s1 = s_handles s /\ s_lcalls s1 = s_lcalls s /\ s_ecalls s1 = s_ecalls s /\ s_ncall s1 = s_ncall s /\
  s_ndeliv s1 = s_ndeliv s /\ s_shut s1 = s_shut s.
Proof. exact new_question_q. Qed.
Print Assumptions C06_new_question_is_free.
(* C06_question_ids is a statement about the machine for ALL histories; it is a statement about
   rpc.Conn for [late_free] histories: no Return names a question whose Call is still being built
   (a call inside PlaceArgs, [AHold]).  A peer that keeps to the protocol cannot send such a
   Return.  On the history below (the 4th event answers the held question 0) the machine issues
   id 0 twice with a Finish between and never sends the held call's Call; rpc.Conn writes that
   Call after PlaceArgs with the freed id, so id 0 is on the wire twice without a Finish
   (corpus/C06-rpc.txt, known finding "heldret": the peer broke the protocol first). *)
Example C06_late_return_history : late_free (init true) h_late = false /\
  late_free (init true) (firstn 3 h_late) = true /\
  match run_o (init true) h_late [] with Ok (_, o) => calls0 o = 2%nat /\ cnt (is_finish 0) o = 2%nat | _ => False end.
Proof. exact late_return_history. Qed.
Print Assumptions C06_late_return_history.
(* question_ids, second half -- every local call resolves exactly once.  [is_res n] recognises the
   resolution [LAppRes n _] of local call number n; [hold n] counts the places that still hold call
   n: unfinished questions carrying it ([HQ]), running direct deliveries to a local server ([HL]),
   calls blocked behind an embargo ([HE]).  For EVERY history (through shutdown and beyond):
   a number that has been handed out has, together, exactly ONE resolution-or-holder -- so it is
   never resolved twice, a resolved call is held nowhere (nothing can resolve it again) and an
   unresolved call is held at exactly one place (it is not lost); a number not handed out has
   neither; and after shutdown no question holds a call any more (every call made through the
   connection has been resolved; what may remain are direct calls on local servers, resolved when
   the server returns). *)
Theorem C06_call_resolves_once : forall boot evs s out, work evs < 4294967295 -> run_o (init boot) evs [] = Ok (s, out) ->
  forall n, 0 <= n ->
    (n < s_ncall s -> (cnt (is_res n) out + hold n (aux_of s) = 1)%nat) /\
    (s_ncall s <= n -> cnt (is_res n) out = 0%nat /\ hold n (aux_of s) = 0%nat) /\
    (cnt (is_res n) out <= 1)%nat.
Proof. exact call_resolves_once. Qed.
Print Assumptions C06_call_resolves_once.
Theorem C06_shut_calls_resolved : forall boot evs s out, work evs < 4294967295 -> run_o (init boot) evs [] = Ok (s, out) ->
  s_shut s = true -> forall n, HQ n (s_qs s) = 0%nat.
Proof. exact shut_calls_resolved. Qed.
Print Assumptions C06_shut_calls_resolved.
(* delivery_order (T2): Properties_C06_order.v (per-handler theorems; trace composition not proved). *)

(* ================= handler-level lemmas of the first round (kept) =================
   (Complete lemmas about single handlers; the history-level statements they were the partial
   results for are proved above.)
   one_return as first written (proved since as C06_one_return):
     for every history evs (run_env cfg_fixed (init b) evs = Ok s) and every Bootstrap/Call id
     received at position i and not followed by a Finish for the id and a later reuse:
     the outbox holds at most one Return for the id after position i, it carries that id, exactly
     one once the target produced its outcome and the connection is up, with the target's result.
   PROVED PART: whenever an answer returns (answer.sendException: every rejection, exception and
   cancellation path), exactly one Return with the answer's own id is sent and none for any other
   id (none at all after shutdown), and the answer is left returnSent (not returnable again: every
   handler that returns an answer takes it from a Running / Queued / fresh state, see
   [ans_ok] in RpcInv) or destroyed.
   (The same for sendReturn and the induction over whole histories: C06_one_return.) *)
Theorem C06_exception_return_once : forall c id a s s1 o ab, send_exception c id a s = Ok (s1, o, ab) ->
  returns id o = (if s_shut s then 0 else 1)%nat /\ (forall b, b <> id -> returns b o = 0%nat) /\ returned_or_gone id s1.
Proof. exact send_exception_one_return. Qed.
Print Assumptions C06_exception_return_once.

(* every handler keeps the invariant from which one_return follows locally: an answer that has
   not returned is running on a server or queued behind another answer (never idle), so a
   pipelined call always finds a pipeline caller, and no handler panics or blocks *)
Theorem C06_answers_progress : forall s e W, sinv s W -> W + ev_work e < 4294967295 -> env_ok s e = true ->
  exists s1 o, step cfg_fixed s e = Ok (s1, o) /\ sinv s1 (W + ev_work e).
Proof. exact step_ok. Qed.
Print Assumptions C06_answers_progress.

(* question_ids as first written (proved since as C06_question_ids + C06_call_resolves_once):
     in every reachable state a question id handed out by newQuestion is not in use, and between
     two uses of an id the outbox has a Finish for it; each local call resolves exactly once.
   PROVED PART: the only handler that frees a question id is handleReturn; when the question was
   not canceled the Finish for that id is among the messages of the same step and the connection
   is not aborted; when it was canceled the Finish(releaseResultCaps) was sent by the step that
   set the flag.
   (Superseded by C06_question_ids / C06_new_question_is_free / C06_call_resolves_once above.) *)
Theorem C06_return_sends_finish : forall qid rpc k s q s1 o ab,
  handle_return cfg_fixed qid rpc k s = Ok (s1, o, ab) -> tget qid (s_qs s) = Some q -> q_fin q = false ->
  In (OFinish qid false) o /\ ab = false.
Proof. exact return_sends_finish. Qed.
Print Assumptions C06_return_sends_finish.

Theorem C06_cancel_sends_finish : forall qid q s s1 o, cancel_question qid q s = Ok (s1, o) ->
  o = [OFinish qid true] /\
  s_qs s1 = replace_nth (Z.to_nat qid) (Some (mkQ (q_boot q) (q_call q) true (q_called q) (q_prefs q) (q_held q))) (s_qs s).
Proof. exact cancel_sends_finish. Qed.
Print Assumptions C06_cancel_sends_finish.

(* no_sender_leak (F14): before the repair a Call pipelined on an answer that has not returned
   wedges the connection (3 messages); the repaired machine handles the history *)
Theorem C06_F14_refuted : outcome without14 h14 = - W_F14 /\ outcome cfg_fixed h14 = 0.
Proof. exact F14_refuted. Qed.
Print Assumptions C06_F14_refuted.
(* delivery_order (stretch, NOT proved): calls addressed to one capability reach the application
   in send order, including calls queued behind unreturned answers ([drain]) and calls held by an
   embargo ([wake_calls]); before the repair of F23 server/answer.go resolved a call queued behind
   a queued call against the wrong answer.  Checked by the correspondence run (order recorded by
   the instrumented servers, scenario and valid streams). *)
