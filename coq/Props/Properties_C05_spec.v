(* C05, pointer-level validity at write time in the terms of the encoding specification
   (coq/Spec).  Statement only. *)
From CV Require Import Core.Builder Core.ReaderFacts Core.ArithFacts Core.BuilderFacts Core.AllocProofs
  Core.WritePtrProofs Spec.SpecFacts Core.SpecBridge.
Open Scope Z_scope.

(* every struct pointer stored by writePtr's placement switch (near / far + landing pad /
   double-far + pad, by the code's capacity test, all arena configurations) is resolved by the
   specification decoder to exactly the struct that was targeted, and that struct lies inside
   the message: "every pointer resolves inside its target segment, landing pads are well formed"
   for the pointer just written *)
Theorem C05_placed_struct_is_spec_valid : forall w dsid off tsid taddr sz raw w',
  place_pre (w_dst w) dsid off tsid taddr raw ->
  rawStructPointer 0 sz = Some raw -> os_wf sz -> os_isZero sz = false ->
  taddr + totalSize sz <= zlen (mem (w_dst w) tsid) ->
  place w dsid off tsid taddr raw = Ok w' ->
  SpecProofs.bytes_ok (bm_data (w_dst w')) ->
  let m' := bm_data (w_dst w') in
  spec_resolve false m' dsid (off / 8) = Some (TgtStruct tsid (taddr / 8) (DataSize sz / 8) (PointerCount sz)) /\
  tgt_wf (TgtStruct tsid (taddr / 8) (DataSize sz / 8) (PointerCount sz)) /\
  tgt_inside m' (TgtStruct tsid (taddr / 8) (DataSize sz / 8) (PointerCount sz)).
Proof. exact placed_struct_is_spec_valid. Qed.
Print Assumptions C05_placed_struct_is_spec_valid.
