(* C17 — Equal is exactly the documented structural equality.
   Statements only; each is closed by [exact] of a lemma proved elsewhere.
   [den strict m mid caps p v] (Value/Den.v): pointer p of message m denotes the value v --
   defined directly on the bytes (no limits, independent of p's depth limit). *)
From CV Require Import Value.ValueEq Value.ValueEqProofs Value.EqualM Value.Den Value.EqualCorrect Value.EqualProofs Value.EqualSym Value.VDec Value.VDecProofs.
From CV Require Import Core.ReaderFacts.
Open Scope Z_scope.

(* the documented equality is reflexive and symmetric on all value trees *)
Theorem C17_value_eq_refl : forall v, value_eq v v = true.
Proof. exact value_eq_refl. Qed.
Print Assumptions C17_value_eq_refl.

Theorem C17_value_eq_sym : forall a b, value_eq a b = value_eq b a.
Proof. exact value_eq_sym. Qed.
Print Assumptions C17_value_eq_sym.

(* equality of values of one schema type (no list upgrade) implies the documented equality *)
Theorem C17_value_eqs_value_eq : forall a b, value_eqs a b = true -> value_eq a b = true.
Proof. exact value_eqs_value_eq. Qed.
Print Assumptions C17_value_eqs_value_eq.

(* it is NOT transitive: the list-upgrade rule (and nil clients, cap_eq_not_transitive) *)
Theorem C17_value_eq_not_transitive :
  let a := VList LB1 [VStruct [1] []] in
  let b := VList LComp [VStruct [1] []] in
  let c := VList LB2 [VStruct [1] []] in
  value_eq a b = true /\ value_eq b c = true /\ value_eq a c = false.
Proof. exact value_eq_not_transitive. Qed.
Print Assumptions C17_value_eq_not_transitive.

(* [T1] Equal (repaired model, any fuel, any remaining budgets, one or two messages) answers
   exactly the documented equality of the denoted values: structs with zero extension, all
   list kinds incl. the bytewise fast path and list upgrades, bit lists, capabilities, null *)
Theorem C17_equal_m_correct : forall c fx x fuel st p q b st' va vb,
  cfg_strict c = true -> all_fixed fx -> msg_ok (segs_of x SA) -> msg_ok (segs_of x SB) ->
  equal_m fuel c fx x st p q = (EOk b, st') ->
  den true (segs_of x SA) 0 (caps_of x SA) p va ->
  den true (segs_of x SB) (if ec_same x then 0 else 1) (caps_of x SB) q vb ->
  b = value_eq va vb.
Proof. exact equal_m_correct. Qed.
Print Assumptions C17_equal_m_correct.

(* layout independence: any two encodings of equal values are Equal *)
Theorem C17_equal_layout_independent : forall c fx x fuel st p q b st' va vb,
  cfg_strict c = true -> all_fixed fx -> msg_ok (segs_of x SA) -> msg_ok (segs_of x SB) ->
  equal_m fuel c fx x st p q = (EOk b, st') ->
  den true (segs_of x SA) 0 (caps_of x SA) p va ->
  den true (segs_of x SB) (if ec_same x then 0 else 1) (caps_of x SB) q vb ->
  value_eq va vb = true -> b = true.
Proof. exact equal_layout_independent. Qed.
Print Assumptions C17_equal_layout_independent.

Theorem C17_equal_refl : forall c fx x fuel st p b st' v,
  cfg_strict c = true -> all_fixed fx -> msg_ok (segs_of x SA) -> ec_same x = true ->
  equal_m fuel c fx x st p p = (EOk b, st') ->
  den true (segs_of x SA) 0 (caps_of x SA) p v -> b = true.
Proof. exact equal_refl. Qed.
Print Assumptions C17_equal_refl.

Theorem C17_equal_sym : forall c fx x fuel st1 st2 p q b1 b2 st1' st2' va vb,
  cfg_strict c = true -> all_fixed fx -> msg_ok (segs_of x SA) -> ec_same x = true ->
  equal_m fuel c fx x st1 p q = (EOk b1, st1') ->
  equal_m fuel c fx x st2 q p = (EOk b2, st2') ->
  den true (segs_of x SA) 0 (caps_of x SA) p va ->
  den true (segs_of x SA) 0 (caps_of x SA) q vb -> b1 = b2.
Proof. exact equal_sym. Qed.
Print Assumptions C17_equal_sym.

(* symmetric across two messages: Equal(p, q) over (A, B) and Equal(q, p) over (B, A) agree *)
Theorem C17_equal_sym_two_messages : forall c fx x fuel st1 st2 p q b1 b2 st1' st2' va vb,
  cfg_strict c = true -> all_fixed fx -> msg_ok (ec_segs_a x) -> msg_ok (ec_segs_b x) -> ec_same x = false ->
  equal_m fuel c fx x st1 p q = (EOk b1, st1') ->
  equal_m fuel c fx (swap_x x) st2 q p = (EOk b2, st2') ->
  den true (ec_segs_a x) 0 (ec_caps_a x) p va ->
  den true (ec_segs_b x) 1 (ec_caps_b x) q vb -> b1 = b2.
Proof. exact equal_sym_two_messages. Qed.
Print Assumptions C17_equal_sym_two_messages.

(* the value the correspondence harness evaluates value_eq on (the executable decoder vdec, used
   whenever both walked trees are complete) IS a value in the sense of the theorems above *)
Theorem C17_vdec_den : forall fuel lcap m mid caps p v,
  vdec fuel lcap m mid caps p = Some v -> den true m mid caps p v.
Proof. exact vdec_den. Qed.
Print Assumptions C17_vdec_den.

(* non-vacuity: the hypotheses are satisfiable (a root struct holding a bit list) *)
Theorem C17_den_example :
  exists p, fst (root cfg0 (msg_bits 5) 1000) = Ok p
            /\ den true (msg_bits 5) 0 [] p (VStruct [] [VBits [true; false; true]]).
Proof. exact den_example. Qed.
Print Assumptions C17_den_example.

(* F01, the code as found: bit lists that differ, and a bit list and a void list of one
   length, are Equal although the documented equality of their walked trees is false *)
Theorem C17_equal_prefix_refuted :
  eq_res (run_equal 20 cfg0 cfg0 asfound_e (msg_bits 5) [] (msg_bits 2) [] false SelRoot SelRoot) = EOk true
  /\ fst (fst (spec_equal 20 cfg0 cfg0 rdfix (msg_bits 5) [] (msg_bits 2) [] false SelRoot SelRoot 1024 64)) = Some false
  /\ eq_res (run_equal 20 cfg0 cfg0 asfound_e (msg_bits 5) [] msg_void [] false SelRoot SelRoot) = EOk true
  /\ fst (fst (spec_equal 20 cfg0 cfg0 rdfix (msg_bits 5) [] msg_void [] false SelRoot SelRoot 1024 64)) = Some false.
Proof. exact equal_prefix_refuted. Qed.
Print Assumptions C17_equal_prefix_refuted.

(* O3, the code as found: a far pointer to a null landing pad in an extra pointer slot *)
Theorem C17_equal_farnull_prefix_refuted :
  eq_res (run_equal 20 cfg0 cfg0 (mkEFix true false rdfix) msg_farnull [] msg_onenull [] false SelRoot SelRoot) = EOk false
  /\ fst (fst (spec_equal 20 cfg0 cfg0 rdfix msg_farnull [] msg_onenull [] false SelRoot SelRoot 1024 64)) = Some true
  /\ eq_res (run_equal 20 cfg0 cfg0 repaired_e msg_farnull [] msg_onenull [] false SelRoot SelRoot) = EOk true.
Proof. exact equal_farnull_prefix_refuted. Qed.
Print Assumptions C17_equal_farnull_prefix_refuted.
