(* C17 — Equal is exactly the documented structural equality.
   Statements only; each is closed by [exact] of a lemma proved elsewhere.
   The model-level statement equal_m_correct_statement ([T1]) is NOT proved in full; the
   theorems named ..._if derive reflexivity / symmetry / layout independence of equal_m from
   it, the theorems named ..._partial are the cases of it that are proved (docs/C17.md). *)
From CV Require Import Value.ValueEq Value.ValueEqProofs Value.EqualM Value.EqualProofs.
Open Scope Z_scope.

(* the documented equality is reflexive and symmetric on all value trees *)
Theorem C17_value_eq_refl : forall v, value_eq v v = true.
Proof. exact value_eq_refl. Qed.
Print Assumptions C17_value_eq_refl.

Theorem C17_value_eq_sym : forall a b, value_eq a b = value_eq b a.
Proof. exact value_eq_sym. Qed.
Print Assumptions C17_value_eq_sym.

(* equality of values of one schema type (no list upgrade) implies the documented equality *)
Theorem C17_value_eqs_value_eq : forall a b, value_eqs a b = true -> value_eq a b = true.
Proof. exact value_eqs_value_eq. Qed.
Print Assumptions C17_value_eqs_value_eq.

(* it is NOT transitive: the list-upgrade rule, and nil clients *)
Theorem C17_value_eq_not_transitive :
  let a := VList LB1 [VStruct [1] []] in
  let b := VList LComp [VStruct [1] []] in
  let c := VList LB2 [VStruct [1] []] in
  value_eq a b = true /\ value_eq b c = true /\ value_eq a c = false.
Proof. exact value_eq_not_transitive. Qed.
Print Assumptions C17_value_eq_not_transitive.

(* model level, proved cases of equal_m = value_eq o denote: null pointers ... *)
Theorem C17_equal_m_null_partial : forall f c fx w p q,
  p_valid p = false ->
  equal_m (S f) c fx w p q = (EOk (negb (p_valid q)), w)
  /\ equal_m (S f) c fx w q p = (EOk (negb (p_valid q)), w).
Proof. exact equal_m_null_partial. Qed.
Print Assumptions C17_equal_m_null_partial.

Theorem C17_walk_valid_not_null : forall c fx m dcap pcap fuel rl p t rl' mid caps,
  p_valid p = true -> walk c fx m dcap pcap fuel rl (Ok p) = (t, rl') -> tree_ok t = true ->
  is_null (denote mid caps t) = false.
Proof. exact walk_valid_not_null. Qed.
Print Assumptions C17_walk_valid_not_null.

(* ... and capabilities (same message: same index or same client of the table; different
   messages: same client, an index outside the table being the nil client) *)
Theorem C17_equal_m_iface_partial : forall f c fx w p q,
  is_iface p = true -> is_iface q = true -> 0 <= p_len p -> 0 <= p_len q ->
  equal_m (S f) c fx w p q =
  (EOk (value_eq (denote 0 (w_caps_of w SA) (TCap (p_len p)))
                 (denote (if ew_same w then 0 else 1) (w_caps_of w SB) (TCap (p_len q)))), w).
Proof. exact equal_m_iface_partial. Qed.
Print Assumptions C17_equal_m_iface_partial.

(* consequences of the full statement *)
Theorem C17_equal_refl_if : equal_m_correct_statement ->
  forall fuel c fx w p b w' v,
    all_fixed fx -> ew_same w = true -> far_ok (w_segs_of w SA) ->
    equal_m fuel c fx w p p = (EOk b, w') ->
    denotes c (fx_rd fx) (w_segs_of w SA) 0 (w_caps_of w SA) p v ->
    b = true.
Proof. exact equal_refl_if. Qed.
Print Assumptions C17_equal_refl_if.

Theorem C17_equal_sym_if : equal_m_correct_statement ->
  forall fuel c fx w p q b1 b2 w1 w2 va vb,
    all_fixed fx -> ew_same w = true -> far_ok (w_segs_of w SA) ->
    equal_m fuel c fx w p q = (EOk b1, w1) ->
    equal_m fuel c fx w q p = (EOk b2, w2) ->
    denotes c (fx_rd fx) (w_segs_of w SA) 0 (w_caps_of w SA) p va ->
    denotes c (fx_rd fx) (w_segs_of w SA) 0 (w_caps_of w SA) q vb ->
    b1 = b2.
Proof. exact equal_sym_if. Qed.
Print Assumptions C17_equal_sym_if.

Theorem C17_equal_layout_independent_if : equal_m_correct_statement ->
  forall fuel c fx w p q b w' va vb,
    all_fixed fx -> far_ok (w_segs_of w SA) -> far_ok (w_segs_of w SB) ->
    equal_m fuel c fx w p q = (EOk b, w') ->
    denotes c (fx_rd fx) (w_segs_of w SA) 0 (w_caps_of w SA) p va ->
    denotes c (fx_rd fx) (w_segs_of w SB) (if ew_same w then 0 else 1) (w_caps_of w SB) q vb ->
    value_eq va vb = true -> b = true.
Proof. exact equal_layout_independent_if. Qed.
Print Assumptions C17_equal_layout_independent_if.

(* F01, the code as found: bit lists that differ, and a bit list and a void list of one
   length, are Equal although the documented equality of their walked trees is false *)
Theorem C17_equal_prefix_refuted :
  eq_res (run_equal 20 cfg0 cfg0 (mkEFix false false rdfix) (msg_bits 5) [] (msg_bits 2) [] false SelRoot SelRoot) = EOk true
  /\ fst (fst (spec_equal 20 cfg0 cfg0 rdfix (msg_bits 5) [] (msg_bits 2) [] false SelRoot SelRoot 1024 64)) = Some false
  /\ eq_res (run_equal 20 cfg0 cfg0 (mkEFix false false rdfix) (msg_bits 5) [] msg_void [] false SelRoot SelRoot) = EOk true
  /\ fst (fst (spec_equal 20 cfg0 cfg0 rdfix (msg_bits 5) [] msg_void [] false SelRoot SelRoot 1024 64)) = Some false.
Proof. exact equal_prefix_refuted. Qed.
Print Assumptions C17_equal_prefix_refuted.
