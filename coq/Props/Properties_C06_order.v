(* C06 delivery_order [T2] -- statements only.  Observers: coq/Rpc/RpcOrderSpec.v ([delivs]: the
   deliveries to local servers in a handler's output, in output order; [held]: the local calls blocked
   behind an embargo, oldest first; [delivered] / [enqueued] / [dropped]: what a handler did with one
   incoming call).  Every theorem below quantifies over ALL states of the repaired machine
   (cfg_fixed), hence over every state of every history; none needs env_ok or late_free.  The outbox
   of a history is the concatenation of the handler outputs, so "in its own handler" = before
   anything a later event causes.
   What is NOT proved (the statement [delivery_order] as a single trace theorem is therefore
   _partial): (a) that no handler other than handleCall / the drain / shutdown changes the relative
   order of the answer queue, and that app_return's deliveries are exactly its drain's (the pieces:
   C06_delivery_order_pipelined_pending, C06_delivery_order_drain_partial, queued_under is a
   sublist of the queue); (b) that no handler other than Disembargo / shutdown lets a held call
   through; (c) a sender-lock ghost (no_sender_leak still has no theorem of its own). *)
From CV Require Import Rpc.Rpc Rpc.RpcSpec Rpc.RpcQids Rpc.RpcOrderSpec Rpc.RpcOrder.
Open Scope Z_scope.

(* every incoming Call, whatever its target: its handler delivers it as the NEXT delivery and as the
   handler's only delivery (its target, if an answer, has its results), or appends it at the END of the
   answer queue (only when the target is an answer without results; nothing is delivered), or never
   delivers it (rejected / protocol error).  No Call is held anywhere else, so a Call that is not
   queued cannot be overtaken by a later Call. *)
Theorem C06_delivery_order_incoming : forall id tg params tc mok tag s s1 o ab,
  handle_call cfg_fixed id tg params tc mok tag s = Ok (s1, o, ab) ->
  (exists j, delivered id j tag s s1 o /\ tgt_returned tg s) \/
  (exists t x, parse_target tg = Some (PAns t x) /\ enqueued id t x tag s s1 o) \/
  dropped id s s1 o.
Proof. exact call_sync. Qed.
Print Assumptions C06_delivery_order_incoming.

Theorem C06_delivery_order_direct : forall id e params tc mok tag s s1 o ab,
  handle_call cfg_fixed id (TgImp e) params tc mok tag s = Ok (s1, o, ab) ->
  (exists j, delivered id j tag s s1 o) \/ dropped id s s1 o.
Proof. exact order_direct. Qed.
Print Assumptions C06_delivery_order_direct.

Theorem C06_delivery_order_pipelined_returned : forall id tg t x ta params tc mok tag s s1 o ab,
  handle_call cfg_fixed id tg params tc mok tag s = Ok (s1, o, ab) ->
  parse_target tg = Some (PAns t x) -> aget t (s_ans s) = Some ta -> a_ready ta = true ->
  (exists j, delivered id j tag s s1 o) \/ dropped id s s1 o.
Proof. exact order_pipelined_returned. Qed.
Print Assumptions C06_delivery_order_pipelined_returned.

Theorem C06_delivery_order_pipelined_pending : forall id tg t x ta params tc mok tag s s1 o ab,
  handle_call cfg_fixed id tg params tc mok tag s = Ok (s1, o, ab) ->
  parse_target tg = Some (PAns t x) -> aget t (s_ans s) = Some ta -> a_ready ta = false ->
  enqueued id t x tag s s1 o \/ dropped id s s1 o.
Proof. exact order_pipelined_pending. Qed.
Print Assumptions C06_delivery_order_pipelined_pending.

(* answerQueue.fulfill: the drain of a duplicate-free list of queued calls delivers a SUBLIST of it, in
   list order (tags), as consecutive deliveries; app_return drains [queued_under .. (s_queue s) ..], a
   sublist of the queue.  _partial: see (a) above. *)
Theorem C06_delivery_order_drain_partial : forall r k rct lst ids s s1 o ab,
  drain cfg_fixed r k rct lst ids s = Ok (s1, o, ab) -> NoDup ids ->
  exists dl, sublist dl ids /\ map (fun d => snd (fst d)) (delivs o) = map (tagz (s_ans s)) dl /\
             map snd (delivs o) = seqZ (s_ndeliv s) (length dl) /\
             s_ndeliv s1 = s_ndeliv s + Z.of_nat (length dl) /\
             (forall b, ~ In b ids -> aget b (s_ans s1) = aget b (s_ans s)).
Proof. exact drain_order. Qed.
Print Assumptions C06_delivery_order_drain_partial.
Theorem C06_drained_list_in_queue_order : forall ans q under, sublist (queued_under ans q under) q.
Proof. exact queued_under_sublist. Qed.
Print Assumptions C06_drained_list_in_queue_order.

(* outgoing side: a local call on a handle is, in its own handler, written as exactly one Call to the
   handle's import / promised answer, or delivered to the local server the handle resolved to (next
   delivery), or -- the handle is embargoed -- appended at the END of the held calls with nothing
   written or delivered, or failed *)
Theorem C06_delivery_order_outgoing : forall c h caps tag s s1 o ab, app_call c h caps tag s = Ok (s1, o, ab) ->
  match hget h s with
  | HBoot q0 => (exists id ds, o = [OCall id (OTAns q0 []) ds]) \/ (exists cls, o = [LAppRes (s_ncall s) cls])
  | HCap (CImp i g) => (exists id ds, o = [OCall id (OTImp i) ds]) \/ o = [LAppRes (s_ncall s) 3]
  | HCap (CLocal j) => o = [LDeliver j tag (s_ndeliv s)] /\ s_ndeliv s1 = s_ndeliv s + 1 /\ s_ecalls s1 = s_ecalls s
  | HCap (CEmb e) => o = [] /\ s_ecalls s1 = s_ecalls s ++ [(e, s_ncall s, tag)] /\ s_ndeliv s1 = s_ndeliv s
  | _ => o = [LAppRes (s_ncall s) 1]
  end.
Proof. exact app_call_out. Qed.
Print Assumptions C06_delivery_order_outgoing.
Theorem C06_delivery_order_outgoing_pipe : forall c q0 x caps s s1 o ab, app_pipe c q0 x caps s = Ok (s1, o, ab) ->
  (exists id ds, o = [OCall id (OTAns q0 x) ds]) \/ (exists cls, o = [LAppRes (s_ncall s) cls]).
Proof. exact app_pipe_out. Qed.
Print Assumptions C06_delivery_order_outgoing_pipe.
(* the PlaceArgs window: the held call's Call is the first thing the step that ends the window writes *)
Theorem C06_delivery_order_unhold : forall c n s s1 o ab, app_unhold c n s = Ok (s1, o, ab) ->
  o = [] \/ exists qid i rest, o = OCall qid (OTImp i) [] :: rest /\ ocalls rest = [] /\ delivs rest = [].
Proof. exact app_unhold_out. Qed.
Print Assumptions C06_delivery_order_unhold.

(* embargo: when the Disembargo for embargo e (on local server j) comes back, exactly the calls held
   behind e are delivered, oldest first, as the next deliveries; none stays behind e; the calls held
   behind other embargoes stay where they are *)
Theorem C06_delivery_order_embargo : forall tg e em j s s1 o ab,
  handle_disembargo cfg_fixed tg (DxReceiver e) s = Ok (s1, o, ab) -> parse_target tg <> None ->
  tget e (s_emb s) = Some em -> e_cap em = CLocal j ->
  delivs o = number j (s_ndeliv s) (held e (s_ecalls s)) /\
  s_ndeliv s1 = s_ndeliv s + Z.of_nat (length (held e (s_ecalls s))) /\
  held e (s_ecalls s1) = [] /\ (forall e', e' <> e -> held e' (s_ecalls s1) = held e' (s_ecalls s)) /\
  s_queue s1 = s_queue s /\ s_ans s1 = s_ans s.
Proof. exact disembargo_order. Qed.
Print Assumptions C06_delivery_order_embargo.

(* not vacuous: a history that queues two pipelined calls and drains them in order *)
Example C06_delivery_order_reached :
  match run_o (init true) (firstn 4 h_order) [] with
  | Ok (s, out) => s_queue s = [2; 3] /\ delivs out = [(0, 11, 0)]
  | _ => False
  end /\
  match run_o (init true) h_order [] with
  | Ok (s, out) => s_queue s = [] /\ delivs out = [(0, 11, 0); (1, 22, 1); (1, 33, 2)]
  | _ => False
  end.
Proof. exact order_reached. Qed.
Print Assumptions C06_delivery_order_reached.
