(* C18 — canonical form is valid, value-preserving and layout-independent.
   Statements only; each is closed by [exact] of a lemma proved elsewhere.
   [T1] (specification level): all proved, for all values.
   NOTE: the relation of C18_canon_unique is value_eqs (no list upgrade), not Equal's value_eq:
   a primitive list and the equivalent struct list are value_eq but have different canonical forms.
   [T2] (the Go-faithful model computes canon of the denoted value) is proved by a heap-level
   induction for every VALUE: C18_canon_m_correct, its consequences, and the capability case
   (C18_canon_m_cap_error).
   PREMISE of every [T2] theorem, load-bearing: the struct handed to Canonicalize has a data section
   of whole words, [DataSize (p_size s) mod 8 = 0] -- true for every struct the reader hands out and
   for struct-list elements, FALSE for List.Struct(i) of a 1-, 2- or 4-byte list.  For those the code
   as found returned the empty struct (defect S1, found by the independent review, repo fix 0fb41d1);
   see C18_canon_subword_refuted and C18_canonicalize2_aligned at the end.  For the repaired code on
   such structs there is no general theorem, only the three computed instances and the run.
   What the model theorems do NOT say: when an error is returned instead of bytes; that the library
   READER reads the output back as an equal value (value preservation is stated with the
   specification's strict decoder cdecode; the read-back value of the 'idempotence' corollary is a
   hypothesis). *)
From CV Require Import Value.ValueEq Value.CanonSpec Value.CanonProofs Value.CanonProofs2 Value.CanonProofs3
                       Value.EqualM Value.CanonM Value.EqualProofs Value.CanonMProofs Value.CanonMStruct Value.CanonMWords Value.CanonMData Value.CanonMHeap Value.CanonMLoop Value.CanonMInd Value.CanonMTop Value.CanonMListC Value.CanonMBlocks Value.Den.
From CV Require Import Core.ReaderFacts Core.SafetyProofs Core.ArithFacts.
Open Scope Z_scope.

(* layout / version independence: values equal at the schema level (trailing default fields,
   struct-list element sizes) have the same canonical bytes *)
Theorem C18_canon_unique : forall a b, nocap a = true -> value_eqs a b = true -> canon a = canon b.
Proof. exact canon_unique. Qed.
Print Assumptions C18_canon_unique.

(* value preservation: the canonical representative is equal to the value ... *)
Theorem C18_norm_veq : forall v, wfv v = true -> value_eqs (norm v) v = true.
Proof. exact norm_veq. Qed.
Print Assumptions C18_norm_veq.

(* ... canonicalising it again changes nothing ... *)
Theorem C18_canon_norm : forall v, wfv v = true -> nocap (norm v) = true -> canon (norm v) = canon v.
Proof. exact canon_norm. Qed.
Print Assumptions C18_canon_norm.

(* ... the strict pre-order decoder inverts the layout for every normal-form value (null,
   structs, all list kinds), at any position and before any continuation ... *)
Theorem C18_cparse_enc : forall f v pos cur w body rest,
  skel v = true -> enc f v pos cur = COk (w, body) ->
  cparse f w pos cur (body ++ rest) = Some (v, rest).
Proof. exact cparse_enc_partial. Qed.
Print Assumptions C18_cparse_enc.

(* ... hence, for EVERY well-formed capability-free value with in-range fields ([good]), the
   canonical BYTES decode (strict pre-order decoder: contiguous, pre-order, zero padding) to
   exactly the canonical representative ... *)
Theorem C18_cdecode_canon : forall v bs, good v -> canon v = Some bs ->
  cdecode (S (vdepth (norm v))) bs = Some (norm v).
Proof. exact cdecode_canon. Qed.
Print Assumptions C18_cdecode_canon.

(* ... which is equal to the value (value preservation) ... *)
Theorem C18_canon_decodes_equal : forall v bs, good v -> canon v = Some bs ->
  exists v', cdecode (S (vdepth (norm v))) bs = Some v' /\ value_eqs v' v = true /\ value_eq v' v = true.
Proof. exact canon_decodes_equal. Qed.
Print Assumptions C18_canon_decodes_equal.

(* ... and canonicalising what was read back returns the same bytes (idempotence) *)
Theorem C18_canon_idempotent : forall v bs v', good v -> canon v = Some bs ->
  cdecode (S (vdepth (norm v))) bs = Some v' -> canon v' = Some bs.
Proof. exact canon_idempotent. Qed.
Print Assumptions C18_canon_idempotent.

(* the output is a single word-aligned segment (at least the root pointer) *)
Theorem C18_canon_aligned : forall v bs, canon v = Some bs ->
  (length bs mod 8 = 0)%nat /\ (8 <= length bs)%nat.
Proof. exact canon_aligned. Qed.
Print Assumptions C18_canon_aligned.

(* capabilities are rejected *)
Theorem C18_canon_cap_none : forall v, has_cap (norm v) = true -> canon v = None.
Proof. exact canon_cap_none. Qed.
Print Assumptions C18_canon_cap_none.

(* ---- [T2] model level (canon_m_correct_statement, CanonMProofs.v: stated in full, proved in stages) ---- *)
(* the null struct *)
Theorem C18_canon_m_null_partial : forall fuel c fx m rl s,
  p_valid s = false ->
  canonicalize c fx fuel m rl s = (KOk (repeat 0 8%nat), rl) /\ canon VNull = Some (repeat 0 8%nat).
Proof. exact canon_m_null_partial. Qed.
Print Assumptions C18_canon_m_null_partial.

(* trailing-zero truncation: for EVERY struct of every message, canonicalStructSize is the
   size of the canonical representative of the denoted value (data words after strip0,
   pointers after stripN) *)
Theorem C18_canonicalStructSize_spec : forall m mid caps s v,
  msg_ok m -> wf_ptr m s -> p_valid s = true -> p_kind s = KStruct -> DataSize (p_size s) mod 8 = 0 ->
  den true m mid caps s v ->
  exists ws vs, v = VStruct ws vs /\
    canonicalStructSize true true m s = Ok (mkOS (8 * zlen (strip0 ws)) (zlen (stripN vs))).
Proof. exact canonicalStructSize_spec. Qed.
Print Assumptions C18_canonicalStructSize_spec.

(* end to end: every struct whose fields are all default canonicalises to the empty-struct
   message, which is the specification's canonical form of its value *)
Theorem C18_canon_m_default_struct_partial : forall c fx fuel m rl s v,
  cfg_strict c = true -> all_cfixed fx -> msg_ok m -> wf_ptr m s ->
  p_valid s = true -> p_kind s = KStruct -> DataSize (p_size s) mod 8 = 0 ->
  den true m 0 [] s v ->
  (exists ws vs, v = VStruct ws vs /\ all_zero ws = true /\ forallb is_null vs = true) ->
  canonicalize c fx (S fuel) m rl s = (KOk empty_struct_msg, rl) /\ canon v = Some empty_struct_msg.
Proof. exact canon_m_default_struct_partial. Qed.
Print Assumptions C18_canon_m_default_struct_partial.

(* stage (a): every struct all of whose pointers read null (arbitrary data, any size up to
   65535 words): Canonicalize returns root pointer + data truncated of trailing zero words =
   the specification's canonical form of the denoted value *)
Theorem C18_canon_m_data_struct : forall c fx fuel m rl s v,
  cfg_strict c = true -> all_cfixed fx -> msg_ok m -> wf_ptr m s ->
  p_valid s = true -> p_kind s = KStruct -> DataSize (p_size s) mod 8 = 0 ->
  den true m 0 [] s v ->
  (exists ws vs, v = VStruct ws vs /\ forallb is_null vs = true) ->
  exists bs, canonicalize c fx (S fuel) m rl s = (KOk bs, rl) /\ canon v = Some bs.
Proof. exact canon_m_data_struct. Qed.
Print Assumptions C18_canon_m_data_struct.

(* ---- the heap-level induction (allocation order = pre-order layout) ---- *)
(* every allocation on Canonicalize's single segment appends zero bytes at its end *)
Theorem C18_alloc_seg0 : forall data cap sz m' sid' addr, zlen data mod 8 = 0 -> 0 <= sz ->
  alloc (seg0 data cap) 0 sz = Ok (m', sid', addr) ->
  exists cap', m' = seg0 (data ++ repeat 0 (Z.to_nat (padToWord sz))) cap' /\ sid' = 0 /\ addr = zlen data.
Proof. exact alloc_seg0. Qed.
Print Assumptions C18_alloc_seg0.

(* SetPtr / PointerList.Set of a pointer to an object of the same segment changes exactly one
   word, and writes the specification's pointer word (every pointer kind) *)
Theorem C18_write_ptr_seg0 : forall f data cap src rl a cp,
  zlen data <= 4294967288 -> 0 <= a -> a mod 8 = 0 -> a + 8 <= zlen data -> cp_shape cp (zlen data) ->
  write_ptr (S f) true (dstw data cap src rl) 0 a InDst cp false
  = Ok (dstw (put_word data a (ptr_word cp a)) cap src rl).
Proof. exact write_ptr_seg0. Qed.
Print Assumptions C18_write_ptr_seg0.

(* the inductive step for fillCanonicalStruct: if canonicalPtr (fuel f) appends the canonical
   bytes of each child at the end of the segment and returns its specification pointer word
   (Q_ptr), then fillCanonicalStruct (fuel f+1) writes the block -- data words, then the
   children's pointer words -- and appends the children in pointer order, exactly enc_cells
   (Q_fill); earlier bytes are untouched (set_slots) *)
Theorem C18_fill_step : forall c fx m, cfg_strict c = true -> msg_ok m ->
  forall f, Q_ptr c fx m f -> Q_fill c fx m (S f).
Proof. exact fill_step. Qed.
Print Assumptions C18_fill_step.

(* groundwork for the heap-level induction: the pointer words the builder model writes (near
   branch of place, tag of NewCompositeList) are the specification's pointer words *)
Theorem C18_placed_struct_word : forall off sz raw, os_wf sz ->
  rawStructPointer 0 sz = Some raw ->
  withOffset raw off = struct_word off (DataSize sz / 8) (PointerCount sz).
Proof. exact placed_struct_word. Qed.
Print Assumptions C18_placed_struct_word.

Theorem C18_placed_list_word : forall off lt n, 0 <= lt < 8 -> 0 <= n < 536870912 ->
  withOffset (rawListPointer 0 lt n) off = list_word off lt n.
Proof. exact placed_list_word. Qed.
Print Assumptions C18_placed_list_word.

(* [T2]: whenever Canonicalize (repaired, strict reader, well-formed source struct) returns bytes,
   they are the specification's canonical form of the value the struct denotes -- every value:
   structs, void / bit / primitive / pointer / struct lists, any depth and layout. *)
Theorem C18_canon_m_correct : forall fuel c fx m rl s v bs rl',
  all_cfixed fx -> cfg_strict c = true -> msg_ok m -> wf_ptr m s ->
  (p_valid s = true -> p_kind s = KStruct /\ DataSize (p_size s) mod 8 = 0) ->
  den true m 0 [] s v ->
  canonicalize c fx fuel m rl s = (KOk bs, rl') -> canon v = Some bs.
Proof. exact canon_m_correct. Qed.
Print Assumptions C18_canon_m_correct.

(* all outcomes: bytes = canonical form, never a panic; errors (limits, sizes, capabilities) and
   fuel exhaustion are not constrained *)
Theorem C18_canon_m_correct_full : forall fuel c fx m rl s v,
  all_cfixed fx -> cfg_strict c = true -> msg_ok m -> wf_ptr m s ->
  (p_valid s = true -> p_kind s = KStruct /\ DataSize (p_size s) mod 8 = 0) ->
  den true m 0 [] s v -> 0 <= rl ->
  forall r rl', canonicalize c fx fuel m rl s = (r, rl') ->
  match r with
  | KOk bs => canon v = Some bs
  | KErr => True
  | KPanic => False
  | KFuel => True
  end.
Proof. exact canon_m_correct_full. Qed.
Print Assumptions C18_canon_m_correct_full.

(* capabilities: no canonical form (C18_canon_cap_none) and Canonicalize never returns bytes:
   the error outcome (or fuel exhaustion, the excluded outcome) *)
Theorem C18_canon_m_cap_error : forall fuel c fx m rl s v,
  all_cfixed fx -> cfg_strict c = true -> msg_ok m -> wf_ptr m s ->
  (p_valid s = true -> p_kind s = KStruct /\ DataSize (p_size s) mod 8 = 0) ->
  den true m 0 [] s v -> 0 <= rl -> has_cap (norm v) = true ->
  forall r rl', canonicalize c fx fuel m rl s = (r, rl') -> r = KErr \/ r = KFuel.
Proof. exact canon_m_cap_error. Qed.
Print Assumptions C18_canon_m_cap_error.

Theorem C18_canon_m_bytes_nocap : forall fuel c fx m rl s v bs rl',
  all_cfixed fx -> cfg_strict c = true -> msg_ok m -> wf_ptr m s ->
  (p_valid s = true -> p_kind s = KStruct /\ DataSize (p_size s) mod 8 = 0) ->
  den true m 0 [] s v ->
  canonicalize c fx fuel m rl s = (KOk bs, rl') -> has_cap (norm v) = false.
Proof. exact canon_m_bytes_nocap. Qed.
Print Assumptions C18_canon_m_bytes_nocap.

(* the invariant behind it, for every fuel: canonicalPtr / fillCanonicalStruct / canonicalList
   append the canonical words of the object at the end of the single destination segment *)
Theorem C18_Q_all : forall c fx m, cfg_strict c = true -> all_cfixed fx -> msg_ok m ->
  forall f, Q_ptr c fx m f /\ Q_fill c fx m f /\ Q_list c fx m f.
Proof. exact Q_all. Qed.
Print Assumptions C18_Q_all.

(* non-vacuity: a concrete message (struct with a byte list, a pointer list, a bit list with dirty
   padding and a struct list) satisfies every hypothesis, Canonicalize returns bytes and they equal
   canon of the denoted value; and a struct holding a capability gives the error outcome *)
Theorem C18_canon_m_nonvacuous :
  all_cfixed repaired /\ cfg_strict cfg0 = true /\ p_valid root_ex = true /\ p_kind root_ex = KStruct /\
  DataSize (p_size root_ex) mod 8 = 0 /\
  exists v bs rl', den true msg_ex 0 [] root_ex v /\ v <> VNull /\
                   canonicalize cfg0 repaired 20 msg_ex 1000000 root_ex = (KOk bs, rl') /\ canon v = Some bs.
Proof. exact canon_m_nonvacuous. Qed.
Print Assumptions C18_canon_m_nonvacuous.

Theorem C18_canon_m_cap_nonvacuous :
  exists v, den true msg_cap 0 [] root_cap v /\ has_cap (norm v) = true /\
            fst (canonicalize cfg0 repaired 20 msg_cap 1000000 root_cap) = KErr.
Proof. exact canon_m_cap_nonvacuous. Qed.
Print Assumptions C18_canon_m_cap_nonvacuous.

(* the element size canonicalList computes for a struct list is the specification's -- the maxima of
   the elements' truncated section sizes *)
Theorem C18_elem_size_list : forall m, msg_ok m -> forall p vs,
  wf_ptr m p -> p_valid p = true -> p_kind p = KList -> p_bit p = false ->
  DataSize (p_size p) mod 8 = 0 -> zlen vs = p_len p ->
  (forall i, 0 <= i < p_len p -> den true m 0 [] (elem_ptr p i) (nthv vs i)) ->
  elem_size true true true m p (Z.to_nat (p_len p)) 0 (mkOS 0 0)
  = Ok (mkOS (8 * Z.of_nat (max_len sdata (map norm vs))) (Z.of_nat (max_len sptrs (map norm vs)))).
Proof. exact elem_size_list. Qed.
Print Assumptions C18_elem_size_list.

(* consequences for Canonicalize.  Exactly what they say:
   - layout_independent: two struct pointers denoting value_eqs values (first one capability-free):
     same bytes whenever both calls return bytes;
   - value_preserved: the returned bytes decode, with the SPECIFICATION's strict pre-order decoder
     cdecode (CanonSpec.v; not the library reader model), to a value value_eqs / value_eq to v;
     [good v] (well-formed, fields in range, no capability) is a hypothesis, not derived from den;
   - idempotent_given_readback: if a second message's struct denotes a value value_eqs to v (as the
     output read back would, which is NOT proved: no lemma links cdecode to den on the output bytes;
     the run checks it, flags R and I), canonicalising it gives the same bytes.  This is layout
     independence instantiated, not idempotence by itself. *)
Theorem C18_canon_m_layout_independent : forall fuel c fx m1 rl1 s1 v1 m2 rl2 s2 v2 bs1 bs2 r1 r2,
  all_cfixed fx -> cfg_strict c = true -> msg_ok m1 -> msg_ok m2 -> wf_ptr m1 s1 -> wf_ptr m2 s2 ->
  (p_valid s1 = true -> p_kind s1 = KStruct /\ DataSize (p_size s1) mod 8 = 0) ->
  (p_valid s2 = true -> p_kind s2 = KStruct /\ DataSize (p_size s2) mod 8 = 0) ->
  den true m1 0 [] s1 v1 -> den true m2 0 [] s2 v2 ->
  nocap v1 = true -> value_eqs v1 v2 = true ->
  canonicalize c fx fuel m1 rl1 s1 = (KOk bs1, r1) -> canonicalize c fx fuel m2 rl2 s2 = (KOk bs2, r2) ->
  bs1 = bs2.
Proof. exact canon_m_layout_independent. Qed.
Print Assumptions C18_canon_m_layout_independent.

Theorem C18_canon_m_value_preserved : forall fuel c fx m rl s v bs r,
  all_cfixed fx -> cfg_strict c = true -> msg_ok m -> wf_ptr m s ->
  (p_valid s = true -> p_kind s = KStruct /\ DataSize (p_size s) mod 8 = 0) ->
  den true m 0 [] s v -> good v ->
  canonicalize c fx fuel m rl s = (KOk bs, r) ->
  exists v', cdecode (S (vdepth (norm v))) bs = Some v' /\ value_eqs v' v = true /\ value_eq v' v = true.
Proof. exact canon_m_value_preserved. Qed.
Print Assumptions C18_canon_m_value_preserved.

Theorem C18_canon_m_idempotent_given_readback : forall fuel c fx m rl s v bs r m' rl' s' v' bs' r',
  all_cfixed fx -> cfg_strict c = true -> msg_ok m -> msg_ok m' -> wf_ptr m s -> wf_ptr m' s' ->
  (p_valid s = true -> p_kind s = KStruct /\ DataSize (p_size s) mod 8 = 0) ->
  (p_valid s' = true -> p_kind s' = KStruct /\ DataSize (p_size s') mod 8 = 0) ->
  den true m 0 [] s v -> nocap v = true ->
  canonicalize c fx fuel m rl s = (KOk bs, r) ->
  den true m' 0 [] s' v' -> value_eqs v v' = true ->
  canonicalize c fx fuel m' rl' s' = (KOk bs', r') ->
  bs' = bs.
Proof. exact canon_m_idempotent_given_readback. Qed.
Print Assumptions C18_canon_m_idempotent_given_readback.

(* F04, the code as found: panic on a data-only struct list at the end of a cap == len
   segment, wrong bytes otherwise; the repaired model returns the specification's bytes *)
Theorem C18_canon_prefix_refuted :
  run_canon 30 cfg0 asfound (msg_complist []) SelRoot = KPanic
  /\ (exists bs, run_canon 30 cfg0 asfound (msg_complist [99]) SelRoot = KOk bs
                 /\ spec_bytes (msg_complist [99]) <> Some (Some bs))
  /\ (exists bs, run_canon 30 cfg0 repaired (msg_complist []) SelRoot = KOk bs
                 /\ spec_bytes (msg_complist []) = Some (Some bs)
                 /\ run_canon 30 cfg0 repaired (msg_complist [99]) SelRoot = KOk bs).
Proof. exact canon_prefix_refuted. Qed.
Print Assumptions C18_canon_prefix_refuted.

(* O2, the code as found: padding bits of a bit list leak into the canonical form *)
Theorem C18_canon_bitpad_prefix_refuted :
  (exists bs, run_canon 30 cfg0 (mkCFix true false true rdfix) (msg_bits 253) SelRoot = KOk bs
              /\ spec_bytes (msg_bits 253) <> Some (Some bs))
  /\ (exists bs, run_canon 30 cfg0 repaired (msg_bits 253) SelRoot = KOk bs
                 /\ spec_bytes (msg_bits 253) = Some (Some bs)
                 /\ run_canon 30 cfg0 repaired (msg_bits 5) SelRoot = KOk bs).
Proof. exact canon_bitpad_prefix_refuted. Qed.
Print Assumptions C18_canon_bitpad_prefix_refuted.

(* S1: sub-word data sections (List.Struct(i) of a 1/2/4-byte list as the struct to canonicalise).
   canonicalize2 b = Canonicalize with the repair switch b (true = repo commit 0fb41d1);
   canonicalize = the code as found.  On the premise of the theorems above they coincide: *)
Theorem C18_canonicalize2_aligned : forall c fx b fuel m rl s,
  (p_valid s = true -> DataSize (p_size s) mod 8 = 0) ->
  canonicalize2 c fx b fuel m rl s = canonicalize c fx fuel m rl s.
Proof. exact canonicalize2_aligned. Qed.
Print Assumptions C18_canonicalize2_aligned.

Theorem C18_canon_m_correct2 : forall fuel c fx m rl s v bs rl',
  all_cfixed fx -> cfg_strict c = true -> msg_ok m -> wf_ptr m s ->
  (p_valid s = true -> p_kind s = KStruct /\ DataSize (p_size s) mod 8 = 0) ->
  den true m 0 [] s v ->
  canonicalize2 c fx true fuel m rl s = (KOk bs, rl') -> canon v = Some bs.
Proof. exact canon_m_correct2. Qed.
Print Assumptions C18_canon_m_correct2.

(* outside the premise, three computed instances (element of a byte list, of a 2-byte list, of a
   4-byte list): every other hypothesis of C18_canon_m_correct holds; as found the empty struct
   comes out, which is not the canonical form of the denoted value (the unrestricted statement is
   REFUTED for the code as found); repaired, the bytes are canon of the denoted value *)
Theorem C18_canon_subword_refuted :
  forall i j, (i, j) = (0, 1) \/ (i, j) = (1, 0) \/ (i, j) = (2, 0) ->
  let e := member_sub i j in
  wf_ptr msg_sub e /\ p_valid e = true /\ p_kind e = KStruct /\ DataSize (p_size e) mod 8 <> 0 /\
  exists v bs, den true msg_sub 0 [] e v /\ canon v = Some bs /\
    fst (canonicalize2 cfg0 repaired false 20 msg_sub 1000000 e) = KOk [252; 255; 255; 255; 0; 0; 0; 0] /\
    bs <> [252; 255; 255; 255; 0; 0; 0; 0] /\
    fst (canonicalize2 cfg0 repaired true 20 msg_sub 1000000 e) = KOk bs.
Proof. exact canon_subword_refuted. Qed.
Print Assumptions C18_canon_subword_refuted.
