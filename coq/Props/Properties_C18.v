(* C18 — canonical form is valid, value-preserving and layout-independent.
   Statements only; each is closed by [exact] of a lemma proved elsewhere.
   [T1] (specification level): all proved, for all values.
   NOTE: the relation of C18_canon_unique is value_eqs (no list upgrade), not Equal's value_eq:
   a primitive list and the equivalent struct list are value_eq but have different canonical forms.
   [T2] (canon_m_correct_statement: the Go-faithful model computes canon o denote) is stated,
   proved for the null struct only, and otherwise covered by the correspondence run. *)
From CV Require Import Value.ValueEq Value.CanonSpec Value.CanonProofs Value.CanonProofs2 Value.CanonProofs3
                       Value.EqualM Value.CanonM Value.EqualProofs Value.CanonMProofs.
Open Scope Z_scope.

(* layout / version independence: values equal at the schema level (trailing default fields,
   struct-list element sizes) have the same canonical bytes *)
Theorem C18_canon_unique : forall a b, nocap a = true -> value_eqs a b = true -> canon a = canon b.
Proof. exact canon_unique. Qed.
Print Assumptions C18_canon_unique.

(* value preservation: the canonical representative is equal to the value ... *)
Theorem C18_norm_veq : forall v, wfv v = true -> value_eqs (norm v) v = true.
Proof. exact norm_veq. Qed.
Print Assumptions C18_norm_veq.

(* ... canonicalising it again changes nothing ... *)
Theorem C18_canon_norm : forall v, wfv v = true -> nocap (norm v) = true -> canon (norm v) = canon v.
Proof. exact canon_norm. Qed.
Print Assumptions C18_canon_norm.

(* ... the strict pre-order decoder inverts the layout for every normal-form value (null,
   structs, all list kinds), at any position and before any continuation ... *)
Theorem C18_cparse_enc : forall f v pos cur w body rest,
  skel v = true -> enc f v pos cur = COk (w, body) ->
  cparse f w pos cur (body ++ rest) = Some (v, rest).
Proof. exact cparse_enc_partial. Qed.
Print Assumptions C18_cparse_enc.

(* ... hence, for EVERY well-formed capability-free value with in-range fields ([good]), the
   canonical BYTES decode (strict pre-order decoder: contiguous, pre-order, zero padding) to
   exactly the canonical representative ... *)
Theorem C18_cdecode_canon : forall v bs, good v -> canon v = Some bs ->
  cdecode (S (vdepth (norm v))) bs = Some (norm v).
Proof. exact cdecode_canon. Qed.
Print Assumptions C18_cdecode_canon.

(* ... which is equal to the value (value preservation) ... *)
Theorem C18_canon_decodes_equal : forall v bs, good v -> canon v = Some bs ->
  exists v', cdecode (S (vdepth (norm v))) bs = Some v' /\ value_eqs v' v = true /\ value_eq v' v = true.
Proof. exact canon_decodes_equal. Qed.
Print Assumptions C18_canon_decodes_equal.

(* ... and canonicalising what was read back returns the same bytes (idempotence) *)
Theorem C18_canon_idempotent : forall v bs v', good v -> canon v = Some bs ->
  cdecode (S (vdepth (norm v))) bs = Some v' -> canon v' = Some bs.
Proof. exact canon_idempotent. Qed.
Print Assumptions C18_canon_idempotent.

(* the output is a single word-aligned segment (at least the root pointer) *)
Theorem C18_canon_aligned : forall v bs, canon v = Some bs ->
  (length bs mod 8 = 0)%nat /\ (8 <= length bs)%nat.
Proof. exact canon_aligned. Qed.
Print Assumptions C18_canon_aligned.

(* capabilities are rejected *)
Theorem C18_canon_cap_none : forall v, has_cap (norm v) = true -> canon v = None.
Proof. exact canon_cap_none. Qed.
Print Assumptions C18_canon_cap_none.

(* model level: the null struct *)
Theorem C18_canon_m_null_partial : forall fuel c fx m rl s,
  p_valid s = false ->
  canonicalize c fx fuel m rl s = (KOk (repeat 0 8%nat), rl) /\ canon VNull = Some (repeat 0 8%nat).
Proof. exact canon_m_null_partial. Qed.
Print Assumptions C18_canon_m_null_partial.

(* F04, the code as found: panic on a data-only struct list at the end of a cap == len
   segment, wrong bytes otherwise; the repaired model returns the specification's bytes *)
Theorem C18_canon_prefix_refuted :
  run_canon 30 cfg0 asfound (msg_complist []) SelRoot = KPanic
  /\ (exists bs, run_canon 30 cfg0 asfound (msg_complist [99]) SelRoot = KOk bs
                 /\ spec_bytes (msg_complist [99]) <> Some (Some bs))
  /\ (exists bs, run_canon 30 cfg0 repaired (msg_complist []) SelRoot = KOk bs
                 /\ spec_bytes (msg_complist []) = Some (Some bs)
                 /\ run_canon 30 cfg0 repaired (msg_complist [99]) SelRoot = KOk bs).
Proof. exact canon_prefix_refuted. Qed.
Print Assumptions C18_canon_prefix_refuted.

(* O2, the code as found: padding bits of a bit list leak into the canonical form *)
Theorem C18_canon_bitpad_prefix_refuted :
  (exists bs, run_canon 30 cfg0 (mkCFix true false true rdfix) (msg_bits 253) SelRoot = KOk bs
              /\ spec_bytes (msg_bits 253) <> Some (Some bs))
  /\ (exists bs, run_canon 30 cfg0 repaired (msg_bits 253) SelRoot = KOk bs
                 /\ spec_bytes (msg_bits 253) = Some (Some bs)
                 /\ run_canon 30 cfg0 repaired (msg_bits 5) SelRoot = KOk bs).
Proof. exact canon_bitpad_prefix_refuted. Qed.
Print Assumptions C18_canon_bitpad_prefix_refuted.
