(* C09, byte-level write path (ctxWriteCloser.write / Write, Encoder.Encode, streamCodec.Encode,
   send closure) over a stream oracle and a context oracle: statements only, proofs in
   Transport/CtxWriteProofs.v. *)
From Coq Require Import List ZArith Bool Arith.
From CV Require Import Transport.Transport Transport.CtxWrite Transport.CtxWriteProofs.
Import ListNotations.

(* ctxWriteCloser.write: the count reported is the number of bytes the stream accepted during
   the call (first Write + grace-period Write), and they are the first n bytes of b *)
Theorem C09_ctxwrite_count_is_accepted : forall g orc cf st cs b st' cs' n r,
  cw_write WCode g orc cf st cs b = (st', cs', n, r) ->
  w_wire st' = w_wire st ++ firstn n b /\ n <= length b /\ w_broken st' = w_broken st /\
  (r = ROk -> n = length b) /\
  (exists l, w_log st' = l ++ w_log st) /\
  (c_done cs = true -> st' = st /\ n = 0).
Proof. exact cw_write_count. Qed.
Print Assumptions C09_ctxwrite_count_is_accepted.

(* streamCodec.Encode: `written` is the number of bytes of the frame the stream accepted *)
Theorem C09_encode_written_is_accepted : forall g orc cf bufs st cs w st' w' e,
  cw_encode WCode g orc cf bufs st cs w = (st', w', e) ->
  exists p, w_wire st' = w_wire st ++ p /\ is_prefix p (concat bufs) /\ w' = w + length p /\
            w_broken st' = w_broken st /\ (e = ENone -> p = concat bufs) /\
            (exists l, w_log st' = l ++ w_log st).
Proof. exact cw_encode_count. Qed.
Print Assumptions C09_encode_written_is_accepted.

(* torn frame <-> sticky error (see the comment at cw_send_spec for the one-sided corner) *)
Theorem C09_torn_iff_sticky_error : forall g orc o st st' r,
  w_broken st = false -> cw_send WCode g orc o st = (st', r) ->
  exists p, w_wire st' = w_wire st ++ p /\ is_prefix p (frame_bytes (wop_frame o)) /\
    (r = SOk \/ r = SErr) /\
    (r = SOk -> p = frame_bytes (wop_frame o) /\ w_broken st' = false) /\
    (w_broken st' = true <-> (r = SErr /\ 0 < length p)) /\
    (torn p (wop_frame o) -> w_broken st' = true) /\
    (w_broken st' = true -> torn p (wop_frame o) \/ (p = frame_bytes (wop_frame o) /\ r = SErr)).
Proof. exact cw_send_spec. Qed.
Print Assumptions C09_torn_iff_sticky_error.

Theorem C09_torn_write_stops_stream_bytes : forall g orc ops st rs,
  cw_run WCode g orc ops = (st, rs) ->
  w_well_framed (map wop_frame ops) st /\
  (w_broken st = true ->
     forall more, cw_run_from WCode g orc st more = (st, map (fun _ => SNmErr) more)).
Proof. exact torn_write_stops_stream_bytes. Qed.
Print Assumptions C09_torn_write_stops_stream_bytes.

Theorem C09_after_torn_frame_nothing_handed : forall g orc ops1 o ops2 st1 rs1 st2 r,
  cw_run WCode g orc ops1 = (st1, rs1) -> w_broken st1 = false ->
  cw_send WCode g orc o st1 = (st2, r) ->
  (exists p, w_wire st2 = w_wire st1 ++ p /\ torn p (wop_frame o)) ->
  cw_run WCode g orc (ops1 ++ o :: ops2) = (st2, rs1 ++ SErr :: map (fun _ => SNmErr) ops2) /\
  w_broken st2 = true.
Proof. exact after_torn_frame_nothing_handed. Qed.
Print Assumptions C09_after_torn_frame_nothing_handed.
