(* C02 for the consumer text.Marshal composed with the reader model (Text/TextRead.v).
   Statements only; proofs in Text/TextReadProofs.v.
   PARTIAL: (1) termination is proved PROVIDED the walks of the schema's own default values
   (rd / rdl: TextM.shown_struct / shown_list over the trusted schema message) do not run out of
   fuel (dflt_total); (2) the bound 'successful dereferences <= T/8 + 1' is NOT proved (it needs
   a schema predicate 'no two active pointer fields share a pointer slot'); what is proved is
   the byte bound: bytes handed out + budget left <= budget at the start (<= T). *)
From CV Require Import Core.SafetyProofs Core.LimitProofs Text.TextRead Text.TextReadProofs Text.TextReadExamples.
Open Scope Z_scope.

(* stack / recursion depth: fuel_for G D = (G+3)*D + G + 1 levels suffice on EVERY message
   (cyclic ones included) for a receiver whose depth limit is <= D: every recursion through a
   pointer lowers the depth limit, between two dereferences there are at most G group levels *)
Theorem C02_text_render_no_fuel_partial : forall ffmt sc c fx m rd rdl G D fuel id p rl,
  std_hyps sc c fx m G p rl ->
  dflt_total rd rdl -> 0 <= D -> (p_valid p = true -> p_depth p <= D) -> (fuel_for G D <= fuel)%nat ->
  fst (render_r ffmt sc c fx m rd rdl fuel id p rl) <> RFuel.
Proof. exact render_r_no_fuel_partial. Qed.
Print Assumptions C02_text_render_no_fuel_partial.

(* time: the bytes handed out by all dereferences of one Marshal + the budget left <= the
   budget it started with (<= T); the budget never goes negative *)
Theorem C02_text_render_budget_partial : forall ffmt sc c fx m rd rdl G fuel id p rl,
  std_hyps sc c fx m G p rl ->
  let s := snd (render_r ffmt sc c fx m rd rdl fuel id p rl) in
  Forall (wf_ptr m) (r_log s) /\ 0 <= r_rl s /\ 0 <= r_h s /\ 0 <= r_d s /\ r_rl s + r_h s <= rl.
Proof. exact render_r_reads_wf_budget. Qed.
Print Assumptions C02_text_render_budget_partial.

(* a cyclic message: error (depth limit) after 3 dereferences, not RFuel, not RPanic *)
Theorem C02_text_cyclic_example :
  p_valid cyc_root = true /\
  fst (render_go ex_ffmt cyc_schema cyc_cfg ex_fix cyc_msg 8 (fuel_for 1 6) 3 cyc_root 1000) = RErr /\
  r_d (snd (render_go ex_ffmt cyc_schema cyc_cfg ex_fix cyc_msg 8 (fuel_for 1 6) 3 cyc_root 1000)) = 3.
Proof. exact render_cyclic. Qed.
Print Assumptions C02_text_cyclic_example.

(* the excluded outcome is reachable with too little fuel *)
Theorem C02_text_low_fuel_example :
  fst (render_go ex_ffmt cyc_schema cyc_cfg ex_fix cyc_msg 8 3 3 cyc_root 1000) = RFuel.
Proof. exact render_cyclic_low_fuel. Qed.
Print Assumptions C02_text_low_fuel_example.
