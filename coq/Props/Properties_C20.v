(* C20 — text rendering is well formed, faithful and independent of encoder history.
   Statements only; each is closed by [exact] of a lemma proved elsewhere. *)
From CV Require Import Text.Strquote Text.TextSpec Text.StrquoteProofs.
Open Scope Z_scope.

(* every byte string: the literal produced by strquote.Append is read back, by the independent
   literal reader, as exactly that byte string (and the reader stops at the closing quote) *)
Theorem C20_unquote_quote : forall s, bytes_ok s -> parse_literal (quote s) = Some (s, []).
Proof. exact unquote_quote. Qed.
Print Assumptions C20_unquote_quote.

(* the literal is printable ASCII *)
Theorem C20_quote_printable : forall s, bytes_ok s -> Forall printable (quote s).
Proof. exact quote_printable. Qed.
Print Assumptions C20_quote_printable.

(* between the delimiting quotes every DQUOTE and backslash is part of an escape sequence *)
Theorem C20_quote_wellformed : forall s, bytes_ok s ->
  exists body, quote s = 34 :: body ++ [34] /\ wf_body body.
Proof. exact quote_wellformed. Qed.
Print Assumptions C20_quote_wellformed.

(* different strings have different literals *)
Theorem C20_quote_injective : forall s1 s2, bytes_ok s1 -> bytes_ok s2 -> quote s1 = quote s2 -> s1 = s2.
Proof. exact quote_injective. Qed.
Print Assumptions C20_quote_injective.
