(* C20 — text rendering is well formed, faithful and independent of encoder history.
   Statements only; each is closed by [exact] of a lemma proved elsewhere.
   Scope of the statements (see docs/C20.md): floats are opaque tokens (parse_render is for
   float-free schemas); every theorem about rendered text is conditional on [render = Ok]
   (totality of the walk is proved for flat structs only, C20_render_total_flat_partial);
   one cached schema message per encoder (all types of one schema file);
   "the same field values as the generated accessors" is C20_slot_value_eq_accessor /
   C20_shown_struct_via_accessors over the accessor specification [accessor] of TextM.v, which is
   written from the capnpc-go templates and pointer.go but is NOT linked by a theorem to the
   accessor models of C15 (Layout.gen_getter) / C19 (PogsM.gen_getter): that link is by the
   differential runs (generated accessors of aircraftlib vs the text, wrong-kind pointers included). *)
From CV Require Import Text.Strquote Text.TextSpec Text.StrquoteProofs Text.TextM Text.TextProofs.
Open Scope Z_scope.

(* ---- string / data literals (strquote.Append) *)

(* the loop of Append with its indices is the byte-wise escape map *)
Theorem C20_append_is_bytewise : forall fixed buf s, append fixed buf s = buf ++ quote_gen fixed s.
Proof. exact append_eq_quote_gen. Qed.
Print Assumptions C20_append_is_bytewise.

(* every byte string: the literal is read back, by the independent literal reader, as exactly
   that byte string, and the reader stops at the closing quote *)
Theorem C20_unquote_quote : forall s, bytes_ok s -> parse_literal (quote s) = Some (s, []).
Proof. exact unquote_quote. Qed.
Print Assumptions C20_unquote_quote.

(* the literal is printable ASCII *)
Theorem C20_quote_printable : forall s, bytes_ok s -> Forall printable (quote s).
Proof. exact quote_printable. Qed.
Print Assumptions C20_quote_printable.

(* between the delimiting quotes every DQUOTE and backslash is part of an escape sequence *)
Theorem C20_quote_wellformed : forall s, bytes_ok s ->
  exists body, quote s = 34 :: body ++ [34] /\ wf_body body.
Proof. exact quote_wellformed. Qed.
Print Assumptions C20_quote_wellformed.

(* different strings have different literals *)
Theorem C20_quote_injective : forall s1 s2, bytes_ok s1 -> bytes_ok s2 -> quote s1 = quote s2 -> s1 = s2.
Proof. exact quote_injective. Qed.
Print Assumptions C20_quote_injective.

(* ---- whole values *)

(* the reader inverts the printer on the float-free fragment *)
Theorem C20_parse_print : forall t, wf_tval t -> parse_text (print t) = Some t.
Proof. exact parse_print. Qed.
Print Assumptions C20_parse_print.

(* all float-free schemas with identifier names, all stored values, every configuration, on a
   FRESH encoder ([render]/[shown] start from the empty cache; used encoders: the next theorem):
   what Encode writes is read back as exactly the field values the walk shows *)
Theorem C20_parse_render : forall ffmt c sc fuel id v out,
  schema_ok sc -> rval_ok v ->
  render ffmt c sc fuel id v = Ok out ->
  exists t, shown ffmt c sc fuel id v = Ok t /\ out = print t /\ wf_tval t /\ parse_text out = Some t.
Proof. exact parse_render. Qed.
Print Assumptions C20_parse_render.

(* the same on a used encoder: any cache state, i.e. after any history *)
Theorem C20_parse_encode_any_state : forall ffmt c sc fuel id v st out,
  c_fixed c = true -> s_load sc <= c_limit0 c -> schema_ok sc -> rval_ok v ->
  fst (encode ffmt c sc fuel id v st) = Ok out ->
  exists t, shown ffmt c sc fuel id v = Ok t /\ out = print t /\ wf_tval t /\ parse_text out = Some t.
Proof. exact parse_encode_any_state. Qed.
Print Assumptions C20_parse_encode_any_state.

Theorem C20_render_faithful : forall ffmt c sc fuel id1 v1 id2 v2 out,
  schema_ok sc -> rval_ok v1 -> rval_ok v2 ->
  render ffmt c sc fuel id1 v1 = Ok out -> render ffmt c sc fuel id2 v2 = Ok out ->
  shown ffmt c sc fuel id1 v1 = shown ffmt c sc fuel id2 v2.
Proof. exact render_faithful. Qed.
Print Assumptions C20_render_faithful.

(* ---- history *)

(* after any history of Encode calls (any values, successful or not) on one encoder, Encode
   writes what a fresh encoder writes; floats included (any formatting oracle) *)
Theorem C20_encode_history_independent : forall ffmt c sc fuel hist id v,
  c_fixed c = true -> s_load sc <= c_limit0 c ->
  fst (encode ffmt c sc fuel id v (run_history ffmt c sc fuel hist None))
  = fst (encode ffmt c sc fuel id v None).
Proof. exact encode_history_independent. Qed.
Print Assumptions C20_encode_history_independent.

Theorem C20_encode_nth_eq_first : forall ffmt c sc fuel id v n,
  c_fixed c = true -> s_load sc <= c_limit0 c ->
  fst (encode ffmt c sc fuel id v (encode_again ffmt c sc fuel id v n None))
  = fst (encode ffmt c sc fuel id v None).
Proof. exact encode_nth_eq_first. Qed.
Print Assumptions C20_encode_nth_eq_first.

(* ---- C01/C02 for the renderer (not part of C20's statement): the walk returns for every stored
   value.  Proved for structs without struct / list / group fields; the general fuel bound is
   not proved (see TextProofs.v), its failure before the fix is render_total_refuted. *)
Theorem C20_render_total_flat_partial : forall ffmt c sc fuel exp id d ps,
  flat_schema sc -> no_oof (shown_struct ffmt c sc (S fuel) exp id d ps).
Proof. exact render_total_flat_partial. Qed.
Print Assumptions C20_render_total_flat_partial.

(* ---- histories with UseRegistry: after any sequence of Encode and UseRegistry calls, Encode
   writes what a fresh encoder pointed at the current registry writes *)
Theorem C20_encode_history_independent_reg : forall ffmt c fuel reg0 ops id v,
  c_fixed c = true -> s_load reg0 <= c_limit0 c -> Forall (op_loadable c) ops ->
  let st := run_ops ffmt c true fuel ops (enc_init reg0) in
  fst (encode_e ffmt c fuel id v st) = fst (encode ffmt c (es_reg st) fuel id v None).
Proof. exact encode_history_independent_reg. Qed.
Print Assumptions C20_encode_history_independent_reg.

(* EncodeList after any history of Encode, EncodeList (of any element types) and UseRegistry calls *)
Theorem C20_encode_list_history_independent : forall ffmt c fuel reg0 ops id l,
  c_fixed c = true -> s_load reg0 <= c_limit0 c -> Forall (op_loadable c) ops ->
  let st := run_ops ffmt c true fuel ops (enc_init reg0) in
  fst (encode_list_e ffmt c fuel id l st) = fst (encode_list ffmt c (es_reg st) fuel id l None).
Proof. exact encode_list_history_independent. Qed.
Print Assumptions C20_encode_list_history_independent.

(* ---- "shows the same field values as the generated accessors": a slot is rendered as the
   value its generated accessor returns (Ptr.TextBytesDefault / DataDefault / StructDefault /
   ListDefault semantics: the default also for a non-null pointer of the wrong kind), for all
   data sections, pointer sections (wrong-kind pointers included), offsets, types and defaults;
   and marshalStruct is the code-order walk reading every slot through its accessor. *)
Theorem C20_slot_value_eq_accessor : forall ffmt c sc rs rl exp data ptrs off t dflt dptr dpcost st,
  c_acc c = true ->
  slot_value ffmt c sc rs rl exp data ptrs off t dflt dptr dpcost st
  = show_aval ffmt c sc rs rl exp dpcost (accessor data ptrs off t dflt dptr) st.
Proof. exact slot_value_eq_accessor. Qed.
Print Assumptions C20_slot_value_eq_accessor.

Theorem C20_shown_struct_via_accessors : forall ffmt c sc f exp id data ptrs st,
  c_acc c = true ->
  shown_struct ffmt c sc (S f) exp id data ptrs st =
  (find c sc ;;
   match lookup (s_nodes sc) id with
   | None => fail ENotFound
   | Some (NStruct dcount doff fcost fields) =>
     let disc := if 0 <? dcount then get_le data (doff * 2) 2 else 0 in
     charge fcost ;;
     fs <- collect_fields (field_step_acc ffmt c sc f exp disc data ptrs) fields ;;
     ret (TvStruct fs)
   | Some _ => fail ENotStruct
   end) st.
Proof. exact shown_struct_via_accessors. Qed.
Print Assumptions C20_shown_struct_via_accessors.
