(* C01 for the consumer pogs.Extract ("extraction into Go structs"), composed with the reader
   model on arbitrary segment bytes.  Statements only. *)
From CV Require Import Core.SafetyProofs Pogs.PogsRead Pogs.PogsReadProofs Pogs.PogsReadExamples.
From CV Require Pogs.PogsM.
Open Scope Z_scope.

(* pogs.Extract from any well-formed struct pointer of any message: never a Go panic, for every
   mapped schema accepted by rschema_ok, every budget state, every fuel *)
Theorem C01_pogs_extract_never_panics : forall c fx m sch g fuel id sp s,
  msg_ok m -> cfg_strict c = true -> fx_bit fx = true -> rschema_ok g sch = true -> wf_struct m sp ->
  fst (extract_r fuel c fx m sch id sp s) <> XPanic.
Proof. exact extract_r_never_panics. Qed.
Print Assumptions C01_pogs_extract_never_panics.

(* from the raw bytes: msg.Root() then pogs.Extract(&v, id, root.Struct()) *)
Theorem C01_pogs_extract_msg_never_panics : forall c fx m sch g fuel id,
  msg_ok m -> cfg_strict c = true -> cfg_root c = true -> fx_bit fx = true -> rschema_ok g sch = true ->
  fst (extract_msg fuel c fx m sch id) <> TRootPanic /\ fst (extract_msg fuel c fx m sch id) <> TRes XPanic.
Proof. exact extract_msg_never_panics. Qed.
Print Assumptions C01_pogs_extract_msg_never_panics.

(* the invariant behind it: every struct extractStruct is entered with is a well-formed pointer of
   the message (so every accessor call is covered by C01_accessor_safe) *)
Theorem C01_pogs_extract_receivers_wf : forall c fx m sch g,
  msg_ok m -> cfg_strict c = true -> fx_bit fx = true -> rschema_ok g sch = true ->
  forall fuel id sp, wf_struct m sp -> safeM (extract_r fuel c fx m sch id sp) top_.
Proof. exact extract_r_safe. Qed.
Print Assumptions C01_pogs_extract_receivers_wf.

Theorem C01_pogs_hypotheses_satisfiable :
  msg_ok LimitProofs.cyc_msg /\ cfg_strict ex_cfg = true /\ cfg_root ex_cfg = true /\ fx_bit ex_fx = true /\
  fx_depth ex_fx = true /\ rschema_ok 1 ex_sch = true /\ 1 <= depth_limit ex_cfg /\
  (depth_limit ex_cfg + 1) * Z.of_nat 1 <= Z.of_nat 5.
Proof. exact pogsread_hypotheses_satisfiable. Qed.
Print Assumptions C01_pogs_hypotheses_satisfiable.
