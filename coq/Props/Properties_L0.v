(* L0 translator tie: the statements of Gen/GoArithAgree.v (generated Go arithmetic = Core/Arith.v)
   and of Core/ArithFacts.v (field specification and constructor round trips), restated.
   Only Theorem .. Proof. exact lemma. Qed. and one assumption printout at the end. *)
From Coq Require Import ZArith Bool.
From CV Require Import Base.GoSem Core.Arith Core.ArithMore Core.ArithFacts Gen.GoArith Gen.GoArithAgree.
Open Scope Z_scope.

Theorem L0_go_addSize_agrees : forall a sz, in_u32 a -> in_u32 sz ->
  go_addSize a sz = ok_pair 4294967295 (addSize a sz).
Proof. exact go_addSize_agrees. Qed.

Theorem L0_go_addSizeUnchecked_agrees : forall a sz, go_addSizeUnchecked a sz = addSizeUnchecked a sz.
Proof. exact go_addSizeUnchecked_agrees. Qed.

Theorem L0_go_element_agrees : forall a i sz, in_u32 a -> in_s32 i -> in_u32 sz ->
  go_element a i sz = ok_pair 4294967295 (element a i sz).
Proof. exact go_element_agrees. Qed.

Theorem L0_go_addOffset_agrees : forall a o, go_addOffset a o = addOffset a o.
Proof. exact go_addOffset_agrees. Qed.

Theorem L0_go_times_agrees : forall sz n, in_u32 sz -> in_s32 n ->
  go_times sz n = ok_pair 4294967295 (times sz n).
Proof. exact go_times_agrees. Qed.

Theorem L0_go_timesUnchecked_agrees : forall sz n, go_timesUnchecked sz n = timesUnchecked sz n.
Proof. exact go_timesUnchecked_agrees. Qed.

Theorem L0_go_padToWord_agrees : forall sz, go_padToWord sz = padToWord sz.
Proof. exact go_padToWord_agrees. Qed.

Theorem L0_go_isZero_agrees : forall s, go_isZero s = os_isZero s.
Proof. exact go_isZero_agrees. Qed.

Theorem L0_go_isOneByte_agrees : forall s, go_isOneByte s = os_isOneByte s.
Proof. exact go_isOneByte_agrees. Qed.

Theorem L0_go_isValid_agrees : forall s, go_isValid s = os_isValid s.
Proof. exact go_isValid_agrees. Qed.

Theorem L0_go_pointerSize_agrees : forall s, go_pointerSize s = pointerSize s.
Proof. exact go_pointerSize_agrees. Qed.

Theorem L0_go_totalSize_agrees : forall s, go_totalSize s = totalSize s.
Proof. exact go_totalSize_agrees. Qed.

Theorem L0_go_dataWordCount_agrees : forall s, in_os s -> go_dataWordCount s = dataWordCount s.
Proof. exact go_dataWordCount_agrees. Qed.

Theorem L0_go_totalWordCount_agrees : forall s, in_os s -> go_totalWordCount s = totalWordCount s.
Proof. exact go_totalWordCount_agrees. Qed.

Theorem L0_go_BitOffset_offset_agrees : forall bit, in_u32 bit -> go_BitOffset_offset bit = bitOffset_offset bit.
Proof. exact go_BitOffset_offset_agrees. Qed.

Theorem L0_go_BitOffset_mask_agrees : forall bit, in_u32 bit -> go_BitOffset_mask bit = bitOffset_mask bit.
Proof. exact go_BitOffset_mask_agrees. Qed.

Theorem L0_go_bitListSize_agrees : forall n, 0 <= n < 2147483648 - 7 ->
  go_bitListSize n = bitListSize n.
Proof. exact go_bitListSize_agrees. Qed.

Theorem L0_go_resolve_agrees : forall off base, in_s32 off -> in_u32 base ->
  go_resolve off base = ok_pair 4294967295 (resolve off base).
Proof. exact go_resolve_agrees. Qed.

Theorem L0_go_nearPointerOffset_agrees : forall paddr addr, in_u32 paddr -> in_u32 addr ->
  go_nearPointerOffset paddr addr = nearPointerOffset paddr addr.
Proof. exact go_nearPointerOffset_agrees. Qed.

Theorem L0_go_rawStructPointer_agrees : forall off sz, in_s32 off -> in_os sz ->
  go_rawStructPointer off sz = rawStructPointer off sz.
Proof. exact go_rawStructPointer_agrees. Qed.

Theorem L0_go_rawListPointer_agrees : forall off lt len, in_s32 off -> in_s64 lt -> in_s32 len ->
  go_rawListPointer off lt len = rawListPointer off lt len.
Proof. exact go_rawListPointer_agrees. Qed.

Theorem L0_go_rawInterfacePointer_agrees : forall cap, go_rawInterfacePointer cap = rawInterfacePointer cap.
Proof. exact go_rawInterfacePointer_agrees. Qed.

Theorem L0_go_rawFarPointer_agrees : forall seg off, go_rawFarPointer seg off = rawFarPointer seg off.
Proof. exact go_rawFarPointer_agrees. Qed.

Theorem L0_go_rawDoubleFarPointer_agrees : forall seg off,
  go_rawDoubleFarPointer seg off = rawDoubleFarPointer seg off.
Proof. exact go_rawDoubleFarPointer_agrees. Qed.

Theorem L0_go_pointerType_agrees : forall p, in_u64 p -> go_pointerType p = pointerType p.
Proof. exact go_pointerType_agrees. Qed.

Theorem L0_go_structSize_agrees : forall p, go_structSize p = structSize p.
Proof. exact go_structSize_agrees. Qed.

Theorem L0_go_listType_agrees : forall p, in_u64 p -> go_listType p = listType p.
Proof. exact go_listType_agrees. Qed.

Theorem L0_go_numListElements_agrees : forall p, go_numListElements p = numListElements p.
Proof. exact go_numListElements_agrees. Qed.

Theorem L0_go_elementSize_agrees : forall p, in_u64 p -> go_elementSize p = elementSize p.
Proof. exact go_elementSize_agrees. Qed.

Theorem L0_go_totalListSize_agrees : forall p, in_u64 p ->
  go_totalListSize p = match totalListSize p with
                       | Some r => Some (ok_pair 4294967295 r)
                       | None => None
                       end.
Proof. exact go_totalListSize_agrees. Qed.

Theorem L0_go_rawPointer_offset_agrees : forall p, go_rawPointer_offset p = ptr_offset p.
Proof. exact go_rawPointer_offset_agrees. Qed.

Theorem L0_go_withOffset_agrees : forall p off, go_withOffset p off = withOffset p off.
Proof. exact go_withOffset_agrees. Qed.

Theorem L0_go_farAddress_agrees : forall p, go_farAddress p = farAddress p.
Proof. exact go_farAddress_agrees. Qed.

Theorem L0_go_farSegment_agrees : forall p, go_farSegment p = farSegment p.
Proof. exact go_farSegment_agrees. Qed.

Theorem L0_go_otherPointerType_agrees : forall p, go_otherPointerType p = otherPointerType p.
Proof. exact go_otherPointerType_agrees. Qed.

Theorem L0_go_capabilityIndex_agrees : forall p, go_capabilityIndex p = capabilityIndex p.
Proof. exact go_capabilityIndex_agrees. Qed.

Theorem L0_go_landingPadNearPointer_agrees : forall far tag, in_u64 far ->
  go_landingPadNearPointer far tag = landingPadNearPointer far tag.
Proof. exact go_landingPadNearPointer_agrees. Qed.

Theorem L0_go_inBounds_agrees : forall len addr, go_inBounds len addr = inBounds len addr.
Proof. exact go_inBounds_agrees. Qed.

Theorem L0_go_regionInBounds_agrees : forall len base sz, in_u32 base -> in_u32 sz ->
  go_regionInBounds len base sz = regionInBounds len base sz.
Proof. exact go_regionInBounds_agrees. Qed.

Theorem L0_go_pointerAddress_agrees : forall off size i, in_u32 off -> in_os size -> in_u16 i ->
  go_pointerAddress off size i = pointerAddress off size i.
Proof. exact go_pointerAddress_agrees. Qed.

Theorem L0_go_bitInData_agrees : forall seg_ok size bit, go_bitInData seg_ok size bit = bitInData seg_ok size bit.
Proof. exact go_bitInData_agrees. Qed.

Theorem L0_go_dataAddress_agrees : forall seg_nil p_off size off sz,
  go_dataAddress seg_nil p_off size off sz =
  match dataAddress seg_nil p_off size off sz with
  | Some r => Some (ok_pair 0 r)
  | None => None
  end.
Proof. exact go_dataAddress_agrees. Qed.

Theorem L0_go_canRead_step_agrees : forall curr sz, in_u64 curr -> in_u32 sz ->
  go_canRead_step curr sz = canRead_step curr sz.
Proof. exact go_canRead_step_agrees. Qed.

Theorem L0_ptr_fields_spec : forall w, word64 w ->
  pointerType w = (if bits w 0 2 =? 2 then bits w 0 3 else bits w 0 2) /\
  ptr_offset w = signed 30 (bits w 2 30) /\
  structSize w = mkOS (8 * bits w 32 16) (bits w 48 16) /\
  listType w = bits w 32 3 /\
  numListElements w = bits w 35 29 /\
  farAddress w = 8 * bits w 3 29 /\
  farSegment w = bits w 32 32 /\
  capabilityIndex w = bits w 32 32 /\
  otherPointerType w = bits w 2 30.
Proof. exact ptr_fields_spec. Qed.

Theorem L0_struct_pointer_roundtrip : forall off sz, off_ok off -> os_wf sz ->
  exists p, rawStructPointer off sz = Some p /\ word64 p /\
    pointerType p = structPointer /\ ptr_offset p = off /\ structSize p = sz.
Proof. exact struct_pointer_roundtrip. Qed.

Theorem L0_list_pointer_roundtrip : forall off lt len, off_ok off -> 0 <= lt < 8 -> 0 <= len < 536870912 ->
  let p := rawListPointer off lt len in
  word64 p /\ pointerType p = listPointer /\ ptr_offset p = off /\
  listType p = lt /\ numListElements p = len.
Proof. exact list_pointer_roundtrip. Qed.

Theorem L0_interface_pointer_roundtrip : forall cap, 0 <= cap < 4294967296 ->
  let p := rawInterfacePointer cap in
  word64 p /\ pointerType p = otherPointer /\ otherPointerType p = 0 /\ capabilityIndex p = cap.
Proof. exact interface_pointer_roundtrip. Qed.

Theorem L0_far_pointer_roundtrip : forall seg off, 0 <= seg < 4294967296 -> 0 <= off < 4294967296 ->
  let p := rawFarPointer seg off in
  word64 p /\ pointerType p = farPointer /\ farAddress p = off / 8 * 8 /\ farSegment p = seg.
Proof. exact far_pointer_roundtrip. Qed.

Theorem L0_double_far_pointer_roundtrip : forall seg off, 0 <= seg < 4294967296 -> 0 <= off < 4294967296 ->
  let p := rawDoubleFarPointer seg off in
  word64 p /\ pointerType p = doubleFarPointer /\ farAddress p = off / 8 * 8 /\ farSegment p = seg.
Proof. exact double_far_pointer_roundtrip. Qed.

Theorem L0_withOffset_roundtrip : forall p off, word64 p -> off_ok off -> p mod 4 < 2 ->
  let q := withOffset p off in
  word64 q /\ pointerType q = pointerType p /\ ptr_offset q = off /\
  structSize q = structSize p /\ listType q = listType p /\
  numListElements q = numListElements p.
Proof. exact withOffset_roundtrip. Qed.

Theorem L0_landingPadNearPointer_roundtrip : forall far tag, word64 far -> word64 tag ->
  pointerType far = farPointer -> tag mod 4 < 2 ->
  let q := landingPadNearPointer far tag in
  word64 q /\ pointerType q = pointerType tag /\ ptr_offset q = farAddress far / 8 /\
  structSize q = structSize tag /\ listType q = listType tag /\
  numListElements q = numListElements tag /\
  resolve (ptr_offset q) 0 = Some (farAddress far).
Proof. exact landingPadNearPointer_roundtrip. Qed.

(* one assumption printout over all of the above (51 separate traversals take a minute) *)
Theorem L0_all_closed : True.
Proof.
  exact (let _ :=
    (L0_go_addSize_agrees, L0_go_addSizeUnchecked_agrees, L0_go_element_agrees,
     L0_go_addOffset_agrees, L0_go_times_agrees, L0_go_timesUnchecked_agrees,
     L0_go_padToWord_agrees, L0_go_isZero_agrees, L0_go_isOneByte_agrees,
     L0_go_isValid_agrees, L0_go_pointerSize_agrees, L0_go_totalSize_agrees,
     L0_go_dataWordCount_agrees, L0_go_totalWordCount_agrees, L0_go_BitOffset_offset_agrees,
     L0_go_BitOffset_mask_agrees, L0_go_bitListSize_agrees, L0_go_resolve_agrees,
     L0_go_nearPointerOffset_agrees, L0_go_rawStructPointer_agrees, L0_go_rawListPointer_agrees,
     L0_go_rawInterfacePointer_agrees, L0_go_rawFarPointer_agrees, L0_go_rawDoubleFarPointer_agrees,
     L0_go_pointerType_agrees, L0_go_structSize_agrees, L0_go_listType_agrees,
     L0_go_numListElements_agrees, L0_go_elementSize_agrees, L0_go_totalListSize_agrees,
     L0_go_rawPointer_offset_agrees, L0_go_withOffset_agrees, L0_go_farAddress_agrees,
     L0_go_farSegment_agrees, L0_go_otherPointerType_agrees, L0_go_capabilityIndex_agrees,
     L0_go_landingPadNearPointer_agrees, L0_go_inBounds_agrees, L0_go_regionInBounds_agrees,
     L0_go_pointerAddress_agrees, L0_go_bitInData_agrees, L0_go_dataAddress_agrees,
     L0_go_canRead_step_agrees, L0_ptr_fields_spec, L0_struct_pointer_roundtrip,
     L0_list_pointer_roundtrip, L0_interface_pointer_roundtrip, L0_far_pointer_roundtrip,
     L0_double_far_pointer_roundtrip, L0_withOffset_roundtrip, L0_landingPadNearPointer_roundtrip) in I).
Qed.

Print Assumptions L0_all_closed.
