(* C13 — packed encoding is a lossless, spec-conformant, truncation-safe codec.
   Statements only; each is closed by [exact] of a lemma proved elsewhere. *)
From CV Require Import Packed.Packed Packed.PackSpec Packed.PackedProofs Packed.ReaderProofs
  Packed.ReadCallProofs.
Open Scope Z_scope.

(* every word-aligned byte string: the packed form decodes back to it, both with the
   model of Unpack and with the independent grammar decoder *)
Theorem C13_roundtrip : forall bs, bytes_ok bs -> (length bs mod 8 = 0)%nat ->
  exists p, pack_bytes bs = Some p /\ unpack p = Some bs /\ spec_unpack p = Some bs.
Proof. exact unpack_pack_bytes. Qed.
Print Assumptions C13_roundtrip.

(* every input (malformed and truncated ones included): the one-shot decoder accepts
   exactly the strings of the packing grammar and returns the grammar's denotation;
   in particular nothing is invented for a truncated input *)
Theorem C13_oneshot_is_spec : forall p, unpack p = spec_unpack p.
Proof. exact unpack_eq_spec. Qed.
Print Assumptions C13_oneshot_is_spec.

(* every input, every choice of fast/slow path in the streaming reader: same output and
   same verdict as the one-shot decoder *)
Theorem C13_stream_agrees : forall orc inp, bytes_ok inp ->
  match unpack inp with
  | Some out => stream_unpack true orc inp = Some (out, EOF)
  | None => exists o, stream_unpack true orc inp = Some (o, UnexpectedEOF)
  end.
Proof. exact stream_agrees. Qed.
Print Assumptions C13_stream_agrees.

(* Reader.Read, the byte interface: every input, every sequence of request sizes (request j
   asks for S (sizes j) >= 1 bytes), every fast-path oracle and every short-read oracle (the
   two components of [orc], standing for bufio's Buffered()), any fuel above the explicit
   bound: the concatenation of what the Read calls return and the final error are the
   one-shot decoder's output and verdict *)
Theorem C13_read_agrees : forall orc sizes inp, bytes_ok inp ->
  forall fuel, (2304 * length inp + 1 <= fuel)%nat ->
  match unpack inp with
  | Some out => read_calls true fuel orc 0 b_init inp sizes 0 = Some (out, EOF)
  | None => exists o, read_calls true fuel orc 0 b_init inp sizes 0 = Some (o, UnexpectedEOF)
  end.
Proof. exact read_calls_agree. Qed.
Print Assumptions C13_read_agrees.
(* non-vacuity: ReadCallProofs.read_calls_example (request sizes 1,3,8,9 cycling, both oracles
   alternating, a stream with a zero run and a literal run), read_calls_example_truncated;
   as-found code: read_prefix_refuted *)

(* growth: at most 1024 output bytes per input byte (tag 0 + count 255 = 2 bytes -> 2048) *)
Theorem C13_growth : forall src out, bytes_ok src ->
  unpack src = Some out -> (length out <= 1024 * length src)%nat.
Proof. intros src out Hb H. exact (unpack_growth true (length src) src out (le_n _) Hb H). Qed.
Print Assumptions C13_growth.

(* non-vacuity: the bound is reached *)
Example C13_growth_tight : unpack [0; 255] = Some (repeat 0 2048).
Proof. vm_compute. reflexivity. Qed.
