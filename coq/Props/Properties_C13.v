(* C13 — packed encoding is a lossless, spec-conformant, truncation-safe codec.
   Statements only; each is closed by [exact] of a lemma proved elsewhere. *)
From CV Require Import Packed.Packed.
From CV Require Import Packed.PackSpec.
From CV Require Import Packed.PackedProofs.
From CV Require Import Packed.ReaderProofs.
From CV Require Import Packed.ReadCallProofs.
From CV Require Import Packed.ReadCallProofs2.
From CV Require Import Packed.ReadFull.
From CV Require Import Packed.ReadFullProofs.
From CV Require Import Packed.StreamRoundTrip.
Open Scope Z_scope.

(* every word-aligned byte string: the packed form decodes back to it, both with the
   model of Unpack and with the independent grammar decoder *)
Theorem C13_roundtrip : forall bs, bytes_ok bs -> (length bs mod 8 = 0)%nat ->
  exists p, pack_bytes bs = Some p /\ unpack p = Some bs /\ spec_unpack p = Some bs.
Proof. exact unpack_pack_bytes. Qed.
Print Assumptions C13_roundtrip.

(* every input (malformed and truncated ones included): the one-shot decoder accepts
   exactly the strings of the packing grammar and returns the grammar's denotation;
   in particular nothing is invented for a truncated input *)
Theorem C13_oneshot_is_spec : forall p, unpack p = spec_unpack p.
Proof. exact unpack_eq_spec. Qed.
Print Assumptions C13_oneshot_is_spec.

(* every input, every choice of fast/slow path in the streaming reader: same output and
   same verdict as the one-shot decoder *)
Theorem C13_stream_agrees : forall orc inp, bytes_ok inp ->
  match unpack inp with
  | Some out => stream_unpack true orc inp = Some (out, EOF)
  | None => exists o, stream_unpack true orc inp = Some (o, UnexpectedEOF)
  end.
Proof. exact stream_agrees. Qed.
Print Assumptions C13_stream_agrees.

(* Reader.Read, the byte interface: every input, every sequence of request sizes (request j
   asks for S (sizes j) >= 1 bytes), every fast-path oracle and every short-read oracle (the
   two components of [orc], standing for bufio's Buffered()), any fuel above the explicit
   bound: the concatenation of what the Read calls return and the final error are the
   one-shot decoder's output and verdict *)
Theorem C13_read_agrees : forall orc sizes inp, bytes_ok inp ->
  forall fuel, (2304 * length inp + 1 <= fuel)%nat ->
  match unpack inp with
  | Some out => read_calls true fuel orc 0 b_init inp sizes 0 = Some (out, EOF)
  | None => exists o, read_calls true fuel orc 0 b_init inp sizes 0 = Some (o, UnexpectedEOF)
  end.
Proof. exact read_calls_agree. Qed.
Print Assumptions C13_read_agrees.
(* non-vacuity: ReadCallProofs.read_calls_example (request sizes 1,3,8,9 cycling, both oracles
   alternating, a stream with a zero run and a literal run), read_calls_example_truncated;
   as-found code: read_prefix_refuted *)

(* growth: at most 1024 output bytes per input byte (tag 0 + count 255 = 2 bytes -> 2048) *)
Theorem C13_growth : forall src out, bytes_ok src ->
  unpack src = Some out -> (length out <= 1024 * length src)%nat.
Proof. exact growth_le. Qed.
Print Assumptions C13_growth.

(* non-vacuity: the bound is reached *)
Example C13_growth_tight : unpack [0; 255] = Some (repeat 0 2048).
Proof. exact growth_tight. Qed.
Print Assumptions C13_growth_tight.

(* the round trip through the streaming reader as one statement: for every word-aligned byte
   string, its packed form exists and Reader.Read gives the string back, then EOF, for all request
   sizes and oracles *)
Theorem C13_stream_roundtrip : forall bs orc sizes fuel, bytes_ok bs -> (length bs mod 8 = 0)%nat ->
  exists p, pack_bytes bs = Some p /\
   ((2304 * length p + 1 <= fuel)%nat -> read_calls true fuel orc 0 b_init p sizes 0 = Some (bs, EOF)).
Proof. exact stream_roundtrip. Qed.
Print Assumptions C13_stream_roundtrip.

(* ---- round 2: Reader.Read on streams the one-shot decoder rejects ---- *)

(* the exact behaviour of the byte interface on EVERY input (accepted or not), every sequence
   of request sizes (each >= 1), every fast-path and short-read oracle: the Read calls return
   [fst (unpack_partial inp)] -- the output of the complete items plus the whole words
   determined by the cut last item, a function of the input alone -- and then EOF if the input
   is a complete sequence of items, UnexpectedEOF otherwise *)
Theorem C13_read_partial : forall orc sizes inp, bytes_ok inp ->
  forall fuel, (2304 * length inp + 1 <= fuel)%nat ->
  read_calls true fuel orc 0 b_init inp sizes 0
  = Some (fst (unpack_partial inp), verdict (snd (unpack_partial inp))).
Proof. exact read_calls_partial. Qed.
Print Assumptions C13_read_partial.

(* unpack_partial against the one-shot decoder: equal on accepted inputs; extends the output
   of every accepted prefix; is a prefix of the output of an accepted extension *)
Theorem C13_partial_is_unpack : forall src,
  match unpack src with
  | Some out => unpack_partial src = (out, true)
  | None => snd (unpack_partial src) = false
  end.
Proof. exact unpack_partial_unpack. Qed.
Print Assumptions C13_partial_is_unpack.

Theorem C13_partial_app : forall good rest out, unpack good = Some out ->
  unpack_partial (good ++ rest) = pmap out (unpack_partial rest).
Proof. exact unpack_partial_app. Qed.
Print Assumptions C13_partial_app.

Theorem C13_partial_sound : forall src, bytes_ok src ->
  exists ext more, bytes_ok ext /\ unpack (src ++ ext) = Some (fst (unpack_partial src) ++ more).
Proof. exact unpack_partial_sound. Qed.
Print Assumptions C13_partial_sound.

(* prefix property at the Read interface, all of the above combined: what is handed out before
   the terminal error contains the output of every accepted prefix of the input and is
   contained in the one-shot output of an accepted extension of the input (no invented bytes
   on truncated / malformed input either) *)
Theorem C13_read_prefix : forall orc sizes inp, bytes_ok inp ->
  forall fuel, (2304 * length inp + 1 <= fuel)%nat ->
  exists o e,
    read_calls true fuel orc 0 b_init inp sizes 0 = Some (o, e) /\
    o = fst (unpack_partial inp) /\
    e = match unpack inp with Some _ => EOF | None => UnexpectedEOF end /\
    (forall good rest out, inp = good ++ rest -> unpack good = Some out ->
       exists extra, o = out ++ extra) /\
    (exists ext more, bytes_ok ext /\ unpack (inp ++ ext) = Some (o ++ more)).
Proof. exact read_calls_prefix. Qed.
Print Assumptions C13_read_prefix.

(* invariants of one Read call / of all Read calls, repaired or as-found code, with or without
   an error, whether or not the stream unpacks: valid state, and the word buffer, the rest of
   the input and everything returned are bytes *)
Theorem C13_read_call_bytes_ok : forall strict orc k st inp n k' st' inp' got oe,
  bvalid st -> bytes_ok (b_word st) -> bytes_ok inp ->
  read_call strict orc k st inp n = (k', st', inp', got, oe) ->
  bvalid st' /\ bytes_ok (b_word st') /\ bytes_ok inp' /\ bytes_ok got.
Proof. exact read_call_bytes_ok. Qed.
Print Assumptions C13_read_call_bytes_ok.

Theorem C13_read_calls_bytes_ok : forall strict fuel orc k st inp sizes j out e,
  bvalid st -> bytes_ok (b_word st) -> bytes_ok inp ->
  read_calls strict fuel orc k st inp sizes j = Some (out, e) -> bytes_ok out.
Proof. exact read_calls_bytes_ok. Qed.
Print Assumptions C13_read_calls_bytes_ok.
(* non-vacuity: ReadCallProofs2.read_calls_prefix_example (ex_inp cut inside its literal run:
   5 words of complete items + the tag word and one literal word of the cut item are handed
   out, then UnexpectedEOF), read_call_bytes_ok_example *)

(* ---- round 3: io.ReadFull-style consumers of Reader.Read (capnp.Decoder reads this way) ---- *)

(* a Read call that returns an error (EOF or UnexpectedEOF) returned strictly fewer bytes than
   requested: every state, every input, every oracle, repaired or as-found code.  Hence
   io.ReadFull, which drops an error that comes with a full buffer, never drops one here. *)
Theorem C13_read_call_err_not_full : forall strict orc k st inp n k' st' inp' got e,
  read_call strict orc k st inp n = (k', st', inp', got, Some e) -> (length got < n)%nat.
Proof. exact read_call_err_not_full. Qed.
Print Assumptions C13_read_call_err_not_full.

(* every input, every sequence of io.ReadFull request sizes (request j asks for S (sizes j) >= 1
   bytes), every fast-path and short-read oracle, any fuel above the bound: the concatenation of
   what the ReadFull calls return is the one-shot decoder's output and the final error is
   io.ReadFull's verdict on it ([rf_verdict]: EOF iff the output ends on a request boundary,
   else UnexpectedEOF -- ReadAtLeast's own mapping); a rejected input ends with UnexpectedEOF,
   never with a clean EOF *)
Theorem C13_readfull_agrees : forall orc sizes inp, bytes_ok inp ->
  forall fuel, (2304 * length inp + 1 <= fuel)%nat ->
  match unpack inp with
  | Some out => readfull_all (read_rd true orc) fuel 0 b_init inp sizes 0
                = Some (out, rf_verdict (length out) sizes 0 (length out))
  | None => exists o, readfull_all (read_rd true orc) fuel 0 b_init inp sizes 0
                      = Some (o, UnexpectedEOF)
  end.
Proof. exact readfull_agrees. Qed.
Print Assumptions C13_readfull_agrees.

(* one byte per ReadFull: exactly the shape of C13_read_agrees *)
Theorem C13_readfull_agrees_bytes : forall orc inp, bytes_ok inp ->
  match unpack inp with
  | Some out => readfull_all (read_rd true orc) (read_fuel inp) 0 b_init inp (fun _ => 0%nat) 0
                = Some (out, EOF)
  | None => exists o, readfull_all (read_rd true orc) (read_fuel inp) 0 b_init inp
                                   (fun _ => 0%nat) 0 = Some (o, UnexpectedEOF)
  end.
Proof. exact readfull_agrees_bytes. Qed.
Print Assumptions C13_readfull_agrees_bytes.
(* non-vacuity: ReadFullProofs.readfull_example; refutation of the Read variant that returns a
   parked error together with the data and clears it (seeded change C13-r4-1):
   ReadFullProofs.readfull_eager_refuted -- the ReadFull consumer then accepts [1;7;0], a stream
   cut before a run-count byte, with a clean EOF *)
