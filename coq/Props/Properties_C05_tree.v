(* C05 / C04, tree layer: the specification decoder (coq/Spec/Spec.v) on builder states.
   Statements only.  What is here: the pointer half and the data half of the SINGLE-LEVEL
   decode.  What is NOT here: an abstract store interpreter for op lists, its commutation with
   the ops (abs_step) and the whole-tree equality (see docs/C05.md, "tree layer"). *)
From CV Require Import Core.Builder Core.ReaderFacts Core.BuilderFacts Core.AllocProofs
  Core.WritePtrProofs Core.HeapProofs Core.BuildOps Core.BuildValid Core.BuildInv Core.HeapInv Core.HeapOps
  Core.HeapCopy Core.HeapSteps Core.BuildTreeBridge Core.BuildTree.
Open Scope Z_scope.

(* for EVERY segment list (no invariant, no byte range): whatever the strict validator's resolver
   (BuildValid.resolve_ptr, the resolver the table invariant hinv speaks about) accepts at a word
   aligned position, the resolver of the encoding specification (strict mode) resolves to the
   corresponding target: near, far + one-word pad, double-far + two-word pad; structs, lists of
   every element size, composite lists with their tag word, capabilities, null *)
Theorem C05_resolve_ptr_is_spec : forall (ms : segs) sid off t rs,
  resolve_ptr ms sid off = (t, rs) -> is_bad t = false -> off mod 8 = 0 ->
  S.spec_resolve true ms sid (off / 8) = Some (conv t).
Proof. exact resolve_ptr_spec. Qed.
Print Assumptions C05_resolve_ptr_is_spec.

(* under the table invariant, every pointer slot of every table object and the root word is
   resolved by the specification to null / a capability / a zero-sized target / exactly the
   specification target of ONE table object (through pads of the pad table only) *)
Theorem C05_slot_decodes_to_table : forall m objs pads q,
  hinv m objs pads -> In q ((0, 0) :: flat_map slots objs) ->
  slot_spec_ok (bm_data m) objs pads q.
Proof. exact hinv_slot_spec. Qed.
Print Assumptions C05_slot_decodes_to_table.

(* ... in every reachable state of every program accepted by sub_prog, every arena configuration
   with a root word (premises of C05_heap_inv_tables) *)
Theorem C05_tree_slots_sublang : forall a cfgd cfgs ncaps fuel src ops m,
  arena_spec_wf a -> root_cap_ok a -> create a (init_rlimit cfgd) = Ok m -> sub_prog ops = true ->
  msg_ok src -> cfg_strict cfgs = true ->
  let st0 := mkBSt (mkW m src (init_rlimit cfgs)) [] in
  dst_run (mkEnv cfgd cfgs ncaps fuel) st0 ops ->
  Forall seg_bound (bstates (mkEnv cfgd cfgs ncaps fuel) st0 ops) ->
  Forall (fun st => exists objs pads, sinv st objs pads /\
            forall q, In q ((0, 0) :: flat_map slots objs) ->
              slot_spec_ok (bm_data (w_dst (st_w st))) objs pads q)
         (bstates (mkEnv cfgd cfgs ncaps fuel) st0 ops).
Proof. exact tree_slots_sublang. Qed.
Print Assumptions C05_tree_slots_sublang.

(* data half of the single-level decode: the specification decoder's data bytes of a struct and
   elements of a primitive list are the segment content at the object's address *)
Theorem C05_spec_struct_data : forall (ms : segs) sid a dw pc o,
  0 <= sid < zlen ms -> 0 <= o < 8 * dw ->
  S.sv_uint ms (S.sv_of_struct sid a dw pc) o 1 = S.byte_at (nth (Z.to_nat sid) ms []) (8 * a + o).
Proof. exact spec_struct_data. Qed.
Print Assumptions C05_spec_struct_data.

Theorem C05_spec_list_elem : forall (ms : segs) sid a e n i,
  0 <= sid < zlen ms -> 0 <= i < n -> e <> 7 -> S.esz_bytes e <> 0 ->
  S.l_uint ms (S.TgtList sid a e n 0 0) i (S.esz_bytes e) =
  S.le_num (nth (Z.to_nat sid) ms []) (8 * a + i * S.esz_bytes e) (Z.to_nat (S.esz_bytes e)).
Proof. exact spec_list_elem. Qed.
Print Assumptions C05_spec_list_elem.

(* non-vacuity: a program with a near, a far, a double-far pointer and a composite list whose
   element holds a far pointer; the specification resolver agrees with the validator's at every
   slot, returns the created objects, and the decoded tree is the tree of the written values *)
Theorem C05_tree_example :
  sub_prog tree_ex_prog = true /\
  map (fun q => let w := match word_at tree_ex_segs (fst q) (snd q) with Some w => w | None => 0 end in (f_A w, f_B w))
      tree_ex_slots = [(0, 0); (2, 1); (2, 0); (0, 0); (2, 0)] /\
  map (fun q => S.spec_resolve true tree_ex_segs (fst q) (snd q / 8)) tree_ex_slots =
  map (fun q => Some (conv (fst (resolve_ptr tree_ex_segs (fst q) (snd q))))) tree_ex_slots /\
  map (fun q => S.spec_resolve true tree_ex_segs (fst q) (snd q / 8)) tree_ex_slots =
  [Some (S.TgtStruct 0 1 0 2); Some (S.TgtStruct 1 0 1 0); Some (S.TgtList 3 1 7 2 1 1); Some S.TgtNull;
   Some (S.TgtStruct 2 0 1 0)] /\
  S.spec_decode_root true 8 64 64 tree_ex_segs =
  S.TStruct [] [S.TStruct [2; 1; 0; 0; 0; 0; 0; 0] [];
                S.TComp 2 (S.mkSize 8 1) [S.TStruct [0; 0; 0; 0; 0; 0; 0; 0] [S.TNull];
                                          S.TStruct [0; 0; 0; 0; 0; 0; 0; 0] [S.TStruct [77; 0; 0; 0; 0; 0; 0; 0] []]]].
Proof. exact tree_example. Qed.
Print Assumptions C05_tree_example.
