(* C19 - placeholder until the proofs land *)
From CV Require Import Pogs.PogsM.
