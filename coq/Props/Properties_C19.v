(* C19 - struct mapping (pogs) round-trips and agrees with the generated accessors.
   Statements only; each is closed by [exact] of a lemma proved in coq/Pogs. *)
From CV Require Import Pogs.PogsM Pogs.PogsSpec Pogs.PogsFrame Pogs.PogsProofs Pogs.PogsRoundtrip Pogs.PogsTotal Pogs.PogsFuel Pogs.PogsLayoutBridge Pogs.PogsExamples.
From CV Require Layout.Layout.
Open Scope Z_scope.

(* every mapped schema whose layout passes the check, every Go value tree, every struct (of any
   size, with any prior contents) the value is inserted into: if Insert succeeds (with this fuel:
   not OutOfFuel), Extract on the result succeeds with the same fuel and returns the value modulo
   [veq] (nil = empty for Text/Data/List; fields that are not live are not compared) *)
Theorem C19_extract_insert : forall D sch, schema_ok D sch = true ->
  forall fuel id s v s1,
  insert_struct fuel sch id s v = Ok s1 ->
  exists v', extract_struct true fuel sch id s1 = Ok v' /\ veq sch (TStruct false id) v v'.
Proof. exact extract_insert. Qed.
Print Assumptions C19_extract_insert.

(* the frame form: Insert changes nothing outside the footprint of the node (the discriminant and
   the live mapped fields, groups included), and what Extract returns depends only on it *)
Theorem C19_insert_extract_frame : forall sch tbl, table_ok tbl sch = true ->
  forall fuel id s v s1,
  insert_struct fuel sch id s v = Ok s1 ->
  same_outside (fp_of tbl id) s s1 /\
  forall s2, agree_on (fp_of tbl id) s1 s2 ->
    exists v', extract_struct true fuel sch id s2 = Ok v' /\ veq sch (TStruct false id) v v'.
Proof. exact roundtrip_frame. Qed.
Print Assumptions C19_insert_extract_frame.

(* every schema (no layout condition), every struct content, every fuel: Extract returns what the
   whole-struct read [gen_struct] returns (errors included).  [gen_struct] is this group's model of
   "read the struct through the generated accessors": its WALK (field loop, Which dispatch, typed
   list element reads) is by construction the same as Extract's - that part of the statement is
   definitional (proof: destruct/reflexivity) and says only that pogs adds nothing to the walk; the
   content is at the leaves: [extract_field] = the per-field accessor model [gen_getter]
   (Text/Data/struct/list default rules of pointer.go, discriminant test, XOR default), which
   differs from the code before the two fixes (C19_agreement_prefix_refuted).  [gen_getter] is
   tied to the accessors capnpc-go EMITS by the three theorems below. *)
Theorem C19_extract_agrees_with_generated : forall fuel sch id s,
  extract_struct true fuel sch id s = gen_struct fuel sch id s.
Proof. exact extract_agrees_with_generated. Qed.
Print Assumptions C19_extract_agrees_with_generated.

(* the link to C15: for every well-formed field descriptor f of C15 (coq/Layout) that describes the
   same slot (same offset, kind of that width, default bits, discriminant value and offset:
   desc_matches), the getter of [Layout.gen_accessor f] - the accessor IR that genir regenerates
   from the emitted Go code on every run and C15_emitted_is_model proves equal to the generator
   model - run on the same struct (data section bytes; pointer slots as tokens) returns exactly
   what [gen_getter] returns: same discriminant panic, same bit range, same XOR default; the only
   difference is the representation (value decoded from the raw bits). All integer widths, enums,
   floats (raw bits): *)
Theorem C19_gen_getter_is_emitted_getter_scalar : forall tok n s dv off w d f g,
  Layout.field_wf f -> Layout.a_get (Layout.gen_accessor f) = Some g ->
  desc_matches n dv f -> 0 <= s_dbytes s -> s_dbytes s * 8 < 2 ^ 32 -> 0 <= off ->
  scalar_kind (Layout.fd_kind f) w -> Layout.fd_off f = off ->
  length (dflt_bits d w) = w -> Layout.default_raw f = z_of_bits (dflt_bits d w) ->
  Layout.run_getter g (Layout.fd_default f) (to_strukt tok s) =
  match gen_getter n s dv off (TInt w) d with
  | Ok (VBits bs) => Layout.Ok (Layout.decode (Layout.fd_kind f) (z_of_bits bs))
  | _ => Layout.Panic
  end.
Proof. exact gen_getter_scalar_is_emitted_getter. Qed.
Print Assumptions C19_gen_getter_is_emitted_getter_scalar.

Theorem C19_gen_getter_is_emitted_getter_bool : forall tok n s dv off d f g,
  Layout.field_wf f -> Layout.a_get (Layout.gen_accessor f) = Some g ->
  desc_matches n dv f -> 0 <= s_dbytes s -> s_dbytes s * 8 < 2 ^ 32 -> 0 <= off ->
  Layout.fd_kind f = Layout.KBool -> Layout.fd_off f = off ->
  Layout.default_raw f = Z.b2z (match dflt_bits d 1 with x :: _ => x | [] => false end) ->
  Layout.run_getter g (Layout.fd_default f) (to_strukt tok s) =
  match gen_getter n s dv off TBool d with
  | Ok (VBool b) => Layout.Ok (Z.b2z b)
  | _ => Layout.Panic
  end.
Proof. exact gen_getter_bool_is_emitted_getter. Qed.
Print Assumptions C19_gen_getter_is_emitted_getter_bool.

(* pointer fields (Text, Data, List, struct, interface, AnyPointer).  C15's struct model keeps opaque
   tokens in the pointer slots (0 = null): its getter = discriminant test, read slot [off], default
   iff the slot is null.  Proved: the emitted getter panics exactly when gen_getter does, and it
   reads the very slot gen_getter inspects.  NOT expressible in C15's semantics (it has no pointer
   kinds): the fallback to the default for a NON-null pointer of another kind (TextDefault etc.);
   that case of gen_getter is read from pointer.go and tied to the code by the runs only
   (ext/gen cases with wrong-kinded pointers; the two fixed defects were found there). *)
Theorem C19_gen_getter_is_emitted_getter_ptr : forall tok n s dv off t d f k g,
  Layout.field_wf f -> Layout.a_get (Layout.gen_accessor f) = Some g ->
  desc_matches n dv f -> 0 <= s_dbytes s -> s_dbytes s * 8 < 2 ^ 32 -> 0 <= s_pcount s -> 0 <= off ->
  tok PNull = 0 -> ptr_kind_of t = Some k -> Layout.fd_kind f = k -> Layout.fd_off f = off ->
  (Layout.run_getter g (Layout.fd_default f) (to_strukt tok s) = Layout.Panic <-> gen_getter n s dv off t d = Panic) /\
  (gen_check_which n s dv = true ->
   Layout.run_getter g (Layout.fd_default f) (to_strukt tok s) =
   Layout.Ok (Layout.ptr_value k (Layout.fd_default f) (tok (read_ptr s off)))).
Proof. exact gen_getter_ptr_is_emitted_getter. Qed.
Print Assumptions C19_gen_getter_is_emitted_getter_ptr.

(* the premises of the bridge are satisfiable, and both sides compute the same on a concrete struct *)
Theorem C19_bridge_nonvacuous :
  Layout.field_wf ex_fd_int /\ desc_matches ex_node None ex_fd_int /\
  scalar_kind (Layout.fd_kind ex_fd_int) 32 /\
  Layout.default_raw ex_fd_int = z_of_bits (dflt_bits (DBits (bits_of_z 32 (2 ^ 32 - 123))) 32).
Proof. exact bridge_premises_int. Qed.
Print Assumptions C19_bridge_nonvacuous.

(* inactive union members (and ordinals without a Go field) are not written: their values do not
   influence the struct Insert produces ... *)
Theorem C19_inactive_not_written : forall sch rec hw disc fs vs vs' s,
  same_active hw disc fs vs vs' ->
  insert_fields sch rec hw disc s fs vs = insert_fields sch rec hw disc s fs vs'.
Proof. exact insert_fields_ignores_inactive. Qed.
Print Assumptions C19_inactive_not_written.

(* ... and not read: Extract leaves them untouched; the generated getter would panic *)
Theorem C19_inactive_not_read : forall fixed rec hw disc s fs vs,
  extract_fields fixed rec hw disc s fs = Ok vs ->
  Forall2 (fun f v => field_action hw disc f <> Do -> v = GNone) fs vs.
Proof. exact extract_fields_skips_inactive. Qed.
Print Assumptions C19_inactive_not_read.

Theorem C19_generated_getter_inactive_panics : forall n s dv off t d,
  gen_check_which n s dv = false -> gen_getter n s dv off t d = Panic.
Proof. exact gen_getter_inactive_panics. Qed.
Print Assumptions C19_generated_getter_inactive_panics.

(* totality on arbitrary contents (C01 for "extraction into Go structs", model level): for every
   schema, every struct contents (any sizes, any pointer kinds in any slot), every fuel and both
   code variants, Extract never panics; its outcome is a value, an error, Unmodelled or OutOfFuel,
   and an outcome other than OutOfFuel is final (the same for every larger fuel) *)
Theorem C19_extract_never_panics : forall fixed fuel sch id s,
  extract_struct fixed fuel sch id s <> Panic.
Proof. exact extract_never_panics. Qed.
Print Assumptions C19_extract_never_panics.

Theorem C19_extract_total : forall fixed fuel sch id s,
  (exists v, extract_struct fixed fuel sch id s = Ok v) \/
  extract_struct fixed fuel sch id s = Err \/
  extract_struct fixed fuel sch id s = Unmodelled \/
  extract_struct fixed fuel sch id s = OutOfFuel.
Proof. exact extract_total. Qed.
Print Assumptions C19_extract_total.

Theorem C19_extract_fuel_stable : forall fixed fuel k sch id s,
  extract_struct fixed fuel sch id s <> OutOfFuel ->
  extract_struct fixed (k + fuel) sch id s = extract_struct fixed fuel sch id s.
Proof. exact extract_fuel_stable. Qed.
Print Assumptions C19_extract_fuel_stable.

(* the stated fuel: need = (pointer nesting depth of the struct tree) * (R+1) + rank + 1, for a
   schema whose groups / struct-valued Go fields are ranked (finite Go types) and whose struct-
   and list-typed slots have no default: Extract terminates on arbitrary contents *)
Theorem C19_extract_fuel_sufficient : forall fixed sch rank R, ranked sch rank R ->
  forall fuel id s, (need rank R id s <= fuel)%nat ->
  extract_struct fixed fuel sch id s <> OutOfFuel.
Proof. exact extract_fuel_sufficient. Qed.
Print Assumptions C19_extract_fuel_sufficient.

Theorem C19_extract_terminates : forall fixed sch rank R, ranked sch rank R ->
  forall fuel id s, (need rank R id s <= fuel)%nat ->
  (exists v, extract_struct fixed fuel sch id s = Ok v) \/
  extract_struct fixed fuel sch id s = Err \/
  extract_struct fixed fuel sch id s = Unmodelled.
Proof. exact extract_terminates. Qed.
Print Assumptions C19_extract_terminates.

Theorem C19_fuel_nonvacuous : ranked ex_schema ex_rank 1.
Proof. exact ex_ranked. Qed.
Print Assumptions C19_fuel_nonvacuous.

Theorem C19_generated_read_never_panics : forall fuel sch id s, gen_struct fuel sch id s <> Panic.
Proof. exact gen_struct_never_panics. Qed.
Print Assumptions C19_generated_read_never_panics.

(* non-vacuity and the refuted pre-fix variant *)
Theorem C19_nonvacuous : schema_ok 4 ex_schema = true.
Proof. exact ex_schema_ok. Qed.
Print Assumptions C19_nonvacuous.
Theorem C19_agreement_prefix_refuted :
  extract_struct false 8 ex_schema 1 ex_wrong_kind <> gen_struct 8 ex_schema 1 ex_wrong_kind.
Proof. exact extract_agrees_prefix_refuted. Qed.
Print Assumptions C19_agreement_prefix_refuted.
