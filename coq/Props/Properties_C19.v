(* C19 - struct mapping (pogs) round-trips and agrees with the generated accessors.
   Statements only; each is closed by [exact] of a lemma proved in coq/Pogs. *)
From CV Require Import Pogs.PogsM Pogs.PogsSpec Pogs.PogsFrame Pogs.PogsProofs Pogs.PogsRoundtrip Pogs.PogsTotal Pogs.PogsFuel Pogs.PogsExamples.
Open Scope Z_scope.

(* every mapped schema whose layout passes the check, every Go value tree, every struct (of any
   size, with any prior contents) the value is inserted into: if Insert succeeds (with this fuel:
   not OutOfFuel), Extract on the result succeeds with the same fuel and returns the value modulo
   [veq] (nil = empty for Text/Data/List; fields that are not live are not compared) *)
Theorem C19_extract_insert : forall D sch, schema_ok D sch = true ->
  forall fuel id s v s1,
  insert_struct fuel sch id s v = Ok s1 ->
  exists v', extract_struct true fuel sch id s1 = Ok v' /\ veq sch (TStruct false id) v v'.
Proof. exact extract_insert. Qed.
Print Assumptions C19_extract_insert.

(* the frame form: Insert changes nothing outside the footprint of the node (the discriminant and
   the live mapped fields, groups included), and what Extract returns depends only on it *)
Theorem C19_insert_extract_frame : forall sch tbl, table_ok tbl sch = true ->
  forall fuel id s v s1,
  insert_struct fuel sch id s v = Ok s1 ->
  same_outside (fp_of tbl id) s s1 /\
  forall s2, agree_on (fp_of tbl id) s1 s2 ->
    exists v', extract_struct true fuel sch id s2 = Ok v' /\ veq sch (TStruct false id) v v'.
Proof. exact roundtrip_frame. Qed.
Print Assumptions C19_insert_extract_frame.

(* every schema (no layout condition), every struct content, every fuel: what Extract returns is
   what reading the same fields through the generated accessors returns (errors included) *)
Theorem C19_extract_agrees_with_generated : forall fuel sch id s,
  extract_struct true fuel sch id s = gen_struct fuel sch id s.
Proof. exact extract_agrees_with_generated. Qed.
Print Assumptions C19_extract_agrees_with_generated.

(* inactive union members (and ordinals without a Go field) are not written: their values do not
   influence the struct Insert produces ... *)
Theorem C19_inactive_not_written : forall sch rec hw disc fs vs vs' s,
  same_active hw disc fs vs vs' ->
  insert_fields sch rec hw disc s fs vs = insert_fields sch rec hw disc s fs vs'.
Proof. exact insert_fields_ignores_inactive. Qed.
Print Assumptions C19_inactive_not_written.

(* ... and not read: Extract leaves them untouched; the generated getter would panic *)
Theorem C19_inactive_not_read : forall fixed rec hw disc s fs vs,
  extract_fields fixed rec hw disc s fs = Ok vs ->
  Forall2 (fun f v => field_action hw disc f <> Do -> v = GNone) fs vs.
Proof. exact extract_fields_skips_inactive. Qed.
Print Assumptions C19_inactive_not_read.

Theorem C19_generated_getter_inactive_panics : forall n s dv off t d,
  gen_check_which n s dv = false -> gen_getter n s dv off t d = Panic.
Proof. exact gen_getter_inactive_panics. Qed.
Print Assumptions C19_generated_getter_inactive_panics.

(* totality on arbitrary contents (C01 for "extraction into Go structs", model level): for every
   schema, every struct contents (any sizes, any pointer kinds in any slot), every fuel and both
   code variants, Extract never panics; its outcome is a value, an error, Unmodelled or OutOfFuel,
   and an outcome other than OutOfFuel is final (the same for every larger fuel) *)
Theorem C19_extract_never_panics : forall fixed fuel sch id s,
  extract_struct fixed fuel sch id s <> Panic.
Proof. exact extract_never_panics. Qed.
Print Assumptions C19_extract_never_panics.

Theorem C19_extract_total : forall fixed fuel sch id s,
  (exists v, extract_struct fixed fuel sch id s = Ok v) \/
  extract_struct fixed fuel sch id s = Err \/
  extract_struct fixed fuel sch id s = Unmodelled \/
  extract_struct fixed fuel sch id s = OutOfFuel.
Proof. exact extract_total. Qed.
Print Assumptions C19_extract_total.

Theorem C19_extract_fuel_stable : forall fixed fuel k sch id s,
  extract_struct fixed fuel sch id s <> OutOfFuel ->
  extract_struct fixed (k + fuel) sch id s = extract_struct fixed fuel sch id s.
Proof. exact extract_fuel_stable. Qed.
Print Assumptions C19_extract_fuel_stable.

(* the stated fuel: need = (pointer nesting depth of the struct tree) * (R+1) + rank + 1, for a
   schema whose groups / struct-valued Go fields are ranked (finite Go types) and whose struct-
   and list-typed slots have no default: Extract terminates on arbitrary contents *)
Theorem C19_extract_fuel_sufficient : forall fixed sch rank R, ranked sch rank R ->
  forall fuel id s, (need rank R id s <= fuel)%nat ->
  extract_struct fixed fuel sch id s <> OutOfFuel.
Proof. exact extract_fuel_sufficient. Qed.
Print Assumptions C19_extract_fuel_sufficient.

Theorem C19_extract_terminates : forall fixed sch rank R, ranked sch rank R ->
  forall fuel id s, (need rank R id s <= fuel)%nat ->
  (exists v, extract_struct fixed fuel sch id s = Ok v) \/
  extract_struct fixed fuel sch id s = Err \/
  extract_struct fixed fuel sch id s = Unmodelled.
Proof. exact extract_terminates. Qed.
Print Assumptions C19_extract_terminates.

Theorem C19_fuel_nonvacuous : ranked ex_schema ex_rank 1.
Proof. exact ex_ranked. Qed.

Theorem C19_generated_read_never_panics : forall fuel sch id s, gen_struct fuel sch id s <> Panic.
Proof. exact gen_struct_never_panics. Qed.
Print Assumptions C19_generated_read_never_panics.

(* non-vacuity and the refuted pre-fix variant *)
Theorem C19_nonvacuous : schema_ok 4 ex_schema = true.
Proof. exact ex_schema_ok. Qed.
Theorem C19_agreement_prefix_refuted :
  extract_struct false 8 ex_schema 1 ex_wrong_kind <> gen_struct 8 ex_schema 1 ex_wrong_kind.
Proof. exact extract_agrees_prefix_refuted. Qed.
Print Assumptions C19_agreement_prefix_refuted.
