(* C15 -- generated accessors implement exactly the layout the schema declares.
   Statements only. [gen_accessor] is the Gallina mirror of what capnpc-go computes for a field
   (Layout.v (e)); Layout/GenCheck.v ties it to the code emitted by the current generator. *)
From CV Require Import Layout.Layout.
From CV Require Import Layout.BytesProofs.
From CV Require Import Layout.LayoutProofs.
From CV Require Import Layout.LayoutMain.
From CV Require Import Layout.GenCheck.
From CV Require Import Gen.GenAccessors.
Open Scope Z_scope.

(* getter (setter v s) = v, for every field descriptor, every struct, every value of the kind *)
Theorem C15_roundtrip : forall f g st v s s', field_wf f -> strukt_ok s -> value_ok (fd_kind f) v ->
  a_get (gen_accessor f) = Some g -> a_set (gen_accessor f) = Some st ->
  run_setter st v s = Ok s' -> run_getter g (fd_default f) s' = Ok (readback f v).
Proof. exact gen_roundtrip. Qed.
Print Assumptions C15_roundtrip.

(* the setter changes exactly field_range and, for union members, the discriminant's 16 bits *)
Theorem C15_setter_frame : forall f st v s s', field_wf f -> strukt_ok s -> value_ok (fd_kind f) v ->
  a_set (gen_accessor f) = Some st -> run_setter st v s = Ok s' ->
  strukt_ok s' /\ length (sdata s') = length (sdata s) /\ length (sptrs s') = length (sptrs s) /\
  (forall i, 0 <= i -> ~ in_range (field_range f) i -> ~ in_disc f i ->
     data_bit (sdata s') i = data_bit (sdata s) i) /\
  (forall j, field_range f <> RPtr (Z.of_nat j) -> nth j (sptrs s') 0 = nth j (sptrs s) 0).
Proof. exact gen_setter_frame. Qed.
Print Assumptions C15_setter_frame.

(* ... and writes encode(v) xor default into field_range, the member's value into the discriminant *)
Theorem C15_setter_exact : forall f st v s s', field_wf f -> strukt_ok s -> value_ok (fd_kind f) v ->
  a_set (gen_accessor f) = Some st -> run_setter st v s = Ok s' ->
  match field_range f with
  | RBits lo len => bits_in (sdata s') lo len = true /\
      bits_val (sdata s') lo (Z.to_nat len) = Z.lxor (encode (fd_kind f) v) (default_raw f)
  | RPtr slot => s_ptr s' slot = ptr_token (fd_kind f) (fd_default f) v
  | RNone => True
  end /\ spec_active f s' = true.
Proof. exact gen_setter_exact. Qed.
Print Assumptions C15_setter_exact.

(* the setter succeeds iff field and discriminant lie inside the runtime struct, panics otherwise,
   never touches memory outside the struct *)
Theorem C15_setter_total : forall f st v s, field_wf f -> strukt_ok s -> value_ok (fd_kind f) v ->
  a_set (gen_accessor f) = Some st ->
  run_setter st v s <> Escape /\
  ((exists s', run_setter st v s = Ok s') <->
   ((has_disc f = true -> bits_in (sdata s) (disc_lo f) 16 = true) /\
    match field_range f with
    | RBits lo len => bits_in (sdata s) lo len = true
    | RPtr slot => 0 <= slot < pcount s
    | RNone => True
    end)).
Proof. exact gen_setter_total. Qed.
Print Assumptions C15_setter_total.

(* the getter is the value of the schema's bit range / slot, XOR the default, behind the union test *)
Theorem C15_getter_value : forall f g s, field_wf f -> strukt_ok s ->
  a_get (gen_accessor f) = Some g -> run_getter g (fd_default f) s = spec_get f s.
Proof. exact gen_getter_value. Qed.
Print Assumptions C15_getter_value.

(* the getter on zero bits (or on a struct too short to contain the field) returns the default *)
Theorem C15_getter_default : forall f g s, field_wf f -> strukt_ok s ->
  a_get (gen_accessor f) = Some g -> field_zero f s -> spec_active f s = true ->
  run_getter g (fd_default f) s = Ok (fd_default f).
Proof. exact gen_getter_default. Qed.
Print Assumptions C15_getter_default.

Theorem C15_getter_zero_struct : forall f g n m, field_wf f -> Z.of_nat n * 8 < 2 ^ 32 ->
  a_get (gen_accessor f) = Some g -> (has_disc f = false \/ fd_disc f = 0) ->
  run_getter g (fd_default f) (mkS (repeat 0 n) (repeat 0 m)) = Ok (fd_default f).
Proof. exact gen_getter_zero_struct. Qed.
Print Assumptions C15_getter_zero_struct.

(* union members: getter / XBytes panic and Has answers false unless Which() is the member;
   the setter makes it so; Has = active and slot non-null *)
Theorem C15_union_inactive : forall f s, field_wf f -> strukt_ok s -> spec_active f s = false ->
  (forall g, a_get (gen_accessor f) = Some g -> fd_kind f <> KGroup -> run_getter g (fd_default f) s = Panic) /\
  (forall g, a_getbytes (gen_accessor f) = Some g -> run_getbytes g (fd_default f) s = Panic) /\
  (forall h, a_has (gen_accessor f) = Some h -> run_has h s = Ok false).
Proof. exact gen_union. Qed.
Print Assumptions C15_union_inactive.

Theorem C15_setter_activates : forall f st v s s', field_wf f -> strukt_ok s -> value_ok (fd_kind f) v ->
  a_set (gen_accessor f) = Some st -> run_setter st v s = Ok s' -> has_disc f = true ->
  spec_which f s' = fd_disc f.
Proof. exact gen_setter_activates. Qed.
Print Assumptions C15_setter_activates.

Theorem C15_has : forall f h s, field_wf f -> strukt_ok s -> a_has (gen_accessor f) = Some h ->
  run_has h s = Ok (spec_has f s).
Proof. exact gen_has. Qed.
Print Assumptions C15_has.

Theorem C15_new : forall f n t s, field_wf f -> strukt_ok s -> t <> 0 ->
  a_new (gen_accessor f) = Some n -> run_new n t s = spec_set f t s.
Proof. exact gen_new. Qed.
Print Assumptions C15_new.

(* generated object size = 8 * dataWordCount / pointerCount for ALL dataWordCount < 65536 (the product
   is not taken in uint16), type id = node id; a field the schema
   places inside the node can be set on a struct allocated with that size *)
Theorem C15_sizes : forall n, nd_isgroup n = false ->
  0 <= nd_dwc n < 65536 -> 0 <= nd_pc n < 65536 ->
  ni_new (gen_node n) = Some (8 * nd_dwc n, nd_pc n) /\
  ni_newroot (gen_node n) = Some (8 * nd_dwc n, nd_pc n) /\
  ni_list (gen_node n) = Some (8 * nd_dwc n, nd_pc n) /\
  ni_typeid (gen_node n) = Some (nd_id n) /\
  (* exact over the whole uint16 range of dataWordCount: no reduction modulo 2^16 *)
  0 <= 8 * nd_dwc n <= 524280 /\ (8192 <= nd_dwc n -> 65536 <= fst (gen_objsize n)).
Proof. exact gen_sizes. Qed.
Print Assumptions C15_sizes.

Theorem C15_new_struct_fits : forall f st n v, field_wf f -> value_ok (fd_kind f) v ->
  0 <= nd_dwc n < 65536 -> 0 <= nd_pc n -> fits f n -> a_set (gen_accessor f) = Some st ->
  exists s', run_setter st v (new_struct n) = Ok s'.
Proof. exact gen_new_struct_fits. Qed.
Print Assumptions C15_new_struct_fits.

(* the tie: what genir read in the code emitted by the current generator IS gen_accessor / gen_node
   (kernel-checked for every corpus field), so the statements above hold of the emitted accessors *)
Theorem C15_emitted_is_model : forall f ir, In (f, ir) fields -> ir = gen_accessor f /\ field_wf f.
Proof.
  exact (fun f ir H => conj (fields_match_sound _ _ _ generated_fields_match H)
                            (fields_wf_sound _ _ _ generated_fields_wf H)).
Qed.
Print Assumptions C15_emitted_is_model.

Theorem C15_emitted_roundtrip : forall f ir g st v s s', In (f, ir) fields ->
  strukt_ok s -> value_ok (fd_kind f) v -> a_get ir = Some g -> a_set ir = Some st ->
  run_setter st v s = Ok s' -> run_getter g (fd_default f) s' = Ok (readback f v).
Proof. exact emitted_roundtrip. Qed.
Print Assumptions C15_emitted_roundtrip.

Theorem C15_emitted_sizes : forall n ir, In (n, ir) nodes -> nd_isgroup n = false ->
  ni_new ir = Some (8 * nd_dwc n, nd_pc n) /\ ni_newroot ir = Some (8 * nd_dwc n, nd_pc n) /\
  ni_list ir = Some (8 * nd_dwc n, nd_pc n) /\ ni_typeid ir = Some (nd_id n).
Proof. exact emitted_sizes. Qed.
Print Assumptions C15_emitted_sizes.

(* generated type names: whatever qualified Go type / constructor an emitted getter, setter, NewX or
   client method signature names resolves (through the emitted import block) to the package and
   type whose X_TypeID is the schema's type id -- in particular the right Foo_List wrapper *)
Theorem C15_emitted_typerefs : forall t ids x, In (t, ids) typerefs -> In x ids -> x = t.
Proof. exact emitted_typerefs. Qed.
Print Assumptions C15_emitted_typerefs.

(* pointer defaults: the getter's StructDefault/ListDefault/Default argument and the pipelined accessor
   X_Future.F() = p.Future.Field(slot, default) name the field's own pointer slot and exactly the bytes
   of the field's own default (nil when it has none) *)
Theorem C15_emitted_defaults : forall k want got, In (k, (want, got)) defrefs -> got = want.
Proof. exact emitted_defrefs. Qed.
Print Assumptions C15_emitted_defaults.
