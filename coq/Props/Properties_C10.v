(* C10 — a capability is shut down exactly once, only after its last user is gone.
   Statements only (the statements themselves are the Definitions ..._stmt in
   coq/Cap/CapInv.v and coq/Cap/CapProofs.v); each is closed by [exact] of a lemma proved in
   coq/Cap.  All theorems are about the small-step model coq/Cap/Cap.v in the variant
   [fixed = true] (capability.go after the repair of ClientPromise.Fulfill) and quantify over
   ALL thread programs and ALL schedules ([reachable] = reflexive-transitive closure of
   [step] over any choice of thread).  [misuse g = false] restricts to executions in which
   the callers kept the API contract (see ASSUMPTIONS in props/C10.py). *)
From Coq Require Import ZArith List.
From CV Require Import Cap.Cap Cap.CapInv Cap.CapProofs Cap.CapWf Cap.CapLive Cap.CapTerm Cap.CapRefuted.
Open Scope Z_scope.

(* the inductive invariant (reference accounting, call accounting, done/shutdown protocol,
   mutex protocol, resolution-chain facts) holds in every reachable configuration *)
Theorem C10_invariant : forall progs g, reachable true (init progs) g -> misuse g = false -> Inv g.
Proof. exact reachable_inv. Qed.
Print Assumptions C10_invariant.

Theorem C10_shutdown_once : shutdown_once_stmt.
Proof. exact shutdown_once. Qed.
Print Assumptions C10_shutdown_once.

Theorem C10_shutdown_after_last : shutdown_after_last_stmt.
Proof. exact shutdown_after_last. Qed.
Print Assumptions C10_shutdown_after_last.

Theorem C10_refs_transfer : refs_transfer_stmt.
Proof. exact refs_transfer. Qed.
Print Assumptions C10_refs_transfer.

Theorem C10_refs_transfer_step : refs_transfer_step_stmt.
Proof. exact refs_transfer_step. Qed.
Print Assumptions C10_refs_transfer_step.

Theorem C10_null_released_error : null_released_error_stmt.
Proof. exact null_released_error. Qed.
Print Assumptions C10_null_released_error.

(* well-formedness of ids and acyclicity of the resolution graph are invariants *)
Theorem C10_ids_wf : forall fixed progs g, reachable fixed (init progs) g -> WF g.
Proof. exact reachable_wf. Qed.
Print Assumptions C10_ids_wf.

Theorem C10_acyclic : forall progs g, reachable true (init progs) g -> misuse g = false -> Acyc g.
Proof. exact reachable_acyc. Qed.
Print Assumptions C10_acyclic.

(* deadlock freedom: every reachable configuration of a contract-respecting execution with an
   unfinished thread has an enabled step (for a thread inside a call-out: the application's
   return) *)
Theorem C10_no_stuck : no_stuck_stmt.
Proof. exact no_stuck. Qed.
Print Assumptions C10_no_stuck.

(* termination: the step relation is well-founded on reachable contract-respecting
   configurations (no infinite execution, in particular no API call whose own steps go on
   forever), and the per-thread measure of a call's own steps *)
Theorem C10_terminates : terminates_stmt.
Proof. exact terminates. Qed.
Print Assumptions C10_terminates.

Theorem C10_own_steps_decrease : own_steps_decrease_stmt.
Proof. exact own_steps_decrease. Qed.
Print Assumptions C10_own_steps_decrease.

(* the code as found violates the property (model variant fixed = false) *)
Theorem C10_prefix_refuted :
  exists g, reachable false (init refuted_progs) g /\ misuse g = false /\
            (forall th, In th (threads g) -> unfinished th = false) /\
            exists hk, get_hook g 0%nat = Some hk /\ h_refs hk = 1 /\ h_shut hk = 1.
Proof. exact prefix_refuted. Qed.
Print Assumptions C10_prefix_refuted.

(* the seeded "early unlock" placement of cp.h.mu.Unlock() in Fulfill (third model variant)
   violates the property as well *)
Theorem C10_early_unlock_refuted :
  exists g, reachable_with step_early (init early_progs) g /\ misuse g = false /\
            (forall th, In th (threads g) -> unfinished th = false) /\
            exists hk, get_hook g 0%nat = Some hk /\ h_refs hk = 1 /\ h_shut hk = 1.
Proof. exact early_unlock_refuted. Qed.
Print Assumptions C10_early_unlock_refuted.
