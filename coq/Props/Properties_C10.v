(* C10 — a capability is shut down exactly once, only after its last user is gone.
   Statements only; each is closed by [exact] of a lemma proved in coq/Cap. *)
From CV Require Import Cap.Cap Cap.CapProofs.
Open Scope Z_scope.

(* calls through nil / released / resolved-to-null clients give error answers and never
   reach a capability *)
Theorem C10_null_released_error : null_released_error_stmt.
Proof. exact null_released_error. Qed.
Print Assumptions C10_null_released_error.
