(* C10 — a capability is shut down exactly once, only after its last user is gone.
   Statements only (the statements themselves are the Definitions ..._stmt in
   coq/Cap/CapInv.v, CapProofs.v, CapLive.v and CapTerm.v); each is closed by [exact] of a lemma
   proved in coq/Cap.  Unless a theorem quantifies over [fixed], it is about the small-step model
   coq/Cap/Cap.v in the variant [fixed = true] (capability.go after the repair of
   ClientPromise.Fulfill); the two [_refuted] theorems are about the other variants
   ([fixed = false]: the code as found; [step_early]: a seeded lock placement).  They quantify over
   ALL thread programs and ALL schedules ([reachable] = reflexive-transitive closure of
   [step] over any choice of thread).  [misuse g = false] restricts to executions in which
   the callers kept the API contract (see ASSUMPTIONS in props/C10.py). *)
From Coq Require Import ZArith List.
From CV Require Import Cap.Cap Cap.CapInv Cap.CapProofs Cap.CapWf Cap.CapLive Cap.CapTerm Cap.CapRefuted.
Open Scope Z_scope.

(* the inductive invariant (reference accounting, call accounting, done/shutdown protocol,
   mutex protocol, resolution-chain facts) holds in every reachable configuration *)
Theorem C10_invariant : forall progs g, reachable true (init progs) g -> misuse g = false -> Inv g.
Proof. exact reachable_inv. Qed.
Print Assumptions C10_invariant.

Theorem C10_shutdown_once : shutdown_once_stmt.
Proof. exact shutdown_once. Qed.
Print Assumptions C10_shutdown_once.

Theorem C10_shutdown_after_last : shutdown_after_last_stmt.
Proof. exact shutdown_after_last. Qed.
Print Assumptions C10_shutdown_after_last.

Theorem C10_refs_transfer : refs_transfer_stmt.
Proof. exact refs_transfer. Qed.
Print Assumptions C10_refs_transfer.

Theorem C10_refs_transfer_step : refs_transfer_step_stmt.
Proof. exact refs_transfer_step. Qed.
Print Assumptions C10_refs_transfer_step.

(* calls through dead clients, over all histories: on a nil client, on a released client (in
   every reachable contract-respecting configuration, as soon as the call holds the client's
   mutex), and on a client whose chain ends in a promise resolved to nil, the call ends with
   the error result, emits no event and touches no hook.  The (released) case rests on the
   invariant C10_released_no_hook. *)
Theorem C10_released_no_hook : released_no_hook_stmt.
Proof. exact released_no_hook. Qed.
Print Assumptions C10_released_no_hook.

Theorem C10_null_released_error : dead_client_calls_stmt.
Proof. exact dead_client_calls. Qed.
Print Assumptions C10_null_released_error.

(* the one-step fact used above: a call that holds the mutex of a client without hook ends
   with the error (any configuration, both variants) *)
Theorem C10_hookless_call_step : null_released_error_stmt.
Proof. exact null_released_error. Qed.
Print Assumptions C10_hookless_call_step.

(* calls are delivered only to live hooks, and never after the hook's Shutdown: at the step
   that emits Send/Recv on h, h has a reference, h_shut = 0, done is open; h_shut equals the
   number of Shutdown events of h in the log (both variants), so the log has none *)
Theorem C10_call_delivered_live : call_delivered_live_stmt.
Proof. exact call_delivered_live. Qed.
Print Assumptions C10_call_delivered_live.

Theorem C10_shut_counts_events : forall fixed progs g, reachable fixed (init progs) g -> TraceInv g.
Proof. exact reachable_trace. Qed.
Print Assumptions C10_shut_counts_events.

Theorem C10_no_call_after_shutdown : no_call_after_shutdown_stmt.
Proof. exact no_call_after_shutdown. Qed.
Print Assumptions C10_no_call_after_shutdown.

(* well-formedness of ids and acyclicity of the resolution graph are invariants *)
Theorem C10_ids_wf : forall fixed progs g, reachable fixed (init progs) g -> WF g.
Proof. exact reachable_wf. Qed.
Print Assumptions C10_ids_wf.

Theorem C10_acyclic : forall progs g, reachable true (init progs) g -> misuse g = false -> Acyc g.
Proof. exact reachable_acyc. Qed.
Print Assumptions C10_acyclic.

(* deadlock freedom: every reachable configuration of a contract-respecting execution with an
   unfinished thread has an enabled step (for a thread inside a call-out: the application's
   return) *)
Theorem C10_no_stuck : no_stuck_stmt.
Proof. exact no_stuck. Qed.
Print Assumptions C10_no_stuck.

(* a contract-respecting run that cannot continue has finished all its operations (with
   C10_terminates: every maximal contract-respecting run ends with all threads finished) *)
Theorem C10_quiescent_all_finished : quiescent_all_finished_stmt.
Proof. exact quiescent_all_finished. Qed.
Print Assumptions C10_quiescent_all_finished.

(* termination: the step relation is well-founded on reachable contract-respecting
   configurations (no infinite execution, in particular no API call whose own steps go on
   forever), and the per-thread measure of a call's own steps *)
Theorem C10_terminates : terminates_stmt.
Proof. exact terminates. Qed.
Print Assumptions C10_terminates.

Theorem C10_own_steps_decrease : own_steps_decrease_stmt.
Proof. exact own_steps_decrease. Qed.
Print Assumptions C10_own_steps_decrease.

(* the code as found violates the property (model variant fixed = false) *)
Theorem C10_prefix_refuted :
  exists g, reachable false (init refuted_progs) g /\ misuse g = false /\
            (forall th, In th (threads g) -> unfinished th = false) /\
            exists hk, get_hook g 0%nat = Some hk /\ h_refs hk = 1 /\ h_shut hk = 1.
Proof. exact prefix_refuted. Qed.
Print Assumptions C10_prefix_refuted.

(* the seeded "early unlock" placement of cp.h.mu.Unlock() in Fulfill (third model variant)
   violates the property as well *)
Theorem C10_early_unlock_refuted :
  exists g, reachable_with step_early (init early_progs) g /\ misuse g = false /\
            (forall th, In th (threads g) -> unfinished th = false) /\
            exists hk, get_hook g 0%nat = Some hk /\ h_refs hk = 1 /\ h_shut hk = 1.
Proof. exact early_unlock_refuted. Qed.
Print Assumptions C10_early_unlock_refuted.
