(* C17 — totality of Equal: it ANSWERS (b, nil) -- never an error, a panic or fuel exhaustion --
   whenever the depth limits and traversal budgets cover both pointers.  Statements only.
   [trav strict m p d c] (Value/EqualTotal.v): pointer p of message m can be traversed; the
   nesting needs depth budget d; the read sizes (LimitProofs.readSize) of all pointers that
   Struct.Ptr can hand out below p sum to at most c.  [budgets_cover x w a b]: the remaining
   traversal budgets w cover a for message A and b for message B (a + b when both pointers
   are in one message). *)
From CV Require Import Value.ValueEq Value.EqualM Value.Den Value.CanonSpec Value.EqualCorrect Value.EqualSafe
                       Value.EqualTotal Value.EqualTotalDen.
From CV Require Import Core.ReaderFacts Core.SafetyProofs Core.LimitProofs.
Open Scope Z_scope.

(* totality: all configurations with the repaired reader, all messages, one message or two, all
   well-formed traversable pointers; slack ra / rb: Equal consumes at most ca / cb *)
Theorem C17_equal_m_total : forall c fx x fuel w p q da ca db cb D,
  cfg_strict c = true -> fx_bitlist fx = true -> fx_depth (fx_rd fx) = true ->
  msg_ok (segs_of x SA) -> msg_ok (segs_of x SB) ->
  wf_ptr (segs_of x SA) p -> wf_ptr (segs_of x SB) q -> lims_nonneg w ->
  trav true (segs_of x SA) p da ca -> trav true (segs_of x SB) q db cb ->
  da <= p_depth p -> db <= p_depth q -> 0 <= p_depth p <= D - 1 -> 0 <= p_depth q <= D - 1 ->
  D + 2 <= Z.of_nat fuel -> D <= two64 ->
  forall ra rb, 0 <= ra -> 0 <= rb -> budgets_cover x w (ca + ra) (cb + rb) ->
  exists b w', equal_m fuel c fx x w p q = (EOk b, w') /\ lims_le w' w /\ budgets_cover x w' ra rb.
Proof. exact equal_m_total. Qed.
Print Assumptions C17_equal_m_total.

(* every pointer that denotes a value is traversable, with depth = nesting depth of the value *)
Theorem C17_den_trav : forall strict m mid caps, msg_ok m -> forall n v, (vdepth v <= n)%nat -> forall p,
  den strict m mid caps p v -> exists c, trav strict m p (Z.of_nat n) c.
Proof. exact den_trav. Qed.
Print Assumptions C17_den_trav.

(* total correctness: pointers denoting va / vb are answered with exactly value_eq va vb under
   all limits covering the measures *)
Theorem C17_equal_m_answers : forall c fx x p q va vb,
  cfg_strict c = true -> all_fixed fx -> msg_ok (segs_of x SA) -> msg_ok (segs_of x SB) ->
  wf_ptr (segs_of x SA) p -> wf_ptr (segs_of x SB) q ->
  den true (segs_of x SA) 0 (caps_of x SA) p va ->
  den true (segs_of x SB) (if ec_same x then 0 else 1) (caps_of x SB) q vb ->
  exists ca cb,
    trav true (segs_of x SA) p (Z.of_nat (vdepth va)) ca /\ trav true (segs_of x SB) q (Z.of_nat (vdepth vb)) cb /\
    forall fuel w D ra rb,
      lims_nonneg w -> Z.of_nat (vdepth va) <= p_depth p <= D - 1 -> Z.of_nat (vdepth vb) <= p_depth q <= D - 1 ->
      D + 2 <= Z.of_nat fuel -> D <= two64 -> 0 <= ra -> 0 <= rb -> budgets_cover x w (ca + ra) (cb + rb) ->
      exists w', equal_m fuel c fx x w p q = (EOk (value_eq va vb), w') /\ lims_le w' w /\ budgets_cover x w' ra rb.
Proof. exact equal_m_answers. Qed.
Print Assumptions C17_equal_m_answers.

(* non-vacuity *)
Theorem C17_equal_total_example :
  let c := mkCfg 1000 4 true true in
  let fx := mkEFix true true (mkFix true true true) in
  let x := mkEC eq_deep_msg [] eq_deep_msg [] true in
  exists p rl0 v ca,
    root c eq_deep_msg 1000 = (Ok p, rl0) /\ wf_ptr eq_deep_msg p /\
    den true eq_deep_msg 0 [] p v /\ trav true eq_deep_msg p (Z.of_nat (vdepth v)) ca /\
    equal_m 6 c fx x (rl0, 0) p p = (EOk true, (rl0 - 16, 0)).
Proof. exact equal_total_example. Qed.
Print Assumptions C17_equal_total_example.

(* PARTIAL (see Value/EqualTotalDen.v): a denotation exists whenever the executable decoder
   succeeds; the link from the Spec validity predicate to that success is not proved *)
Theorem C17_den_defined_of_valid_partial : forall fuel lcap m mid caps p v,
  msg_ok m -> Value.VDec.vdec fuel lcap m mid caps p = Some v ->
  den true m mid caps p v /\ exists c, trav true m p (Z.of_nat (vdepth v)) c.
Proof. exact den_defined_of_valid_partial. Qed.
Print Assumptions C17_den_defined_of_valid_partial.
