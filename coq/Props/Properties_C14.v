(* C14 — stream framing is exact and decoding is bounded by the configured limits.
   Statements only; each is closed by [exact] of a lemma proved in coq/Frame/. *)
From CV Require Import Frame.Frame.
From CV Require Import Frame.FrameProofs.
From CV Require Import Frame.FrameSafe.
From CV Require Import Frame.FrameStream.
From CV Require Import Frame.FrameThms.
From CV Require Import Frame.FrameAlloc.
From CV Require Import Frame.FramePacked.
From CV Require Import Frame.FramePackedProofs.
From CV Require Import Frame.FrameSim.
From CV Require Import Frame.FramePackedThms.
From CV Require Import Packed.ReadCallProofs2.
From CV Require Import Frame.FramePackedFull.
From CV Require Import Frame.FrameReaders.
From CV Require Import Frame.FrameReadersProofs.
From CV Require Import Frame.FrameReuse.
From CV Require Import Frame.FrameReuseProofs.
From CV Require Import Base.GoSem.
From CV Require Import Gen.GoArith.
From CV Require Import Frame.FrameGoAgree.
Open Scope Z_scope.

(* Any list of messages written by Encoder.Encode (repaired: unaligned segments are refused),
   each within the decoder's limits, concatenated and delivered in ANY chunking, with or
   without ReuseBuffer, with any buffer capacities left from earlier calls: the Decode calls
   return the same messages in order and then io.EOF. *)
Theorem C14_decode_encode_stream : forall msgs frames cs hc bc ru mx,
  max_ok mx ->
  Forall2 (fun m f => encode true m = Ok f) msgs frames ->
  Forall (fun m => len m <= max_stream_segments) msgs ->
  Forall (fun f => len f <= eff_max mx) frames ->
  concat cs = concat frames ->
  exists st' outs,
    decode_n (mkD (mkReader cs EOF) hc bc ru mx) (S (length msgs)) = (st', outs)
    /\ map fst outs = map DMsg msgs ++ [DEof].
Proof. exact decode_encode_stream. Qed.
Print Assumptions C14_decode_encode_stream.

(* A stream that ends strictly inside a frame (after any number of whole frames): the whole
   frames are returned, then an error; never io.EOF, never a message. Any chunking, with and
   without reuse, any final error of the reader. *)
Theorem C14_cut_is_error : forall msgs m q tail cs fin hc bc ru mx,
  max_ok mx -> Forall (frame_ok mx) msgs -> frame_ok mx m ->
  frame m = q ++ tail -> q <> [] -> tail <> [] ->
  concat cs = concat (map frame msgs) ++ q ->
  exists st' outs e,
    decode_n (mkD (mkReader cs fin) hc bc ru mx) (S (length msgs)) = (st', outs)
    /\ map fst outs = map DMsg msgs ++ [DErr e] /\ (e = EReadHeader \/ e = EReadSegs).
Proof. exact cut_is_error. Qed.
Print Assumptions C14_cut_is_error.

(* every cut point is either a frame boundary or strictly inside one frame *)
Theorem C14_cut_decompose : forall (fs : list (list Z)) p tl,
  Forall (fun f => f <> []) fs -> concat fs = p ++ tl ->
  exists j q, p = concat (firstn j fs) ++ q /\
    (q = [] \/ exists t, nth_error fs j = Some (q ++ t) /\ q <> [] /\ t <> []).
Proof. exact cut_decompose. Qed.
Print Assumptions C14_cut_decompose.

(* For ALL input bytes and any decoder state: buffers requested by one Decode <= the
   effective MaxMessageSize; at most 512 segments accepted (= maxStreamSegments; the repaired code tests maxSeg >= 512,
   the code as found accepted 513: C14_accepts_513_refuted); no panic; a returned message is well formed and its
   framed size is within the limit. *)
Theorem C14_alloc_bound : forall cs fin hc bc ru mx st' out log,
  bytes_ok (concat cs) -> 0 <= mx < two64 ->
  decode1 (mkD (mkReader cs fin) hc bc ru mx) = (st', out, log) ->
  0 <= alloc_bytes log <= eff_max mx /\
  0 <= alloc_table log <= max_stream_segments /\
  out <> DPanic /\
  (forall segs, out = DMsg segs ->
     1 <= len segs <= max_stream_segments /\ segs_ok segs /\
     stream_header_size (len segs - 1) + sum_len segs <= eff_max mx) /\
  bytes_ok (concat (r_chunks (d_rd st'))) /\ d_max st' = mx.
Proof. exact alloc_bound. Qed.
Print Assumptions C14_alloc_bound.

(* the same for every history of Decode and ReuseBuffer calls *)
Theorem C14_alloc_bound_history : forall ops st st' outs,
  (forall m, ~ In (OpSetMax m) ops) -> st_ok st -> run_history st ops = (st', outs) ->
  Forall (fun ol => 0 <= alloc_bytes (snd ol) <= eff_max (d_max st) /\
                    alloc_table (snd ol) <= max_stream_segments /\ fst ol <> DPanic /\
                    forall segs, fst ol = DMsg segs -> len segs <= max_stream_segments) outs.
Proof. exact alloc_bound_history. Qed.
Print Assumptions C14_alloc_bound_history.

(* Unmarshal (Marshal segs) = segs, also with trailing bytes; for 1 .. 2^30-1 segments (beyond
   that the uint32 index 4+i*4 of segmentSize wraps, see C14_seg_index_wraps) *)
Theorem C14_unmarshal_roundtrip : forall segs, count_ok segs -> segs_ok segs ->
  exists b, marshal segs = Ok b /\ unmarshal b = Ok segs /\ forall junk, unmarshal (b ++ junk) = Ok segs.
Proof. exact unmarshal_roundtrip. Qed.
Print Assumptions C14_unmarshal_roundtrip.

(* Marshal and the repaired Encode write the same bytes *)
Theorem C14_encode_is_marshal : forall segs, count_ok segs -> segs_ok segs ->
  marshal segs = Ok (frame segs) /\ encode true segs = Ok (frame segs).
Proof. exact encode_is_marshal. Qed.
Print Assumptions C14_encode_is_marshal.

(* Unmarshal of arbitrary bytes: no panic, at most 6 bytes allocated per input byte *)
Theorem C14_unmarshal_safe : forall data, bytes_ok data -> unmarshal data <> Panic.
Proof. exact unmarshal_safe. Qed.
Print Assumptions C14_unmarshal_safe.

Theorem C14_unmarshal_alloc_linear : forall data, bytes_ok data ->
  0 <= unmarshal_alloc data <= 6 * len data.
Proof. exact unmarshal_alloc_linear. Qed.
Print Assumptions C14_unmarshal_alloc_linear.

(* chunk independence of io.ReadFull: outcome, remaining bytes and final error are a
   function of the concatenated stream *)
Theorem C14_read_full_chunking : forall cs fin need got,
  flat (read_full_loop cs fin need got) = read_full_flat (concat cs) fin need got.
Proof. exact read_full_loop_flat. Qed.
Print Assumptions C14_read_full_chunking.

(* ---------------------------------------------------------------- ReuseBuffer at the level of buffer contents *)

(* In the theorems above "reuse on/off, any hc bc" means: the reuse FLAG and the buffer
   CAPACITIES; Frame.v's decoder has value semantics and does not represent what the reused
   buffers contain nor the reused Message object.  FrameReuse.v does: d.hdrbuf / d.buf keep their
   old bytes when large enough, segments are slices of d.buf's array, the returned Message is the
   one object d.msg with its cache of loaded segments, which Message.Reset must drop.
   One Decode of that model, from ANY previous buffer contents and ANY state of the segment cache,
   on any byte stream: same outcome and same capacities as the capacities-only decoder with the
   reuse flag on, and the segments the caller reads through Message.Segment are the message's. *)
Theorem C14_rdecode1_refines : forall st,
  bytes_ok (concat (r_chunks (u_rd st))) -> (u_cur st < length (u_heap st))%nat ->
  ref_ok (rdecode1 st) (decode1 (u_abs st)).
Proof. exact rdecode1_refines. Qed.
Print Assumptions C14_rdecode1_refines.

(* ... and for every history  Decode; read all segments; Decode; ...  (reading fills the cache
   that the next Reset has to drop).  With C14_decode_encode_stream / C14_cut_is_error /
   C14_alloc_bound at ru = true (they hold for both values of ru and every hc bc) this gives:
   decoding with ReuseBuffer, whatever the buffers held before, returns what decoding without
   ReuseBuffer returns.  (The general "ru = true and ru = false give the same outcome on every
   byte stream" is not stated as one lemma; it follows for streams of frames and for cut streams
   from the theorems named, and is exercised by the differential run on arbitrary streams.) *)
Theorem C14_reuse_history_refines : forall n st, ust_ok st ->
  Forall2 (fun ro d => out_match (fst d) (fst ro) (snd ro))
          (rdecode_read_n ResetFull st n) (snd (decode_n (u_abs st) n)).
Proof. exact reuse_history_refines. Qed.
Print Assumptions C14_reuse_history_refines.

(* the two broken Message.Reset variants seen as seeded changes (reset only "if arena != m.Arena";
   firstSeg not cleared): the caller gets the previous message's slice over the new bytes *)
Theorem C14_reset_variants_refuted :
  let f1 := frame [[1; 2; 3; 4; 5; 6; 7; 8; 9; 9; 9; 9; 9; 9; 9; 9]] in
  let f2 := frame [[7; 7; 7; 7; 7; 7; 7; 7]] in
  let st := mkU (mkReader [f1 ++ f2] EOF) [5; 5; 5] [[6; 6; 6]] 0 msg0 0 in
  ust_ok st /\
  map snd (rdecode_read_n ResetFull st 3)
    = [[Some [1; 2; 3; 4; 5; 6; 7; 8; 9; 9; 9; 9; 9; 9; 9; 9]]; [Some [7; 7; 7; 7; 7; 7; 7; 7]]; []] /\
  nth 1 (map snd (rdecode_read_n ResetIfArenaDiffers st 3)) [] = [Some [7; 7; 7; 7; 7; 7; 7; 7; 9; 9; 9; 9; 9; 9; 9; 9]] /\
  nth 1 (map snd (rdecode_read_n ResetKeepsFirst st 3)) [] = [Some [7; 7; 7; 7; 7; 7; 7; 7; 9; 9; 9; 9; 9; 9; 9; 9]].
Proof. exact reset_variants_refuted. Qed.
Print Assumptions C14_reset_variants_refuted.

(* ---------------------------------------------------------------- every reader behaviour the io.Reader contract permits *)

(* io.ReadFull over a reader that may also deliver its final io.EOF together with the last bytes
   ([tog]) and make (0, nil) reads (empty chunks): outcome and remaining bytes are a function of
   the concatenated stream only *)
Theorem C14_read_full_any_reader : forall cs tog need got,
  (fst (xread_full_loop cs EOF tog need got),
   concat (x_chunks (snd (xread_full_loop cs EOF tog need got))),
   x_final (snd (xread_full_loop cs EOF tog need got)))
  = read_full_flat (concat cs) EOF need got
  /\ x_tog (snd (xread_full_loop cs EOF tog need got)) = tog.
Proof. exact xread_full_loop_flat. Qed.
Print Assumptions C14_read_full_any_reader.

(* C14_decode_encode_stream / C14_cut_is_error for all of these behaviours: any chunking, empty
   reads, io.EOF with the last bytes or by a separate read *)
Theorem C14_decode_encode_stream_any_reader : forall msgs frames cs tog hc bc ru mx,
  max_ok mx ->
  Forall2 (fun m f => encode true m = Ok f) msgs frames ->
  Forall (fun m => len m <= max_stream_segments) msgs ->
  Forall (fun f => len f <= eff_max mx) frames ->
  concat cs = concat frames ->
  exists st' outs,
    gdecode_n xread_full (mkD (mkX cs EOF tog) hc bc ru mx) (S (length msgs)) = (st', outs)
    /\ map fst outs = map DMsg msgs ++ [DEof].
Proof. exact decode_encode_stream_any_reader. Qed.
Print Assumptions C14_decode_encode_stream_any_reader.

Theorem C14_cut_is_error_any_reader : forall msgs m q tail cs tog hc bc ru mx,
  max_ok mx -> Forall (frame_ok mx) msgs -> frame_ok mx m ->
  frame m = q ++ tail -> q <> [] -> tail <> [] ->
  concat cs = concat (map frame msgs) ++ q ->
  exists st' outs e,
    gdecode_n xread_full (mkD (mkX cs EOF tog) hc bc ru mx) (S (length msgs)) = (st', outs)
    /\ map fst outs = map DMsg msgs ++ [DErr e] /\ (e = EReadHeader \/ e = EReadSegs).
Proof. exact cut_is_error_any_reader. Qed.
Print Assumptions C14_cut_is_error_any_reader.

(* ---------------------------------------------------------------- packed paths (C13 composed with C14) *)

(* bufio.Reader is not modelled: packed.Reader's two questions to it (Buffered() >= 9 for the
   fast path, Buffered() < 9 for a short read) are free oracles [orc]; "any chunking of the
   packed stream" is "any oracle". *)

(* MarshalPacked then UnmarshalPacked returns the segments *)
Theorem C14_unmarshal_packed_marshal_packed : forall segs, count_ok segs -> segs_ok segs -> msg_bytes segs ->
  exists p, marshal_packed segs = Ok p /\ unmarshal_packed p = Ok segs.
Proof. exact unmarshal_packed_marshal_packed. Qed.
Print Assumptions C14_unmarshal_packed_marshal_packed.

(* any message list written by NewPackedEncoder and read by NewPackedDecoder from the
   concatenated packed stream, every oracle, reuse on/off, any buffer state: the messages in
   order, then io.EOF *)
Theorem C14_decode_packed_encode_packed : forall msgs P orc hc bc ru mx,
  max_ok mx -> Forall (pmsg_ok mx) msgs -> encode_packed_stream msgs = Ok P ->
  exists st' outs,
    pdecode_n (mkD (p_init orc P) hc bc ru mx) (S (length msgs)) = (st', outs)
    /\ map fst outs = map DMsg msgs ++ [DEof].
Proof. exact decode_packed_encode_packed. Qed.
Print Assumptions C14_decode_packed_encode_packed.

(* a packed string accepted by the one-shot decoder whose unpacked form ends strictly inside a
   frame (a packed stream cut at a packed-item boundary that is not a frame boundary): whole
   frames, then an error, never io.EOF *)
Theorem C14_packed_cut_is_error : forall msgs m q tail qp orc hc bc ru mx,
  max_ok mx -> Forall (frame_ok mx) msgs -> frame_ok mx m ->
  frame m = q ++ tail -> q <> [] -> tail <> [] ->
  bytes_ok qp -> unpack qp = Some (concat (map frame msgs) ++ q) ->
  exists st' outs e,
    pdecode_n (mkD (p_init orc qp) hc bc ru mx) (S (length msgs)) = (st', outs)
    /\ map fst outs = map DMsg msgs ++ [DErr e] /\ (e = EReadHeader \/ e = EReadSegs).
Proof. exact packed_cut_is_error. Qed.
Print Assumptions C14_packed_cut_is_error.

(* ANY packed input, every oracle.  packed.Reader hands out fst (unpack_partial P) (C13_read_calls_partial);
   if that is the frames of [msgs] followed by [q] with q a non-empty strict prefix of a further
   frame, or q empty while P does not unpack (cut inside a packed item at a frame boundary of what
   was handed out): NewPackedDecoder returns exactly [msgs], in order, then an error, never io.EOF.
   (Replaces the weaker C14_packed_cut_inside_item_no_eof of round 2.) *)
Theorem C14_packed_cut_inside_item : forall msgs P q orc hc bc ru mx,
  max_ok mx -> Forall (frame_ok mx) msgs -> bytes_ok P ->
  fst (unpack_partial P) = concat (map frame msgs) ++ q ->
  ((exists m tail, frame_ok mx m /\ frame m = q ++ tail /\ q <> [] /\ tail <> []) \/
   (q = [] /\ snd (unpack_partial P) = false)) ->
  exists st' outs e,
    pdecode_n (mkD (p_init orc P) hc bc ru mx) (S (length msgs)) = (st', outs)
    /\ map fst outs = map DMsg msgs ++ [DErr e] /\ (e = EReadHeader \/ e = EReadSegs).
Proof. exact packed_cut_inside_item. Qed.
Print Assumptions C14_packed_cut_inside_item.

(* the packed stream written by NewPackedEncoder for [all], cut ANYWHERE (P ++ rest): what the
   reader hands out for P is the frames of the first j messages followed by q, q empty or a
   strict prefix of the next frame ... *)
Theorem C14_packed_stream_cut_shape : forall mx all Pfull P rest,
  max_ok mx -> Forall (pmsg_ok mx) all -> encode_packed_stream all = Ok Pfull -> Pfull = P ++ rest ->
  bytes_ok P /\
  exists j q, fst (unpack_partial P) = concat (map frame (firstn j all)) ++ q /\
    (q = [] \/ exists m t, nth_error all j = Some m /\ frame m = q ++ t /\ q <> [] /\ t <> []).
Proof. exact packed_stream_cut_shape. Qed.
Print Assumptions C14_packed_stream_cut_shape.

(* ... and unless the cut is clean (q empty and P unpacks: a packed frame boundary) the decoder
   returns the first j messages and then an error *)
Theorem C14_packed_stream_cut_is_error : forall mx all Pfull P rest orc hc bc ru,
  max_ok mx -> Forall (pmsg_ok mx) all -> encode_packed_stream all = Ok Pfull -> Pfull = P ++ rest ->
  forall j q, fst (unpack_partial P) = concat (map frame (firstn j all)) ++ q ->
  (q = [] \/ exists m t, nth_error all j = Some m /\ frame m = q ++ t /\ q <> [] /\ t <> []) ->
  (q <> [] \/ snd (unpack_partial P) = false) ->
  exists st' outs e,
    pdecode_n (mkD (p_init orc P) hc bc ru mx) (S (length (firstn j all))) = (st', outs)
    /\ map fst outs = map DMsg (firstn j all) ++ [DErr e] /\ (e = EReadHeader \/ e = EReadSegs).
Proof. exact packed_stream_cut_is_error. Qed.
Print Assumptions C14_packed_stream_cut_is_error.

(* the simulation behind these: on any bytes_ok packed input the packed decoder's outcomes are,
   up to and including the first one that is not a message, those of the plain Decoder over what
   the reader hands out, ended by io.EOF or io.ErrUnexpectedEOF according to unpack's verdict *)
Theorem C14_pdecode_n_any_packed : forall P orc hc bc ru mx n k, bytes_ok P -> (k < n)%nat ->
  let U := fst (unpack_partial P) in
  let fin := verdict (snd (unpack_partial P)) in
  let outs_plain := snd (decode_n (mkD (mkReader [U] fin) hc bc ru mx) n) in
  let outs_packed := snd (pdecode_n (mkD (p_init orc P) hc bc ru mx) n) in
  bytes_ok U /\
  (all_msgs (firstn k outs_plain) = true -> firstn (S k) outs_packed = firstn (S k) outs_plain).
Proof. exact pdecode_n_any_packed. Qed.
Print Assumptions C14_pdecode_n_any_packed.

(* prefixes of a packed stream accepted by the one-shot decoder unpack to prefixes of the
   unpacked stream; and the one-shot decoder is compositional *)
Theorem C14_packed_prefix : forall qp rest U o,
  unpack (qp ++ rest) = Some U -> unpack qp = Some o -> exists o', U = o ++ o' /\ unpack rest = Some o'.
Proof. exact packed_prefix_unpacks_to_prefix. Qed.
Print Assumptions C14_packed_prefix.

Theorem C14_unpack_app : forall a oa b, unpack a = Some oa -> unpack (a ++ b) = option_map (app oa) (unpack b).
Proof. exact unpack_app. Qed.
Print Assumptions C14_unpack_app.

(* C04's last sentence at the segment level: every serialisation path returns the same
   segment list (cited by Properties_C04.v) *)
Theorem all_paths_same_segments : forall segs mx, max_ok mx -> frame_ok mx segs -> msg_bytes segs ->
  exists b p pe,
    marshal segs = Ok b /\ encode true segs = Ok b /\
    marshal_packed segs = Ok p /\ encode_packed true segs = Ok pe /\
    unmarshal b = Ok segs /\
    unmarshal_packed p = Ok segs /\
    (forall cs hc bc ru, concat cs = b ->
       exists st' log, decode1 (mkD (mkReader cs EOF) hc bc ru mx) = (st', DMsg segs, log)) /\
    (forall orc hc bc ru,
       exists st' log, pdecode1 (mkD (p_init orc pe) hc bc ru mx) = (st', DMsg segs, log)) /\
    unmarshal_packed pe = Ok segs /\
    (forall orc hc bc ru,
       exists st' log, pdecode1 (mkD (p_init orc p) hc bc ru mx) = (st', DMsg segs, log)).
Proof. exact FramePackedThms.all_paths_same_segments. Qed.
Print Assumptions all_paths_same_segments.

(* tie to the translated Go source (coq/Gen/GoArith.v is regenerated from /repo by gotrans on
   every run): the overflow-checked multiplication used by segmentSize is Size.times *)
Theorem C14_word_times_is_go_times : forall n, -2147483648 <= n < 2147483648 ->
  go_times word_size n = match word_times n with Some x => (x, true) | None => (4294967295, false) end.
Proof. exact word_times_is_go_times. Qed.
Print Assumptions C14_word_times_is_go_times.

(* findings / observations kept as refuted variants *)
(* F21: Encode as found accepts an unaligned segment: corrupt frame, panic in the packed encoder *)
Theorem C14_encode_unaligned_refuted :
  encode false [[1; 2; 3; 4; 5; 6; 7; 8; 9]] = Ok ([0; 0; 0; 0; 1; 0; 0; 0] ++ [1; 2; 3; 4; 5; 6; 7; 8; 9])
  /\ unmarshal ([0; 0; 0; 0; 1; 0; 0; 0] ++ [1; 2; 3; 4; 5; 6; 7; 8; 9]) = Ok [[1; 2; 3; 4; 5; 6; 7; 8]]
  /\ encode true [[1; 2; 3; 4; 5; 6; 7; 8; 9]] = Err EUnaligned
  /\ encode_packed false [[1; 2; 3; 4; 5; 6; 7; 8; 9]] = Panic.
Proof. exact encode_unaligned_refuted. Qed.
Print Assumptions C14_encode_unaligned_refuted.

(* F22 (was O1): the segment-count check as found accepted 513 segments; repaired: 512 *)
Theorem C14_accepts_513_refuted :
  let hdr512 := le32 511 ++ zeros (4 * 512 + 4) in
  let hdr513 := le32 512 ++ zeros (4 * 513) in
  (exists segs, snd (fst (decode1_gen false (d_init (mkReader [hdr513] EOF) 0))) = DMsg segs /\ len segs = 513) /\
  snd (fst (decode1 (d_init (mkReader [hdr513] EOF) 0))) = DErr ETooManySegs /\
  (exists segs, snd (fst (decode1 (d_init (mkReader [hdr512] EOF) 0))) = DMsg segs /\ len segs = 512).
Proof. exact accepts_513_refuted. Qed.
Print Assumptions C14_accepts_513_refuted.

(* O3: segmentSize computes 4+i*4 in uint32: entry 2^30-1 is read from offset 0 *)
Theorem C14_seg_index_wraps : seg_index 1073741823 = 0.
Proof. exact seg_index_wraps. Qed.
Print Assumptions C14_seg_index_wraps.
