(* C14 — stream framing is exact and decoding is bounded by the configured limits. *)
From CV Require Import Frame.Frame Frame.FrameProofs.
Open Scope Z_scope.

Theorem C14_header_size : forall m, 0 <= m < two32 ->
  stream_header_size m = 8 * ((4 * m + 15) / 8).
Proof. exact stream_header_size_eq. Qed.
Print Assumptions C14_header_size.
