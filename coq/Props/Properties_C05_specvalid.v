(* C05, spec-independent run: what the verdict of the independent validator means.
   Statements only. *)
From Coq Require Import ZArith List.
From CV Require Import Spec.Spec Spec.SpecProofs Spec.SpecValid Spec.SpecValidProofs Spec.SpecExamples.
Open Scope Z_scope.

Theorem C05_strict_valid_sound : forall fuel m,
  strict_valid_message fuel m = VOk ->
  (forall s, In s m -> blen s mod 8 = 0) /\
  (forall z, reach m (0, 0) z ->
     exists t, spec_resolve true m (fst z) (snd z) = Some t /\ spec_resolve false m (fst z) (snd z) = Some t /\
               tgt_wf t /\ tgt_inside m t) /\
  exists l, regions fuel m 0 0 = ROk l /\
            let all : list region := (0, 0, 1) :: l in
            forall i j, (i < j < length all)%nat ->
                        overlap (nth i all (0, 0, 0)) (nth j all (0, 0, 0)) = false.
Proof. exact strict_valid_sound. Qed.
Print Assumptions C05_strict_valid_sound.

Theorem C05_strict_composite_consistent : forall m sid a w sg a' n dw pc,
  spec_obj true m sid a w = Some (TgtList sg a' 7 n dw pc) -> ptr_kind w <> 0 ->
  n * (dw + pc) = ls_count w /\ a' = a + 1.
Proof. exact spec_obj_strict_composite. Qed.
Print Assumptions C05_strict_composite_consistent.

Theorem C05_strict_implies_lenient : forall m sid wa t,
  spec_resolve true m sid wa = Some t -> spec_resolve false m sid wa = Some t.
Proof. exact spec_resolve_strict_lenient. Qed.
Print Assumptions C05_strict_implies_lenient.

Theorem C05_specvalid_examples :
  strict_valid_message 8 ex_msg = VOk /\ strict_valid_message 8 ex_msg_bad_pad = VInvalid /\
  strict_valid_message 8 ex_msg_alias = VOverlap.
Proof. exact (conj ex_msg_strictly_valid (conj ex_bad_pad_rejected ex_alias_rejected)). Qed.
Print Assumptions C05_specvalid_examples.

(* strictly valid message: the strict and the lenient decoder agree (tree and cost), for every
   fuel and caps *)
From CV Require Import Core.Arith Core.Reader Core.ReadOps Spec.WalkProofs Spec.StrictWalk.
Theorem C05_strict_valid_decoders_agree : forall fuel0 m, strict_valid_message fuel0 m = VOk ->
  forall fuel dcap pcap, dec_ptr true fuel dcap pcap m 0 0 = dec_ptr false fuel dcap pcap m 0 0.
Proof. exact strict_valid_decoders_agree. Qed.
Print Assumptions C05_strict_valid_decoders_agree.

(* ... hence the generic walker over the Go-faithful accessors (C03's walk_eq_spec) returns
   exactly the STRICT specification tree of a strictly valid message, with walk_eq_spec's
   premises ([vrepr] included: zero-sized-element lists of 2^29 or more elements are strictly
   valid but refused by the reader) *)
Theorem C05_strict_valid_walk : forall (c : config) fuel0 (m : list (list Z)) (dcap pcap : Z),
  cfg_strict c = true -> bytes_ok m -> segs_small m -> strict_valid_message fuel0 m = VOk ->
  forall fuel rl s depth,
  seg_at m 0 = Some s -> in_words s 0 1 = true ->
  Z.of_nat fuel < depth < 18446744073709551616 -> 0 <= rl ->
  spec_cost true fuel dcap pcap m 0 0 <= rl ->
  vrepr fuel pcap m 0 0 ->
  (let '(r, rl1) := readPtr true m rl 0 s (8 * 0) depth in
   walk c (mkFix true true true) m dcap pcap fuel rl1 r)
  = (spec_decode true fuel dcap pcap m 0 0, rl - spec_cost true fuel dcap pcap m 0 0).
Proof. exact strict_valid_walk. Qed.
Print Assumptions C05_strict_valid_walk.

Theorem C05_strict_valid_walk_applies :
  (let '(r, rl1) := readPtr true ex_msg 1000000 0 (nth 0 ex_msg []) (8 * 0) 64 in
   walk ex_cfg (mkFix true true true) ex_msg 64 8 6 rl1 r)
  = (spec_decode true 6 64 8 ex_msg 0 0, 1000000 - spec_cost true 6 64 8 ex_msg 0 0)
  /\ spec_decode true 6 64 8 ex_msg 0 0 = ex_tree.
Proof. exact strict_valid_walk_applies. Qed.
Print Assumptions C05_strict_valid_walk_applies.
