(* placeholder until SpecValidProofs.v is in place *)
From CV Require Import Spec.Spec Spec.SpecValid.
