(* C05, spec-independent run: what the verdict of the independent validator means.
   Statements only. *)
From Coq Require Import ZArith List.
From CV Require Import Spec.Spec Spec.SpecProofs Spec.SpecValid Spec.SpecValidProofs Spec.SpecExamples.
Open Scope Z_scope.

Theorem C05_strict_valid_sound : forall fuel m,
  strict_valid_message fuel m = VOk ->
  (forall s, In s m -> blen s mod 8 = 0) /\
  (forall z, reach m (0, 0) z ->
     exists t, spec_resolve true m (fst z) (snd z) = Some t /\ spec_resolve false m (fst z) (snd z) = Some t /\
               tgt_wf t /\ tgt_inside m t) /\
  exists l, regions fuel m 0 0 = ROk l /\
            let all : list region := (0, 0, 1) :: l in
            forall i j, (i < j < length all)%nat ->
                        overlap (nth i all (0, 0, 0)) (nth j all (0, 0, 0)) = false.
Proof. exact strict_valid_sound. Qed.
Print Assumptions C05_strict_valid_sound.

Theorem C05_strict_composite_consistent : forall m sid a w sg a' n dw pc,
  spec_obj true m sid a w = Some (TgtList sg a' 7 n dw pc) -> ptr_kind w <> 0 ->
  n * (dw + pc) = ls_count w /\ a' = a + 1.
Proof. exact spec_obj_strict_composite. Qed.
Print Assumptions C05_strict_composite_consistent.

Theorem C05_strict_implies_lenient : forall m sid wa t,
  spec_resolve true m sid wa = Some t -> spec_resolve false m sid wa = Some t.
Proof. exact spec_resolve_strict_lenient. Qed.
Print Assumptions C05_strict_implies_lenient.

Theorem C05_specvalid_examples :
  strict_valid_message 8 ex_msg = VOk /\ strict_valid_message 8 ex_msg_bad_pad = VInvalid /\
  strict_valid_message 8 ex_msg_alias = VOverlap.
Proof. exact (conj ex_msg_strictly_valid (conj ex_bad_pad_rejected ex_alias_rejected)). Qed.
Print Assumptions C05_specvalid_examples.
