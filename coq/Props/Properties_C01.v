(* C01 -- reading arbitrary bytes never panics and never escapes the supplied segments.
   Statements only; each is closed by [exact] of a lemma proved in Core/SafetyProofs.v.

   Standing assumptions (trusted base): [msg_ok m]: every segment has at most maxSegmentSize
   (2^32-8) bytes and every byte is 0..255; uint/int are 64 bits; the repaired configuration
   (cfg_strict, cfg_root, fx_bit true); the model Core/Reader.v, Core/ReadOps.v corresponds to
   the Go code as far as the C01 correspondence run shows. *)
From CV Require Import Core.SafetyProofs.
Open Scope Z_scope.

(* Message.Root on ANY message (any number of segments, any lengths, any bytes), any limits:
   a value or an error, and a value designates a region inside its segment *)
Theorem C01_root_safe : forall c m rl, msg_ok m -> cfg_root c = true ->
  res_sat (fst (root c m rl)) (fun p => cfg_strict c = true -> wf_ptr m p).
Proof. exact root_safe. Qed.
Print Assumptions C01_root_safe.

(* Segment.readPtr at any pointer word that lies inside its segment: every 64-bit pointer
   word (struct / list of all 8 kinds / far / double-far / capability / unknown), every
   offset and size field, any depth and traversal budget *)
Theorem C01_readPtr_safe : forall strict m rl sid s paddr depth,
  msg_ok m -> is_seg m sid s -> 0 <= paddr -> paddr + 8 <= zlen s ->
  res_sat (fst (readPtr strict m rl sid s paddr depth)) (fun p => strict = true -> wf_ptr m p).
Proof. exact readPtr_safe. Qed.
Print Assumptions C01_readPtr_safe.

(* every accessor on a well-formed receiver with arguments in the documented domain *)
Theorem C01_accessor_safe : forall c m p, msg_ok m -> cfg_strict c = true -> wf_ptr m p ->
  let s := as_struct p in let l := as_list p in
  (forall rl i, 0 <= i < 65536 -> res_sat (fst (struct_ptr c m rl s i)) (wf_ptr m)) /\
  (forall i, 0 <= i < 65536 -> struct_hasptr m s i <> Panic) /\
  (forall off n, 0 <= off < 524288 -> in_width n = true ->
     struct_uint m s off n <> Panic /\
     (p_valid s = true -> struct_uint m s off n =
        Ok (if off + n <=? DataSize (p_size s) then le_decode (sub (seg_of m s) (p_off s + off) n) else 0))) /\
  (forall n, 0 <= n < 4194304 -> struct_bit m s n <> Panic) /\
  (forall fd i, 0 <= i < list_len l -> res_sat (list_struct fd l i) (wf_ptr m)) /\
  (forall fu rl i, 0 <= i < list_len l -> res_sat (fst (ptrlist_at c fu m rl l i)) (wf_ptr m)) /\
  (forall fu i n, 0 <= i < list_len l -> in_width n = true ->
     res_sat (list_uint_at fu m l i n)
       (fun v => v = 0 \/ exists a, 0 <= a /\ a + n <= zlen (seg_of m l) /\ v = le_decode (sub (seg_of m l) a n))) /\
  (forall i, 0 <= i < list_len l -> bitlist_at true m l i <> Panic) /\
  res_sat (ptr_text m p) (fun o => match o with
                                   | None => True
                                   | Some b => b = sub (seg_of m p) (p_off p) (p_len p - 1) /\ 0 <= p_off p /\
                                               0 < p_len p /\ p_off p + p_len p <= zlen (seg_of m p)
                                   end) /\
  res_sat (ptr_data m p) (fun o => match o with
                                   | None => True
                                   | Some b => b = sub (seg_of m p) (p_off p) (p_len p) /\ 0 <= p_off p /\
                                               0 <= p_len p /\ p_off p + p_len p <= zlen (seg_of m p)
                                   end).
Proof. exact accessor_safe. Qed.
Print Assumptions C01_accessor_safe.

(* all read-side API call sequences: for every message, configuration and op list whose
   arguments are in the documented domain ([run_dom], executable), no observation is a
   panic and every handle ever created is well-formed *)
Theorem C01_run_safe : forall c fx m ops,
  msg_ok m -> cfg_strict c = true -> cfg_root c = true -> fx_bit fx = true ->
  run_dom c fx m (init_state c) ops = true ->
  Forall oval_ok (run_ops c fx m ops) /\ state_wf m (fst (run c fx m (init_state c) ops)).
Proof. exact run_safe. Qed.
Print Assumptions C01_run_safe.

(* the excluded programmer-error panics fire exactly for an index outside [0, Len()) *)
Theorem C01_index_panics : forall fd fu p i exp,
  (list_struct fd p i = Panic <-> (p_valid p = false \/ i < 0 \/ i >= p_len p)) /\
  (primitiveElem fu p i exp = Panic <-> (p_valid p = false \/ i < 0 \/ i >= p_len p)).
Proof. exact index_panics. Qed.
Print Assumptions C01_index_panics.
Theorem C01_bitlist_index_panics : forall m p i, msg_ok m -> wf_list m p ->
  (bitlist_at true m p i = Panic <-> (p_valid p = false \/ i < 0 \/ i >= p_len p)).
Proof. exact bitlist_at_panic_iff. Qed.
Print Assumptions C01_bitlist_index_panics.

(* the generic recursive consumer: any limits, caps, fuel, well-formed start pointer *)
Theorem C01_walk_safe : forall c fx m dcap pcap, msg_ok m -> cfg_strict c = true -> fx_bit fx = true ->
  forall fuel rl r, res_sat r (wf_ptr m) -> tree_ok (fst (walk c fx m dcap pcap fuel rl r)) = true.
Proof. exact walk_safe. Qed.
Print Assumptions C01_walk_safe.

(* Root panics only in the as-found variant, and exactly on a too-short first segment *)
Theorem C01_root_panic_iff : forall c m rl, msg_ok m ->
  (fst (root c m rl) = Panic <-> (cfg_root c = false /\ 0 < zlen m /\ zlen (nth 0%nat m []) < 8)).
Proof. exact root_panic_iff. Qed.
Print Assumptions C01_root_panic_iff.

(* as-found variants are refuted (sensitivity of the theorems above) *)
Theorem C01_bitlist_prefix_refuted : forall m p i, p_valid p = true -> p_bit p = true ->
  4194304 <= i < p_len p -> bitlist_at false m p i = Panic.
Proof. exact bitlist_prefix_refuted. Qed.
Print Assumptions C01_bitlist_prefix_refuted.

(* ------------------------------------------------------------------ non-vacuity *)
(* a struct with one data word, a text field "hi" and a composite list of two structs *)
Definition ex_msg : segs :=
  [[0;0;0;0;1;0;2;0;  42;0;0;0;0;0;0;0;  5;0;0;0;26;0;0;0;  5;0;0;0;23;0;0;0;
    104;105;0;0;0;0;0;0;  8;0;0;0;1;0;0;0;  1;0;0;0;0;0;0;0;  2;0;0;0;0;0;0;0]].
Definition ex_ops : list op :=
  [ORoot; OSPtr 0 0; OText 1; OSPtr 0 1; OLStruct 2 1; OUint 3 0 4; OWalk 0 8 8 10; ORLimit].
Definition ex_cfg := mkCfg 1000 4 true true.
Definition ex_fix := mkFix true true true.

Example C01_hypotheses_satisfiable :
  msg_ok ex_msg /\ run_dom ex_cfg ex_fix ex_msg (init_state ex_cfg) ex_ops = true.
Proof.
  split; [|vm_compute; reflexivity].
  repeat constructor; cbn; try lia; unfold maxSegmentSize; lia.
Qed.

Example C01_nontrivial_run :
  exists p0 p1 p2 p3,
  run_ops ex_cfg ex_fix ex_msg ex_ops =
  [VPtr (Ok p0); VPtr (Ok p1); VBytes (Ok (Some [104; 105])); VPtr (Ok p2); VPtr (Ok p3); VNum (Ok 2);
   VTree (TStruct [42;0;0;0;0;0;0;0]
            [TPrim 1 3 [104; 105; 0];
             TComp 2 (mkOS 8 0) [TStruct [1;0;0;0;0;0;0;0] []; TStruct [2;0;0;0;0;0;0;0] []]]) 938;
   VNum (Ok 938)].
Proof. do 4 eexists. vm_compute. reflexivity. Qed.
