(* C01 -- reading arbitrary bytes never panics and never escapes the supplied segments.
   Statements only; each is closed by [exact] of a lemma proved in Core/SafetyProofs.v (reader),
   Value/EqualSafe.v, Value/CanonSafe.v, Core/CopySafe.v (consumers), Core/EndToEnd.v and
   Frame/FramePackedSafe.v (from raw bytes).  NOT covered by any theorem here: text.Marshal and
   pogs.Extract on hostile bytes (their models are not composed with the reader model; C19 / C20
   runs only, see LEVEL_NOTE in props/C01.py).

   Standing assumptions: [msg_ok m]: every segment has at most maxSegmentSize (2^32-8) bytes and
   every byte is 0..255 - a hypothesis of the theorems of the first sections, PROVED in the last
   section for every message the framing layer hands out (C01_unmarshal_msg_ok ...), so trusted only
   for a Message over an application-supplied Arena; uint/int are 64 bits; the repaired configuration
   (cfg_strict, cfg_root, fx_bit true); the model Core/Reader.v, Core/ReadOps.v corresponds to
   the Go code as far as the C01 correspondence run shows. *)
From CV Require Import Core.SafetyProofs.
Open Scope Z_scope.

(* Message.Root on ANY message (any number of segments, any lengths, any bytes), any limits:
   a value or an error, and a value designates a region inside its segment *)
Theorem C01_root_safe : forall c m rl, msg_ok m -> cfg_root c = true ->
  res_sat (fst (root c m rl)) (fun p => cfg_strict c = true -> wf_ptr m p).
Proof. exact root_safe. Qed.
Print Assumptions C01_root_safe.

(* Segment.readPtr at any pointer word that lies inside its segment: every 64-bit pointer
   word (struct / list of all 8 kinds / far / double-far / capability / unknown), every
   offset and size field, any depth and traversal budget *)
Theorem C01_readPtr_safe : forall strict m rl sid s paddr depth,
  msg_ok m -> is_seg m sid s -> 0 <= paddr -> paddr + 8 <= zlen s ->
  res_sat (fst (readPtr strict m rl sid s paddr depth)) (fun p => strict = true -> wf_ptr m p).
Proof. exact readPtr_safe. Qed.
Print Assumptions C01_readPtr_safe.

(* every accessor on a well-formed receiver with arguments in the documented domain *)
Theorem C01_accessor_safe : forall c m p, msg_ok m -> cfg_strict c = true -> wf_ptr m p ->
  let s := as_struct p in let l := as_list p in
  (forall rl i, 0 <= i < 65536 -> res_sat (fst (struct_ptr c m rl s i)) (wf_ptr m)) /\
  (forall i, 0 <= i < 65536 -> struct_hasptr m s i <> Panic) /\
  (forall off n, 0 <= off < 524288 -> in_width n = true ->
     struct_uint m s off n <> Panic /\
     (p_valid s = true -> struct_uint m s off n =
        Ok (if off + n <=? DataSize (p_size s) then le_decode (sub (seg_of m s) (p_off s + off) n) else 0))) /\
  (forall n, 0 <= n < 4194304 -> struct_bit m s n <> Panic) /\
  (forall fd i, 0 <= i < list_len l -> res_sat (list_struct fd l i) (wf_ptr m)) /\
  (forall fu rl i, 0 <= i < list_len l -> res_sat (fst (ptrlist_at c fu m rl l i)) (wf_ptr m)) /\
  (forall fu i n, 0 <= i < list_len l -> in_width n = true ->
     res_sat (list_uint_at fu m l i n)
       (fun v => v = 0 \/ exists a, 0 <= a /\ a + n <= zlen (seg_of m l) /\ v = le_decode (sub (seg_of m l) a n))) /\
  (forall i, 0 <= i < list_len l -> bitlist_at true m l i <> Panic) /\
  res_sat (ptr_text m p) (fun o => match o with
                                   | None => True
                                   | Some b => b = sub (seg_of m p) (p_off p) (p_len p - 1) /\ 0 <= p_off p /\
                                               0 < p_len p /\ p_off p + p_len p <= zlen (seg_of m p)
                                   end) /\
  res_sat (ptr_data m p) (fun o => match o with
                                   | None => True
                                   | Some b => b = sub (seg_of m p) (p_off p) (p_len p) /\ 0 <= p_off p /\
                                               0 <= p_len p /\ p_off p + p_len p <= zlen (seg_of m p)
                                   end).
Proof. exact accessor_safe. Qed.
Print Assumptions C01_accessor_safe.

(* all read-side API call sequences: for every message, configuration and op list whose
   arguments are in the documented domain ([run_dom], executable), no observation is a
   panic and every handle ever created is well-formed *)
Theorem C01_run_safe : forall c fx m ops,
  msg_ok m -> cfg_strict c = true -> cfg_root c = true -> fx_bit fx = true ->
  run_dom c fx m (init_state c) ops = true ->
  Forall oval_ok (run_ops c fx m ops) /\ state_wf m (fst (run c fx m (init_state c) ops)).
Proof. exact run_safe. Qed.
Print Assumptions C01_run_safe.

(* the excluded programmer-error panics fire exactly for an index outside [0, Len()) *)
Theorem C01_index_panics : forall fd fu p i exp,
  (list_struct fd p i = Panic <-> (p_valid p = false \/ i < 0 \/ i >= p_len p)) /\
  (primitiveElem fu p i exp = Panic <-> (p_valid p = false \/ i < 0 \/ i >= p_len p)).
Proof. exact index_panics. Qed.
Print Assumptions C01_index_panics.
Theorem C01_bitlist_index_panics : forall m p i, msg_ok m -> wf_list m p ->
  (bitlist_at true m p i = Panic <-> (p_valid p = false \/ i < 0 \/ i >= p_len p)).
Proof. exact bitlist_at_panic_iff. Qed.
Print Assumptions C01_bitlist_index_panics.

(* the generic recursive consumer: any limits, caps, fuel, well-formed start pointer *)
Theorem C01_walk_safe : forall c fx m dcap pcap, msg_ok m -> cfg_strict c = true -> fx_bit fx = true ->
  forall fuel rl r, res_sat r (wf_ptr m) -> tree_ok (fst (walk c fx m dcap pcap fuel rl r)) = true.
Proof. exact walk_safe. Qed.
Print Assumptions C01_walk_safe.

(* Root panics only in the as-found variant, and exactly on a too-short first segment *)
Theorem C01_root_panic_iff : forall c m rl, msg_ok m ->
  (fst (root c m rl) = Panic <-> (cfg_root c = false /\ 0 < zlen m /\ zlen (nth 0%nat m []) < 8)).
Proof. exact root_panic_iff. Qed.
Print Assumptions C01_root_panic_iff.

(* as-found variants are refuted (sensitivity of the theorems above) *)
Theorem C01_bitlist_prefix_refuted : forall m p i, p_valid p = true -> p_bit p = true ->
  4194304 <= i < p_len p -> bitlist_at false m p i = Panic.
Proof. exact bitlist_prefix_refuted. Qed.
Print Assumptions C01_bitlist_prefix_refuted.

(* ------------------------------------------------------------------ non-vacuity *)
(* rd_ex_msg (Core/SafetyProofs.v): a struct with one data word, a text field "hi" and a
   composite list of two structs; rd_ex_ops reads them and walks the whole tree *)
Example C01_hypotheses_satisfiable :
  msg_ok rd_ex_msg /\ run_dom rd_ex_cfg rd_ex_fix rd_ex_msg (init_state rd_ex_cfg) rd_ex_ops = true.
Proof. exact rd_ex_hypotheses. Qed.
Print Assumptions C01_hypotheses_satisfiable.

Example C01_nontrivial_run :
  exists p0 p1 p2 p3,
  run_ops rd_ex_cfg rd_ex_fix rd_ex_msg rd_ex_ops =
  [VPtr (Ok p0); VPtr (Ok p1); VBytes (Ok (Some [104; 105])); VPtr (Ok p2); VPtr (Ok p3); VNum (Ok 2);
   VTree (TStruct [42;0;0;0;0;0;0;0]
            [TPrim 1 3 [104; 105; 0];
             TComp 2 (mkOS 8 0) [TStruct [1;0;0;0;0;0;0;0] []; TStruct [2;0;0;0;0;0;0;0] []]]) 938;
   VNum (Ok 938)].
Proof. exact rd_ex_run. Qed.
Print Assumptions C01_nontrivial_run.

(* ================================================================== recursive consumers *)
(* C01 also covers the recursive consumers on ARBITRARY bytes: equality, canonicalisation, deep
   copy into another message (models Value/EqualM.v, Value/CanonM.v, Core/Builder.v).  Lemmas in
   Value/EqualSafe.v, Value/CanonSafe.v, Core/CopySafe.v.  Additional standing assumptions: the
   destination of a copy satisfies the builder invariant and has segments of at most
   maxSegmentSize bytes ([dok]); copied LIST pointers have a reader-made shape ([shape_ok]: every
   pointer handed out by readPtr has it, C01_reader_ptr_shape; structs need none in the
   repaired code; as found, a struct taken from an element of a 1/2/4-byte list makes writePtr
   panic: C01_copy_unaligned_refuted). *)
From CV Require Import Value.EqualM Value.EqualSafe Value.CanonM Value.CanonSafe Core.Builder Core.CopySafe.

(* capnp.Equal on one or two hostile messages: any fuel, any limits, any two well-formed
   pointers: never a panic (and the budgets only go down, see C02) *)
Theorem C01_equal_m_safe : forall c fx x, ectx_ok x -> cfg_strict c = true ->
  forall fuel w p q, wf_ptr (segs_of x SA) p -> wf_ptr (segs_of x SB) q -> lims_nonneg w ->
  egood w (equal_m fuel c fx x w p q).
Proof. exact equal_m_good. Qed.
Print Assumptions C01_equal_m_safe.

(* capnp.Canonicalize on a hostile source struct (repaired configuration) *)
Theorem C01_canon_m_safe : forall c fx fuel src rl s,
  cfg_strict c = true -> cx_complist fx = true -> msg_ok src -> wf_struct src s -> 0 <= rl ->
  fst (canonicalize c fx fuel src rl s) <> KPanic /\ 0 <= snd (canonicalize c fx fuel src rl s) <= rl.
Proof. exact canonicalize_safe. Qed.
Print Assumptions C01_canon_m_safe.

(* the three mutually recursive functions of canonical.go, from any state: no panic, the
   destination stays well-formed and only grows, the source is untouched *)
Theorem C01_canon_all : forall c fx, cfg_strict c = true -> cx_complist fx = true ->
  forall f, P_fill c fx f /\ P_ptr c fx f /\ P_list c fx f.
Proof. exact canon_all. Qed.
Print Assumptions C01_canon_all.

(* deep copy out of a hostile message: Segment.writePtr (SetPtr / PointerList.Set / SetRoot
   across messages) and copyStruct (List.SetStruct / CopyFrom) *)
Theorem C01_write_ptr_safe : forall f w dsid off src fc,
  dok (w_dst w) -> msg_ok (w_src w) -> 0 <= w_src_rl w -> region_ok (w_dst w) dsid off 8 ->
  wf_ptr (w_src w) src -> shape_ok src ->
  rpost w (write_ptr f true w dsid off InSrc src fc).
Proof. exact write_ptr_safe. Qed.
Print Assumptions C01_write_ptr_safe.

Theorem C01_copy_struct_safe : forall f w dst src,
  dok (w_dst w) -> msg_ok (w_src w) -> 0 <= w_src_rl w -> dst_ok (w_dst w) dst ->
  wf_struct (w_src w) src ->
  rpost w (copy_struct f true w dst InSrc src).
Proof. exact copy_struct_safe. Qed.
Print Assumptions C01_copy_struct_safe.

Theorem C01_reader_ptr_shape : forall strict m rl sid s paddr depth q,
  fst (readPtr strict m rl sid s paddr depth) = Ok q -> shape_ok q.
Proof. exact reader_ptr_shape. Qed.
Print Assumptions C01_reader_ptr_shape.

(* sensitivity / findings: as found (repo 38ec570, write_ptr_asfound) copying a byte-list
   element panics, the repaired writePtr copies it; the as-found canonicalList panics (F04) *)
Example C01_copy_unaligned_refuted :
  let c := mkCfg 0 0 true true in
  msg_ok unaligned_msg /\
  exists r l e m0,
    fst (root c unaligned_msg 1000) = Ok r /\
    fst (struct_ptr c unaligned_msg 1000 r 0) = Ok l /\
    list_struct true l 0 = Ok e /\ wf_ptr unaligned_msg e /\ p_size e = mkOS 1 0 /\
    new_message ASingle [] 0 = Ok m0 /\ dok m0 /\
    write_ptr_asfound 8 true (mkW m0 unaligned_msg 1000) 0 0 InSrc e false = Panic /\
    exists w', write_ptr 8 true (mkW m0 unaligned_msg 1000) 0 0 InSrc e false = Ok w'.
Proof. exact copy_unaligned_refuted. Qed.
Print Assumptions C01_copy_unaligned_refuted.

Example C01_canon_complist_refuted :
  let c := mkCfg 0 0 true true in
  msg_ok complist_msg /\
  run_canon 10 c (mkCFix false true true (mkFix true true true)) complist_msg SelRoot = KPanic /\
  exists bs, run_canon 10 c (mkCFix true true true (mkFix true true true)) complist_msg SelRoot = KOk bs.
Proof. exact canon_complist_refuted. Qed.
Print Assumptions C01_canon_complist_refuted.

(* ================================================================== from raw bytes *)
(* "For any byte strings supplied as the segments of a message (any segment count, any arena,
   packed or unpacked framing)": the framing models (Frame/Frame.v Unmarshal and Decoder.Decode
   over any chunking, Frame/FramePacked.v UnmarshalPacked and NewPackedDecoder over
   Packed/Packed.v) composed with the reader and consumer theorems above (Core/EndToEnd.v).
   [msg_ok] - until here a trusted hypothesis - is DISCHARGED: the only hypothesis left on the
   input is that it is a string of bytes ([bytes_ok b]: every element is 0..255). *)
From CV Require Import Core.EndToEnd.

(* (1) every message the framing layer returns is msg_ok *)
Theorem C01_unmarshal_msg_ok : forall b segs, bytes_ok b -> FR.unmarshal b = FR.Ok segs -> msg_ok segs.
Proof. exact unmarshal_msg_ok. Qed.
Print Assumptions C01_unmarshal_msg_ok.

Theorem C01_unmarshal_packed_msg_ok : forall p segs, bytes_ok p -> FP.unmarshal_packed p = FR.Ok segs -> msg_ok segs.
Proof. exact unmarshal_packed_msg_ok. Qed.
Print Assumptions C01_unmarshal_packed_msg_ok.

Theorem C01_decode1_msg_ok : forall cs fin hc bc ru mx st' out log,
  bytes_ok (concat cs) -> 0 <= mx < FR.two64 ->
  FR.decode1 (FR.mkD (FR.mkReader cs fin) hc bc ru mx) = (st', out, log) ->
  out <> FR.DPanic /\ (forall segs, out = FR.DMsg segs -> msg_ok segs) /\
  CV.Frame.FrameAlloc.st_ok st'.
Proof. exact decode1_msg_ok. Qed.
Print Assumptions C01_decode1_msg_ok.

(* (2) Unmarshal / UnmarshalPacked never panic and everything read afterwards is safe *)
Theorem C01_unmarshal_then_read_safe : forall b c fx, bytes_ok b -> repaired c fx ->
  match FR.unmarshal b with
  | FR.Ok segs => msg_ok segs /\ read_safe c fx segs
  | FR.Err _ => True
  | FR.Panic => False
  end.
Proof. exact unmarshal_then_read_safe. Qed.
Print Assumptions C01_unmarshal_then_read_safe.

Theorem C01_unmarshal_packed_then_read_safe : forall p c fx, bytes_ok p -> repaired c fx ->
  match FP.unmarshal_packed p with
  | FR.Ok segs => msg_ok segs /\ read_safe c fx segs
  | FR.Err _ => True
  | FR.Panic => False
  end.
Proof. exact unmarshal_packed_then_read_safe. Qed.
Print Assumptions C01_unmarshal_packed_then_read_safe.

(* the streaming Decoder: any byte stream, any chunking, any history of Decode / ReuseBuffer /
   MaxMessageSize assignments *)
Theorem C01_decode_then_read_safe : forall cs fin hc bc ru mx ops c fx st' outs,
  bytes_ok (concat cs) -> 0 <= mx < FR.two64 -> repaired c fx ->
  FR.run_history (FR.mkD (FR.mkReader cs fin) hc bc ru mx) ops = (st', outs) ->
  Forall (fun ol => fst ol <> FR.DPanic /\
                    forall segs, fst ol = FR.DMsg segs -> msg_ok segs /\ read_safe c fx segs) outs.
Proof. exact decode_then_read_safe. Qed.
Print Assumptions C01_decode_then_read_safe.

(* NewPackedDecoder over a packed stream that unpacks (arbitrary content): outcome k equals the
   plain Decoder's on the unpacked stream while messages come out, hence is safe *)
Theorem C01_pdecode_n_then_read_safe : forall P U orc hc bc ru mx c fx n k,
  bytes_ok P -> PK.unpack P = Some U -> 0 <= mx < FR.two64 -> repaired c fx -> (k < n)%nat ->
  let outs_plain := snd (FR.decode_n (FR.mkD (FR.mkReader [U] PK.EOF) hc bc ru mx) n) in
  let outs_packed := snd (FP.pdecode_n (FR.mkD (FP.p_init orc P) hc bc ru mx) n) in
  CV.Frame.FrameSim.all_msgs (firstn k outs_plain) = true ->
  let o := nth k outs_packed (FR.DEof, []) in
  nth k outs_packed (FR.DEof, []) = nth k outs_plain (FR.DEof, []) /\
  fst o <> FR.DPanic /\ forall segs, fst o = FR.DMsg segs -> msg_ok segs /\ read_safe c fx segs.
Proof. exact pdecode_n_then_read_safe. Qed.
Print Assumptions C01_pdecode_n_then_read_safe.

(* ... and for ANY packed byte stream P, malformed ones included (Frame/FramePackedSafe.v, with the
   packed.Reader invariant of Packed/ReadCallProofs2.v): the packed Decoder behaves like the plain
   Decoder over the longest prefix U that unpacks, ended by the verdict of the rest (io.EOF or
   io.ErrUnexpectedEOF); while messages come out, outcome k is the same: no panic, msg_ok, safe
   to read.  This subsumes the statement above (no premise on P besides being bytes). *)
From CV Require Frame.FramePackedSafe.
Theorem C01_pdecode_n_then_read_safe_any : forall P orc hc bc ru mx c fx n k,
  bytes_ok P -> (0 <= mx < FR.two64)%Z -> repaired c fx -> (k < n)%nat ->
  let U := fst (CV.Packed.ReadCallProofs2.unpack_partial P) in
  let fin := CV.Packed.ReadCallProofs2.verdict (snd (CV.Packed.ReadCallProofs2.unpack_partial P)) in
  let outs_plain := snd (FR.decode_n (FR.mkD (FR.mkReader [U] fin) hc bc ru mx) n) in
  let outs_packed := snd (FP.pdecode_n (FR.mkD (FP.p_init orc P) hc bc ru mx) n) in
  CV.Frame.FrameSim.all_msgs (firstn k outs_plain) = true ->
  let o := nth k outs_packed (FR.DEof, []) in
  nth k outs_packed (FR.DEof, []) = nth k outs_plain (FR.DEof, []) /\
  fst o <> FR.DPanic /\ forall segs, fst o = FR.DMsg segs -> msg_ok segs /\ read_safe c fx segs.
Proof. exact CV.Frame.FramePackedSafe.pdecode_n_then_read_safe_any. Qed.
Print Assumptions C01_pdecode_n_then_read_safe_any.

(* (3) the recursive consumers, from raw bytes *)
Theorem C01_equal_from_bytes_safe : forall b1 b2 sa sb fuel ca cb fx capsa capsb same sela selb,
  bytes_ok b1 -> bytes_ok b2 -> FR.unmarshal b1 = FR.Ok sa -> FR.unmarshal b2 = FR.Ok sb ->
  cfg_strict ca = true -> cfg_root ca = true -> cfg_strict cb = true -> cfg_root cb = true ->
  0 <= cfg_T ca -> 0 <= cfg_T cb ->
  (match sela with SelField i => 0 <= i | SelRoot => True end) ->
  (match selb with SelField i => 0 <= i | SelRoot => True end) ->
  fst (fst (run_equal fuel ca cb fx sa capsa sb capsb same sela selb)) <> EPanic.
Proof. exact equal_from_bytes_safe. Qed.
Print Assumptions C01_equal_from_bytes_safe.

Theorem C01_canon_from_bytes_safe : forall b segs fuel c fx sel,
  bytes_ok b -> FR.unmarshal b = FR.Ok segs ->
  cfg_strict c = true -> cfg_root c = true -> cx_complist fx = true -> 0 <= cfg_T c ->
  (match sel with SelField i => 0 <= i | SelRoot => True end) ->
  run_canon fuel c fx segs sel <> KPanic.
Proof. exact canon_from_bytes_safe. Qed.
Print Assumptions C01_canon_from_bytes_safe.

Theorem C01_copy_from_bytes_safe : forall b segs fuel c,
  bytes_ok b -> FR.unmarshal b = FR.Ok segs ->
  cfg_strict c = true -> cfg_root c = true -> 0 <= cfg_T c ->
  copy_root fuel c segs <> Panic.
Proof. exact copy_from_bytes_safe. Qed.
Print Assumptions C01_copy_from_bytes_safe.
