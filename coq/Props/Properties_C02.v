(* C02 -- the traversal and depth limits bound all work done on a hostile message.
   Statements only; each is closed by [exact] of a lemma proved in Core/LimitProofs.v,
   Core/CanReadProofs.v, Value/EqualSafe.v, Value/EqualAcct.v, Value/CanonSafe.v, Value/CanonAlloc.v,
   Core/CopySafe.v, Core/CopyAlloc.v.  NOT covered by any theorem here: the bounds for text.Marshal
   and pogs.Extract (C19 / C20 runs only, see LEVEL_NOTE in props/C02.py).

   Standing assumptions (trusted base): as for C01 where a theorem asks for [msg_ok];
   uint is 64 bits; D = depth_limit c >= 1 (cfg_D = 0 selects the default 64: depth_limit_pos),
   0 <= T; the repaired List.Struct (fx_depth) for the depth
   theorems; canRead's Load and CompareAndSwap are atomic steps (sync/atomic). *)
From CV Require Import Core.LimitProofs Core.CanReadProofs.
Open Scope Z_scope.

(* exact accounting of one readPtr: untouched when canRead is not reached; a granted request
   is subtracted and the object handed out has exactly that read size (struct: total size;
   list: element size x length, a zero-sized element charged one word); a refused request
   zeroes the budget *)
Theorem C02_readPtr_accounting : forall strict m rl sid s paddr depth,
  match readPtr_request strict m sid s paddr depth with
  | None => snd (readPtr strict m rl sid s paddr depth) = rl /\
            (forall p, fst (readPtr strict m rl sid s paddr depth) = Ok p -> readSize p = 0)
  | Some sz =>
      if rl >=? sz
      then snd (readPtr strict m rl sid s paddr depth) = rl - sz /\
           exists p, fst (readPtr strict m rl sid s paddr depth) = Ok p /\ p_valid p = true /\ readSize p = sz
      else readPtr strict m rl sid s paddr depth = (Err, 0)
  end.
Proof. exact readPtr_limit_spec. Qed.
Print Assumptions C02_readPtr_accounting.

(* any op list (any arguments, in or out of domain) on any message (no well-formedness
   needed): the budget is never negative, never increases, and the total read size handed
   out is at most the limit *)
Theorem C02_traversal_bound_seq : forall c fx m ops, 0 <= cfg_T c -> no_reset ops = true ->
  let st := fst (run c fx m (init_state c) ops) in
  let vs := run_ops c fx m ops in
  0 <= rs_rl st /\
  handed_sum ops vs <= init_rlimit c - rs_rl st /\
  handed_sum ops vs <= init_rlimit c /\
  (forall ops1 ops2, ops = ops1 ++ ops2 -> rs_rl st <= rs_rl (fst (run c fx m (init_state c) ops1))).
Proof. exact traversal_bound_seq. Qed.
Print Assumptions C02_traversal_bound_seq.

(* reused messages (Message.Reset, Decoder.ReuseBuffer): [OReset true] empties the handle pool and
   re-arms the budget as Message.initReadLimit does.  For EVERY op list, resets included, and
   every incarnation [inc] (the ops between one reset and the next): the budget right after the
   reset is init_rlimit c (the configured T, or the 64 MiB default when T = 0), no handle
   survives, and the read sizes handed out within the incarnation sum to at most that value.
   (The first incarnation is C02_traversal_bound_seq, stated for op lists free of Reset /
   ResetReadLimit / Unread: [no_reset].) *)
Theorem C02_traversal_bound_incarnations : forall c fx m pre inc post, 0 <= cfg_T c -> no_reset inc = true ->
  let st0 := fst (run c fx m (init_state c) (pre ++ [OReset true])) in
  let r := run c fx m st0 inc in
  rs_rl st0 = init_rlimit c /\ rs_handles st0 = [] /\
  0 <= rs_rl (fst r) /\
  handed_sum inc (snd r) <= init_rlimit c - rs_rl (fst r) /\
  handed_sum inc (snd r) <= init_rlimit c /\
  run_ops c fx m (pre ++ OReset true :: inc ++ post) =
    snd (run c fx m (init_state c) pre) ++ VNum (Ok (init_rlimit c)) :: snd r ++ snd (run c fx m (fst r) post).
Proof. exact traversal_bound_incarnations. Qed.
Print Assumptions C02_traversal_bound_incarnations.

(* the application-controlled budget API: Message.ResetReadLimit (OResetLimit n: budget := n) and
   Message.Unread (OUnread n: budget += n, uint64 wrap) - and Reset - raise the budget; the bound
   is per budget epoch: for EVERY op list [pre ++ o :: inc] with o one of these calls and inc free
   of them, the budget right after o is the value the call sets, it is never negative, and the
   read sizes handed out in inc sum to at most that value.  (T bounds the total only when the
   application does not call these; across k calls the total is bounded by the sum of the k+1
   epoch budgets.) *)
Theorem C02_traversal_bound_epochs : forall c fx m pre o inc,
  0 <= cfg_T c -> is_reset o = true -> no_reset inc = true ->
  let st_pre := fst (run c fx m (init_state c) pre) in
  let st0 := fst (run c fx m (init_state c) (pre ++ [o])) in
  let r := run c fx m st0 inc in
  rs_rl st0 = budget_after c (rs_rl st_pre) o /\ 0 <= rs_rl st0 /\
  0 <= rs_rl (fst r) /\
  handed_sum inc (snd r) <= rs_rl st0 - rs_rl (fst r) /\
  handed_sum inc (snd r) <= rs_rl st0.
Proof. exact traversal_bound_epochs. Qed.
Print Assumptions C02_traversal_bound_epochs.

(* whatever is called, in any order, the budget never goes negative *)
Theorem C02_budget_nonneg : forall c fx m ops st, 0 <= cfg_T c -> 0 <= rs_rl st ->
  0 <= rs_rl (fst (run c fx m st ops)).
Proof. exact run_nonneg. Qed.
Print Assumptions C02_budget_nonneg.

(* sensitivity: the variant that re-arms with the default whatever was configured ([OReset
   false], the seeded change C02-r4-1) hands out 16 bytes in an incarnation with T = 8 *)
Example C02_reset_default_refuted :
  let c := mkCfg 8 0 true true in
  let fx := mkFix true true true in
  let m := [[0;0;0;0;0;0;1;0;  0;0;0;0;0;0;0;0]] in
  msg_ok m /\
  map obs_code (run_ops c fx m [ORoot; OReset true; ORoot; ORoot]) = [1; 8; 1; 2] /\
  handed_sum [ORoot; ORoot] (skipn 2 (run_ops c fx m [ORoot; OReset true; ORoot; ORoot])) = 8 /\
  map obs_code (run_ops c fx m [ORoot; OReset false; ORoot; ORoot]) = [1; 67108864; 1; 1] /\
  handed_sum [ORoot; ORoot] (skipn 2 (run_ops c fx m [ORoot; OReset false; ORoot; ORoot])) = 16.
Proof. exact reset_default_refuted. Qed.
Print Assumptions C02_reset_default_refuted.

(* each single API call (other than a walk): budget + handed-out size is conserved exactly,
   or the call is a refused dereference: an error, and the budget is 0 afterwards *)
Theorem C02_step_exact : forall c fx m st o, (forall h dcap pcap fuel, o <> OWalk h dcap pcap fuel) -> is_reset o = false ->
  rs_rl (fst (step c fx m st o)) + handed o (snd (step c fx m st o)) = rs_rl st \/
  (rs_rl (fst (step c fx m st o)) = 0 /\ snd (step c fx m st o) = VPtr Err).
Proof. exact step_exact. Qed.
Print Assumptions C02_step_exact.

(* the same for the generic walker (instrumented with ghost counters; [walkA_erase] shows
   the instrumentation does not change the walk) *)
Theorem C02_walk_erase : forall c fx m dcap pcap fuel rl r,
  (ac_val (walkA c fx m dcap pcap fuel rl r), ac_rl (walkA c fx m dcap pcap fuel rl r)) =
  walk c fx m dcap pcap fuel rl r.
Proof. exact walkA_erase. Qed.
Print Assumptions C02_walk_erase.
Theorem C02_walk_traversal : forall c fx m dcap pcap fuel rl r, 0 <= rl ->
  handed_ok rl (walkA c fx m dcap pcap fuel rl r).
Proof. exact walk_traversal. Qed.
Print Assumptions C02_walk_traversal.

(* depth: every access path mixing Struct.Ptr / PointerList.At / List.Struct, all D >= 1 *)
Theorem C02_depth_bound : forall c fx m ops, 1 <= depth_limit c -> fx_depth fx = true ->
  let st := fst (run c fx m (init_state c) ops) in
  forall h, p_valid (handle st h) = true ->
    1 <= lvl_of (run_lvl ops) h <= depth_limit c /\
    0 <= p_depth (handle st h) /\
    p_depth (handle st h) + lvl_of (run_lvl ops) h <= depth_limit c.
Proof. exact depth_bound. Qed.
Print Assumptions C02_depth_bound.

Theorem C02_depth_exhausted : forall c fx m ops o, 1 <= depth_limit c -> fx_depth fx = true ->
  let st := fst (run c fx m (init_state c) ops) in
  forall h i, (o = OSPtr h i \/ o = OPLAt h i) -> depth_limit c <= lvl_of (run_lvl ops) h ->
  forall q, snd (step c fx m st o) = VPtr (Ok q) -> p_valid q = false.
Proof. exact depth_exhausted. Qed.
Print Assumptions C02_depth_exhausted.

(* every recursive consumer (the generic walker) on a whole message: fuel D+1 is never
   exhausted (recursion depth <= D+1), no panic, at most T/8+1 successful dereferences and
   at most T bytes handed out -- cyclic and aliasing pointer graphs included *)
Theorem C02_walk_bounded : forall c fx m dcap pcap fuel,
  msg_ok m -> cfg_strict c = true -> cfg_root c = true -> fx_depth fx = true -> fx_bit fx = true ->
  1 <= depth_limit c -> 0 <= cfg_T c -> depth_limit c + 1 <= Z.of_nat fuel ->
  let T := init_rlimit c in
  let r := root c m T in
  let a := walkA c fx m dcap pcap fuel (snd r) (fst r) in
  (ac_val a, ac_rl a) = walk c fx m dcap pcap fuel (snd r) (fst r) /\
  tree_ok (ac_val a) = true /\ tree_nofuel (ac_val a) = true /\
  0 <= ac_rl a /\
  deref_size (fst r) + ac_h a <= T /\
  0 <= deref_count (fst r) + ac_d a <= T / 8 + 1.
Proof. exact walk_bounded. Qed.
Print Assumptions C02_walk_bounded.

Theorem C02_walk_bounded_from : forall c fx m dcap pcap fuel rl p,
  msg_ok m -> cfg_strict c = true -> fx_depth fx = true -> fx_bit fx = true ->
  wf_ptr m p -> 0 <= p_depth p -> p_depth p + 2 <= Z.of_nat fuel -> 0 <= rl ->
  let a := walkA c fx m dcap pcap fuel rl (Ok p) in
  (ac_val a, ac_rl a) = walk c fx m dcap pcap fuel rl (Ok p) /\
  tree_ok (ac_val a) = true /\ tree_nofuel (ac_val a) = true /\
  0 <= ac_rl a /\ ac_rl a + ac_h a <= rl /\
  0 <= ac_d a /\ 8 * ac_d a <= (rl - ac_rl a) + 8 * slots p.
Proof. exact walk_bounded_from. Qed.
Print Assumptions C02_walk_bounded_from.

Theorem C02_depth_limit_pos : forall c, 0 <= cfg_D c -> 1 <= depth_limit c.
Proof. exact depth_limit_pos. Qed.
Print Assumptions C02_depth_limit_pos.

(* concurrent readers: every interleaving of the CAS loop, any number of threads *)
Theorem C02_traversal_bound_conc : forall T0 reqs cf, 0 <= T0 -> Forall (Forall (fun sz => 0 <= sz)) reqs ->
  reach (cinit T0 reqs) cf ->
  0 <= c_rlimit cf /\ 0 <= granted cf <= T0 /\ c_rlimit cf + granted cf <= T0 /\
  (nrefused cf = 0 -> c_rlimit cf + granted cf = T0).
Proof. exact traversal_bound_conc. Qed.
Print Assumptions C02_traversal_bound_conc.

(* every schedule is finite (each retry loop terminates); a CAS fails only on a stale value
   and the shared word only changes when a request returns; a thread left alone completes
   its request in at most three steps *)
Theorem C02_canread_terminates : forall sched cf cf', exec cf sched = Some cf' ->
  Z.of_nat (length sched) + measure cf' <= measure cf.
Proof. exact canread_terminates. Qed.
Print Assumptions C02_canread_terminates.
(* the measure is never negative, so a schedule has at most [measure cf] steps *)
Theorem C02_measure_nonneg : forall cf, 0 <= measure cf.
Proof. exact measure_nonneg. Qed.
Print Assumptions C02_measure_nonneg.
Theorem C02_schedule_length_bound : forall sched cf cf', exec cf sched = Some cf' ->
  Z.of_nat (length sched) <= measure cf.
Proof. exact schedule_length_bound. Qed.
Print Assumptions C02_schedule_length_bound.
Theorem C02_rlimit_changes_only_by_return : forall cf tid cf', cstep cf tid = Some cf' ->
  c_rlimit cf' <> c_rlimit cf -> npending cf' = npending cf - 1.
Proof. exact rlimit_changes_only_by_return. Qed.
Print Assumptions C02_rlimit_changes_only_by_return.
Theorem C02_solo_progress : forall cf tid th sz rest, nth_error (c_threads cf) tid = Some th ->
  t_pending th = sz :: rest -> exists n, (n <= 3)%nat /\ completes cf tid th sz rest n.
Proof. exact solo_progress. Qed.
Print Assumptions C02_solo_progress.

(* ------------------------------------------------------------------ non-vacuity / sensitivity *)
(* the cyclic message of LimitProofs: with the repaired code the walker stops at D;
   as found (fx_depth = false) the same op list passes D (depth_prefix_refuted) *)
Example C02_cyclic_walk_bounded :
  let c := mkCfg 4096 3 true true in
  let r := root c cyc_msg 4096 in
  let a := walkA c (mkFix true true true) cyc_msg 8 8 4 (snd r) (fst r) in
  msg_ok cyc_msg /\ tree_nofuel (ac_val a) = true /\
  ac_val a = TStruct [] [TComp 1 (mkOS 0 1) [TStruct [] [TErr]]] /\
  deref_count (fst r) + ac_d a = 2 /\ deref_size (fst r) + ac_h a = 16.
Proof. exact cyclic_walk_bounded_example. Qed.
Print Assumptions C02_cyclic_walk_bounded.

Example C02_depth_prefix_refuted :
  let c := mkCfg 0 2 true true in
  let st := fst (run c (mkFix false true true) cyc_msg (init_state c) cyc_ops) in
  p_valid (handle st 3) = true /\ lvl_of (run_lvl cyc_ops) 3 = 3 /\
  p_valid (handle st 5) = true /\ lvl_of (run_lvl cyc_ops) 5 = 4 /\
  p_depth (handle st 5) = 18446744073709551612.
Proof. exact (proj2 depth_prefix_refuted). Qed.
Print Assumptions C02_depth_prefix_refuted.

(* ================================================================== recursive consumers *)
(* "every recursive consumer uses time and stack bounded by T and D": Equal, Canonicalize and
   the cross-message deep copy (lemmas in Value/EqualSafe.v, Value/CanonSafe.v,
   Core/CopySafe.v).  The fuel of the models is their recursion depth. *)
From CV Require Import Value.EqualM Value.EqualSafe Value.CanonM Value.CanonSafe Core.Builder Core.CopySafe.

(* Equal: fuel D + 2 is never exhausted for pointers read under depth limit D (their depth
   budgets are <= D - 1 by C02_depth_bound); no panic; both traversal budgets only go down
   and stay >= 0, so Equal consumes at most what is left of T in each message *)
Theorem C02_equal_m_safe : forall c fx x fuel w p q D,
  ectx_ok x -> cfg_strict c = true -> fx_depth (fx_rd fx) = true ->
  wf_ptr (segs_of x SA) p -> wf_ptr (segs_of x SB) q -> lims_nonneg w ->
  0 <= p_depth p <= D - 1 -> 0 <= p_depth q <= D - 1 -> D + 2 <= Z.of_nat fuel ->
  let r := equal_m fuel c fx x w p q in
  fst r <> EPanic /\ fst r <> EFuel /\ lims_le (snd r) w.
Proof. exact equal_m_safe. Qed.
Print Assumptions C02_equal_m_safe.

Theorem C02_equal_m_nofuel : forall c fx x, fx_depth (fx_rd fx) = true ->
  forall fuel w p q, efuel_ok p q fuel -> fst (equal_m fuel c fx x w p q) <> EFuel.
Proof. exact equal_m_nofuel. Qed.
Print Assumptions C02_equal_m_nofuel.

(* D + 2 is tight for the model (one unit is spent on a pair of null pointers) *)
Example C02_equal_fuel_tight :
  let c := mkCfg 0 2 true true in
  let fx := mkEFix true true (mkFix true true true) in
  msg_ok eq_deep_msg /\
  fst (fst (run_equal 3 c c fx eq_deep_msg [] eq_deep_msg [] true SelRoot SelRoot)) = EFuel /\
  fst (fst (run_equal 4 c c fx eq_deep_msg [] eq_deep_msg [] true SelRoot SelRoot)) = EOk true.
Proof. exact equal_fuel_tight. Qed.
Print Assumptions C02_equal_fuel_tight.

(* deep copy: from fuel 2 * (depth budget) + 3 on (2D + 1 for a pointer read under depth
   limit D) the result does not depend on the fuel: no error is a fuel artefact *)
Theorem C02_write_ptr_fuel_enough : forall f k strict w dsid off l src fc,
  depth_nonneg src -> wneed src <= Z.of_nat f ->
  write_ptr (f + k) strict w dsid off l src fc = write_ptr f strict w dsid off l src fc.
Proof. exact write_ptr_fuel_enough. Qed.
Print Assumptions C02_write_ptr_fuel_enough.

Theorem C02_copy_struct_fuel_enough : forall f k strict w dst l src,
  depth_nonneg src -> cneed src <= Z.of_nat f ->
  copy_struct (f + k) strict w dst l src = copy_struct f strict w dst l src.
Proof. exact copy_struct_fuel_enough. Qed.
Print Assumptions C02_copy_struct_fuel_enough.

(* Canonicalize: for a source struct read under depth limit D, fuel 2D + 1 excludes the
   out-of-fuel outcome (two units per pointer level: fill -> ptr -> fill/list) *)
Theorem C02_canon_m_nofuel : forall c fx fuel src rl s D,
  fx_depth (cx_rd fx) = true -> 0 <= p_depth s <= D - 1 -> 2 * D + 1 <= Z.of_nat fuel ->
  fst (canonicalize c fx fuel src rl s) <> KFuel.
Proof. exact canonicalize_nofuel. Qed.
Print Assumptions C02_canon_m_nofuel.

(* no amplification: bytes appended to the destination are bounded by the traversal budget
   consumed from the source.  Ghost counter tot = total length of the destination's segments. *)
From CV Require Import Core.CopyAlloc Value.CanonAlloc.

(* cross-message writePtr: own padded copy + landing pad + 32 per pointer slot + 5 x consumed;
   for a reader-made pointer at most 5 x (readSize + consumed) + 32 *)
Theorem C02_write_ptr_alloc : forall f w dsid off src fc w',
  dok (w_dst w) -> msg_ok (w_src w) -> 0 <= w_src_rl w -> region_ok (w_dst w) dsid off 8 ->
  wf_ptr (w_src w) src -> shape_ok src ->
  write_ptr f true w dsid off InSrc src fc = Ok w' ->
  0 <= w_src_rl w' <= w_src_rl w /\
  0 <= tot (w_dst w') - tot (w_dst w) <= wcost src + 32 * slots src + 5 * (w_src_rl w - w_src_rl w') /\
  tot (w_dst w') - tot (w_dst w) <= 5 * (readSize src + (w_src_rl w - w_src_rl w')) + 32.
Proof. exact write_ptr_alloc. Qed.
Print Assumptions C02_write_ptr_alloc.

Theorem C02_copy_struct_alloc : forall f w dst src w',
  dok (w_dst w) -> msg_ok (w_src w) -> 0 <= w_src_rl w -> dst_ok (w_dst w) dst ->
  wf_struct (w_src w) src -> p_valid src = true ->
  copy_struct f true w dst InSrc src = Ok w' ->
  0 <= w_src_rl w' <= w_src_rl w /\
  0 <= tot (w_dst w') - tot (w_dst w) <= 32 * PointerCount (p_size src) + 5 * (w_src_rl w - w_src_rl w').
Proof. exact copy_struct_alloc. Qed.
Print Assumptions C02_copy_struct_alloc.

(* Canonicalize: the canonical bytes of a hostile struct are at most
   5 x (its size + budget consumed) + 47 long *)
Theorem C02_canonicalize_alloc : forall c fx fuel src rl s bs,
  cfg_strict c = true -> cx_complist fx = true -> msg_ok src -> wf_struct src s -> p_valid s = true -> 0 <= rl ->
  fst (canonicalize c fx fuel src rl s) = KOk bs ->
  let rl' := snd (canonicalize c fx fuel src rl s) in
  0 <= rl' <= rl /\ zlen bs <= 5 * (totalSize (p_size s) + (rl - rl')) + 47.
Proof. exact canonicalize_alloc. Qed.
Print Assumptions C02_canonicalize_alloc.

(* Equal, instrumented with the sum of the read sizes it hands out per message ([equal_mA];
   erasing the ghost gives equal_m): handed out <= budget consumed <= T, any messages (no
   well-formedness needed), any fuel *)
From CV Require Import Value.EqualAcct.
Theorem C02_equal_m_traversal : forall c fx x fuel w p q,
  nonneg2 x w ->
  let r := equal_mA fuel c fx x w (0, 0) p q in
  fst r = equal_m fuel c fx x w p q /\
  forall s, 0 <= rl_of x (snd (fst r)) s /\ 0 <= rl_of x (snd r) s /\
            rl_of x (snd r) s <= rl_of x w s - rl_of x (snd (fst r)) s /\
            rl_of x (snd r) s <= rl_of x w s.
Proof. exact equal_m_traversal. Qed.
Print Assumptions C02_equal_m_traversal.
