(* Second group of the L0 translator tie: the statements of Gen/Agree2*.v (generated Go integer
   logic = the definitions of the hand-written models that restate it), restated.
   Only Theorem .. Proof. exact lemma. Qed. and one assumption printout at the end. *)
From Coq Require Import ZArith Bool List.
From CV Require Import Base.GoSem Core.Arith Core.Builder Text.Strquote Gen.GoArith Gen.GoArithAgree Gen.GoArith2
  Gen.GoArithAgree2.
From CV Require Frame.Frame Pogs.PogsM Layout.Layout.
Open Scope Z_scope.
Module F := Frame.Frame.
Module P := Pogs.PogsM.
Module L := Layout.Layout.

(* ---- Agree2Builder *)
Theorem L0b_go_maxAllocSize_agrees : go_maxAllocSize = maxAllocSize.
Proof. exact go_maxAllocSize_agrees. Qed.

Theorem L0b_go_hasCapacity_agrees : forall s sz,
  0 <= bs_cap s < 9223372036854775808 -> 0 <= blen s < 9223372036854775808 ->
  go_hasCapacity (bs_cap s) (blen s) sz = hasCapacity s sz.
Proof. exact go_hasCapacity_agrees. Qed.

Theorem L0b_go_nextAlloc_agrees : forall k curr max req,
  0 <= curr < 9223372036854775808 -> in_s64 max -> in_u32 req ->
  go_nextAlloc (k + 5) curr max req = Done (alloc_pair (nextAlloc curr max req)).
Proof. exact go_nextAlloc_agrees. Qed.

(* ---- Agree2Frame *)
Theorem L0b_go_streamHeaderSize_agrees : forall maxSeg, in_u32 maxSeg ->
  go_streamHeaderSize maxSeg = F.stream_header_size maxSeg.
Proof. exact go_streamHeaderSize_agrees. Qed.

Theorem L0b_go_segmentSize_agrees : forall word i, in_u32 word ->
  go_segmentSize word i =
  seg_size_pair (match F.word_times (F.to_int32 word) with
                 | Some sz => F.Ok sz
                 | None => F.Err F.ESegOverflow
                 end).
Proof. exact go_segmentSize_agrees. Qed.

Theorem L0b_go_segmentSize_agrees_header : forall hb i s, in_u32 s ->
  F.uint32_at hb (F.seg_index i) = F.Ok s ->
  seg_size_pair (F.segment_size hb i) = go_segmentSize s i.
Proof. exact go_segmentSize_agrees_header. Qed.

(* ---- Agree2Text *)
Theorem L0b_go_needsEscape_agrees : forall b, go_needsEscape b = needs_escape true b.
Proof. exact go_needsEscape_agrees. Qed.

Theorem L0b_go_hexDigit_agrees : forall b, go_hexDigit b = hex_digit b.
Proof. exact go_hexDigit_agrees. Qed.

(* ---- Agree2Pogs *)
Theorem L0b_go_isFieldInBounds_agrees : forall t w s off,
  which_matches t w -> in_u32 off -> no_wrap t off ->
  go_isFieldInBounds w (mkOS (P.s_dbytes s) (P.s_pcount s)) off = P.is_field_in_bounds s off t.
Proof. exact go_isFieldInBounds_agrees. Qed.

(* ---- Agree2Layout *)
Theorem L0b_go_gen_Offset_agrees : forall f w,
  go_gen_Offset (L.fd_off f) (L.wbits w) = L.gen_offset f w.
Proof. exact go_gen_Offset_agrees. Qed.

Theorem L0b_go_intbits_agrees : forall w,
  go_intbits (int_which w) = Some (L.wbits w) /\ go_intbits (uint_which w) = Some (L.wbits w).
Proof. exact go_intbits_agrees. Qed.

Theorem L0b_go_intbits_other : forall t, t < 2 \/ 9 < t -> go_intbits t = None.
Proof. exact go_intbits_other. Qed.

Theorem L0b_go_intFieldDefaultMask_agrees : forall w d,
  go_intFieldDefaultMask true (int_which w) d = Some (L.gen_int_mask w d).
Proof. exact go_intFieldDefaultMask_agrees. Qed.

Theorem L0b_go_intFieldDefaultMask_invalid : forall which d w,
  go_intFieldDefaultMask false which d = Some 0 /\ L.gen_int_mask w 0 = 0.
Proof. exact go_intFieldDefaultMask_invalid. Qed.

(* ---- Agree2Misc *)
Theorem L0b_go_packed_min_agrees : forall a b, go_packed_min a b = Z.min a b.
Proof. exact go_packed_min_agrees. Qed.

Theorem L0b_all_closed : True.
Proof.
  exact (let _ :=
    (L0b_go_maxAllocSize_agrees, L0b_go_hasCapacity_agrees, L0b_go_nextAlloc_agrees,
     L0b_go_streamHeaderSize_agrees, L0b_go_segmentSize_agrees, L0b_go_segmentSize_agrees_header,
     L0b_go_needsEscape_agrees, L0b_go_hexDigit_agrees, L0b_go_isFieldInBounds_agrees,
     L0b_go_gen_Offset_agrees, L0b_go_intbits_agrees, L0b_go_intbits_other,
     L0b_go_intFieldDefaultMask_agrees, L0b_go_intFieldDefaultMask_invalid, L0b_go_packed_min_agrees) in I).
Qed.

Print Assumptions L0b_all_closed.
