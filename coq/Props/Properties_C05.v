(* C05 - produced messages are valid Cap'n Proto.  Statements only.
   This file: the allocation half (fresh, zeroed, aligned, inside len <= cap, pairwise
   disjoint), its preservation (segments stay word aligned with len <= cap and only grow) by
   every pointer-writing operation incl. deep copies, pointer resolution of the placement
   switch, and the handle-pool invariant over all op lists.  The headline - every reachable
   builder state satisfies the table invariant, hence [valid_message = VOk] - is in
   Properties_C05_heap.v (C05_heap_inv_tables, C05_heap_inv_sublang). *)
From CV Require Import Core.Builder Core.ReaderFacts Core.ArithFacts Core.BuilderFacts Core.AllocProofs
  Core.WritePtrProofs Core.HeapProofs Core.BuildOps Core.BuildValid Core.BuildExamples Core.BuildInv.
From CV Require Core.HeapMarshal.
Open Scope Z_scope.

Theorem C05_alloc_zeroed_aligned_in_cap : forall m sid sz m' sid' addr,
  bmsg_wf m -> arena_wf m -> 0 <= sid < zlen (bm_segs m) -> 0 <= sz ->
  alloc m sid sz = Ok (m', sid', addr) ->
  let n := padToWord sz in
  0 <= sid' < zlen (bm_segs m') /\
  addr = blen (get_seg m sid') /\ addr mod 8 = 0 /\ n mod 8 = 0 /\ sz <= n /\
  bs_data (get_seg m' sid') = bs_data (get_seg m sid') ++ repeat 0 (Z.to_nat n) /\
  addr + n = blen (get_seg m' sid') /\
  blen (get_seg m' sid') <= bs_cap (get_seg m' sid') /\
  blen (get_seg m' sid') <= maxSegmentSize /\
  (forall i, 0 <= i -> i <> sid' -> bs_data (get_seg m' i) = bs_data (get_seg m i)) /\
  (forall i, 0 <= i -> bs_cap (get_seg m i) <= bs_cap (get_seg m' i)) /\
  zlen (bm_segs m) <= zlen (bm_segs m') <= zlen (bm_segs m) + 1 /\
  bmsg_wf m' /\ arena_wf m' /\
  bm_arena m' = bm_arena m /\ bm_caps m' = bm_caps m /\ bm_rl m' = bm_rl m.
Proof. exact alloc_fresh. Qed.
Print Assumptions C05_alloc_zeroed_aligned_in_cap.

(* objects allocated at different times occupy disjoint storage *)
Theorem C05_allocs_disjoint : forall m sid sz m1 s1 a1 m2 sid2 sz2 m3 s2 a2,
  inv m -> 0 <= sid < nsegs m -> 0 <= sz -> alloc m sid sz = Ok (m1, s1, a1) ->
  (forall i, 0 <= i -> zlen (mem m1 i) <= zlen (mem m2 i)) ->
  inv m2 -> 0 <= sid2 < nsegs m2 -> 0 <= sz2 -> alloc m2 sid2 sz2 = Ok (m3, s2, a2) ->
  s1 <> s2 \/ a1 + padToWord sz <= a2.
Proof. exact allocs_disjoint. Qed.
Print Assumptions C05_allocs_disjoint.

(* heap_inv (allocation part) is preserved by SetPtr / PointerList.Set / SetRoot with all their
   copy branches: segments stay word aligned with len <= cap, lengths only grow (so the premise
   of C05_allocs_disjoint holds between any two allocations), nothing but the pointer word
   changes among the bytes that existed *)
Theorem C05_heap_inv_write_ptr_partial : forall fuel strict w dsid off l src w',
  inv (w_dst w) -> 0 <= dsid < nsegs (w_dst w) -> sz_ok src ->
  (l = InDst -> p_valid src = true -> 0 <= p_seg src < nsegs (w_dst w)) ->
  write_ptr fuel strict w dsid off l src false = Ok w' ->
  keeps (w_dst w) (w_dst w') (Rword dsid off) /\ inv (w_dst w') /\
  nsegs (w_dst w) <= nsegs (w_dst w') /\ w_src w' = w_src w.
Proof. exact write_ptr_frame. Qed.
Print Assumptions C05_heap_inv_write_ptr_partial.

Theorem C05_heap_inv_copy_struct_partial : forall fuel strict w dst l src w',
  inv (w_dst w) -> 0 <= p_seg dst < nsegs (w_dst w) -> wf_size (p_size dst) -> 0 <= p_off dst <= 4294967295 ->
  sz_ok src ->
  copy_struct fuel strict w dst l src = Ok w' ->
  keeps (w_dst w) (w_dst w') (Rfrom dst) /\ inv (w_dst w') /\
  nsegs (w_dst w) <= nsegs (w_dst w') /\ w_src w' = w_src w.
Proof. exact copy_struct_frame. Qed.
Print Assumptions C05_heap_inv_copy_struct_partial.

Theorem C05_heap_inv_setter_partial : forall m m' sid a bs, wrote m m' sid a bs -> 0 <= sid -> inv m -> inv m'.
Proof. exact wrote_inv. Qed.
Print Assumptions C05_heap_inv_setter_partial.

(* every pointer word stored by the placement switch resolves inside its target segment; a
   far pad is one non-far pointer, a double-far pad a far pointer + a zero-offset tag (these are
   the checks of the reader model's resolveFarPointer, which the statement runs) *)
Theorem C05_pointer_resolves : forall w dsid off tsid taddr raw w',
  place_pre (w_dst w) dsid off tsid taddr raw ->
  place w dsid off tsid taddr raw = Ok w' ->
  resolves_to (bm_data (w_dst w')) dsid off tsid taddr raw /\
  w_src w' = w_src w /\ w_src_rl w' = w_src_rl w /\
  bm_caps (w_dst w') = bm_caps (w_dst w) /\ bm_rl (w_dst w') = bm_rl (w_dst w) /\
  (exists pw, forall i, 0 <= i -> exists t,
     mem (w_dst w') i = (if i =? dsid then write_bytes (mem (w_dst w) i) off (le_encode 8 pw)
                         else mem (w_dst w) i) ++ t).
Proof. exact place_resolves. Qed.
Print Assumptions C05_pointer_resolves.

(* heap_inv over op lists (segment-level part): for every arena configuration, every op list
   whose arguments are in the ranges of the Go types and every state the interpreter reaches,
   the handle pool is sound and every segment of the message under construction is a whole
   number of words inside its capacity - the first rule of [valid_message] holds on every
   reachable state *)
Theorem C05_heap_inv_partial : forall a cfgd cfgs ncaps fuel src ops m,
  arena_spec_wf a -> Forall op_wf ops -> create a (init_rlimit cfgd) = Ok m ->
  Forall (fun st => binv st /\
            forallb (fun s => zlen s mod 8 =? 0) (bm_data (w_dst (st_w st))) = true /\
            Forall (fun s => blen s <= bs_cap s) (bm_segs (w_dst (st_w st))))
         (bstates (mkEnv cfgd cfgs ncaps fuel) (mkBSt (mkW m src (init_rlimit cfgs)) []) ops).
Proof. exact heap_inv_partial. Qed.
Print Assumptions C05_heap_inv_partial.

Theorem C05_step_invariant : forall e st o st' out,
  binv st -> op_wf o -> bstep e st o = (Some st', out) -> binv st'.
Proof. exact bstep_binv. Qed.
Print Assumptions C05_step_invariant.

(* non-vacuity: the example program is well formed *)
Theorem C05_example_op_wf : Forall op_wf ex_prog /\ arena_spec_wf (ArRaw [32; 8]).
Proof. exact HeapMarshal.ex_prog_op_wf. Qed.
Print Assumptions C05_example_op_wf.

(* the strict validity predicate accepts the example messages (far and double-far) and
   rejects an out-of-bounds pointer *)
Theorem C05_example_valid : valid_message (last_dump ex_far) = VOk /\ valid_message (last_dump ex_dfar) = VOk.
Proof. exact ex_both_valid. Qed.
Print Assumptions C05_example_valid.
Theorem C05_example_invalid : valid_message [[0; 0; 0; 0; 1; 0; 0; 0]] = VBad 1.
Proof. exact ex_invalid. Qed.
Print Assumptions C05_example_invalid.
