(* C16, independence half: a copy and its source do not influence each other.  (The value half -
   the copy denotes the source's value, resized - is C16_copy_value_* in Properties_C16.v.)
   Statements only. *)
From CV Require Import Core.Builder Core.Reader Core.ReaderFacts Core.BuilderFacts Core.HeapProofs Core.BuildOps Core.BuildValid
  Core.HeapInv Core.HeapOps Core.HeapCopy Core.HeapCopySrc Core.HeapSteps Core.HeapValid Core.HeapHistory.
Require Import ZArith List. Import ListNotations.
Open Scope Z_scope.

(* inside one message, part 1: byte-level independence.  WHAT THIS THEOREM IS: a frame property of
   the table invariant, for ANY split of the object table into an older part objs and a newer
   part eo: a write inside an entry of one part leaves every entry of the other part byte for byte
   unchanged.  It does not mention write_ptr; part 2 (C16_forced_copy_fresh, below) supplies the
   split for a copying writePtr and says where the slot points. *)
Theorem C16_copy_independent : forall m objs eo pads m' R j,
  hinv m (objs ++ eo) pads -> keeps m m' R -> (j < length (regsO (objs ++ eo)))%nat ->
  inside (nth j (regsO (objs ++ eo)) root_reg) R ->
  ((j <= length objs)%nat -> forall c, (length objs < c < length (regsO (objs ++ eo)))%nat ->
     reg_bytes m' (nth c (regsO (objs ++ eo)) root_reg) = reg_bytes m (nth c (regsO (objs ++ eo)) root_reg)) /\
  ((length objs < j)%nat -> forall o, (o <= length objs)%nat ->
     reg_bytes m' (nth o (regsO (objs ++ eo)) root_reg) = reg_bytes m (nth o (regsO (objs ++ eo)) root_reg)).
Proof. exact copy_independent. Qed.
Print Assumptions C16_copy_independent.

(* between two messages: writePtr / copyStruct never write the source message ... *)
Theorem C16_copy_keeps_source : forall fp f,
  (forall strict w d o l src fc w', write_ptr_gen fp f strict w d o l src fc = Ok w' -> w_src w' = w_src w) /\
  (forall strict w dst l src w', copy_struct_gen fp f strict w dst l src = Ok w' -> w_src w' = w_src w).
Proof. exact src_pres. Qed.
Print Assumptions C16_copy_keeps_source.

(* ... nor does any other op applied to the message under construction: whatever is done to the
   copy afterwards, the source message stays byte for byte what it was ... *)
Theorem C16_source_unchanged : forall e st o st' out,
  dst_only st o -> bstep e st o = (Some st', out) -> w_src (st_w st') = w_src (st_w st).
Proof. exact bstep_src_eq. Qed.
Print Assumptions C16_source_unchanged.

(* ... and a data setter applied to a handle of the source message does not write the message
   under construction: the copy is unchanged *)
Theorem C16_copy_unchanged_by_source_setter : forall w (F : bmsg -> res bmsg) w',
  set_in w InSrc F = Ok w' -> w_dst w' = w_dst w.
Proof. exact src_setter_dst. Qed.
Print Assumptions C16_copy_unchanged_by_source_setter.

(* inside one message, part 2: a copying writePtr is not shallow.  Whenever writePtr copies -
   forceCopy (set by copyStruct for every pointer it copies: SetStruct, CopyFrom and everything
   below them) or a list-member source - and the source is a non-empty struct or a list, the
   object table grows by at least one entry h, the copy: h starts at the old end of its segment
   (position 0 of a segment that did not exist), the invariant for objs ++ h :: eo makes it
   disjoint from every older object, the source included, and the slot written resolves
   (resolve_ptr: through the landing pads) to exactly h.  The theorem is about one writePtr call;
   copyStruct calls writePtr with forceCopy for every pointer of the source, so it applies to every
   pointer slot of the copy, at every depth.  NOT stated as one theorem: the closure "every slot
   reachable from the copy designates an entry of eo" (it needs the induction of C05_copy_all
   restated with this conclusion); empty structs are encoded inline and capabilities are table
   indices: nothing to copy. *)
Theorem C16_forced_copy_fresh : forall f w objs pads q src fc w',
  tinv w objs pads -> In q ((0, 0) :: flat_map slots objs) -> view objs src ->
  p_valid src = true -> p_kind src <> KIface -> (p_kind src = KStruct -> os_isZero (p_size src) = false) ->
  fc || p_member src = true ->
  write_ptr (S f) true w (fst q) (snd q) InDst src fc = Ok w' -> nsegs (w_dst w') < B32 ->
  exists h eo ep, tinv w' (objs ++ h :: eo) (pads ++ ep) /\
    obj_start h = zlen (mem (w_dst w) (p_seg h)) /\
    exists pads', resolve_ptr (bm_data (w_dst w')) (fst q) (snd q) = (tgt_of h, pads' ++ [obj_reg h]).
Proof. exact forced_copy_fresh. Qed.
Print Assumptions C16_forced_copy_fresh.

(* one program, evaluated: CopyFrom inside one message copies the child too (new child at 48, the
   old one stays at 24), and later writes to either child do not show in the other *)
Example C16_forced_copy_is_deep_example :
  sub_prog ex3_ops = true /\
  map bval_summary (brun ex2_env ex2_st0 ex3_ops) = [8; 24; 0; 0; 0; 32; 0; 48; 24; 0; 7; 9; 0; 5; 9].
Proof. exact forced_copy_is_deep_example. Qed.
Print Assumptions C16_forced_copy_is_deep_example.
