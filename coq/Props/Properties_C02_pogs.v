(* C02 for the consumer pogs.Extract over the reader model: recursion bounded by the depth
   limit D and the schema's by-value nesting G, on arbitrary (cyclic) bytes.  Statements only. *)
From CV Require Import Core.SafetyProofs Core.LimitProofs Pogs.PogsRead Pogs.PogsReadProofs Pogs.PogsReadFuel
  Pogs.PogsReadExamples.
From CV Require Pogs.PogsM.
Open Scope Z_scope.

Theorem C02_pogs_extract_fuel_sufficient : forall c fx m sch Gn fuel id,
  fx_depth fx = true -> (1 <= Gn)%nat -> rschema_ok Gn sch = true -> 1 <= depth_limit c ->
  (depth_limit c + 1) * Z.of_nat Gn <= Z.of_nat fuel ->
  fst (extract_msg fuel c fx m sch id) <> TRes XFuel.
Proof. exact extract_msg_fuel_sufficient. Qed.
Print Assumptions C02_pogs_extract_fuel_sufficient.

(* from any struct pointer: fuel >= (levels of dereference left below sp) * G + g *)
Theorem C02_pogs_extract_r_fuel : forall c fx m sch Gn,
  fx_depth fx = true -> (1 <= Gn)%nat -> rschema_ok Gn sch = true ->
  forall fuel id sp g, nest_ok g sch id = true -> (p_valid sp = true -> 0 <= p_depth sp) ->
  dep sp * Z.of_nat Gn + Z.of_nat g <= Z.of_nat fuel ->
  nfM (extract_r fuel c fx m sch id sp) top_.
Proof. exact extract_r_nf. Qed.
Print Assumptions C02_pogs_extract_r_fuel.

(* the cyclic message: stops with an error at the depth limit; XFuel is a distinct outcome *)
Theorem C02_pogs_cyclic_stops :
  extract_msg 5 ex_cfg ex_fx cyc_msg ex_sch 1 = (TRes XErr, mkX 976 3 2).
Proof. exact pogsread_cyclic_stops. Qed.
Print Assumptions C02_pogs_cyclic_stops.

Theorem C02_pogs_fuel_distinct :
  fst (extract_msg 1 ex_cfg ex_fx cyc_msg ex_sch 1) = TRes XFuel.
Proof. exact pogsread_fuel_distinct. Qed.
Print Assumptions C02_pogs_fuel_distinct.
