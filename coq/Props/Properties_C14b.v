(* C14, continued: ReuseBuffer is transparent on every byte stream; characterisation of a whole
   Decode history on an arbitrary stream.  Statements only. *)
From CV Require Import Frame.Frame.
From CV Require Import Frame.FramePacked.
From CV Require Import Frame.FrameReaders.
From CV Require Import Frame.FrameHist.
From CV Require Import Frame.FrameReuse.
From CV Require Import Frame.FrameReuseProofs.
From CV Require Import Frame.FrameReuseEq.
Open Scope Z_scope.

(* EVERY byte stream (arbitrary values: not even bytes_ok is assumed, no framing assumption), every
   reader behaviour the io.Reader contract permits (any chunking, (0,nil) reads, any final error,
   delivered with the last bytes or by a later call), any MaxMessageSize (also re-assigned during the
   history), any capacities of d.hdrbuf / d.buf, any reuse flag at the start, ReuseBuffer() called at
   ANY points of the history, every history length: the outcomes of the Decode calls (io.EOF / which
   check failed / the message WITH the contents of its segments) are exactly those of the same
   history with every ReuseBuffer() call removed, run from fresh or any other buffers with the flag
   off.  Conjuncts: (1) the general reader of FrameReaders.v, (2) Frame.v's plain chunked reader
   (run_history), (3) packed.Reader in ANY state over ANY packed bytes and bufio oracle,
   (4)/(5) n Decode calls with the flag on = n Decode calls with the flag off, plain and packed. *)
Theorem C14_reuse_transparent_all_streams :
  (forall ops cs fin tog hc bc ru hc' bc' mx,
     outcomes (snd (grun_history xread_full (mkD (mkX cs fin tog) hc bc ru mx) ops))
     = outcomes (snd (grun_history xread_full (mkD (mkX cs fin tog) hc' bc' false mx) (erase_reuse ops))))
  /\ (forall ops cs fin hc bc ru hc' bc' mx,
     outcomes (snd (run_history (mkD (mkReader cs fin) hc bc ru mx) ops))
     = outcomes (snd (run_history (mkD (mkReader cs fin) hc' bc' false mx) (erase_reuse ops))))
  /\ (forall ops (p : preader) hc bc ru hc' bc' mx,
     outcomes (snd (grun_history pread_full (mkD p hc bc ru mx) ops))
     = outcomes (snd (grun_history pread_full (mkD p hc' bc' false mx) (erase_reuse ops))))
  /\ (forall n cs fin hc bc hc' bc' mx,
     outcomes (snd (decode_n (mkD (mkReader cs fin) hc bc true mx) n))
     = outcomes (snd (decode_n (mkD (mkReader cs fin) hc' bc' false mx) n)))
  /\ (forall n orc P hc bc hc' bc' mx,
     outcomes (snd (pdecode_n (mkD (p_init orc P) hc bc true mx) n))
     = outcomes (snd (pdecode_n (mkD (p_init orc P) hc' bc' false mx) n))).
Proof. exact reuse_transparent_all_streams. Qed.
Print Assumptions C14_reuse_transparent_all_streams.

(* generic form: any ReadFull that returns [need] bytes when it succeeds *)
Theorem C14_reuse_transparent_any_readfull : forall R (rf : R -> Z -> rf_out * R), rf_exact rf ->
  forall ops s1 s2, same_view s1 s2 ->
  outcomes (snd (grun_history rf s1 ops)) = outcomes (snd (grun_history rf s2 (erase_reuse ops))).
Proof. exact (fun R rf H => reuse_transparent_history rf H). Qed.
Print Assumptions C14_reuse_transparent_any_readfull.

(* the erased history contains no ReuseBuffer() *)
Theorem C14_erase_reuse_no_reuse : forall ops, ~ In OpReuse (erase_reuse ops).
Proof. exact erase_reuse_no_reuse. Qed.
Print Assumptions C14_erase_reuse_no_reuse.

(* content level (FrameReuse.v): Decode / read-all-segments histories with ReuseBuffer, from ANY
   previous contents of the reused buffers and ANY state of the reused Message's segment cache, on ANY
   byte stream, report what Decode WITHOUT ReuseBuffer reports, and the segments read through
   Message.Segment are that message's segments *)
Theorem C14_reuse_content_transparent : forall n st hc bc, ust_ok st ->
  Forall2 (fun ro d => out_match (fst d) (fst ro) (snd ro))
          (rdecode_read_n ResetFull st n)
          (snd (decode_n (mkD (u_rd st) hc bc false (u_max st)) n)).
Proof. exact reuse_content_transparent. Qed.
Print Assumptions C14_reuse_content_transparent.
