(* C14, continued: ReuseBuffer is transparent on every byte stream; characterisation of a whole
   Decode history on an arbitrary stream.  Statements only. *)
From CV Require Import Frame.Frame.
From CV Require Import Frame.FramePacked.
From CV Require Import Frame.FrameReaders.
From CV Require Import Frame.FrameHist.
From CV Require Import Frame.FrameReuse.
From CV Require Import Frame.FrameReuseProofs.
From CV Require Import Frame.FrameReuseEq.
From CV Require Import Frame.FrameProofs.
From CV Require Import Frame.FrameStream.
From CV Require Import Frame.FrameHistory.
Open Scope Z_scope.

(* EVERY byte stream (arbitrary values: not even bytes_ok is assumed, no framing assumption), every
   reader behaviour the io.Reader contract permits (any chunking, (0,nil) reads, any final error,
   delivered with the last bytes or by a later call), any MaxMessageSize (also re-assigned during the
   history), any capacities of d.hdrbuf / d.buf, any reuse flag at the start, ReuseBuffer() called at
   ANY points of the history, every history length: the outcomes of the Decode calls (io.EOF / which
   check failed / the message WITH the contents of its segments) are exactly those of the same
   history with every ReuseBuffer() call removed, run from fresh or any other buffers with the flag
   off.  Conjuncts: (1) the general reader of FrameReaders.v, (2) Frame.v's plain chunked reader
   (run_history), (3) packed.Reader in ANY state over ANY packed bytes and bufio oracle,
   (4)/(5) n Decode calls with the flag on = n Decode calls with the flag off, plain and packed. *)
Theorem C14_reuse_transparent_all_streams :
  (forall ops cs fin tog hc bc ru hc' bc' mx,
     outcomes (snd (grun_history xread_full (mkD (mkX cs fin tog) hc bc ru mx) ops))
     = outcomes (snd (grun_history xread_full (mkD (mkX cs fin tog) hc' bc' false mx) (erase_reuse ops))))
  /\ (forall ops cs fin hc bc ru hc' bc' mx,
     outcomes (snd (run_history (mkD (mkReader cs fin) hc bc ru mx) ops))
     = outcomes (snd (run_history (mkD (mkReader cs fin) hc' bc' false mx) (erase_reuse ops))))
  /\ (forall ops (p : preader) hc bc ru hc' bc' mx,
     outcomes (snd (grun_history pread_full (mkD p hc bc ru mx) ops))
     = outcomes (snd (grun_history pread_full (mkD p hc' bc' false mx) (erase_reuse ops))))
  /\ (forall n cs fin hc bc hc' bc' mx,
     outcomes (snd (decode_n (mkD (mkReader cs fin) hc bc true mx) n))
     = outcomes (snd (decode_n (mkD (mkReader cs fin) hc' bc' false mx) n)))
  /\ (forall n orc P hc bc hc' bc' mx,
     outcomes (snd (pdecode_n (mkD (p_init orc P) hc bc true mx) n))
     = outcomes (snd (pdecode_n (mkD (p_init orc P) hc' bc' false mx) n))).
Proof. exact reuse_transparent_all_streams. Qed.
Print Assumptions C14_reuse_transparent_all_streams.

(* generic form: any ReadFull that returns [need] bytes when it succeeds *)
Theorem C14_reuse_transparent_any_readfull : forall R (rf : R -> Z -> rf_out * R), rf_exact rf ->
  forall ops s1 s2, same_view s1 s2 ->
  outcomes (snd (grun_history rf s1 ops)) = outcomes (snd (grun_history rf s2 (erase_reuse ops))).
Proof. exact (fun R rf H => reuse_transparent_history rf H). Qed.
Print Assumptions C14_reuse_transparent_any_readfull.

(* the erased history contains no ReuseBuffer() *)
Theorem C14_erase_reuse_no_reuse : forall ops, ~ In OpReuse (erase_reuse ops).
Proof. exact erase_reuse_no_reuse. Qed.
Print Assumptions C14_erase_reuse_no_reuse.

(* content level (FrameReuse.v): Decode / read-all-segments histories with ReuseBuffer, from ANY
   previous contents of the reused buffers and ANY state of the reused Message's segment cache, on ANY
   byte stream, report what Decode WITHOUT ReuseBuffer reports, and the segments read through
   Message.Segment are that message's segments *)
Theorem C14_reuse_content_transparent : forall n st hc bc, ust_ok st ->
  Forall2 (fun ro d => out_match (fst d) (fst ro) (snd ro))
          (rdecode_read_n ResetFull st n)
          (snd (decode_n (mkD (u_rd st) hc bc false (u_max st)) n)).
Proof. exact reuse_content_transparent. Qed.
Print Assumptions C14_reuse_content_transparent.

(* ---------------------------------------------------------------- whole Decode histories (plain path) *)

(* message.go's Decoder keeps no error state.  After io.EOF or a failed read the stream is exhausted
   and every later Decode returns io.EOF; after any OTHER error (too many segments, too large, size
   overflow) it goes on parsing at the byte after what it consumed: C14_decode_not_sticky.

   The stream is the frames of [msgs] (each acceptable to the decoder) followed by ANY bytes [rest];
   any chunking, any final reader error, reuse on/off, any capacities; |msgs| + 1 + n calls, every n:
   (1) the first |msgs| outcomes are the messages, in order;
   (2) outcome number |msgs| is io.EOF  iff  rest is empty and the reader ends with io.EOF;
   (3) if it is io.EOF or a read error, all n later outcomes are io.EOF;
   (4) it IS io.EOF or a read error when rest is empty or a non-empty strict prefix of an acceptable frame;
   (5) it is the message m when rest starts with the canonical frame of an acceptable m.
   PARTIAL w.r.t. "exactly the whole frames of the longest prefix that parses as frames": when rest is none
   of these (its header breaks a limit, or it is a frame whose header PADDING word is not zero, which the
   decoder accepts without looking: decode_history_example) only "not io.EOF" and (3) are proved; the
   converse "a returned message means the stream holds one of its wire frames" is not proved. *)
Theorem C14_decode_history_characterised_partial : forall msgs rest cs fin hc bc ru mx n,
  max_ok mx -> Forall (frame_ok mx) msgs -> concat cs = concat (map frame msgs) ++ rest ->
  let outs := outcomes (snd (decode_n (mkD (mkReader cs fin) hc bc ru mx) (length msgs + S n))) in
  let nxt := nth (length msgs) outs DPanic in
  firstn (length msgs) outs = map DMsg msgs /\
  (nxt = DEof <-> rest = [] /\ fin = EOF) /\
  (end_out nxt = true -> skipn (S (length msgs)) outs = repeat DEof n) /\
  ((rest = [] \/ exists m tail, frame_ok mx m /\ frame m = rest ++ tail /\ rest <> [] /\ tail <> []) ->
   end_out nxt = true) /\
  (forall m t, frame_ok mx m -> rest = frame m ++ t -> nxt = DMsg m).
Proof. exact decode_history_characterised_partial. Qed.
Print Assumptions C14_decode_history_characterised_partial.

(* ANY stream (no framing assumption), any chunking, any final reader error, any decoder state, every
   k and n: if Decode number k returned io.EOF or a read error, the n calls after it return io.EOF *)
Theorem C14_decode_end_sticky : forall k n st, max_ok (d_max st) ->
  let outs := outcomes (snd (decode_n st (S k + n))) in
  end_out (nth k outs DPanic) = true -> skipn (S k) outs = repeat DEof n.
Proof. exact decode_end_sticky. Qed.
Print Assumptions C14_decode_end_sticky.

(* ANY stream ...: Decode number k returns io.EOF only if the k calls before it consumed the whole
   stream and the reader ends with io.EOF ("io.EOF only at a boundary", without any framing assumption) *)
Theorem C14_decode_eof_only_exhausted : forall k st,
  nth k (outcomes (snd (decode_n st (S k)))) DPanic = DEof -> exhausted (d_rd (fst (decode_n st k))).
Proof. exact decode_eof_only_exhausted. Qed.
Print Assumptions C14_decode_eof_only_exhausted.

(* one Decode on ANY stream and state: MaxMessageSize unchanged; io.EOF only from an exhausted stream;
   after io.EOF or a read error the stream is exhausted *)
Theorem C14_decode1_end : forall st st' out log, decode1 st = (st', out, log) ->
  d_max st' = d_max st /\ (out = DEof -> exhausted (d_rd st)) /\ (end_out out = true -> exhausted (d_rd st')).
Proof. exact decode1_end. Qed.
Print Assumptions C14_decode1_end.

(* not sticky after other errors: 513 segments announced -> refused; the next Decode returns a message *)
Theorem C14_decode_not_sticky :
  let s := [0; 2; 0; 0; 0; 0; 0; 0] ++ frame [[1; 2; 3; 4; 5; 6; 7; 8]] in
  outcomes (snd (decode_n (d_init (mkReader [s] EOF) 0) 4))
  = [DErr ETooManySegs; DMsg [[1; 2; 3; 4; 5; 6; 7; 8]]; DEof; DEof].
Proof. exact decode_not_sticky. Qed.
Print Assumptions C14_decode_not_sticky.
