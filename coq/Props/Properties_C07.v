(* C07 -- RPC capability references are counted exactly; nothing leaks or double-frees.
   Statements only.  History level: export_count, import_release, close_releases_all; the
   handler-level lemmas of the first round are kept (complete lemmas about single primitives). *)
From CV Require Import Rpc.Rpc Rpc.RpcSpec Rpc.RpcProofs Rpc.RpcInv Rpc.RpcResp Rpc.RpcLocal Rpc.RpcHist Rpc.RpcQids Rpc.RpcImports Rpc.RpcRefs Rpc.RpcRefuted.
Open Scope Z_scope.

(* ================= history-level theorem (second round) =================
   export_count: in every state reached by a history, while the connection is up, for every export id
     entry present -> wireRefs = sent - released > 0,   entry absent -> sent = released,
   and the ids on the free list name empty slots (so sendCap's new entries start from sent = released).
   [s_sent] / [s_rel] are cumulative ghost counters: sent is bumped exactly where a senderHosted
   descriptor is written ([C07_sent_is_descriptors]); released by the count of every successful
   releaseExport -- Release messages, Finish(releaseResultCaps), Return(releaseParamCaps) after the
   repair of F19 ([C07_release_export_exact] below: the count is booked exactly, over-release is
   refused without change). *)
Theorem C07_export_count : forall boot evs s out, work evs < 4294967295 -> run_o (init boot) evs [] = Ok (s, out) -> s_shut s = false ->
  exp_count (s_exp s) (s_sent s) (s_rel s) /\ slots_free (s_egen s) (s_exp s).
Proof. exact export_count. Qed.
Print Assumptions C07_export_count.
Theorem C07_sent_is_descriptors : forall x s s1 d oe, send_cap cfg_fixed x s = Ok (s1, d, oe) ->
  forall e, cget e (s_sent s1) = cget e (s_sent s) + (match d with DSH i => if e =? i then 1 else 0 | _ => 0 end) /\ s_rel s1 = s_rel s.
Proof. exact send_cap_sent. Qed.
Print Assumptions C07_sent_is_descriptors.
(* import_release over histories.  [s_recv] is a ghost counter of the machine: the descriptors
   (senderHosted / senderPromise) received per import id, bumped by addImport and nowhere else;
   [rlsum i out] sums the referenceCounts of the Release messages for id i in the outbox; [wire i]
   is the wireRefs of i's entry (0 if there is none).  While the connection is up:
     rlsum i out + wire i = received i,   every entry has wireRefs > 0,
     no entry -> everything received for i has been released (exactly, never more).
   A Release is sent only by importClient.Shutdown of the entry's current generation, carries the
   entry's wireRefs and deletes the entry ([C07_import_release_exact] below); the step that drops
   the last local reference of the current client (no call in progress on it) is that step
   ([C07_release_at_last_ref]).  When a re-import finds the entry of a client whose Shutdown is
   still postponed, the new generation takes the entry over WITH its wireRefs (as import.go does):
   the references of the old generation are then given back by the new generation's Release --
   the balance is per import id, which is what the peer counts. *)
Theorem C07_import_release : forall boot evs s out, work evs < 4294967295 -> run_o (init boot) evs [] = Ok (s, out) -> s_shut s = false ->
  (forall i, rlsum i out + wire i (s_imp s) = cget i (s_recv s)) /\
  (forall i e, aget i (s_imp s) = Some e -> 0 < i_wire e) /\
  (forall i, aget i (s_imp s) = None -> rlsum i out = cget i (s_recv s)).
Proof. exact import_release. Qed.
Print Assumptions C07_import_release.
Theorem C07_release_at_last_ref : forall i g s e s1 o, imp_release cfg_fixed i g s = Ok (s1, o) -> s_shut s = false ->
  aget i (s_imp s) = Some e -> i_gen e = g -> i_refs e = 1 -> busy_get i g (s_busy s) = 0 ->
  o = [ORelease i (i_wire e)] /\ aget i (s_imp s1) = None.
Proof. exact release_at_last_ref. Qed.
Print Assumptions C07_release_at_last_ref.
(* close_releases_all over histories.  [s_lrefs] counts, per local server j, the references held on
   it.  [RC j s] is what the tables hold: the bootstrap capability, the exports whose client is j,
   the capabilities j in the arguments and result tables of the answers, the application handles
   resolved to j, the embargoes on j ([HND] = the handles alone).  For EVERY history:
   - while the connection is up the count equals RC exactly (the invariant also says that every
     embargo's reference count is the number of handles that name it, that an answer that has
     returned holds no arguments, and that the handle of an unresolved bootstrap question is
     still unresolved);
   - after Close / Abort the question, answer, export and embargo tables are empty, the bootstrap
     reference is gone, and the count equals the number of application handles still resolved to j;
   - hence a server none of whose handles is left has count 0: every reference the connection took
     on it has been given back, exactly once (its Shutdown has run; the count is never negative
     since it always equals a number of holders).
   The end-of-history observation of the differential run (release of every handle, Close, Shutdown
   count 1 for every server) is this statement on the implementation. *)
Theorem C07_close_releases_all : forall boot evs s out, work evs < 4294967295 -> run_o (init boot) evs [] = Ok (s, out) ->
  (s_shut s = false -> forall j, cget j (s_lrefs s) = RC j s) /\
  (s_shut s = true -> s_qs s = [] /\ s_ans s = [] /\ s_exp s = [] /\ s_emb s = [] /\ s_boot s = false /\
                      forall j, cget j (s_lrefs s) = HND j (s_handles s)) /\
  (s_shut s = true -> forall j, (forall h, In h (s_handles s) -> h <> HCap (CLocal j)) -> cget j (s_lrefs s) = 0).
Proof. exact close_releases_all. Qed.
Print Assumptions C07_close_releases_all.

(* ================= first round =================
   export_count as first written (proved since as C07_export_count + C07_close_releases_all):
     in every reachable state that is not shut down, for every export id e:
       entry present  -> wireRefs e = sent e - released e > 0,
       entry absent   -> sent e = released e,
     where sent counts the senderHosted descriptors emitted for e and released sums Release counts,
     Finish(releaseResultCaps) and Return(releaseParamCaps); the export's client is released exactly
     once, when the count reaches 0 or at Close.
   Handler level: releaseExport (used by Release, Finish and -- after the repair of F19 -- Return)
   keeps the equation, fails without any change when the entry is absent or too many references
   are released, and books exactly the count otherwise.
   (History level: C07_export_count, C07_close_releases_all above.) *)
Theorem C07_release_export_exact : forall id n s, exp_count_ok s -> 0 <= n ->
  let '(s1, oc, err) := release_export id n s in
  exp_count_ok s1 /\ (err = true -> s1 = s) /\ (err = false -> cget id (s_rel s1) = cget id (s_rel s) + n).
Proof. exact release_export_count. Qed.
Print Assumptions C07_release_export_exact.

(* import_release, handler level (the history-level form is C07_import_release above):
   importClient.Shutdown of the current generation sends exactly [Release id wireRefs]
   and deletes the entry, any other generation sends nothing; addImport adds one to wireRefs per
   descriptor; a re-created client gets a generation no earlier client of the connection had.
   *)
Theorem C07_import_release_exact : forall i g s s1 o, imp_shutdown cfg_fixed i g s = Ok (s1, o) ->
  match aget i (s_imp s) with
  | Some e => if negb (s_shut s) && (i_gen e =? g) then o = [ORelease i (i_wire e)] /\ aget i (s_imp s1) = None
              else o = [] /\ s1 = s
  | None => o = [] /\ s1 = s
  end.
Proof. exact import_release_exact. Qed.
Print Assumptions C07_import_release_exact.

Theorem C07_add_import_counts : forall i s,
  let '(s1, x) := add_import cfg_fixed i s in
  match aget i (s_imp s1) with
  | Some e1 => i_wire e1 = (match aget i (s_imp s) with Some e => i_wire e | None => 0 end) + 1 /\ x = CImp i (i_gen e1) /\ 0 < i_refs e1
  | None => False
  end.
Proof. exact add_import_counts. Qed.
Print Assumptions C07_add_import_counts.

(* F20 decided by the model: with per-entry generations the delayed Shutdown of an old client
   deletes the re-created entry of a live client (wrong Release, then a nil dereference); with
   generations drawn from one counter a re-created client never shares its generation ;
   the premise "every entry's generation is at most the counter" holds initially (no entries) and
   is preserved by addImport (first conjunct of the conclusion); it is NOT threaded through whole
   histories as an invariant here (the other handlers do not touch i_gen or s_impgen) *)
Theorem C07_generation_fresh : forall i s,
  (forall j e, aget j (s_imp s) = Some e -> i_gen e <= s_impgen s) ->
  let '(s1, x) := add_import cfg_fixed i s in
  (forall j e, aget j (s_imp s1) = Some e -> i_gen e <= s_impgen s1) /\ s_impgen s <= s_impgen s1 /\
  (match aget i (s_imp s) with
   | Some e => if 0 <? i_refs e then True else x = CImp i (s_impgen s + 1)
   | None => x = CImp i (s_impgen s + 1)
   end).
Proof. exact add_import_fresh_generation. Qed.
Print Assumptions C07_generation_fresh.
Theorem C07_F20_refuted : outcome without20 h20 = W_F20 /\ outcome cfg_fixed h20 = 0.
Proof. exact F20_refuted. Qed.
Print Assumptions C07_F20_refuted.

(* Close from any state succeeds and leaves all tables empty (questions, answers, exports,
   imports, embargoes, queue); the reference counters: C07_close_releases_all above *)
Theorem C07_close_empties_tables : forall s, exists s' o,
  step cfg_fixed s AClose = Ok (s', o) /\ s_shut s' = true /\ (s_shut s = false -> tables_empty s').
Proof. exact close_empties. Qed.
Print Assumptions C07_close_empties_tables.
