(* C16, closure of a deep copy inside one message (CopyClosure.v).  Statements only. *)
From CV Require Import Core.Builder Core.Reader Core.ReaderFacts Core.BuilderFacts Core.HeapProofs Core.BuildOps Core.BuildValid
  Core.HeapInv Core.HeapOps Core.HeapCopy Core.CopyClosureBase Core.CopyClosure.
Require Import ZArith List. Import ListNotations.
Open Scope Z_scope.

(* a copying writePtr inside one message (forceCopy - set by copyStruct for every pointer it
   copies: SetStruct, CopyFrom and everything below them - or a list-member source; non-empty
   struct or list), any fuel, arena configuration and table: the object table grows by h :: eo,
   the slot written holds a pointer placed to h and resolves to h, every new entry starts at or
   beyond the end its segment had before the call (so the invariant for the extended table makes
   it disjoint from every older entry, the source included), and h :: eo is closed: every pointer
   slot of every new entry holds null, the inline empty struct, a capability index, or a pointer
   placed to a NEW entry.  No object reachable from the written slot, at any depth, existed
   before the call. *)
Theorem C16_copy_closure : forall f w objs pads q src fc w',
  tinv w objs pads -> In q ((0, 0) :: flat_map slots objs) -> view objs src ->
  p_valid src = true -> p_kind src <> KIface -> (p_kind src = KStruct -> os_isZero (p_size src) = false) ->
  fc || p_member src = true ->
  write_ptr (S f) true w (fst q) (snd q) InDst src fc = Ok w' -> nsegs (w_dst w') < B32 ->
  exists h eo ep, tinv w' (objs ++ h :: eo) (pads ++ ep) /\ fresh_target w w' q h /\
    slot_ok (bm_data (w_dst w')) (pads ++ ep) [h] q /\
    freshL (lenf (w_dst w)) (h :: eo) /\
    closed (w_dst w') (pads ++ ep) (h :: eo).
Proof. exact copy_closure. Qed.
Print Assumptions C16_copy_closure.

(* the induction behind it, for writePtr and copyStruct with any forceCopy: an area of the
   message (at or beyond lengths L0) whose table slots all designate entries of a set N (or
   nothing) stays so, with N extended by the new entries, when every slot of the area that is
   written is written by a copying writePtr; the new entries start beyond the old lengths *)
Theorem C16_closure_all : forall f, X_wp f /\ X_cs f.
Proof. exact closure_all. Qed.
Print Assumptions C16_closure_all.
