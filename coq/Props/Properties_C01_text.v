(* C01 for the consumer text.Marshal: the text encoder's walk (encoding/text/marshal.go and the
   typed lists' String methods) reading the value THROUGH THE READER MODEL on arbitrary segment
   bytes (Text/TextRead.v; proofs in Text/TextReadProofs.v).  Statements only.

   std_hyps: msg_ok m (segments <= 2^32-8 bytes, bytes 0..255), the repaired reader
   (cfg_strict, fx_bit, fx_depth), schema_wf G sc (decidable: supported widths, data offsets in
   the documented domain DataOffset < 2^19, group nesting ends within G levels), the receiver is
   well-formed (what Root / any accessor hands out: C01_root_safe, C01_accessor_safe) with an
   unsigned depth limit, 0 <= rl.  The walks of the schema's own default values are the
   arguments rd / rdl (any functions: their result type has no panic outcome). *)
From CV Require Import Core.SafetyProofs Text.TextRead Text.TextReadProofs Text.TextReadExamples.
Open Scope Z_scope.

(* never a Go panic: ALL segment bytes, all well-formed schemas, all limits, all fuel *)
Theorem C01_text_render_no_panic : forall ffmt sc c fx m rd rdl G fuel id p rl,
  std_hyps sc c fx m G p rl ->
  fst (render_r ffmt sc c fx m rd rdl fuel id p rl) <> RPanic.
Proof. exact render_r_no_panic. Qed.
Print Assumptions C01_text_render_no_panic.

(* every Core accessor call the walk makes (the log of receivers) is on a well-formed pointer:
   C01_accessor_safe applies to each call, so every byte placed in the output was read inside
   the supplied segments; the traversal budget never goes negative and
   budget left + bytes handed out by the dereferences <= the budget at the start *)
Theorem C01_text_render_reads_wf : forall ffmt sc c fx m rd rdl G fuel id p rl,
  std_hyps sc c fx m G p rl ->
  let s := snd (render_r ffmt sc c fx m rd rdl fuel id p rl) in
  Forall (wf_ptr m) (r_log s) /\ 0 <= r_rl s /\ 0 <= r_h s /\ 0 <= r_d s /\ r_rl s + r_h s <= rl.
Proof. exact render_r_reads_wf_budget. Qed.
Print Assumptions C01_text_render_reads_wf.

(* the hypotheses are satisfiable, and the composed model renders a message from its bytes *)
Theorem C01_text_hyps_example :
  std_hyps ex_schema ex_cfg ex_fix rd_ex_msg 2 (ex_root rd_ex_msg) 900 /\
  dflt_total (fun _ _ _ => TM.Err TM.EInternal) (fun _ _ _ => TM.Err TM.EInternal) /\
  p_depth (ex_root rd_ex_msg) <= 4.
Proof. exact std_hyps_example. Qed.
Print Assumptions C01_text_hyps_example.
