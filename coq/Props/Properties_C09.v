(* C09 — transport faults, cancellation and Close terminate cleanly.
   Statements only; each is closed by [exact] of a lemma proved elsewhere. *)
From Coq Require Import List ZArith String.
From CV Require Import Transport.Transport Transport.TransportProofs.
From CV Require Import Lock.LockCheck Lock.LockCheckProofs Lock.LockInst Gen.LockProgs Lock.CloseLive.
From Coq Require Import Relations.
Import ListNotations.

(* ---- locks ------------------------------------------------------------------------------ *)

(* the per-run obligation: the lock programs regenerated from rpc/*.go by locktrans are
   accepted by the verified checker (kernel-evaluated, see Lock/LockInst.v) *)
Theorem C09_lock_discipline : check_prog generated_prog = true.
Proof. exact generated_ok. Qed.
Print Assumptions C09_lock_discipline.

(* hence, for EVERY execution (any branch, any number of loop iterations, any outcome of any
   call, any fault) of every function, method, closure and goroutine body of rpc/*.go, started
   in a lock state its contract allows:
     (a) no Unlock of a mutex not held, (b) no Lock of a mutex already held,
     (d) no transport operation, application call-out or blocking wait while c.mu is held
         [RFail covers these and: sender lock discipline, task-obligation underflow, contract
          preconditions of function-typed parameters],
     (c) at every return the locks held and obligations owned are an exit of the contract *)
Theorem C09_lock_sound : forall f fd b c r,
  nth_error generated_prog f = Some fd -> f_body fd = Some b -> In c (f_cases fd) ->
  exec generated_prog b (init c) r ->
  (forall v, r <> RFail v) /\
  (forall o σ, ret_of r = Some (o, σ) ->
     exists e, In e (c_exits c) /\ e_out e = o /\ e_held e = held σ /\
               e_sender e = sender σ /\ e_tasks e = tasks σ) /\
  (forall σ, r <> RBrk σ /\ r <> RCont σ).
Proof. exact (check_sound generated_prog generated_ok). Qed.
Print Assumptions C09_lock_sound.

(* (c) for exported methods, message handlers, goroutine bodies and callbacks handed to the
   application: entered with nothing, and every return leaves c.mu free, the sender lock free
   and no task obligation behind *)
Theorem C09_api_exits_hold_nothing : forall f fd b c r o σ,
  nth_error generated_prog f = Some fd -> f_api fd = true -> f_body fd = Some b ->
  In c (f_cases fd) -> exec generated_prog b (init c) r -> ret_of r = Some (o, σ) ->
  c_held c = [] /\ c_sender c = false /\ held σ = [] /\ sender σ = false /\ tasks σ = 0.
Proof. exact (api_exits_empty generated_prog generated_ok). Qed.
Print Assumptions C09_api_exits_hold_nothing.

(* every tasks.Add is matched on every path by a Done, a hand-over to a spawned goroutine that
   starts with the obligation, or the hand-over to the Returner (answer.Return owns one) *)
Theorem C09_tasks_balanced : forall f fd b c r,
  nth_error generated_prog f = Some fd -> f_body fd = Some b -> In c (f_cases fd) ->
  exec generated_prog b (init c) r ->
  r <> RFail VTasksUnderflow /\
  (f_api fd = true -> forall o σ, ret_of r = Some (o, σ) -> tasks σ = 0).
Proof. exact (tasks_balanced_sound generated_prog generated_ok). Qed.
Print Assumptions C09_tasks_balanced.

(* close_idempotent: a thread that holds nothing calls Conn.Close any number of times -- no lock
   violation ever, and whenever the sequence completes, c.mu, the sender lock and all task
   obligations are free again.  (RAbort = a Go panic inside: excluded by C08's theorems, not
   here.  That each Close RETURNS is a liveness statement: see docs/C09.md section 7 for the
   environment assumptions it needs; it is observed by the harness for every enumerated fault.) *)
Theorem C09_close_idempotent : forall n r,
  exec generated_prog (calls (repeat close_id n)) empty_state r ->
  r = RNorm empty_state \/ r = RAbort.
Proof. exact close_idempotent_lock. Qed.
Print Assumptions C09_close_idempotent.

(* the same for any sequence of exported methods / handlers callable with nothing held *)
Theorem C09_api_sequences_hold_nothing : forall l r,
  forallb (api_callable generated_prog) l = true ->
  exec generated_prog (calls l) empty_state r ->
  r = RNorm empty_state \/ r = RAbort.
Proof. exact api_sequences_lock. Qed.
Print Assumptions C09_api_sequences_hold_nothing.

(* close_returns_model.  NOT a statement about the code: Lock/CloseLive.v is a hand-written
   4-field counter system (cancelled?, number of outstanding tasks, phase of the closer, is the
   closer itself a counted task) in which LIVENESS IS ASSUMED: a "task finishes" step is enabled
   whenever a task other than a counted closer is outstanding (assumptions A1-A4 of that file:
   call-outs return after cancellation, RecvMessage returns on cancel, waited-for channels get
   closed, Transport.Close returns).  It omits the second Close's <-c.shut, the waits for the sender
   lock and q.finishMsgSend.  What it shows: given those assumptions and a closer that is not a
   counted task (the one link to the code: C09_lock_sound / VWaitOwnTask), the counter system has no
   infinite execution after cancel and can only stop with Close returned; with a counted closer
   (seeded C08-1) it is stuck (self_wait_stuck_refuted).  "Close returns" for the real code is
   observed by the fault-enumeration runs only. *)
Theorem C09_close_returns_model : forall s, cancelled s = true -> closer_counted s = false -> ph s <> PHolding ->
  Acc (fun a b => cstep b a /\ cancelled b = true) s /\
  (forall s', clos_refl_trans _ cstep s s' -> (forall s'', ~ cstep s' s'') -> ph s' = PReturned).
Proof. exact close_returns. Qed.
Print Assumptions C09_close_returns_model.

(* the checker itself, for all programs *)
Theorem C09_checker_sound : forall P, check_prog P = true ->
  forall f fd b c r,
  nth_error P f = Some fd -> f_body fd = Some b -> In c (f_cases fd) ->
  exec P b (init c) r ->
  (forall v, r <> RFail v) /\
  (forall o σ, ret_of r = Some (o, σ) ->
     exists e, In e (c_exits c) /\ e_out e = o /\ e_held e = held σ /\
               e_sender e = sender σ /\ e_tasks e = tasks σ) /\
  (forall σ, r <> RBrk σ /\ r <> RCont σ).
Proof. exact check_sound. Qed.
Print Assumptions C09_checker_sound.

(* ---- transport --------------------------------------------------------------------------- *)

(* for all message sequences, all fault schedules (every outcome of every Write) and all context
   behaviours (live, already done, cancelled between two Writes of a frame): the bytes
   on the wire are whole frames, in order, plus at most one torn frame, and once a frame is
   torn every later NewMessage/send fails without writing *)
Theorem C09_torn_write_stops_stream : forall orc ops st rs,
  run VFixed orc ops = (st, rs) ->
  well_framed (map snd ops) st /\
  (broken st = true -> forall more, run_from VFixed orc st more = (st, map (fun _ => SNmErr) more)).
Proof. exact torn_write_stops_stream_fixed. Qed.
Print Assumptions C09_torn_write_stops_stream.

(* a Write that returns 0 < n < len is the last thing that reaches the wire *)
Theorem C09_after_short_write_nothing_written : forall orc ops1 f ops2 st1 rs1 st1' w,
  run VFixed orc ops1 = (st1, rs1) -> broken st1 = false ->
  encode_bufs orc f st1 0 None = (st1', w, EPartial) ->
  forall st rs, run VFixed orc (ops1 ++ (CLive, f) :: ops2) = (st, rs) ->
  wire st = wire st1' /\ rs = rs1 ++ SErr :: map (fun _ => SNmErr) ops2.
Proof. exact after_short_write_nothing_written. Qed.
Print Assumptions C09_after_short_write_nothing_written.
