(* C09 — transport faults, cancellation and Close terminate cleanly.
   Statements only; each is closed by [exact] of a lemma proved elsewhere. *)
From Coq Require Import List ZArith.
From CV Require Import Transport.Transport Transport.TransportProofs.
Import ListNotations.

(* for all message sequences and all fault schedules (every outcome of every Write): the bytes
   on the wire are whole frames, in order, plus at most one torn frame, and once a frame is
   torn every later NewMessage/send fails without writing *)
Theorem C09_torn_write_stops_stream : forall orc ops st rs,
  run VFixed orc ops = (st, rs) ->
  well_framed (map snd ops) st /\
  (broken st = true -> forall more, run_from VFixed orc st more = (st, map (fun _ => SNmErr) more)).
Proof. exact torn_write_stops_stream_fixed. Qed.
Print Assumptions C09_torn_write_stops_stream.

(* a Write that returns 0 < n < len is the last thing that reaches the wire *)
Theorem C09_after_short_write_nothing_written : forall orc ops1 f ops2 st1 rs1 st1' w,
  run VFixed orc ops1 = (st1, rs1) -> broken st1 = false ->
  encode_bufs orc f st1 0 = (st1', w, EPartial) ->
  forall st rs, run VFixed orc (ops1 ++ (false, f) :: ops2) = (st, rs) ->
  wire st = wire st1' /\ rs = rs1 ++ SErr :: map (fun _ => SNmErr) ops2.
Proof. exact after_short_write_nothing_written. Qed.
Print Assumptions C09_after_short_write_nothing_written.
