(* C08 -- a hostile or buggy peer cannot crash or wedge an RPC connection.
   Statements only; each is closed by [exact] of a lemma proved in coq/Rpc.
   The machine is coq/Rpc/Rpc.v ([step], one handler per event, [cfg_fixed] = the code after the
   repairs); [Panic] is a Go panic, [Stuck] a handler blocked for ever. *)
From CV Require Import Rpc.Rpc Rpc.RpcSpec Rpc.RpcProofs Rpc.RpcInv Rpc.RpcResp Rpc.RpcLocal Rpc.RpcHist Rpc.RpcQids Rpc.RpcCalls Rpc.RpcRefuted.
Open Scope Z_scope.

(* handlers_total: for EVERY list of events -- peer messages of all kinds with arbitrary field
   values (unknown / reused ids, descriptors naming absent exports, null or unreadable payloads and
   targets, unknown union members, sendResultsTo /= caller, null Call/Return structs, garbage),
   interleaved with arbitrary application actions that respect the environment assumption
   [env_ok] -- the run from the initial state ends in [Ok]: no handler panics, none blocks.
   [work evs < 2^32-1] excludes idgen's documented overflow panic. *)
Theorem C08_handlers_total : forall boot evs, work evs < 4294967295 ->
  exists s', run_env cfg_fixed (init boot) evs = Ok s'.
Proof. exact handlers_total. Qed.
Print Assumptions C08_handlers_total.

(* the same as an invariant of single steps: from every state satisfying the invariant every
   event is handled, and the invariant holds again *)
Theorem C08_step_total : forall s e W, sinv s W -> W + ev_work e < 4294967295 -> env_ok s e = true ->
  exists s1 o, step cfg_fixed s e = Ok (s1, o) /\ sinv s1 (W + ev_work e).
Proof. exact step_ok. Qed.
Print Assumptions C08_step_total.

(* response_class: every offending message is answered as the protocol prescribes -- Abort and a
   complete shutdown / exactly one Unimplemented / an exception Return for the call's question *)
Theorem C08_response_class : forall s W e s1 o,
  sinv s W -> s_shut s = false -> W + ev_work e < 4294967295 -> is_peer e = true ->
  step cfg_fixed s e = Ok (s1, o) ->
  match classify s e with
  | RespAbort => resp_msgs o = [OAbort] /\ s_shut s1 = true /\ tables_empty s1
  | RespUnimpl => o = [OUnimpl] /\ s_shut s1 = false
  | RespException a => resp_msgs o = [OReturnExc a] /\ s_shut s1 = false
  | RespNone => True
  end.
Proof. exact response_class. Qed.
Print Assumptions C08_response_class.

(* shutdown_total: shutdown from ANY state (reachable or not, placeholder answers included) does
   not panic and leaves every table empty *)
Theorem C08_shutdown_total : forall abort s, exists s' o,
  do_shutdown cfg_fixed abort s = Ok (s', o) /\ tables_empty s' /\ s_shut s' = true.
Proof. exact shutdown_total. Qed.
Print Assumptions C08_shutdown_total.

(* the defects found: each pre-fix machine crashes / wedges on a history of at most ten events,
   the repaired machine does not (these are also the non-vacuity witnesses: the hypotheses of the
   theorems hold on them) *)
Theorem C08_F15_refuted : outcome without15 h15 = W_F15 /\ outcome cfg_fixed h15 = 0.
Proof. exact F15_refuted. Qed.
Print Assumptions C08_F15_refuted.
Theorem C08_F16_refuted : outcome without16 h16 = W_F16 /\ outcome cfg_fixed h16 = 0.
Proof. exact F16_refuted. Qed.
Print Assumptions C08_F16_refuted.
Theorem C08_F17_refuted : outcome without17 h17 = W_F17 /\ outcome cfg_fixed h17 = 0.
Proof. exact F17_refuted. Qed.
Print Assumptions C08_F17_refuted.
Theorem C08_F21_refuted : outcome without21 h21 = - W_F21 /\ outcome cfg_fixed h21 = 0.
Proof. exact F21_refuted. Qed.
Print Assumptions C08_F21_refuted.
Theorem C08_F22_refuted : outcome without22 h22 = W_F22 /\ outcome cfg_fixed h22 = 0.
Proof. exact F22_refuted. Qed.
Print Assumptions C08_F22_refuted.
Theorem C08_F24_refuted : outcome without24 h24 = W_F24 /\ outcome cfg_fixed h24 = 0.
Proof. exact F24_refuted. Qed.
Print Assumptions C08_F24_refuted.
Theorem C08_F25_refuted : outcome without25 h25 = W_F25 /\ outcome without25 [MNullCall] = W_F25 /\
                          outcome cfg_fixed h25 = 0 /\ outcome cfg_fixed [MNullCall] = 0.
Proof. exact F25_refuted. Qed.
Print Assumptions C08_F25_refuted.
(* not repaired (known finding): outside [env_ok] the receive loop can block for ever *)
Theorem C08_F26_witness : outcome cfg_fixed h26 = - W_F26.
Proof. exact F26_witness. Qed.
Print Assumptions C08_F26_witness.

(* "local callers get errors rather than hangs" (the machine's side): every local call has exactly
   one resolution-or-holder at every point of every history, and once the connection is shut down
   no question holds a call any more -- whatever the peer sent, every call made through the
   connection has been resolved (class 3, disconnected, at the latest).  Same statements as
   C06_call_resolves_once / C06_shut_calls_resolved. *)
Theorem C08_local_calls_resolve : forall boot evs s out, work evs < 4294967295 -> run_o (init boot) evs [] = Ok (s, out) ->
  forall n, 0 <= n ->
    (n < s_ncall s -> (cnt (is_res n) out + hold n (aux_of s) = 1)%nat) /\
    (s_ncall s <= n -> cnt (is_res n) out = 0%nat /\ hold n (aux_of s) = 0%nat) /\
    (cnt (is_res n) out <= 1)%nat.
Proof. exact call_resolves_once. Qed.
Print Assumptions C08_local_calls_resolve.
Theorem C08_shut_calls_resolved : forall boot evs s out, work evs < 4294967295 -> run_o (init boot) evs [] = Ok (s, out) ->
  s_shut s = true -> forall n, HQ n (s_qs s) = 0%nat.
Proof. exact shut_calls_resolved. Qed.
Print Assumptions C08_shut_calls_resolved.
