(* C08 -- a hostile or buggy peer cannot crash or wedge an RPC connection.
   Statements only; each is closed by [exact] of a lemma proved in coq/Rpc. *)
From CV Require Import Rpc.Rpc Rpc.RpcRefuted.
Open Scope Z_scope.

(* the defects found: each pre-fix machine crashes / wedges on a history of at most three
   messages, the repaired machine does not (non-vacuity of the theorems below) *)
Theorem C08_F15_refuted : outcome without15 h15 = W_F15 /\ outcome cfg_fixed h15 = 0.
Proof. exact F15_refuted. Qed.
Print Assumptions C08_F15_refuted.
