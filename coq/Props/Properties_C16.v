(* C16 - deep copy yields an equal, independent tree with capabilities re-homed.
   Statements only.  Proved (all T1): copyStruct's version-skew rule for data and pointer sections,
   capability re-homing, freshness of every copy at byte level (frame of writePtr / copyStruct for
   all trees, all arenas: no older byte but the pointer word / the destination struct changes).
   [T2] copy_value: the value half is the block appended below (cross-message, single-segment
   destination, capability-free values, word-aligned sources only); the independence half is
   Properties_C16_indep.v.  Not proved: the value of a copy inside one message or into a
   multi-segment destination; for copies inside one message C16_forced_copy_fresh
   (Properties_C16_indep.v) shows that every copying writePtr call points its slot at a new object,
   the closure over the whole copied tree is not stated as one theorem. *)
From CV Require Import Core.Builder Core.ReaderFacts Core.ArithFacts Core.BuilderFacts Core.AllocProofs
  Core.WritePtrProofs Core.HeapProofs Core.CopyProofs.
Open Scope Z_scope.

(* [T1] copy_struct_data: truncate / zero-extend the data section *)
Theorem C16_copy_struct_data : forall w dst l src w1,
  0 <= p_seg dst -> zlen (mem (w_dst w) (p_seg dst)) < 4294967296 ->
  0 <= DataSize (p_size dst) < 4294967296 -> 0 <= DataSize (p_size src) < 4294967296 ->
  zlen (nth (Z.to_nat (p_seg src)) (w_segs w l) []) < 4294967296 ->
  copy_data_phase w dst l src = Ok w1 ->
  let srcData := sub (nth (Z.to_nat (p_seg src)) (w_segs w l) []) (p_off src) (DataSize (p_size src)) in
  let new := resize_data srcData (Z.to_nat (DataSize (p_size dst))) in
  wrote (w_dst w) (w_dst w1) (p_seg dst) (p_off dst) new /\
  slice (mem (w_dst w1) (p_seg dst)) (p_off dst) (DataSize (p_size dst)) = Ok new /\
  w_src w1 = w_src w /\ w_src_rl w1 = w_src_rl w.
Proof. exact copy_struct_data. Qed.
Print Assumptions C16_copy_struct_data.

Theorem C16_resize_data_spec : forall src n k, (k < n)%nat ->
  nth k (resize_data src n) 0 = if (k <? length src)%nat then nth k src 0 else 0.
Proof. exact resize_data_nth. Qed.
Print Assumptions C16_resize_data_spec.

Theorem C16_copy_struct_begins_with_data_phase : forall fuel strict w dst l src w',
  p_valid dst = true -> p_valid src = true ->
  copy_struct (S fuel) strict w dst l src = Ok w' ->
  exists w1, copy_data_phase w dst l src = Ok w1.
Proof. exact copy_struct_starts_with_data. Qed.
Print Assumptions C16_copy_struct_begins_with_data_phase.

(* [T1] copy_struct_data for the whole struct (List.SetStruct / Struct.CopyFrom / every struct
   copied by writePtr), all sources, arenas, capacities, both version-skew directions:
   exact frame (only the destination's data section and its own pointer slots change among the
   existing bytes: source pointers beyond the destination's count are dropped), destination
   slots beyond the source's count are null, the data section is truncated / zero-extended *)
Theorem C16_copy_struct_ptrs : forall fuel strict w dst l src w',
  inv (w_dst w) -> 0 <= p_seg dst < nsegs (w_dst w) -> wf_size (p_size dst) -> sz_ok src ->
  p_valid dst = true -> p_valid src = true ->
  0 <= p_off dst ->
  p_off dst + DataSize (p_size dst) + 8 * PointerCount (p_size dst) <= zlen (mem (w_dst w) (p_seg dst)) ->
  zlen (mem (w_dst w) (p_seg dst)) <= maxSegmentSize ->
  zlen (nth (Z.to_nat (p_seg src)) (w_segs w l) []) < 4294967296 ->
  copy_struct (S fuel) strict w dst l src = Ok w' ->
  let seg := p_seg dst in
  let srcData := sub (nth (Z.to_nat (p_seg src)) (w_segs w l) []) (p_off src) (DataSize (p_size src)) in
  keeps (w_dst w) (w_dst w') (Rexact dst) /\ inv (w_dst w') /\ w_src w' = w_src w /\
  (forall j, PointerCount (p_size src) <= j < PointerCount (p_size dst) ->
     readRawPointer (mem (w_dst w') seg) (pointerAddress dst j) = Ok 0) /\
  slice (mem (w_dst w') seg) (p_off dst) (DataSize (p_size dst)) =
    Ok (resize_data srcData (Z.to_nat (DataSize (p_size dst)))).
Proof. exact copy_struct_ptrs. Qed.
Print Assumptions C16_copy_struct_ptrs.

(* [T1] capability copy across messages appends exactly one entry referring to the source's
   client; the stored pointer indexes it *)
Theorem C16_cap_copy : forall fuel strict w dsid off src w',
  0 <= dsid -> p_valid src = true -> p_kind src = KIface ->
  zlen (bm_caps (w_dst w)) < 4294967296 -> zlen (mem (w_dst w) dsid) < 4294967296 ->
  write_ptr (S fuel) strict w dsid off InSrc src false = Ok w' ->
  let c := zlen (bm_caps (w_dst w)) in
  bm_caps (w_dst w') = bm_caps (w_dst w) ++ [p_len src] /\
  readRawPointer (mem (w_dst w') dsid) off = Ok (rawInterfacePointer c) /\
  pointerType (rawInterfacePointer c) = otherPointer /\ capabilityIndex (rawInterfacePointer c) = c /\
  w_src w' = w_src w /\
  (forall i, 0 <= i -> i <> dsid -> get_seg (w_dst w') i = get_seg (w_dst w) i) /\
  zlen (mem (w_dst w') dsid) = zlen (mem (w_dst w) dsid).
Proof. exact cap_copy. Qed.
Print Assumptions C16_cap_copy.

Theorem C16_cap_same_message : forall fuel strict w dsid off src w',
  p_valid src = true -> p_kind src = KIface ->
  write_ptr (S fuel) strict w dsid off InDst src false = Ok w' ->
  bm_caps (w_dst w') = bm_caps (w_dst w).
Proof. exact cap_same_message. Qed.
Print Assumptions C16_cap_same_message.

(* [T1] copy_fresh: for every tree, arena, capacity: the source message is unchanged, and of
   the destination's pre-existing bytes only the pointer word can change, so the copy lives
   in storage allocated during the call *)
Theorem C16_copy_fresh : forall fuel strict w dsid off l src fc w' i base n,
  inv (w_dst w) -> 0 <= dsid < nsegs (w_dst w) -> sz_ok src ->
  ((fc || is_src l) = false -> p_valid src = true -> 0 <= p_seg src < nsegs (w_dst w)) ->
  write_ptr fuel strict w dsid off l src fc = Ok w' ->
  w_src w' = w_src w /\
  (0 <= i -> 0 <= base -> 0 <= n -> base + n <= zlen (mem (w_dst w) i) -> zlen (mem (w_dst w') i) < 4294967296 ->
   (i <> dsid \/ base + n <= off \/ off + 8 <= base) ->
   slice (mem (w_dst w') i) base n = slice (mem (w_dst w) i) base n).
Proof. exact copy_fresh. Qed.
Print Assumptions C16_copy_fresh.

Theorem C16_copy_struct_frame : forall fuel strict w dst l src w',
  inv (w_dst w) -> 0 <= p_seg dst < nsegs (w_dst w) -> wf_size (p_size dst) -> 0 <= p_off dst <= 4294967295 ->
  sz_ok src ->
  copy_struct fuel strict w dst l src = Ok w' ->
  keeps (w_dst w) (w_dst w') (Rfrom dst) /\ inv (w_dst w') /\
  nsegs (w_dst w) <= nsegs (w_dst w') /\ w_src w' = w_src w.
Proof. exact copy_struct_frame. Qed.
Print Assumptions C16_copy_struct_frame.

(* later writes do not show through: a write into one byte range leaves every disjoint range
   (in particular: a write into the copy leaves the source's ranges, and vice versa) unchanged *)
Theorem C16_later_writes_independent : forall m m' sid addr bs sid' base n,
  wrote m m' sid addr bs -> 0 <= sid' -> 0 <= n < 4294967296 ->
  sid' <> sid \/ base + n <= addr \/ addr + zlen bs <= base ->
  slice (mem m' sid') base n = slice (mem m sid') base n.
Proof. exact wrote_slice_other. Qed.
Print Assumptions C16_later_writes_independent.

(* ====================================================================================================
   BEGIN block appended by the C17/C18 engineer (value-level machinery [den], coq/Value/CopyValue*.v):
   [T2] copy_value -- the value a deep copy denotes.
   Scope (stated in the theorems): cross-message copy (source in the read-only message of [world])
   into a SINGLE-SEGMENT destination ([dstw D cap src rl]: every allocation appends to segment 0, every
   pointer is placed near); source values in [cvdom]: every capability-free value -- structs of any section
   sizes, nulls, void / 1,2,4,8-byte / bit lists, pointer lists and struct lists, nested to any depth.
   Source pointers are as the reader hands them out: well formed (wf_ptr), word-aligned struct data
   (aligned, caligned), composite lists behind a consistent tag word (ctag_ok) -- all three are theorems
   about Segment.readPtr (readPtr_aligned, readPtr_caligned, readPtr_ctag).
   NOT covered: multi-segment destinations (far / double-far placement), capabilities (the single-segment
   view [dstw] has no capability table), list-member structs of 1/2/4-byte lists (never produced by a
   whole-pointer copy).
   ==================================================================================================== *)
From CV Require Import Value.ValueEq Value.EqualM Value.Den Value.CanonMHeap Value.CanonMLoop Value.CanonMInd
                       Value.CopyValue Value.CopyValueHeap Value.CopyValueDefs Value.CopyValueInd Value.CopyValueEq Value.CanonSpec Value.EqualCorrect.
From CV Require Import Core.SafetyProofs.

(* SetPtr / SetRoot / PointerList.Set of a pointer of another message: afterwards the slot reads
   (Segment.readPtr, strict) as a pointer denoting exactly the source's value *)
Theorem C16_copy_value_ptr : forall m f D cap rl a src v fc w',
  msg_ok m -> CanonMLoop.hinv D -> 0 <= a -> a mod 8 = 0 -> a + 8 <= zlen D ->
  wf_ptr m src -> aligned src -> caligned src -> ctag_ok m src -> den true m 0 [] src v -> cvdom v = true ->
  write_ptr f true (dstw D cap m rl) 0 a InSrc src fc = Ok w' ->
  exists D' cap' rl', w' = dstw D' cap' m rl' /\ CanonMLoop.hinv D' /\ (bytes_ok D -> bytes_ok D') /\ reads_as D' a v.
Proof. exact copy_value_ptr. Qed.
Print Assumptions C16_copy_value_ptr.

(* copyStruct into an existing struct (List.SetStruct, Struct.CopyFrom; version skew in either
   direction): the destination denotes the source's value resized to the destination's section sizes
   (data words truncated / zero-extended, extra pointers dropped, missing pointers null) *)
Theorem C16_copy_value_struct : forall m f D cap rl dst s ws vs A dn pn w',
  msg_ok m -> CanonMLoop.hinv D -> dst_at dst A dn pn -> p_kind dst = KStruct -> 0 <= A -> A mod 8 = 0 ->
  0 <= dn <= 65535 -> 0 <= pn < 65536 -> A + 8 * dn + 8 * pn <= zlen D ->
  p_valid s = true -> p_kind s = KStruct -> wf_ptr m s -> aligned s ->
  den true m 0 [] s (VStruct ws vs) -> forallb cvdom vs = true ->
  copy_struct f true (dstw D cap m rl) dst InSrc s = Ok w' ->
  exists D' cap' rl', w' = dstw D' cap' m rl' /\ CanonMLoop.hinv D' /\ (bytes_ok D -> bytes_ok D') /\
    forall mid caps, den true [D'] mid caps dst (resize (VStruct ws vs) (Z.to_nat dn) (Z.to_nat pn)).
Proof. exact copy_value_struct. Qed.
Print Assumptions C16_copy_value_struct.

(* the invariant behind both, for every fuel *)
Theorem C16_copy_value_invariant : forall m, msg_ok m -> forall f, CopyValueDefs.P_wp m f /\ CopyValueDefs.P_cs m f.
Proof. exact P_all. Qed.
Print Assumptions C16_copy_value_invariant.

(* version skew loses nothing that is not default: resizing to section sizes not smaller than the
   truncated sizes gives an Equal value *)
Theorem C16_resize_value_eq : forall ws ps dn pn,
  (length (strip0 ws) <= dn)%nat -> (length (stripN ps) <= pn)%nat ->
  value_eq (resize (VStruct ws ps) dn pn) (VStruct ws ps) = true.
Proof. exact resize_value_eq. Qed.
Print Assumptions C16_resize_value_eq.

(* capnp.Equal(source, copy) = true (model equal_m, by C17_equal_m_correct); the copy keeps the
   destination a segment of bytes (bytes_ok), so no hypothesis about the result is needed *)
Theorem C16_copy_then_equal : forall m f D cap rl a src v fc w' c fx,
  msg_ok m -> CanonMLoop.hinv D -> bytes_ok D -> 0 <= a -> a mod 8 = 0 -> a + 8 <= zlen D ->
  wf_ptr m src -> aligned src -> caligned src -> ctag_ok m src -> den true m 0 [] src v -> cvdom v = true ->
  write_ptr f true (dstw D cap m rl) 0 a InSrc src fc = Ok w' ->
  cfg_strict c = true -> all_fixed fx ->
  exists D' cap' rl' q, w' = dstw D' cap' m rl' /\
    (exists dep rlx rlx', readPtr true [D'] rlx 0 D' a dep = (Ok q, rlx')) /\
    (forall fuel st b st',
       equal_m fuel c fx (mkEC m [] [D'] [] false) st src q = (EOk b, st') -> b = true).
Proof. exact copy_then_equal. Qed.
Print Assumptions C16_copy_then_equal.

(* non-vacuity: a concrete source (struct with a byte list, a pointer list, a bit list and a struct list) and a
   fresh destination satisfy every hypothesis and the copy succeeds *)
Theorem C16_copy_value_nonvacuous :
  CanonMLoop.hinv (repeat 0 8%nat) /\ wf_ptr msg_cv root_cv /\ aligned root_cv /\ caligned root_cv /\ ctag_ok msg_cv root_cv /\ p_valid root_cv = true /\
  exists v w', den true msg_cv 0 [] root_cv v /\ cvdom v = true /\
               write_ptr 20 true (dstw (repeat 0 8%nat) 1024 msg_cv 1000000) 0 0 InSrc root_cv false = Ok w'.
Proof. exact copy_value_nonvacuous. Qed.
Print Assumptions C16_copy_value_nonvacuous.

(* the reader hands out pointers satisfying the side conditions above *)
Theorem C16_readPtr_ctag : forall strict m rl sid s a dep q rl', msg_ok m -> is_seg m sid s -> 0 <= a -> a + 8 <= zlen s ->
  readPtr strict m rl sid s a dep = (Ok q, rl') -> ctag_ok m q.
Proof. exact readPtr_ctag. Qed.
Print Assumptions C16_readPtr_ctag.
(* ==================================================================================================== END block *)
