(* C16 - deep copy yields an equal, independent tree with capabilities re-homed.
   Statements only.  Proved (all T1): copyStruct's version-skew rule for data and pointer sections,
   capability re-homing, freshness / independence of every copy (frame of writePtr / copyStruct
   for all trees, all arenas).  Not proved: [copy_value] (walk dst = resize (walk src), T2). *)
From CV Require Import Core.Builder Core.ReaderFacts Core.ArithFacts Core.BuilderFacts Core.AllocProofs
  Core.WritePtrProofs Core.HeapProofs Core.CopyProofs.
Open Scope Z_scope.

(* [T1] copy_struct_data: truncate / zero-extend the data section *)
Theorem C16_copy_struct_data : forall w dst l src w1,
  0 <= p_seg dst -> zlen (mem (w_dst w) (p_seg dst)) < 4294967296 ->
  0 <= DataSize (p_size dst) < 4294967296 -> 0 <= DataSize (p_size src) < 4294967296 ->
  zlen (nth (Z.to_nat (p_seg src)) (w_segs w l) []) < 4294967296 ->
  copy_data_phase w dst l src = Ok w1 ->
  let srcData := sub (nth (Z.to_nat (p_seg src)) (w_segs w l) []) (p_off src) (DataSize (p_size src)) in
  let new := resize_data srcData (Z.to_nat (DataSize (p_size dst))) in
  wrote (w_dst w) (w_dst w1) (p_seg dst) (p_off dst) new /\
  slice (mem (w_dst w1) (p_seg dst)) (p_off dst) (DataSize (p_size dst)) = Ok new /\
  w_src w1 = w_src w /\ w_src_rl w1 = w_src_rl w.
Proof. exact copy_struct_data. Qed.
Print Assumptions C16_copy_struct_data.

Theorem C16_resize_data_spec : forall src n k, (k < n)%nat ->
  nth k (resize_data src n) 0 = if (k <? length src)%nat then nth k src 0 else 0.
Proof. exact resize_data_nth. Qed.
Print Assumptions C16_resize_data_spec.

Theorem C16_copy_struct_begins_with_data_phase : forall fuel strict w dst l src w',
  p_valid dst = true -> p_valid src = true ->
  copy_struct (S fuel) strict w dst l src = Ok w' ->
  exists w1, copy_data_phase w dst l src = Ok w1.
Proof. exact copy_struct_starts_with_data. Qed.
Print Assumptions C16_copy_struct_begins_with_data_phase.

(* [T1] copy_struct_data for the whole struct (List.SetStruct / Struct.CopyFrom / every struct
   copied by writePtr), all sources, arenas, capacities, both version-skew directions:
   exact frame (only the destination's data section and its own pointer slots change among the
   existing bytes: source pointers beyond the destination's count are dropped), destination
   slots beyond the source's count are null, the data section is truncated / zero-extended *)
Theorem C16_copy_struct_ptrs : forall fuel strict w dst l src w',
  inv (w_dst w) -> 0 <= p_seg dst < nsegs (w_dst w) -> wf_size (p_size dst) -> sz_ok src ->
  p_valid dst = true -> p_valid src = true ->
  0 <= p_off dst ->
  p_off dst + DataSize (p_size dst) + 8 * PointerCount (p_size dst) <= zlen (mem (w_dst w) (p_seg dst)) ->
  zlen (mem (w_dst w) (p_seg dst)) <= maxSegmentSize ->
  zlen (nth (Z.to_nat (p_seg src)) (w_segs w l) []) < 4294967296 ->
  copy_struct (S fuel) strict w dst l src = Ok w' ->
  let seg := p_seg dst in
  let srcData := sub (nth (Z.to_nat (p_seg src)) (w_segs w l) []) (p_off src) (DataSize (p_size src)) in
  keeps (w_dst w) (w_dst w') (Rexact dst) /\ inv (w_dst w') /\ w_src w' = w_src w /\
  (forall j, PointerCount (p_size src) <= j < PointerCount (p_size dst) ->
     readRawPointer (mem (w_dst w') seg) (pointerAddress dst j) = Ok 0) /\
  slice (mem (w_dst w') seg) (p_off dst) (DataSize (p_size dst)) =
    Ok (resize_data srcData (Z.to_nat (DataSize (p_size dst)))).
Proof. exact copy_struct_ptrs. Qed.
Print Assumptions C16_copy_struct_ptrs.

(* [T1] capability copy across messages appends exactly one entry referring to the source's
   client; the stored pointer indexes it *)
Theorem C16_cap_copy : forall fuel strict w dsid off src w',
  0 <= dsid -> p_valid src = true -> p_kind src = KIface ->
  zlen (bm_caps (w_dst w)) < 4294967296 -> zlen (mem (w_dst w) dsid) < 4294967296 ->
  write_ptr (S fuel) strict w dsid off InSrc src false = Ok w' ->
  let c := zlen (bm_caps (w_dst w)) in
  bm_caps (w_dst w') = bm_caps (w_dst w) ++ [p_len src] /\
  readRawPointer (mem (w_dst w') dsid) off = Ok (rawInterfacePointer c) /\
  pointerType (rawInterfacePointer c) = otherPointer /\ capabilityIndex (rawInterfacePointer c) = c /\
  w_src w' = w_src w /\
  (forall i, 0 <= i -> i <> dsid -> get_seg (w_dst w') i = get_seg (w_dst w) i) /\
  zlen (mem (w_dst w') dsid) = zlen (mem (w_dst w) dsid).
Proof. exact cap_copy. Qed.
Print Assumptions C16_cap_copy.

Theorem C16_cap_same_message : forall fuel strict w dsid off src w',
  p_valid src = true -> p_kind src = KIface ->
  write_ptr (S fuel) strict w dsid off InDst src false = Ok w' ->
  bm_caps (w_dst w') = bm_caps (w_dst w).
Proof. exact cap_same_message. Qed.
Print Assumptions C16_cap_same_message.

(* [T1] copy_fresh: for every tree, arena, capacity: the source message is unchanged, and of
   the destination's pre-existing bytes only the pointer word can change, so the copy lives
   in storage allocated during the call *)
Theorem C16_copy_fresh : forall fuel strict w dsid off l src fc w' i base n,
  inv (w_dst w) -> 0 <= dsid < nsegs (w_dst w) -> sz_ok src ->
  ((fc || is_src l) = false -> p_valid src = true -> 0 <= p_seg src < nsegs (w_dst w)) ->
  write_ptr fuel strict w dsid off l src fc = Ok w' ->
  w_src w' = w_src w /\
  (0 <= i -> 0 <= base -> 0 <= n -> base + n <= zlen (mem (w_dst w) i) -> zlen (mem (w_dst w') i) < 4294967296 ->
   (i <> dsid \/ base + n <= off \/ off + 8 <= base) ->
   slice (mem (w_dst w') i) base n = slice (mem (w_dst w) i) base n).
Proof. exact copy_fresh. Qed.
Print Assumptions C16_copy_fresh.

Theorem C16_copy_struct_frame : forall fuel strict w dst l src w',
  inv (w_dst w) -> 0 <= p_seg dst < nsegs (w_dst w) -> wf_size (p_size dst) -> 0 <= p_off dst <= 4294967295 ->
  sz_ok src ->
  copy_struct fuel strict w dst l src = Ok w' ->
  keeps (w_dst w) (w_dst w') (Rfrom dst) /\ inv (w_dst w') /\
  nsegs (w_dst w) <= nsegs (w_dst w') /\ w_src w' = w_src w.
Proof. exact copy_struct_frame. Qed.
Print Assumptions C16_copy_struct_frame.

(* later writes do not show through: a write into one byte range leaves every disjoint range
   (in particular: a write into the copy leaves the source's ranges, and vice versa) unchanged *)
Theorem C16_later_writes_independent : forall m m' sid addr bs sid' base n,
  wrote m m' sid addr bs -> 0 <= sid' -> 0 <= n < 4294967296 ->
  sid' <> sid \/ base + n <= addr \/ addr + zlen bs <= base ->
  slice (mem m' sid') base n = slice (mem m sid') base n.
Proof. exact wrote_slice_other. Qed.
Print Assumptions C16_later_writes_independent.
