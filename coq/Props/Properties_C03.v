(* C03 — every value read equals what the encoding spec says the bytes denote.
   Statements only; each is closed by [exact] of a lemma proved in Spec/SpecProofs.v,
   Spec/SpecGlue.v, Spec/SpecExamples.v or Spec/WalkProofs.v.
   Go side: Core/Arith.v (L0 extractors), Core/Reader.v (readPtr and the accessors, all repair
   switches on = the code now in ../repo); specification side: Spec/Spec.v.  The specification
   decoder is used in its LENIENT mode ([spec_resolve false]: a composite list's tag need not
   account for exactly the words its list pointer announces -- what the Go reader accepts);
   the strict mode and its relation to the lenient one are in Properties_C05_specvalid.v.
   Premises common to the accessor theorems ([sview_ok], [list_ok]) and to walk_eq_spec: bytes
   0..255 and every segment at most 2^32-8 bytes ([seg_small]); soundness of readPtr needs
   only bytes 0..255. *)
From CV Require Import Core.Arith Core.Reader Core.ReadOps Spec.Spec Spec.SpecProofs Spec.SpecGlue Spec.SpecExamples Spec.WalkProofs.
Open Scope Z_scope.

(* every 64-bit pointer word: each field extractor of rawpointer.go is the spec's bit field *)
Theorem C03_ptr_fields_spec : forall w, word64 w ->
  pointerType w = (if ptr_kind w =? 2 then 2 + 4 * far_two w else ptr_kind w) /\
  ptr_offset w = off30 w /\
  structSize w = mkOS (8 * st_dwords w) (st_pcount w) /\
  listType w = ls_esz w /\
  numListElements w = ls_count w /\
  farAddress w = 8 * far_off w /\
  farSegment w = far_seg w /\
  capabilityIndex w = cap_index w /\
  otherPointerType w = cap_zero w /\
  (forall tag, word64 tag -> w mod 8 = 2 \/ tag mod 4 < 2 ->
     landingPadNearPointer w tag =
     (tag / 4294967296) * 4294967296 + 4 * far_off w + 2 * far_two w + tag mod 4).
Proof. exact ptr_fields_spec. Qed.
Print Assumptions C03_ptr_fields_spec.

(* ANY message, any limits: a pointer returned by readPtr is the spec's target of that word
   (same segment, byte offset, kind, section sizes, length), the target's bytes lie inside the
   segments, the budget was charged its size *)
Theorem C03_read_ptr_refines_spec_sound : forall m rl sid s wa depth p rl',
  bytes_ok m -> lookup_segment m sid = Ok s -> 0 <= rl ->
  readPtr true m rl sid s (8 * wa) depth = (Ok p, rl') ->
  exists t, spec_resolve false m sid wa = Some t /\ tgt_wf t /\ tgt_inside m t /\
    p = ptr_of_target (uint_dec depth) (p_seg p) t /\ rl' = rl - tgt_cost t /\ tgt_cost t <= rl /\
    list_repr t /\ (t = TgtNull \/ depth <> 0).
Proof. exact read_ptr_sound. Qed.
Print Assumptions C03_read_ptr_refines_spec_sound.

Theorem C03_read_ptr_inside : forall m rl sid s wa depth p rl',
  bytes_ok m -> lookup_segment m sid = Ok s -> 0 <= rl ->
  readPtr true m rl sid s (8 * wa) depth = (Ok p, rl') -> ptr_inside m p.
Proof. exact read_ptr_inside. Qed.
Print Assumptions C03_read_ptr_inside.

(* completeness: what the spec resolves is returned, exactly, when the limits suffice and the
   target is representable (segments within the 32-bit address space, count < 2^29) *)
Theorem C03_read_ptr_refines_spec_complete : forall m rl sid s wa depth t,
  bytes_ok m -> segs_small m -> lookup_segment m sid = Ok s ->
  spec_resolve false m sid wa = Some t -> list_repr t ->
  (t = TgtNull \/ depth <> 0) -> tgt_cost t <= rl ->
  exists cs, readPtr true m rl sid s (8 * wa) depth =
             (Ok (ptr_of_target (uint_dec depth) cs t), rl - tgt_cost t).
Proof. exact read_ptr_complete. Qed.
Print Assumptions C03_read_ptr_refines_spec_complete.

(* accessors_spec *)
Theorem C03_struct_uint : forall m d mem v off n,
  sview_ok m v -> 0 <= off -> (n = 1 \/ n = 2 \/ n = 4 \/ n = 8) -> off + n < 4294967296 ->
  struct_uint m (ptr_of_sview d mem v) off n = Ok (sv_uint m v off n).
Proof. exact struct_uint_spec. Qed.
Print Assumptions C03_struct_uint.

Theorem C03_struct_bit : forall m d mem v n,
  sview_ok m v -> 0 <= n < 4294967296 ->
  struct_bit m (ptr_of_sview d mem v) n = Ok (sv_bit m v n).
Proof. exact struct_bit_spec. Qed.
Print Assumptions C03_struct_bit.

Theorem C03_struct_ptr : forall c m rl d mem v i,
  sview_ok m v -> 0 <= i ->
  struct_ptr c m rl (ptr_of_sview d mem v) i =
    (if i <? sv_pc v
     then readPtr (cfg_strict c) m rl (sv_seg v) (seg_or_nil m (sv_seg v)) (8 * sv_ptr_word v i) d
     else (Ok nullPtr, rl))
  /\ sv_ptr false m v i = (if i <? sv_pc v then spec_resolve false m (sv_seg v) (sv_ptr_word v i) else Some TgtNull).
Proof. exact struct_ptr_spec. Qed.
Print Assumptions C03_struct_ptr.

Theorem C03_struct_hasptr : forall m d mem v i,
  sview_ok m v -> 0 <= i ->
  struct_hasptr m (ptr_of_sview d mem v) i = Ok (sv_hasptr m v i).
Proof. exact struct_hasptr_spec. Qed.
Print Assumptions C03_struct_hasptr.

Theorem C03_list_uint_at : forall m d cs l i w,
  list_ok m l -> (w = 1 \/ w = 2 \/ w = 4 \/ w = 8) ->
  match l with TgtList _ _ _ n _ _ => 0 <= i < n | _ => False end ->
  list_uint_at true m (ptr_of_target d cs l) i w = Ok (l_uint m l i w).
Proof. exact list_uint_at_spec. Qed.
Print Assumptions C03_list_uint_at.

Theorem C03_ptrlist_at : forall c m rl d cs l i,
  list_ok m l ->
  match l with TgtList _ _ _ n _ _ => 0 <= i < n | _ => False end ->
  match l with
  | TgtList sg a e n dw pc =>
    if e =? 6 then
      ptrlist_at c true m rl (ptr_of_target d cs l) i = readPtr (cfg_strict c) m rl sg (seg_or_nil m sg) (8 * (a + i)) d
      /\ l_ptr false m l i = spec_resolve false m sg (a + i)
    else if (e =? 7) && (1 <=? pc) then
      ptrlist_at c true m rl (ptr_of_target d cs l) i =
        readPtr (cfg_strict c) m rl sg (seg_or_nil m sg) (8 * (a + i * (dw + pc) + dw)) d
      /\ l_ptr false m l i = spec_resolve false m sg (a + i * (dw + pc) + dw)
    else ptrlist_at c true m rl (ptr_of_target d cs l) i = (Err, rl) /\ l_ptr false m l i = None
  | _ => False
  end.
Proof. exact ptrlist_at_spec. Qed.
Print Assumptions C03_ptrlist_at.

Theorem C03_bitlist_at : forall m d cs l i,
  list_ok m l ->
  match l with TgtList _ _ _ n _ _ => 0 <= i < n | _ => False end ->
  bitlist_at true m (ptr_of_target d cs l) i = Ok (l_bit m l i).
Proof. exact bitlist_at_spec. Qed.
Print Assumptions C03_bitlist_at.

Theorem C03_list_struct : forall m d cs l i,
  list_ok m l ->
  match l with TgtList _ _ _ n _ _ => 0 <= i < n | _ => False end ->
  list_struct true (ptr_of_target d cs l) i =
  Ok (match l_struct l i with
      | Some v => ptr_of_sview (if d =? 0 then 0 else uint_dec d) true v
      | None => nullPtr
      end).
Proof. exact list_struct_spec. Qed.
Print Assumptions C03_list_struct.

Theorem C03_text : forall m d cs l, list_ok m l ->
  ptr_text m (ptr_of_target d cs l) = Ok (l_text m l).
Proof. exact ptr_text_spec. Qed.
Print Assumptions C03_text.

Theorem C03_data : forall m d cs l, list_ok m l ->
  ptr_data m (ptr_of_target d cs l) = Ok (l_data m l).
Proof. exact ptr_data_spec. Qed.
Print Assumptions C03_data.

(* as found (before the repair of F05): a struct list read as a pointer list decoded the data word *)
Theorem C03_upgrade_prefix_refuted :
  spec_resolve false ex_upgrade 0 0 = Some (TgtList 0 2 7 2 1 1) /\
  l_ptr false ex_upgrade (TgtList 0 2 7 2 1 1) 0 = Some TgtNull /\
  fst (ptrlist_at ex_cfg true ex_upgrade 1000 (ptr_of_target 63 0 (TgtList 0 2 7 2 1 1)) 0) = Ok nullPtr /\
  fst (ptrlist_at ex_cfg false ex_upgrade 1000 (ptr_of_target 63 0 (TgtList 0 2 7 2 1 1)) 0)
    = Ok (ptr_of_target 62 0 (TgtStruct 0 4 1 0)).
Proof. exact upgrade_prefix_refuted. Qed.
Print Assumptions C03_upgrade_prefix_refuted.

(* as found (before the repair): a double-far pointer to an empty struct at word 0 of a segment
   was read as the null pointer; the repaired code returns the empty struct *)
Theorem C03_dfar_zero_struct_refuted :
  spec_resolve false ex_dfar0 0 0 = Some (TgtStruct 0 0 0 0) /\
  dfar_zero_pad ex_dfar0 0 0 = true /\
  root (mkCfg 1000000 64 false true) ex_dfar0 1000 = (Ok nullPtr, 1000) /\
  root ex_cfg ex_dfar0 1000 = (Ok (ptr_of_target 63 0 (TgtStruct 0 0 0 0)), 1000).
Proof. exact dfar_zero_struct_refuted. Qed.
Print Assumptions C03_dfar_zero_struct_refuted.

(* non-vacuity: a three-segment message with a far pointer, a double-far pointer and a
   composite list satisfies the hypotheses, and walker and specification give the same tree *)
Theorem C03_example :
  bytes_ok ex_msg /\ segs_small ex_msg /\
  spec_resolve false ex_msg 0 0 = Some (TgtStruct 1 1 1 2) /\
  spec_resolve false ex_msg 1 2 = Some (TgtList 0 2 7 2 1 1) /\
  spec_decode_root false 6 64 8 ex_msg = ex_tree /\
  (let '(r, rl) := root ex_cfg ex_msg 1000000 in walk ex_cfg ex_fx ex_msg 64 8 6 rl r) = (ex_tree, 1000000 - 59).
Proof.
  exact (conj ex_bytes_ok (conj ex_segs_small (conj ex_root_far (conj (proj1 ex_double_far)
        (conj (proj1 ex_spec_tree) ex_walk_tree))))).
Qed.
Print Assumptions C03_example.

(* glue: an element of a well-formed list read as a struct is a well-formed struct view, so the
   struct accessor theorems apply to what C03_list_struct returns (both upgrade directions) *)
Theorem C03_list_elem_sview_ok : forall m l i v, list_ok m l -> l_struct l i = Some v -> sview_ok m v.
Proof. exact list_elem_sview_ok. Qed.
Print Assumptions C03_list_elem_sview_ok.

(* [T2] whole trees: for every message, caps and fuel, when limits suffice (depth limit above
   the fuel, budget at least the specification's traversal cost) and every list MET BY THE
   DECODER under these caps has fewer than 2^29 elements ([vrepr]: a condition on the words the
   decoder reads as pointers only -- the pointer itself, the pointer slots of the object it
   resolves to, and so on; data words and unreachable words are unconstrained; the reader
   refuses larger counts, a known finding), the generic walker over the Go-faithful accessors
   returns exactly the lenient spec_decode's tree and consumes exactly its cost *)
Theorem C03_walk_eq_spec : forall (c : config) (m : list (list Z)) (dcap pcap : Z),
  cfg_strict c = true -> bytes_ok m -> segs_small m ->
  forall fuel rl sid s wa depth,
  seg_at m sid = Some s -> in_words s wa 1 = true ->
  Z.of_nat fuel < depth < 18446744073709551616 -> 0 <= rl ->
  spec_cost false fuel dcap pcap m sid wa <= rl ->
  vrepr fuel pcap m sid wa ->
  (let '(r, rl1) := readPtr true m rl sid s (8 * wa) depth in
   walk c (mkFix true true true) m dcap pcap fuel rl1 r)
  = (spec_decode false fuel dcap pcap m sid wa, rl - spec_cost false fuel dcap pcap m sid wa).
Proof. exact walk_eq_spec. Qed.
Print Assumptions C03_walk_eq_spec.

(* [vrepr] is decidable on a concrete message *)
Theorem C03_vrepr_check_sound : forall fuel pcap m sid wa,
  vrepr_check fuel pcap m sid wa = true -> vrepr fuel pcap m sid wa.
Proof. exact vrepr_check_sound. Qed.
Print Assumptions C03_vrepr_check_sound.

(* non-vacuity of walk_eq_spec on a non-trivial message: three segments, root = far pointer,
   a double-far pointer to a composite list, a capability, a text, and DATA words that look
   like hostile pointers (a composite list pointer followed by a tag announcing 2^29 elements):
   all hypotheses hold, the theorem applies, and the tree is the expected one; a condition over
   ALL words of the message (an earlier formulation) would be false on this message *)
Theorem C03_walk_eq_spec_applies :
  bytes_ok ex_msg2 /\ segs_small ex_msg2 /\ vrepr 6 8 ex_msg2 0 0 /\
  ((let '(r, rl1) := readPtr true ex_msg2 1000000 0 (nth 0 ex_msg2 []) (8 * 0) 64 in
    walk ex_cfg (mkFix true true true) ex_msg2 64 8 6 rl1 r)
   = (spec_decode false 6 64 8 ex_msg2 0 0, 1000000 - spec_cost false 6 64 8 ex_msg2 0 0)
   /\ spec_decode false 6 64 8 ex_msg2 0 0 = ex_tree2) /\
  ~ (forall sid wa t, spec_resolve false ex_msg2 sid wa = Some t -> list_repr t).
Proof.
  exact (conj ex2_bytes_ok (conj ex2_segs_small (conj ex2_vrepr
        (conj ex2_walk_eq_spec_applies ex2_all_words_condition_fails)))).
Qed.
Print Assumptions C03_walk_eq_spec_applies.
