(* C05, pointer-level heap invariant [hinv] (coq/Core/HeapInv.v) and its preservation by the
   three kinds of step of the builder sub-language { constructors of structs and of every list
   kind (composite lists with their tag word), data writes inside an object, setting a pointer
   slot / the root to a table object }, and the theorem over op lists.  Statements only. *)
From CV Require Import Core.Builder Core.ReaderFacts Core.BuilderFacts Core.AllocProofs Core.WritePtrProofs
  Core.HeapProofs Core.BuildValid Core.HeapInv.
Open Scope Z_scope.

(* what hinv gives: every pointer slot of every table object and the root word resolves under
   the strict rules - null, or through pads of the pad table to exactly one table object with
   matching kind / element size / count; every region lies inside its segment *)
Theorem C05_hinv_pointers_valid : forall m objs pads q,
  hinv m objs pads -> In q ((0, 0) :: flat_map slots objs) ->
  exists t rs, resolve_ptr (bm_data m) (fst q) (snd q) = (t, rs) /\ is_bad t = false /\
    (forall r, In r rs -> in_msg (bm_data m) r \/ r_size r = 0) /\
    (rs = [] /\ no_tag t \/ exists ps r, rs = ps ++ [r] /\ incl ps pads /\
        (r_size r = 0 /\ no_tag t \/ exists h, In h objs /\ r = obj_reg h /\ t = tgt_of h)).
Proof. exact hinv_pointers_valid. Qed.
Print Assumptions C05_hinv_pointers_valid.

(* a constructor: a fresh, zero-filled object is added to the table *)
Theorem C05_hinv_add_object : forall m objs pads m' h,
  hinv m objs pads ->
  keeps m m' Rnone -> inv m' -> segs_small m' -> nsegs m <= nsegs m' -> nsegs m' < 4294967296 ->
  p_valid h = true -> good (bm_data m') h -> tag_ok (bm_data m') h ->
  (r_size (obj_reg h) = 0 \/ zlen (mem m (p_seg h)) <= obj_start h) ->
  (forall q, In q (slots h) -> word_at (bm_data m') (fst q) (snd q) = Some 0) ->
  hinv m' (objs ++ [h]) pads.
Proof. exact hinv_add_obj. Qed.
Print Assumptions C05_hinv_add_object.

(* a data setter: a write inside one table object, behind its tag word and beside its pointer
   slots (the elements of a composite list interleave data and pointer sections) *)
Theorem C05_hinv_data_write : forall m objs pads m' h addr bs,
  hinv m objs pads -> In h objs -> 0 <= p_seg h ->
  wrote m m' (p_seg h) addr bs ->
  p_off h <= addr -> addr + zlen bs <= obj_start h + r_size (obj_reg h) ->
  (forall q, In q (slots h) -> addr + zlen bs <= snd q \/ snd q + 8 <= addr) ->
  hinv m' objs pads.
Proof. exact hinv_data_write. Qed.
Print Assumptions C05_hinv_data_write.

(* SetPtr / PointerList.Set / SetRoot without copy: the placement switch (near / far + pad /
   double-far + pad) at a slot of a table object or the root, targeting a table object;
   overwriting is allowed (the old target and its pads stay in the tables as garbage) *)
Theorem C05_hinv_set_pointer : forall m objs pads w q ht raw w',
  w_dst w = m -> hinv m objs pads ->
  In q ((0, 0) :: flat_map slots objs) -> In ht objs ->
  (p_kind ht = KStruct -> os_isZero (p_size ht) = false) ->
  raw_of ht = Ok raw ->
  place w (fst q) (snd q) (p_seg ht) (obj_start ht) raw = Ok w' ->
  nsegs (w_dst w') < 4294967296 ->
  exists pads', hinv (w_dst w') objs (pads ++ pads').
Proof. exact hinv_place. Qed.
Print Assumptions C05_hinv_set_pointer.

(* non-vacuity: the invariant holds for a fresh message (null root word, empty tables) *)
Theorem C05_hinv_initial : hinv hinv_ex_msg [] [].
Proof. exact hinv_initial. Qed.
Print Assumptions C05_hinv_initial.

(* ------------------------------------------------------------------ over op lists *)
From CV Require Import Core.Reader Core.BuildOps Core.BuildInv Core.HeapOps Core.HeapCopy Core.HeapCopySrc Core.HeapSteps Core.HeapValid.
From CV Require Core.BuildExamples.

(* hinv implies the strict validity predicate (worklist terminates within its fuel; all regions
   collected are table regions, pairwise equal or disjoint) *)
Theorem C05_hinv_valid : forall m objs pads, hinv m objs pads -> valid_message (bm_data m) = VOk.
Proof. exact hinv_valid. Qed.
Print Assumptions C05_hinv_valid.

(* the copy paths inside one message: writePtr (any forceCopy; source = any view of the table:
   struct, list of any kind, list member, empty struct, capability, null) and copyStruct
   (destination = any struct view) keep the table invariant; the tables only grow.  Mutual
   induction over the two functions: struct copy (fresh padded struct, copyStruct, pointer),
   list copy (tag word, byte copy or element-wise copyStruct, pointer), data / pointer-loop /
   zero-loop phases of copyStruct; every pointer a copy reads is a view again (read_slot) *)
Theorem C05_copy_all : forall f,
  (forall w objs pads q src fc w',
     tinv w objs pads -> In q ((0, 0) :: flat_map slots objs) -> view objs src ->
     write_ptr f true w (fst q) (snd q) InDst src fc = Ok w' -> nsegs (w_dst w') < B32 ->
     exists eo ep, tinv w' (objs ++ eo) (pads ++ ep)) /\
  (forall w objs pads dst src w',
     tinv w objs pads -> view objs dst -> (p_valid dst = true -> p_kind dst = KStruct) ->
     view objs src -> (p_valid src = true -> p_kind src = KStruct) ->
     copy_struct f true w dst InDst src = Ok w' -> nsegs (w_dst w') < B32 ->
     exists eo ep, tinv w' (objs ++ eo) (pads ++ ep)).
Proof. exact copy_all. Qed.
Print Assumptions C05_copy_all.

(* copies from another message: what readPtr returns for any source bytes 0..255 is a source
   view (closed under readPtr and List.Struct) ... *)
Theorem C05_readPtr_sview : forall (sm : segs) rl sid addr depth q rl',
  msg_ok sm -> 0 <= sid < zlen sm ->
  readPtr true sm rl sid (nth (Z.to_nat sid) sm []) addr depth = (Ok q, rl') -> sview sm q.
Proof. exact readPtr_sview. Qed.
Print Assumptions C05_readPtr_sview.

(* ... and writePtr / copyStruct with a source view as source (deep copies of structs, lists of
   every kind incl. the tag word, capabilities appended to the capability table) keep the table
   invariant of the message under construction *)
Theorem C05_copy_src_all : forall f,
  (forall w objs pads q src fc w',
     tinv w objs pads -> msg_ok (w_src w) -> In q ((0, 0) :: flat_map slots objs) -> sview (w_src w) src ->
     write_ptr f true w (fst q) (snd q) InSrc src fc = Ok w' -> nsegs (w_dst w') < B32 ->
     exists eo ep, tinv w' (objs ++ eo) (pads ++ ep)) /\
  (forall w objs pads dst src w',
     tinv w objs pads -> msg_ok (w_src w) -> view objs dst -> (p_valid dst = true -> p_kind dst = KStruct) ->
     sview (w_src w) src -> (p_valid src = true -> p_kind src = KStruct) ->
     copy_struct f true w dst InSrc src = Ok w' -> nsegs (w_dst w') < B32 ->
     exists eo ep, tinv w' (objs ++ eo) (pads ++ ep)).
Proof. exact copy_src_all. Qed.
Print Assumptions C05_copy_src_all.

(* every op leaves the source message and the source views of the pool intact *)
Theorem C05_step_spool : forall e st o st' out,
  cfg_strict (e_cfgs e) = true -> spool st -> dst_only st o -> bstep e st o = (Some st', out) -> spool st'.
Proof. exact bstep_spool. Qed.
Print Assumptions C05_step_spool.

(* every step of the sub-language keeps the invariant, "every valid pool handle is a view of
   the object table" and "the table holds handle cores"; the tables only grow (ext) *)
Theorem C05_step_hinv : forall e st objs pads o st' out,
  sinv st objs pads -> spool st -> sub_op o = true -> dst_only st o -> bstep e st o = (Some st', out) ->
  nsegs (w_dst (st_w st')) < 4294967296 ->
  exists objs' pads', sinv st' objs' pads' /\ ext objs pads objs' pads'.
Proof. exact bstep_hinv. Qed.
Print Assumptions C05_step_hinv.

(* THE HEADLINE.  For every arena configuration with a root word, any source message (bytes
   0..255, read with the repaired tag check), every program accepted by sub_prog (every op of the
   interpreter; the predicate only bounds arguments), data setters applied to handles of the
   message under construction, and every state reached while the message has fewer than 2^32
   segments: the TABLE INVARIANT holds - there are an object table and a pad table such that
   (hinv) every pointer slot of every table object and the root word hold the null word, the
   inline empty struct, a capability pointer or exactly the words of the placement switch for ONE
   table object; objects, root word and pads lie inside their segments and are PAIRWISE DISJOINT
   by table position (distinct objects occupy disjoint storage; the root word is nobody's
   storage); composite lists carry their tag; and every pool handle is a view of the table.
   [valid_message = VOk] (below) is a corollary and strictly weaker: valid_message is structural
   (see C05_valid_message_is_structural). *)
Theorem C05_heap_inv_tables : forall a cfgd cfgs ncaps fuel src ops m,
  arena_spec_wf a -> root_cap_ok a -> create a (init_rlimit cfgd) = Ok m -> sub_prog ops = true ->
  msg_ok src -> cfg_strict cfgs = true ->
  let st0 := mkBSt (mkW m src (init_rlimit cfgs)) [] in
  dst_run (mkEnv cfgd cfgs ncaps fuel) st0 ops ->
  Forall seg_bound (bstates (mkEnv cfgd cfgs ncaps fuel) st0 ops) ->
  Forall (fun st => exists objs pads, sinv st objs pads) (bstates (mkEnv cfgd cfgs ncaps fuel) st0 ops).
Proof. exact heap_inv_sublang. Qed.
Print Assumptions C05_heap_inv_tables.

(* what valid_message does NOT check: equal regions of different kind, a region that is the root
   word - this self-pointing root passes.  Excluded for builder outputs by C05_heap_inv_tables. *)
Example C05_valid_message_is_structural : valid_message [[252; 255; 255; 255; 0; 0; 1; 0]] = VOk.
Proof. exact BuildExamples.valid_message_is_structural. Qed.
Print Assumptions C05_valid_message_is_structural.

(* the corollary: all arena configurations with a root word, any source message (bytes
   0..255, read with the repaired tag check), all programs accepted by the executable predicate
   sub_prog (every op of the interpreter; the predicate only bounds arguments), data setters
   applied to handles of the message under construction (dst_run), all reachable states (fewer than 2^32 segments):
   the message under construction passes the strict validity predicate *)
Theorem C05_heap_inv_sublang : forall a cfgd cfgs ncaps fuel src ops m,
  arena_spec_wf a -> root_cap_ok a -> create a (init_rlimit cfgd) = Ok m -> sub_prog ops = true ->
  msg_ok src -> cfg_strict cfgs = true ->
  let st0 := mkBSt (mkW m src (init_rlimit cfgs)) [] in
  dst_run (mkEnv cfgd cfgs ncaps fuel) st0 ops ->
  Forall seg_bound (bstates (mkEnv cfgd cfgs ncaps fuel) st0 ops) ->
  Forall (fun st => valid_message (bm_data (w_dst (st_w st))) = VOk) (bstates (mkEnv cfgd cfgs ncaps fuel) st0 ops).
Proof. exact heap_inv_sublang_valid. Qed.
Print Assumptions C05_heap_inv_sublang.

Theorem C05_sublang_example :
  sub_prog [BNewStruct 0 0 1; BNewStruct 1 8 0; BSetUint 1 0 8 258; BSetPtr 0 0 1; BSetRoot 0] = true /\
  arena_spec_wf (ArRaw [24; 16]) /\ root_cap_ok (ArRaw [24; 16]).
Proof. exact sublang_example. Qed.
Print Assumptions C05_sublang_example.

(* non-vacuity of the extended sub-language: NewCompositeList, List.Struct member used as data
   and pointer container, PointerList.Set, typed setter on the composite list, SetRoot, handles
   read back (Root, Struct.Ptr, PointerList.At), a capability, reopen, a member of a UInt16 list
   stored through SetPtr (copied into a fresh padded struct); all premises of
   C05_heap_inv_sublang hold for this program and the computed verdicts agree *)
Theorem C05_sublang_example2 :
  create (ArMulti None) (init_rlimit (mkCfg 0 0 true true)) = Ok ex2_m /\
  sub_prog ex2_ops = true /\ msg_ok ex2_src /\ dst_run ex2_env ex2_st0 ex2_ops /\
  Forall seg_bound (bstates ex2_env ex2_st0 ex2_ops) /\
  map (fun st => valid_message (bm_data (w_dst (st_w st)))) (bstates ex2_env ex2_st0 ex2_ops) = repeat VOk 37.
Proof. exact sublang_example2. Qed.
Print Assumptions C05_sublang_example2.
