(* C11 — promise pipelining delivers each call exactly once and never deadlocks.
   Statements only; each is closed by [exact] of a lemma proved elsewhere.
   [reach v ops c]: c is reachable from the initial configuration of the operation list ops under
   SOME schedule (any interleaving of the threads' atomic sections); all theorems quantify over
   all ops and all reachable c.  [fixed] = model of answer.go after the two fix: commits,
   [as_found] / [f11_fixed] = the earlier code (kept for the refuted statements). *)
From CV Require Import Promise.Promise Promise.PromiseProofs Promise.PromiseStepProofs Promise.MuProofs
  Promise.PromiseTheorems.
Open Scope Z_scope.

(* the promise resolves at most once; Fulfill/Reject after the first one panics (OPanic), the
   one that returns normally is the one whose resolution was committed *)
Theorem C11_resolve_once : forall ops c, reach fixed ops c ->
  (cnt is_resolved (events c) <= 1)%nat /\ (cnt is_begin (events c) <= 1)%nat /\
  (cnt is_resolved (events c) = 1%nat <-> sig_open c = false) /\
  forall t th, nth_error (threads c) t = Some th -> is_res_op (t_op th) = true -> t_pc th = PDone ->
    t_out th = OPanic \/
    (t_out th = ORet /\ In (EBegin t) (events c) /\ In (EResolved t) (events c) /\
     result c = Some (op_res (t_op th))).
Proof. exact resolve_once. Qed.
Print Assumptions C11_resolve_once.

(* every pipelined call is delivered at most once at any time, exactly once when it has returned;
   to the PipelineCaller only while no Fulfill/Reject has passed its check (wf_log), otherwise
   after the resolution and then to what the result holds at the call's path (capability, or the
   rejection error / failure) *)
Theorem C11_pipelined_exactly_once : forall ops c, reach fixed ops c ->
  wf_log (events c) /\
  (sig_open c = true -> forall t d, In (EDeliver t d) (events c) -> d = DCaller) /\
  forall t th, nth_error (threads c) t = Some th ->
    match t_op th with
    | OSend p _ =>
      (cnt (is_deliver t) (events c) <= 1)%nat /\
      (t_pc th = PDone -> cnt (is_deliver t) (events c) = 1%nat /\ t_out th = ORet) /\
      (forall d, In (EDeliver t d) (events c) -> d = DCaller \/ d = res_dest (cur_res c) p)
    | OCall _ _ =>
      (cnt (is_deliver t) (events c) <= 1)%nat /\
      (t_pc th = PDone -> (t_out th = ONoSlot /\ cnt (is_deliver t) (events c) = 0%nat) \/
                          (t_out th = ORet /\ cnt (is_deliver t) (events c) = 1%nat))
    | _ => True
    end.
Proof. exact pipelined_exactly_once. Qed.
Print Assumptions C11_pipelined_exactly_once.

(* asking for the same path again returns the same proxy, and mu is free at every section
   boundary (in particular after Future.Client returned) *)
Theorem C11_client_idempotent : forall ops c, reach fixed ops c ->
  mu c = None /\
  forall t1 t2 th1 th2 p s1 s2 x1 x2,
    nth_error (threads c) t1 = Some th1 -> nth_error (threads c) t2 = Some th2 ->
    t_op th1 = OClient p s1 -> t_op th2 = OClient p s2 ->
    t_pc th1 = PDone -> t_pc th2 = PDone ->
    t_out th1 = OHandle (HProxy x1) -> t_out th2 = OHandle (HProxy x2) -> x1 = x2.
Proof. exact client_idempotent. Qed.
Print Assumptions C11_client_idempotent.

(* mu is free in every reachable configuration also with the old order of resolve *)
Theorem C11_mu_always_free : forall v ops c, v_unlock_on_hit v = true -> reach v ops c -> mu c = None.
Proof. exact mu_always_free. Qed.
Print Assumptions C11_mu_always_free.

(* F11: on the model of answer.go as found the second Client() on a path leaves mu held by a
   finished thread and the next operation can never run *)
Theorem C11_client_idempotent_refuted :
  let c := run as_found (init f11_history) [0%nat; 1%nat; 2%nat] in
  finished c 1 = true /\ mu c = Some 1%nat /\ finished c 2 = false /\ enabled as_found c 2 = false.
Proof. exact client_idempotent_refuted. Qed.
Print Assumptions C11_client_idempotent_refuted.

(* PARTIAL (waiters_released): once resolved, every unfinished waiter has an enabled step.  Not
   proved: that a requested resolution always comes (needs no_stuck). *)
Theorem C11_waiters_released_partial : forall ops c, reach fixed ops c -> sig_open c = false ->
  forall t th, nth_error (threads c) t = Some th -> t_op th = OWait -> t_pc th <> PDone ->
               enabled fixed c t = true.
Proof. exact waiters_released_partial. Qed.
Print Assumptions C11_waiters_released_partial.

(* no_stuck is NOT proved for the fixed model (see docs/C11.md); what is established is that it
   FAILS on the model of the code before the second fix: a concrete deadlocked configuration
   (replayed on the real code: corpus/C11-promise.txt), and that the same history completes on
   the fixed model *)
Theorem C11_no_stuck_refuted :
  match quiesce f11_fixed 1000 (init deadlock_history) 10 with
  | Some c => forallb (fun t => negb (enabled f11_fixed c t)) (all_tids c) = true /\
              finished c 4 = false /\ finished c 6 = false /\ finished c 9 = false /\ mu c = None
  | None => False
  end.
Proof. exact no_stuck_refuted. Qed.
Print Assumptions C11_no_stuck_refuted.
