(* C11 — promise pipelining delivers each call exactly once and never deadlocks.
   Statements only; each is closed by [exact] of a lemma proved elsewhere.
   [reach v ops c]: c is reachable from the initial configuration of the operation list ops under
   SOME schedule (any interleaving of the threads' atomic sections); all theorems quantify over
   all ops and all reachable c.  [fixed] = model of answer.go as it is now (F11 fixed; resolve:
   result known -> proxies fulfilled -> signals closed), [as_found] / [f11_fixed] / [late_fixed] =
   earlier versions of the code (kept for the refuted statements).  The first part is about the
   single-promise model Promise.v; the theorems named C11_join_* are about the model with Join and
   joined chains, PromiseJoin.v ([jreach v np ops c]: np promises, variant switches v; premises listed
   before C11_join_fulfil_never_waits_for_hook). *)
From CV Require Import Promise.Promise Promise.PromiseProofs Promise.PromiseStepProofs Promise.MuProofs
  Promise.PromiseTheorems Promise.PromiseLive Promise.PromiseProxies Promise.PromiseJoin Promise.PromiseJoinProofs Promise.PromiseJoinThms Promise.PromiseJoinInv Promise.PromiseJoinRefs Promise.PromiseJoinForest Promise.PromiseJoinDest Promise.PromiseJoinChain Promise.PromiseJoinLive Promise.PromiseJoinStuck Promise.PromiseJoinZero Promise.PromiseJoinHook Promise.PromiseJoinPath
  Promise.PromiseJoinHookStuck Promise.PromiseJoinLands Promise.PromiseJoinRel Promise.PromiseJoinIdem Promise.PromiseJoinWaits Promise.PromiseJoinRecv.
Open Scope Z_scope.

(* the promise resolves at most once; Fulfill/Reject after the first one panics (OPanic), the
   one that returns normally is the one whose resolution was committed *)
Theorem C11_resolve_once : forall ops c, reach fixed ops c ->
  (cnt is_resolved (events c) <= 1)%nat /\ (cnt is_begin (events c) <= 1)%nat /\
  (cnt is_resolved (events c) = 1%nat <-> sig_open c = false) /\
  forall t th, nth_error (threads c) t = Some th -> is_res_op (t_op th) = true -> t_pc th = PDone ->
    (t_out th = OPanic /\ caller c = false) \/
    (t_out th = ORet /\ In (EBegin t) (events c) /\ In (EResolved t) (events c) /\
     result c = Some (op_res (t_op th))).
Proof. exact resolve_once. Qed.
Print Assumptions C11_resolve_once.

(* every pipelined call is delivered at most once at any time, exactly once when it has returned;
   to the PipelineCaller only while no Fulfill/Reject has passed its check (wf_log), otherwise
   after the resolution and then to what the result holds at the call's path (capability, or the
   rejection error / failure) *)
Theorem C11_pipelined_exactly_once : forall ops c, reach fixed ops c ->
  wf_log (events c) /\
  (sig_open c = true -> forall t d, In (EDeliver t d) (events c) -> d = DCaller) /\
  forall t th, nth_error (threads c) t = Some th ->
    match t_op th with
    | OSend p _ =>
      (cnt (is_deliver t) (events c) <= 1)%nat /\
      (t_pc th = PDone -> cnt (is_deliver t) (events c) = 1%nat /\ t_out th = ORet) /\
      (forall d, In (EDeliver t d) (events c) -> d = DCaller \/ d = res_dest (cur_res c) p)
    | OCall _ _ =>
      (cnt (is_deliver t) (events c) <= 1)%nat /\
      (t_pc th = PDone -> (t_out th = ONoSlot /\ cnt (is_deliver t) (events c) = 0%nat) \/
                          (t_out th = ORet /\ cnt (is_deliver t) (events c) = 1%nat))
    | _ => True
    end.
Proof. exact pipelined_exactly_once. Qed.
Print Assumptions C11_pipelined_exactly_once.

(* asking for the same path again returns the same proxy, and mu is free at every section
   boundary (in particular after Future.Client returned) *)
Theorem C11_client_idempotent : forall ops c, reach fixed ops c ->
  mu c = None /\
  forall t1 t2 th1 th2 p s1 s2 x1 x2,
    nth_error (threads c) t1 = Some th1 -> nth_error (threads c) t2 = Some th2 ->
    t_op th1 = OClient p s1 -> t_op th2 = OClient p s2 ->
    t_pc th1 = PDone -> t_pc th2 = PDone ->
    t_out th1 = OHandle (HProxy x1) -> t_out th2 = OHandle (HProxy x2) -> x1 = x2.
Proof. exact client_idempotent. Qed.
Print Assumptions C11_client_idempotent.

(* mu is free in every reachable configuration also with the old order of resolve *)
Theorem C11_mu_always_free : forall v ops c, v_unlock_on_hit v = true -> reach v ops c -> mu c = None.
Proof. exact mu_always_free. Qed.
Print Assumptions C11_mu_always_free.

(* F11: on the model of answer.go as found the second Client() on a path leaves mu held by a
   finished thread and the next operation can never run *)
Theorem C11_client_idempotent_refuted :
  let c := run as_found (init f11_history) [0%nat; 1%nat; 2%nat] in
  finished c 1 = true /\ mu c = Some 1%nat /\ finished c 2 = false /\ enabled as_found c 2 = false.
Proof. exact client_idempotent_refuted. Qed.
Print Assumptions C11_client_idempotent_refuted.

(* deadlock freedom: if no thread can take a step then either the application holds a call inside
   the PipelineCaller (gated, not released), or every unfinished thread is a Done/Struct waiter, a
   ReleaseClients call or the result's owner, at its start, on a promise whose caller is still set
   (nobody has asked to resolve it; an unfinished Fulfill/Reject would be enabled) *)
Theorem C11_no_stuck : forall ops c, reach fixed ops c -> all_disabled c ->
  (exists t th, nth_error (threads c) t = Some th /\ t_pc th = PInCaller /\
                op_gated (t_op th) = true /\ mem_nat t (gates c) = false) \/
  (forall t th, nth_error (threads c) t = Some th -> t_pc th <> PDone ->
     caller c = true /\ t_pc th = PStart /\ (t_op th = OWait \/ t_op th = ORelease \/ t_op th = OConsume)).
Proof. exact no_stuck. Qed.
Print Assumptions C11_no_stuck.

(* waiters: once Done is closed every unfinished waiter has an enabled step; and when the system has
   come to rest with no call held by the application and a Fulfill/Reject among the operations,
   every operation (waiters, ReleaseClients, pipelined calls) has finished *)
Theorem C11_waiters_enabled : forall ops c, reach fixed ops c -> done_open c = false ->
  forall t th, nth_error (threads c) t = Some th -> t_op th = OWait -> t_pc th <> PDone ->
               enabled fixed c t = true.
Proof. exact waiters_released_partial. Qed.
Print Assumptions C11_waiters_enabled.

Theorem C11_waiters_released : forall ops c, reach fixed ops c -> all_disabled c ->
  (forall t th, nth_error (threads c) t = Some th -> t_pc th = PInCaller ->
                op_gated (t_op th) = true -> mem_nat t (gates c) = true) ->
  (exists t th, nth_error (threads c) t = Some th /\ is_res_op (t_op th) = true) ->
  forall t th, nth_error (threads c) t = Some th -> t_pc th = PDone.
Proof. exact waiters_released. Qed.
Print Assumptions C11_waiters_released.

(* lifetime of the result: resolve reads it only before the resolution is signalled, i.e. before its
   owner may release it; refuted on the withdrawn repair 5d7e7b2 (late_fixed) *)
Theorem C11_result_read_alive : forall ops c t th x rest, reach fixed ops c ->
  nth_error (threads c) t = Some th -> t_pc th = PFul (x :: rest) ->
  done_open c = true /\ res_alive c = true.
Proof. exact result_read_alive. Qed.
Print Assumptions C11_result_read_alive.

Theorem C11_result_lifetime_refuted :
  let c := run late_fixed (init lifetime_history) [0%nat; 1%nat; 2%nat; 1%nat] in
  match nth_error (threads c) 1 with
  | Some th => t_pc th = PDone /\ t_out th = OPanic /\ res_alive c = false
  | None => False
  end.
Proof. exact result_lifetime_refuted. Qed.
Print Assumptions C11_result_lifetime_refuted.

(* pipelined clients handed out earlier end up referring to the resolved capability (what the result holds
   at their path) once Fulfill/Reject has returned, and are released once the ReleaseClients call that took
   the table has returned (outcome ORet; calls that found it already taken return ONoop) *)
Theorem C11_proxy_clients_resolved_and_released : forall ops c, reach fixed ops c ->
  (forall t th, nth_error (threads c) t = Some th -> is_res_op (t_op th) = true -> t_pc th = PDone ->
     t_out th = ORet ->
     forall x px, nth_error (proxies c) x = Some px ->
       px_target px = Some (res_dest (op_res (t_op th)) (px_path px))) /\
  (forall t th, nth_error (threads c) t = Some th -> t_op th = ORelease -> t_pc th = PDone -> t_out th = ORet ->
     forall x px, nth_error (proxies c) x = Some px -> px_rel px = true).
Proof. exact proxy_clients_resolved_and_released. Qed.
Print Assumptions C11_proxy_clients_resolved_and_released.

(* no_stuck FAILS on the model of the code before the deadlock repair: a concrete deadlocked
   configuration (replayed on the real code at the time: corpus/C11-promise.txt) *)
Theorem C11_no_stuck_refuted :
  match quiesce f11_fixed 1000 (init deadlock_history) 10 with
  | Some c => forallb (fun t => negb (enabled f11_fixed c t)) (all_tids c) = true /\
              finished c 4 = false /\ finished c 6 = false /\ finished c 9 = false /\ mu c = None
  | None => False
  end.
Proof. exact no_stuck_refuted. Qed.
Print Assumptions C11_no_stuck_refuted.

(* Join (model PromiseJoin.v; the theorems over all interleavings on this model follow below): the seeded
   change C11-3 (resolve no longer closes p.joined) and the code as found (F11c, nil client table) are refuted by
   concrete histories, replayed on the real code (corpus/C11-promise.txt) *)
Theorem C11_join_resolve_refuted :
  match jquiesce jseed3 1000 (jinit 2 seed3_history) 7 with
  | Some c => forallb (fun t => negb (jenabled jseed3 c t)) (jall_tids c) = true /\
              jfinished c 4 = false /\ jfinished c 5 = false /\ jfinished c 6 = true /\ all_mu_free c = true
  | None => False
  end.
Proof. exact join_resolve_refuted. Qed.
Print Assumptions C11_join_resolve_refuted.

Theorem C11_join_nil_table_refuted :
  match jquiesce jf11c 1000 (jinit 2 f11c_history) 3 with
  | Some c => match nth_error (jthreads c) 1 with
              | Some th => j_out th = OPanic | None => False end /\
              jmutex_blocked c 2 = true /\ all_mu_free c = false
  | None => False
  end.
Proof. exact join_nil_table_refuted. Qed.
Print Assumptions C11_join_nil_table_refuted.

(* pipelined_exactly_once on a promise and its joined chain (model with Join), any number of promises, every op list
   and interleaving (premise: Join allocates the client table, the code as it is):
   (count) a call is delivered at most once, and exactly once when it has returned (a Client-call on an empty slot: zero);
   (caller) a call is handed to the PipelineCaller of a promise only while that promise has not left the unresolved
            state;
   (destination) the promise k a call was delivered at is reached along next from the call's RECEIVER (the promise of
            PipelineSend/Recv; for a call through a proxy client, the proxy's owner); a delivery that is not to k's
            PipelineCaller was made when k is the END of that chain (no next edge, for good), on k's result at the
            call's path, and that result is final.
   Calls through an already resolved / released client (JEDirect) are only counted here; what such a client refers to
   is C11_join_proxy_clients_resolved_and_released. *)
Theorem C11_join_pipelined_exactly_once : forall v np ops c, jv_alloc_table v = true -> jreach v np ops c ->
  (forall t th, nth_error (jthreads c) t = Some th ->
    match j_op th with
    | JSend _ _ _ =>
      (jcnt (jis_deliver t) (jevents c) <= 1)%nat /\
      (j_pc th = QDone -> jcnt (jis_deliver t) (jevents c) = 1%nat)
    | JCall _ _ =>
      (jcnt (jis_deliver t) (jevents c) <= 1)%nat /\
      (j_pc th = QDone -> (j_out th = ONoSlot /\ jcnt (jis_deliver t) (jevents c) = 0%nat) \/
                          (j_out th = ORet /\ jcnt (jis_deliver t) (jevents c) = 1%nat))
    | _ => True
    end) /\
  wf_jcaller (jevents c) /\
  (forall t th k d, nth_error (jthreads c) t = Some th -> In (JEDeliver t k d) (jevents c) ->
    match j_op th with
    | JSend k0 _ _ => nreach c k0 k
    | JCall _ _ => exists x, j_via th = Some x /\ nreach c (jx_owner (getx c x)) k
    | _ => True
    end /\
    (d = DCaller \/
     (p_next (getp c k) = None /\ d = res_dest (jcur_res (getp c k)) (j_path th) /\ p_caller (getp c k) = false /\
      (p_result (getp c k) <> None \/ p_signals (getp c k) = [])))).
Proof. exact join_pipelined_exactly_once_full. Qed.
Print Assumptions C11_join_pipelined_exactly_once.

(* ---- joined chains (model PromiseJoin.v): all variants / all numbers of promises / all op lists / all
   interleavings *)

(* client_idempotent on chains, mu part (ordered locking, no leaked mutex): a promise's mu is held at a section
   boundary only by a Join thread on that promise that is about to lock the promise it joins; when every
   operation has finished every mu is free.  (For the code as found, F11c, this fails: C11_join_nil_table_refuted.) *)
Theorem C11_join_mu_discipline : forall v np ops c, jv_alloc_table v = true -> jreach v np ops c ->
  (forall k t, p_mu (getp c k) = Some t ->
     exists th, nth_error (jthreads c) t = Some th /\ j_pc th = QJPar /\ j_cur th = k) /\
  ((forall t, jfinished c t = true) -> forall k, p_mu (getp c k) = None).
Proof. exact join_mu_discipline. Qed.
Print Assumptions C11_join_mu_discipline.

(* resolve_once on chains: per promise, at most one Fulfill / Reject / Join passes the isUnresolved check, the
   result is set at most once, and it is set iff JEResolved was logged for it *)
Theorem C11_join_resolve_once : forall v np ops c, jreach v np ops c -> forall k,
  (jcnt (jis_begin k) (jevents c) <= 1)%nat /\ (jcnt (jis_resolved k) (jevents c) <= 1)%nat /\
  (p_caller (getp c k) = true -> jcnt (jis_begin k) (jevents c) = 0%nat /\ p_result (getp c k) = None) /\
  (jcnt (jis_resolved k) (jevents c) = 1%nat <-> exists r, p_result (getp c k) = Some r).
Proof. exact join_resolve_once. Qed.
Print Assumptions C11_join_resolve_once.


(* seeded C11-r2-1 (Join: parent.clientsRefs++ instead of += p.clientsRefs) refuted on the Join model: after
   ReleaseClients on the two joined promises of a child-first chain the client is already released *)
Theorem C11_join_refs_refuted :
  match jquiesce jrefs1 1000 (jinit 3 refs_history) 7 with
  | Some c => In (JEDirect 6 DFail) (jevents c) /\ p_relflag (getp c 0) = false
  | None => False
  end.
Proof. exact join_refs_refuted. Qed.
Print Assumptions C11_join_refs_refuted.

(* proxy clients on chains, the reference count: over all op lists and interleavings the client-table references
   (clientsRefs summed over all promises) equal the number of promises that have not called ReleaseClients plus the
   ReleaseClients calls on their way to the end of their chain: Join conserves the references, each ReleaseClients
   consumes exactly one, so the table is given up by the last ReleaseClients of the promises sharing it and not
   before.  Violated by the seeded change C11-r2-1 (C11_join_refs_refuted, join_refs_conservation_refuted). *)
Theorem C11_join_refs_count : forall v np ops c, jv_refs_sum v = true -> jreach v np ops c ->
  pm_refs (proms c) = pm_unreleased (proms c) + jcount owes (jthreads c).
Proof. exact join_refs_count. Qed.
Print Assumptions C11_join_refs_count.

(* ---- round 6: the forest, the Join precondition, mutex deadlock freedom, destinations on chains *)

(* Precondition of Join (join_ordered): a promise only joins promises of lower index (never itself, never a promise
   that is or will be joined to it).  Under it every next edge goes to a lower index: joined promises form a forest
   whose chains end in a promise that is not joined. *)
Theorem C11_join_forest : forall v np ops c, join_ordered ops -> jreach v np ops c ->
  (forall k q, p_next (getp c k) = Some q -> (q < k)%nat) /\
  (forall t th, nth_error (jthreads c) t = Some th -> jjoin_pc (j_pc th) = true -> (j_par th < j_cur th)%nat).
Proof. exact join_forest. Qed.
Print Assumptions C11_join_forest.

(* without the precondition Join can block forever *)
Theorem C11_self_join_refuted :
  let c := jrun jfixed (jinit 1 [JJoin 0 0]) [0%nat; 0%nat; 0%nat] in
  jenabled jfixed c 0 = false /\ jfinished c 0 = false /\ jmutex_blocked c 0 = true.
Proof. exact self_join_refuted. Qed.
Print Assumptions C11_self_join_refuted.

Theorem C11_cyclic_join_refuted :
  let c := jrun jfixed (jinit 2 [JJoin 0 1; JJoin 1 0]) [0%nat; 1%nat; 0%nat; 1%nat] in
  jenabled jfixed c 0 = false /\ jenabled jfixed c 1 = false /\
  jfinished c 0 = false /\ jfinished c 1 = false /\ jmutex_blocked c 0 = true /\ jmutex_blocked c 1 = true.
Proof. exact cyclic_join_refuted. Qed.
Print Assumptions C11_cyclic_join_refuted.

(* no deadlock on the mutexes (component of C11_join_no_stuck): under the precondition of Join, whenever some
   Promise.mu is held some thread can take a step, so no operation waits forever for a mutex *)
Theorem C11_join_no_mutex_deadlock : forall v np ops c, jv_alloc_table v = true -> join_ordered ops ->
  jreach v np ops c -> forall k t, p_mu (getp c k) = Some t -> exists t', jenabled v c t' = true.
Proof. exact join_no_mutex_deadlock. Qed.
Print Assumptions C11_join_no_mutex_deadlock.


(* joined promises hold nothing: references, clients and signals live at the promise they were joined onto *)
Theorem C11_join_joined_empty : forall v np ops c, jv_alloc_table v = true -> jreach v np ops c -> forall k,
  (p_caller (getp c k) = true -> p_next (getp c k) = None) /\
  (p_next (getp c k) <> None ->
   p_crefs (getp c k) = 0 /\ p_clients (getp c k) = [] /\ p_signals (getp c k) = []).
Proof. exact join_joined_empty. Qed.
Print Assumptions C11_join_joined_empty.

(* proxy clients released, per chain: when every promise other than k has been joined, k's clientsRefs equals the
   number of promises that have not called ReleaseClients plus the calls still walking to k: the table is given up by
   the last ReleaseClients of the chain, not before (seeded C11-r2-1) and not later *)
Theorem C11_join_chain_release : forall v np ops c,
  jv_alloc_table v = true -> jv_refs_sum v = true -> jreach v np ops c ->
  forall k, (forall k', k' <> k -> p_next (getp c k') <> None \/ p_crefs (getp c k') = 0) ->
    p_crefs (getp c k) = pm_unreleased (proms c) + jcount owes (jthreads c).
Proof. exact join_chain_release. Qed.
Print Assumptions C11_join_chain_release.

(* ---- deadlock freedom and released waiters on joined chains.
   Premises of the chain theorems: the code as it is (jv_close_joined: resolve closes p.joined; jv_alloc_table: Join
   allocates the client table of the promise joined onto; jv_refs_sum: Join hands over all clientsRefs) and the
   precondition of Join (join_ordered: a promise only joins promises of lower index; self-join and cyclic joins are
   refuted above).  C11_join_premises_satisfiable shows that they can be met together. *)

(* hook waits on chains, Fulfill side: at rest with no call held inside a PipelineCaller, no resolver is waiting for the
   calls of a proxy hook to drain.  Proof: per-proxy counting (hook.calls = number of call threads that came through the
   proxy; refs <= 0 and calls = 0 => hook done) and the path invariant (a proxy in r's table has an owner whose next-chain
   leads to r; a call that came through it is on that chain), so the call it would wait for is blocked on r's joined /
   pendingDone channel, which the resolver has already closed *)
Theorem C11_join_fulfil_never_waits_for_hook : forall v np ops c,
  jv_close_joined v = true -> jv_alloc_table v = true -> join_ordered ops -> jreach v np ops c ->
  (forall t, jenabled v c t = false) ->
  (forall t th, nth_error (jthreads c) t = Some th -> j_pc th <> QInCaller) ->
  forall t th, nth_error (jthreads c) t = Some th -> j_pc th <> QFulWait.
Proof. exact join_fulfil_never_waits_for_hook. Qed.
Print Assumptions C11_join_fulfil_never_waits_for_hook.


(* hook waits on chains, Release side: ReleaseClients / Client.Release never waits for a proxy hook at all - it only
   starts when the receiver's resolved channel is closed; then the next-chain from the receiver ends in a settled
   (resolved) promise whose Fulfill loop has set the target of every proxy in its table, and a proxy with a target is
   released without waiting *)
Theorem C11_join_release_never_waits_for_hook : forall v np ops c,
  jv_alloc_table v = true -> jreach v np ops c ->
  forall t th, nth_error (jthreads c) t = Some th -> j_pc th <> QRelWait.
Proof. exact join_release_never_waits_for_hook. Qed.
Print Assumptions C11_join_release_never_waits_for_hook.

(* the invariant behind it: a promise whose resolved channel is closed reaches, along next, a settled promise
   (signals handed out, no next edge) and every proxy in that promise's table has its target set *)
Theorem C11_join_resclosed_lands : forall v np ops c,
  jv_alloc_table v = true -> jreach v np ops c ->
  forall k, p_resclosed (getp c k) = true ->
    exists r, nreach c k r /\ settled c r /\ (forall x, in_rows c r x -> jx_target (getx c x) <> None).
Proof. exact join_resclosed_lands. Qed.
Print Assumptions C11_join_resclosed_lands.

(* no_stuck on chains, in the shape of C11_no_stuck.  If no thread can take a step then the application holds a call
   inside a PipelineCaller (gated, not released), or every unfinished operation t is blocked on a channel of a promise
   k = [waited th] (resolved_k for Struct / ReleaseClients at their start, Client() and a Join that found k pending
   resolution; joined_k for a traversal or a Join that found k pending join) and k depends on a promise r that nobody
   has asked to resolve ([waits_on c k r]: r is k, or k was joined onto a promise that depends on r, or a Join of k is
   in progress onto a promise that depends on r; p_caller r still set). *)
Theorem C11_join_no_stuck : forall v np ops c,
  jv_close_joined v = true -> jv_alloc_table v = true -> join_ordered ops -> jreach v np ops c ->
  (forall t, jenabled v c t = false) ->
  (exists t th, nth_error (jthreads c) t = Some th /\ j_pc th = QInCaller /\
                jop_gated (j_op th) = true /\ mem_nat t (jgates c) = false) \/
  (forall t th, nth_error (jthreads c) t = Some th -> j_pc th <> QDone ->
     exists k r, waited th = Some k /\ waits_on c k r /\ p_caller (getp c r) = true).
Proof. exact join_no_stuck_tied. Qed.
Print Assumptions C11_join_no_stuck.

(* waiters_released on chains, per chain: at rest, with no call held by the application, an operation has finished
   unless the promise it is blocked on depends on a promise that nobody asked to resolve - other, unrelated promises
   may be in any state *)
Theorem C11_join_waiters_released : forall v np ops c,
  jv_close_joined v = true -> jv_alloc_table v = true -> join_ordered ops -> jreach v np ops c ->
  (forall t, jenabled v c t = false) ->
  (forall t th, nth_error (jthreads c) t = Some th -> j_pc th = QInCaller ->
                jop_gated (j_op th) = true -> mem_nat t (jgates c) = true) ->
  forall t th, nth_error (jthreads c) t = Some th ->
    (forall k r, waited th = Some k -> waits_on c k r -> p_caller (getp c r) = false) ->
    j_pc th = QDone.
Proof. exact join_waiters_released_tied. Qed.
Print Assumptions C11_join_waiters_released.

(* waiters_enabled on chains (analogue of C11_waiters_enabled): once resolved_k is closed, an unfinished Struct /
   ReleaseClients on k can take a step, unless the mutex of the promise it is at is held - and then some thread can
   (C11_join_no_mutex_deadlock) *)
Theorem C11_join_waiters_enabled : forall v np ops c,
  jv_alloc_table v = true -> jreach v np ops c ->
  forall t th k, nth_error (jthreads c) t = Some th -> j_op th = JWait k \/ j_op th = JRelease k ->
    j_pc th <> QDone -> p_resclosed (getp c k) = true ->
    jenabled v c t = true \/ p_mu (getp c (j_cur th)) <> None.
Proof. exact join_waiters_enabled. Qed.
Print Assumptions C11_join_waiters_enabled.

(* proxy targets on chains: every proxy in the client table of a settled (resolved) promise r - its own pipelined
   clients and those moved to it by Joins - has been given r's result at the proxy's path.  With
   C11_join_chain_release (the table is given up by the last ReleaseClients of the chain) this is
   proxy_clients_resolved_and_released on chains. *)
Theorem C11_join_proxy_targets : forall v np ops c,
  jv_alloc_table v = true -> jreach v np ops c ->
  forall r x res, settled c r -> p_result (getp c r) = Some res -> in_rows c r x ->
    jx_target (getx c x) = Some (res_dest res (jx_path (getx c x))).
Proof. exact join_proxy_targets. Qed.
Print Assumptions C11_join_proxy_targets.

(* proxy_clients_resolved_and_released on chains, in the shape of the single-promise theorem:
   (resolved) once Fulfill / Reject of promise k has returned, every proxy whose owner's next-chain ends at k - the
   pipelined clients of k and of every promise joined, directly or not, onto k, whether still in k's table or already
   taken by ReleaseClients - refers to what that resolution holds at the proxy's path;
   (released) every proxy is in some promise's client table, or in the loop of the ReleaseClients call that took its
   table, or released: once the table of a chain has been taken (by the last ReleaseClients of the chain,
   C11_join_chain_release) and that call has returned, every proxy that was in it is released. *)
Theorem C11_join_proxy_clients_resolved_and_released : forall v np ops c,
  jv_alloc_table v = true -> jreach v np ops c ->
  (forall t th k, nth_error (jthreads c) t = Some th -> (exists caps, j_op th = JFulfill k caps) \/ j_op th = JReject k ->
     j_pc th = QDone -> j_out th = ORet ->
     forall x, (x < length (jproxies c))%nat -> nreach c (own c x) k ->
       jx_target (getx c x) = Some (res_dest (jop_res (j_op th)) (jx_path (getx c x)))) /\
  (forall x, (x < length (jproxies c))%nat ->
     (exists r, in_rows c r x) \/
     (exists t th, nth_error (jthreads c) t = Some th /\ j_pc th = QRel /\ In x (j_rest th)) \/
     jx_rel (getx c x) = true).
Proof. exact join_proxy_clients_resolved_and_released. Qed.
Print Assumptions C11_join_proxy_clients_resolved_and_released.

(* client_idempotent on chains ("same proxy" part; the mu part is C11_join_mu_discipline): Future.Client calls for
   the same path that ended their traversal at the same promise returned the same proxy, as long as that promise is
   still unresolved.  Across a Join the code itself hands out the proxy of the promise joined onto (the row of a path
   then holds both promises' proxies and Client() returns the first; both resolve to the same capability by
   C11_join_proxy_clients_resolved_and_released), so the single-promise statement does not carry over literally. *)
Theorem C11_join_client_idempotent : forall v np ops c,
  jv_alloc_table v = true -> jreach v np ops c ->
  forall t1 t2 th1 th2 k1 k2 q s1 s2 x1 x2,
    nth_error (jthreads c) t1 = Some th1 -> nth_error (jthreads c) t2 = Some th2 ->
    j_op th1 = JClient k1 q s1 -> j_op th2 = JClient k2 q s2 ->
    j_pc th1 = QDone -> j_pc th2 = QDone ->
    j_out th1 = OHandle (HProxy x1) -> j_out th2 = OHandle (HProxy x2) ->
    j_cur th1 = j_cur th2 -> p_caller (getp c (j_cur th1)) = true ->
    x1 = x2.
Proof. exact join_client_idempotent. Qed.
Print Assumptions C11_join_client_idempotent.

(* the premises are satisfiable together: the variant of the code as it is, and an ordered history with two Joins
   that runs to a configuration where every operation has finished *)
Example C11_join_premises_satisfiable :
  jv_close_joined jfixed = true /\ jv_alloc_table jfixed = true /\ jv_refs_sum jfixed = true /\
  join_ordered premises_history /\
  exists c, jreach jfixed 3 premises_history c /\ (forall t, jenabled jfixed c t = false) /\
            (forall t th, nth_error (jthreads c) t = Some th -> j_pc th = QDone).
Proof. exact join_premises_satisfiable. Qed.
Print Assumptions C11_join_premises_satisfiable.

(* relation between the two models, PARTIAL: with zero Join operations the Join-specific state of PromiseJoin.v is
   inert (no promise pending join or joined, no mu held at a section boundary, no thread in a Join section): each
   promise runs the single-promise protocol on its own fields, and the precondition of Join holds vacuously, so every
   chain theorem above applies to each promise on its own.  A full simulation on the projected observables is not
   proved; the two models are additionally tied through the implementation (seq vs join 1 / par 1 histories). *)
Theorem C11_join_zero_joins_inert_partial : forall v np ops c, Forall no_join_op ops -> jreach v np ops c ->
  (forall k, p_next (getp c k) = None /\ p_joined (getp c k) = CNil /\ p_mu (getp c k) = None) /\
  (forall t th, nth_error (jthreads c) t = Some th -> jjoin_pc (j_pc th) = false) /\
  join_ordered ops.
Proof. exact join_zero_joins_inert_ordered. Qed.
Print Assumptions C11_join_zero_joins_inert_partial.

