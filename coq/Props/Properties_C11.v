(* C11 — promise pipelining delivers each call exactly once and never deadlocks.
   Statements only; each is closed by [exact] of a lemma proved elsewhere. *)
From CV Require Import Promise.Promise Promise.PromiseProofs.
Open Scope Z_scope.

Theorem C11_client_idempotent_refuted :
  let c := run as_found (init f11_history) [0%nat; 1%nat; 2%nat] in
  finished c 1 = true /\ mu c = Some 1%nat /\ finished c 2 = false /\ enabled as_found c 2 = false.
Proof. exact client_idempotent_refuted. Qed.
Print Assumptions C11_client_idempotent_refuted.
