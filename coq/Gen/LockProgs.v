(* GENERATED stub: locktrans failed closed on the current source *)
From Coq Require Import List String.
From CV Require Import Lock.LockCheck.
Import ListNotations.
Local Open Scope string_scope.
Definition generated_prog : prog := [ mkF "TRANSLATOR FAILED CLOSED in Conn.handleReturn" true [mkC [0] false 0 []] None ].
