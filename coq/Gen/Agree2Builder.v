(* Translator tie, second group, owner Core/Builder.v (C04/C05/C16: the builder model):
   message.go nextAlloc (with its growth loop), hasCapacity, address.go maxAllocSize, as generated
   into Gen/GoArith2.v, equal the definitions of Core/Builder.v. Hand-written; re-checked
   against the regenerated file on every run. *)
From Coq Require Import ZArith Lia Bool ZifyBool.
From CV Require Import Base.GoSem Base.Bits Core.Arith Core.Builder Gen.GoArith Gen.GoArithAgree Gen.GoArith2.
Open Scope Z_scope.
Ltac Zify.zify_post_hook ::= Z.div_mod_to_equations.

Theorem go_maxAllocSize_agrees : go_maxAllocSize = maxAllocSize.
Proof. reflexivity. Qed.

(* cap(b), len(b): 0 <= len <= cap <= maxInt in Go; only the int range is needed *)
Theorem go_hasCapacity_agrees : forall s sz,
  0 <= bs_cap s < 9223372036854775808 -> 0 <= blen s < 9223372036854775808 ->
  go_hasCapacity (bs_cap s) (blen s) sz = hasCapacity s sz.
Proof.
  intros s sz Hc Hl. unfold go_hasCapacity, hasCapacity.
  assert (H : wrap_s64 (bs_cap s - blen s) = bs_cap s - blen s) by (unwrap; split_ifs; lia).
  rewrite H. reflexivity.
Qed.

(* ---- the growth loop: for 0 < new && new < want { new += new / 4 } *)

Lemma loop1_fuel_mono : forall f want new r,
  go_nextAlloc_loop1 f want new = Some r -> go_nextAlloc_loop1 (S f) want new = Some r.
Proof.
  induction f as [|f IH]; intros want new r H; [discriminate|].
  cbn [go_nextAlloc_loop1] in H. change (go_nextAlloc_loop1 (S (S f)) want new) with
    (if (0 <? new) && (new <? want)
     then let new0 := wrap_s64 (new + Z.quot new 4) in go_nextAlloc_loop1 (S f) want new0
     else Some new).
  destruct ((0 <? new) && (new <? want)); [|exact H].
  cbv zeta in *. apply IH. exact H.
Qed.

Lemma loop1_fuel_ge : forall k f want new r,
  go_nextAlloc_loop1 f want new = Some r -> go_nextAlloc_loop1 (k + f) want new = Some r.
Proof. induction k; intros; [assumption|]. cbn [Nat.add]. apply loop1_fuel_mono. auto. Qed.

(* the loop of the model ([grow], any larger fuel) computes the same value, and the loop has left *)
Lemma loop1_grow : forall f want new r,
  go_nextAlloc_loop1 f want new = Some r ->
  forall g, (f <= g)%nat -> grow g new want = r /\ (0 <? r) && (r <? want) = false.
Proof.
  induction f as [|f IH]; intros want new r H g Hg; [discriminate|].
  destruct g as [|g]; [lia|].
  cbn [go_nextAlloc_loop1] in H. cbn [grow].
  destruct ((0 <? new) && (new <? want)) eqn:E.
  - cbv zeta in H.
    assert (Hq : Z.quot new 4 = new / 4) by (apply quot_div_nonneg; lia).
    rewrite Hq in H. apply (IH _ _ _ H). lia.
  - injection H as <-. split; [reflexivity|exact E].
Qed.

Lemma loop1_in_s64 : forall f w x y, in_s64 x -> go_nextAlloc_loop1 f w x = Some y -> in_s64 y.
Proof.
  induction f; intros w x y Hx H; [discriminate|]. cbn [go_nextAlloc_loop1] in H.
  destruct ((0 <? x) && (x <? w)).
  - cbv zeta in H. eapply IHf; [|exact H]. unranges. unwrap. split_ifs; lia.
  - injection H as <-. exact Hx.
Qed.

Definition step (x : Z) : Z := wrap_s64 (x + Z.quot x 4).

Lemma step_grows : forall x, 4 <= x < 9223372036854775808 ->
  step x <= 0 \/ 4 * step x >= 5 * x - 3.
Proof.
  intros x Hx. unfold step. rewrite quot_div_nonneg by lia. unwrap. split_ifs; lia.
Qed.

(* in the branch where the loop runs (1024 <= want <= 2*curr) five iterations are enough *)
Lemma loop1_exits : forall want curr, 512 <= curr -> curr < want -> want <= 2 * curr ->
  2 * curr < 9223372036854775808 ->
  exists r, go_nextAlloc_loop1 5 want curr = Some r.
Proof.
  intros want curr Hc Hw Hd Hm.
  assert (Hs : forall x, 0 < x -> x < want -> step x <= 0 \/ 4 * step x >= 5 * x - 3).
  { intros x H0 H1. destruct (Z_lt_le_dec x 4) as [Hlt|Hge].
    - unfold step. rewrite quot_div_nonneg by lia. unwrap. split_ifs; lia.
    - apply step_grows. lia. }
  cbn [go_nextAlloc_loop1]. fold (step curr).
  destruct ((0 <? curr) && (curr <? want)) eqn:E0; [|eauto]. cbv zeta.
  set (x1 := step curr).
  destruct ((0 <? x1) && (x1 <? want)) eqn:E1; [|eauto]. fold (step x1). set (x2 := step x1).
  destruct ((0 <? x2) && (x2 <? want)) eqn:E2; [|eauto]. fold (step x2). set (x3 := step x2).
  destruct ((0 <? x3) && (x3 <? want)) eqn:E3; [|eauto]. fold (step x3). set (x4 := step x3).
  destruct ((0 <? x4) && (x4 <? want)) eqn:E4; [|eauto].
  exfalso.
  pose proof (Hs curr ltac:(lia) ltac:(lia)) as G0. fold x1 in G0.
  pose proof (Hs x1 ltac:(lia) ltac:(lia)) as G1. fold x2 in G1.
  pose proof (Hs x2 ltac:(lia) ltac:(lia)) as G2. fold x3 in G2.
  pose proof (Hs x3 ltac:(lia) ltac:(lia)) as G3. fold x4 in G3.
  lia.
Qed.

Definition alloc_pair (r : res Z) : Z * bool :=
  match r with Ok n => (n, false) | _ => (0, true) end.

(* nextAlloc(curr, max int64, req Size) (int, error): the error is observed as non-nil.
   Fuel: 5 iterations suffice (any fuel >= 5 gives the same result), OutOfFuel does not occur.
   Domain: 0 <= curr (curr is a segment length / the message's total size); for curr close to
   minInt64 the Go code's 1024 - curr wraps, which Builder.nextAlloc does not model. *)
Theorem go_nextAlloc_agrees : forall k curr max req,
  0 <= curr < 9223372036854775808 -> in_s64 max -> in_u32 req ->
  go_nextAlloc (k + 5) curr max req = Done (alloc_pair (nextAlloc curr max req)).
Proof.
  intros k curr max req Hc Hm Hr. unranges.
  unfold go_nextAlloc, nextAlloc.
  rewrite go_maxAllocSize_agrees, go_padToWord_agrees.
  change (wrap_s64 (curr + padToWord req)) with (s64 (curr + padToWord req)).
  change (wrap_s64 (curr + curr)) with (s64 (curr + curr)).
  destruct (req =? 0) eqn:E0; [reflexivity|].
  destruct (req >? maxAllocSize) eqn:E1; [reflexivity|].
  cbv zeta.
  set (padreq := padToWord req). set (want := s64 (curr + padreq)).
  assert (Hpad : 0 <= padreq <= 4294967288 /\ padreq mod 8 = 0).
  { subst padreq. unfold padToWord, maxAllocSize, maxSegmentSize in *. unwrap. lia. }
  destruct ((want <=? curr) || (want >? max)) eqn:E2; [reflexivity|].
  assert (Hwant : want = curr + padreq /\ curr < want).
  { assert (want = curr + padreq \/ want < 0) by (subst want; unwrap; split_ifs; lia). lia. }
  destruct Hwant as [Hweq Hwgt].
  destruct (want <? 1024) eqn:E3.
  - bits.
    assert (H1 : wrap_s64 (wrap_s64 (1024 - curr) + 7) = 1024 - curr + 7) by (unwrap; split_ifs; lia).
    assert (H2 : wrap_s64 (curr + 7) = curr + 7) by (unwrap; split_ifs; lia).
    rewrite H1, H2. destruct ((1024 - curr + 7) / 8 * 8 <? curr); reflexivity.
  - destruct (want >? s64 (curr + curr)) eqn:E4; [reflexivity|].
    assert (Hdbl : s64 (curr + curr) = 2 * curr /\ 2 * curr < 9223372036854775808).
    { assert (s64 (curr + curr) = 2 * curr /\ 2 * curr < 9223372036854775808 \/ s64 (curr + curr) < 0)
        by (unwrap; split_ifs; lia). lia. }
    destruct Hdbl as [Hdeq Hdlt]. rewrite Hdeq in E4.
    destruct (loop1_exits want curr ltac:(lia) ltac:(lia) ltac:(lia) ltac:(lia)) as [r Hr5].
    rewrite (loop1_fuel_ge k 5 want curr r Hr5).
    destruct (loop1_grow 5 want curr r Hr5 400 ltac:(lia)) as [Hg Hleft].
    rewrite Hg, Hleft.
    destruct (r <=? 0) eqn:E5; [reflexivity|].
    pose proof (loop1_in_s64 5 want curr r ltac:(unranges; lia) Hr5) as Hrs. unranges.
    assert (Hd : wrap_s64 (r - curr) = r - curr) by (unwrap; split_ifs; lia).
    rewrite Hd. unfold maxAllocSize, maxSegmentSize in *.
    destruct (r - curr >? 4294967288) eqn:E6; [reflexivity|].
    bits.
    assert (Hd7 : wrap_s64 (r - curr + 7) = r - curr + 7) by (unwrap; split_ifs; lia).
    rewrite Hd7. reflexivity.
Qed.

(* non-vacuity, and the three branches on concrete values *)
Example nextAlloc_examples :
  go_nextAlloc 5 0 9223372036854775807 8 = Done (1024, false) /\
  go_nextAlloc 5 4096 9223372036854775807 8 = Done (1024, false) /\
  go_nextAlloc 5 4096 9223372036854775807 100000 = Done (100000, false) /\
  go_nextAlloc 5 4096 4100 8 = Done (0, true) /\
  nextAlloc 4096 9223372036854775807 8 = Ok 1024.
Proof. vm_compute. repeat split; reflexivity. Qed.
