(* Hand-written, checked by the kernel on every run against the REGENERATED Gen/GoArith.v:
   every function translated from the Go source by gotrans equals the hand-written L0
   definition of Core/Arith.v (Core/ArithMore.v) on the whole range of its Go argument types
   (where the domain is smaller this is stated as a hypothesis and listed in docs/gotrans.md).
   A change of the Go arithmetic that changes a function's value makes this file fail to compile. *)
From Coq Require Import ZArith Lia Bool ZifyBool Btauto.
From CV Require Import Base.GoSem Base.Bits Core.Arith Core.ArithMore Gen.GoArith.
Open Scope Z_scope.
Ltac Zify.zify_post_hook ::= Z.div_mod_to_equations.

(* ranges of the Go types *)
Definition in_u8 (z : Z) := 0 <= z < 256.
Definition in_u16 (z : Z) := 0 <= z < 65536.
Definition in_u32 (z : Z) := 0 <= z < 4294967296.
Definition in_u64 (z : Z) := 0 <= z < 18446744073709551616.
Definition in_s32 (z : Z) := -2147483648 <= z < 2147483648.
Definition in_s64 (z : Z) := -9223372036854775808 <= z < 9223372036854775808.
Definition in_os (s : ObjectSize) := in_u32 (DataSize s) /\ in_u16 (PointerCount s).

(* Go's (value, ok) results against the option of Core/Arith.v: the value returned with
   ok = false is 0xffffffff in address.go *)
Definition ok_pair (d : Z) (o : option Z) : Z * bool :=
  match o with Some x => (x, true) | None => (d, false) end.

Ltac unranges := unfold in_os, in_u8, in_u16, in_u32, in_u64, in_s32, in_s64 in *.
Ltac unwrap := unfold wrap_u8, wrap_u16, wrap_u32, wrap_u64, wrap_s8, wrap_s16, wrap_s32, wrap_s64,
                      u8, u16, u32, u64, s32, s64 in *.
Ltac bits := rewrite ?land_3, ?land_7, ?ldiff_3, ?ldiff_7, ?ldiff_fffffffc,
                     ?shiftr_1, ?shiftr_2, ?shiftr_32, ?shiftr_35, ?shiftr_48.
Ltac split_ifs :=
  repeat match goal with
         | |- context [if ?c then _ else _] => let E := fresh "E" in destruct c eqn:E
         end.
(* [lor_ac]: equal up to associativity / commutativity of bitwise OR (operand order in the Go
   source is irrelevant), by extensionality on bits *)
Ltac lor_ac :=
  first [ reflexivity
        | (unwrap; apply Z.bits_inj'; let n := fresh "n" in let Hn := fresh "Hn" in intros n Hn;
           rewrite ?Z.lor_spec; btauto) ].
Ltac fin := first [reflexivity | lia | (f_equal; lia) | (repeat f_equal; lia)].

(* ------------------------------------------------------------------ address.go *)

(* [s64_noop]: every signed 64-bit wrap in the goal whose argument is provably in range is the
   identity.  Innermost first (an argument that still contains a wrap is skipped), so the proofs
   do not depend on the order of operands or on the names of Go locals. *)
Lemma wrap_s64_id : forall z, -9223372036854775808 <= z < 9223372036854775808 -> wrap_s64 z = z.
Proof. intros z H. unfold wrap_s64. cbv zeta. destruct (_ <? _) eqn:E; lia. Qed.
Ltac no_wrap_in e := lazymatch e with context [wrap_s64 _] => fail | _ => idtac end.
Ltac s64_noop :=
  repeat match goal with
         | |- context [wrap_s64 ?e] => no_wrap_in e; rewrite (wrap_s64_id e) by nia
         end.
Ltac ok_pair_fin := cbv zeta; split_ifs; try lia; [reflexivity | f_equal; unwrap; lia].

Theorem go_addSize_agrees : forall a sz, in_u32 a -> in_u32 sz ->
  go_addSize a sz = ok_pair 4294967295 (addSize a sz).
Proof.
  intros a sz Ha Hsz. unranges. unfold go_addSize, addSize, ok_pair, maxSegmentSize.
  s64_noop. replace (sz + a) with (a + sz) by lia. ok_pair_fin.
Qed.

Theorem go_addSizeUnchecked_agrees : forall a sz, go_addSizeUnchecked a sz = addSizeUnchecked a sz.
Proof. reflexivity. Qed.

Theorem go_element_agrees : forall a i sz, in_u32 a -> in_s32 i -> in_u32 sz ->
  go_element a i sz = ok_pair 4294967295 (element a i sz).
Proof.
  intros a i sz Ha Hi Hsz. unranges. unfold go_element, element, ok_pair, maxSegmentSize.
  assert (Hm : -9223372034707292160 <= i * sz <= 9223372030412324865) by nia.
  assert (Hm' : sz * i = i * sz) by lia.
  rewrite ?Hm'. s64_noop. rewrite ?Hm'. s64_noop.
  replace (i * sz + a) with (a + i * sz) by lia. ok_pair_fin.
Qed.

Theorem go_addOffset_agrees : forall a o, go_addOffset a o = addOffset a o.
Proof. reflexivity. Qed.

Theorem go_times_agrees : forall sz n, in_u32 sz -> in_s32 n ->
  go_times sz n = ok_pair 4294967295 (times sz n).
Proof.
  intros sz n Hsz Hn. unranges. unfold go_times, times, ok_pair, maxSegmentSize.
  assert (Hm : -9223372036854775808 <= sz * n < 9223372036854775808) by nia.
  assert (Hm' : n * sz = sz * n) by lia.
  rewrite ?Hm'. s64_noop. ok_pair_fin.
Qed.

Theorem go_timesUnchecked_agrees : forall sz n, go_timesUnchecked sz n = timesUnchecked sz n.
Proof. reflexivity. Qed.

Theorem go_padToWord_agrees : forall sz, go_padToWord sz = padToWord sz.
Proof. intro sz. unfold go_padToWord, padToWord. cbv zeta. bits. reflexivity. Qed.

Theorem go_isZero_agrees : forall s, go_isZero s = os_isZero s.
Proof. reflexivity. Qed.
Theorem go_isOneByte_agrees : forall s, go_isOneByte s = os_isOneByte s.
Proof. reflexivity. Qed.
Theorem go_isValid_agrees : forall s, go_isValid s = os_isValid s.
Proof. reflexivity. Qed.
Theorem go_pointerSize_agrees : forall s, go_pointerSize s = pointerSize s.
Proof. reflexivity. Qed.
Theorem go_totalSize_agrees : forall s, go_totalSize s = totalSize s.
Proof. reflexivity. Qed.

Theorem go_dataWordCount_agrees : forall s, in_os s -> go_dataWordCount s = dataWordCount s.
Proof.
  intros [ds pc] [Hd Hp]. unranges. cbn [DataSize PointerCount] in *.
  unfold go_dataWordCount, dataWordCount. cbn [DataSize PointerCount].
  rewrite rem_mod_nonneg, quot_div_nonneg by lia.
  destruct (ds mod 8 =? 0) eqn:E; cbn [negb]; [|reflexivity].
  f_equal. unwrap. split_ifs; lia.
Qed.

Theorem go_totalWordCount_agrees : forall s, in_os s -> go_totalWordCount s = totalWordCount s.
Proof.
  intros s Hs. unfold go_totalWordCount, totalWordCount.
  rewrite go_dataWordCount_agrees by assumption.
  destruct (dataWordCount s); reflexivity.
Qed.

Theorem go_BitOffset_offset_agrees : forall bit, in_u32 bit -> go_BitOffset_offset bit = bitOffset_offset bit.
Proof.
  intros bit H. unranges. unfold go_BitOffset_offset, bitOffset_offset.
  apply quot_div_nonneg; lia.
Qed.

Theorem go_BitOffset_mask_agrees : forall bit, in_u32 bit -> go_BitOffset_mask bit = bitOffset_mask bit.
Proof.
  intros bit H. unranges. unfold go_BitOffset_mask, bitOffset_mask.
  rewrite rem_mod_nonneg by lia. rewrite Z.mul_1_l.
  assert (Hk : 0 <= bit mod 8 < 8) by (apply Z.mod_pos_bound; lia).
  assert (Hp : 0 < 2 ^ (bit mod 8) < 256).
  { split; [apply Z.pow_pos_nonneg; lia|].
    change 256 with (2 ^ 8). apply Z.pow_lt_mono_r; lia. }
  unfold wrap_u8. apply Z.mod_small. lia.
Qed.

(* ------------------------------------------------------------------ list.go *)

(* Domain: the Go comment restricts bitListSize to [0, 1<<29); Core/Arith.v's definition is
   stated for n >= 0. They agree as long as n + 7 does not wrap in int32. (For n < 0 Go's
   truncated division differs from the floor division of Arith.bitListSize: see docs/gotrans.md.) *)
Theorem go_bitListSize_agrees : forall n, 0 <= n < 2147483648 - 7 ->
  go_bitListSize n = bitListSize n.
Proof.
  intros n H. unfold go_bitListSize, bitListSize.
  assert (Hw : wrap_s32 (n + 7) = n + 7) by (unwrap; split_ifs; lia).
  rewrite Hw, quot_div_nonneg by lia. reflexivity.
Qed.

(* ------------------------------------------------------------------ rawpointer.go *)

Theorem go_resolve_agrees : forall off base, in_s32 off -> in_u32 base ->
  go_resolve off base = ok_pair 4294967295 (resolve off base).
Proof.
  intros off base Ho Hb. unfold go_resolve, resolve.
  apply go_element_agrees; unranges; lia.
Qed.

Theorem go_nearPointerOffset_agrees : forall paddr addr, in_u32 paddr -> in_u32 addr ->
  go_nearPointerOffset paddr addr = nearPointerOffset paddr addr.
Proof.
  intros paddr addr Hp Ha. unranges. unfold go_nearPointerOffset, nearPointerOffset.
  rewrite !quot_div_nonneg by lia.
  assert (H : wrap_u32 (wrap_u32 (addr / 8 - paddr / 8) - 1) mod 4294967296
              = (addr / 8 - paddr / 8 - 1) mod 4294967296) by (unwrap; lia).
  unfold wrap_s32, s32. rewrite H. reflexivity.
Qed.

Theorem go_rawStructPointer_agrees : forall off sz, in_s32 off -> in_os sz ->
  go_rawStructPointer off sz = rawStructPointer off sz.
Proof.
  intros off sz Ho Hs. unfold go_rawStructPointer, rawStructPointer.
  rewrite go_dataWordCount_agrees by assumption.
  destruct (dataWordCount sz) as [d|] eqn:E; [|reflexivity].
  assert (Hd : 0 <= d < 536870912).
  { unfold dataWordCount in E. destruct Hs as [Hs _]. unranges.
    destruct (DataSize sz mod 8 =? 0); [|discriminate]. injection E as <-. lia. }
  assert (Hsd : s32 d = d) by (unwrap; split_ifs; lia).
  rewrite Hsd. lor_ac.
Qed.

Theorem go_rawListPointer_agrees : forall off lt len, in_s32 off -> in_s64 lt -> in_s32 len ->
  go_rawListPointer off lt len = rawListPointer off lt len.
Proof.
  intros off lt len Ho Hl Hn. unfold go_rawListPointer, rawListPointer, listPointer.
  assert (H : wrap_u64 (wrap_u64 lt * 4294967296) = u64 (lt * 4294967296)) by (unwrap; lia).
  rewrite H. lor_ac.
Qed.

Theorem go_rawInterfacePointer_agrees : forall cap, go_rawInterfacePointer cap = rawInterfacePointer cap.
Proof. lor_ac. Qed.

Theorem go_rawFarPointer_agrees : forall seg off, go_rawFarPointer seg off = rawFarPointer seg off.
Proof. intros. unfold go_rawFarPointer, rawFarPointer, farPointer. bits. lor_ac. Qed.

Theorem go_rawDoubleFarPointer_agrees : forall seg off,
  go_rawDoubleFarPointer seg off = rawDoubleFarPointer seg off.
Proof. intros. unfold go_rawDoubleFarPointer, rawDoubleFarPointer, doubleFarPointer. bits. lor_ac. Qed.

Theorem go_pointerType_agrees : forall p, in_u64 p -> go_pointerType p = pointerType p.
Proof.
  intros p Hp. unranges. unfold go_pointerType, pointerType. bits.
  assert (H3 : wrap_s64 (p mod 4) = p mod 4) by (unwrap; split_ifs; lia).
  assert (H7 : wrap_s64 (p mod 8) = p mod 8) by (unwrap; split_ifs; lia).
  rewrite H3, H7. first [reflexivity | (split_ifs; lia)].
Qed.

Theorem go_structSize_agrees : forall p, go_structSize p = structSize p.
Proof. intro p. unfold go_structSize, structSize. bits. reflexivity. Qed.

Theorem go_listType_agrees : forall p, in_u64 p -> go_listType p = listType p.
Proof.
  intros p Hp. unranges. unfold go_listType, listType. bits.
  unwrap; split_ifs; lia.
Qed.

Theorem go_numListElements_agrees : forall p, go_numListElements p = numListElements p.
Proof. intro p. unfold go_numListElements, numListElements. bits. reflexivity. Qed.

Lemma numListElements_range : forall p, in_u64 p -> 0 <= numListElements p < 536870912.
Proof. intros p Hp. unranges. unfold numListElements. unwrap. split_ifs; lia. Qed.

Theorem go_elementSize_agrees : forall p, in_u64 p -> go_elementSize p = elementSize p.
Proof.
  intros p Hp. unfold go_elementSize, elementSize. rewrite go_listType_agrees by assumption.
  reflexivity.
Qed.

(* Arith.totalListSize: Some (Some sz) = (sz, true), Some None = (0xffffffff, false), None = panic *)
Theorem go_totalListSize_agrees : forall p, in_u64 p ->
  go_totalListSize p = match totalListSize p with
                       | Some r => Some (ok_pair 4294967295 r)
                       | None => None
                       end.
Proof.
  intros p Hp. unfold go_totalListSize, totalListSize.
  rewrite go_listType_agrees, go_elementSize_agrees, go_numListElements_agrees by assumption.
  pose proof (numListElements_range p Hp) as Hn.
  cbv zeta.
  destruct (listType p =? 1) eqn:E1.
  { rewrite go_bitListSize_agrees by lia. reflexivity. }
  destruct (listType p =? 7) eqn:E7.
  { rewrite go_times_agrees; [reflexivity | unranges; lia | unranges; unwrap; split_ifs; lia]. }
  destruct (elementSize p); reflexivity.
Qed.

Theorem go_rawPointer_offset_agrees : forall p, go_rawPointer_offset p = ptr_offset p.
Proof. intro p. unfold go_rawPointer_offset, ptr_offset. bits. reflexivity. Qed.

Theorem go_withOffset_agrees : forall p off, go_withOffset p off = withOffset p off.
Proof. intros. unfold go_withOffset, withOffset. bits. reflexivity. Qed.

Theorem go_farAddress_agrees : forall p, go_farAddress p = farAddress p.
Proof. intro p. unfold go_farAddress, farAddress. bits. reflexivity. Qed.

Theorem go_farSegment_agrees : forall p, go_farSegment p = farSegment p.
Proof. intro p. unfold go_farSegment, farSegment. bits. reflexivity. Qed.

Theorem go_otherPointerType_agrees : forall p, go_otherPointerType p = otherPointerType p.
Proof. intro p. unfold go_otherPointerType, otherPointerType. bits. reflexivity. Qed.

Theorem go_capabilityIndex_agrees : forall p, go_capabilityIndex p = capabilityIndex p.
Proof. intro p. unfold go_capabilityIndex, capabilityIndex. bits. reflexivity. Qed.

Theorem go_landingPadNearPointer_agrees : forall far tag, in_u64 far ->
  go_landingPadNearPointer far tag = landingPadNearPointer far tag.
Proof.
  intros far tag Hf. unranges. unfold go_landingPadNearPointer, landingPadNearPointer. bits.
  assert (H : wrap_u32 (far / 4 * 4) = u32 far / 4 * 4) by (unwrap; lia).
  rewrite H. reflexivity.
Qed.

(* ------------------------------------------------------------------ segment.go *)

Theorem go_inBounds_agrees : forall len addr, go_inBounds len addr = inBounds len addr.
Proof. reflexivity. Qed.

Theorem go_regionInBounds_agrees : forall len base sz, in_u32 base -> in_u32 sz ->
  go_regionInBounds len base sz = regionInBounds len base sz.
Proof.
  intros len base sz Hb Hs. unfold go_regionInBounds, regionInBounds.
  rewrite go_addSize_agrees by assumption.
  destruct (addSize base sz); reflexivity.
Qed.

(* ------------------------------------------------------------------ struct.go *)

Theorem go_pointerAddress_agrees : forall off size i, in_u32 off -> in_os size -> in_u16 i ->
  go_pointerAddress off size i = pointerAddress off size i.
Proof.
  intros off [ds pc] i Ho [Hd Hp] Hi. cbn [DataSize PointerCount] in *.
  unfold go_pointerAddress, pointerAddress. cbn [DataSize PointerCount].
  rewrite go_addSize_agrees by assumption.
  unfold addSize, ok_pair, maxSegmentSize. unranges. cbv zeta.
  destruct (off + ds >? 4294967288) eqn:E1.
  - rewrite go_element_agrees by (unranges; lia).
    unfold element, ok_pair, maxSegmentSize. cbv zeta. split_ifs; lia.
  - rewrite go_element_agrees by (unranges; lia).
    unfold element, ok_pair, maxSegmentSize. cbv zeta. split_ifs; lia.
Qed.

Theorem go_bitInData_agrees : forall seg_ok size bit, go_bitInData seg_ok size bit = bitInData seg_ok size bit.
Proof. reflexivity. Qed.

(* Arith.dataAddress: Some (Some a) = (a, true), Some None = (0, false), None = panic *)
Theorem go_dataAddress_agrees : forall seg_nil p_off size off sz,
  go_dataAddress seg_nil p_off size off sz =
  match dataAddress seg_nil p_off size off sz with
  | Some r => Some (ok_pair 0 r)
  | None => None
  end.
Proof.
  intros. unfold go_dataAddress, dataAddress.
  change (wrap_u32 (off + sz)) with (u32 (off + sz)).
  destruct (seg_nil || (u32 (off + sz) >? DataSize size)); [reflexivity|].
  rewrite go_addOffset_agrees. destruct (addOffset p_off off); reflexivity.
Qed.

(* ------------------------------------------------------------------ message.go *)

Theorem go_canRead_step_agrees : forall curr sz, in_u64 curr -> in_u32 sz ->
  go_canRead_step curr sz = canRead_step curr sz.
Proof.
  intros curr sz Hc Hs. unranges. unfold go_canRead_step, canRead_step. cbv zeta.
  destruct (curr >=? sz) eqn:E; [|reflexivity].
  f_equal. unwrap. lia.
Qed.

(* non-vacuity: the range hypotheses are satisfiable, and a concrete instance *)
Example agree_hyps_satisfiable :
  in_u32 4294967295 /\ in_s32 (-2147483648) /\ in_s64 (-1) /\ in_u64 18446744073709551615 /\
  in_u16 65535 /\ in_os (mkOS 524280 65535) /\
  go_element 16 (-1) 8 = (8, true) /\ element 16 (-1) 8 = Some 8.
Proof. unfold in_os. unranges. cbn [DataSize PointerCount]. vm_compute. intuition congruence. Qed.
