(* Second group of the translator tie: every function of the generated Gen/GoArith2.v equals the
   definition of the hand-written model that restates it. One file per owning model, so that a
   property only depends on (and is only broken by) the functions its model restates:
     Agree2Builder  Core/Builder.v   nextAlloc (+ growth loop, fuel), hasCapacity, maxAllocSize   C04 C05 C16
     Agree2Frame    Frame/Frame.v    streamHeaderSize, streamHeader.segmentSize                  C14
     Agree2Text     Text/Strquote.v  needsEscape, hexDigit                                      C20
     Agree2Pogs     Pogs/PogsM.v     isFieldInBounds                                            C19
     Agree2Layout   Layout/Layout.v  structUintFieldParams.Offset, intbits, intFieldDefaultMask C15
     Agree2Misc     (no model)       internal/packed min
   This file only collects them. *)
From CV Require Export Gen.Agree2Builder Gen.Agree2Frame Gen.Agree2Text Gen.Agree2Pogs
  Gen.Agree2Layout Gen.Agree2Misc.
