(* Translator tie, second group, no owning model definition: internal/packed min is Z.min
   (coq/Packed/Packed.v uses Nat.min / Z.min directly). *)
From Coq Require Import ZArith Lia Bool ZifyBool.
From CV Require Import Base.GoSem Gen.GoArith2.
Open Scope Z_scope.

Theorem go_packed_min_agrees : forall a b, go_packed_min a b = Z.min a b.
Proof. intros a b. unfold go_packed_min. destruct (b <? a) eqn:E; lia. Qed.
