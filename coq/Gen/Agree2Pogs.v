(* Translator tie, second group, owner Pogs/PogsM.v (C19: pogs):
   pogs/insert.go isFieldInBounds (as a function of t.Which()) as generated into Gen/GoArith2.v
   against is_field_in_bounds of Pogs/PogsM.v.
   They agree exactly where the Go arithmetic does not wrap: Size(off+1)*k is computed in uint32
   and uint16(off+1) truncates; the model computes in Z. The agreement is therefore stated under
   the no-wrap hypotheses, and the cases outside are DISAGREEMENTS (see the _refuted examples and
   docs/gotrans.md): for such offsets the Go code reports a field as in bounds which is not. *)
From Coq Require Import ZArith Lia Bool ZifyBool.
From CV Require Import Base.GoSem Base.Bits Core.Arith Gen.GoArith Gen.GoArithAgree Gen.GoArith2.
From CV Require Pogs.PogsM.
Open Scope Z_scope.
Ltac Zify.zify_post_hook ::= Z.div_mod_to_equations.

Module P := Pogs.PogsM.

(* schema.Type_Which values that pogs maps to the model's field type *)
Definition which_matches (t : P.ftype) (w : Z) : Prop :=
  match t with
  | P.TVoid => w = 0
  | P.TBool => w = 1
  | P.TInt n => (n = 8%nat /\ (w = 2 \/ w = 6)) \/                 (* int8, uint8 *)
                (n = 16%nat /\ (w = 3 \/ w = 7 \/ w = 15)) \/      (* int16, uint16, enum *)
                (n = 32%nat /\ (w = 4 \/ w = 8 \/ w = 10)) \/      (* int32, uint32, float32 *)
                (n = 64%nat /\ (w = 5 \/ w = 9 \/ w = 11))         (* int64, uint64, float64 *)
  | P.TText _ => w = 12
  | P.TData => w = 13
  | P.TList _ => w = 14
  | P.TStruct _ _ => w = 16
  | P.TIface => w = 17
  | P.TAnyPtr => w = 18
  end.

(* the arithmetic of the Go function does not wrap for this field *)
Definition no_wrap (t : P.ftype) (off : Z) : Prop :=
  match t with
  | P.TVoid | P.TBool => True
  | P.TInt w => (off + 1) * P.wbytes w < 4294967296
  | _ => off + 1 < 65536
  end.

Theorem go_isFieldInBounds_agrees : forall t w s off,
  which_matches t w -> in_u32 off -> no_wrap t off ->
  go_isFieldInBounds w (mkOS (P.s_dbytes s) (P.s_pcount s)) off = P.is_field_in_bounds s off t.
Proof.
  intros t w s off Hm Ho Hn. unranges.
  unfold go_isFieldInBounds, P.is_field_in_bounds. cbn [DataSize PointerCount]. cbv zeta.
  destruct t as [| |n|tb| |e|ip id| |]; cbn [which_matches no_wrap] in *.
  - subst w. reflexivity.
  - subst w. cbn [Z.eqb Pos.eqb orb]. rewrite quot_div_nonneg by lia.
    rewrite Z.geb_leb. f_equal. unwrap. lia.
  - (* TInt n *)
    unfold P.wbytes in *.
    destruct Hm as [[-> Hw]|[[-> Hw]|[[-> Hw]|[-> Hw]]]];
      [change (Z.of_nat 8 / 8) with 1 in * | change (Z.of_nat 16 / 8) with 2 in *
      |change (Z.of_nat 32 / 8) with 4 in * | change (Z.of_nat 64 / 8) with 8 in *];
      repeat match goal with H : _ \/ _ |- _ => destruct H as [H|H] end; subst w;
      cbn [Z.eqb Pos.eqb orb]; rewrite Z.geb_leb; f_equal; unwrap; lia.
  - subst w. cbn [Z.eqb Pos.eqb orb]. rewrite Z.geb_leb. f_equal. unwrap. lia.
  - subst w. cbn [Z.eqb Pos.eqb orb]. rewrite Z.geb_leb. f_equal. unwrap. lia.
  - subst w. cbn [Z.eqb Pos.eqb orb]. rewrite Z.geb_leb. f_equal. unwrap. lia.
  - subst w. cbn [Z.eqb Pos.eqb orb]. rewrite Z.geb_leb. f_equal. unwrap. lia.
  - subst w. cbn [Z.eqb Pos.eqb orb]. rewrite Z.geb_leb. f_equal. unwrap. lia.
  - subst w. cbn [Z.eqb Pos.eqb orb]. rewrite Z.geb_leb. f_equal. unwrap. lia.
Qed.

(* ---- outside the no-wrap domain the Go code and the model DISAGREE (arguments in the ranges of
   the Go types: off is a uint32 taken from the schema). The Go code says "in bounds". *)
Definition empty_struct : P.strct := P.Strct 0 (fun _ => false) 0 (fun _ => P.PNull).

(* uint16 field at offset 2^31-1: Size(off+1)*2 wraps to 0 *)
Example isFieldInBounds_int16_refuted :
  go_isFieldInBounds 3 (mkOS 0 0) 2147483647 = true /\
  P.is_field_in_bounds empty_struct 2147483647 (P.TInt 16) = false.
Proof. vm_compute. split; reflexivity. Qed.

(* any data field at offset 2^32-1: off+1 wraps to 0 *)
Example isFieldInBounds_int8_refuted :
  go_isFieldInBounds 2 (mkOS 0 0) 4294967295 = true /\
  P.is_field_in_bounds empty_struct 4294967295 (P.TInt 8) = false.
Proof. vm_compute. split; reflexivity. Qed.

(* pointer field at offset 65535: uint16(off+1) truncates to 0 *)
Example isFieldInBounds_pointer_refuted :
  go_isFieldInBounds 12 (mkOS 0 0) 65535 = true /\
  P.is_field_in_bounds empty_struct 65535 (P.TText false) = false.
Proof. vm_compute. split; reflexivity. Qed.

(* non-vacuity *)
Example isFieldInBounds_hyps_satisfiable :
  which_matches (P.TInt 32) 10 /\ no_wrap (P.TInt 32) 7 /\ which_matches P.TAnyPtr 18 /\ no_wrap P.TAnyPtr 65534.
Proof. cbn. unfold P.wbytes. cbn. intuition lia. Qed.
