(* Translator tie, second group, owner Text/Strquote.v (C20: text rendering):
   internal/strquote needsEscape and hexDigit as generated into Gen/GoArith2.v equal
   needs_escape (the fixed variant, which is what the repository contains) and hex_digit. *)
From Coq Require Import ZArith Lia Bool List.
From CV Require Import Base.GoSem Gen.GoArith2 Text.Strquote.
Open Scope Z_scope.

Theorem go_needsEscape_agrees : forall b, go_needsEscape b = needs_escape true b.
Proof.
  intro b. unfold go_needsEscape, needs_escape.
  rewrite Z.geb_leb. rewrite <- !orb_assoc. reflexivity.
Qed.

(* None = index out of range (Go panic) *)
Theorem go_hexDigit_agrees : forall b, go_hexDigit b = hex_digit b.
Proof.
  intro b. unfold go_hexDigit, hex_digit, go_index_bytes, digits.
  cbn [length Z.of_nat Pos.of_succ_nat Pos.succ].
  destruct ((0 <=? b) && (b <? 16)); [|reflexivity].
  destruct (nth_error _ _); reflexivity.
Qed.

(* the variant of the model that omits the quote characters (the code before the fix) is NOT what
   the source says: the tie distinguishes them *)
Example go_needsEscape_not_unfixed : go_needsEscape 34 <> needs_escape false 34.
Proof. vm_compute. discriminate. Qed.
