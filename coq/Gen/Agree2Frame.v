(* Translator tie, second group, owner Frame/Frame.v (C14: stream framing):
   message.go streamHeaderSize and streamHeader.segmentSize (as a function of the 32-bit word it
   reads from the header) as generated into Gen/GoArith2.v equal stream_header_size /
   segment_size of Frame/Frame.v. *)
From Coq Require Import ZArith Lia Bool ZifyBool.
From CV Require Import Base.GoSem Base.Bits Core.Arith Gen.GoArith Gen.GoArithAgree Gen.GoArith2.
From CV Require Frame.Frame.
Open Scope Z_scope.
Ltac Zify.zify_post_hook ::= Z.div_mod_to_equations.

Module F := Frame.Frame.

Ltac unframe := unfold F.wrap32, F.wrap64, F.to_int32, F.word_size, F.max_segment_size,
                       F.two31, F.two32, F.two64 in *.

Theorem go_streamHeaderSize_agrees : forall maxSeg, in_u32 maxSeg ->
  go_streamHeaderSize maxSeg = F.stream_header_size maxSeg.
Proof.
  intros m Hm. unranges. unfold go_streamHeaderSize, F.stream_header_size. bits. cbv zeta.
  unframe. unwrap.
  assert (H1 : (m + 2) mod 18446744073709551616 = m + 2) by (apply Z.mod_small; lia).
  rewrite H1.
  assert (H2 : ((m + 2) * 4) mod 18446744073709551616 = (m + 2) * 4) by (apply Z.mod_small; lia).
  rewrite H2.
  assert (H3 : ((m + 2) * 4 + 7) mod 18446744073709551616 = (m + 2) * 4 + 7) by (apply Z.mod_small; lia).
  rewrite H3. lia.
Qed.

(* Size.times with sz = wordSize, as restated in Frame.v *)
Lemma word_times_times : forall n, F.word_times n = times 8 n.
Proof. intro n. unfold F.word_times, times, maxSegmentSize. unframe. reflexivity. Qed.

(* (sz, err != nil) of segmentSize for the word s read at the segment's header slot *)
Definition seg_size_pair (r : F.res Z) : Z * bool :=
  match r with F.Ok sz => (sz, false) | _ => (0, true) end.

Lemma to_int32_wrap : forall w, in_u32 w -> wrap_s32 w = F.to_int32 w.
Proof. intros w H. unranges. unframe. unwrap. split_ifs; lia. Qed.

Lemma to_int32_range : forall w, in_u32 w -> in_s32 (F.to_int32 w).
Proof. intros w H. unranges. unframe. split_ifs; lia. Qed.

Lemma in_u32_8 : in_u32 8.
Proof. unranges. lia. Qed.

Theorem go_segmentSize_agrees : forall word i, in_u32 word ->
  go_segmentSize word i =
  seg_size_pair (match F.word_times (F.to_int32 word) with
                 | Some sz => F.Ok sz
                 | None => F.Err F.ESegOverflow
                 end).
Proof.
  intros word i Hw. unfold go_segmentSize.
  rewrite (to_int32_wrap word Hw), word_times_times.
  rewrite (go_times_agrees 8 (F.to_int32 word) in_u32_8 (to_int32_range word Hw)).
  destruct (times 8 (F.to_int32 word)); reflexivity.
Qed.

(* the same against Frame.segment_size: when the header holds the word s at the segment's slot
   (the read does not panic), the model's result is the translated function of s *)
Theorem go_segmentSize_agrees_header : forall hb i s, in_u32 s ->
  F.uint32_at hb (F.seg_index i) = F.Ok s ->
  seg_size_pair (F.segment_size hb i) = go_segmentSize s i.
Proof.
  intros hb i s Hs Hrd. unfold F.segment_size. rewrite Hrd. cbn [F.bind].
  symmetry. apply go_segmentSize_agrees. exact Hs.
Qed.
