(* Translator tie, second group, owner Layout/Layout.v (C15: generated accessors):
   capnpc-go templateparams.go structUintFieldParams.Offset (as a function of
   p.Field.Slot().Offset() and p.Bits), capnpc-go.go intbits and intFieldDefaultMask (as a
   function of v.IsValid(), v.Which(), intValue(v)) as generated into Gen/GoArith2.v equal
   gen_offset / gen_int_mask of Layout/Layout.v. *)
From Coq Require Import ZArith Lia Bool ZifyBool.
From CV Require Import Base.GoSem Base.Bits Gen.GoArith2.
From CV Require Layout.Layout.
Open Scope Z_scope.

Module L := Layout.Layout.

(* Offset(): p.Field.Slot().Offset() * uint32(p.Bits/8), Bits = the accessor's width *)
Theorem go_gen_Offset_agrees : forall f w,
  go_gen_Offset (L.fd_off f) (L.wbits w) = L.gen_offset f w.
Proof.
  intros f w. unfold go_gen_Offset, L.gen_offset, L.wrap32, wrap_u32.
  change (2 ^ 32) with 4294967296.
  destruct w; reflexivity.
Qed.

(* schema.Type_Which / Value_Which of the signed and unsigned integer types *)
Definition int_which (w : L.width) : Z := match w with L.W8 => 2 | L.W16 => 3 | L.W32 => 4 | L.W64 => 5 end.
Definition uint_which (w : L.width) : Z := match w with L.W8 => 6 | L.W16 => 7 | L.W32 => 8 | L.W64 => 9 end.

Theorem go_intbits_agrees : forall w,
  go_intbits (int_which w) = Some (L.wbits w) /\ go_intbits (uint_which w) = Some (L.wbits w).
Proof. destruct w; split; reflexivity. Qed.

(* intbits panics (None) on every other type *)
Theorem go_intbits_other : forall t, t < 2 \/ 9 < t -> go_intbits t = None.
Proof.
  intros t H. unfold go_intbits. cbv zeta.
  repeat match goal with |- context [?a =? ?b] => destruct (Z.eqb_spec a b); [lia|] end.
  reflexivity.
Qed.

(* intFieldDefaultMask(v) for a valid default of a signed integer field of width w whose
   value is d (= intValue(v)); and 0 for an absent default *)
Theorem go_intFieldDefaultMask_agrees : forall w d,
  go_intFieldDefaultMask true (int_which w) d = Some (L.gen_int_mask w d).
Proof.
  intros w d. unfold go_intFieldDefaultMask, L.gen_int_mask, L.wrap64, wrap_u64.
  change (2 ^ 64) with 18446744073709551616.
  destruct w; reflexivity.
Qed.

Theorem go_intFieldDefaultMask_invalid : forall which d w,
  go_intFieldDefaultMask false which d = Some 0 /\ L.gen_int_mask w 0 = 0.
Proof. intros which d w. split; [reflexivity|]. destruct w; reflexivity. Qed.
