(* Non-vacuity: concrete builder programs (run through the op-list interpreter) that produce
   a far pointer with a landing pad and a double-far pointer; the pointer is read back to the
   struct that was written, and the finished messages pass the strict validity predicate. *)
From CV Require Import Core.BuildOps Core.BuildValid Core.BuilderFacts Core.AllocProofs Core.WritePtrProofs.
Open Scope Z_scope.

Definition ex_cfg := mkCfg 0 0 true true.
(* struct A (one pointer) in segment 0, struct B (one data word = 258) in segment 1, A.ptr0 := B,
   root := A; then Root(), Ptr(0), Uint64(0) and a dump *)
Definition ex_prog : list bop :=
  [BNewStruct 0 0 1; BNewStruct 1 8 0; BSetUint 1 0 8 258; BSetPtr 0 0 1; BSetRoot 0;
   BRead InDst ORoot; BRead InDst (OSPtr 2 0); BRead InDst (OUint 3 0 8); BDump InDst].

Definition last_dump (r : option (list bval)) : list (list Z) :=
  match r with
  | Some vs => match last vs (BVUnit Err) with BVDump segs _ _ _ => map fst segs | _ => [] end
  | None => []
  end.
Definition read_values (r : option (list bval)) : list bval :=
  match r with Some vs => firstn 2 (skipn 6 vs) | None => [] end.
Definition B_ptr (depth : Z) : Ptr := mkPtr true 1 0 0 (mkOS 8 0) depth KStruct false false false.

(* segment 1 has room for a landing pad: far pointer *)
Definition ex_far := run_build (ArRaw [24; 16]) ex_cfg ex_cfg 0 100 [] ex_prog.
Example ex_far_pointer :
  let segs := last_dump ex_far in
  pointerType (le_decode (firstn 8 (skipn 8 (nth 0 segs [])))) = farPointer /\
  read_values ex_far = [BV (VPtr (Ok (B_ptr 62))); BV (VNum (Ok 258))] /\
  valid_message segs = VOk.
Proof. vm_compute. repeat split; reflexivity. Qed.

(* segment 1 is full: double-far pointer, two-word pad in segment 0 *)
Definition ex_dfar := run_build (ArRaw [32; 8]) ex_cfg ex_cfg 0 100 [] ex_prog.
Example ex_double_far_pointer :
  let segs := last_dump ex_dfar in
  pointerType (le_decode (firstn 8 (skipn 8 (nth 0 segs [])))) = doubleFarPointer /\
  read_values ex_dfar = [BV (VPtr (Ok (B_ptr 62))); BV (VNum (Ok 258))] /\
  valid_message segs = VOk.
Proof. vm_compute. repeat split; reflexivity. Qed.

(* the hypotheses of [place_resolves] are satisfiable: the state before the SetPtr above *)
Definition ex_before : bmsg :=
  mkBM AMulti [mkBS (repeat 0 16) 32; mkBS [2; 1; 0; 0; 0; 0; 0; 0] 8] [] 100.
Example ex_place_pre : place_pre ex_before 0 8 1 0 4294967296.
Proof.
  unfold place_pre.
  split. { unfold bmsg_wf, ex_before. cbn [bm_segs]. repeat constructor; cbn; lia. }
  split. { unfold arena_wf, ex_before. cbn [bm_arena]. discriminate. }
  split. { unfold segs_small, mem, get_seg, ex_before. cbn [bm_segs]. intros i.
           destruct (Z.to_nat i) as [|[|[|n]]]; cbn; unfold maxSegmentSize; lia. }
  split. { unfold raw_ok, ArithFacts.word64. split; [lia|]. split; [reflexivity|]. split; [reflexivity|lia]. }
  repeat split; vm_compute; first [reflexivity | discriminate].
Qed.

(* a validity predicate that rejects something: an out-of-bounds struct pointer *)
Example ex_invalid : valid_message [[0; 0; 0; 0; 1; 0; 0; 0]] = VBad 1.
Proof. vm_compute. reflexivity. Qed.

(* Message.SetRoot as found: a hand-made message whose first segment cannot hold the root word
   made it panic; the repaired code (and [set_root]) reports an error *)
Definition ex_rootless : world := mkW (mkBM AMulti [mkBS [] 4; mkBS (repeat 0 8) 8] [] 100) [] 0.
Example set_root_total_refuted :
  set_root_asfound 10 ex_rootless InDst nullPtr = Panic /\ set_root 10 ex_rootless InDst nullPtr = Err.
Proof. split; reflexivity. Qed.

(* writePtr as found: copying List.Struct(i) of a byte list (a list member whose data section is
   one byte) panicked in rawStructPointer (dataWordCount: "data size not aligned by word").
   The witness: root struct (0 data words, 1 pointer) -> byte list "hi\0"; element 0 as a
   struct is set as the root of a fresh message.  The repaired code pads the copy to a word. *)
Definition ex_bytelist_src : segs :=
  [[0;0;0;0;0;0;1;0; 1;0;0;0;26;0;0;0; 104;105;0;0;0;0;0;0]].
Definition ex_member : Ptr := mkPtr true 0 16 0 (mkOS 1 0) 62 KStruct false false true.
Definition ex_fresh : world := mkW (mkBM ASingle [mkBS (repeat 0 8) 1024] [] 100) ex_bytelist_src 100.
Example write_ptr_member_total_refuted :
  write_ptr_asfound 10 true ex_fresh 0 0 InSrc ex_member false = Panic /\
  (exists w', write_ptr 10 true ex_fresh 0 0 InSrc ex_member false = Ok w' /\
              bm_data (w_dst w') = [[0;0;0;0;1;0;0;0; 104;0;0;0;0;0;0;0]]).
Proof. split; [reflexivity|]. eexists. split; reflexivity. Qed.

(* for Properties_C05.v *)
Lemma ex_both_valid : valid_message (last_dump ex_far) = VOk /\ valid_message (last_dump ex_dfar) = VOk.
Proof. split; [apply ex_far_pointer|apply ex_double_far_pointer]. Qed.

(* [valid_message] is a structural predicate: it checks pointer resolution, bounds and that the
   regions it collects are pairwise equal or disjoint, but not that equal regions have the same
   kind, nor that a region is not the root word: this one-word message, whose root pointer
   designates its own word as a zero-data one-pointer struct, passes.  The table invariant [hinv]
   excludes such messages for everything the builder produces (regions of different table
   entries are disjoint, the root word is its own entry). *)
Example valid_message_is_structural : valid_message [[252; 255; 255; 255; 0; 0; 1; 0]] = VOk.
Proof. vm_compute. reflexivity. Qed.
