(* C02, sequential part: the traversal limit bounds the total size handed out by pointer
   dereferences; the depth limit bounds the number of successful dereferences on any access
   path; the generic walker is bounded by both. *)
From CV Require Export Core.SafetyProofs.
From Coq Require Import ZifyBool.
Open Scope Z_scope.
Ltac Zify.zify_post_hook ::= Z.div_mod_to_equations.

(* ------------------------------------------------------------------ read sizes *)
(* what readPtr charges for the pointer it hands out: a struct's total size; for a list
   element size x length, a zero-sized element being charged one word; nothing for a
   capability or null *)
Definition readSize (p : Ptr) : Z :=
  match p_kind p with
  | KStruct => struct_readSize p
  | KList => list_readSize p
  | KIface => 0
  end.

Lemma struct_readSize_nonneg p : 0 <= struct_readSize p.
Proof. unfold struct_readSize. destruct (p_valid p); [apply totalSize_nonneg|lia]. Qed.
Lemma list_readSize_nonneg p : 0 <= list_readSize p.
Proof.
  unfold list_readSize. destruct (p_valid p); [|lia]. cbv zeta.
  destruct (times _ _) as [sz|] eqn:E; [|unfold maxSegmentSize; lia].
  apply times_spec in E. lia.
Qed.
Lemma readSize_nonneg p : 0 <= readSize p.
Proof. unfold readSize. destruct (p_kind p); [apply struct_readSize_nonneg|apply list_readSize_nonneg|lia]. Qed.
Lemma readSize_null : readSize nullPtr = 0.
Proof. reflexivity. Qed.

Lemma canRead_spec rl sz ok rl' : 0 <= rl -> 0 <= sz -> canRead rl sz = (ok, rl') ->
  0 <= rl' <= rl /\ (ok = true -> rl' = rl - sz) /\ (ok = false -> rl' = 0 /\ rl < sz).
Proof.
  unfold canRead. intros Hr Hs. destruct (rl >=? sz) eqn:E; intros H; inversion H; subst.
  - split; [lia|]. split; [reflexivity|discriminate].
  - split; [lia|]. split; [discriminate|]. intros _. lia.
Qed.

Lemma readStructPtr_valid sid s base val sp : readStructPtr sid s base val = Ok sp ->
  p_valid sp = true /\ p_kind sp = KStruct.
Proof.
  unfold readStructPtr. destruct (element _ _ _); [|discriminate]. cbv zeta.
  dif; [discriminate|]. intros H. inversion H. split; reflexivity.
Qed.
Lemma readListPtr_valid strict sid s base val lp : readListPtr strict sid s base val = Ok lp ->
  p_valid lp = true /\ p_kind lp = KList.
Proof.
  unfold readListPtr. destruct (element _ _ _); [|discriminate].
  destruct (totalListSize val) as [[lsize|]|]; try discriminate.
  dif; [discriminate|]. cbv zeta. dif.
  - destruct (readRawPointer s z); cbn [bind]; try discriminate.
    destruct (addSize z 8); [|discriminate]. dif; [discriminate|]. dif; [discriminate|].
    destruct (times _ _); [|discriminate]. dif; [discriminate|].
    intros H. inversion H. split; reflexivity.
  - dif.
    + intros H. inversion H. split; reflexivity.
    + destruct (elementSize val); [|discriminate]. intros H. inversion H. split; reflexivity.
Qed.

(* ------------------------------------------------------------------ readPtr accounting *)
(* the size readPtr asks Message.canRead for (None: canRead is not reached) *)
Definition readPtr_request (strict : bool) (m : segs) (sid : Z) (s : seg) (paddr depth : Z) : option Z :=
  match resolveFarPointer m sid s paddr with
  | Ok (dsid, dst, base, val) =>
    if val =? 0 then None else if depth =? 0 then None else
    if pointerType val =? structPointer then
      match readStructPtr dsid dst base val with Ok sp => Some (struct_readSize sp) | _ => None end
    else if pointerType val =? listPointer then
      match readListPtr strict dsid dst base val with Ok lp => Some (list_readSize lp) | _ => None end
    else None
  | _ => None
  end.

Lemma readPtr_request_nonneg strict m sid s paddr depth sz :
  readPtr_request strict m sid s paddr depth = Some sz -> 0 <= sz.
Proof.
  unfold readPtr_request. destruct (resolveFarPointer _ _ _ _) as [[[[dsid dst] base] val]| |]; try discriminate.
  dif; [discriminate|]. dif; [discriminate|]. dif.
  - destruct (readStructPtr _ _ _ _); try discriminate. intros H. inversion H. apply struct_readSize_nonneg.
  - dif; [|discriminate]. destruct (readListPtr _ _ _ _ _); try discriminate.
    intros H. inversion H. apply list_readSize_nonneg.
Qed.

(* exact accounting of one readPtr: the budget is untouched when canRead is not reached;
   a granted request is subtracted and the object handed out has exactly that read size;
   a refused request zeroes the budget and yields an error *)
Lemma readPtr_limit_spec strict m rl sid s paddr depth :
  match readPtr_request strict m sid s paddr depth with
  | None => snd (readPtr strict m rl sid s paddr depth) = rl /\
            (forall p, fst (readPtr strict m rl sid s paddr depth) = Ok p -> readSize p = 0)
  | Some sz =>
      if rl >=? sz
      then snd (readPtr strict m rl sid s paddr depth) = rl - sz /\
           exists p, fst (readPtr strict m rl sid s paddr depth) = Ok p /\ p_valid p = true /\ readSize p = sz
      else readPtr strict m rl sid s paddr depth = (Err, 0)
  end.
Proof.
  unfold readPtr_request, readPtr.
  destruct (resolveFarPointer _ _ _ _) as [[[[dsid dst] base] val]| |];
    try (split; [reflexivity|discriminate]).
  destruct (val =? 0); [split; [reflexivity|]; cbn [fst]; intros p H; inversion H; reflexivity|].
  destruct (depth =? 0); [split; [reflexivity|discriminate]|]. cbv zeta.
  destruct (pointerType val =? structPointer).
  { destruct (readStructPtr dsid dst base val) as [sp| |] eqn:E; try (split; [reflexivity|discriminate]).
    apply readStructPtr_valid in E. destruct E as [V K].
    unfold canRead. destruct (rl >=? struct_readSize sp); [|reflexivity].
    split; [reflexivity|]. eexists. split; [reflexivity|]. split; [reflexivity|].
    unfold readSize, struct_readSize. pcbn. rewrite V. reflexivity. }
  destruct (pointerType val =? listPointer).
  { destruct (readListPtr strict dsid dst base val) as [lp| |] eqn:E; try (split; [reflexivity|discriminate]).
    apply readListPtr_valid in E. destruct E as [V K].
    unfold canRead. destruct (rl >=? list_readSize lp); [|reflexivity].
    split; [reflexivity|]. eexists. split; [reflexivity|]. split; [reflexivity|].
    unfold readSize, list_readSize. pcbn. rewrite V. reflexivity. }
  destruct (pointerType val =? otherPointer); [|split; [reflexivity|discriminate]].
  destruct (otherPointerType val =? 0); cbn [negb]; [|split; [reflexivity|discriminate]].
  split; [reflexivity|]. cbn [fst]. intros p H. inversion H. reflexivity.
Qed.

(* consequence used everywhere below *)
Lemma readPtr_charge strict m rl sid s paddr depth : 0 <= rl ->
  0 <= snd (readPtr strict m rl sid s paddr depth) <= rl /\
  match fst (readPtr strict m rl sid s paddr depth) with
  | Ok p => snd (readPtr strict m rl sid s paddr depth) + readSize p = rl
  | _ => True
  end.
Proof.
  intros Hr. pose proof (readPtr_limit_spec strict m rl sid s paddr depth) as H.
  destruct (readPtr_request strict m sid s paddr depth) as [sz|] eqn:Eq.
  - apply readPtr_request_nonneg in Eq. destruct (rl >=? sz) eqn:E.
    + destruct H as [H1 (p & H2 & _ & H3)]. rewrite H1, H2. split; lia.
    + rewrite H. cbn [fst snd]. split; [lia|exact I].
  - destruct H as [H1 H2]. rewrite H1. split; [lia|].
    destruct (fst (readPtr strict m rl sid s paddr depth)) eqn:E; try exact I.
    rewrite (H2 a eq_refl). lia.
Qed.

(* a result and remaining budget that respect the accounting, starting from budget rl *)
Definition charged (rl : Z) (x : res Ptr * Z) : Prop :=
  0 <= snd x <= rl /\ match fst x with Ok p => snd x + readSize p = rl | _ => True end.

Lemma struct_ptr_charge c m rl p i : 0 <= rl -> charged rl (struct_ptr c m rl p i).
Proof.
  intros Hr. unfold struct_ptr, charged. dif.
  - cbn [fst snd]. rewrite readSize_null. lia.
  - apply readPtr_charge. assumption.
Qed.
Lemma ptrlist_at_charge c fu m rl p i : 0 <= rl -> charged rl (ptrlist_at c fu m rl p i).
Proof.
  intros Hr. unfold ptrlist_at, charged. destruct (primitiveElem _ _ _ _).
  - apply readPtr_charge. assumption.
  - cbn [fst snd]. lia.
  - cbn [fst snd]. lia.
Qed.
Lemma root_charge c m rl : 0 <= rl -> charged rl (root c m rl).
Proof.
  intros Hr. unfold root, charged. destruct (lookup_segment m 0); try (cbn [fst snd]; lia).
  dif.
  - cbn [fst snd]. destruct (cfg_root c); lia.
  - apply readPtr_charge. assumption.
Qed.

(* ------------------------------------------------------------------ the walker threads the budget *)
Lemma iter_rl_mono {A} (f : Z -> Z -> A * Z) : forall n i rl,
  (forall j rl0, 0 <= rl0 -> 0 <= snd (f j rl0) <= rl0) -> 0 <= rl ->
  0 <= snd (iter_rl n i rl f) <= rl.
Proof.
  induction n as [|n IH]; intros i rl H Hr; cbn [iter_rl]; [cbn; lia|].
  pose proof (H i rl Hr) as H1. destruct (f i rl) as [a rl1]. cbn [snd] in H1.
  specialize (IH (i + 1) rl1 H ltac:(lia)).
  destruct (iter_rl n (i + 1) rl1 f) as [r rl2]. cbn [snd] in *. lia.
Qed.

Lemma walk_rl_mono c fx m dcap pcap : forall fuel rl r, 0 <= rl ->
  0 <= snd (walk c fx m dcap pcap fuel rl r) <= rl.
Proof.
  induction fuel as [|f IH]; intros rl r Hr.
  - destruct r as [p| |]; cbn [walk]; [destruct (p_valid p)|..]; cbn; lia.
  - destruct r as [p| |]; cbn [walk]; [|cbn; lia|cbn; lia].
    destruct (p_valid p); cbn [negb]; [|cbn; lia].
    destruct (p_kind p).
    + destruct (collect _ _ _); [|cbn; lia|cbn; lia].
      match goal with |- context [iter_rl ?n ?i ?rl ?g] =>
        pose proof (iter_rl_mono g n i rl) as Hit; destruct (iter_rl n i rl g) as [ps rl'] end.
      cbn [snd] in *. apply Hit; [|assumption]. intros j rl0 H0.
      pose proof (struct_ptr_charge c m rl0 p j H0) as [Hc _].
      destruct (struct_ptr c m rl0 p j) as [q rl1]. cbn [snd] in Hc.
      specialize (IH rl1 q ltac:(lia)). lia.
    + cbv zeta. destruct (p_bit p); [destruct (collect _ _ _); cbn; lia|].
      destruct (p_comp p).
      { match goal with |- context [iter_rl ?n ?i ?rl ?g] =>
          pose proof (iter_rl_mono g n i rl) as Hit; destruct (iter_rl n i rl g) as [ps rl'] end.
        cbn [snd] in *. apply Hit; [|assumption]. intros j rl0 H0. apply IH. assumption. }
      destruct (0 <? PointerCount (p_size p)).
      { match goal with |- context [iter_rl ?n ?i ?rl ?g] =>
          pose proof (iter_rl_mono g n i rl) as Hit; destruct (iter_rl n i rl g) as [ps rl'] end.
        cbn [snd] in *. apply Hit; [|assumption]. intros j rl0 H0.
        pose proof (ptrlist_at_charge c (fx_upgrade fx) m rl0 p j H0) as [Hc _].
        destruct (ptrlist_at c (fx_upgrade fx) m rl0 p j) as [q rl1]. cbn [snd] in Hc.
        specialize (IH rl1 q ltac:(lia)). lia. }
      destruct (_ =? 0); [cbn; lia|]. destruct (collect _ _ _); cbn; lia.
    + cbn; lia.
Qed.

(* ------------------------------------------------------------------ op lists *)
(* the read size handed out by one op: Root / Struct.Ptr / PointerList.At that succeeded *)
Definition handed (o : op) (v : oval) : Z :=
  match o, v with
  | ORoot, VPtr (Ok p) | OSPtr _ _, VPtr (Ok p) | OPLAt _ _, VPtr (Ok p) => readSize p
  | _, _ => 0
  end.

Fixpoint handed_sum (ops : list op) (vs : list oval) : Z :=
  match ops, vs with
  | o :: ops', v :: vs' => handed o v + handed_sum ops' vs'
  | _, _ => 0
  end.

Lemma step_charge c fx m st o : 0 <= rs_rl st ->
  0 <= rs_rl (fst (step c fx m st o)) /\
  rs_rl (fst (step c fx m st o)) + handed o (snd (step c fx m st o)) <= rs_rl st.
Proof.
  intros Hr. destruct o; cbn [step]; try (cbn [fst snd handed push rs_rl]; lia).
  - pose proof (root_charge c m (rs_rl st) Hr) as [H1 H2].
    destruct (root c m (rs_rl st)) as [r rl]. cbn [fst snd push rs_rl handed] in *.
    destruct r; lia.
  - pose proof (struct_ptr_charge c m (rs_rl st) (as_struct (handle st h)) i Hr) as [H1 H2].
    destruct (struct_ptr _ _ _ _ _) as [r rl]. cbn [fst snd push rs_rl handed] in *.
    destruct r; lia.
  - pose proof (ptrlist_at_charge c (fx_upgrade fx) m (rs_rl st) (as_list (handle st h)) i Hr) as [H1 H2].
    destruct (ptrlist_at _ _ _ _ _ _) as [r rl]. cbn [fst snd push rs_rl handed] in *.
    destruct r; lia.
  - pose proof (walk_rl_mono c fx m dcap pcap (Z.to_nat fuel) (rs_rl st) (Ok (handle st h)) Hr) as H.
    destruct (walk _ _ _ _ _ _ _ _) as [t rl]. cbn [fst snd rs_rl handed] in *. lia.
Qed.

Lemma run_charge c fx m : forall ops st, 0 <= rs_rl st ->
  0 <= rs_rl (fst (run c fx m st ops)) /\
  rs_rl (fst (run c fx m st ops)) + handed_sum ops (snd (run c fx m st ops)) <= rs_rl st.
Proof.
  induction ops as [|o ops IH]; intros st Hr; cbn [run].
  - cbn. lia.
  - pose proof (step_charge c fx m st o Hr) as [H1 H2].
    destruct (step c fx m st o) as [st1 v]. cbn [fst snd] in *.
    specialize (IH st1 H1). destruct (run c fx m st1 ops) as [st2 vs]. cbn [fst snd handed_sum] in *. lia.
Qed.

Lemma run_app c fx m : forall a b st,
  run c fx m st (a ++ b) =
  (fst (run c fx m (fst (run c fx m st a)) b), snd (run c fx m st a) ++ snd (run c fx m (fst (run c fx m st a)) b)).
Proof.
  induction a as [|o a IH]; intros b st; cbn [run app].
  - cbn. destruct (run c fx m st b). reflexivity.
  - destruct (step c fx m st o) as [st1 v]. rewrite IH.
    destruct (run c fx m st1 a) as [st2 vs]. cbn [fst snd]. reflexivity.
Qed.

Lemma init_rlimit_nonneg c : 0 <= cfg_T c -> 0 <= init_rlimit c.
Proof. unfold init_rlimit, defaultTraverseLimit. dif; lia. Qed.

(* traversal_bound_seq: for ANY op list (any arguments) on ANY message:
   (1) the budget never goes negative and never increases along the run,
   (2) initial budget - final budget >= the sum of the read sizes of all pointers handed out,
       hence that sum is at most the configured limit,
   (3) a refused request leaves the budget at 0 (readPtr_limit_spec), after which every
       request of positive size is refused. *)
Theorem traversal_bound_seq c fx m ops : 0 <= cfg_T c ->
  let st := fst (run c fx m (init_state c) ops) in
  let vs := run_ops c fx m ops in
  0 <= rs_rl st /\
  handed_sum ops vs <= init_rlimit c - rs_rl st /\
  handed_sum ops vs <= init_rlimit c /\
  (forall ops1 ops2, ops = ops1 ++ ops2 -> rs_rl st <= rs_rl (fst (run c fx m (init_state c) ops1))).
Proof.
  intros HT st vs. pose proof (init_rlimit_nonneg c HT) as H0.
  pose proof (run_charge c fx m ops (init_state c) H0) as [H1 H2].
  fold st in H1, H2. unfold run_ops in vs. fold (init_state c) in vs. fold vs in H2. cbn [init_state rs_rl] in H2.
  repeat split; try lia.
  intros ops1 ops2 ->. subst st. rewrite run_app. cbn [fst].
  pose proof (run_charge c fx m ops1 (init_state c) H0) as [G1 _].
  pose proof (run_charge c fx m ops2 _ G1) as [G2 G3].
  assert (0 <= handed_sum ops2 (snd (run c fx m (fst (run c fx m (init_state c) ops1)) ops2))) as G4.
  { clear. generalize (snd (run c fx m (fst (run c fx m (init_state c) ops1)) ops2)).
    induction ops2 as [|o r IH]; intros [|v vs]; cbn [handed_sum]; try lia.
    specialize (IH vs). assert (0 <= handed o v); [|lia].
    unfold handed. destruct o; try lia; destruct v; try lia; destruct r0; try lia; apply readSize_nonneg. }
  lia.
Qed.

(* once the budget is 0 every dereference of an object of positive read size is refused *)
Lemma refused_at_zero strict m sid s paddr depth sz :
  readPtr_request strict m sid s paddr depth = Some sz -> 0 < sz ->
  readPtr strict m 0 sid s paddr depth = (Err, 0).
Proof.
  intros H Hs. pose proof (readPtr_limit_spec strict m 0 sid s paddr depth) as G. rewrite H in G.
  destruct (0 >=? sz) eqn:E; [lia|exact G].
Qed.
