(* C02, sequential part: the traversal limit bounds the total size handed out by pointer
   dereferences; the depth limit bounds the number of successful dereferences on any access
   path; the generic walker is bounded by both. *)
From CV Require Export Core.SafetyProofs.
From Coq Require Import ZifyBool.
Open Scope Z_scope.
Ltac Zify.zify_post_hook ::= Z.div_mod_to_equations.

(* ------------------------------------------------------------------ read sizes *)
(* what readPtr charges for the pointer it hands out: a struct's total size; for a list
   element size x length, a zero-sized element being charged one word; nothing for a
   capability or null *)
Definition readSize (p : Ptr) : Z :=
  match p_kind p with
  | KStruct => struct_readSize p
  | KList => list_readSize p
  | KIface => 0
  end.

Lemma struct_readSize_nonneg p : 0 <= struct_readSize p.
Proof. unfold struct_readSize. destruct (p_valid p); [apply totalSize_nonneg|lia]. Qed.
Lemma list_readSize_nonneg p : 0 <= list_readSize p.
Proof.
  unfold list_readSize. destruct (p_valid p); [|lia]. cbv zeta.
  destruct (times _ _) as [sz|] eqn:E; [|unfold maxSegmentSize; lia].
  apply times_spec in E. lia.
Qed.
Lemma readSize_nonneg p : 0 <= readSize p.
Proof. unfold readSize. destruct (p_kind p); [apply struct_readSize_nonneg|apply list_readSize_nonneg|lia]. Qed.
Lemma readSize_null : readSize nullPtr = 0.
Proof. reflexivity. Qed.

Lemma canRead_spec rl sz ok rl' : 0 <= rl -> 0 <= sz -> canRead rl sz = (ok, rl') ->
  0 <= rl' <= rl /\ (ok = true -> rl' = rl - sz) /\ (ok = false -> rl' = 0 /\ rl < sz).
Proof.
  unfold canRead. intros Hr Hs. destruct (rl >=? sz) eqn:E; intros H; inversion H; subst.
  - split; [lia|]. split; [reflexivity|discriminate].
  - split; [lia|]. split; [discriminate|]. intros _. lia.
Qed.

Lemma readStructPtr_valid sid s base val sp : readStructPtr sid s base val = Ok sp ->
  p_valid sp = true /\ p_kind sp = KStruct.
Proof.
  unfold readStructPtr. destruct (element _ _ _); [|discriminate]. cbv zeta.
  dif; [discriminate|]. intros H. inversion H. split; reflexivity.
Qed.
Lemma readListPtr_valid strict sid s base val lp : readListPtr strict sid s base val = Ok lp ->
  p_valid lp = true /\ p_kind lp = KList.
Proof.
  unfold readListPtr. destruct (element _ _ _); [|discriminate].
  destruct (totalListSize val) as [[lsize|]|]; try discriminate.
  dif; [discriminate|]. cbv zeta. dif.
  - destruct (readRawPointer s z); cbn [bind]; try discriminate.
    destruct (addSize z 8); [|discriminate]. dif; [discriminate|]. dif; [discriminate|].
    destruct (times _ _); [|discriminate]. dif; [discriminate|].
    intros H. inversion H. split; reflexivity.
  - dif.
    + intros H. inversion H. split; reflexivity.
    + destruct (elementSize val); [|discriminate]. intros H. inversion H. split; reflexivity.
Qed.

(* ------------------------------------------------------------------ readPtr accounting *)
(* the size readPtr asks Message.canRead for (None: canRead is not reached) *)
Definition readPtr_request (strict : bool) (m : segs) (sid : Z) (s : seg) (paddr depth : Z) : option Z :=
  match resolveFarPointer m sid s paddr with
  | Ok (dsid, dst, base, val) =>
    if val =? 0 then None else if depth =? 0 then None else
    if pointerType val =? structPointer then
      match readStructPtr dsid dst base val with Ok sp => Some (struct_readSize sp) | _ => None end
    else if pointerType val =? listPointer then
      match readListPtr strict dsid dst base val with Ok lp => Some (list_readSize lp) | _ => None end
    else None
  | _ => None
  end.

Lemma readPtr_request_nonneg strict m sid s paddr depth sz :
  readPtr_request strict m sid s paddr depth = Some sz -> 0 <= sz.
Proof.
  unfold readPtr_request. destruct (resolveFarPointer _ _ _ _) as [[[[dsid dst] base] val]| |]; try discriminate.
  dif; [discriminate|]. dif; [discriminate|]. dif.
  - destruct (readStructPtr _ _ _ _); try discriminate. intros H. inversion H. apply struct_readSize_nonneg.
  - dif; [|discriminate]. destruct (readListPtr _ _ _ _ _); try discriminate.
    intros H. inversion H. apply list_readSize_nonneg.
Qed.

(* exact accounting of one readPtr: the budget is untouched when canRead is not reached;
   a granted request is subtracted and the object handed out has exactly that read size;
   a refused request zeroes the budget and yields an error *)
Lemma readPtr_limit_spec strict m rl sid s paddr depth :
  match readPtr_request strict m sid s paddr depth with
  | None => snd (readPtr strict m rl sid s paddr depth) = rl /\
            (forall p, fst (readPtr strict m rl sid s paddr depth) = Ok p -> readSize p = 0)
  | Some sz =>
      if rl >=? sz
      then snd (readPtr strict m rl sid s paddr depth) = rl - sz /\
           exists p, fst (readPtr strict m rl sid s paddr depth) = Ok p /\ p_valid p = true /\ readSize p = sz
      else readPtr strict m rl sid s paddr depth = (Err, 0)
  end.
Proof.
  unfold readPtr_request, readPtr.
  destruct (resolveFarPointer _ _ _ _) as [[[[dsid dst] base] val]| |];
    try (split; [reflexivity|discriminate]).
  destruct (val =? 0); [split; [reflexivity|]; cbn [fst]; intros p H; inversion H; reflexivity|].
  destruct (depth =? 0); [split; [reflexivity|discriminate]|]. cbv zeta.
  destruct (pointerType val =? structPointer).
  { destruct (readStructPtr dsid dst base val) as [sp| |] eqn:E; try (split; [reflexivity|discriminate]).
    apply readStructPtr_valid in E. destruct E as [V K].
    unfold canRead. destruct (rl >=? struct_readSize sp); [|reflexivity].
    split; [reflexivity|]. eexists. split; [reflexivity|]. split; [reflexivity|].
    unfold readSize, struct_readSize. pcbn. rewrite V. reflexivity. }
  destruct (pointerType val =? listPointer).
  { destruct (readListPtr strict dsid dst base val) as [lp| |] eqn:E; try (split; [reflexivity|discriminate]).
    apply readListPtr_valid in E. destruct E as [V K].
    unfold canRead. destruct (rl >=? list_readSize lp); [|reflexivity].
    split; [reflexivity|]. eexists. split; [reflexivity|]. split; [reflexivity|].
    unfold readSize, list_readSize. pcbn. rewrite V. reflexivity. }
  destruct (pointerType val =? otherPointer); [|split; [reflexivity|discriminate]].
  destruct (otherPointerType val =? 0); cbn [negb]; [|split; [reflexivity|discriminate]].
  split; [reflexivity|]. cbn [fst]. intros p H. inversion H. reflexivity.
Qed.

(* consequence used everywhere below *)
Lemma readPtr_charge strict m rl sid s paddr depth : 0 <= rl ->
  0 <= snd (readPtr strict m rl sid s paddr depth) <= rl /\
  match fst (readPtr strict m rl sid s paddr depth) with
  | Ok p => snd (readPtr strict m rl sid s paddr depth) + readSize p = rl
  | _ => True
  end.
Proof.
  intros Hr. pose proof (readPtr_limit_spec strict m rl sid s paddr depth) as H.
  destruct (readPtr_request strict m sid s paddr depth) as [sz|] eqn:Eq.
  - apply readPtr_request_nonneg in Eq. destruct (rl >=? sz) eqn:E.
    + destruct H as [H1 (p & H2 & _ & H3)]. rewrite H1, H2. split; lia.
    + rewrite H. cbn [fst snd]. split; [lia|exact I].
  - destruct H as [H1 H2]. rewrite H1. split; [lia|].
    destruct (fst (readPtr strict m rl sid s paddr depth)) eqn:E; try exact I.
    rewrite (H2 a eq_refl). lia.
Qed.
