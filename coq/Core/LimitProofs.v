(* C02, sequential part: the traversal limit bounds the total size handed out by pointer
   dereferences; the depth limit bounds the number of successful dereferences on any access
   path; the generic walker is bounded by both. *)
From CV Require Export Core.SafetyProofs.
From Coq Require Import ZifyBool.
Open Scope Z_scope.
Ltac Zify.zify_post_hook ::= Z.div_mod_to_equations.

(* ------------------------------------------------------------------ read sizes *)
(* what readPtr charges for the pointer it hands out: a struct's total size; for a list
   element size x length, a zero-sized element being charged one word; nothing for a
   capability or null *)
Definition readSize (p : Ptr) : Z :=
  match p_kind p with
  | KStruct => struct_readSize p
  | KList => list_readSize p
  | KIface => 0
  end.

Lemma struct_readSize_nonneg p : 0 <= struct_readSize p.
Proof. unfold struct_readSize. destruct (p_valid p); [apply totalSize_nonneg|lia]. Qed.
Lemma list_readSize_nonneg p : 0 <= list_readSize p.
Proof.
  unfold list_readSize. destruct (p_valid p); [|lia]. cbv zeta.
  destruct (times _ _) as [sz|] eqn:E; [|unfold maxSegmentSize; lia].
  apply times_spec in E. lia.
Qed.
Lemma readSize_nonneg p : 0 <= readSize p.
Proof. unfold readSize. destruct (p_kind p); [apply struct_readSize_nonneg|apply list_readSize_nonneg|lia]. Qed.
Lemma readSize_null : readSize nullPtr = 0.
Proof. reflexivity. Qed.

Lemma canRead_spec rl sz ok rl' : 0 <= rl -> 0 <= sz -> canRead rl sz = (ok, rl') ->
  0 <= rl' <= rl /\ (ok = true -> rl' = rl - sz) /\ (ok = false -> rl' = 0 /\ rl < sz).
Proof.
  unfold canRead. intros Hr Hs. destruct (rl >=? sz) eqn:E; intros H; inversion H; subst.
  - split; [lia|]. split; [reflexivity|discriminate].
  - split; [lia|]. split; [discriminate|]. intros _. lia.
Qed.

Lemma readStructPtr_valid sid s base val sp : readStructPtr sid s base val = Ok sp ->
  p_valid sp = true /\ p_kind sp = KStruct.
Proof.
  unfold readStructPtr. destruct (element _ _ _); [|discriminate]. cbv zeta.
  dif; [discriminate|]. intros H. inversion H. split; reflexivity.
Qed.
Lemma readListPtr_valid strict sid s base val lp : readListPtr strict sid s base val = Ok lp ->
  p_valid lp = true /\ p_kind lp = KList.
Proof.
  unfold readListPtr. destruct (element _ _ _); [|discriminate].
  destruct (totalListSize val) as [[lsize|]|]; try discriminate.
  dif; [discriminate|]. cbv zeta. dif.
  - destruct (readRawPointer s z); cbn [bind]; try discriminate.
    destruct (addSize z 8); [|discriminate]. dif; [discriminate|]. dif; [discriminate|].
    destruct (times _ _); [|discriminate]. dif; [discriminate|].
    intros H. inversion H. split; reflexivity.
  - dif.
    + intros H. inversion H. split; reflexivity.
    + destruct (elementSize val); [|discriminate]. intros H. inversion H. split; reflexivity.
Qed.

(* ------------------------------------------------------------------ readPtr accounting *)
(* the size readPtr asks Message.canRead for (None: canRead is not reached) *)
Definition readPtr_request (strict : bool) (m : segs) (sid : Z) (s : seg) (paddr depth : Z) : option Z :=
  match resolveFarPointer strict m sid s paddr with
  | Ok (dsid, dst, base, val) =>
    if val =? 0 then None else if depth =? 0 then None else
    if pointerType val =? structPointer then
      match readStructPtr dsid dst base val with Ok sp => Some (struct_readSize sp) | _ => None end
    else if pointerType val =? listPointer then
      match readListPtr strict dsid dst base val with Ok lp => Some (list_readSize lp) | _ => None end
    else None
  | _ => None
  end.

Lemma readPtr_request_nonneg strict m sid s paddr depth sz :
  readPtr_request strict m sid s paddr depth = Some sz -> 0 <= sz.
Proof.
  unfold readPtr_request. destruct (resolveFarPointer _ _ _ _) as [[[[dsid dst] base] val]| |]; try discriminate.
  dif; [discriminate|]. dif; [discriminate|]. dif.
  - destruct (readStructPtr _ _ _ _); try discriminate. intros H. inversion H. apply struct_readSize_nonneg.
  - dif; [|discriminate]. destruct (readListPtr _ _ _ _ _); try discriminate.
    intros H. inversion H. apply list_readSize_nonneg.
Qed.

(* exact accounting of one readPtr: the budget is untouched when canRead is not reached;
   a granted request is subtracted and the object handed out has exactly that read size;
   a refused request zeroes the budget and yields an error *)
Lemma readPtr_limit_spec strict m rl sid s paddr depth :
  match readPtr_request strict m sid s paddr depth with
  | None => snd (readPtr strict m rl sid s paddr depth) = rl /\
            (forall p, fst (readPtr strict m rl sid s paddr depth) = Ok p -> readSize p = 0)
  | Some sz =>
      if rl >=? sz
      then snd (readPtr strict m rl sid s paddr depth) = rl - sz /\
           exists p, fst (readPtr strict m rl sid s paddr depth) = Ok p /\ p_valid p = true /\ readSize p = sz
      else readPtr strict m rl sid s paddr depth = (Err, 0)
  end.
Proof.
  unfold readPtr_request, readPtr.
  destruct (resolveFarPointer _ _ _ _) as [[[[dsid dst] base] val]| |];
    try (split; [reflexivity|discriminate]).
  destruct (val =? 0); [split; [reflexivity|]; cbn [fst]; intros p H; inversion H; reflexivity|].
  destruct (depth =? 0); [split; [reflexivity|discriminate]|]. cbv zeta.
  destruct (pointerType val =? structPointer).
  { destruct (readStructPtr dsid dst base val) as [sp| |] eqn:E; try (split; [reflexivity|discriminate]).
    apply readStructPtr_valid in E. destruct E as [V K].
    unfold canRead. destruct (rl >=? struct_readSize sp); [|reflexivity].
    split; [reflexivity|]. eexists. split; [reflexivity|]. split; [reflexivity|].
    unfold readSize, struct_readSize. pcbn. rewrite V. reflexivity. }
  destruct (pointerType val =? listPointer).
  { destruct (readListPtr strict dsid dst base val) as [lp| |] eqn:E; try (split; [reflexivity|discriminate]).
    apply readListPtr_valid in E. destruct E as [V K].
    unfold canRead. destruct (rl >=? list_readSize lp); [|reflexivity].
    split; [reflexivity|]. eexists. split; [reflexivity|]. split; [reflexivity|].
    unfold readSize, list_readSize. pcbn. rewrite V. reflexivity. }
  destruct (pointerType val =? otherPointer); [|split; [reflexivity|discriminate]].
  destruct (otherPointerType val =? 0); cbn [negb]; [|split; [reflexivity|discriminate]].
  split; [reflexivity|]. cbn [fst]. intros p H. inversion H. reflexivity.
Qed.

(* consequence used everywhere below *)
Lemma readPtr_charge strict m rl sid s paddr depth : 0 <= rl ->
  0 <= snd (readPtr strict m rl sid s paddr depth) <= rl /\
  match fst (readPtr strict m rl sid s paddr depth) with
  | Ok p => snd (readPtr strict m rl sid s paddr depth) + readSize p = rl
  | _ => True
  end.
Proof.
  intros Hr. pose proof (readPtr_limit_spec strict m rl sid s paddr depth) as H.
  destruct (readPtr_request strict m sid s paddr depth) as [sz|] eqn:Eq.
  - apply readPtr_request_nonneg in Eq. destruct (rl >=? sz) eqn:E.
    + destruct H as [H1 (p & H2 & _ & H3)]. rewrite H1, H2. split; lia.
    + rewrite H. cbn [fst snd]. split; [lia|exact I].
  - destruct H as [H1 H2]. rewrite H1. split; [lia|].
    destruct (fst (readPtr strict m rl sid s paddr depth)) eqn:E; try exact I.
    rewrite (H2 a eq_refl). lia.
Qed.

(* a result and remaining budget that respect the accounting, starting from budget rl *)
Definition charged (rl : Z) (x : res Ptr * Z) : Prop :=
  0 <= snd x <= rl /\ match fst x with Ok p => snd x + readSize p = rl | _ => True end.

Lemma struct_ptr_charge c m rl p i : 0 <= rl -> charged rl (struct_ptr c m rl p i).
Proof.
  intros Hr. unfold struct_ptr, charged. dif.
  - cbn [fst snd]. rewrite readSize_null. lia.
  - apply readPtr_charge. assumption.
Qed.
Lemma ptrlist_at_charge c fu m rl p i : 0 <= rl -> charged rl (ptrlist_at c fu m rl p i).
Proof.
  intros Hr. unfold ptrlist_at, charged. destruct (primitiveElem _ _ _ _).
  - apply readPtr_charge. assumption.
  - cbn [fst snd]. lia.
  - cbn [fst snd]. lia.
Qed.
Lemma root_charge c m rl : 0 <= rl -> charged rl (root c m rl).
Proof.
  intros Hr. unfold root, charged. destruct (lookup_segment m 0); try (cbn [fst snd]; lia).
  dif.
  - cbn [fst snd]. destruct (cfg_root c); lia.
  - apply readPtr_charge. assumption.
Qed.

(* ------------------------------------------------------------------ the walker threads the budget *)
Lemma iter_rl_mono {A} (f : Z -> Z -> A * Z) : forall n i rl,
  (forall j rl0, 0 <= rl0 -> 0 <= snd (f j rl0) <= rl0) -> 0 <= rl ->
  0 <= snd (iter_rl n i rl f) <= rl.
Proof.
  induction n as [|n IH]; intros i rl H Hr; cbn [iter_rl]; [cbn; lia|].
  pose proof (H i rl Hr) as H1. destruct (f i rl) as [a rl1]. cbn [snd] in H1.
  specialize (IH (i + 1) rl1 H ltac:(lia)).
  destruct (iter_rl n (i + 1) rl1 f) as [r rl2]. cbn [snd] in *. lia.
Qed.

Lemma walk_rl_mono c fx m dcap pcap : forall fuel rl r, 0 <= rl ->
  0 <= snd (walk c fx m dcap pcap fuel rl r) <= rl.
Proof.
  induction fuel as [|f IH]; intros rl r Hr.
  - destruct r as [p| |]; cbn [walk]; [destruct (p_valid p)|..]; cbn; lia.
  - destruct r as [p| |]; cbn [walk]; [|cbn; lia|cbn; lia].
    destruct (p_valid p); cbn [negb]; [|cbn; lia].
    destruct (p_kind p).
    + destruct (collect _ _ _); [|cbn; lia|cbn; lia].
      match goal with |- context [iter_rl ?n ?i ?rl ?g] =>
        pose proof (iter_rl_mono g n i rl) as Hit; destruct (iter_rl n i rl g) as [ps rl'] end.
      cbn [snd] in *. apply Hit; [|assumption]. intros j rl0 H0.
      pose proof (struct_ptr_charge c m rl0 p j H0) as [Hc _].
      destruct (struct_ptr c m rl0 p j) as [q rl1]. cbn [snd] in Hc.
      specialize (IH rl1 q ltac:(lia)). lia.
    + cbv zeta. destruct (p_bit p); [destruct (collect _ _ _); cbn; lia|].
      destruct (p_comp p).
      { match goal with |- context [iter_rl ?n ?i ?rl ?g] =>
          pose proof (iter_rl_mono g n i rl) as Hit; destruct (iter_rl n i rl g) as [ps rl'] end.
        cbn [snd] in *. apply Hit; [|assumption]. intros j rl0 H0. apply IH. assumption. }
      destruct (0 <? PointerCount (p_size p)).
      { match goal with |- context [iter_rl ?n ?i ?rl ?g] =>
          pose proof (iter_rl_mono g n i rl) as Hit; destruct (iter_rl n i rl g) as [ps rl'] end.
        cbn [snd] in *. apply Hit; [|assumption]. intros j rl0 H0.
        pose proof (ptrlist_at_charge c (fx_upgrade fx) m rl0 p j H0) as [Hc _].
        destruct (ptrlist_at c (fx_upgrade fx) m rl0 p j) as [q rl1]. cbn [snd] in Hc.
        specialize (IH rl1 q ltac:(lia)). lia. }
      destruct (_ =? 0); [cbn; lia|]. destruct (collect _ _ _); cbn; lia.
    + cbn; lia.
Qed.

(* ------------------------------------------------------------------ op lists *)
(* the read size handed out by one op: Root / Struct.Ptr / PointerList.At that succeeded *)
Definition handed (o : op) (v : oval) : Z :=
  match o, v with
  | ORoot, VPtr (Ok p) | OSPtr _ _, VPtr (Ok p) | OPLAt _ _, VPtr (Ok p) => readSize p
  | _, _ => 0
  end.

Fixpoint handed_sum (ops : list op) (vs : list oval) : Z :=
  match ops, vs with
  | o :: ops', v :: vs' => handed o v + handed_sum ops' vs'
  | _, _ => 0
  end.

(* Message.Reset re-arms the budget: the accounting below is per incarnation of the message
   (between two resets) *)
Definition is_reset (o : op) : bool :=
  match o with OReset _ | OResetLimit _ | OUnread _ => true | _ => false end.   (* ops that re-arm or raise the budget *)
Definition no_reset (ops : list op) : bool := forallb (fun o => negb (is_reset o)) ops.

Lemma step_charge c fx m st o : 0 <= rs_rl st -> is_reset o = false ->
  0 <= rs_rl (fst (step c fx m st o)) /\
  rs_rl (fst (step c fx m st o)) + handed o (snd (step c fx m st o)) <= rs_rl st.
Proof.
  intros Hr Hnr. destruct o; try discriminate Hnr; cbn [step]; try (cbn [fst snd handed push rs_rl]; lia).
  - pose proof (root_charge c m (rs_rl st) Hr) as [H1 H2].
    destruct (root c m (rs_rl st)) as [r rl]. cbn [fst snd push rs_rl handed] in *.
    destruct r; lia.
  - pose proof (struct_ptr_charge c m (rs_rl st) (as_struct (handle st h)) i Hr) as [H1 H2].
    destruct (struct_ptr _ _ _ _ _) as [r rl]. cbn [fst snd push rs_rl handed] in *.
    destruct r; lia.
  - pose proof (ptrlist_at_charge c (fx_upgrade fx) m (rs_rl st) (as_list (handle st h)) i Hr) as [H1 H2].
    destruct (ptrlist_at _ _ _ _ _ _) as [r rl]. cbn [fst snd push rs_rl handed] in *.
    destruct r; lia.
  - pose proof (walk_rl_mono c fx m dcap pcap (Z.to_nat fuel) (rs_rl st) (Ok (handle st h)) Hr) as H.
    destruct (walk _ _ _ _ _ _ _ _) as [t rl]. cbn [fst snd rs_rl handed] in *. lia.
Qed.

Lemma run_charge c fx m : forall ops st, 0 <= rs_rl st -> no_reset ops = true ->
  0 <= rs_rl (fst (run c fx m st ops)) /\
  rs_rl (fst (run c fx m st ops)) + handed_sum ops (snd (run c fx m st ops)) <= rs_rl st.
Proof.
  induction ops as [|o ops IH]; intros st Hr Hn; cbn [run].
  - cbn. lia.
  - cbn [no_reset forallb] in Hn. apply andb_prop in Hn. destruct Hn as [Hn1 Hn2].
    pose proof (step_charge c fx m st o Hr ltac:(destruct (is_reset o); [discriminate|reflexivity])) as [H1 H2].
    destruct (step c fx m st o) as [st1 v]. cbn [fst snd] in *.
    specialize (IH st1 H1 Hn2). destruct (run c fx m st1 ops) as [st2 vs]. cbn [fst snd handed_sum] in *. lia.
Qed.

Lemma run_app c fx m : forall a b st,
  run c fx m st (a ++ b) =
  (fst (run c fx m (fst (run c fx m st a)) b), snd (run c fx m st a) ++ snd (run c fx m (fst (run c fx m st a)) b)).
Proof.
  induction a as [|o a IH]; intros b st; cbn [run app].
  - cbn. destruct (run c fx m st b). reflexivity.
  - destruct (step c fx m st o) as [st1 v]. rewrite IH.
    destruct (run c fx m st1 a) as [st2 vs]. cbn [fst snd]. reflexivity.
Qed.

Lemma init_rlimit_nonneg c : 0 <= cfg_T c -> 0 <= init_rlimit c.
Proof. unfold init_rlimit, defaultTraverseLimit. dif; lia. Qed.

(* traversal_bound_seq: for ANY op list (any arguments) on ANY message:
   (1) the budget never goes negative and never increases along the run,
   (2) initial budget - final budget >= the sum of the read sizes of all pointers handed out,
       hence that sum is at most the configured limit,
   (3) a refused request leaves the budget at 0 (readPtr_limit_spec), after which every
       request of positive size is refused. *)
Lemma no_reset_app a b : no_reset (a ++ b) = true -> no_reset a = true /\ no_reset b = true.
Proof. unfold no_reset. rewrite forallb_app. apply andb_prop. Qed.

Theorem traversal_bound_seq c fx m ops : 0 <= cfg_T c -> no_reset ops = true ->
  let st := fst (run c fx m (init_state c) ops) in
  let vs := run_ops c fx m ops in
  0 <= rs_rl st /\
  handed_sum ops vs <= init_rlimit c - rs_rl st /\
  handed_sum ops vs <= init_rlimit c /\
  (forall ops1 ops2, ops = ops1 ++ ops2 -> rs_rl st <= rs_rl (fst (run c fx m (init_state c) ops1))).
Proof.
  intros HT Hnr st vs. pose proof (init_rlimit_nonneg c HT) as H0.
  pose proof (run_charge c fx m ops (init_state c) H0 Hnr) as [H1 H2].
  fold st in H1, H2. unfold run_ops in vs. fold (init_state c) in vs. fold vs in H2. cbn [init_state rs_rl] in H2.
  repeat split; try lia.
  intros ops1 ops2 ->. subst st. rewrite run_app. cbn [fst]. destruct (no_reset_app _ _ Hnr) as [Hn1 Hn2].
  pose proof (run_charge c fx m ops1 (init_state c) H0 Hn1) as [G1 _].
  pose proof (run_charge c fx m ops2 _ G1 Hn2) as [G2 G3].
  assert (0 <= handed_sum ops2 (snd (run c fx m (fst (run c fx m (init_state c) ops1)) ops2))) as G4.
  { clear. generalize (snd (run c fx m (fst (run c fx m (init_state c) ops1)) ops2)).
    induction ops2 as [|o r IH]; intros [|v vs]; cbn [handed_sum]; try lia.
    specialize (IH vs). assert (0 <= handed o v); [|lia].
    unfold handed. destruct o; try lia; destruct v; try lia; destruct r0; try lia; apply readSize_nonneg. }
  lia.
Qed.

(* once the budget is 0 every dereference of an object of positive read size is refused *)
Lemma refused_at_zero strict m sid s paddr depth sz :
  readPtr_request strict m sid s paddr depth = Some sz -> 0 < sz ->
  readPtr strict m 0 sid s paddr depth = (Err, 0).
Proof.
  intros H Hs. pose proof (readPtr_limit_spec strict m 0 sid s paddr depth) as G. rewrite H in G.
  destruct (0 >=? sz) eqn:E; [lia|exact G].
Qed.

(* exact form: every step other than a walk either leaves budget + handed-out size unchanged,
   or is a refused dereference: an error, and the budget is 0 from then on *)
Definition exact_or_refused (rl : Z) (x : res Ptr * Z) : Prop :=
  (snd x + match fst x with Ok p => readSize p | _ => 0 end = rl) \/ x = (Err, 0).

Lemma readPtr_exact strict m rl sid s paddr depth :
  exact_or_refused rl (readPtr strict m rl sid s paddr depth).
Proof.
  unfold exact_or_refused. pose proof (readPtr_limit_spec strict m rl sid s paddr depth) as H.
  destruct (readPtr_request strict m sid s paddr depth) as [sz|].
  - destruct (rl >=? sz); [|right; exact H]. destruct H as [H1 (p & H2 & _ & H3)]. left. rewrite H1, H2. lia.
  - destruct H as [H1 H2]. left. rewrite H1.
    destruct (fst (readPtr strict m rl sid s paddr depth)) eqn:E; [|lia|lia]. rewrite (H2 a eq_refl). lia.
Qed.

Lemma step_exact c fx m st o : (forall h dcap pcap fuel, o <> OWalk h dcap pcap fuel) -> is_reset o = false ->
  rs_rl (fst (step c fx m st o)) + handed o (snd (step c fx m st o)) = rs_rl st \/
  (rs_rl (fst (step c fx m st o)) = 0 /\ snd (step c fx m st o) = VPtr Err).
Proof.
  intros Hnw Hnr. destruct o; try discriminate Hnr; cbn [step]; try (left; cbn [fst snd handed push rs_rl]; lia).
  - assert (exact_or_refused (rs_rl st) (root c m (rs_rl st))) as H.
    { unfold root. destruct (lookup_segment m 0); try (left; cbn; lia).
      dif; [left; cbn [fst snd]; destruct (cfg_root c); lia|apply readPtr_exact]. }
    destruct (root c m (rs_rl st)) as [r rl]. destruct H as [H|H]; cbn [fst snd push rs_rl handed] in *.
    + left. destruct r; lia.
    + right. inversion H. auto.
  - assert (exact_or_refused (rs_rl st) (struct_ptr c m (rs_rl st) (as_struct (handle st h)) i)) as H.
    { unfold struct_ptr. dif; [left; cbn [fst snd]; rewrite readSize_null; lia|apply readPtr_exact]. }
    destruct (struct_ptr _ _ _ _ _) as [r rl]. destruct H as [H|H]; cbn [fst snd push rs_rl handed] in *.
    + left. destruct r; lia.
    + right. inversion H. auto.
  - assert (exact_or_refused (rs_rl st) (ptrlist_at c (fx_upgrade fx) m (rs_rl st) (as_list (handle st h)) i)) as H.
    { unfold ptrlist_at. destruct (primitiveElem _ _ _ _); [apply readPtr_exact|left; cbn; lia|left; cbn; lia]. }
    destruct (ptrlist_at _ _ _ _ _ _) as [r rl]. destruct H as [H|H]; cbn [fst snd push rs_rl handed] in *.
    + left. destruct r; lia.
    + right. inversion H. auto.
  - exfalso. eapply Hnw. reflexivity.
Qed.

(* ------------------------------------------------------------------ depth *)
Definition two64m := 18446744073709551616.

Lemma uint_dec_spec d : 1 <= d -> 0 <= uint_dec d <= d - 1.
Proof. unfold uint_dec, u64. lia. Qed.

(* a valid pointer handed out by readPtr has strictly less depth budget than was passed in,
   and readPtr hands out nothing valid at depth budget 0 *)
Lemma readPtr_depth strict m rl sid s paddr depth q : 0 <= depth ->
  fst (readPtr strict m rl sid s paddr depth) = Ok q -> p_valid q = true ->
  1 <= depth /\ 0 <= p_depth q <= depth - 1.
Proof.
  intros Hd. unfold readPtr.
  destruct (resolveFarPointer _ _ _ _) as [[[[dsid dst] base] val]| |]; try discriminate.
  destruct (val =? 0); [cbn [fst]; intros H; inversion H; discriminate|].
  destruct (depth =? 0) eqn:Ed; [discriminate|]. cbv zeta.
  pose proof (uint_dec_spec depth ltac:(lia)) as Hu.
  destruct (pointerType val =? structPointer).
  { destruct (readStructPtr _ _ _ _); try discriminate.
    destruct (canRead _ _) as [ok rl']. destruct ok; [|discriminate].
    cbn [fst]. intros H _. inversion H. pcbn. lia. }
  destruct (pointerType val =? listPointer).
  { destruct (readListPtr _ _ _ _ _); try discriminate.
    destruct (canRead _ _) as [ok rl']. destruct ok; [|discriminate].
    cbn [fst]. intros H _. inversion H. pcbn. lia. }
  destruct (pointerType val =? otherPointer); [|discriminate].
  destruct (otherPointerType val =? 0); cbn [negb]; [|discriminate].
  cbn [fst]. intros H _. inversion H. pcbn. lia.
Qed.

Lemma struct_ptr_depth c m rl p i q : 0 <= p_depth p ->
  fst (struct_ptr c m rl p i) = Ok q -> p_valid q = true ->
  p_valid p = true /\ 1 <= p_depth p /\ 0 <= p_depth q <= p_depth p - 1.
Proof.
  intros Hd. unfold struct_ptr. destruct (p_valid p); cbn [negb orb].
  - dif; [cbn [fst]; intros H; inversion H; discriminate|].
    intros H V. split; [reflexivity|]. eapply readPtr_depth; eassumption.
  - cbn [fst]. intros H; inversion H; discriminate.
Qed.

Lemma ptrlist_at_depth c fu m rl p i q : 0 <= p_depth p ->
  fst (ptrlist_at c fu m rl p i) = Ok q -> p_valid q = true ->
  p_valid p = true /\ 1 <= p_depth p /\ 0 <= p_depth q <= p_depth p - 1.
Proof.
  intros Hd. unfold ptrlist_at. destruct (primitiveElem fu p i _) eqn:E; try discriminate.
  intros H V. split; [|eapply readPtr_depth; eassumption].
  unfold primitiveElem in E. destruct (p_valid p); [reflexivity|discriminate].
Qed.

(* List.Struct (repaired: saturating decrement) never increases the depth budget *)
Lemma list_struct_depth p i q : 0 <= p_depth p ->
  list_struct true p i = Ok q -> p_valid q = true ->
  p_valid p = true /\ 0 <= p_depth q <= p_depth p.
Proof.
  intros Hd. unfold list_struct. destruct (p_valid p); cbn [negb orb]; [|discriminate].
  dif; [discriminate|]. destruct (p_bit p); [intros H; inversion H; discriminate|].
  destruct (element _ _ _); [|intros H; inversion H; discriminate].
  intros H _. inversion H. pcbn. split; [reflexivity|]. cbn [andb].
  destruct (p_depth p =? 0) eqn:E; [lia|]. pose proof (uint_dec_spec (p_depth p) ltac:(lia)). lia.
Qed.

(* ghost: for every handle, the number of successful pointer dereferences (Root's own,
   Struct.Ptr, PointerList.At) on the access path that produced it; List.Struct is a
   projection and does not count.  Only meaningful for valid handles (an invalid handle is
   the result of a failed or null dereference). *)
Definition lvl_of (lv : list Z) (h : Z) : Z := nth (Z.to_nat h) lv 0.
Definition step_lvl (lv : list Z) (o : op) : list Z :=
  match o with
  | ORoot => lv ++ [1]
  | OSPtr h _ | OPLAt h _ => lv ++ [lvl_of lv h + 1]
  | OLStruct h _ => lv ++ [lvl_of lv h]
  | OReset _ => []        (* all handles are dropped *)
  | _ => lv
  end.
Definition run_lvl (ops : list op) : list Z := fold_left step_lvl ops [].

Definition depth_inv (D : Z) (st : rstate) (lv : list Z) : Prop :=
  length lv = length (rs_handles st) /\
  forall h, p_valid (handle st h) = true ->
    1 <= lvl_of lv h /\ 0 <= p_depth (handle st h) /\ p_depth (handle st h) + lvl_of lv h <= D.

Lemma as_struct_valid p : p_valid (as_struct p) = true -> as_struct p = p /\ p_valid p = true.
Proof.
  unfold as_struct, is_struct. destruct (p_valid p) eqn:V; cbn [andb]; [|discriminate].
  destruct (p_kind p); try discriminate. auto.
Qed.
Lemma as_list_valid p : p_valid (as_list p) = true -> as_list p = p /\ p_valid p = true.
Proof.
  unfold as_list, is_list. destruct (p_valid p) eqn:V; cbn [andb]; [|discriminate].
  destruct (p_kind p); try discriminate. auto.
Qed.
Lemma as_struct_depth p : 0 <= p_depth p -> 0 <= p_depth (as_struct p).
Proof. unfold as_struct. destruct (is_struct p); cbn; lia. Qed.

(* pushing a handle: old handles keep their pointer and level *)
Lemma depth_inv_push D st lv r rl l :
  depth_inv D st lv ->
  (forall q, r = Ok q -> p_valid q = true -> 1 <= l /\ 0 <= p_depth q /\ p_depth q + l <= D) ->
  depth_inv D (push st r rl) (lv ++ [l]).
Proof.
  intros [Hlen Hinv] Hnew. split.
  - unfold push. cbn [rs_handles]. rewrite !app_length, Hlen. reflexivity.
  - intros h. unfold handle, push, lvl_of. cbn [rs_handles].
    remember (Z.to_nat h) as n eqn:Hn. clear Hn.
    destruct (Nat.lt_ge_cases n (length lv)) as [L|G].
    + rewrite !app_nth1 by lia. specialize (Hinv (Z.of_nat n)).
      unfold handle, lvl_of in Hinv. rewrite Nat2Z.id in Hinv. exact Hinv.
    + destruct (Nat.eq_dec n (length lv)) as [E|N].
      * subst n. rewrite (nth_middle lv []). rewrite Hlen. rewrite (nth_middle (rs_handles st) []).
        destruct r as [q| |]; try (cbn; discriminate). apply Hnew. reflexivity.
      * rewrite (nth_overflow (rs_handles st ++ _)) by (rewrite app_length; cbn; lia).
        cbn. discriminate.
Qed.

Lemma depth_inv_rl D st lv rl : depth_inv D st lv -> depth_inv D (mkRS (rs_handles st) rl) lv.
Proof. intros H. exact H. Qed.

(* Message.depthLimit(): 0 selects the default (64) *)
Lemma depth_limit_pos c : 0 <= cfg_D c -> 1 <= depth_limit c.
Proof. unfold depth_limit, defaultDepthLimit. dif; lia. Qed.
Lemma depth_limit_spec c : 1 <= cfg_D c -> depth_limit c = cfg_D c.
Proof. unfold depth_limit. dif; lia. Qed.

Lemma step_depth c fx m st lv o : 1 <= depth_limit c -> fx_depth fx = true ->
  depth_inv (depth_limit c) st lv -> depth_inv (depth_limit c) (fst (step c fx m st o)) (step_lvl lv o).
Proof.
  intros HD Hfd Hinv. pose proof Hinv as [Hlen Hh].
  destruct o; cbn [step step_lvl]; try exact Hinv.
  - (* root *)
    destruct (root c m (rs_rl st)) as [r rl] eqn:Er. cbn [fst]. apply depth_inv_push; [assumption|].
    intros q -> V. unfold root in Er. destruct (lookup_segment m 0) as [s0| |]; try (inversion Er; discriminate).
    destruct (negb _); [inversion Er; destruct (cfg_root c); discriminate|].
    pose proof (readPtr_depth (cfg_strict c) m (rs_rl st) 0 s0 0 (depth_limit c) q) as H.
    rewrite Er in H. specialize (H ltac:(lia) eq_refl V). lia.
  - (* Struct.Ptr *)
    destruct (struct_ptr c m (rs_rl st) (as_struct (handle st h)) i) as [r rl] eqn:Er. cbn [fst].
    apply depth_inv_push; [assumption|]. intros q -> V.
    destruct (p_valid (as_struct (handle st h))) eqn:Vp.
    + destruct (as_struct_valid _ Vp) as [Es Vh]. destruct (Hh h Vh) as (L1 & L2 & L3).
      pose proof (struct_ptr_depth c m (rs_rl st) (as_struct (handle st h)) i q) as H.
      rewrite Er, Es in H. specialize (H L2 eq_refl V). lia.
    + unfold struct_ptr in Er. rewrite Vp in Er. cbn [negb orb] in Er. inversion Er; subst. discriminate.
  - (* List.Struct *)
    cbn [fst]. apply depth_inv_push; [assumption|]. intros q Eq V. rewrite Hfd in Eq.
    destruct (p_valid (as_list (handle st h))) eqn:Vp.
    + destruct (as_list_valid _ Vp) as [Es Vh]. destruct (Hh h Vh) as (L1 & L2 & L3).
      rewrite Es in Eq. pose proof (list_struct_depth _ i q L2 Eq V). lia.
    + unfold list_struct in Eq. rewrite Vp in Eq. discriminate.
  - (* PointerList.At *)
    destruct (ptrlist_at c (fx_upgrade fx) m (rs_rl st) (as_list (handle st h)) i) as [r rl] eqn:Er. cbn [fst].
    apply depth_inv_push; [assumption|]. intros q -> V.
    destruct (p_valid (as_list (handle st h))) eqn:Vp.
    + destruct (as_list_valid _ Vp) as [Es Vh]. destruct (Hh h Vh) as (L1 & L2 & L3).
      pose proof (ptrlist_at_depth c (fx_upgrade fx) m (rs_rl st) (as_list (handle st h)) i q) as H.
      rewrite Er, Es in H. specialize (H L2 eq_refl V). lia.
    + unfold ptrlist_at, primitiveElem in Er. rewrite Vp in Er. cbn [negb orb] in Er. inversion Er.
  - (* walk: handles unchanged *)
    destruct (walk _ _ _ _ _ _ _ _) as [t rl]. cbn [fst]. exact Hinv.
  - (* reset: no handle is left *)
    cbn [fst]. split; [reflexivity|]. intros h0. unfold handle. cbn [rs_handles].
    destruct (Z.to_nat h0); cbn; discriminate.
Qed.

Lemma run_depth c fx m : 1 <= depth_limit c -> fx_depth fx = true ->
  forall ops st lv, depth_inv (depth_limit c) st lv ->
  depth_inv (depth_limit c) (fst (run c fx m st ops)) (fold_left step_lvl ops lv).
Proof.
  intros HD Hfd. induction ops as [|o ops IH]; intros st lv Hinv; cbn [run fold_left].
  - exact Hinv.
  - pose proof (step_depth c fx m st lv o HD Hfd Hinv) as H.
    destruct (step c fx m st o) as [st1 v]. cbn [fst] in H.
    specialize (IH st1 _ H). destruct (run c fx m st1 ops) as [st2 vs]. exact IH.
Qed.

(* depth_bound: for every op list mixing Struct.Ptr / PointerList.At / List.Struct in any
   order, every valid handle was reached through at most D successful dereferences (the
   root pointer's included), and its remaining depth budget plus that number is at most D.
   For all D >= 1 (both parities). *)
Theorem depth_bound c fx m ops : 1 <= depth_limit c -> fx_depth fx = true ->
  let st := fst (run c fx m (init_state c) ops) in
  forall h, p_valid (handle st h) = true ->
    1 <= lvl_of (run_lvl ops) h <= depth_limit c /\
    0 <= p_depth (handle st h) /\
    p_depth (handle st h) + lvl_of (run_lvl ops) h <= depth_limit c.
Proof.
  intros HD Hfd st h V.
  assert (depth_inv (depth_limit c) (init_state c) []) as H0.
  { split; [reflexivity|]. intros h0. unfold handle, init_state. cbn [rs_handles].
    destruct (Z.to_nat h0); cbn; discriminate. }
  pose proof (run_depth c fx m HD Hfd ops _ _ H0) as [_ H]. specialize (H h V). unfold run_lvl. subst st. lia.
Qed.

(* consequence: a dereference applied to a handle already D levels deep never yields a
   valid pointer *)
Corollary depth_exhausted c fx m ops o : 1 <= depth_limit c -> fx_depth fx = true ->
  let st := fst (run c fx m (init_state c) ops) in
  forall h i, (o = OSPtr h i \/ o = OPLAt h i) -> depth_limit c <= lvl_of (run_lvl ops) h ->
  forall q, snd (step c fx m st o) = VPtr (Ok q) -> p_valid q = false.
Proof.
  intros HD Hfd st h i Ho Hl q Hq.
  destruct (p_valid q) eqn:V; [|reflexivity]. exfalso.
  pose proof (depth_bound c fx m (ops ++ [o]) HD Hfd) as H. cbn zeta in H.
  rewrite run_app in H. cbn [fst run] in H. fold st in H.
  assert (length (run_lvl ops) = length (rs_handles st)) as Hlen.
  { assert (depth_inv (depth_limit c) (init_state c) []) as H0.
    { split; [reflexivity|]. intros h0. unfold handle, init_state. cbn [rs_handles].
      destruct (Z.to_nat h0); cbn; discriminate. }
    exact (proj1 (run_depth c fx m HD Hfd ops _ _ H0)). }
  specialize (H (Z.of_nat (length (rs_handles st)))).
  unfold run_lvl in H. rewrite fold_left_app in H. cbn [fold_left] in H. fold (run_lvl ops) in H.
  destruct (step c fx m st o) as [st1 v] eqn:Es. cbn [fst snd] in *. subst v.
  assert (handle st1 (Z.of_nat (length (rs_handles st))) = q /\
          lvl_of (step_lvl (run_lvl ops) o) (Z.of_nat (length (rs_handles st))) = lvl_of (run_lvl ops) h + 1) as [E1 E2].
  { unfold handle, lvl_of. rewrite Nat2Z.id.
    destruct Ho as [-> | ->]; cbn [step step_lvl] in *.
    - destruct (struct_ptr _ _ _ _ _) as [r rl]. inversion Es; subst. unfold push. cbn [rs_handles].
      rewrite (nth_middle (rs_handles st) []). rewrite <- Hlen. rewrite (nth_middle (run_lvl ops) []).
      split; reflexivity.
    - destruct (ptrlist_at _ _ _ _ _ _) as [r rl]. inversion Es; subst. unfold push. cbn [rs_handles].
      rewrite (nth_middle (rs_handles st) []). rewrite <- Hlen. rewrite (nth_middle (run_lvl ops) []).
      split; reflexivity. }
  rewrite E1, E2 in H. specialize (H V). lia.
Qed.

(* F03 (fx_depth = false), D = 2: a cyclic message (struct -> composite list -> element ->
   the same composite list) whose op list keeps succeeding: List.Struct on a list with depth
   budget 0 wraps the uint to 2^64-1.  Handle 3 is valid although it is 3 > D dereferences
   below the root, and the descent can be continued for ever. *)
Definition cyc_msg : segs :=
  [[0;0;0;0;0;0;1;0;  1;0;0;0;15;0;0;0;  4;0;0;0;0;0;1;0;  249;255;255;255;15;0;0;0]].
Definition cyc_ops : list op :=
  [ORoot; OSPtr 0 0; OLStruct 1 0; OSPtr 2 0; OLStruct 3 0; OSPtr 4 0; OInfo 3; OInfo 5].

Example depth_prefix_refuted :
  msg_ok cyc_msg /\
  let c := mkCfg 0 2 true true in
  let st := fst (run c (mkFix false true true) cyc_msg (init_state c) cyc_ops) in
  p_valid (handle st 3) = true /\ lvl_of (run_lvl cyc_ops) 3 = 3 /\
  p_valid (handle st 5) = true /\ lvl_of (run_lvl cyc_ops) 5 = 4 /\
  p_depth (handle st 5) = 18446744073709551612.
Proof.
  split.
  - repeat constructor; cbn; try lia; unfold maxSegmentSize; lia.
  - vm_compute. repeat split.
Qed.
(* the repaired List.Struct stops the same op list at depth D *)
Example depth_fixed_stops :
  let c := mkCfg 0 2 true true in
  let st := fst (run c (mkFix true true true) cyc_msg (init_state c) cyc_ops) in
  p_valid (handle st 1) = true /\ p_valid (handle st 2) = true /\ p_valid (handle st 3) = false.
Proof. vm_compute. repeat split. Qed.

(* ------------------------------------------------------------------ walk: fuel D+1 suffices *)
Fixpoint tree_nofuel (t : tree) : bool :=
  match t with
  | TFuel => false
  | TStruct _ ps => forallb tree_nofuel ps
  | TPtrs _ es => forallb tree_nofuel es
  | TComp _ _ es => forallb tree_nofuel es
  | _ => true
  end.

(* the fuel a pointer needs: depth budget + 2; a struct whose depth budget is 0 (it cannot
   be descended through) needs 1 *)
Definition fuel_ok (p : Ptr) (fuel : nat) : Prop :=
  p_depth p + 2 <= Z.of_nat fuel \/ (p_kind p = KStruct /\ p_depth p = 0 /\ (1 <= fuel)%nat).

Lemma list_struct_depth' p i q : 0 <= p_depth p ->
  list_struct true p i = Ok q -> p_valid q = true ->
  p_kind q = KStruct /\ 0 <= p_depth q /\ (p_depth q <= p_depth p - 1 \/ (p_depth p = 0 /\ p_depth q = 0)).
Proof.
  intros Hd. unfold list_struct. destruct (p_valid p); cbn [negb orb]; [|discriminate].
  dif; [discriminate|]. destruct (p_bit p); [intros H; inversion H; discriminate|].
  destruct (element _ _ _); [|intros H; inversion H; discriminate].
  intros H _. inversion H. pcbn. split; [reflexivity|]. cbn [andb].
  destruct (p_depth p =? 0) eqn:E; [lia|]. pose proof (uint_dec_spec (p_depth p) ltac:(lia)). lia.
Qed.

Lemma walk_fuel c fx m dcap pcap : fx_depth fx = true ->
  forall fuel rl r,
  (forall p, r = Ok p -> p_valid p = true -> 0 <= p_depth p /\ fuel_ok p fuel) ->
  tree_nofuel (fst (walk c fx m dcap pcap fuel rl r)) = true.
Proof.
  intros Hfd. induction fuel as [|f IH]; intros rl r Hr.
  - destruct r as [p| |]; cbn [walk]; try reflexivity.
    destruct (p_valid p) eqn:V; cbn [negb]; [|reflexivity].
    destruct (Hr p eq_refl V) as [_ [H|(_ & _ & H)]]; exfalso; [|lia].
    destruct (Hr p eq_refl V) as [H0 _]. cbn in H. lia.
  - destruct r as [p| |]; cbn [walk]; try reflexivity.
    destruct (p_valid p) eqn:V; cbn [negb]; [|reflexivity].
    destruct (Hr p eq_refl V) as [Hd Hf]. clear Hr.
    destruct (p_kind p) eqn:K.
    + destruct (collect _ _ _); try reflexivity.
      match goal with |- context [iter_rl ?n ?i ?rl ?g] =>
        pose proof (iter_rl_Forall (fun t => tree_nofuel t = true) g n i rl) as Hit;
        destruct (iter_rl n i rl g) as [ps rl'] end.
      cbn [fst tree_nofuel]. apply forallb_Forall. apply Hit. intros j rl0 _.
      destruct (struct_ptr c m rl0 p j) as [q rl1] eqn:Eq.
      apply IH. intros q' -> Vq.
      pose proof (struct_ptr_depth c m rl0 p j q' Hd) as H. rewrite Eq in H. specialize (H eq_refl Vq).
      split; [lia|]. left. destruct Hf as [Hf|Hf]; lia.
    + cbv zeta. destruct (p_bit p); [destruct (collect _ _ _); reflexivity|].
      destruct Hf as [Hf|(Hf & _)]; [|congruence].
      destruct (p_comp p).
      { match goal with |- context [iter_rl ?n ?i ?rl ?g] =>
          pose proof (iter_rl_Forall (fun t => tree_nofuel t = true) g n i rl) as Hit;
          destruct (iter_rl n i rl g) as [ps rl'] end.
        cbn [fst tree_nofuel]. apply forallb_Forall. apply Hit. intros j rl0 _.
        apply IH. intros q Eq Vq. rewrite Hfd in Eq.
        destruct (list_struct_depth' p j q Hd Eq Vq) as (Kq & Hq0 & Hq).
        split; [assumption|]. unfold fuel_ok. destruct Hq as [Hq|[Hq1 Hq2]]; [left; lia|right].
        repeat split; try assumption. lia. }
      destruct (0 <? PointerCount (p_size p)).
      { match goal with |- context [iter_rl ?n ?i ?rl ?g] =>
          pose proof (iter_rl_Forall (fun t => tree_nofuel t = true) g n i rl) as Hit;
          destruct (iter_rl n i rl g) as [ps rl'] end.
        cbn [fst tree_nofuel]. apply forallb_Forall. apply Hit. intros j rl0 _.
        destruct (ptrlist_at c (fx_upgrade fx) m rl0 p j) as [q rl1] eqn:Eq.
        apply IH. intros q' -> Vq.
        pose proof (ptrlist_at_depth c (fx_upgrade fx) m rl0 p j q' Hd) as H. rewrite Eq in H.
        specialize (H eq_refl Vq). split; [lia|]. left. lia. }
      destruct (_ =? 0); [reflexivity|]. destruct (collect _ _ _); reflexivity.
    + reflexivity.
Qed.

(* ------------------------------------------------------------------ instrumented walker *)
(* [walkA] is [walk] with two ghost counters: the number of successful pointer dereferences
   (Struct.Ptr / PointerList.At returning a valid pointer) and the sum of the read sizes of
   the pointers handed out.  [walkA_erase] shows that dropping the counters gives [walk]. *)
Record acc (A : Type) := mkAcc { ac_val : A; ac_rl : Z; ac_d : Z; ac_h : Z }.
Arguments mkAcc {A}. Arguments ac_val {A}. Arguments ac_rl {A}. Arguments ac_d {A}. Arguments ac_h {A}.

Fixpoint iter_acc {A} (n : nat) (i rl : Z) (f : Z -> Z -> acc A) : acc (list A) :=
  match n with
  | O => mkAcc [] rl 0 0
  | S n' => let a := f i rl in
            let r := iter_acc n' (i + 1) (ac_rl a) f in
            mkAcc (ac_val a :: ac_val r) (ac_rl r) (ac_d a + ac_d r) (ac_h a + ac_h r)
  end.

Definition deref_count (r : res Ptr) : Z := match r with Ok q => if p_valid q then 1 else 0 | _ => 0 end.
Definition deref_size (r : res Ptr) : Z := match r with Ok q => readSize q | _ => 0 end.

(* one dereference followed by the walk of its result *)
Definition deref_then (x : res Ptr * Z) (k : Z -> res Ptr -> acc tree) : acc tree :=
  let a := k (snd x) (fst x) in
  mkAcc (ac_val a) (ac_rl a) (deref_count (fst x) + ac_d a) (deref_size (fst x) + ac_h a).

Fixpoint walkA (c : config) (fx : fixes) (m : segs) (dcap pcap : Z) (fuel : nat) (rl : Z) (r : res Ptr)
  : acc tree :=
  match r with
  | Err => mkAcc TErr rl 0 0
  | Panic => mkAcc TPanic rl 0 0
  | Ok p =>
    if negb (p_valid p) then mkAcc TNull rl 0 0 else
    match fuel with
    | O => mkAcc TFuel rl 0 0
    | S f =>
      match p_kind p with
      | KIface => mkAcc (TCap (p_len p)) rl 0 0
      | KStruct =>
        match collect (cap_count (DataSize (p_size p)) dcap) (fun o => struct_uint m p o 1) 0 with
        | Panic => mkAcc TPanic rl 0 0 | Err => mkAcc TErr rl 0 0
        | Ok data =>
          let a := iter_acc (cap_count (PointerCount (p_size p)) pcap) 0 rl
                     (fun i rl0 => deref_then (struct_ptr c m rl0 p i) (walkA c fx m dcap pcap f)) in
          mkAcc (TStruct data (ac_val a)) (ac_rl a) (ac_d a) (ac_h a)
        end
      | KList =>
        let n := cap_count (p_len p) pcap in
        if p_bit p then
          match collect n (fun i => bitlist_at (fx_bit fx) m p i) false with
          | Ok bs => mkAcc (TBits (p_len p) bs) rl 0 0 | Err => mkAcc TErr rl 0 0 | Panic => mkAcc TPanic rl 0 0
          end
        else if p_comp p then
          let a := iter_acc n 0 rl
                     (fun i rl0 => walkA c fx m dcap pcap f rl0 (list_struct (fx_depth fx) p i)) in
          mkAcc (TComp (p_len p) (p_size p) (ac_val a)) (ac_rl a) (ac_d a) (ac_h a)
        else if 0 <? PointerCount (p_size p) then
          let a := iter_acc n 0 rl
                     (fun i rl0 => deref_then (ptrlist_at c (fx_upgrade fx) m rl0 p i) (walkA c fx m dcap pcap f)) in
          mkAcc (TPtrs (p_len p) (ac_val a)) (ac_rl a) (ac_d a) (ac_h a)
        else
          let w := DataSize (p_size p) in
          if w =? 0 then mkAcc (TPrim 0 (p_len p) []) rl 0 0 else
          match collect n (fun i => list_uint_at (fx_upgrade fx) m p i w) 0 with
          | Ok vs => mkAcc (TPrim w (p_len p) vs) rl 0 0 | Err => mkAcc TErr rl 0 0 | Panic => mkAcc TPanic rl 0 0
          end
      end
    end
  end.

Lemma iter_acc_erase {A} (fa : Z -> Z -> acc A) (f : Z -> Z -> A * Z) :
  (forall j rl0, (ac_val (fa j rl0), ac_rl (fa j rl0)) = f j rl0) ->
  forall n i rl, (ac_val (iter_acc n i rl fa), ac_rl (iter_acc n i rl fa)) = iter_rl n i rl f.
Proof.
  intros H. induction n as [|n IH]; intros i rl; cbn [iter_acc iter_rl]; [reflexivity|]. cbv zeta.
  cbn [ac_val ac_rl]. rewrite <- (H i rl). rewrite <- (IH (i + 1) (ac_rl (fa i rl))). reflexivity.
Qed.

Lemma walkA_erase c fx m dcap pcap : forall fuel rl r,
  (ac_val (walkA c fx m dcap pcap fuel rl r), ac_rl (walkA c fx m dcap pcap fuel rl r)) =
  walk c fx m dcap pcap fuel rl r.
Proof.
  induction fuel as [|f IH]; intros rl r.
  - destruct r as [p| |]; cbn [walk walkA]; try reflexivity. destruct (negb (p_valid p)); reflexivity.
  - destruct r as [p| |]; cbn [walk walkA]; try reflexivity.
    destruct (negb (p_valid p)); [reflexivity|].
    destruct (p_kind p).
    + destruct (collect _ _ _); try reflexivity. cbv zeta. cbn [ac_val ac_rl].
      match goal with |- context [iter_acc ?n ?i ?rl ?ga] =>
        match goal with |- context [iter_rl n i rl ?g] =>
          pose proof (iter_acc_erase ga g) as He end end.
      rewrite <- He; [reflexivity|].
      intros j rl0. unfold deref_then. cbv zeta. cbn [ac_val ac_rl].
      destruct (struct_ptr c m rl0 p j) as [q rl1]. cbn [fst snd]. apply IH.
    + cbv zeta. destruct (p_bit p); [destruct (collect _ _ _); reflexivity|].
      destruct (p_comp p).
      { cbn [ac_val ac_rl].
        match goal with |- context [iter_acc ?n ?i ?rl ?ga] =>
          match goal with |- context [iter_rl n i rl ?g] =>
            pose proof (iter_acc_erase ga g) as He end end.
        rewrite <- He; [reflexivity|]. intros j rl0. apply IH. }
      destruct (0 <? PointerCount (p_size p)).
      { cbn [ac_val ac_rl].
        match goal with |- context [iter_acc ?n ?i ?rl ?ga] =>
          match goal with |- context [iter_rl n i rl ?g] =>
            pose proof (iter_acc_erase ga g) as He end end.
        rewrite <- He; [reflexivity|].
        intros j rl0. unfold deref_then. cbv zeta. cbn [ac_val ac_rl].
        destruct (ptrlist_at c (fx_upgrade fx) m rl0 p j) as [q rl1]. cbn [fst snd]. apply IH. }
      destruct (_ =? 0); [reflexivity|]. destruct (collect _ _ _); reflexivity.
    + reflexivity.
Qed.

(* --- the walker hands out at most its budget: any message, any start pointer, any fuel --- *)
Definition handed_ok {A} (rl : Z) (a : acc A) : Prop :=
  0 <= ac_rl a /\ 0 <= ac_h a /\ ac_rl a + ac_h a <= rl.

Lemma iter_acc_handed {A} (f : Z -> Z -> acc A) :
  (forall j rl0, 0 <= rl0 -> handed_ok rl0 (f j rl0)) ->
  forall n i rl, 0 <= rl -> handed_ok rl (iter_acc n i rl f).
Proof.
  intros H. induction n as [|n IH]; intros i rl Hr; cbn [iter_acc].
  - unfold handed_ok. cbn. lia.
  - cbv zeta. destruct (H i rl Hr) as (H1 & H2 & H3).
    destruct (IH (i + 1) (ac_rl (f i rl)) H1) as (G1 & G2 & G3).
    unfold handed_ok. cbn [ac_rl ac_h]. lia.
Qed.

Lemma deref_then_handed rl x k : charged rl x ->
  (forall rl1 r, 0 <= rl1 -> handed_ok rl1 (k rl1 r)) -> handed_ok rl (deref_then x k).
Proof.
  intros [[H1 H1'] H2] Hk. unfold deref_then. cbv zeta.
  destruct (Hk (snd x) (fst x) H1) as (G1 & G2 & G3).
  unfold handed_ok. cbn [ac_rl ac_h]. unfold deref_size.
  destruct (fst x) as [q| |]; [pose proof (readSize_nonneg q)|..]; lia.
Qed.

Theorem walk_traversal c fx m dcap pcap : forall fuel rl r, 0 <= rl ->
  handed_ok rl (walkA c fx m dcap pcap fuel rl r).
Proof.
  assert (forall rl, 0 <= rl -> forall t, handed_ok rl (mkAcc (A:=tree) t rl 0 0)) as Hleaf
    by (intros; unfold handed_ok; cbn; lia).
  induction fuel as [|f IH]; intros rl r Hr.
  - destruct r as [p| |]; cbn [walkA]; auto. destruct (negb (p_valid p)); auto.
  - destruct r as [p| |]; cbn [walkA]; auto.
    destruct (negb (p_valid p)); auto.
    destruct (p_kind p); auto.
    + destruct (collect _ _ _); auto. cbv zeta.
      match goal with |- context [iter_acc ?n ?i ?rl ?ga] =>
        pose proof (iter_acc_handed ga) as Hit; specialize (fun H => Hit H n i rl Hr);
        destruct (iter_acc n i rl ga) as [v rl' d h] end.
      unfold handed_ok in *. cbn [ac_rl ac_h] in *. apply Hit.
      intros j rl0 H0. apply deref_then_handed; [apply struct_ptr_charge; assumption|]. intros; apply IH; assumption.
    + cbv zeta. destruct (p_bit p); [destruct (collect _ _ _); auto|].
      destruct (p_comp p).
      { match goal with |- context [iter_acc ?n ?i ?rl ?ga] =>
          pose proof (iter_acc_handed ga) as Hit; specialize (fun H => Hit H n i rl Hr);
          destruct (iter_acc n i rl ga) as [v rl' d h] end.
        unfold handed_ok in *. cbn [ac_rl ac_h] in *. apply Hit. intros j rl0 H0. apply IH. assumption. }
      destruct (0 <? PointerCount (p_size p)).
      { match goal with |- context [iter_acc ?n ?i ?rl ?ga] =>
          pose proof (iter_acc_handed ga) as Hit; specialize (fun H => Hit H n i rl Hr);
          destruct (iter_acc n i rl ga) as [v rl' d h] end.
        unfold handed_ok in *. cbn [ac_rl ac_h] in *. apply Hit.
        intros j rl0 H0. apply deref_then_handed; [apply ptrlist_at_charge; assumption|]. intros; apply IH; assumption. }
      destruct (_ =? 0); auto. destruct (collect _ _ _); auto.
Qed.

(* --- number of successful dereferences --- *)
(* pointer slots of an object: each can be dereferenced once by the walker *)
Definition slots (p : Ptr) : Z :=
  if p_valid p then
    match p_kind p with
    | KStruct => PointerCount (p_size p)
    | KList => if p_bit p then 0 else p_len p * PointerCount (p_size p)
    | KIface => 0
    end
  else 0.
Definition slots_r (r : res Ptr) : Z := match r with Ok p => slots p | _ => 0 end.

(* a well-formed object was charged at least one word per pointer slot *)
Lemma slots_le_readSize m p : msg_ok m -> wf_ptr m p -> 0 <= slots p /\ 8 * slots p <= readSize p.
Proof.
  intros Hm Hw. unfold slots, readSize. destruct (p_valid p) eqn:V.
  2:{ pose proof (struct_readSize_nonneg p). pose proof (list_readSize_nonneg p).
      destruct (p_kind p); lia. }
  destruct (Hw V) as [Hs Ho]. unfold wf_obj in Ho. destruct (p_kind p).
  - destruct Ho as (Hz & _ & _). unfold struct_readSize. rewrite V. rewrite (totalSize_wf _ Hz).
    unfold wf_size in Hz. lia.
  - destruct Ho as (Ho & Hl & Hr). destruct (p_bit p); [pose proof (list_readSize_nonneg p); lia|].
    destruct Hr as [Hz Hr]. destruct (seg_of_ok m p Hm) as [Hsl _]. unfold maxSegmentSize in Hsl.
    unfold list_readSize. rewrite V. cbv zeta. rewrite (totalSize_wf _ Hz) in *. unfold wf_size in Hz.
    destruct (_ =? 0) eqn:E0.
    + assert (PointerCount (p_size p) = 0) as -> by lia.
      destruct (times _ _) eqn:Et; [apply times_spec in Et|unfold maxSegmentSize]; lia.
    + destruct (times _ _) eqn:Et.
      * apply times_spec in Et. destruct Et as [-> _]. nia.
      * unfold maxSegmentSize. nia.
  - lia.
Qed.

Definition derefs_ok {A} (rl k : Z) (a : acc A) : Prop :=
  0 <= ac_rl a /\ 0 <= ac_d a /\ 8 * ac_d a + ac_rl a <= rl + 8 * k.

Lemma iter_acc_derefs {A} (f : Z -> Z -> acc A) k : 0 <= k ->
  forall n i rl,
  (forall j rl0, i <= j < i + Z.of_nat n -> 0 <= rl0 -> derefs_ok rl0 k (f j rl0)) -> 0 <= rl ->
  derefs_ok rl (k * Z.of_nat n) (iter_acc n i rl f).
Proof.
  intros Hk. induction n as [|n IH]; intros i rl H Hr; cbn [iter_acc].
  - unfold derefs_ok. cbn [ac_rl ac_d]. change (Z.of_nat 0) with 0. lia.
  - cbv zeta. destruct (H i rl ltac:(lia) Hr) as (H1 & H2 & H3).
    destruct (IH (i + 1) (ac_rl (f i rl)) ltac:(intros j rl0 Hj; apply H; lia) H1) as (G1 & G2 & G3).
    unfold derefs_ok. cbn [ac_rl ac_d]. lia.
Qed.

Lemma deref_then_derefs m rl x k : msg_ok m -> charged rl x -> res_sat (fst x) (wf_ptr m) ->
  (forall rl1 r, 0 <= rl1 -> res_sat r (wf_ptr m) -> derefs_ok rl1 (slots_r r) (k rl1 r)) ->
  derefs_ok rl 1 (deref_then x k).
Proof.
  intros Hm [[H1 H1'] H2] Hw Hk. unfold deref_then. cbv zeta.
  destruct (Hk (snd x) (fst x) H1 Hw) as (G1 & G2 & G3).
  unfold derefs_ok. cbn [ac_rl ac_d]. unfold deref_count, slots_r in *.
  destruct (fst x) as [q| |]; try lia.
  cbn [res_sat] in Hw. pose proof (slots_le_readSize m q Hm Hw). destruct (p_valid q); lia.
Qed.

Lemma walk_derefs c fx m dcap pcap : msg_ok m -> cfg_strict c = true ->
  forall fuel rl r, 0 <= rl -> res_sat r (wf_ptr m) ->
  derefs_ok rl (slots_r r) (walkA c fx m dcap pcap fuel rl r).
Proof.
  intros Hm Hc.
  assert (forall rl k, 0 <= rl -> 0 <= k -> forall t, derefs_ok rl k (mkAcc (A:=tree) t rl 0 0)) as Hleaf
    by (intros; unfold derefs_ok; cbn [ac_rl ac_d]; lia).
  induction fuel as [|f IH]; intros rl r Hr Hw.
  - destruct r as [p| |]; cbn [walkA]; try (apply Hleaf; cbn; lia).
    pose proof (slots_le_readSize m p Hm Hw) as [Hs _].
    destruct (negb (p_valid p)); apply Hleaf; cbn; lia.
  - destruct r as [p| |]; cbn [walkA]; try (apply Hleaf; cbn; lia).
    cbn [res_sat] in Hw. pose proof (slots_le_readSize m p Hm Hw) as [Hs _]. cbn [slots_r].
    destruct (p_valid p) eqn:V; cbn [negb]; [|apply Hleaf; lia].
    destruct (p_kind p) eqn:K; [| |apply Hleaf; lia].
    + assert (wf_struct m p) as Hws by (split; [assumption|intros _; assumption]).
      destruct (collect _ _ _); try (apply Hleaf; lia). cbv zeta.
      match goal with |- context [iter_acc ?n ?i ?rl ?ga] =>
        pose proof (iter_acc_derefs ga 1 ltac:(lia) n i rl) as Hit;
        destruct (iter_acc n i rl ga) as [v rl' d h] end.
      assert (0 <= Z.of_nat (cap_count (PointerCount (p_size p)) pcap) <= slots p) as Hn.
      { unfold slots in *. rewrite V, K in *. unfold cap_count. lia. }
      unfold derefs_ok in *. cbn [ac_rl ac_d] in *.
      enough (0 <= rl' /\ 0 <= d /\ 8 * d + rl' <= rl + 8 * (1 * Z.of_nat (cap_count (PointerCount (p_size p)) pcap))) by lia.
      apply Hit; [|assumption]. intros j rl0 Hj H0.
      apply (deref_then_derefs m); try assumption.
      * apply struct_ptr_charge. assumption.
      * eapply res_sat_weaken; [apply struct_ptr_safe; auto; lia|auto].
    + assert (wf_list m p) as Hwl by (split; [assumption|intros _; assumption]).
      assert (forall j, 0 <= j < Z.of_nat (cap_count (p_len p) pcap) -> 0 <= j < list_len p) as Hidx.
      { intros j Hj. apply cap_count_le in Hj. unfold list_len. rewrite V. assumption. }
      destruct (wf_list_inv m p Hwl V) as (_ & _ & Hl & Hr').
      cbv zeta. destruct (p_bit p) eqn:Hb; [destruct (collect _ _ _); apply Hleaf; lia|].
      destruct Hr' as [Hz _]. unfold wf_size in Hz.
      assert (slots p = p_len p * PointerCount (p_size p)) as Hsl by (unfold slots; rewrite V, K, Hb; reflexivity).
      assert (0 <= Z.of_nat (cap_count (p_len p) pcap) <= p_len p) as Hn by (unfold cap_count; lia).
      destruct (p_comp p).
      { match goal with |- context [iter_acc ?n ?i ?rl ?ga] =>
          pose proof (iter_acc_derefs ga (PointerCount (p_size p)) ltac:(lia) n i rl) as Hit;
          destruct (iter_acc n i rl ga) as [v rl' d h] end.
        unfold derefs_ok in *. cbn [ac_rl ac_d] in *.
        enough (0 <= rl' /\ 0 <= d /\
                8 * d + rl' <= rl + 8 * (PointerCount (p_size p) * Z.of_nat (cap_count (p_len p) pcap))) by nia.
        apply Hit; [|assumption]. intros j rl0 Hj H0.
        pose proof (list_struct_safe (fx_depth fx) m p j Hm Hwl (Hidx j Hj)) as Hq.
        assert (slots_r (list_struct (fx_depth fx) p j) <= PointerCount (p_size p)) as Hsq.
        { unfold list_struct. destruct (_ || _); [cbn; lia|]. destruct (p_bit p); [cbn; lia|].
          destruct (element _ _ _); cbn; lia. }
        assert (res_sat (list_struct (fx_depth fx) p j) (wf_ptr m)) as Hq'
          by (eapply res_sat_weaken; [exact Hq|intros a [Ha _]; exact Ha]).
        specialize (IH rl0 _ H0 Hq'). lia. }
      destruct (0 <? PointerCount (p_size p)) eqn:Hpc.
      { match goal with |- context [iter_acc ?n ?i ?rl ?ga] =>
          pose proof (iter_acc_derefs ga 1 ltac:(lia) n i rl) as Hit;
          destruct (iter_acc n i rl ga) as [v rl' d h] end.
        unfold derefs_ok in *. cbn [ac_rl ac_d] in *.
        enough (0 <= rl' /\ 0 <= d /\ 8 * d + rl' <= rl + 8 * (1 * Z.of_nat (cap_count (p_len p) pcap))) by nia.
        apply Hit; [|assumption]. intros j rl0 Hj H0.
        apply (deref_then_derefs m); try assumption.
        * apply ptrlist_at_charge. assumption.
        * eapply res_sat_weaken; [apply ptrlist_at_safe; auto|auto]. }
      destruct (_ =? 0); [apply Hleaf; lia|]. destruct (collect _ _ _); apply Hleaf; lia.
Qed.

Lemma root_depth c m rl q : 1 <= depth_limit c ->
  fst (root c m rl) = Ok q -> p_valid q = true -> 0 <= p_depth q <= depth_limit c - 1.
Proof.
  intros HD. unfold root. destruct (lookup_segment m 0) as [s0| |]; try discriminate.
  destruct (negb _); [destruct (cfg_root c); discriminate|].
  intros H V. pose proof (readPtr_depth (cfg_strict c) m rl 0 s0 0 (depth_limit c) q) as G.
  specialize (G ltac:(lia) H V). lia.
Qed.

(* walk_bounded, from any well-formed start pointer: with fuel >= depth budget + 2 the walker
   never runs out of fuel (its recursion depth is bounded by the depth budget), does not
   panic, hands out at most its budget, and the number of successful dereferences is at
   most (budget consumed)/8 + the start object's pointer slots -- on any message, cyclic and
   aliasing pointer graphs included. *)
Theorem walk_bounded_from c fx m dcap pcap fuel rl p :
  msg_ok m -> cfg_strict c = true -> fx_depth fx = true -> fx_bit fx = true ->
  wf_ptr m p -> 0 <= p_depth p -> p_depth p + 2 <= Z.of_nat fuel -> 0 <= rl ->
  let a := walkA c fx m dcap pcap fuel rl (Ok p) in
  (ac_val a, ac_rl a) = walk c fx m dcap pcap fuel rl (Ok p) /\
  tree_ok (ac_val a) = true /\ tree_nofuel (ac_val a) = true /\
  0 <= ac_rl a /\ ac_rl a + ac_h a <= rl /\
  0 <= ac_d a /\ 8 * ac_d a <= (rl - ac_rl a) + 8 * slots p.
Proof.
  intros Hm Hc Hfd Hfb Hw Hd Hf Hr a.
  pose proof (walkA_erase c fx m dcap pcap fuel rl (Ok p)) as He. fold a in He.
  split; [exact He|].
  pose proof (walk_safe c fx m dcap pcap Hm Hc Hfb fuel rl (Ok p) Hw) as H1. rewrite <- He in H1.
  pose proof (walk_fuel c fx m dcap pcap Hfd fuel rl (Ok p)) as H2. rewrite <- He in H2.
  cbn [fst] in H1, H2.
  destruct (walk_traversal c fx m dcap pcap fuel rl (Ok p) Hr) as (T1 & T2 & T3). fold a in T1, T2, T3.
  destruct (walk_derefs c fx m dcap pcap Hm Hc fuel rl (Ok p) Hr Hw) as (D1 & D2 & D3). fold a in D1, D2, D3.
  cbn [slots_r] in D3.
  split; [assumption|]. split; [|lia].
  apply H2. intros p' E V. inversion E; subst p'. split; [assumption|]. left. assumption.
Qed.

(* walk_bounded for a whole message: Root followed by the walker with fuel D+1 *)
Theorem walk_bounded c fx m dcap pcap fuel :
  msg_ok m -> cfg_strict c = true -> cfg_root c = true -> fx_depth fx = true -> fx_bit fx = true ->
  1 <= depth_limit c -> 0 <= cfg_T c -> depth_limit c + 1 <= Z.of_nat fuel ->
  let T := init_rlimit c in
  let r := root c m T in
  let a := walkA c fx m dcap pcap fuel (snd r) (fst r) in
  (ac_val a, ac_rl a) = walk c fx m dcap pcap fuel (snd r) (fst r) /\
  tree_ok (ac_val a) = true /\ tree_nofuel (ac_val a) = true /\
  0 <= ac_rl a /\
  deref_size (fst r) + ac_h a <= T /\
  0 <= deref_count (fst r) + ac_d a <= T / 8 + 1.
Proof.
  intros Hm Hc Hrt Hfd Hfb HD HT Hf T r a.
  pose proof (init_rlimit_nonneg c HT) as H0. fold T in H0.
  pose proof (walkA_erase c fx m dcap pcap fuel (snd r) (fst r)) as He. fold a in He.
  split; [exact He|].
  assert (res_sat (fst r) (wf_ptr m)) as Hw
    by (eapply res_sat_weaken; [apply root_safe; assumption|auto]).
  destruct (root_charge c m T H0) as [[C1 C1'] C2]. fold r in C1, C1', C2.
  pose proof (walk_safe c fx m dcap pcap Hm Hc Hfb fuel (snd r) (fst r) Hw) as H1. rewrite <- He in H1.
  pose proof (walk_fuel c fx m dcap pcap Hfd fuel (snd r) (fst r)) as H2. rewrite <- He in H2.
  cbn [fst] in H1, H2.
  destruct (walk_traversal c fx m dcap pcap fuel (snd r) (fst r) C1) as (T1 & T2 & T3). fold a in T1, T2, T3.
  destruct (walk_derefs c fx m dcap pcap Hm Hc fuel (snd r) (fst r) C1 Hw) as (D1 & D2 & D3). fold a in D1, D2, D3.
  split; [assumption|]. split.
  { apply H2. intros p E V. pose proof (root_depth c m T p HD E V). split; [lia|]. left. lia. }
  split; [assumption|].
  unfold deref_size, deref_count, slots_r in *.
  destruct (fst r) as [q| |] eqn:Eq; cbn [res_sat] in Hw.
  - pose proof (slots_le_readSize m q Hm Hw). pose proof (readSize_nonneg q).
    split; [lia|]. destruct (p_valid q); lia.
  - lia.
  - destruct Hw.
Qed.

(* ------------------------------------------------------------------ reused messages *)
(* Message.Reset / Decoder.ReuseBuffer: an op list with resets is a sequence of incarnations.
   For EVERY op list [pre ++ OReset true :: inc ++ post] (pre and post arbitrary, resets
   included; inc the ops up to the next reset):
   - right after the reset the budget is exactly Message.initReadLimit's value (the configured
     TraverseLimit, or the 64 MiB default when it is 0) and no handle survives,
   - within the incarnation the budget is never negative and the read sizes handed out sum to
     at most that value,
   - the observations of [inc] inside the whole run are those of the incarnation.
   The first incarnation (before any reset) is traversal_bound_seq. *)
Theorem traversal_bound_incarnations c fx m pre inc post : 0 <= cfg_T c -> no_reset inc = true ->
  let st0 := fst (run c fx m (init_state c) (pre ++ [OReset true])) in
  let r := run c fx m st0 inc in
  rs_rl st0 = init_rlimit c /\ rs_handles st0 = [] /\
  0 <= rs_rl (fst r) /\
  handed_sum inc (snd r) <= init_rlimit c - rs_rl (fst r) /\
  handed_sum inc (snd r) <= init_rlimit c /\
  run_ops c fx m (pre ++ OReset true :: inc ++ post) =
    snd (run c fx m (init_state c) pre) ++ VNum (Ok (init_rlimit c)) :: snd r ++ snd (run c fx m (fst r) post).
Proof.
  intros HT Hnr st0 r.
  assert (st0 = mkRS [] (init_rlimit c)) as E0.
  { subst st0. rewrite run_app. cbn [fst run step reset_limit]. reflexivity. }
  pose proof (run_charge c fx m inc st0 ltac:(rewrite E0; cbn [rs_rl]; apply init_rlimit_nonneg; exact HT) Hnr) as [H1 H2].
  fold r in H1, H2. rewrite E0 in H2. cbn [rs_rl] in H2.
  split; [rewrite E0; reflexivity|]. split; [rewrite E0; reflexivity|].
  split; [exact H1|]. split; [lia|]. split; [lia|].
  unfold run_ops. fold (init_state c). rewrite run_app. cbn [snd]. f_equal.
  cbn [run step reset_limit]. rewrite <- E0. rewrite (run_app c fx m inc post st0). fold r. reflexivity.
Qed.

(* sensitivity: the variant of Message.Reset that re-arms the budget with the default instead of
   the configured TraverseLimit (OReset false).  T = 8 admits exactly one dereference of the
   8-byte root struct; after the reset the variant has 64 MiB again, so the second incarnation
   hands out 16 > T bytes. *)
Definition obs_code (v : oval) : Z :=
  match v with VPtr (Ok _) => 1 | VPtr Err => 2 | VNum (Ok n) => n | _ => 0 end.

Example reset_default_refuted :
  let c := mkCfg 8 0 true true in
  let fx := mkFix true true true in
  let m := [[0;0;0;0;0;0;1;0;  0;0;0;0;0;0;0;0]] in
  msg_ok m /\
  (* repaired: budget T after the reset, the second Root of the incarnation is refused (2) *)
  map obs_code (run_ops c fx m [ORoot; OReset true; ORoot; ORoot]) = [1; 8; 1; 2] /\
  handed_sum [ORoot; ORoot] (skipn 2 (run_ops c fx m [ORoot; OReset true; ORoot; ORoot])) = 8 /\
  (* seeded variant: 64 MiB after the reset, both succeed: 16 bytes handed out with T = 8 *)
  map obs_code (run_ops c fx m [ORoot; OReset false; ORoot; ORoot]) = [1; 67108864; 1; 1] /\
  handed_sum [ORoot; ORoot] (skipn 2 (run_ops c fx m [ORoot; OReset false; ORoot; ORoot])) = 16.
Proof.
  cbv zeta. split; [repeat constructor; cbn; try lia; unfold maxSegmentSize; lia|].
  repeat split; vm_compute; reflexivity.
Qed.

(* non-vacuity (used by Properties_C02): the cyclic message walked with D = 3 *)
Lemma cyclic_walk_bounded_example :
  let c := mkCfg 4096 3 true true in
  let r := root c cyc_msg 4096 in
  let a := walkA c (mkFix true true true) cyc_msg 8 8 4 (snd r) (fst r) in
  msg_ok cyc_msg /\ tree_nofuel (ac_val a) = true /\
  ac_val a = TStruct [] [TComp 1 (mkOS 0 1) [TStruct [] [TErr]]] /\
  deref_count (fst r) + ac_d a = 2 /\ deref_size (fst r) + ac_h a = 16.
Proof.
  split; [repeat constructor; cbn; try lia; unfold maxSegmentSize; lia|].
  vm_compute. repeat split.
Qed.

(* ------------------------------------------------------------------ budget epochs *)
(* The application can raise the budget itself: Message.ResetReadLimit (OResetLimit), Message.Unread
   (OUnread), or reuse the message (OReset).  The budget is never negative whatever is called,
   and between two such calls (a budget epoch) the read sizes handed out sum to at most the
   budget the epoch started with. *)
Lemma step_nonneg c fx m st o : 0 <= cfg_T c -> 0 <= rs_rl st -> 0 <= rs_rl (fst (step c fx m st o)).
Proof.
  intros HT Hr. destruct (is_reset o) eqn:E.
  - destruct o; try discriminate E; cbn [step fst rs_rl].
    + unfold reset_limit, defaultTraverseLimit. destruct fixed; [apply init_rlimit_nonneg; exact HT|lia].
    + apply u64_range.
    + apply u64_range.
  - apply step_charge; assumption.
Qed.

Lemma run_nonneg c fx m : forall ops st, 0 <= cfg_T c -> 0 <= rs_rl st -> 0 <= rs_rl (fst (run c fx m st ops)).
Proof.
  induction ops as [|o ops IH]; intros st HT Hr; cbn [run]; [exact Hr|].
  pose proof (step_nonneg c fx m st o HT Hr) as H. destruct (step c fx m st o) as [st1 v]. cbn [fst] in *.
  specialize (IH st1 HT H). destruct (run c fx m st1 ops). exact IH.
Qed.

Definition budget_after (c : config) (before : Z) (o : op) : Z :=
  match o with
  | OReset fixed => reset_limit fixed c
  | OResetLimit n => u64 n
  | OUnread n => u64 (before + u32 n)
  | _ => before
  end.

Theorem traversal_bound_epochs c fx m pre o inc : 0 <= cfg_T c -> is_reset o = true -> no_reset inc = true ->
  let st_pre := fst (run c fx m (init_state c) pre) in
  let st0 := fst (run c fx m (init_state c) (pre ++ [o])) in
  let r := run c fx m st0 inc in
  rs_rl st0 = budget_after c (rs_rl st_pre) o /\ 0 <= rs_rl st0 /\
  0 <= rs_rl (fst r) /\
  handed_sum inc (snd r) <= rs_rl st0 - rs_rl (fst r) /\
  handed_sum inc (snd r) <= rs_rl st0.
Proof.
  intros HT Ho Hnr st_pre st0 r.
  assert (0 <= rs_rl st0) as H0 by (apply run_nonneg; [exact HT|apply init_rlimit_nonneg; exact HT]).
  pose proof (run_charge c fx m inc st0 H0 Hnr) as [H1 H2]. fold r in H1, H2.
  split; [|split; [exact H0|split; [exact H1|split; lia]]].
  subst st0. rewrite run_app. cbn [fst]. fold st_pre.
  destruct o; try discriminate Ho; reflexivity.
Qed.
