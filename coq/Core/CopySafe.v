(* C01 / C02 for the recursive consumer "deep copy into another message" (model Core/Builder.v:
   write_ptr / copy_struct with the source in a second, read-only message): copying out of an
   ARBITRARY (hostile) source message into a well-formed destination never panics, keeps the
   destination well-formed, only grows it, never touches the source, and never increases the
   source's traversal budget.
   Standing assumptions: [msg_ok] for the source; [dok] for the destination (builder invariant
   [inv] + every segment at most maxSegmentSize bytes); strict reader; the copied pointer was
   handed out by the reader ([wf_ptr]) and, for lists, has a reader-made shape ([shape_ok]).
   Structs need no shape condition in the repaired code (writePtr pads the copy's data section
   to a word); as found, a struct taken from an element of a 1/2/4-byte list makes writePtr
   panic: copy_unaligned_refuted. *)
From CV Require Import Core.Builder Core.ReaderFacts Core.BuilderFacts Core.AllocProofs
                       Core.WritePtrProofs Core.HeapProofs Core.CopyProofs Core.LimitProofs.
From Coq Require Import ZifyBool ZifyNat.
Open Scope Z_scope.
Ltac Zify.zify_post_hook ::= Z.div_mod_to_equations.

(* ------------------------------------------------------------------ shape of reader-made pointers *)
Definition prim_size (sz : ObjectSize) : Prop :=
  sz = mkOS 0 0 \/ sz = mkOS 1 0 \/ sz = mkOS 2 0 \/ sz = mkOS 4 0 \/ sz = mkOS 8 0 \/ sz = mkOS 0 1.

Definition shape_ok (p : Ptr) : Prop :=
  p_valid p = true ->
  match p_kind p with
  | KStruct => True
  | KList => if p_comp p then 8 <= p_off p /\ DataSize (p_size p) mod 8 = 0 /\ p_bit p = false
             else if p_bit p then True else prim_size (p_size p)
  | KIface => True
  end.

Lemma shape_null : shape_ok nullPtr.
Proof. intros X. discriminate X. Qed.

Lemma readPtr_shape strict m rl sid s paddr depth q :
  fst (readPtr strict m rl sid s paddr depth) = Ok q -> shape_ok q.
Proof.
  unfold readPtr.
  destruct (resolveFarPointer strict m sid s paddr) as [[[[dsid dst] base] val]| |]; try discriminate.
  destruct (val =? 0); [cbn [fst]; intros H; inversion H; apply shape_null|].
  destruct (depth =? 0); [discriminate|]. cbv zeta.
  destruct (pointerType val =? structPointer).
  { unfold readStructPtr. destruct (element base (ptr_offset val) 8); [|discriminate].
    destruct (negb _); [discriminate|].
    destruct (canRead _ _) as [[|] r]; cbn [fst]; intros H; inversion H. intros _. exact I. }
  destruct (pointerType val =? listPointer).
  { unfold readListPtr. destruct (element base (ptr_offset val) 8) as [a|] eqn:EE; [|discriminate].
    apply element_spec in EE.
    destruct (totalListSize val) as [[lsz|]|]; try discriminate.
    destruct (negb _); [discriminate|]. cbv zeta.
    destruct (listType val =? 7).
    - destruct (readRawPointer dst a) as [hdr| |]; cbn [bind]; try discriminate.
      destruct (addSize a 8) as [a'|] eqn:EA; [|discriminate]. apply addSize_spec in EA.
      destruct (negb _); [discriminate|]. destruct (strict && _); [discriminate|].
      destruct (times _ _); [|discriminate]. destruct (negb _); [discriminate|].
      destruct (canRead _ _) as [[|] r]; cbn [fst]; intros H; inversion H. intros _.
      cbn [p_kind p_comp p_off p_size p_bit]. split; [lia|]. split; [|reflexivity].
      rewrite structSize_data. rewrite Z.mul_comm. apply Z.mod_mul. lia.
    - destruct (listType val =? 1).
      + destruct (canRead _ _) as [[|] r]; cbn [fst]; intros H; inversion H. intros _. exact I.
      + destruct (elementSize val) as [es|] eqn:EE2; [|discriminate].
        destruct (canRead _ _) as [[|] r]; cbn [fst]; intros H; inversion H. intros _.
        cbn [p_kind p_comp p_bit p_size]. exact (elementSize_cases val es EE2). }
  destruct (pointerType val =? otherPointer); [|discriminate].
  destruct (negb _); cbn [fst]; intros H; inversion H. intros _. exact I.
Qed.

(* ------------------------------------------------------------------ the destination *)
Definition dok (m : bmsg) : Prop := inv m /\ segs_small m.
Definition grows (m m' : bmsg) : Prop :=
  nsegs m <= nsegs m' /\ forall i, 0 <= i -> zlen (mem m i) <= zlen (mem m' i).
Definition region_ok (m : bmsg) (sid off n : Z) : Prop :=
  0 <= sid < nsegs m /\ 0 <= off /\ off + n <= zlen (mem m sid).

Lemma grows_refl m : grows m m.
Proof. split; [lia|intros; lia]. Qed.
Lemma grows_trans a b c : grows a b -> grows b c -> grows a c.
Proof. intros [A1 A2] [B1 B2]. split; [lia|]. intros i Hi. specialize (A2 i Hi). specialize (B2 i Hi). lia. Qed.
Lemma region_grows m m' sid off n : grows m m' -> region_ok m sid off n -> region_ok m' sid off n.
Proof. intros [G1 G2] (R1 & R2 & R3). specialize (G2 sid ltac:(lia)). unfold region_ok. lia. Qed.

Lemma seg_write_safe m sid addr bs : dok m -> region_ok m sid addr (zlen bs) ->
  exists m', seg_write m sid addr bs = Ok m' /\ dok m' /\ nsegs m' = nsegs m /\
             (forall i, 0 <= i -> zlen (mem m' i) = zlen (mem m i)) /\
             bm_caps m' = bm_caps m /\ bm_rl m' = bm_rl m.
Proof.
  intros [Hi Hs] (R1 & R2 & R3). pose proof (Hs sid) as Hss. unfold maxSegmentSize in Hss.
  pose proof (zlen_nonneg bs) as Hb.
  destruct (seg_write m sid addr bs) as [m'| |] eqn:E.
  - exists m'. split; [reflexivity|].
    pose proof (seg_write_wrote m sid addr bs m' ltac:(lia) ltac:(lia) E) as W.
    split; [split|].
    + eapply wrote_inv; eauto. lia.
    + intros i. destruct (Z_le_gt_dec 0 i).
      * rewrite (wrote_len _ _ _ _ _ i W) by assumption. apply Hs.
      * unfold mem, get_seg. replace (Z.to_nat i) with 0%nat by lia.
        specialize (Hs 0). rewrite <- (wrote_len _ _ _ _ _ 0 W) in Hs by lia. exact Hs.
    + split; [exact (wrote_nsegs _ _ _ _ _ W)|]. split; [intros i Hi0; eapply wrote_len; eauto|].
      destruct W as (_ & _ & _ & _ & _ & _ & _ & _ & W9 & W10). auto.
  - exfalso. exact (seg_write_not_err _ _ _ _ E).
  - exfalso. unfold seg_write, addSizeUnchecked in E. cbv zeta in E.
    fold (mem m sid) in E. unfold blen in E. fold (mem m sid) in E.
    rewrite (u32_id (addr + zlen bs)) in E by lia.
    destruct (_ && _ && _) eqn:E2 in E; [discriminate|]. lia.
Qed.

Lemma writeRaw_safe m sid addr v : dok m -> region_ok m sid addr 8 ->
  exists m', writeRawPointer m sid addr v = Ok m' /\ dok m' /\ nsegs m' = nsegs m /\
             (forall i, 0 <= i -> zlen (mem m' i) = zlen (mem m i)) /\
             bm_caps m' = bm_caps m /\ bm_rl m' = bm_rl m.
Proof. intros Hd Hr. unfold writeRawPointer. apply seg_write_safe; auto. Qed.

Lemma same_len_grows m m' : nsegs m' = nsegs m -> (forall i, 0 <= i -> zlen (mem m' i) = zlen (mem m i)) -> grows m m'.
Proof. intros H1 H2. split; [lia|]. intros i Hi. rewrite H2 by assumption. lia. Qed.

Lemma nextAlloc_nopanic a b c : nextAlloc a b c <> Panic.
Proof.
  unfold nextAlloc. repeat (match goal with |- context [if ?b then _ else _] => destruct b end; try discriminate).
Qed.
Lemma allocSegment_nopanic m sz : allocSegment m sz <> Panic.
Proof.
  unfold allocSegment. destruct (sz >? maxAllocSize); [discriminate|]. destruct (bm_arena m).
  - destruct (negb _); [discriminate|]. destruct (hasCapacity _ _); [discriminate|].
    pose proof (nextAlloc_nopanic (blen (get_seg m 0)) maxAllocSize sz). destruct (nextAlloc _ _ _); cbn; congruence.
  - destruct (multi_find _ _ _ _) as [[id|] total]; [discriminate|].
    pose proof (nextAlloc_nopanic total maxInt64 sz). destruct (nextAlloc _ _ _); cbn; congruence.
Qed.
Lemma alloc_nopanic m sid sz : alloc m sid sz <> Panic.
Proof.
  unfold alloc. destruct (sz >? maxAllocSize); [discriminate|].
  destruct (hasCapacity _ _); cbn [bind].
  - destruct (addSize _ _); discriminate.
  - pose proof (allocSegment_nopanic m (padToWord sz)).
    destruct (allocSegment m (padToWord sz)) as [[m1 s1]| |]; cbn [bind]; try congruence.
    destruct (addSize _ _); discriminate.
Qed.

(* alloc: never a panic; on success the destination stays good, only grows, and the fresh
   region [addr, addr + padToWord sz) is the new end of its segment *)
Lemma alloc_safe m sid sz m' sid' addr : dok m -> 0 <= sid < nsegs m -> 0 <= sz ->
  alloc m sid sz = Ok (m', sid', addr) ->
  dok m' /\ grows m m' /\ 0 <= sid' < nsegs m' /\ 0 <= addr /\ addr = zlen (mem m sid') /\
  zlen (mem m' sid') = addr + padToWord sz /\ sz <= padToWord sz /\
  (forall i, 0 <= i -> i <> sid' -> mem m' i = mem m i) /\
  bm_caps m' = bm_caps m /\ bm_rl m' = bm_rl m.
Proof.
  intros [[Hwf Har] Hs] Hsid Hsz H.
  destruct (alloc_mem _ _ _ _ _ _ Hwf Har Hsid Hsz H) as (A1 & A2 & A3 & A4 & A5 & A6 & A7 & A8 & A9 & A10 & A11 & A12 & A13).
  pose proof H as H'. apply alloc_fresh in H'; auto. cbv zeta in H'.
  destruct H' as (_ & _ & _ & _ & F5 & _).
  split; [split; [split; assumption|]|].
  - intros i. destruct (Z.eq_dec i sid') as [->|Hne]; [assumption|].
    destruct (Z_le_gt_dec 0 i).
    + rewrite A10 by assumption. apply Hs.
    + unfold mem, get_seg. replace (Z.to_nat i) with 0%nat by lia. destruct (Z.eq_dec 0 sid') as [<-|N0].
      * exact A9.
      * specialize (A10 0 ltac:(lia) N0). unfold mem, get_seg in A10. change (Z.to_nat 0) with 0%nat in A10.
        rewrite A10. apply (Hs 0).
  - split.
    { split; [unfold nsegs; lia|]. intros i Hi. destruct (A1 i Hi) as [t ->]. rewrite zlen_app.
      pose proof (zlen_nonneg t). lia. }
    unfold nsegs. repeat split; auto; try lia. subst addr. apply zlen_nonneg.
Qed.

Lemma dok_caps m cs : dok m -> dok (mkBM (bm_arena m) (bm_segs m) cs (bm_rl m)).
Proof. intros [[H1 H2] H3]. split; [split|]; assumption. Qed.

(* ------------------------------------------------------------------ worlds *)
(* [wgood w0 w]: w evolved from w0: destination good and grown, source untouched, source
   budget not increased and not negative *)
Definition wgood (w0 w : world) : Prop :=
  dok (w_dst w) /\ grows (w_dst w0) (w_dst w) /\ w_src w = w_src w0 /\ 0 <= w_src_rl w <= w_src_rl w0.
Definition rpost (w0 : world) (r : res world) : Prop :=
  match r with Panic => False | Err => True | Ok w' => wgood w0 w' end.

Lemma wgood_refl w : dok (w_dst w) -> 0 <= w_src_rl w -> wgood w w.
Proof. intros H1 H2. split; [assumption|]. split; [apply grows_refl|]. split; [reflexivity|lia]. Qed.
Lemma wgood_trans a b c : wgood a b -> wgood b c -> wgood a c.
Proof.
  intros (A1 & A2 & A3 & A4) (B1 & B2 & B3 & B4). split; [assumption|]. split; [eapply grows_trans; eauto|].
  split; [congruence|lia].
Qed.
Lemma rpost_trans a b r : wgood a b -> rpost b r -> rpost a r.
Proof. intros H. destruct r; cbn; auto. intros G. eapply wgood_trans; eauto. Qed.

(* a step that only changes the destination *)
Lemma wgood_set_dst w m' : dok m' -> grows (w_dst w) m' -> 0 <= w_src_rl w -> wgood w (w_set_dst w m').
Proof. intros H1 H2 H3. split; [exact H1|]. split; [exact H2|]. split; [reflexivity|cbn; lia]. Qed.

Lemma lift0_write_safe w sid addr v : dok (w_dst w) -> 0 <= w_src_rl w -> region_ok (w_dst w) sid addr 8 ->
  rpost w (lift0 w (writeRawPointer (w_dst w) sid addr v)).
Proof.
  intros Hd Hr Hreg. destruct (writeRaw_safe (w_dst w) sid addr v Hd Hreg) as (m' & -> & D & N & L & _).
  cbn. apply wgood_set_dst; auto. apply same_len_grows; auto.
Qed.

Lemma fold_res_post {A} (I : A -> Prop) (f : A -> Z -> res A) : forall l a,
  (forall x b, In x l -> I b -> match f b x with Panic => False | Err => True | Ok b' => I b' end) -> I a ->
  match fold_res l a f with Panic => False | Err => True | Ok a' => I a' end.
Proof.
  induction l as [|x l IH]; intros a Hf Ha; cbn [fold_res]; [exact Ha|].
  pose proof (Hf x a (or_introl eq_refl) Ha) as H. destruct (f a x) as [b| |]; cbn [bind]; auto.
  apply IH; auto. intros y c Hy. apply Hf. right. assumption.
Qed.

(* ------------------------------------------------------------------ place *)
Lemma place_safe w dsid off tsid taddr raw : dok (w_dst w) -> 0 <= w_src_rl w ->
  region_ok (w_dst w) dsid off 8 -> 0 <= tsid < nsegs (w_dst w) ->
  rpost w (place w dsid off tsid taddr raw).
Proof.
  intros Hd Hr Hreg Ht. unfold place. cbv zeta.
  destruct (tsid =? dsid); [apply lift0_write_safe; assumption|].
  destruct (hasCapacity (get_seg (w_dst w) tsid) 8) eqn:HC.
  - pose proof (alloc_nopanic (w_dst w) tsid 8) as NP.
    destruct (alloc (w_dst w) tsid 8) as [[[m1 s1] padAddr]| |] eqn:EA; cbn [bind]; [|exact I|congruence].
    pose proof (alloc_in_place (w_dst w) tsid 8 m1 s1 padAddr HC EA) as ->.
    destruct (alloc_safe (w_dst w) tsid 8 m1 tsid padAddr Hd Ht ltac:(lia) EA) as (D1 & G1 & S1 & A0 & A1 & A2 & _).
    change (padToWord 8) with 8 in A2.
    destruct (writeRaw_safe m1 tsid padAddr (withOffset raw (nearPointerOffset padAddr taddr)) D1
                ltac:(unfold region_ok; lia)) as (m2 & -> & D2 & N2 & L2 & _). cbn [bind].
    pose proof (grows_trans _ _ _ G1 (same_len_grows _ _ N2 L2)) as G2.
    destruct (writeRaw_safe m2 dsid off (rawFarPointer tsid padAddr) D2 (region_grows _ _ _ _ _ G2 Hreg))
      as (m3 & -> & D3 & N3 & L3 & _).
    cbn. apply wgood_set_dst; auto. eapply grows_trans; [exact G2|apply same_len_grows; auto].
  - destruct Hreg as (Hds & Ho1 & Ho2).
    pose proof (alloc_nopanic (w_dst w) dsid 16) as NP.
    destruct (alloc (w_dst w) dsid 16) as [[[m1 psid] padAddr]| |] eqn:EA; cbn [bind]; [|exact I|congruence].
    destruct (alloc_safe (w_dst w) dsid 16 m1 psid padAddr Hd Hds ltac:(lia) EA) as (D1 & G1 & S1 & A0 & A1 & A2 & _).
    change (padToWord 16) with 16 in A2.
    destruct D1 as [I1 Sm1]. pose proof (Sm1 psid) as Sp. unfold maxSegmentSize in Sp.
    destruct (writeRaw_safe m1 psid padAddr (rawFarPointer tsid taddr) (conj I1 Sm1)
                ltac:(unfold region_ok; lia)) as (m2 & -> & D2 & N2 & L2 & _). cbn [bind].
    unfold addSizeUnchecked. rewrite (u32_id (padAddr + 8)) by lia.
    destruct (writeRaw_safe m2 psid (padAddr + 8) raw D2
                ltac:(unfold region_ok; rewrite N2, (L2 psid) by lia; lia)) as (m3 & -> & D3 & N3 & L3 & _).
    cbn [bind].
    pose proof (grows_trans _ _ _ G1 (grows_trans _ _ _ (same_len_grows _ _ N2 L2) (same_len_grows _ _ N3 L3))) as G3.
    destruct (writeRaw_safe m3 dsid off (rawDoubleFarPointer psid padAddr) D3
                (region_grows _ _ _ _ _ G3 (conj Hds (conj Ho1 Ho2)))) as (m4 & -> & D4 & N4 & L4 & _).
    cbn. apply wgood_set_dst; auto. eapply grows_trans; [exact G3|apply same_len_grows; auto].
Qed.

(* ------------------------------------------------------------------ small facts *)
Lemma rawStructPointer_some o sz : DataSize sz mod 8 = 0 -> exists v, rawStructPointer o sz = Some v.
Proof.
  intros H. unfold rawStructPointer, dataWordCount. destruct (DataSize sz mod 8 =? 0) eqn:E; [|lia].
  eexists. reflexivity.
Qed.

Lemma times_some a b : 0 <= a * b <= maxSegmentSize -> times a b = Some (a * b).
Proof.
  intros H. unfold times. cbv zeta.
  destruct ((a * b >? maxSegmentSize) || (a * b <? 0)) eqn:E; [lia|reflexivity].
Qed.

Lemma src_data_slice m p : msg_ok m -> wf_struct m p -> p_valid p = true ->
  slice (seg_of m p) (p_off p) (DataSize (p_size p)) = Ok (sub (seg_of m p) (p_off p) (DataSize (p_size p))) /\
  zlen (sub (seg_of m p) (p_off p) (DataSize (p_size p))) = DataSize (p_size p).
Proof.
  intros Hm Hw V. destruct (wf_struct_inv m p Hw V) as (Hs & Hz & Ho & He). unfold wf_size in Hz.
  destruct (seg_of_ok m p Hm) as [Hl _]. unfold maxSegmentSize in Hl.
  split; [apply slice_ok; lia|apply sub_length; lia].
Qed.

Lemma dst_slice m sid off n : dok m -> region_ok m sid off n -> 0 <= n ->
  slice (mem m sid) off n = Ok (sub (mem m sid) off n) /\ zlen (sub (mem m sid) off n) = n.
Proof.
  intros [_ Hs] (R1 & R2 & R3) Hn. pose proof (Hs sid) as H. unfold maxSegmentSize in H.
  split; [apply slice_ok; lia|apply sub_length; lia].
Qed.

(* element i of a destination list *)
Lemma list_struct_at p i : p_valid p = true -> p_bit p = false -> 0 <= i < p_len p ->
  0 <= p_off p + i * totalSize (p_size p) <= maxSegmentSize ->
  exists d, list_struct true p i = Ok (mkPtr true (p_seg p) (p_off p + i * totalSize (p_size p)) 0 (p_size p) d
                                           KStruct false false true).
Proof.
  intros V B Hi Hr. unfold list_struct. rewrite V, B. cbn [negb orb].
  destruct (i <? 0) eqn:E1; [lia|]. destruct (i >=? p_len p) eqn:E2; [lia|]. cbn [orb].
  destruct (element _ _ _) eqn:E.
  - apply element_spec in E. destruct E as [-> _]. eexists. reflexivity.
  - apply element_none in E. lia.
Qed.

Lemma list_raw_shape p : p_valid p = true -> p_kind p = KList -> shape_ok p -> list_raw p <> Panic.
Proof.
  intros V K Hs. specialize (Hs V). rewrite K in Hs. unfold list_raw. rewrite V. cbn [negb].
  destruct (p_comp p).
  - destruct Hs as (_ & Hd & _). unfold totalWordCount, dataWordCount.
    destruct (DataSize (p_size p) mod 8 =? 0) eqn:E; [discriminate|lia].
  - destruct (p_bit p); [discriminate|].
    destruct Hs as [-> |[-> |[-> |[-> |[-> | -> ]]]]];
      cbv [DataSize PointerCount Z.eqb Pos.eqb andb negb]; discriminate.
Qed.

Definition dst_ok (m : bmsg) (d : Ptr) : Prop :=
  p_valid d = true /\ wf_size (p_size d) /\
  region_ok m (p_seg d) (p_off d) (DataSize (p_size d) + 8 * PointerCount (p_size d)).

Lemma dst_ptr_slot m d j : dok m -> dst_ok m d -> 0 <= j < PointerCount (p_size d) ->
  region_ok m (p_seg d) (pointerAddress d j) 8.
Proof.
  intros [_ Hs] (V & Hz & R1 & R2 & R3) Hj. unfold wf_size in Hz. pose proof (Hs (p_seg d)) as H.
  rewrite pointerAddress_eq by lia. unfold region_ok. lia.
Qed.

(* ------------------------------------------------------------------ unfolding equations (repaired variant) *)
Lemma write_ptr_S f strict w dsid off l src forceCopy :
  write_ptr (S f) strict w dsid off l src forceCopy =
    if negb (p_valid src) then lift0 w (writeRawPointer (w_dst w) dsid off 0) else
    match p_kind src with
    | KIface =>
      if is_src l then
        let m := w_dst w in
        let c := zlen (bm_caps m) in
        let m1 := mkBM (bm_arena m) (bm_segs m) (bm_caps m ++ [p_len src]) (bm_rl m) in
        lift0 w (writeRawPointer m1 dsid off (rawInterfacePointer (u32 c)))
      else lift0 w (writeRawPointer (w_dst w) dsid off (rawInterfacePointer (p_len src)))
    | KStruct =>
      if os_isZero (p_size src) then
        do v <- of_opt_panic (rawStructPointer (-1) (mkOS 0 0));
        lift0 w (writeRawPointer (w_dst w) dsid off v)
      else
        do r <- (if forceCopy || is_src l || p_member src then
                   let csz := mkOS (padToWord (DataSize (p_size src))) (PointerCount (p_size src)) in
                   do a <- alloc (w_dst w) dsid (totalSize csz);
                   let '(m1, nsid, naddr) := a in
                   let dstp := mkPtr true nsid naddr 0 csz maxDepth KStruct false false false in
                   do w2 <- copy_struct f strict (w_set_dst w m1) dstp l src;
                   Ok (w2, dstp)
                 else Ok (w, src));
        let '(w', st) := r in
        do raw <- of_opt_panic (rawStructPointer 0 (p_size st));
        place w' dsid off (p_seg st) (p_off st) raw
    | KList =>
      do r <- (if forceCopy || is_src l then
                 let sz := list_allocSize src in
                 do a <- alloc (w_dst w) dsid sz;
                 let '(m1, nsid, naddr) := a in
                 let w1 := w_set_dst w m1 in
                 do x <- (if p_comp src then
                            do tag <- readRawPointer (nth (Z.to_nat (p_seg src)) (w_segs w1 l) []) (u32 (p_off src - 8));
                            do w2 <- lift0 w1 (writeRawPointer (w_dst w1) nsid naddr tag);
                            match addSize naddr 8 with
                            | None => Err
                            | Some o => Ok (w2, o, u32 (sz - 8))
                            end
                          else Ok (w1, naddr, sz));
                 let '(w2, doff, sz') := x in
                 let dstl := mkPtr true nsid doff (p_len src) (p_size src) maxDepth KList (p_comp src) (p_bit src) false in
                 do w3 <- (if p_bit src || (PointerCount (p_size src) =? 0) then
                             copy_bytes w2 l (p_seg src) (p_off src) nsid doff sz'
                           else
                             fold_res (iota (Z.to_nat (list_len src))) w2
                               (fun wa i =>
                                  do de <- list_struct true dstl i;
                                  do se <- list_struct true src i;
                                  copy_struct f strict wa de l se));
                 Ok (w3, dstl)
               else Ok (w, src));
      let '(w', lst) := r in
      let taddr := if p_comp lst then u32 (p_off lst - 8) else p_off lst in
      do raw <- list_raw lst;
      place w' dsid off (p_seg lst) taddr raw
    end.
Proof. reflexivity. Qed.

Lemma copy_struct_S f strict w dst l src :
  copy_struct (S f) strict w dst l src =
    if negb (p_valid dst) then Panic
    else if negb (p_valid src) then Ok w
    else
      do srcData <- slice (nth (Z.to_nat (p_seg src)) (w_segs w l) []) (p_off src) (DataSize (p_size src));
      do dstData <- slice (nth (Z.to_nat (p_seg dst)) (bm_data (w_dst w)) []) (p_off dst) (DataSize (p_size dst));
      let n := Nat.min (length srcData) (length dstData) in
      do w1 <- lift0 w (seg_write (w_dst w) (p_seg dst) (p_off dst)
                                  (firstn n srcData ++ repeat 0 (length dstData - n)));
      let ns := PointerCount (p_size src) in
      let nd := PointerCount (p_size dst) in
      do w2 <- fold_res (iota (Z.to_nat (Z.min ns nd))) w1
                 (fun wa j =>
                    let '(r, rl') := readPtr strict (w_segs wa l) (w_rl wa l) (p_seg src)
                                             (nth (Z.to_nat (p_seg src)) (w_segs wa l) [])
                                             (pointerAddress src j) (p_depth src) in
                    do q <- r;
                    write_ptr f strict (w_set_rl wa l rl') (p_seg dst) (pointerAddress dst j) l q true);
      fold_res (map (fun k => ns + k) (iota (Z.to_nat (nd - ns)))) w2
               (fun wa j => lift0 wa (writeRawPointer (w_dst wa) (p_seg dst) (pointerAddress dst j) 0)).
Proof. reflexivity. Qed.
Lemma write_ptr_O strict w dsid off l src fc : write_ptr 0 strict w dsid off l src fc = Err.
Proof. reflexivity. Qed.
Lemma copy_struct_O strict w dst l src : copy_struct 0 strict w dst l src = Err.
Proof. reflexivity. Qed.

(* the padded size of a struct copy *)
Lemma pad_size_wf sz : wf_size sz ->
  let sz' := mkOS (padToWord (DataSize sz)) (PointerCount sz) in
  wf_size sz' /\ DataSize sz <= DataSize sz' /\ DataSize sz' mod 8 = 0.
Proof. intros [H1 H2]. unfold wf_size, padToWord, u32. cbn [DataSize PointerCount]. lia. Qed.

(* ------------------------------------------------------------------ the copy never panics *)
Definition P_wp (f : nat) : Prop := forall w dsid off src fc,
  dok (w_dst w) -> msg_ok (w_src w) -> 0 <= w_src_rl w -> region_ok (w_dst w) dsid off 8 ->
  wf_ptr (w_src w) src -> shape_ok src ->
  rpost w (write_ptr f true w dsid off InSrc src fc).
Definition P_cs (f : nat) : Prop := forall w dst src,
  dok (w_dst w) -> msg_ok (w_src w) -> 0 <= w_src_rl w -> dst_ok (w_dst w) dst ->
  wf_struct (w_src w) src ->
  rpost w (copy_struct f true w dst InSrc src).

Lemma cs_step f : P_wp f -> P_cs (S f).
Proof.
  intros IH w dst src Hd Hm Hr Hdst Hs. pose proof Hdst as (Vd & Zd & Rd). rewrite copy_struct_S. cbv zeta.
  rewrite Vd. cbn [negb]. destruct (p_valid src) eqn:Vs; cbn [negb]; [|cbn; apply wgood_refl; assumption].
  cbn [w_segs]. change (nth (Z.to_nat (p_seg src)) (w_src w) []) with (seg_of (w_src w) src).
  destruct (src_data_slice _ src Hm Hs Vs) as [-> Ls]. cbn [bind].
  rewrite nth_bm_data. unfold wf_size in Zd.
  destruct (dst_slice (w_dst w) (p_seg dst) (p_off dst) (DataSize (p_size dst)) Hd
              ltac:(destruct Rd as (R1 & R2 & R3); unfold region_ok; lia) ltac:(lia)) as [-> Ld].
  cbn [bind].
  set (sd := sub (seg_of (w_src w) src) (p_off src) (DataSize (p_size src))) in *.
  set (dd := sub (mem (w_dst w) (p_seg dst)) (p_off dst) (DataSize (p_size dst))) in *.
  set (bs := firstn (Nat.min (length sd) (length dd)) sd ++ repeat 0 (length dd - Nat.min (length sd) (length dd))).
  assert (zlen bs = DataSize (p_size dst)) as Lb.
  { unfold bs, zlen in *. rewrite app_length, firstn_length, repeat_length. lia. }
  destruct (seg_write_safe (w_dst w) (p_seg dst) (p_off dst) bs Hd
              ltac:(destruct Rd as (R1 & R2 & R3); unfold region_ok; lia)) as (m1 & -> & D1 & N1 & L1 & _).
  cbn [lift0 bind].
  assert (wgood w (w_set_dst w m1)) as G1 by (apply wgood_set_dst; auto; apply same_len_grows; auto).
  (* the common pointers *)
  pose proof (fold_res_post (wgood w)
    (fun wa j =>
       let '(r, rl') := readPtr true (w_segs wa InSrc) (w_rl wa InSrc) (p_seg src)
                                (nth (Z.to_nat (p_seg src)) (w_segs wa InSrc) []) (pointerAddress src j) (p_depth src) in
       do q <- r; write_ptr f true (w_set_rl wa InSrc rl') (p_seg dst) (pointerAddress dst j) InSrc q true)
    (iota (Z.to_nat (Z.min (PointerCount (p_size src)) (PointerCount (p_size dst))))) (w_set_dst w m1)) as F1.
  match type of F1 with ?A -> ?B -> ?C => assert A as HA end.
  { intros j wa Hj (Da & Ga & Sa & Ra). apply in_iota in Hj. cbn [w_segs w_rl]. rewrite Sa.
    change (nth (Z.to_nat (p_seg src)) (w_src w) []) with (seg_of (w_src w) src).
    destruct (wf_struct_inv _ src Hs Vs) as (Hsg & Hz & Ho & He). unfold wf_size in Hz.
    pose proof (pointerAddress_spec _ src j Hm Hs Vs ltac:(lia)) as PA.
    pose proof (readPtr_safe true (w_src w) (w_src_rl wa) (p_seg src) (seg_of (w_src w) src) (pointerAddress src j)
                  (p_depth src) Hm (seg_of_is_seg _ src Hsg) ltac:(lia) ltac:(lia)) as RS.
    pose proof (readPtr_charge true (w_src w) (w_src_rl wa) (p_seg src) (seg_of (w_src w) src) (pointerAddress src j)
                  (p_depth src) ltac:(lia)) as [RC _].
    pose proof (readPtr_shape true (w_src w) (w_src_rl wa) (p_seg src) (seg_of (w_src w) src) (pointerAddress src j)
                  (p_depth src)) as RH.
    destruct (readPtr true (w_src w) (w_src_rl wa) (p_seg src) (seg_of (w_src w) src) (pointerAddress src j) (p_depth src))
      as [r rl']. cbn [fst snd] in *.
    destruct r as [q| |]; cbn [bind res_sat] in *; [|exact I|exact RS].
    assert (wgood w (w_set_rl wa InSrc rl')) as Gb.
    { split; [exact Da|]. split; [exact Ga|]. split; [exact Sa|]. cbn. lia. }
    eapply rpost_trans; [exact Gb|].
    apply IH; cbn [w_set_rl w_dst w_src w_src_rl]; auto; try lia.
    - rewrite Sa. exact Hm.
    - eapply region_grows; [exact Ga|]. apply dst_ptr_slot; auto. lia.
    - rewrite Sa. apply RS. reflexivity. }
  specialize (F1 HA G1). clear HA.
  destruct (fold_res _ _ _) as [w2| |]; cbn [bind]; [|exact I|exact F1].
  (* the destination's extra pointers are cleared *)
  pose proof (fold_res_post (wgood w)
    (fun wa j => lift0 wa (writeRawPointer (w_dst wa) (p_seg dst) (pointerAddress dst j) 0))
    (map (fun k => PointerCount (p_size src) + k)
         (iota (Z.to_nat (PointerCount (p_size dst) - PointerCount (p_size src))))) w2) as F2.
  apply F2; [|exact F1].
  intros j wa Hj (Da & Ga & Sa & Ra). apply in_map_iff in Hj. destruct Hj as (k & <- & Hk). apply in_iota in Hk.
  destruct (wf_struct_inv _ src Hs Vs) as (_ & [_ Hz] & _).
  eapply rpost_trans; [split; [exact Da|split; [exact Ga|split; [exact Sa|exact Ra]]]|].
  apply lift0_write_safe; auto; try lia.
  eapply region_grows; [exact Ga|]. apply dst_ptr_slot; auto. lia.
Qed.

Lemma wp_step f : P_cs f -> P_wp (S f).
Proof.
  intros IH w dsid off src fc Hd Hm Hr Hreg Hs Hsh. rewrite write_ptr_S.
  destruct (p_valid src) eqn:V; cbn [negb]; [|apply lift0_write_safe; assumption].
  pose proof (Hs V) as [Hseg Hobj]. specialize (Hsh V). unfold wf_obj in Hobj.
  destruct (p_kind src) eqn:K.
  - (* struct *)
    destruct Hobj as (Hz & Ho & He).
    destruct (os_isZero (p_size src)).
    { destruct (rawStructPointer (-1) (mkOS 0 0)) eqn:E; [|vm_compute in E; discriminate].
      cbn [of_opt_panic bind]. apply lift0_write_safe; assumption. }
    cbn [is_src]. rewrite Bool.orb_true_r. cbn [orb]. cbv zeta.
    destruct (pad_size_wf _ Hz) as (Hzc & Hle & H8). cbv zeta in Hzc, Hle, H8.
    set (csz := mkOS (padToWord (DataSize (p_size src))) (PointerCount (p_size src))) in *.
    pose proof (alloc_nopanic (w_dst w) dsid (totalSize csz)) as NP.
    destruct (alloc (w_dst w) dsid (totalSize csz)) as [[[m1 nsid] naddr]| |] eqn:EA; cbn [bind];
      [|exact I|congruence].
    pose proof (totalSize_bound _ Hzc) as Hts.
    destruct (alloc_safe (w_dst w) dsid (totalSize csz) m1 nsid naddr Hd (proj1 Hreg) ltac:(lia) EA)
      as (D1 & G1 & S1 & A0 & A1 & A2 & A3 & _).
    assert (wgood w (w_set_dst w m1)) as Gw1 by (apply wgood_set_dst; auto).
    set (dstp := mkPtr true nsid naddr 0 csz maxDepth KStruct false false false).
    pose proof (IH (w_set_dst w m1) dstp src D1 Hm Hr) as C.
    assert (dst_ok m1 dstp) as Hdo.
    { split; [reflexivity|]. split; [exact Hzc|]. unfold dstp, region_ok. cbn [p_seg p_off p_size].
      rewrite (totalSize_wf _ Hzc) in *. lia. }
    specialize (C Hdo (conj Hs (fun _ => K))).
    destruct (copy_struct f true (w_set_dst w m1) dstp InSrc src) as [w2| |]; cbn [bind]; [|exact I|exact C].
    cbn [rpost] in C. pose proof (wgood_trans _ _ _ Gw1 C) as G2. destruct G2 as (D2 & Gr2 & S2 & R2).
    destruct (rawStructPointer_some 0 (p_size dstp) H8) as [raw ->]. cbn [of_opt_panic bind].
    eapply rpost_trans; [split; [exact D2|split; [exact Gr2|split; [exact S2|exact R2]]]|].
    apply place_safe; auto; try lia.
    + eapply region_grows; eassumption.
    + unfold dstp. cbn [p_seg]. destruct Gr2 as [Gn _]. cbn [w_dst w_set_dst] in *.
      destruct C as (_ & [Gn2 _] & _). cbn [w_dst w_set_dst] in Gn2. lia.
  - (* list *)
    destruct Hobj as (Ho & Hl & Hr').
    cbn [is_src]. rewrite Bool.orb_true_r.
    destruct (seg_of_ok (w_src w) src Hm) as [Hsl _].
    (* content size of the list and what list_allocSize asks for *)
    set (content := if p_bit src then (p_len src + 7) / 8 else p_len src * totalSize (p_size src)).
    assert (0 <= content /\ p_off src + content <= zlen (seg_of (w_src w) src)) as [Hc0 Hc1].
    { unfold content. destruct (p_bit src); [lia|]. destruct Hr' as [Hz Hr']. pose proof (totalSize_bound _ Hz). split; [nia|lia]. }
    assert (list_allocSize src = if p_comp src then content + 8 else content) as Hsz.
    { unfold list_allocSize, content. rewrite V. cbn [negb].
      destruct (p_bit src) eqn:B.
      - destruct (p_comp src); [destruct Hsh as (_ & _ & X); discriminate X|]. apply bitListSize_spec. lia.
      - destruct Hr' as [Hz Hr']. pose proof (totalSize_bound _ Hz).
        rewrite Z.mul_comm. rewrite times_some by (rewrite Z.mul_comm; nia). rewrite (Z.mul_comm (totalSize _)).
        destruct (p_comp src); cbn [negb]; [|reflexivity]. destruct Hsh as (H8 & _). unfold maxSegmentSize in Hsl.
        apply u32_id. lia. }
    pose proof (alloc_nopanic (w_dst w) dsid (list_allocSize src)) as NP.
    destruct (alloc (w_dst w) dsid (list_allocSize src)) as [[[m1 nsid] naddr]| |] eqn:EA; cbn [bind];
      [|exact I|congruence].
    destruct (alloc_safe (w_dst w) dsid (list_allocSize src) m1 nsid naddr Hd (proj1 Hreg)
                ltac:(rewrite Hsz; destruct (p_comp src); lia) EA) as (D1 & G1 & S1 & A0 & A1 & A2 & A3 & _).
    assert (wgood w (w_set_dst w m1)) as Gw1 by (apply wgood_set_dst; auto).
    (* the part after the (optional) tag word, for any start offset of the elements *)
    match goal with |- rpost w (bind (bind _ ?K1) ?K0) =>
      assert (forall w2 doff, wgood w w2 -> 0 <= doff -> naddr <= doff ->
                doff + content <= zlen (mem m1 nsid) -> grows m1 (w_dst w2) ->
                (if p_comp src then doff = naddr + 8 else doff = naddr) ->
                rpost w (bind (K1 (w2, doff, content)) K0)) as Htail end.
    { intros w2 doff Gw2 Hd0 Hd1 Hd2 Gm Hdo. cbv beta iota zeta.
      destruct Gw2 as (D2 & Gr2 & S2 & R2).
      set (dstl := mkPtr true nsid doff (p_len src) (p_size src) maxDepth KList (p_comp src) (p_bit src) false).
      assert (region_ok (w_dst w2) nsid doff content) as Rl.
      { eapply region_grows; [exact Gm|]. unfold region_ok. lia. }
      assert (rpost w2 (if p_bit src || (PointerCount (p_size src) =? 0)
                        then copy_bytes w2 InSrc (p_seg src) (p_off src) nsid doff content
                        else fold_res (iota (Z.to_nat (list_len src))) w2
                               (fun wa i => do de <- list_struct true dstl i; do se <- list_struct true src i;
                                            copy_struct f true wa de InSrc se))) as H3.
      { destruct (p_bit src || (PointerCount (p_size src) =? 0)) eqn:Ebp.
        - unfold copy_bytes. cbn [w_segs]. rewrite S2.
          change (nth (Z.to_nat (p_seg src)) (w_src w) []) with (seg_of (w_src w) src).
          unfold maxSegmentSize in Hsl. rewrite slice_ok by lia. cbn [bind].
          destruct (seg_write_safe (w_dst w2) nsid doff (sub (seg_of (w_src w) src) (p_off src) content) D2
                      ltac:(rewrite sub_length by lia; exact Rl)) as (m3 & -> & D3 & N3 & L3 & _).
          cbn. apply wgood_set_dst; auto; try lia. apply same_len_grows; auto.
        - assert (p_bit src = false) as B by (destruct (p_bit src); [discriminate|reflexivity]).
          unfold content in *. rewrite B in *. destruct Hr' as [Hz Hr'].
          pose proof (totalSize_bound _ Hz) as Hts. pose proof (totalSize_wf _ Hz) as Ets.
          apply (fold_res_post (wgood w2)); [|apply wgood_refl; auto; lia].
          intros i wa Hi (Da & Ga & Sa & Ra). apply in_iota in Hi.
          assert (0 <= i < p_len src) as Hi' by (unfold list_len in Hi; rewrite V in Hi; lia).
          assert (i * totalSize (p_size src) + totalSize (p_size src) <= p_len src * totalSize (p_size src)) as Hie by nia.
          assert (0 <= i * totalSize (p_size src)) as Hi0 by nia.
          destruct D1 as [I1 Sm1]. pose proof (Sm1 nsid) as Smn.
          destruct (list_struct_at dstl i eq_refl B Hi' ltac:(cbn [p_off p_size dstl]; lia)) as [dd ->].
          cbn [bind p_seg p_off p_size dstl].
          pose proof (list_struct_safe true (w_src w) src i Hm (conj Hs (fun _ => K))
                        ltac:(unfold list_len; rewrite V; lia)) as Hse.
          destruct (list_struct true src i) as [se| |]; cbn [bind res_sat] in *; [|exact I|exact Hse].
          eapply rpost_trans; [split; [exact Da|split; [exact Ga|split; [exact Sa|exact Ra]]]|].
          apply IH; auto; try lia.
          + rewrite Sa, S2. exact Hm.
          + split; [reflexivity|]. split; [exact Hz|]. cbn [p_seg p_off p_size].
            eapply region_grows; [exact Ga|]. destruct Rl as (Q1 & Q2 & Q3). unfold region_ok.
            rewrite <- Ets. lia.
          + rewrite Sa, S2. exact Hse. }
      match goal with |- rpost w (bind (bind ?X _) _) => change X with
        (if p_bit src || (PointerCount (p_size src) =? 0)
         then copy_bytes w2 InSrc (p_seg src) (p_off src) nsid doff content
         else fold_res (iota (Z.to_nat (list_len src))) w2
                (fun wa i => do de <- list_struct true dstl i; do se <- list_struct true src i;
                             copy_struct f true wa de InSrc se)) end.
      destruct (if p_bit src || (PointerCount (p_size src) =? 0) then _ else _) as [w3| |]; cbn [bind];
        [|exact I|exact H3].
      cbn [rpost] in H3. fold dstl.
      pose proof (wgood_trans _ _ _ (conj D2 (conj Gr2 (conj S2 R2))) H3) as G3.
      destruct G3 as (D3 & Gr3 & S3 & R3).
      assert (shape_ok dstl) as Hshl.
      { intros _. cbn [p_kind p_comp p_bit p_size p_off dstl].
        destruct (p_comp src); [|exact Hsh]. destruct Hsh as (_ & X & Y). split; [lia|]. split; assumption. }
      pose proof (list_raw_shape dstl eq_refl eq_refl Hshl) as NR.
      destruct (list_raw dstl) as [raw| |]; cbn [bind]; [|exact I|congruence].
      eapply rpost_trans; [split; [exact D3|split; [exact Gr3|split; [exact S3|exact R3]]]|].
      apply place_safe; auto; try lia.
      - eapply region_grows; eassumption.
      - cbn [p_seg dstl]. destruct H3 as (_ & [Gn3 _] & _). destruct Gm as [Gnm _]. lia. }
    destruct (p_comp src) eqn:C.
    + (* composite: the tag word is copied first *)
      destruct Hsh as (H8 & _). unfold maxSegmentSize in Hsl.
      cbn [w_segs w_set_dst w_src w_dst]. rewrite (u32_id (p_off src - 8)) by lia.
      change (nth (Z.to_nat (p_seg src)) (w_src w) []) with (seg_of (w_src w) src).
      destruct (readRawPointer_ok (seg_of (w_src w) src) (p_off src - 8) (seg_of_ok _ src Hm) ltac:(lia) ltac:(lia))
        as [tag [-> _]]. cbn [bind].
      rewrite Hsz in A2, A3.
      destruct (writeRaw_safe m1 nsid naddr tag D1 ltac:(unfold region_ok; lia)) as (m2 & -> & D2 & N2 & L2 & _).
      cbn [lift0 bind].
      destruct (addSize naddr 8) as [o|] eqn:Eo; [|exact I]. apply addSize_spec in Eo. destruct Eo as [-> _].
      cbn [bind]. rewrite Hsz. replace (u32 (content + 8 - 8)) with content by (rewrite u32_id; lia).
      apply Htail; try lia.
      * cbn [w_set_dst]. eapply wgood_trans; [exact Gw1|].
        apply wgood_set_dst; auto. apply same_len_grows; auto.
      * cbn [w_dst w_set_dst]. apply same_len_grows; auto.
    + cbn [bind]. rewrite Hsz. rewrite Hsz in A2, A3. apply Htail; try lia; auto. apply grows_refl.
  - (* capability *)
    cbn [is_src]. cbv zeta.
    set (m1 := mkBM (bm_arena (w_dst w)) (bm_segs (w_dst w)) (bm_caps (w_dst w) ++ [p_len src]) (bm_rl (w_dst w))).
    pose proof (lift0_write_safe (mkW m1 (w_src w) (w_src_rl w)) dsid off
                  (rawInterfacePointer (u32 (zlen (bm_caps (w_dst w))))) (dok_caps _ _ Hd) Hr Hreg) as H.
    cbn [w_dst] in H. unfold lift0 in *.
    destruct (writeRawPointer m1 dsid off _) as [m'| |]; cbn [bind rpost] in *; auto.
Qed.

Theorem copy_all : forall f, P_wp f /\ P_cs f.
Proof.
  induction f as [|f [IHw IHc]].
  - split; intros ?; intros; [rewrite write_ptr_O|rewrite copy_struct_O]; exact I.
  - split; [apply wp_step; assumption|apply cs_step; assumption].
Qed.

(* ------------------------------------------------------------------ copy_safe (no panic) *)
(* Segment.writePtr with a pointer from another (hostile) message: Struct.SetPtr, PointerList.Set,
   Message.SetRoot across messages.  Any fuel, any limits. *)
Theorem write_ptr_safe f w dsid off src fc :
  dok (w_dst w) -> msg_ok (w_src w) -> 0 <= w_src_rl w -> region_ok (w_dst w) dsid off 8 ->
  wf_ptr (w_src w) src -> shape_ok src ->
  rpost w (write_ptr f true w dsid off InSrc src fc).
Proof. destruct (copy_all f) as [H _]. apply H. Qed.

(* copyStruct: List.SetStruct / Struct.CopyFrom across messages *)
Theorem copy_struct_safe f w dst src :
  dok (w_dst w) -> msg_ok (w_src w) -> 0 <= w_src_rl w -> dst_ok (w_dst w) dst ->
  wf_struct (w_src w) src ->
  rpost w (copy_struct f true w dst InSrc src).
Proof. destruct (copy_all f) as [_ H]. apply H. Qed.

(* every pointer the reader hands out has the shape writePtr needs *)
Theorem reader_ptr_shape strict m rl sid s paddr depth q :
  fst (readPtr strict m rl sid s paddr depth) = Ok q -> shape_ok q.
Proof. exact (readPtr_shape strict m rl sid s paddr depth q). Qed.
(* ... and so has every list element (a struct needs no shape in the repaired code) *)
Lemma list_struct_shape fd p i e : list_struct fd p i = Ok e -> shape_ok e.
Proof.
  unfold list_struct. destruct (_ || _ || _); [discriminate|].
  destruct (p_bit p); [intros H; inversion H; apply shape_null|].
  destruct (element _ _ _); intros H; inversion H; [|apply shape_null]. intros _. exact I.
Qed.

(* FINDING (reproduced on the Go code at repo 38ec570, repaired since by "fix: writePtr pads the
   data section of a copied list-member struct to a whole word"): as found (write_ptr_asfound)
   the statement is false.  List.Struct(i) on a byte list hands out a Struct of DataSize 1 (what
   generated StructList.At(i) does when a hostile message supplies a byte list for a
   List(struct) field); copying it with SetRoot / SetPtr panics in rawStructPointer ("data size
   not aligned by word").  The repaired variant copies it (zero-extended to a word). *)
Definition unaligned_msg : segs := [[0;0;0;0;0;0;1;0;  1;0;0;0;26;0;0;0;  104;105;0;0;0;0;0;0]].
Example copy_unaligned_refuted :
  let c := mkCfg 0 0 true true in
  msg_ok unaligned_msg /\
  exists r l e m0,
    fst (root c unaligned_msg 1000) = Ok r /\
    fst (struct_ptr c unaligned_msg 1000 r 0) = Ok l /\
    list_struct true l 0 = Ok e /\ wf_ptr unaligned_msg e /\ p_size e = mkOS 1 0 /\
    new_message ASingle [] 0 = Ok m0 /\ dok m0 /\
    write_ptr_asfound 8 true (mkW m0 unaligned_msg 1000) 0 0 InSrc e false = Panic /\
    exists w', write_ptr 8 true (mkW m0 unaligned_msg 1000) 0 0 InSrc e false = Ok w'.
Proof.
  split; [repeat constructor; cbn; try lia; unfold maxSegmentSize; lia|].
  do 4 eexists. split; [vm_compute; reflexivity|]. split; [vm_compute; reflexivity|].
  split; [vm_compute; reflexivity|]. split.
  { intros _. split; [cbn; lia|]. unfold wf_obj, wf_size. cbn. lia. }
  split; [reflexivity|]. split; [vm_compute; reflexivity|]. split.
  { split; [split|].
    - repeat constructor; cbn; lia.
    - intros _. reflexivity.
    - intros i. unfold mem, get_seg. cbn. destruct (Z.to_nat i) as [|[|n]]; cbn; unfold maxSegmentSize; lia. }
  split; [vm_compute; reflexivity|]. eexists. vm_compute. reflexivity.
Qed.

(* ------------------------------------------------------------------ fuel *)
(* Builder.v reports fuel exhaustion as [Err]; it is excluded by stability: from the fuel
   computed below on, more fuel does not change the result, so no [Err] is a fuel artefact.
   writePtr -> copyStruct -> writePtr costs two units per pointer level:
   a valid pointer with depth budget d needs 2d + 3, copy_struct from a struct with budget d
   needs 2d + 2 (for a pointer obtained under depth limit D: 2D + 1). *)
Definition wneed (q : Ptr) : Z := if p_valid q then 2 * p_depth q + 3 else 1.
Definition cneed (s : Ptr) : Z := if p_valid s then 2 * p_depth s + 2 else 1.
Definition depth_nonneg (p : Ptr) : Prop := p_valid p = true -> 0 <= p_depth p.

Lemma fold_res_ext {A} (f g : A -> Z -> res A) : forall l a,
  (forall x b, In x l -> f b x = g b x) -> fold_res l a f = fold_res l a g.
Proof.
  induction l as [|x l IH]; intros a H; cbn [fold_res]; [reflexivity|].
  rewrite (H x a (or_introl eq_refl)). destruct (g a x); cbn [bind]; try reflexivity.
  apply IH. intros y b Hy. apply H. right. assumption.
Qed.

Definition S_wp (f : nat) : Prop := forall strict w dsid off l src fc,
  depth_nonneg src -> wneed src <= Z.of_nat f ->
  write_ptr f strict w dsid off l src fc = write_ptr (S f) strict w dsid off l src fc.
Definition S_cs (f : nat) : Prop := forall strict w dst l src,
  depth_nonneg src -> cneed src <= Z.of_nat f ->
  copy_struct f strict w dst l src = copy_struct (S f) strict w dst l src.

Lemma list_struct_true_depth p i e : depth_nonneg p -> list_struct true p i = Ok e ->
  depth_nonneg e /\ (p_valid e = true -> p_valid p = true /\ p_depth e <= p_depth p).
Proof.
  intros Hp H. split.
  - intros V. assert (p_valid p = true) as Vp.
    { unfold list_struct in H. destruct (p_valid p); [reflexivity|discriminate]. }
    destruct (list_struct_depth p i e (Hp Vp) H V) as (_ & X). lia.
  - intros V. assert (p_valid p = true) as Vp.
    { unfold list_struct in H. destruct (p_valid p); [reflexivity|discriminate]. }
    destruct (list_struct_depth p i e (Hp Vp) H V) as (_ & X). split; [assumption|lia].
Qed.

Lemma wp_stable_step f : S_cs f -> S_wp (S f).
Proof.
  intros IH strict w dsid off l src fc Hd Hn. unfold wneed in Hn.
  rewrite !write_ptr_S. destruct (p_valid src) eqn:V; cbn [negb]; [|reflexivity]. specialize (Hd V).
  destruct (p_kind src) eqn:K; [| |reflexivity].
  - destruct (os_isZero (p_size src)); [reflexivity|].
    destruct (fc || is_src l || p_member src); [|reflexivity]. cbv zeta.
    destruct (alloc _ _ _) as [[[m1 nsid] naddr]| |]; cbn [bind]; try reflexivity.
    rewrite (IH strict); [reflexivity|intros _; assumption|]. unfold cneed. rewrite V. lia.
  - destruct (fc || is_src l); [|reflexivity].
    destruct (alloc _ _ _) as [[[m1 nsid] naddr]| |]; cbn [bind]; try reflexivity.
    match goal with |- bind (bind ?X ?K1) ?K0 = bind (bind ?X ?K2) ?K0 =>
      destruct X as [[[w2 doff] sz']| |]; cbn [bind]; try reflexivity end.
    destruct (p_bit src || (PointerCount (p_size src) =? 0)); [reflexivity|].
    match goal with |- bind (bind (fold_res ?l ?a ?F) _) _ = bind (bind (fold_res ?l ?a ?G) _) _ =>
      rewrite (fold_res_ext F G l a); [reflexivity|] end.
    intros i wa _. destruct (list_struct true _ i) as [de| |]; cbn [bind]; try reflexivity.
    destruct (list_struct true src i) as [se| |] eqn:Ese; cbn [bind]; try reflexivity.
    destruct (list_struct_true_depth src i se (fun _ => Hd) Ese) as [Hse1 Hse2].
    apply IH; [exact Hse1|]. unfold cneed. destruct (p_valid se) eqn:Vse; [|lia].
    destruct (Hse2 eq_refl) as [_ Hle]. lia.
Qed.

Lemma cs_stable_step f : S_wp f -> S_cs (S f).
Proof.
  intros IH strict w dst l src Hd Hn. unfold cneed in Hn.
  rewrite !copy_struct_S. destruct (negb (p_valid dst)); [reflexivity|].
  destruct (p_valid src) eqn:V; cbn [negb]; [|reflexivity]. specialize (Hd V).
  destruct (slice _ _ _); cbn [bind]; try reflexivity.
  destruct (slice _ _ _); cbn [bind]; try reflexivity.
  destruct (lift0 _ _) as [w1| |]; cbn [bind]; try reflexivity.
  match goal with |- bind (fold_res ?l ?a ?F) _ = bind (fold_res ?l ?a ?G) _ =>
    rewrite (fold_res_ext F G l a); [reflexivity|] end.
  intros j wa _.
  destruct (readPtr strict (w_segs wa l) (w_rl wa l) (p_seg src) _ (pointerAddress src j) (p_depth src))
    as [r rl'] eqn:Er.
  destruct r as [q| |]; cbn [bind]; try reflexivity.
  pose proof (readPtr_depth strict (w_segs wa l) (w_rl wa l) (p_seg src)
                (nth (Z.to_nat (p_seg src)) (w_segs wa l) []) (pointerAddress src j) (p_depth src) q Hd) as Hq.
  rewrite Er in Hq. specialize (Hq eq_refl).
  apply IH.
  - intros Vq. specialize (Hq Vq). lia.
  - unfold wneed. destruct (p_valid q) eqn:Vq; [|lia]. specialize (Hq eq_refl). lia.
Qed.

Theorem copy_fuel_stable : forall f, S_wp f /\ S_cs f.
Proof.
  induction f as [|f [IHw IHc]].
  - split.
    + intros strict w dsid off l src fc Hd Hn. unfold wneed, depth_nonneg in *. destruct (p_valid src); [specialize (Hd eq_refl)|]; lia.
    + intros strict w dst l src Hd Hn. unfold cneed, depth_nonneg in *. destruct (p_valid src); [specialize (Hd eq_refl)|]; lia.
  - split; [apply wp_stable_step; assumption|apply cs_stable_step; assumption].
Qed.

(* copy_safe, fuel part: with fuel >= 2 * depth budget + 3 the result does not depend on the
   fuel, so "out of fuel" does not occur *)
Theorem write_ptr_fuel_enough f k strict w dsid off l src fc :
  depth_nonneg src -> wneed src <= Z.of_nat f ->
  write_ptr (f + k) strict w dsid off l src fc = write_ptr f strict w dsid off l src fc.
Proof.
  intros Hd Hn. induction k as [|k IH]; [rewrite Nat.add_0_r; reflexivity|].
  rewrite Nat.add_succ_r. destruct (copy_fuel_stable (f + k)) as [H _].
  rewrite <- H; [exact IH|exact Hd|lia].
Qed.
Theorem copy_struct_fuel_enough f k strict w dst l src :
  depth_nonneg src -> cneed src <= Z.of_nat f ->
  copy_struct (f + k) strict w dst l src = copy_struct f strict w dst l src.
Proof.
  intros Hd Hn. induction k as [|k IH]; [rewrite Nat.add_0_r; reflexivity|].
  rewrite Nat.add_succ_r. destruct (copy_fuel_stable (f + k)) as [_ H].
  rewrite <- H; [exact IH|exact Hd|lia].
Qed.
