(* C05: every op of the sub-language keeps the table invariant; the theorem over op lists.
   (Second part of HeapOps.v; the copy paths come from HeapCopy.v.) *)
From CV Require Import Core.Builder Core.ReaderFacts Core.ArithFacts Core.BuilderFacts Core.AllocProofs
  Core.WritePtrProofs Core.HeapProofs Core.CopyProofs Core.BuildOps Core.BuildValid Core.BuildInv Core.HeapInv Core.ReadBridge
  Core.HeapOps Core.HeapCopy Core.HeapCopySrc.
From Coq Require Import ZifyBool ZifyNat.
Open Scope Z_scope.

Ltac Zify.zify_post_hook ::= Z.div_mod_to_equations.

(* the tables only grow *)
Definition ext (objs : list Ptr) (pads : list region) (objs' : list Ptr) (pads' : list region) : Prop :=
  (exists eo, objs' = objs ++ eo) /\ (exists ep, pads' = pads ++ ep).
Lemma ext_refl objs pads : ext objs pads objs pads.
Proof. split; exists []; now rewrite app_nil_r. Qed.
Lemma ext_app objs pads eo ep : ext objs pads (objs ++ eo) (pads ++ ep).
Proof. split; eexists; reflexivity. Qed.
Lemma ext_objs objs pads eo : ext objs pads (objs ++ eo) pads.
Proof. split; [eexists; reflexivity|exists []; now rewrite app_nil_r]. Qed.
Lemma ext_trans a b a1 b1 a2 b2 : ext a b a1 b1 -> ext a1 b1 a2 b2 -> ext a b a2 b2.
Proof. intros [[x ->] [y ->]] [[x' ->] [y' ->]]. split; eexists; rewrite <- app_assoc; reflexivity. Qed.

(* from the table invariant of the world back to the interpreter state *)
Lemma sinv_of_tinv st objs pads w1 eo ep :
  sinv st objs pads -> tinv w1 (objs ++ eo) (pads ++ ep) -> sinv (mkBSt w1 (st_h st)) (objs ++ eo) (pads ++ ep).
Proof.
  intros (_ & P & _) [H' C']. split; [exact H'|]. split; [|exact C'].
  apply (pool_ok_incl objs); auto. intros x Hx. apply in_or_app. left. exact Hx.
Qed.

Lemma view_as_struct objs p : view objs p -> view objs (as_struct p) /\ (p_valid (as_struct p) = true -> p_kind (as_struct p) = KStruct).
Proof.
  intros V. unfold as_struct. destruct (is_struct p) eqn:E.
  - split; [exact V|]. intros _. unfold is_struct in E. destruct (p_kind p); auto; rewrite Bool.andb_false_r in E; discriminate.
  - split; [apply view_null|discriminate].
Qed.

Lemma sview_as_struct sm p : sview sm p -> sview sm (as_struct p) /\ (p_valid (as_struct p) = true -> p_kind (as_struct p) = KStruct).
Proof.
  intros V. unfold as_struct. destruct (is_struct p) eqn:E.
  - split; [exact V|]. intros _. unfold is_struct in E. destruct (p_kind p); auto; rewrite Bool.andb_false_r in E; discriminate.
  - split; [apply sview_null|discriminate].
Qed.

(* storing any handle - of this message or of the source message - in a pointer slot *)
Lemma slot_store st objs pads f sd ad hs w1 :
  sinv st objs pads -> spool st -> In (sd, ad) ((0, 0) :: flat_map slots objs) ->
  write_ptr f true (st_w st) sd ad (fst (hget st hs)) (snd (hget st hs)) false = Ok w1 ->
  nsegs (w_dst w1) < 4294967296 ->
  exists objs' pads', sinv (mkBSt w1 (st_h st)) objs' pads' /\ ext objs pads objs' pads'.
Proof.
  intros S SP Hq HW Hns. pose proof S as (H & P & C).
  destruct (fst (hget st hs)) eqn:El.
  - pose proof (hget_view st objs pads hs S El) as Vw.
    destruct (copy_all f) as [QW _].
    destruct (QW (st_w st) objs pads (sd, ad) (snd (hget st hs)) false w1) as (eo & ep & T); auto.
    + split; auto.
    + exists (objs ++ eo), (pads ++ ep). split; [apply sinv_of_tinv; auto|apply ext_app].
  - pose proof (hget_sview st hs SP El) as Vw.
    destruct (copy_src_all f) as [QW _].
    destruct (QW (st_w st) objs pads (sd, ad) (snd (hget st hs)) false w1) as (eo & ep & T); auto.
    + split; auto.
    + apply SP.
    + exists (objs ++ eo), (pads ++ ep). split; [apply sinv_of_tinv; auto|apply ext_app].
Qed.

(* copying any struct handle - of this message or of the source message - into a struct view *)
Lemma struct_store st objs pads f dst hs w1 :
  sinv st objs pads -> spool st -> view objs dst -> (p_valid dst = true -> p_kind dst = KStruct) ->
  copy_struct f true (st_w st) dst (fst (hget st hs)) (as_struct (snd (hget st hs))) = Ok w1 ->
  nsegs (w_dst w1) < 4294967296 ->
  exists objs' pads', sinv (mkBSt w1 (st_h st)) objs' pads' /\ ext objs pads objs' pads'.
Proof.
  intros S SP Vd Kd HW Hns. pose proof S as (H & P & C).
  destruct (fst (hget st hs)) eqn:El.
  - pose proof (hget_view st objs pads hs S El) as Vq. destruct (view_as_struct objs _ Vq) as [Vsq Ksq].
    destruct (copy_all f) as [_ QC].
    destruct (QC (st_w st) objs pads dst (as_struct (snd (hget st hs))) w1) as (eo & ep & T); auto.
    + split; auto.
    + exists (objs ++ eo), (pads ++ ep). split; [apply sinv_of_tinv; auto|apply ext_app].
  - pose proof (hget_sview st hs SP El) as Vq. destruct (sview_as_struct _ _ Vq) as [Vsq Ksq].
    destruct (copy_src_all f) as [_ QC].
    destruct (QC (st_w st) objs pads dst (as_struct (snd (hget st hs))) w1) as (eo & ep & T); auto.
    + split; auto.
    + apply SP.
    + exists (objs ++ eo), (pads ++ ep). split; [apply sinv_of_tinv; auto|apply ext_app].
Qed.

(* the data setters of the theorem act on the message under construction *)
Definition setter_handle (o : bop) : option Z :=
  match o with BSetUint h _ _ _ | BSetBit h _ _ | BListSetUint h _ _ _ | BBitSet h _ _ => Some h | _ => None end.
Definition dst_only (st : bstate) (o : bop) : Prop :=
  match setter_handle o with Some h => fst (hget st h) = InDst | None => True end.

(* a read op on a handle of the source message leaves the message under construction alone *)
Lemma sinv_src_read st objs pads rl hs' :
  sinv st objs pads -> sinv (mkBSt (w_set_rl (st_w st) InSrc rl) (st_h st ++ map (fun p => (InSrc, p)) hs')) objs pads.
Proof.
  intros (H & P & C). split; [exact H|]. split; [|exact C]. cbn [st_h]. unfold pool_ok in *. apply Forall_app. split; [exact P|].
  apply Forall_forall. intros x Hx. apply in_map_iff in Hx. destruct Hx as (p & <- & _). cbn [fst]. discriminate.
Qed.

Theorem bstep_hinv e st objs pads o st' out :
  sinv st objs pads -> spool st -> sub_op o = true -> dst_only st o -> bstep e st o = (Some st', out) ->
  nsegs (w_dst (st_w st')) < 4294967296 ->
  exists objs' pads', sinv st' objs' pads' /\ ext objs pads objs' pads'.
Proof.
  intros S SP Hop Hdo. pose proof S as [H P]. unfold bstep. destruct o; try discriminate Hop; cbv zeta.
  - (* NewStruct *)
    destruct (negb (valid_sid st sid)) eqn:EV.
    { intros E _. injection E as <- _. exists objs, pads. split; [now apply sinv_push_null|apply ext_refl]. }
    assert (Vs : valid_sid st sid = true) by (destruct (valid_sid st sid); auto; discriminate).
    unfold ctor, newStruct. destruct (negb (os_isValid (mkOS dsz pc))) eqn:EO; [discriminate|].
    unfold os_isValid in EO. cbn [DataSize PointerCount] in *.
    destruct (alloc (w_dst (st_w st)) sid _) as [[[m1 s1] a]| |] eqn:EA; cbn [bind]; try discriminate.
    intros E Hns. injection E as <- _. cbn [hpush st_w w_dst w_set_dst] in Hns. eexists _, pads. split; [|apply ext_objs].
    cbn [sub_op] in Hop.
    eapply (alloc_ctor st objs pads sid _ m1 s1 a); eauto.
    + apply totalSize_nn.
    + unfold shape_ok. cbn [p_kind p_size p_comp p_len p_bit]. unfold os_wf, padToWord, u32. cbn [DataSize PointerCount].
      split; [lia|]. split; [reflexivity|]. split; reflexivity.
  - (* NewPrim *)
    destruct (negb (valid_sid st sid)) eqn:EV.
    { intros E _. injection E as <- _. exists objs, pads. split; [now apply sinv_push_null|apply ext_refl]. }
    assert (Vs : valid_sid st sid = true) by (destruct (valid_sid st sid); auto; discriminate).
    unfold ctor, newPrimitiveList. destruct ((n <? 0) || (n >=? 536870912)) eqn:EN; [discriminate|].
    destruct (alloc (w_dst (st_w st)) sid _) as [[[m1 s1] a]| |] eqn:EA; cbn [bind]; try discriminate.
    intros E Hns. injection E as <- _. cbn [hpush st_w w_dst w_set_dst] in Hns. eexists _, pads. split; [|apply ext_objs].
    cbn [sub_op] in Hop.
    assert (Hsz : sz = 0 \/ sz = 1 \/ sz = 2 \/ sz = 4 \/ sz = 8).
    { destruct (sz =? 0) eqn:E0; [left; lia|right]. apply width_b_ok. cbn in Hop. exact Hop. }
    assert (TU : timesUnchecked sz n = sz * n) by (unfold timesUnchecked, u32; nia).
    assert (Sh : shape_ok (mkPtr true s1 a n (mkOS sz 0) maxDepth KList false false false)).
    { unfold shape_ok. cbn [p_kind p_comp p_len p_bit p_size]. split; [lia|]. left. split; [reflexivity|].
      right. split; [reflexivity|]. right. exists sz. split; [reflexivity|lia]. }
    eapply (alloc_ctor st objs pads sid _ m1 s1 a); eauto.
    + rewrite TU. nia.
    + rewrite list_alloc_eq; cbn [p_valid p_kind p_bit p_size p_len p_comp DataSize PointerCount]; auto; try lia.
  - (* NewBit *)
    destruct (negb (valid_sid st sid)) eqn:EV.
    { intros E _. injection E as <- _. exists objs, pads. split; [now apply sinv_push_null|apply ext_refl]. }
    assert (Vs : valid_sid st sid = true) by (destruct (valid_sid st sid); auto; discriminate).
    unfold ctor, newBitList. destruct ((n <? 0) || (n >=? 536870912)) eqn:EN; [discriminate|].
    destruct (alloc (w_dst (st_w st)) sid _) as [[[m1 s1] a]| |] eqn:EA; cbn [bind]; try discriminate.
    intros E Hns. injection E as <- _. cbn [hpush st_w w_dst w_set_dst] in Hns. eexists _, pads. split; [|apply ext_objs].
    assert (Sh : shape_ok (mkPtr true s1 a n (mkOS 0 0) maxDepth KList false true false)).
    { unfold shape_ok. cbn [p_kind p_comp p_len p_bit p_size]. split; [lia|]. left. split; [reflexivity|]. left. auto. }
    eapply (alloc_ctor st objs pads sid _ m1 s1 a); eauto; try (unfold bitListSize, u32; lia); try (rewrite list_alloc_eq; auto).
  - (* NewPList *)
    destruct (negb (valid_sid st sid)) eqn:EV.
    { intros E _. injection E as <- _. exists objs, pads. split; [now apply sinv_push_null|apply ext_refl]. }
    assert (Vs : valid_sid st sid = true) by (destruct (valid_sid st sid); auto; discriminate).
    unfold ctor, newPointerList. destruct (times 8 n) as [total|] eqn:ET; [|discriminate].
    destruct (alloc (w_dst (st_w st)) sid total) as [[[m1 s1] a]| |] eqn:EA; cbn [bind]; try discriminate.
    intros E Hns. injection E as <- _. cbn [hpush st_w w_dst w_set_dst] in Hns. eexists _, pads. split; [|apply ext_objs].
    unfold times in ET. cbv zeta in ET.
    destruct ((8 * n >? maxSegmentSize) || (8 * n <? 0)) eqn:EB; [discriminate|].
    assert (total = 8 * n) by congruence. subst total. unfold maxSegmentSize in EB.
    assert (Sh : shape_ok (mkPtr true s1 a n (mkOS 0 1) maxDepth KList false false false)).
    { unfold shape_ok. cbn [p_kind p_comp p_len p_bit p_size]. split; [lia|]. left. split; [reflexivity|]. right. split; [reflexivity|]. left. reflexivity. }
    eapply (alloc_ctor st objs pads sid _ m1 s1 a); eauto; try lia; try (rewrite list_alloc_eq; auto; cbn; lia).
  - (* NewComp *)
    destruct (negb (valid_sid st sid)) eqn:EV.
    { intros E _. injection E as <- _. exists objs, pads. split; [now apply sinv_push_null|apply ext_refl]. }
    assert (Vs : valid_sid st sid = true) by (destruct (valid_sid st sid); auto; discriminate).
    cbn [sub_op] in Hop.
    unfold ctor, newCompositeList. destruct (negb (os_isValid (mkOS dsz pc))) eqn:EO; [discriminate|].
    unfold os_isValid in EO. cbn [DataSize PointerCount] in *.
    destruct ((n <? 0) || (n >=? 536870912)) eqn:EN; [discriminate|].
    set (sz := mkOS (padToWord dsz) pc).
    assert (Hw : os_wf sz) by (unfold sz, os_wf, padToWord, u32; cbn [DataSize PointerCount]; lia).
    rewrite (totalSize_wf _ Hw).
    set (wc := DataSize sz / 8 + PointerCount sz).
    assert (W0 : 0 <= wc) by (unfold wc; destruct Hw as (Hd & Hm & Hp); lia).
    destruct (times (8 * wc) n) as [total|] eqn:ET; [|discriminate].
    unfold times in ET. cbv zeta in ET.
    destruct ((8 * wc * n >? maxSegmentSize) || (8 * wc * n <? 0)) eqn:EB; [discriminate|].
    assert (total = 8 * wc * n) by congruence. subst total. unfold maxSegmentSize in *.
    destruct (8 * wc * n >? 4294967288 - 8) eqn:EM; [discriminate|].
    assert (K0 : 0 <= n * wc) by nia.
    assert (U : u32 (8 + 8 * wc * n) = 8 + 8 * (n * wc)) by (unfold u32; lia). rewrite U.
    destruct (alloc (w_dst (st_w st)) sid _) as [[[m1 s1] a]| |] eqn:EA; cbn [bind]; try discriminate.
    destruct (of_opt_panic (rawStructPointer n sz)) as [tag| |] eqn:ETag; cbn [bind]; try discriminate.
    destruct (writeRawPointer m1 s1 a tag) as [m2| |] eqn:EW; cbn [bind]; try discriminate.
    intros E Hns. injection E as <- _. cbn [hpush st_w w_dst w_set_dst] in Hns.
    set (h := mkPtr true s1 (addSizeUnchecked a 8) n sz maxDepth KList true false false).
    exists (objs ++ [core h]), pads. split; [|apply ext_objs].
    apply valid_sid_range in Vs.
    assert (Hz : 0 <= 8 + 8 * (n * wc)) by lia.
    destruct (alloc_keeps _ _ _ _ _ _ (hi_inv _ _ _ H) Vs Hz EA) as (_ & I1 & N1 & S1 & AD & L1 & _ & _ & _ & MX).
    unfold maxSegmentSize in MX. pose proof (zlen_nonneg (mem (w_dst (st_w st)) s1)) as Z0.
    assert (PW : padToWord (8 + 8 * (n * wc)) = 8 + 8 * (n * wc)) by (unfold padToWord, u32; lia). rewrite PW in L1.
    assert (EA8 : addSizeUnchecked a 8 = a + 8) by (unfold addSizeUnchecked, u32; lia).
    assert (Sh : shape_ok (core h)).
    { unfold shape_ok. cbn [core h p_kind p_comp p_len p_bit p_size]. split; [lia|]. right.
      split; [reflexivity|]. split; [reflexivity|]. split; [exact Hw|]. unfold wc_of. cbn [core h p_size]. fold wc. lia. }
    assert (N12 : nsegs m2 = nsegs m1).
    { assert (S10 : 0 <= s1) by lia. destruct (writeRawPointer_keeps _ _ _ _ _ S10 I1 EW) as (_ & _ & X & _). exact X. }
    split.
    + cbn [st_w w_dst w_set_dst].
      apply (hinv_alloc_comp (w_dst (st_w st)) objs pads sid (8 + 8 * (n * wc)) m1 s1 a tag m2 (core h)); auto; try reflexivity; try lia.
      * cbn [core h p_len p_size]. destruct (rawStructPointer n sz); [cbn in ETag; congruence|discriminate].
      * unfold obj_bytes. cbn [core h p_kind]. rewrite (list_alloc_comp (core h)); try reflexivity; auto; unfold wc_of; cbn [core h p_size p_len]; fold wc; lia.
    + destruct P as [P C]. split; [|apply cores_snoc; exact C]. apply pool_push_obj; auto.
  - (* NewVoid *)
    destruct (negb (valid_sid st sid)) eqn:EV.
    { intros E _. injection E as <- _. exists objs, pads. split; [now apply sinv_push_null|apply ext_refl]. }
    assert (Vs : valid_sid st sid = true) by (destruct (valid_sid st sid); auto; discriminate).
    apply valid_sid_range in Vs.
    unfold newVoidList. destruct ((n <? 0) || (n >=? 536870912)) eqn:EN.
    { intros E _. injection E as <- _. exists objs, pads. split; [now apply sinv_push_null|apply ext_refl]. }
    intros E Hns. injection E as <- _.
    set (h := mkPtr true sid 0 n (mkOS 0 0) maxDepth KList false false false).
    exists (objs ++ [core h]), pads. split; [|apply ext_objs].
    assert (Sh : shape_ok (core h)).
    { unfold shape_ok, h. cbn [core p_kind p_comp p_len p_bit p_size]. split; [lia|]. left. split; [reflexivity|].
      right. split; [reflexivity|]. right. exists 0. split; [reflexivity|lia]. }
    assert (OB : obj_bytes (core h) = 0).
    { rewrite list_alloc_eq; [|reflexivity|exact Sh|reflexivity|reflexivity]. unfold h. cbn [core p_bit p_size p_len DataSize PointerCount]. lia. }
    split.
    + cbn [hpush st_w].
      apply (hinv_add_obj (w_dst (st_w st)) objs pads (w_dst (st_w st)) (core h)); auto;
        try apply keeps_refl; try apply (hi_inv _ _ _ H); try apply (hi_small _ _ _ H); try lia; try apply (hi_nsegs _ _ _ H).
      * split; [exact Sh|]. pose proof (hi_nsegs _ _ _ H). split; [cbn; lia|]. split; [|cbn; lia].
        unfold obj_reg. cbn [r_size]. rewrite OB. cbn [core p_seg p_off h obj_start p_comp]. change (padToWord 0) with 0.
        apply in_seg_intro; rewrite ?zlen_bm, ?seg_len_bm; try lia. apply zlen_nonneg.
      * intros _ X. discriminate X.
      * intros q Hq. unfold slots, tgt_of, h in Hq. cbn in Hq. destruct Hq.
    + destruct P as [P C]. split; [|apply cores_snoc; exact C]. apply pool_push_obj; auto.
  - (* NewBytes *)
    destruct (negb (valid_sid st sid)) eqn:EV.
    { intros E _. injection E as <- _. exists objs, pads. split; [now apply sinv_push_null|apply ext_refl]. }
    assert (Vs : valid_sid st sid = true) by (destruct (valid_sid st sid); auto; discriminate).
    cbn [sub_op] in Hop. pose proof (zlen_nonneg v) as Zv.
    set (n := s32 (zlen v + (if nul then 1 else 0))).
    assert (En : n = zlen v + (if nul then 1 else 0)) by (unfold n; apply s32_id; destruct nul; lia).
    unfold ctor, newBytes. fold n. unfold newPrimitiveList.
    destruct ((n <? 0) || (n >=? 536870912)) eqn:EN; [discriminate|].
    destruct (alloc (w_dst (st_w st)) sid _) as [[[m1 s1] a]| |] eqn:EA; cbn [bind]; try discriminate.
    cbn [p_seg p_off].
    destruct (seg_write m1 s1 a v) as [m2| |] eqn:EW; cbn [bind]; try discriminate.
    intros E Hns. injection E as <- _. cbn [hpush st_w w_dst w_set_dst] in Hns.
    set (h := mkPtr true s1 a n (mkOS 1 0) maxDepth KList false false false).
    exists (objs ++ [core h]), pads. split; [|apply ext_objs].
    assert (Sh : shape_ok h).
    { unfold shape_ok, h. cbn [p_kind p_comp p_len p_bit p_size]. split; [lia|]. left. split; [reflexivity|].
      right. split; [reflexivity|]. right. exists 1. split; [reflexivity|lia]. }
    assert (TU : timesUnchecked 1 n = n) by (unfold timesUnchecked, u32; lia).
    assert (OB : obj_bytes h = n).
    { rewrite list_alloc_eq; [|reflexivity|exact Sh|reflexivity|reflexivity]. unfold h. cbn [p_bit p_size p_len DataSize PointerCount]. lia. }
    assert (W : wrote m1 m2 s1 a v).
    { assert (Hz0 : 0 <= timesUnchecked 1 n) by (rewrite TU; lia).
      apply seg_write_wrote; auto; [|lia].
      destruct (alloc_keeps _ _ _ _ _ _ (hi_inv _ _ _ H) (valid_sid_range _ _ Vs) Hz0 EA) as (_ & _ & _ & X & _). lia. }
    assert (N12 : nsegs m2 = nsegs m1) by (unfold nsegs; apply (wrote_nsegs _ _ _ _ _ W)).
    assert (S1 : sinv (hpush st (w_set_dst (st_w st) m1) InDst h) (objs ++ [core h]) pads).
    { apply (alloc_ctor st objs pads sid (timesUnchecked 1 n) m1 s1 a h); auto; try (rewrite TU; lia); try lia; try reflexivity; try (rewrite OB, TU; reflexivity). }
    destruct S1 as [H1 P1]. split; [|exact P1].
    cbn [p_valid h hpush st_w w_dst w_set_dst] in *.
    assert (Hin : In (core h) (objs ++ [core h])) by (apply in_or_app; right; left; reflexivity).
    apply (hinv_data_write m1 _ pads m2 (core h) a v); auto.
    + cbn [core p_seg h]. destruct (hi_good _ _ _ H1 _ Hin) as [_ (_ & X & _)]. cbn in X. lia.
    + cbn [core p_off h]. lia.
    + unfold obj_reg, obj_start. cbn [r_size]. change (obj_bytes (core h)) with (obj_bytes h). rewrite OB. cbn [core p_off p_comp h].
      unfold padToWord, u32. destruct nul; lia.
    + intros q Hq. unfold slots, tgt_of, h in Hq. cbn in Hq. destruct Hq.
  - (* NewInterface *)
    destruct (negb (valid_sid st sid)) eqn:EV.
    { intros E _. injection E as <- _. exists objs, pads. split; [now apply sinv_push_null|apply ext_refl]. }
    intros E _. injection E as <- _. exists objs, pads. split; [|apply ext_refl]. cbn [sub_op] in Hop.
    destruct P as [P C]. split; [exact H|]. split; [|exact C]. apply pool_ok_push; auto.
    right. right. right. right. split; [reflexivity|]. split; [cbn [p_len]; lia|reflexivity].
  - (* AddCap *)
    intros E _. injection E as <- _. exists objs, pads. split; [|apply ext_refl]. apply sinv_same_segs; auto.
  - (* SetUint *)
    destruct (hget st h) as [l p] eqn:EH. cbn [sub_op] in Hop.
    unfold dset. destruct (set_in (st_w st) l _) as [w1| |] eqn:ES; intros E Hns; injection E as <- _;
      try (exists objs, pads; split; [exact S|apply ext_refl]).
    exists objs, pads. split; [|apply ext_refl].
    apply andb_prop in Hop. destruct Hop as [Ho1 Ho2].
    assert (Hoff : 0 <= off) by lia. assert (Hn : n = 1 \/ n = 2 \/ n = 4 \/ n = 8) by (apply width_b_ok; exact Ho2).
    pose proof Hdo as Hl. unfold dst_only in Hl. cbn [setter_handle] in Hl. rewrite EH in Hl. cbn in Hl. subst l.
    pose proof (hget_view st objs pads h S) as Vw. rewrite EH in Vw. cbn [fst snd] in Vw. specialize (Vw eq_refl).
    assert (Hval : p_valid (as_struct p) = true).
    { unfold set_in, lift0, struct_set_uint, dataAddress in ES. destruct (negb (p_valid (as_struct p)) || _) eqn:EE; cbn [bind] in ES; [discriminate|].
      destruct (p_valid (as_struct p)); auto; discriminate. }
    destruct (as_struct_valid p Hval) as [Eas Ek]. rewrite Eas in *.
    unfold set_in, lift0, struct_set_uint, dataAddress in ES.
    destruct (negb (p_valid p) || (u32 (off + n) >? DataSize (p_size p))) eqn:EE; cbn [bind] in ES; [discriminate|].
    destruct (addOffset (p_off p) off) as [addr|] eqn:EA; cbn [bind] in ES; [|discriminate].
    apply addOffset_spec in EA. destruct EA as [EA1 EA2].
    destruct (seg_write (w_dst (st_w st)) (p_seg p) addr _) as [m1| |] eqn:EW; cbn [bind] in ES; try discriminate.
    apply Ok_inj in ES. subst w1.
    assert (Ln : zlen (le_encode (Z.to_nat n) v) = n) by (apply zlen_le_encode; lia).
    destruct (struct_view_geom _ _ _ p H Vw Hval Ek) as [[E0 _]|(ho & Hin & Eseg & D0 & P0 & Olo & Ohi & _)].
    { exfalso. rewrite E0 in EE. cbn [DataSize] in EE. unfold u32 in EE. destruct (p_valid p); cbn in EE; [lia|discriminate]. }
    destruct (obj_bounds _ _ _ _ H Hin) as (B1 & B2 & B3 & B4 & B5). rewrite Eseg in *.
    assert (Eu : u32 (off + n) = off + n) by (unfold u32; lia).
    assert (Ead : addr = p_off p + off) by (subst addr; unfold u32; lia).
    apply (struct_data_write st objs pads p addr (le_encode (Z.to_nat n) v) m1); auto; try lia.
    intros X1 X2 X3. apply seg_write_wrote; auto; lia.
  - (* SetBit *)
    destruct (hget st h) as [l p] eqn:EH. cbn [sub_op] in Hop.
    unfold dset. destruct (set_in (st_w st) l _) as [w1| |] eqn:ES; intros E Hns; injection E as <- _;
      try (exists objs, pads; split; [exact S|apply ext_refl]).
    exists objs, pads. split; [|apply ext_refl]. assert (Hn0 : 0 <= n) by lia.
    pose proof Hdo as Hl. unfold dst_only in Hl. cbn [setter_handle] in Hl. rewrite EH in Hl. cbn in Hl. subst l.
    pose proof (hget_view st objs pads h S) as Vw. rewrite EH in Vw. cbn [fst snd] in Vw. specialize (Vw eq_refl).
    assert (Hval : p_valid (as_struct p) = true).
    { unfold set_in, lift0, struct_set_bit in ES. destruct (negb (p_valid (as_struct p) && _)) eqn:EE; [discriminate|].
      destruct (p_valid (as_struct p)); auto; discriminate. }
    destruct (as_struct_valid p Hval) as [Eas Ek]. rewrite Eas in *.
    unfold set_in, lift0, struct_set_bit in ES.
    destruct (negb (p_valid p && (n <? u32 (DataSize (p_size p) * 8)))) eqn:EE; [discriminate|].
    destruct (struct_view_geom _ _ _ p H Vw Hval Ek) as [[E0 _]|(ho & Hin & Eseg & D0 & P0 & Olo & Ohi & _)].
    { exfalso. rewrite E0 in EE. cbn [DataSize] in EE. change (u32 (0 * 8)) with 0 in EE. destruct (p_valid p); cbn in EE; [lia|discriminate]. }
    destruct (obj_bounds _ _ _ _ H Hin) as (B1 & B2 & B3 & B4 & B5). rewrite Eseg in *.
    assert (Hnb : n < DataSize (p_size p) * 8) by (unfold u32 in EE; destruct (p_valid p); cbn in EE; [lia|discriminate]).
    destruct (addOffset (p_off p) (bitOffset_offset n)) as [addr|] eqn:EA; [|discriminate].
    apply addOffset_spec in EA. destruct EA as [EA1 EA2]. unfold bitOffset_offset in *.
    assert (Ead : addr = p_off p + n / 8) by (subst addr; unfold u32; lia).
    destruct (readUintN _ addr 1) as [b| |]; cbn [bind] in ES; try discriminate.
    destruct (seg_write (w_dst (st_w st)) (p_seg p) addr _) as [m1| |] eqn:EW; cbn [bind] in ES; try discriminate.
    apply Ok_inj in ES. subst w1.
    apply (struct_data_write st objs pads p addr [set_bit_in b (n mod 8) v] m1); auto;
      try (change (zlen [set_bit_in b (n mod 8) v]) with 1; lia).
    intros X1 X2 X3. apply seg_write_wrote; auto; change (zlen [set_bit_in b (n mod 8) v]) with 1 in *; lia.
  - (* UIntNList.Set *)
    destruct (hget st h) as [l p] eqn:EH. cbn [sub_op] in Hop.
    unfold dset. destruct (set_in (st_w st) l _) as [w1| |] eqn:ES; intros E Hns; injection E as <- _;
      try (exists objs, pads; split; [exact S|apply ext_refl]).
    exists objs, pads. split; [|apply ext_refl]. assert (Hn : n = 1 \/ n = 2 \/ n = 4 \/ n = 8) by (apply width_b_ok; exact Hop).
    pose proof Hdo as Hl. unfold dst_only in Hl. cbn [setter_handle] in Hl. rewrite EH in Hl. cbn in Hl. subst l.
    pose proof (hget_view st objs pads h S) as Vw. rewrite EH in Vw. cbn [fst snd] in Vw. specialize (Vw eq_refl).
    unfold set_in, lift0, list_set_uint in ES.
    destruct (primitiveElem true (as_list p) i (mkOS n 0)) as [addr| |] eqn:PE; try discriminate.
    assert (Hval : p_valid (as_list p) = true).
    { unfold primitiveElem in PE. destruct (p_valid (as_list p)); auto. cbn in PE. discriminate. }
    destruct (as_list_valid p Hval) as [Eas Ek]. rewrite Eas in *.
    destruct (list_view objs p Vw Hval Ek) as [Hin _].
    destruct (list_elem_geom _ _ _ p i (mkOS n 0) addr H Hin Hval Ek PE ltac:(right; exists n; auto)) as (E1 & E2 & _ & E4).
    destruct (obj_bounds _ _ _ _ H Hin) as (B1 & B2 & B3 & B4 & B5). cbn [core p_seg p_off] in *.
    assert (TS : totalSize (mkOS n 0) = n) by (unfold totalSize, pointerSize, u32; cbn; lia). rewrite TS in E2.
    destruct (seg_write (w_dst (st_w st)) (p_seg p) addr _) as [m1| |] eqn:EW; cbn [bind] in ES; try discriminate.
    apply Ok_inj in ES. subst w1.
    assert (Ln : zlen (le_encode (Z.to_nat n) v) = n) by (apply zlen_le_encode; lia).
    apply seg_write_wrote in EW; [|lia|rewrite Ln; lia].
    split; [|exact P]. cbn [st_h st_w w_dst w_set_dst].
    apply (hinv_data_write (w_dst (st_w st)) objs pads m1 (core p) addr (le_encode (Z.to_nat n) v)); auto; try lia.
    all: try (cbn [core p_seg p_off]; rewrite ?Ln; lia).
    intros q Hq. rewrite Ln. apply (E4 eq_refl q Hq).
  - (* BitList.Set *)
    destruct (hget st h) as [l p] eqn:EH.
    unfold dset. destruct (set_in (st_w st) l _) as [w1| |] eqn:ES; intros E Hns; injection E as <- _;
      try (exists objs, pads; split; [exact S|apply ext_refl]).
    exists objs, pads. split; [|apply ext_refl].
    pose proof Hdo as Hl. unfold dst_only in Hl. cbn [setter_handle] in Hl. rewrite EH in Hl. cbn in Hl. subst l.
    pose proof (hget_view st objs pads h S) as Vw. rewrite EH in Vw. cbn [fst snd] in Vw. specialize (Vw eq_refl).
    assert (Hval : p_valid (as_list p) = true /\ 0 <= i < p_len (as_list p) /\ p_bit (as_list p) = true).
    { unfold set_in, lift0, bitlist_set in ES.
        destruct (negb (p_valid (as_list p)) || (i <? 0) || (i >=? p_len (as_list p))) eqn:E1; try discriminate;
        destruct (negb (p_bit (as_list p))) eqn:E2; try discriminate;
        (split; [destruct (p_valid (as_list p)); auto; discriminate|split; [lia|destruct (p_bit (as_list p)); auto; discriminate]]). }
    destruct Hval as (Hval & Hi & Hbit).
    destruct (as_list_valid p Hval) as [Eas Ek]. rewrite Eas in *.
    destruct (list_view objs p Vw Hval Ek) as [Hin _].
    destruct (core_facts p) as (C1 & C2 & C3 & C4 & C5 & C6 & C7).
    destruct (hi_good _ _ _ H _ Hin) as [_ G]. pose proof G as (Sh & _). apply (proj1 C7) in Sh.
    pose proof Sh as Sh'. unfold shape_ok in Sh'. rewrite Ek in Sh'. destruct Sh' as (Hlen & [(Hc & Hk)|(_ & Hb & _)]); [|congruence].
    assert (OB : obj_bytes p = bitListSize (p_len p)) by (rewrite list_alloc_eq; auto; rewrite Hbit; reflexivity).
    destruct (obj_bounds _ _ _ _ H Hin) as (B1 & B2 & B3 & B4 & B5). rewrite C1, C5 in *. cbn [core p_seg p_off] in *.
    unfold obj_reg, obj_start in *. rewrite Hc in *. cbn [r_size] in *. rewrite OB in *.
    unfold bitListSize, padToWord, u32 in B4.
    unfold set_in, lift0, bitlist_set in ES.
    destruct (negb (p_valid p) || (i <? 0) || (i >=? p_len p)); [discriminate|]. destruct (negb (p_bit p)); [discriminate|].
    unfold bitOffset_offset in ES.
    assert (Ead : u32 (p_off p + i / 8) = p_off p + i / 8) by (unfold u32; lia). rewrite Ead in ES.
    destruct (readUintN _ _ 1) as [b| |]; cbn [bind] in ES; try discriminate.
    destruct (seg_write (w_dst (st_w st)) (p_seg p) (p_off p + i / 8) _) as [m1| |] eqn:EW; cbn [bind] in ES; try discriminate.
    apply Ok_inj in ES. subst w1.
    apply seg_write_wrote in EW; [|lia|cbn; lia].
    split; [|exact P]. cbn [st_h st_w w_dst w_set_dst].
    apply (hinv_data_write (w_dst (st_w st)) objs pads m1 (core p) (p_off p + i / 8) [set_bit_in b (i mod 8) v]); auto; try lia.
    all: try (cbn [core p_seg p_off]; lia).
    all: try (change (zlen [set_bit_in b (i mod 8) v]) with 1; change (obj_reg (core p)) with (obj_reg p); change (obj_start (core p)) with (obj_start p); unfold obj_reg, obj_start; rewrite ?Hc; cbn [r_size]; rewrite ?OB;
      unfold bitListSize, padToWord, u32; lia).
    intros q Hq. exfalso. change (slots (core p)) with (slots p) in Hq. unfold slots, tgt_of, et_of in Hq. rewrite Ek, Hc, Hbit in Hq. cbn in Hq. destruct Hq.
  - (* SetPtr *)
    destruct (hget st h) as [l p] eqn:EH. destruct (hget st hs) as [ls q] eqn:EQ. cbn [sub_op] in Hop.
    destruct (is_src l) eqn:EL; [discriminate|].
    unfold pset. destruct (struct_set_ptr (e_fuel e) (st_w st) (as_struct p) i ls q) as [w1| |] eqn:ES; try discriminate.
    intros E Hns. injection E as <- _. cbn [st_w] in Hns.
    unfold struct_set_ptr in ES.
    destruct (negb (p_valid (as_struct p)) || (i >=? PointerCount (p_size (as_struct p)))) eqn:EE; [discriminate|].
    assert (Hval : p_valid (as_struct p) = true) by (destruct (p_valid (as_struct p)); auto; discriminate).
    destruct (as_struct_valid p Hval) as [Eas Ek]. rewrite Eas in *.
    destruct l; [|discriminate EL].
    pose proof (hget_view st objs pads h S) as Vw. rewrite EH in Vw. cbn [fst snd] in Vw. specialize (Vw eq_refl).
    destruct (struct_view_geom _ _ _ p H Vw Hval Ek) as [[E0 _]|(ho & Hin & Eseg & D0 & P0 & Olo & Ohi & _ & Hsl)].
    { exfalso. rewrite E0 in EE. cbn [PointerCount] in EE. rewrite Hval in EE. cbn [negb orb] in EE. lia. }
    destruct (obj_bounds _ _ _ _ H Hin) as (B1 & B2 & B3 & B4 & B5). rewrite Eseg in *.
    assert (PA : pointerAddress p i = p_off p + DataSize (p_size p) + 8 * i).
    { apply pointerAddress_eq; unfold maxSegmentSize; lia. }
    assert (Hq0 : In (p_seg p, pointerAddress p i) ((0, 0) :: flat_map slots objs)).
    { right. apply in_flat_map. exists ho. split; [exact Hin|]. rewrite PA. apply Hsl. lia. }
    apply (slot_store st objs pads (e_fuel e) (p_seg p) (pointerAddress p i) hs w1); auto.
    rewrite EQ. exact ES.
  - (* PointerList.Set *)
    destruct (hget st h) as [l p] eqn:EH. destruct (hget st hs) as [ls q] eqn:EQ.
    destruct (is_src l) eqn:EL; [discriminate|].
    unfold pset. destruct (ptrlist_set (e_fuel e) (st_w st) (as_list p) i ls q) as [w1| |] eqn:ES; try discriminate.
    intros E Hns. injection E as <- _. cbn [st_w] in Hns.
    unfold ptrlist_set in ES.
    destruct (primitiveElem true (as_list p) i (mkOS 0 1)) as [addr| |] eqn:PE; cbn [bind] in ES; try discriminate.
    assert (Hval : p_valid (as_list p) = true).
    { unfold primitiveElem in PE. destruct (p_valid (as_list p)); auto. cbn in PE. discriminate. }
    destruct (as_list_valid p Hval) as [Eas Ek]. rewrite Eas in *.
    destruct l; [|discriminate EL].
    pose proof (hget_view st objs pads h S) as Vw. rewrite EH in Vw. cbn [fst snd] in Vw. specialize (Vw eq_refl).
    destruct (list_view objs p Vw Hval Ek) as [Hin _].
    destruct (list_elem_geom _ _ _ p i (mkOS 0 1) addr H Hin Hval Ek PE ltac:(left; reflexivity)) as (_ & _ & E3 & _).
    assert (Hq0 : In (p_seg p, addr) ((0, 0) :: flat_map slots objs)).
    { right. apply in_flat_map. exists (core p). split; [exact Hin|]. apply E3. reflexivity. }
    apply (slot_store st objs pads (e_fuel e) (p_seg p) addr hs w1); auto.
    rewrite EQ. exact ES.
  - (* List.SetStruct *)
    destruct (hget st h) as [l p] eqn:EH. destruct (hget st hs) as [ls q] eqn:EQ.
    destruct (is_src l) eqn:EL; [discriminate|].
    unfold pset. destruct (list_set_struct (e_fuel e) (st_w st) (as_list p) i ls (as_struct q)) as [w1| |] eqn:ES; try discriminate.
    intros E Hns. injection E as <- _. cbn [st_w] in Hns.
    unfold list_set_struct in ES. destruct (p_bit (as_list p)); [discriminate|].
    destruct (list_struct true (as_list p) i) as [de| |] eqn:ED; cbn [bind] in ES; try discriminate.
    assert (Hval : p_valid (as_list p) = true).
    { unfold list_struct in ED. destruct (p_valid (as_list p)); auto. cbn in ED. discriminate. }
    destruct (as_list_valid p Hval) as [Eas Ek]. rewrite Eas in *.
    destruct l; [|discriminate EL].
    pose proof (hget_view st objs pads h S) as Vw. rewrite EH in Vw. cbn [fst snd] in Vw. specialize (Vw eq_refl).
    destruct (list_view objs p Vw Hval Ek) as [Hin _].
    destruct (list_struct_view objs p i de Hin Hval Ek ED) as [Vde Kde].
    apply (struct_store st objs pads (e_fuel e) de hs w1); auto.
    + intros X. apply Kde. exact X.
    + rewrite EQ. exact ES.
  - (* Struct.CopyFrom *)
    destruct (hget st h) as [l p] eqn:EH. destruct (hget st hs) as [ls q] eqn:EQ.
    destruct (is_src l) eqn:EL; [discriminate|].
    unfold pset. destruct (copy_struct (e_fuel e) true (st_w st) (as_struct p) ls (as_struct q)) as [w1| |] eqn:ES; try discriminate.
    intros E Hns. injection E as <- _. cbn [st_w] in Hns.
    destruct l; [|discriminate EL].
    pose proof (hget_view st objs pads h S) as Vp. rewrite EH in Vp. cbn [fst snd] in Vp. specialize (Vp eq_refl).
    destruct (view_as_struct objs p Vp) as [Vsp Ksp].
    apply (struct_store st objs pads (e_fuel e) (as_struct p) hs w1); auto.
    rewrite EQ. exact ES.
  - (* SetRoot *)
    destruct (hget st hs) as [ls q] eqn:EQ.
    unfold pset. destruct (set_root (e_fuel e) (st_w st) ls q) as [w1| |] eqn:ES; try discriminate.
    intros E Hns. injection E as <- _. cbn [st_w] in Hns.
    unfold set_root, set_root_gen in ES.
    destruct (bm_segs (w_dst (st_w st))) as [|s0 r0] eqn:EB; [discriminate|].
    destruct (negb _); [discriminate|].
    apply (slot_store st objs pads (e_fuel e) 0 0 hs w1); auto; [left; reflexivity|].
    rewrite EQ. exact ES.
  - (* read-side ops *)
    cbn [sub_op] in Hop.
    remember (match op_handle o with Some h => fst (hget st h) | None => l end) as l1 eqn:El1.
    destruct (step (cfg_of e l1) all_fixes (w_segs (st_w st) l1) (mkRS (map snd (st_h st)) (w_rl (st_w st) l1)) o) as [rs' v0] eqn:EST.
    intros E Hns. injection E as <- _. exists objs, pads. split; [|apply ext_refl].
    destruct (w_set_rl_dst (st_w st) l1 (rs_rl rs')) as (T1 & T2 & _).
    destruct l1; [|apply sinv_src_read; exact S].
    destruct (ro_op o) eqn:ERO.
    + (* read-only accessors *)
      rewrite (ro_step_handles _ _ _ _ _ _ _ ERO EST). rewrite skipn_all2 by (rewrite map_length; lia). cbn [map]. rewrite app_nil_r.
      apply sinv_same_segs; auto.
    + (* ops that push a handle *)
      destruct P as [P C].
      destruct o; try discriminate Hop; try discriminate ERO; cbn [op_handle] in El1; cbn [step] in EST.
      * (* Root *)
        cbn [w_segs w_rl cfg_of rs_rl rs_handles] in EST.
        destruct (root (e_cfgd e) (bm_data (w_dst (st_w st))) (bm_rl (w_dst (st_w st)))) as [r rl2] eqn:ER.
        injection EST as <- _. unfold push. cbn [rs_handles rs_rl]. rewrite skipn_push. cbn [map].
        apply read_push; auto. destruct r as [x| |]; try apply view_null.
        eapply (root_view (e_cfgd e) (w_dst (st_w st)) objs pads); eauto.
      * (* Struct.Ptr *)
        cbn [w_segs w_rl cfg_of] in EST.
        unfold handle in EST. cbn [rs_handles rs_rl] in EST. rewrite handle_hget in EST.
        destruct (struct_ptr _ _ _ _ _) as [r rl2] eqn:ER.
        injection EST as <- _. unfold push. cbn [rs_handles rs_rl]. rewrite skipn_push. cbn [map].
        apply read_push; auto. destruct r as [x| |]; try apply view_null.
        pose proof (hget_view st objs pads h S (eq_sym El1)) as Vw.
        eapply (sptr_view (e_cfgd e) (w_dst (st_w st)) objs pads (snd (hget st h)) i); eauto. lia.
      * (* List.Struct *)
        injection EST as <- _. unfold push. cbn [rs_handles rs_rl]. rewrite skipn_push. cbn [map].
        unfold handle. cbn [rs_handles]. rewrite handle_hget. set (p := snd (hget st h)).
        pose proof (hget_view st objs pads h S (eq_sym El1)) as Vw. fold p in Vw.
        apply read_push; auto.
        destruct (list_struct true (as_list p) i) as [x| |] eqn:ELS; try apply view_null.
        unfold list_struct in ELS.
        destruct (negb (p_valid (as_list p)) || (i <? 0) || (i >=? p_len (as_list p))) eqn:EI; [discriminate|].
        assert (Hval : p_valid (as_list p) = true) by (destruct (p_valid (as_list p)); auto; discriminate).
        destruct (as_list_valid p Hval) as [Eas Ek]. rewrite Eas in *.
        destruct (list_view objs p Vw Hval Ek) as [Hin _].
        destruct (p_bit p) eqn:EB; [apply Ok_inj in ELS; subst x; apply view_null|].
        destruct (element (p_off p) i (totalSize (p_size p))) as [a0|] eqn:EE; [|apply Ok_inj in ELS; subst x; apply view_null].
        apply element_spec in EE. destruct EE as [Ead _]. apply Ok_inj in ELS. subst x.
        right. right. left. exists (core p), i. split; [exact Hin|].
        unfold member_at. cbn [core p_kind p_bit p_len p_valid p_seg p_off p_size p_member]. repeat split; auto; lia.
      * (* PointerList.At *)
        cbn [w_segs w_rl cfg_of] in EST.
        unfold handle in EST. cbn [rs_handles rs_rl] in EST. rewrite handle_hget in EST.
        change (fx_upgrade all_fixes) with true in EST.
        destruct (ptrlist_at _ _ _ _ _ _) as [r rl2] eqn:ER.
        injection EST as <- _. unfold push. cbn [rs_handles rs_rl]. rewrite skipn_push. cbn [map].
        apply read_push; auto. destruct r as [x| |]; try apply view_null.
        pose proof (hget_view st objs pads h S (eq_sym El1)) as Vw.
        eapply (plat_view (e_cfgd e) (w_dst (st_w st)) objs pads (snd (hget st h)) i); eauto.
  - (* round trip *)
    destruct (root _ _ _) as [r rl]. intros E _. injection E as <- _. exists objs, pads. split; [exact S|apply ext_refl].
  - (* dump *)
    destruct l; intros E _; injection E as <- _; exists objs, pads; (split; [exact S|apply ext_refl]).
  - (* reopen: the same bytes in a fresh multi-segment arena with cap = len; the old handles are
       dropped, the tables stay *)
    intros E _. injection E as <- _. exists objs, pads. split; [|apply ext_refl]. destruct P as [P C].
    set (m1 := mkBM AMulti (map (fun d => mkBS d (zlen d)) (bm_data (w_dst (st_w st)))) [] (init_rlimit (e_cfgd e))).
    assert (ED : bm_data m1 = bm_data (w_dst (st_w st))).
    { unfold bm_data at 1. cbn [bm_segs m1]. rewrite map_map. cbn [bs_data]. apply map_id. }
    split; [|split; [|exact C]].
    + cbn [st_w w_dst w_set_dst]. apply (hinv_same_data (w_dst (st_w st))); auto. split.
      * unfold bmsg_wf. cbn [bm_segs m1]. apply Forall_forall. intros s Hs. apply in_map_iff in Hs.
        destruct Hs as (d & <- & Hd). unfold bm_data in Hd. apply in_map_iff in Hd. destruct Hd as (b & <- & Hbs).
        destruct (hi_inv _ _ _ H) as [Hw0 _]. unfold bmsg_wf in Hw0. rewrite Forall_forall in Hw0. destruct (Hw0 b Hbs) as [_ H8].
        unfold seg_wf, blen in *. cbn [bs_data bs_cap]. lia.
      * unfold arena_wf. cbn [bm_arena m1]. discriminate.
    + cbn [st_h]. unfold pool_ok in *. rewrite Forall_forall in *. intros x Hx. apply in_map_iff in Hx.
      destruct Hx as ([l0 p0] & <- & Hin0). cbn [fst]. destruct l0; cbn [fst snd]; [intros _; apply view_null|discriminate].
Qed.

(* ------------------------------------------------------------------ the source message and its handles *)
Lemma spool_push st w l p :
  spool st -> w_src w = w_src (st_w st) -> (l = InSrc -> sview (w_src (st_w st)) p) -> spool (hpush st w l p).
Proof.
  intros [M P] E V. unfold spool, hpush. cbn [st_w st_h]. rewrite E. split; [exact M|].
  apply Forall_app. split; [exact P|]. constructor; [exact V|constructor].
Qed.

Lemma spool_world st w : spool st -> w_src w = w_src (st_w st) -> spool (mkBSt w (st_h st)).
Proof. intros [M P] E. unfold spool. cbn [st_w st_h]. rewrite E. split; auto. Qed.

Lemma root_sview c sm rl p rl' : msg_ok sm -> cfg_strict c = true -> root c sm rl = (Ok p, rl') -> sview sm p.
Proof.
  intros Hm Hc HR. unfold root, lookup_segment in HR.
  destruct ((0 <=? 0) && (0 <? zlen sm)) eqn:E0; [|discriminate].
  destruct (negb _); [destruct (cfg_root c); discriminate|].
  rewrite Hc in HR. apply (readPtr_sview sm rl 0 0 (depth_limit c) p rl'); auto. lia.
Qed.

Lemma sptr_sview c sm hp i rl p rl' : msg_ok sm -> cfg_strict c = true -> sview sm hp ->
  struct_ptr c sm rl (as_struct hp) i = (Ok p, rl') -> sview sm p.
Proof.
  intros Hm Hc V HR. unfold struct_ptr in HR.
  destruct (negb (p_valid (as_struct hp)) || (i >=? PointerCount (p_size (as_struct hp)))) eqn:EE.
  { apply (f_equal fst) in HR. cbn [fst] in HR. apply Ok_inj in HR. subst p. apply sview_null. }
  assert (Hval : p_valid (as_struct hp) = true) by (destruct (p_valid (as_struct hp)); auto; discriminate).
  destruct (as_struct_valid hp Hval) as [Eas Ek]. rewrite Eas in *.
  destruct (V Hval) as (_ & Sg & _). rewrite Hc in HR. unfold seg_of in HR.
  eapply (readPtr_sview sm rl (p_seg hp)); eauto.
Qed.

Lemma plat_sview c sm hp i rl p rl' : msg_ok sm -> cfg_strict c = true -> sview sm hp ->
  ptrlist_at c true sm rl (as_list hp) i = (Ok p, rl') -> sview sm p.
Proof.
  intros Hm Hc V HR. unfold ptrlist_at in HR.
  destruct (primitiveElem true (as_list hp) i (mkOS 0 1)) as [addr| |] eqn:PE; try discriminate.
  assert (Hval : p_valid (as_list hp) = true).
  { unfold primitiveElem in PE. destruct (p_valid (as_list hp)); auto. cbn in PE. discriminate. }
  destruct (as_list_valid hp Hval) as [Eas Ek]. rewrite Eas in *.
  destruct (V Hval) as (_ & Sg & _). rewrite Hc in HR. unfold seg_of in HR.
  eapply (readPtr_sview sm rl (p_seg hp)); eauto.
Qed.

(* every op leaves the source message and the source views of the pool intact (the data
   setters by the premise [dst_only]) *)
Theorem bstep_spool e st o st' out :
  cfg_strict (e_cfgs e) = true -> spool st -> dst_only st o -> bstep e st o = (Some st', out) -> spool st'.
Proof.
  intros Hcs SP Hdo. pose proof SP as [Hm Pp]. unfold bstep.
  assert (WP : forall f w d o l src fc w', write_ptr f true w d o l src fc = Ok w' -> w_src w' = w_src w).
  { intros f. exact (proj1 (src_pres true f) true). }
  assert (CP : forall f w dst l src w', copy_struct f true w dst l src = Ok w' -> w_src w' = w_src w).
  { intros f. exact (proj2 (src_pres true f) true). }
  assert (DS : forall h (F : bmsg -> res bmsg), fst (hget st h) = InDst ->
             dset st (set_in (st_w st) (fst (hget st h)) F) = (Some st', out) -> spool st').
  { intros h F El E. rewrite El in E. unfold dset, set_in in E.
    destruct (lift0 (st_w st) (F (w_dst (st_w st)))) as [w1| |] eqn:EL; injection E as <- _; auto.
    apply spool_world; auto. apply (lift0_src _ _ _ EL). }
  assert (PS : forall r, (forall w1, r = Ok w1 -> w_src w1 = w_src (st_w st)) -> pset st r = (Some st', out) -> spool st').
  { intros r Hr E. unfold pset in E. destruct r as [w1| |]; try discriminate. injection E as <- _. apply spool_world; auto. }
  destruct o; cbv zeta.
  1-5,7: (destruct (negb (valid_sid st sid)); [intros E; injection E as <- _; apply spool_push; auto; discriminate|];
          unfold ctor; match goal with |- (match ?r with _ => _ end) = _ -> _ => destruct r as [[m1 p1]| |] end;
          intros E; try discriminate E; injection E as <- _; apply spool_push; auto; discriminate).
  - (* NewVoid *)
    destruct (negb (valid_sid st sid)); [intros E; injection E as <- _; apply spool_push; auto; discriminate|].
    destruct (newVoidList sid n); intros E; injection E as <- _; apply spool_push; auto; discriminate.
  - (* NewInterface *)
    destruct (negb (valid_sid st sid)); intros E; injection E as <- _; apply spool_push; auto; discriminate.
  - (* AddCap *)
    intros E. injection E as <- _. apply spool_world; auto.
  - destruct (hget st h) as [l p] eqn:EH. intros E. apply (DS h (fun m0 => struct_set_uint m0 (as_struct p) off n v)).
    + exact Hdo.
    + rewrite EH. exact E.
  - destruct (hget st h) as [l p] eqn:EH. intros E. apply (DS h (fun m0 => struct_set_bit m0 (as_struct p) n v)).
    + exact Hdo.
    + rewrite EH. exact E.
  - destruct (hget st h) as [l p] eqn:EH. intros E. apply (DS h (fun m0 => list_set_uint m0 (as_list p) i n v)).
    + exact Hdo.
    + rewrite EH. exact E.
  - destruct (hget st h) as [l p] eqn:EH. intros E. apply (DS h (fun m0 => bitlist_set m0 (as_list p) i v)).
    + exact Hdo.
    + rewrite EH. exact E.
  - (* SetPtr *)
    destruct (hget st h) as [l p]. destruct (hget st hs) as [ls q]. destruct (is_src l); [discriminate|].
    apply PS. intros w1 E. unfold struct_set_ptr in E. destruct (negb _ || _); [discriminate|]. apply (WP _ _ _ _ _ _ _ _ E).
  - (* PointerList.Set *)
    destruct (hget st h) as [l p]. destruct (hget st hs) as [ls q]. destruct (is_src l); [discriminate|].
    apply PS. intros w1 E. unfold ptrlist_set in E. destruct (primitiveElem _ _ _ _); cbn [bind] in E; try discriminate. apply (WP _ _ _ _ _ _ _ _ E).
  - (* SetStruct *)
    destruct (hget st h) as [l p]. destruct (hget st hs) as [ls q]. destruct (is_src l); [discriminate|].
    apply PS. intros w1 E. unfold list_set_struct in E. destruct (p_bit _); [discriminate|].
    destruct (list_struct _ _ _); cbn [bind] in E; try discriminate. apply (CP _ _ _ _ _ _ E).
  - (* CopyFrom *)
    destruct (hget st h) as [l p]. destruct (hget st hs) as [ls q]. destruct (is_src l); [discriminate|].
    apply PS. intros w1 E. apply (CP _ _ _ _ _ _ E).
  - (* SetRoot *)
    destruct (hget st hs) as [ls q]. apply PS. intros w1 E. unfold set_root, set_root_gen in E.
    destruct (bm_segs _); [discriminate|]. destruct (negb _); [discriminate|]. apply (WP _ _ _ _ _ _ _ _ E).
  - (* read ops *)
    remember (match op_handle o with Some h => fst (hget st h) | None => l end) as l1 eqn:El1.
    destruct (step (cfg_of e l1) all_fixes (w_segs (st_w st) l1) (mkRS (map snd (st_h st)) (w_rl (st_w st) l1)) o) as [rs' v0] eqn:EST.
    intros E. injection E as <- _.
    destruct (w_set_rl_dst (st_w st) l1 (rs_rl rs')) as (_ & _ & T3).
    unfold spool. cbn [st_w st_h]. rewrite T3. split; [exact Hm|]. apply Forall_app. split; [exact Pp|].
    apply Forall_forall. intros x Hx. apply in_map_iff in Hx. destruct Hx as (p & <- & Hp). cbn [fst snd]. intros El. rewrite El in *.
    cbn [cfg_of w_segs w_rl] in EST.
    destruct o; cbn [step op_handle] in EST, El1.
    + destruct (root _ _ _) as [r rl2] eqn:ER. injection EST as <- _. unfold push in Hp. cbn [rs_handles] in Hp. rewrite skipn_push in Hp.
      destruct Hp as [<-|[]]. destruct r as [x| |]; try apply sview_null. apply (root_sview (e_cfgs e) _ _ _ _ Hm Hcs ER).
    + unfold handle in EST. cbn [rs_handles rs_rl] in EST. rewrite handle_hget in EST.
      destruct (struct_ptr _ _ _ _ _) as [r rl2] eqn:ER. injection EST as <- _. unfold push in Hp. cbn [rs_handles] in Hp. rewrite skipn_push in Hp.
      destruct Hp as [<-|[]]. destruct r as [x| |]; try apply sview_null.
      apply (sptr_sview (e_cfgs e) _ (snd (hget st h)) i _ _ _ Hm Hcs (hget_sview st h SP (eq_sym El1)) ER).
    + injection EST as <- _. cbn [rs_handles] in Hp. rewrite skipn_all2 in Hp by (rewrite map_length; lia). destruct Hp.
    + injection EST as <- _. cbn [rs_handles] in Hp. rewrite skipn_all2 in Hp by (rewrite map_length; lia). destruct Hp.
    + injection EST as <- _. cbn [rs_handles] in Hp. rewrite skipn_all2 in Hp by (rewrite map_length; lia). destruct Hp.
    + injection EST as <- _. unfold push in Hp. cbn [rs_handles] in Hp. rewrite skipn_push in Hp. destruct Hp as [<-|[]].
      unfold handle. cbn [rs_handles]. rewrite handle_hget.
      destruct (list_struct true (as_list (snd (hget st h))) i) as [x| |] eqn:ELS; try apply sview_null.
      assert (Hval : p_valid (as_list (snd (hget st h))) = true).
      { unfold list_struct in ELS. destruct (p_valid (as_list (snd (hget st h)))); auto. cbn in ELS. discriminate. }
      destruct (as_list_valid _ Hval) as [Eas Ek]. rewrite Eas in *.
      apply (list_struct_sview _ _ i x (hget_sview st h SP (eq_sym El1)) Ek ELS).
    + unfold handle in EST. cbn [rs_handles rs_rl] in EST. rewrite handle_hget in EST. change (fx_upgrade all_fixes) with true in EST.
      destruct (ptrlist_at _ _ _ _ _ _) as [r rl2] eqn:ER. injection EST as <- _. unfold push in Hp. cbn [rs_handles] in Hp. rewrite skipn_push in Hp.
      destruct Hp as [<-|[]]. destruct r as [x| |]; try apply sview_null.
      apply (plat_sview (e_cfgs e) _ (snd (hget st h)) i _ _ _ Hm Hcs (hget_sview st h SP (eq_sym El1)) ER).
    + injection EST as <- _. cbn [rs_handles] in Hp. rewrite skipn_all2 in Hp by (rewrite map_length; lia). destruct Hp.
    + injection EST as <- _. cbn [rs_handles] in Hp. rewrite skipn_all2 in Hp by (rewrite map_length; lia). destruct Hp.
    + injection EST as <- _. cbn [rs_handles] in Hp. rewrite skipn_all2 in Hp by (rewrite map_length; lia). destruct Hp.
    + injection EST as <- _. cbn [rs_handles] in Hp. rewrite skipn_all2 in Hp by (rewrite map_length; lia). destruct Hp.
    + injection EST as <- _. cbn [rs_handles] in Hp. rewrite skipn_all2 in Hp by (rewrite map_length; lia). destruct Hp.
    + injection EST as <- _. cbn [rs_handles] in Hp. rewrite skipn_all2 in Hp by (rewrite map_length; lia). destruct Hp.
    + destruct (walk _ _ _ _ _ _ _ _) as [t rl1]. injection EST as <- _. cbn [rs_handles] in Hp. rewrite skipn_all2 in Hp by (rewrite map_length; lia). destruct Hp.
    + (* reset: no handle is added *) injection EST as <- _. cbn [rs_handles] in Hp. rewrite skipn_nil in Hp. destruct Hp.
    + (* ResetReadLimit / Unread: no handle is added *) injection EST as <- _. cbn [rs_handles] in Hp. rewrite skipn_all2 in Hp by (rewrite map_length; lia). destruct Hp.
    + injection EST as <- _. cbn [rs_handles] in Hp. rewrite skipn_all2 in Hp by (rewrite map_length; lia). destruct Hp.
  - (* round trip *)
    destruct (root _ _ _) as [r rl]. intros E. injection E as <- _. exact SP.
  - (* dump *)
    destruct l; intros E; injection E as <- _; exact SP.
  - (* reopen *)
    intros E. injection E as <- _. unfold spool. cbn [st_w st_h w_src w_set_dst]. split; [exact Hm|].
    apply Forall_forall. intros x Hx. apply in_map_iff in Hx. destruct Hx as ([l0 p0] & <- & Hin0). cbn [fst].
    destruct l0; cbn [fst snd]; [discriminate|]. intros _. rewrite Forall_forall in Pp. apply (Pp _ Hin0 eq_refl).
Qed.

(* ------------------------------------------------------------------ op lists *)
Definition sub_prog (ops : list bop) : bool := forallb sub_op ops.
Definition seg_bound (st : bstate) : Prop := nsegs (w_dst (st_w st)) < 4294967296.

(* [dst_only] at every step of a run *)
Fixpoint dst_run (e : benv) (st : bstate) (ops : list bop) : Prop :=
  match ops with
  | [] => True
  | o :: r => dst_only st o /\ match bstep e st o with (Some st1, _) => dst_run e st1 r | _ => True end
  end.

Theorem brun_hinv e : cfg_strict (e_cfgs e) = true -> forall ops st objs pads,
  sinv st objs pads -> spool st -> sub_prog ops = true -> dst_run e st ops -> Forall seg_bound (bstates e st ops) ->
  Forall (fun st' => exists objs' pads', sinv st' objs' pads') (bstates e st ops).
Proof.
  intros Hcs. induction ops as [|o r IH]; intros st objs pads S SP Hp Hd Hb; cbn [bstates] in *; constructor; eauto.
  cbn [sub_prog forallb] in Hp. apply andb_prop in Hp. destruct Hp as [Ho Hr].
  inversion Hb as [|? ? _ Hb']; subst. destruct Hd as [Hd1 Hd2].
  destruct (bstep e st o) as [[st1|] v] eqn:E; [|constructor].
  assert (B1 : seg_bound st1) by (destruct r; cbn [bstates] in Hb'; inversion Hb'; assumption).
  destruct (bstep_hinv e st objs pads o st1 v S SP Ho Hd1 E B1) as (objs1 & pads1 & S1 & _).
  pose proof (bstep_spool e st o st1 v Hcs SP Hd1 E) as SP1.
  eapply IH; eauto.
Qed.

(* ------------------------------------------------------------------ initial states *)
Lemma hinv_fresh m : inv m -> 0 < nsegs m < 4294967296 -> mem m 0 = repeat 0 8 ->
  (forall i, 0 < i -> mem m i = []) -> hinv m [] [].
Proof.
  intros Hi Hn H0 Hr.
  assert (Sm : segs_small m).
  { intros i. destruct (Z_le_gt_dec i 0) as [L|G].
    - assert (E : mem m i = mem m 0) by (unfold mem, get_seg; replace (Z.to_nat i) with O by lia; reflexivity).
      rewrite E, H0. cbn. unfold maxSegmentSize. lia.
    - rewrite Hr by lia. cbn. unfold maxSegmentSize. lia. }
  constructor; auto; try lia; try (intros i j Hij Hj; cbn in Hj; lia); try (intros ? []; fail); try (intros ? ? _ []; fail).
  - intros r [<-|[]]. unfold in_msg, root_reg. cbn [r_seg r_start r_size].
    apply in_seg_intro; rewrite ?zlen_bm, ?seg_len_bm; try lia. rewrite H0. cbn. lia.
  - intros q [<-|[]]. apply null_slot_ok. cbn [fst snd].
    rewrite word_at_sub; try lia; [|rewrite H0; cbn; lia]. rewrite H0. reflexivity.
Qed.

Definition all_empty (m : bmsg) : Prop := forall i, mem m i = [].

Lemma alloc_on_empty m sid sz m1 s1 a :
  inv m -> all_empty m -> 0 <= sid < nsegs m -> 0 <= sz -> alloc m sid sz = Ok (m1, s1, a) ->
  mem m1 s1 = repeat 0 (Z.to_nat (padToWord sz)) /\ 0 <= s1 < nsegs m1 /\ (forall i, 0 <= i -> i <> s1 -> mem m1 i = []).
Proof.
  intros [Hwf Har] He Hs Hz EA.
  pose proof (alloc_fresh _ _ _ _ _ _ Hwf Har Hs Hz EA) as AF. cbv zeta in AF.
  destruct AF as (A1 & _ & _ & _ & _ & A6 & _ & _ & _ & A10 & _).
  unfold all_empty, mem in *. split; [rewrite A6, (He s1); reflexivity|]. split; [unfold nsegs; exact A1|].
  intros i Hi Hne. rewrite A10 by assumption. apply He.
Qed.

Definition root_cap_ok (a : arena_spec) : Prop :=
  match a with ArRaw (c :: _) => 8 <= c < 4294967296 | ArRaw [] => False | _ => True end.

Lemma raw_all_empty k cs rl : all_empty (mkBM k (map (fun c => mkBS [] c) cs) [] rl).
Proof.
  intros i. unfold mem, get_seg. cbn [bm_segs].
  destruct (Nat.lt_ge_cases (Z.to_nat i) (length (map (fun c => mkBS [] c) cs))) as [L|G].
  - apply nth_In with (d := mkBS [] 0) in L. apply in_map_iff in L. destruct L as (c & <- & _). reflexivity.
  - rewrite nth_overflow by lia. reflexivity.
Qed.

Lemma create_hinv a rl m :
  arena_spec_wf a -> root_cap_ok a -> create a rl = Ok m -> nsegs m < 4294967296 -> hinv m [] [].
Proof.
  intros Hw Hr Hc Hn.
  assert (Fin : forall m1 m2 sid x, inv m1 -> all_empty m1 -> 0 < nsegs m1 -> alloc m1 0 8 = Ok (m2, sid, x) -> sid = 0 ->
                nsegs m2 < 4294967296 -> hinv m2 [] []).
  { intros m1 m2 sid x I1 E1 N1 EA Es Hn2. subst sid.
    assert (H08 : 0 <= 8) by lia. assert (H0 : 0 <= 0 < nsegs m1) by lia.
    destruct (alloc_on_empty _ _ _ _ _ _ I1 E1 H0 H08 EA) as (A1 & A2 & A3).
    destruct (alloc_new _ _ _ _ _ _ I1 H0 H08 EA) as (I2 & _).
    apply hinv_fresh; auto; [lia|]. intros i Hi. apply A3; lia. }
  unfold create in Hc.
  assert (NM : forall k caps, caps_ok caps -> new_message k caps rl = Ok m -> hinv m [] []).
  { intros k caps Hcaps. unfold new_message. cbv zeta.
    match goal with |- context [bind ?X _] => destruct X as [m1| |] eqn:E1; cbn [bind]; try discriminate end.
    assert (I1 : inv m1 /\ all_empty m1 /\ 0 < nsegs m1).
    { destruct caps as [|c [|c2 r]]; try discriminate.
      - destruct k.
        + apply Ok_inj in E1. subst m1. split; [apply (raw_inv ASingle [0] rl); [repeat constructor; lia|reflexivity]|].
          split; [apply (raw_all_empty ASingle [0] rl)|unfold nsegs, zlen; cbn; lia].
        + unfold allocSegment in E1. cbn [bm_arena bm_segs map multi_find] in E1.
          destruct (8 >? maxAllocSize) eqn:E8; [discriminate|].
          destruct (nextAlloc 0 maxInt64 8) as [n| |] eqn:EN; cbn [bind] in E1; try discriminate.
          apply Ok_inj in E1. cbn [fst app] in E1. subst m1.
          assert (Hn0 : 0 <= n) by (apply (nextAlloc_facts 0 maxInt64 8 n); auto; lia).
          split; [apply (raw_inv AMulti [n] rl); [repeat constructor; lia|discriminate]|].
          split; [apply (raw_all_empty AMulti [n] rl)|unfold nsegs, zlen; cbn; lia].
      - apply Ok_inj in E1. subst m1. split; [apply raw_inv; auto|]. split; [apply raw_all_empty|unfold nsegs, zlen; cbn; lia]. }
    destruct I1 as (I1 & E1' & N1).
    destruct (alloc m1 0 8) as [[[m2 sid] x]| |] eqn:EA; cbn [bind]; try discriminate.
    destruct (sid =? 0) eqn:Es; [|discriminate]. intros X. apply Ok_inj in X. subst m2.
    apply (Fin m1 m sid x); auto. lia. }
  destruct a as [[c|]|[c|]|cs]; cbn [arena_spec_wf root_cap_ok] in *.
  - apply (NM ASingle [c]); auto. repeat constructor. exact Hw.
  - apply (NM ASingle []); auto. constructor.
  - apply (NM AMulti [c]); auto. repeat constructor. exact Hw.
  - apply (NM AMulti []); auto. constructor.
  - destruct cs as [|c r]; [destruct Hr|].
    destruct (newStruct (raw_message AMulti (c :: r) rl) 0 (mkOS 8 0)) as [[m1 p]| |] eqn:EN; cbn [bind] in Hc; try discriminate.
    apply Ok_inj in Hc. cbn [fst] in Hc. subst m1.
    unfold newStruct in EN. cbn [os_isValid negb DataSize PointerCount] in EN.
    change (negb (8 <=? 65535 * 8)) with false in EN. cbv iota in EN.
    change (totalSize (mkOS (padToWord 8) 0)) with 8 in EN.
    destruct (alloc (raw_message AMulti (c :: r) rl) 0 8) as [[[m2 sid] x]| |] eqn:EA; cbn [bind] in EN; try discriminate.
    apply Ok_inj in EN. injection EN as -> _.
    pose proof (raw_inv AMulti (c :: r) rl Hw ltac:(discriminate)) as I0.
    assert (Es : sid = 0).
    { eapply alloc_in_place; [|exact EA]. unfold raw_message, get_seg, hasCapacity, blen, zlen, u32. cbn. inversion Hw; subst. lia. }
    apply (Fin (raw_message AMulti (c :: r) rl) m sid x); auto.
    + apply raw_all_empty.
    + unfold nsegs, raw_message, zlen. cbn [bm_segs map length]. lia.
Qed.

(* [heap_inv_sublang]: every arena configuration that has a root word, every source message
   (any bytes 0..255), every program, every state the interpreter reaches while the message has
   fewer than 2^32 segments: every valid pool handle is a view of the object table resp. a source
   view, and the pointer-level invariant holds *)
Theorem heap_inv_sublang a cfgd cfgs ncaps fuel src ops m :
  arena_spec_wf a -> root_cap_ok a -> create a (init_rlimit cfgd) = Ok m -> sub_prog ops = true ->
  msg_ok src -> cfg_strict cfgs = true ->
  let st0 := mkBSt (mkW m src (init_rlimit cfgs)) [] in
  dst_run (mkEnv cfgd cfgs ncaps fuel) st0 ops ->
  Forall seg_bound (bstates (mkEnv cfgd cfgs ncaps fuel) st0 ops) ->
  Forall (fun st => exists objs pads, sinv st objs pads) (bstates (mkEnv cfgd cfgs ncaps fuel) st0 ops).
Proof.
  intros Ha Hr Hc Hp Hms Hcs st0 Hd Hb.
  assert (B0 : seg_bound st0) by (destruct ops; cbn [bstates] in Hb; inversion Hb; assumption).
  apply (brun_hinv (mkEnv cfgd cfgs ncaps fuel) Hcs ops st0 [] []); auto.
  - split; [cbn; eapply create_hinv; eauto|]. split; [constructor|intros h []].
  - split; [exact Hms|constructor].
Qed.
