(* Pointer-level validity at write time, in the terms of the encoding specification
   (coq/Spec): the pointer word(s) that writePtr's placement switch stores for a struct target
   - near, far + landing pad, double-far + pad, in every arena configuration - are resolved by
   the specification decoder ([spec_resolve], lenient mode = what every conforming reader
   accepts) to exactly that struct, and the target lies inside the message.
   Obtained from [place_resolves] / [resolved_read_struct] (reader model) and
   [read_ptr_sound] (reader model => specification). *)
From CV Require Import Core.Builder Core.ReaderFacts Core.ArithFacts Core.BuilderFacts Core.AllocProofs
  Core.WritePtrProofs Spec.SpecFacts.
From Coq Require Import ZifyBool ZifyNat.
Open Scope Z_scope.

Ltac Zify.zify_post_hook ::= Z.div_mod_to_equations.

Theorem placed_struct_is_spec_valid w dsid off tsid taddr sz raw w' :
  place_pre (w_dst w) dsid off tsid taddr raw ->
  rawStructPointer 0 sz = Some raw -> os_wf sz -> os_isZero sz = false ->
  taddr + totalSize sz <= zlen (mem (w_dst w) tsid) ->
  place w dsid off tsid taddr raw = Ok w' ->
  SpecProofs.bytes_ok (bm_data (w_dst w')) ->
  let m' := bm_data (w_dst w') in
  spec_resolve false m' dsid (off / 8) = Some (TgtStruct tsid (taddr / 8) (DataSize sz / 8) (PointerCount sz)) /\
  tgt_wf (TgtStruct tsid (taddr / 8) (DataSize sz / 8) (PointerCount sz)) /\
  tgt_inside m' (TgtStruct tsid (taddr / 8) (DataSize sz / 8) (PointerCount sz)).
Proof.
  intros Hpre Hraw Hwf Hnz Hin Hpl Hb. cbv zeta.
  destruct (struct_pointer_roundtrip 0 sz ltac:(unfold off_ok; lia) Hwf) as (p & Ep & Pw & Pt & Po & Ps).
  rewrite Hraw in Ep. apply (f_equal (fun o => match o with Some x => x | None => 0 end)) in Ep. subst p.
  destruct (place_resolves _ _ _ _ _ _ _ Hpre Hpl) as (R & _ & _ & _ & _ & (pw & Hfr)).
  pose proof Hpre as (_ & _ & Hsm & _ & Hd' & Ht & _ & Ho0 & Hom & Hol & Ht0 & Htm & _).
  (* the reader model returns the struct *)
  assert (RB : regionInBounds (nth (Z.to_nat tsid) (bm_data (w_dst w')) []) taddr (totalSize (structSize raw)) = true).
  { rewrite Ps, nth_bm_data. pose proof (Hsm tsid) as Hs1. apply regionInBounds_true; [lia|].
    destruct (Hfr tsid ltac:(lia)) as [t Et]. rewrite Et, zlen_app. pose proof (zlen_nonneg t).
    destruct (tsid =? dsid) eqn:E; [|lia]. assert (tsid = dsid) by lia. subst tsid.
    unfold zlen at 1. rewrite write_bytes_length; [unfold zlen in *; lia|lia|].
    change (zlen (le_encode 8 pw)) with 8. exact Hol. }
  pose proof (resolved_read_struct true (bm_data (w_dst w')) (totalSize (structSize raw)) dsid off tsid taddr raw 1
                R Pt ltac:(rewrite Ps; exact Hnz) RB ltac:(lia) ltac:(lia)) as RD.
  (* the frame of place keeps the number of segments at least the old one: dsid is a segment *)
  assert (HL : lookup_segment (bm_data (w_dst w')) dsid = Ok (nth (Z.to_nat dsid) (bm_data (w_dst w')) [])).
  { unfold lookup_segment.
    destruct ((0 <=? dsid) && (dsid <? zlen (bm_data (w_dst w')))) eqn:E; [reflexivity|].
    exfalso.
    (* the pointer word exists in the new message, so the segment does *)
    destruct (Hfr dsid ltac:(lia)) as [t Et]. rewrite Z.eqb_refl in Et.
    assert (Hz : 0 < zlen (mem (w_dst w') dsid)).
    { rewrite Et, zlen_app. pose proof (zlen_nonneg t). unfold zlen at 1.
      rewrite write_bytes_length; [unfold zlen in *; lia|lia|]. change (zlen (le_encode 8 pw)) with 8. exact Hol. }
    unfold mem, get_seg in Hz. unfold bm_data in E. rewrite zlen_map in E.
    rewrite nth_overflow in Hz; [unfold zlen in Hz; cbn in Hz; lia|]. unfold zlen in E. lia. }
  replace off with (8 * (off / 8)) in RD by lia.
  destruct (read_ptr_sound _ _ _ _ _ _ _ _ Hb HL (proj1 (totalSize_nonneg (structSize raw))) RD)
    as (t & SR & TW & TI & PE & _).
  destruct t as [|i|s a dw pc|s a e n]; cbn [SpecProofs.ptr_of_target] in PE; try discriminate PE.
  assert (E1 : tsid = s) by (apply (f_equal p_seg) in PE; exact PE).
  assert (E2 : taddr = 8 * a) by (apply (f_equal p_off) in PE; exact PE).
  assert (E3 : structSize raw = mkOS (8 * dw) pc) by (apply (f_equal p_size) in PE; exact PE).
  subst s. rewrite <- Ps. rewrite E3. cbn [DataSize PointerCount].
  rewrite E2. replace (8 * a / 8) with a by lia.
  replace (8 * dw / 8) with dw by lia.
  split; [exact SR|]. split; [exact TW|exact TI].
Qed.
