(* C05, pointer-level heap invariant (work towards [heap_inv]): the pointer words the builder
   stores are valid for the strict validity predicate of BuildValid.v ([resolve_ptr]), and stay
   valid under every later operation of the sub-language
     { constructors of structs and of every list kind, text/data, data setters,
       Struct.SetPtr / Message.SetRoot of objects of the same message }.
   See the end of the file for the theorem over op lists ([heap_inv_partial2]). *)
From CV Require Import Core.Builder Core.ReaderFacts Core.ArithFacts Core.BuilderFacts Core.AllocProofs
  Core.WritePtrProofs Core.HeapProofs Core.BuildOps Core.BuildValid Core.BuildInv.
From Coq Require Import ZifyBool ZifyNat.
Open Scope Z_scope.

Ltac Zify.zify_post_hook ::= Z.div_mod_to_equations.

(* ------------------------------------------------------------------ fields of constructed words *)
Ltac unf := unfold f_A, f_off, f_dw, f_pc, f_C, f_D, f_B, f_padoff, f_seg, two30, two32 in *.

Lemma fields_withOffset p o :
  0 <= p < 18446744073709551616 -> p mod 4 < 2 -> off_ok o ->
  let q := withOffset p o in
  0 <= q < 18446744073709551616 /\ f_A q = p mod 4 /\ f_off q = o /\ f_dw q = f_dw p /\ f_pc q = f_pc p /\
  f_C q = f_C p /\ f_D q = f_D p /\ (p / 4294967296 <> 0 \/ p mod 4 <> 0 -> q <> 0).
Proof.
  intros Hp Ht Ho. cbv zeta. rewrite withOffset_sum. unfold off_ok in Ho. unf.
  repeat split; try lia.
  - cbv zeta. destruct (_ <? _) eqn:E; lia.
Qed.

Lemma fields_struct sz : os_wf sz ->
  exists raw, rawStructPointer 0 sz = Some raw /\ 0 <= raw < 18446744073709551616 /\ raw mod 4 = 0 /\
    f_dw raw = DataSize sz / 8 /\ f_pc raw = PointerCount sz /\ f_off raw = 0 /\
    raw / 4294967296 = PointerCount sz * 65536 + DataSize sz / 8.
Proof.
  intros Hw. rewrite rawStructPointer_sum by assumption. destruct Hw as (Hd & Hm & Hp).
  eexists. split; [reflexivity|]. unf. cbv zeta. repeat split; try lia.
  destruct (_ <? _) eqn:E; lia.
Qed.

Lemma fields_list lt len : 0 <= lt < 8 -> 0 <= len < 536870912 ->
  let raw := rawListPointer 0 lt len in
  0 <= raw < 18446744073709551616 /\ raw mod 4 = 1 /\ f_C raw = lt /\ f_D raw = len /\ f_off raw = 0.
Proof.
  intros Hl Hn. cbv zeta. rewrite rawListPointer_sum by assumption. unf. cbv zeta. repeat split; try lia.
  destruct (_ <? _) eqn:E; lia.
Qed.

Lemma fields_far seg off : 0 <= seg < 4294967296 -> 0 <= off < 4294967296 -> off mod 8 = 0 ->
  let w := rawFarPointer seg off in
  0 <= w < 18446744073709551616 /\ w <> 0 /\ f_A w = 2 /\ f_B w = 0 /\ f_seg w = seg /\ 8 * f_padoff w = off.
Proof.
  intros Hs Ho Ha. cbv zeta. rewrite rawFarPointer_sum by assumption. unf. repeat split; lia.
Qed.

Lemma fields_dfar seg off : 0 <= seg < 4294967296 -> 0 <= off < 4294967296 -> off mod 8 = 0 ->
  let w := rawDoubleFarPointer seg off in
  0 <= w < 18446744073709551616 /\ w <> 0 /\ f_A w = 2 /\ f_B w = 1 /\ f_seg w = seg /\ 8 * f_padoff w = off.
Proof.
  intros Hs Ho Ha. cbv zeta. rewrite rawDoubleFarPointer_sum by assumption. unf. repeat split; lia.
Qed.

(* ------------------------------------------------------------------ words *)
Lemma word_at_of_read (ms : segs) sid off w :
  0 <= sid < zlen ms -> readRawPointer (nth (Z.to_nat sid) ms []) off = Ok w -> off + 8 < 4294967296 ->
  word_at ms sid off = Some w.
Proof.
  intros Hs H Hl.
  unfold readRawPointer, readUintN, slice in H. cbv zeta in H. unfold addSizeUnchecked, u32 in H.
  destruct ((0 <=? off) && (off <=? (off + 8) mod 4294967296) && ((off + 8) mod 4294967296 <=? zlen (nth (Z.to_nat sid) ms []))) eqn:E2;
    [|discriminate].
  cbn [bind] in H. apply Ok_inj in H.
  assert (H0 : (off + 8) mod 4294967296 = off + 8) by lia. rewrite H0 in *.
  replace (off + 8 - off) with 8 in H by lia.
  unfold word_at. cbv zeta.
  apply andb_prop in E2. destruct E2 as [E2a E2c]. apply andb_prop in E2a. destruct E2a as [E2a E2b].
  assert (C1 : (0 <=? sid) && (sid <? zlen ms) = true) by (apply andb_true_intro; split; lia).
  rewrite C1. rewrite E2a, E2c. cbn [andb]. f_equal. exact H.
Qed.

Lemma word_at_mem m sid off w :
  0 <= sid < nsegs m -> readRawPointer (mem m sid) off = Ok w -> off + 8 < 4294967296 ->
  word_at (bm_data m) sid off = Some w.
Proof.
  intros Hs H Hl. apply word_at_of_read; auto.
  - unfold bm_data. rewrite zlen_map. exact Hs.
  - now rewrite nth_bm_data.
Qed.

(* what exactly the placement switch stores *)
Inductive placed (ms' : segs) (dsid off tsid taddr raw : Z) (oldlen : Z -> Z) : list region -> Prop :=
| PlNear : tsid = dsid ->
    word_at ms' dsid off = Some (withOffset raw (nearPointerOffset off taddr)) ->
    placed ms' dsid off tsid taddr raw oldlen []
| PlFar padAddr : tsid <> dsid -> padAddr = oldlen tsid ->
    word_at ms' dsid off = Some (rawFarPointer tsid padAddr) ->
    word_at ms' tsid padAddr = Some (withOffset raw (nearPointerOffset padAddr taddr)) ->
    placed ms' dsid off tsid taddr raw oldlen [mkReg tsid padAddr 8]
| PlDfar psid padAddr : tsid <> dsid -> 0 <= psid -> padAddr = oldlen psid ->
    word_at ms' dsid off = Some (rawDoubleFarPointer psid padAddr) ->
    word_at ms' psid padAddr = Some (rawFarPointer tsid taddr) ->
    word_at ms' psid (padAddr + 8) = Some raw ->
    placed ms' dsid off tsid taddr raw oldlen [mkReg psid padAddr 16].

Lemma place_layout w dsid off tsid taddr raw w' :
  place_pre (w_dst w) dsid off tsid taddr raw ->
  place w dsid off tsid taddr raw = Ok w' ->
  exists pads, placed (bm_data (w_dst w')) dsid off tsid taddr raw (fun i => zlen (mem (w_dst w) i)) pads.
Proof.
  intros (Hwf & Har & Hsm & Hraw & Hd & Ht & Hn & Ho0 & Ho & Hol & Ht0 & Hta & Htl).
  set (m := w_dst w) in *. unfold place. fold m.
  destruct Hraw as (Rw & Rt & Ro & Rnz). unfold word64 in Rw.
  pose proof (Hsm tsid) as Hlt. pose proof (Hsm dsid) as Hld. unfold maxSegmentSize in *.
  destruct (tsid =? dsid) eqn:ETD.
  - assert (tsid = dsid) by lia. subst tsid. unfold lift0.
    destruct (writeRawPointer m dsid off _) as [m'| |] eqn:EW; cbn [bind]; try discriminate.
    intros H. apply Ok_inj in H. subst w'. cbn [w_dst w_set_dst].
    apply writeRawPointer_wrote in EW; [|lia].
    destruct (nearPointerOffset_ok off taddr) as [N1 N2]; try lia.
    destruct (withOffset_roundtrip raw (nearPointerOffset off taddr) Rw N1 Rt) as (Q1 & _). cbv zeta in Q1.
    exists []. apply PlNear; auto. apply word_at_mem; [|apply (wrote_word_back m m'); auto; lia|lia].
    unfold nsegs. rewrite (wrote_nsegs _ _ _ _ _ EW). exact Hd.
  - destruct (hasCapacity (get_seg m tsid) 8) eqn:EC.
    + destruct (alloc m tsid 8) as [[[m1 s1] padAddr]| |] eqn:EA; cbn [bind]; try discriminate.
      assert (s1 = tsid) by (eapply alloc_in_place; [rewrite padToWord_8; exact EC|exact EA]). subst s1.
      destruct (alloc_mem m tsid 8 m1 tsid padAddr Hwf Har Ht ltac:(lia) EA)
        as (A1 & A2 & A3 & A4 & A5 & A6 & A7 & A8 & A9 & A10 & A11 & A12 & A13).
      rewrite padToWord_8 in A2. unfold maxSegmentSize in A9.
      destruct (writeRawPointer m1 tsid padAddr _) as [m2| |] eqn:EW2; cbn [bind]; try discriminate.
      unfold lift0.
      destruct (writeRawPointer m2 dsid off _) as [m3| |] eqn:EW3; cbn [bind]; try discriminate.
      intros H. apply Ok_inj in H. subst w'. cbn [w_dst w_set_dst].
      apply writeRawPointer_wrote in EW2; [|lia]. apply writeRawPointer_wrote in EW3; [|lia].
      assert (Hpa : 0 <= padAddr <= 4294967288) by (pose proof (zlen_nonneg (mem m tsid)); lia).
      destruct (nearPointerOffset_ok padAddr taddr) as [N1 N2]; try lia.
      destruct (withOffset_roundtrip raw (nearPointerOffset padAddr taddr) Rw N1 Rt) as (Q1 & _). cbv zeta in Q1.
      destruct (far_pointer_roundtrip tsid padAddr ltac:(lia) ltac:(lia)) as (F1 & _). cbv zeta in F1.
      assert (M2d : mem m2 dsid = mem m dsid).
      { rewrite (wrote_mem_other _ _ _ _ _ dsid EW2) by lia. apply A10; lia. }
      assert (N3 : nsegs m3 = nsegs m1).
      { unfold nsegs. rewrite (wrote_nsegs _ _ _ _ _ EW3). apply (wrote_nsegs _ _ _ _ _ EW2). }
      exists [mkReg tsid padAddr 8]. apply PlFar; auto; try lia.
      * apply word_at_mem; [unfold nsegs in *; lia| |lia].
        apply (wrote_word_back m2 m3); auto. rewrite M2d. lia.
      * apply word_at_mem; [unfold nsegs in *; lia| |lia].
        rewrite (wrote_mem_other _ _ _ _ _ tsid EW3) by lia.
        apply (wrote_word_back m1 m2); auto. lia.
    + destruct (alloc m dsid 16) as [[[m1 psid] padAddr]| |] eqn:EA; cbn [bind]; try discriminate.
      destruct (alloc_mem m dsid 16 m1 psid padAddr Hwf Har Hd ltac:(lia) EA)
        as (A1 & A2 & A3 & A4 & A5 & A6 & A7 & A8 & A9 & A10 & A11 & A12 & A13).
      rewrite padToWord_16 in A2. unfold maxSegmentSize in A9.
      destruct (writeRawPointer m1 psid padAddr _) as [m2| |] eqn:EW2; cbn [bind]; try discriminate.
      destruct (writeRawPointer m2 psid (addSizeUnchecked padAddr 8) raw) as [m3| |] eqn:EW3; cbn [bind]; try discriminate.
      unfold lift0.
      destruct (writeRawPointer m3 dsid off _) as [m4| |] eqn:EW4; cbn [bind]; try discriminate.
      intros H. apply Ok_inj in H. subst w'. cbn [w_dst w_set_dst].
      apply writeRawPointer_wrote in EW2; [|lia]. apply writeRawPointer_wrote in EW3; [|lia].
      apply writeRawPointer_wrote in EW4; [|lia].
      assert (Hpz := zlen_nonneg (mem m psid)).
      assert (Hpa : 0 <= padAddr <= 4294967288 - 16) by lia.
      assert (EP8 : addSizeUnchecked padAddr 8 = padAddr + 8) by (unfold addSizeUnchecked, u32; lia).
      rewrite EP8 in *.
      destruct (far_pointer_roundtrip tsid taddr ltac:(lia) ltac:(lia)) as (F1 & _). cbv zeta in F1.
      destruct (double_far_pointer_roundtrip psid padAddr ltac:(lia) ltac:(lia)) as (D1 & _). cbv zeta in D1.
      assert (L1 : zlen (mem m1 psid) = padAddr + 16) by exact A2.
      assert (L2 : zlen (mem m2 psid) = padAddr + 16) by (rewrite (wrote_len _ _ _ _ _ psid EW2) by lia; exact L1).
      assert (L3 : zlen (mem m3 psid) = padAddr + 16) by (rewrite (wrote_len _ _ _ _ _ psid EW3) by lia; exact L2).
      assert (Ld1 : zlen (mem m1 dsid) >= off + 8).
      { destruct (A1 dsid ltac:(lia)) as [t Et]. rewrite Et, zlen_app. pose proof (zlen_nonneg t). lia. }
      assert (Ld3 : zlen (mem m3 dsid) = zlen (mem m1 dsid)).
      { rewrite (wrote_len _ _ _ _ _ dsid EW3) by lia. apply (wrote_len _ _ _ _ _ dsid EW2). lia. }
      assert (Lds : zlen (mem m1 dsid) <= 4294967288).
      { destruct (Z.eq_dec dsid psid) as [->|Hne]; [lia|]. rewrite A10 by lia. lia. }
      assert (Hsep : dsid <> psid \/ off + 8 <= padAddr).
      { destruct (Z.eq_dec dsid psid) as [->|Hne]; [right; lia|left; exact Hne]. }
      assert (N4 : nsegs m4 = nsegs m1).
      { unfold nsegs. rewrite (wrote_nsegs _ _ _ _ _ EW4), (wrote_nsegs _ _ _ _ _ EW3). apply (wrote_nsegs _ _ _ _ _ EW2). }
      exists [mkReg psid padAddr 16]. apply PlDfar; auto; try lia.
      * apply word_at_mem; [unfold nsegs in *; lia| |lia]. apply (wrote_word_back m3 m4); auto. lia.
      * apply word_at_mem; [unfold nsegs in *; lia| |lia].
        rewrite (readRawPointer_other _ _ _ _ _ psid padAddr EW4) by (change (zlen (le_encode 8 (rawDoubleFarPointer psid padAddr))) with 8; lia).
        rewrite (readRawPointer_other _ _ _ _ _ psid padAddr EW3) by (change (zlen (le_encode 8 raw)) with 8; lia).
        apply (wrote_word_back m1 m2); auto. lia.
      * apply word_at_mem; [unfold nsegs in *; lia| |lia].
        rewrite (readRawPointer_other _ _ _ _ _ psid (padAddr + 8) EW4) by (change (zlen (le_encode 8 (rawDoubleFarPointer psid padAddr))) with 8; lia).
        apply (wrote_word_back m2 m3); auto. lia.
Qed.
