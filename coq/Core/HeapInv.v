(* C05, pointer-level heap invariant (work towards [heap_inv]): the pointer words the builder
   stores are valid for the strict validity predicate of BuildValid.v ([resolve_ptr]), and stay
   valid under every later operation of the sub-language
     { constructors of structs and of every list kind, text/data, data setters,
       Struct.SetPtr / Message.SetRoot of objects of the same message }.
   See the end of the file for the theorem over op lists ([heap_inv_partial2]). *)
From CV Require Import Core.Builder Core.ReaderFacts Core.ArithFacts Core.BuilderFacts Core.AllocProofs
  Core.WritePtrProofs Core.HeapProofs Core.CopyProofs Core.BuildOps Core.BuildValid Core.BuildInv.
From Coq Require Import ZifyBool ZifyNat.
Open Scope Z_scope.

Ltac Zify.zify_post_hook ::= Z.div_mod_to_equations.

(* ------------------------------------------------------------------ fields of constructed words *)
Ltac unf := unfold f_A, f_off, f_dw, f_pc, f_C, f_D, f_B, f_padoff, f_seg, two30, two32 in *.

Lemma fields_withOffset p o :
  0 <= p < 18446744073709551616 -> p mod 4 < 2 -> off_ok o ->
  let q := withOffset p o in
  0 <= q < 18446744073709551616 /\ f_A q = p mod 4 /\ f_off q = o /\ f_dw q = f_dw p /\ f_pc q = f_pc p /\
  f_C q = f_C p /\ f_D q = f_D p /\ (p / 4294967296 <> 0 \/ p mod 4 <> 0 -> q <> 0).
Proof.
  intros Hp Ht Ho. cbv zeta. rewrite withOffset_sum. unfold off_ok in Ho. unf.
  repeat split; try lia.
  - cbv zeta. destruct (_ <? _) eqn:E; lia.
Qed.

Lemma fields_struct sz : os_wf sz ->
  exists raw, rawStructPointer 0 sz = Some raw /\ 0 <= raw < 18446744073709551616 /\ raw mod 4 = 0 /\
    f_dw raw = DataSize sz / 8 /\ f_pc raw = PointerCount sz /\ f_off raw = 0 /\
    raw / 4294967296 = PointerCount sz * 65536 + DataSize sz / 8.
Proof.
  intros Hw. rewrite rawStructPointer_sum by assumption. destruct Hw as (Hd & Hm & Hp).
  eexists. split; [reflexivity|]. unf. cbv zeta. repeat split; try lia.
  destruct (_ <? _) eqn:E; lia.
Qed.

Lemma fields_list lt len : 0 <= lt < 8 -> 0 <= len < 536870912 ->
  let raw := rawListPointer 0 lt len in
  0 <= raw < 18446744073709551616 /\ raw mod 4 = 1 /\ f_C raw = lt /\ f_D raw = len /\ f_off raw = 0.
Proof.
  intros Hl Hn. cbv zeta. rewrite rawListPointer_sum by assumption. unf. cbv zeta. repeat split; try lia.
  destruct (_ <? _) eqn:E; lia.
Qed.

Lemma fields_far seg off : 0 <= seg < 4294967296 -> 0 <= off < 4294967296 -> off mod 8 = 0 ->
  let w := rawFarPointer seg off in
  0 <= w < 18446744073709551616 /\ w <> 0 /\ f_A w = 2 /\ f_B w = 0 /\ f_seg w = seg /\ 8 * f_padoff w = off.
Proof.
  intros Hs Ho Ha. cbv zeta. rewrite rawFarPointer_sum by assumption. unf. repeat split; lia.
Qed.

Lemma fields_dfar seg off : 0 <= seg < 4294967296 -> 0 <= off < 4294967296 -> off mod 8 = 0 ->
  let w := rawDoubleFarPointer seg off in
  0 <= w < 18446744073709551616 /\ w <> 0 /\ f_A w = 2 /\ f_B w = 1 /\ f_seg w = seg /\ 8 * f_padoff w = off.
Proof.
  intros Hs Ho Ha. cbv zeta. rewrite rawDoubleFarPointer_sum by assumption. unf. repeat split; lia.
Qed.

(* ------------------------------------------------------------------ words *)
Lemma word_at_of_read (ms : segs) sid off w :
  0 <= sid < zlen ms -> readRawPointer (nth (Z.to_nat sid) ms []) off = Ok w -> off + 8 < 4294967296 ->
  word_at ms sid off = Some w.
Proof.
  intros Hs H Hl.
  unfold readRawPointer, readUintN, slice in H. cbv zeta in H. unfold addSizeUnchecked, u32 in H.
  destruct ((0 <=? off) && (off <=? (off + 8) mod 4294967296) && ((off + 8) mod 4294967296 <=? zlen (nth (Z.to_nat sid) ms []))) eqn:E2;
    [|discriminate].
  cbn [bind] in H. apply Ok_inj in H.
  assert (H0 : (off + 8) mod 4294967296 = off + 8) by lia. rewrite H0 in *.
  replace (off + 8 - off) with 8 in H by lia.
  unfold word_at. cbv zeta.
  apply andb_prop in E2. destruct E2 as [E2a E2c]. apply andb_prop in E2a. destruct E2a as [E2a E2b].
  assert (C1 : (0 <=? sid) && (sid <? zlen ms) = true) by (apply andb_true_intro; split; lia).
  rewrite C1. rewrite E2a, E2c. cbn [andb]. f_equal. exact H.
Qed.

Lemma word_at_mem m sid off w :
  0 <= sid < nsegs m -> readRawPointer (mem m sid) off = Ok w -> off + 8 < 4294967296 ->
  word_at (bm_data m) sid off = Some w.
Proof.
  intros Hs H Hl. apply word_at_of_read; auto.
  - unfold bm_data. rewrite zlen_map. exact Hs.
  - now rewrite nth_bm_data.
Qed.

(* what exactly the placement switch stores *)
Inductive placed (ms' : segs) (dsid off tsid taddr raw : Z) (oldlen : Z -> Z) : list region -> Prop :=
| PlNear : tsid = dsid ->
    word_at ms' dsid off = Some (withOffset raw (nearPointerOffset off taddr)) ->
    placed ms' dsid off tsid taddr raw oldlen []
| PlFar padAddr : tsid <> dsid -> padAddr = oldlen tsid ->
    word_at ms' dsid off = Some (rawFarPointer tsid padAddr) ->
    word_at ms' tsid padAddr = Some (withOffset raw (nearPointerOffset padAddr taddr)) ->
    placed ms' dsid off tsid taddr raw oldlen [mkReg tsid padAddr 8]
| PlDfar psid padAddr : tsid <> dsid -> 0 <= psid -> padAddr = oldlen psid ->
    word_at ms' dsid off = Some (rawDoubleFarPointer psid padAddr) ->
    word_at ms' psid padAddr = Some (rawFarPointer tsid taddr) ->
    word_at ms' psid (padAddr + 8) = Some raw ->
    placed ms' dsid off tsid taddr raw oldlen [mkReg psid padAddr 16].

Lemma place_layout w dsid off tsid taddr raw w' :
  place_pre (w_dst w) dsid off tsid taddr raw ->
  place w dsid off tsid taddr raw = Ok w' ->
  exists pads, placed (bm_data (w_dst w')) dsid off tsid taddr raw (fun i => zlen (mem (w_dst w) i)) pads.
Proof.
  intros (Hwf & Har & Hsm & Hraw & Hd & Ht & Hn & Ho0 & Ho & Hol & Ht0 & Hta & Htl).
  set (m := w_dst w) in *. unfold place. fold m.
  destruct Hraw as (Rw & Rt & Ro & Rnz). unfold word64 in Rw.
  pose proof (Hsm tsid) as Hlt. pose proof (Hsm dsid) as Hld. unfold maxSegmentSize in *.
  destruct (tsid =? dsid) eqn:ETD.
  - assert (tsid = dsid) by lia. subst tsid. unfold lift0.
    destruct (writeRawPointer m dsid off _) as [m'| |] eqn:EW; cbn [bind]; try discriminate.
    intros H. apply Ok_inj in H. subst w'. cbn [w_dst w_set_dst].
    apply writeRawPointer_wrote in EW; [|lia].
    destruct (nearPointerOffset_ok off taddr) as [N1 N2]; try lia.
    destruct (withOffset_roundtrip raw (nearPointerOffset off taddr) Rw N1 Rt) as (Q1 & _). cbv zeta in Q1.
    exists []. apply PlNear; auto. apply word_at_mem; [|apply (wrote_word_back m m'); auto; lia|lia].
    unfold nsegs. rewrite (wrote_nsegs _ _ _ _ _ EW). exact Hd.
  - destruct (hasCapacity (get_seg m tsid) 8) eqn:EC.
    + destruct (alloc m tsid 8) as [[[m1 s1] padAddr]| |] eqn:EA; cbn [bind]; try discriminate.
      assert (s1 = tsid) by (eapply alloc_in_place; [rewrite padToWord_8; exact EC|exact EA]). subst s1.
      destruct (alloc_mem m tsid 8 m1 tsid padAddr Hwf Har Ht ltac:(lia) EA)
        as (A1 & A2 & A3 & A4 & A5 & A6 & A7 & A8 & A9 & A10 & A11 & A12 & A13).
      rewrite padToWord_8 in A2. unfold maxSegmentSize in A9.
      destruct (writeRawPointer m1 tsid padAddr _) as [m2| |] eqn:EW2; cbn [bind]; try discriminate.
      unfold lift0.
      destruct (writeRawPointer m2 dsid off _) as [m3| |] eqn:EW3; cbn [bind]; try discriminate.
      intros H. apply Ok_inj in H. subst w'. cbn [w_dst w_set_dst].
      apply writeRawPointer_wrote in EW2; [|lia]. apply writeRawPointer_wrote in EW3; [|lia].
      assert (Hpa : 0 <= padAddr <= 4294967288) by (pose proof (zlen_nonneg (mem m tsid)); lia).
      destruct (nearPointerOffset_ok padAddr taddr) as [N1 N2]; try lia.
      destruct (withOffset_roundtrip raw (nearPointerOffset padAddr taddr) Rw N1 Rt) as (Q1 & _). cbv zeta in Q1.
      destruct (far_pointer_roundtrip tsid padAddr ltac:(lia) ltac:(lia)) as (F1 & _). cbv zeta in F1.
      assert (M2d : mem m2 dsid = mem m dsid).
      { rewrite (wrote_mem_other _ _ _ _ _ dsid EW2) by lia. apply A10; lia. }
      assert (N3 : nsegs m3 = nsegs m1).
      { unfold nsegs. rewrite (wrote_nsegs _ _ _ _ _ EW3). apply (wrote_nsegs _ _ _ _ _ EW2). }
      exists [mkReg tsid padAddr 8]. apply PlFar; auto; try lia.
      * apply word_at_mem; [unfold nsegs in *; lia| |lia].
        apply (wrote_word_back m2 m3); auto. rewrite M2d. lia.
      * apply word_at_mem; [unfold nsegs in *; lia| |lia].
        rewrite (wrote_mem_other _ _ _ _ _ tsid EW3) by lia.
        apply (wrote_word_back m1 m2); auto. lia.
    + destruct (alloc m dsid 16) as [[[m1 psid] padAddr]| |] eqn:EA; cbn [bind]; try discriminate.
      destruct (alloc_mem m dsid 16 m1 psid padAddr Hwf Har Hd ltac:(lia) EA)
        as (A1 & A2 & A3 & A4 & A5 & A6 & A7 & A8 & A9 & A10 & A11 & A12 & A13).
      rewrite padToWord_16 in A2. unfold maxSegmentSize in A9.
      destruct (writeRawPointer m1 psid padAddr _) as [m2| |] eqn:EW2; cbn [bind]; try discriminate.
      destruct (writeRawPointer m2 psid (addSizeUnchecked padAddr 8) raw) as [m3| |] eqn:EW3; cbn [bind]; try discriminate.
      unfold lift0.
      destruct (writeRawPointer m3 dsid off _) as [m4| |] eqn:EW4; cbn [bind]; try discriminate.
      intros H. apply Ok_inj in H. subst w'. cbn [w_dst w_set_dst].
      apply writeRawPointer_wrote in EW2; [|lia]. apply writeRawPointer_wrote in EW3; [|lia].
      apply writeRawPointer_wrote in EW4; [|lia].
      assert (Hpz := zlen_nonneg (mem m psid)).
      assert (Hpa : 0 <= padAddr <= 4294967288 - 16) by lia.
      assert (EP8 : addSizeUnchecked padAddr 8 = padAddr + 8) by (unfold addSizeUnchecked, u32; lia).
      rewrite EP8 in *.
      destruct (far_pointer_roundtrip tsid taddr ltac:(lia) ltac:(lia)) as (F1 & _). cbv zeta in F1.
      destruct (double_far_pointer_roundtrip psid padAddr ltac:(lia) ltac:(lia)) as (D1 & _). cbv zeta in D1.
      assert (L1 : zlen (mem m1 psid) = padAddr + 16) by exact A2.
      assert (L2 : zlen (mem m2 psid) = padAddr + 16) by (rewrite (wrote_len _ _ _ _ _ psid EW2) by lia; exact L1).
      assert (L3 : zlen (mem m3 psid) = padAddr + 16) by (rewrite (wrote_len _ _ _ _ _ psid EW3) by lia; exact L2).
      assert (Ld1 : zlen (mem m1 dsid) >= off + 8).
      { destruct (A1 dsid ltac:(lia)) as [t Et]. rewrite Et, zlen_app. pose proof (zlen_nonneg t). lia. }
      assert (Ld3 : zlen (mem m3 dsid) = zlen (mem m1 dsid)).
      { rewrite (wrote_len _ _ _ _ _ dsid EW3) by lia. apply (wrote_len _ _ _ _ _ dsid EW2). lia. }
      assert (Lds : zlen (mem m1 dsid) <= 4294967288).
      { destruct (Z.eq_dec dsid psid) as [->|Hne]; [lia|]. rewrite A10 by lia. lia. }
      assert (Hsep : dsid <> psid \/ off + 8 <= padAddr).
      { destruct (Z.eq_dec dsid psid) as [->|Hne]; [right; lia|left; exact Hne]. }
      assert (N4 : nsegs m4 = nsegs m1).
      { unfold nsegs. rewrite (wrote_nsegs _ _ _ _ _ EW4), (wrote_nsegs _ _ _ _ _ EW3). apply (wrote_nsegs _ _ _ _ _ EW2). }
      exists [mkReg psid padAddr 16]. apply PlDfar; auto; try lia.
      * apply word_at_mem; [unfold nsegs in *; lia| |lia]. apply (wrote_word_back m3 m4); auto. lia.
      * apply word_at_mem; [unfold nsegs in *; lia| |lia].
        rewrite (readRawPointer_other _ _ _ _ _ psid padAddr EW4) by (change (zlen (le_encode 8 (rawDoubleFarPointer psid padAddr))) with 8; lia).
        rewrite (readRawPointer_other _ _ _ _ _ psid padAddr EW3) by (change (zlen (le_encode 8 raw)) with 8; lia).
        apply (wrote_word_back m1 m2); auto. lia.
      * apply word_at_mem; [unfold nsegs in *; lia| |lia].
        rewrite (readRawPointer_other _ _ _ _ _ psid (padAddr + 8) EW4) by (change (zlen (le_encode 8 (rawDoubleFarPointer psid padAddr))) with 8; lia).
        apply (wrote_word_back m2 m3); auto. lia.
Qed.

(* ------------------------------------------------------------------ resolve_ptr of a placed pointer *)
Lemma word_at_range (ms : segs) sid a w : word_at ms sid a = Some w ->
  0 <= sid < zlen ms /\ 0 <= a /\ a + 8 <= seg_len ms sid.
Proof.
  unfold word_at, seg_len. cbv zeta.
  destruct ((0 <=? sid) && (sid <? zlen ms)) eqn:E; [|discriminate].
  destruct ((0 <=? a) && (a + 8 <=? zlen (nth (Z.to_nat sid) ms []))) eqn:E2; [|discriminate]. intros _. lia.
Qed.

Lemma decode_obj_eq (m : segs) sid base w base' w' :
  f_A w = f_A w' -> f_dw w = f_dw w' -> f_pc w = f_pc w' -> f_C w = f_C w' -> f_D w = f_D w' ->
  base + 8 * f_off w = base' + 8 * f_off w' ->
  decode_obj m sid base w = decode_obj m sid base' w'.
Proof. intros E1 E2 E3 E4 E5 E6. unfold decode_obj. cbv zeta. now rewrite E1, E2, E3, E4, E5, E6. Qed.

Definition raw_word (raw : Z) : Prop :=
  0 <= raw < 18446744073709551616 /\ raw mod 4 < 2 /\ f_off raw = 0 /\ (raw / 4294967296 <> 0 \/ raw mod 4 <> 0).

Lemma in_seg_intro (ms : segs) sid start size :
  0 <= sid < zlen ms -> 0 <= start -> 0 <= size -> start + size <= seg_len ms sid -> start mod 8 = 0 ->
  in_seg ms sid start size = true.
Proof. intros. unfold in_seg. repeat (apply andb_true_intro; split); lia. Qed.

Lemma placed_resolve (ms' : segs) dsid off tsid taddr raw oldlen pads :
  placed ms' dsid off tsid taddr raw oldlen pads -> raw_word raw ->
  0 <= off <= 4294967288 -> off mod 8 = 0 -> 0 <= taddr <= 4294967288 -> taddr mod 8 = 0 ->
  0 <= tsid < 4294967296 -> zlen ms' <= 4294967296 ->
  (forall p, In p pads -> 0 <= r_start p /\ r_start p + r_size p <= 4294967288 /\ r_start p mod 8 = 0) ->
  resolve_ptr ms' dsid off = (let '(t, rs) := decode_obj ms' tsid taddr raw in (t, pads ++ rs)).
Proof.
  intros Hp (Rw & Rt & Ro & Rnz) Hoff Hoa Hta Htm Hts Hns Hol.
  assert (Raw0 : f_A raw = raw mod 4) by reflexivity.
  destruct Hp as [E W|padAddr Hne Epa W1 W2|psid padAddr Hne Hps Epa W1 W2 W3].
  - (* near *)
    subst tsid. unfold resolve_ptr. rewrite W.
    destruct (nearPointerOffset_ok off taddr) as [N1 N2]; try lia.
    destruct (fields_withOffset raw (nearPointerOffset off taddr) Rw Rt N1) as (Q0 & Q1 & Q2 & Q3 & Q4 & Q5 & Q6 & Q7).
    cbv zeta in *. set (w := withOffset raw (nearPointerOffset off taddr)) in *.
    destruct (w =? 0) eqn:E0; [exfalso; apply (Q7 Rnz); lia|].
    rewrite Q1. destruct (raw mod 4 =? 3) eqn:E3; [lia|]. destruct (raw mod 4 =? 2) eqn:E2; [lia|].
    rewrite (decode_obj_eq ms' dsid (off + 8) w taddr raw); try congruence; [|rewrite Q2, Ro; lia].
    destruct (decode_obj ms' dsid taddr raw). reflexivity.
  - (* far *)
    destruct (Hol _ (or_introl eq_refl)) as (P0 & P1 & P2). cbn [r_start r_size] in P0, P1, P2.
    unfold resolve_ptr. rewrite W1.
    destruct (fields_far tsid padAddr Hts ltac:(lia) P2) as (F0 & F1 & F2 & F3 & F4 & F5). cbv zeta in *.
    set (fw := rawFarPointer tsid padAddr) in *.
    destruct (fw =? 0) eqn:E0; [lia|]. rewrite F2. change (2 =? 3) with false. change (2 =? 2) with true. cbv iota.
    rewrite F3, F4, F5. change (0 =? 0) with true. cbv iota.
    destruct (word_at_range _ _ _ _ W2) as (G1 & G2 & G3).
    rewrite in_seg_intro by lia. cbn [negb]. rewrite W2.
    destruct (nearPointerOffset_ok padAddr taddr) as [N1 N2]; try lia.
    destruct (fields_withOffset raw (nearPointerOffset padAddr taddr) Rw Rt N1) as (Q0 & Q1 & Q2 & Q3 & Q4 & Q5 & Q6 & Q7).
    cbv zeta in *. set (pw := withOffset raw (nearPointerOffset padAddr taddr)) in *.
    destruct (pw =? 0) eqn:EP; [exfalso; apply (Q7 Rnz); lia|]. rewrite Q1.
    destruct (2 <=? raw mod 4) eqn:E2; [lia|]. cbn [orb].
    rewrite (decode_obj_eq ms' tsid (padAddr + 8) pw taddr raw); try congruence; [|rewrite Q2, Ro; lia].
    destruct (decode_obj ms' tsid taddr raw). reflexivity.
  - (* double far *)
    destruct (Hol _ (or_introl eq_refl)) as (P0 & P1 & P2). cbn [r_start r_size] in P0, P1, P2.
    destruct (word_at_range _ _ _ _ W2) as (G1 & G2 & G3).
    destruct (word_at_range _ _ _ _ W3) as (G4 & G5 & G6).
    assert (Hpsid : 0 <= psid < 4294967296) by lia.
    unfold resolve_ptr. rewrite W1.
    destruct (fields_dfar psid padAddr Hpsid ltac:(lia) P2) as (D0 & D1 & D2 & D3 & D4 & D5). cbv zeta in *.
    set (dw := rawDoubleFarPointer psid padAddr) in *.
    destruct (dw =? 0) eqn:E0; [lia|]. rewrite D2. change (2 =? 3) with false. change (2 =? 2) with true. cbv iota.
    rewrite D3, D4, D5. change (1 =? 0) with false. cbv iota.
    rewrite in_seg_intro by lia. cbn [negb]. rewrite W2, W3.
    destruct (fields_far tsid taddr Hts ltac:(lia) Htm) as (F0 & F1 & F2 & F3 & F4 & F5). cbv zeta in *.
    set (fw := rawFarPointer tsid taddr) in *.
    rewrite F2, F3. change ((2 =? 2) && (0 =? 0)) with true. cbn [negb].
    rewrite Raw0, Ro. destruct (2 <=? raw mod 4) eqn:E2; [lia|]. change (0 =? 0) with true. cbn [negb orb].
    rewrite F4, F5. destruct (decode_obj ms' tsid taddr raw). reflexivity.
Qed.

(* ------------------------------------------------------------------ stability of a resolved pointer *)
Definition simple_target (t : target) : Prop := match t with GBad _ => False | _ => True end.
(* targets whose decoding reads nothing but the pointer word itself *)
Definition no_tag (t : target) : Prop := match t with GBad _ | GComp _ _ _ _ _ => False | _ => True end.
(* the tag word a composite-list target depends on *)
Definition tag_pos (t : target) : option (Z * Z) :=
  match t with GComp sid addr _ _ _ => Some (sid, addr - 8) | _ => None end.

Lemma no_tag_simple t : no_tag t -> simple_target t.
Proof. destruct t; cbn; auto. Qed.

Definition grows (ms ms' : segs) : Prop :=
  zlen ms <= zlen ms' /\ forall i, 0 <= i < zlen ms -> seg_len ms i <= seg_len ms' i.

Lemma in_seg_mono (ms ms' : segs) sid st sz : grows ms ms' -> in_seg ms sid st sz = true -> in_seg ms' sid st sz = true.
Proof.
  intros [G1 G2] H. unfold in_seg in *.
  repeat (apply andb_prop in H; destruct H as [H ?]).
  specialize (G2 sid ltac:(lia)). repeat (apply andb_true_intro; split); lia.
Qed.

Ltac bad_target H S := apply (f_equal fst) in H; cbn [fst] in H; subst; cbn in S; contradiction.

Lemma decode_obj_stable (ms ms' : segs) sid base w t rs :
  grows ms ms' -> decode_obj ms sid base w = (t, rs) -> simple_target t ->
  (forall p, tag_pos t = Some p -> word_at ms' (fst p) (snd p) = word_at ms (fst p) (snd p)) ->
  decode_obj ms' sid base w = (t, rs).
Proof.
  intros G H S Wt. unfold decode_obj in *. cbv zeta in *.
  destruct (f_A w =? 0).
  - destruct (in_seg ms sid _ _) eqn:E; [|bad_target H S].
    rewrite (in_seg_mono _ _ _ _ _ G E). exact H.
  - destruct (f_C w <? 7).
    + destruct (in_seg ms sid _ _) eqn:E; [|bad_target H S].
      rewrite (in_seg_mono _ _ _ _ _ G E). exact H.
    + destruct (in_seg ms sid (base + 8 * f_off w) (8 + 8 * f_D w)) eqn:E; cbn [negb] in *; [|bad_target H S].
      rewrite (in_seg_mono _ _ _ _ _ G E). cbn [negb].
      destruct (word_at ms sid (base + 8 * f_off w)) as [tag|] eqn:EW; [|bad_target H S].
      destruct (negb (f_A tag =? 0)) eqn:E2; [bad_target H S|].
      destruct (negb (_ =? f_D w)) eqn:E3; [bad_target H S|].
      assert (Et : t = GComp sid (base + 8 * f_off w + 8) ((tag / 4) mod two30) (f_dw tag) (f_pc tag)).
      { apply (f_equal fst) in H. cbn [fst] in H. auto. }
      specialize (Wt (sid, base + 8 * f_off w + 8 - 8)). rewrite Et in Wt. specialize (Wt eq_refl). cbn [fst snd] in Wt.
      replace (base + 8 * f_off w + 8 - 8) with (base + 8 * f_off w) in Wt by lia.
      rewrite Wt, EW, E2, E3. exact H.
Qed.

Lemma decode_obj_one (ms : segs) sid base w t rs :
  decode_obj ms sid base w = (t, rs) -> simple_target t -> exists r, rs = [r].
Proof.
  intros H S. unfold decode_obj in H. cbv zeta in H.
  destruct (f_A w =? 0).
  - destruct (in_seg ms sid _ _); [|bad_target H S]. apply (f_equal snd) in H. cbn [snd] in H. subst rs. eexists; reflexivity.
  - destruct (f_C w <? 7).
    + destruct (in_seg ms sid _ _); [|bad_target H S]. apply (f_equal snd) in H. cbn [snd] in H. subst rs. eexists; reflexivity.
    + destruct (negb (in_seg ms sid _ _)); [bad_target H S|].
      destruct (word_at ms sid (base + 8 * f_off w)) as [tag|]; [|bad_target H S].
      destruct (negb (f_A tag =? 0)); [bad_target H S|].
      destruct (negb _); [bad_target H S|].
      apply (f_equal snd) in H. cbn [snd] in H. subst rs. eexists; reflexivity.
Qed.

(* the words of a region *)
Definition word_in (r : region) (i b : Z) : Prop :=
  i = r_seg r /\ r_start r <= b /\ b + 8 <= r_start r + r_size r.

Lemma resolve_stable (ms ms' : segs) s a t rs :
  grows ms ms' -> resolve_ptr ms s a = (t, rs) -> simple_target t ->
  word_at ms' s a = word_at ms s a ->
  (forall r i b, In r (removelast rs) -> word_in r i b -> word_at ms' i b = word_at ms i b) ->
  (forall p, tag_pos t = Some p -> word_at ms' (fst p) (snd p) = word_at ms (fst p) (snd p)) ->
  resolve_ptr ms' s a = (t, rs).
Proof.
  intros G H S W0 Wp Wt. unfold resolve_ptr in *. rewrite W0.
  destruct (word_at ms s a) as [w|]; [|bad_target H S].
  destruct (w =? 0); [exact H|].
  destruct (f_A w =? 3); [exact H|].
  destruct (f_A w =? 2).
  - cbv zeta in *. destruct (f_B w =? 0).
    + destruct (negb (in_seg ms (f_seg w) (8 * f_padoff w) 8)) eqn:E; [bad_target H S|].
      assert (E' : in_seg ms (f_seg w) (8 * f_padoff w) 8 = true) by (destruct (in_seg ms _ _ _); auto; discriminate).
      rewrite (in_seg_mono _ _ _ _ _ G E'). cbn [negb].
      destruct (word_at ms (f_seg w) (8 * f_padoff w)) as [pw|] eqn:EW; [|bad_target H S].
      destruct ((pw =? 0) || (2 <=? f_A pw)) eqn:EB; [bad_target H S|].
      destruct (decode_obj ms (f_seg w) (8 * f_padoff w + 8) pw) as [t0 rs0] eqn:ED.
      assert (Et : t0 = t) by (apply (f_equal fst) in H; exact H).
      assert (Er : mkReg (f_seg w) (8 * f_padoff w) 8 :: rs0 = rs) by (apply (f_equal snd) in H; exact H).
      subst t rs.
      rewrite (Wp (mkReg (f_seg w) (8 * f_padoff w) 8) (f_seg w) (8 * f_padoff w)).
      * rewrite EW, EB. rewrite (decode_obj_stable _ _ _ _ _ _ _ G ED S Wt). reflexivity.
      * (* the pad is not the last region: the object follows *)
        destruct (decode_obj_one _ _ _ _ _ _ ED S) as [r0 ->]. cbn [removelast]. left. reflexivity.
      * unfold word_in. cbn. lia.
    + destruct (negb (in_seg ms (f_seg w) (8 * f_padoff w) 16)) eqn:E; [bad_target H S|].
      assert (E' : in_seg ms (f_seg w) (8 * f_padoff w) 16 = true) by (destruct (in_seg ms _ _ _); auto; discriminate).
      rewrite (in_seg_mono _ _ _ _ _ G E'). cbn [negb].
      destruct (word_at ms (f_seg w) (8 * f_padoff w)) as [fw|] eqn:EW1; [|bad_target H S].
      destruct (word_at ms (f_seg w) (8 * f_padoff w + 8)) as [tag|] eqn:EW2; [|bad_target H S].
      destruct (negb ((f_A fw =? 2) && (f_B fw =? 0))) eqn:EB1; [bad_target H S|].
      destruct ((2 <=? f_A tag) || negb (f_off tag =? 0)) eqn:EB2; [bad_target H S|].
      destruct (decode_obj ms (f_seg fw) (8 * f_padoff fw) tag) as [t0 rs0] eqn:ED.
      assert (Et : t0 = t) by (apply (f_equal fst) in H; exact H).
      assert (Er : mkReg (f_seg w) (8 * f_padoff w) 16 :: rs0 = rs) by (apply (f_equal snd) in H; exact H).
      subst t rs.
      assert (NL : In (mkReg (f_seg w) (8 * f_padoff w) 16) (removelast (mkReg (f_seg w) (8 * f_padoff w) 16 :: rs0))).
      { destruct (decode_obj_one _ _ _ _ _ _ ED S) as [r0 ->]. left. reflexivity. }
      rewrite (Wp _ (f_seg w) (8 * f_padoff w) NL) by (unfold word_in; cbn; lia).
      rewrite (Wp _ (f_seg w) (8 * f_padoff w + 8) NL) by (unfold word_in; cbn; lia).
      rewrite EW1, EW2, EB1, EB2. rewrite (decode_obj_stable _ _ _ _ _ _ _ G ED S Wt). reflexivity.
  - destruct (decode_obj ms s (a + 8) w) as [t0 rs0] eqn:ED.
    assert (Et : t0 = t) by (apply (f_equal fst) in H; exact H).
    assert (Er : rs0 = rs) by (apply (f_equal snd) in H; exact H). subst.
    rewrite (decode_obj_stable _ _ _ _ _ _ _ G ED S Wt). reflexivity.
Qed.

(* ------------------------------------------------------------------ objects *)
(* the handles constructors return are the objects of the table; a composite list's region
   starts with its tag word, one word before the handle's offset *)
Definition obj_bytes (h : Ptr) : Z :=
  match p_kind h with KStruct => totalSize (p_size h) | KList => list_allocSize h | KIface => 0 end.
Definition obj_start (h : Ptr) : Z := if p_comp h then p_off h - 8 else p_off h.
Definition obj_reg (h : Ptr) : region := mkReg (p_seg h) (obj_start h) (padToWord (obj_bytes h)).

Definition et_of (h : Ptr) : Z :=
  if p_bit h then 1 else if PointerCount (p_size h) =? 1 then 6
  else let d := DataSize (p_size h) in
       if d =? 0 then 0 else if d =? 1 then 2 else if d =? 2 then 3 else if d =? 4 then 4 else 5.

Definition tgt_of (h : Ptr) : target :=
  match p_kind h with
  | KStruct => GStruct (p_seg h) (p_off h) (DataSize (p_size h) / 8) (PointerCount (p_size h))
  | KList => if p_comp h then GComp (p_seg h) (p_off h) (p_len h) (DataSize (p_size h) / 8) (PointerCount (p_size h))
             else GList (p_seg h) (p_off h) (et_of h) (p_len h)
  | KIface => GNull
  end.

(* the shapes constructors produce *)
Definition wc_of (h : Ptr) : Z := DataSize (p_size h) / 8 + PointerCount (p_size h).
Definition shape_ok (h : Ptr) : Prop :=
  match p_kind h with
  | KStruct => os_wf (p_size h) /\ p_comp h = false /\ p_len h = 0 /\ p_bit h = false
  | KList => 0 <= p_len h < 536870912 /\
             (p_comp h = false /\
              (p_bit h = true /\ p_size h = mkOS 0 0 \/
               p_bit h = false /\ (p_size h = mkOS 0 1 \/ exists d, p_size h = mkOS d 0 /\ (d = 0 \/ d = 1 \/ d = 2 \/ d = 4 \/ d = 8))) \/
              p_comp h = true /\ p_bit h = false /\ os_wf (p_size h) /\ p_len h * wc_of h < 536870911)
  | KIface => False
  end.

Definition good (ms : segs) (h : Ptr) : Prop :=
  shape_ok h /\ 0 <= p_seg h < 4294967296 /\
  in_seg ms (p_seg h) (obj_start h) (r_size (obj_reg h)) = true /\ p_off h <= 4294967288.

(* the tag word of a composite list *)
Definition tag_ok (ms : segs) (h : Ptr) : Prop :=
  p_kind h = KList -> p_comp h = true ->
  exists tag, rawStructPointer (p_len h) (p_size h) = Some tag /\ word_at ms (p_seg h) (p_off h - 8) = Some tag.

(* the pointer word writePtr places for an object *)
Definition raw_of (h : Ptr) : res Z :=
  match p_kind h with
  | KStruct => of_opt_panic (rawStructPointer 0 (p_size h))
  | KList => list_raw h
  | KIface => Err
  end.

Lemma fields_tag n sz : os_wf sz -> 0 <= n < 536870912 ->
  exists tag, rawStructPointer n sz = Some tag /\ 0 <= tag < 18446744073709551616 /\ f_A tag = 0 /\
    (tag / 4) mod two30 = n /\ f_dw tag = DataSize sz / 8 /\ f_pc tag = PointerCount sz.
Proof.
  intros Hw Hn. rewrite rawStructPointer_sum by assumption. destruct Hw as (Hd & Hm & Hp).
  eexists. split; [reflexivity|]. unf. repeat split; lia.
Qed.

Lemma list_bytes_eq n bits : 0 <= n < 536870912 -> (bits = 0 \/ bits = 1 \/ bits = 8 \/ bits = 16 \/ bits = 32 \/ bits = 64) ->
  (n * bits + 63) / 64 * 8 = ((n * bits + 7) / 8 + 7) / 8 * 8.
Proof. intros Hn [->|[->|[->|[->|[->| ->]]]]]; lia. Qed.

Lemma times_small sz n : 0 <= sz <= 8 -> 0 <= n < 536870912 -> times sz n = Some (sz * n).
Proof.
  intros Hs Hn. unfold times. cbv zeta.
  destruct ((sz * n >? maxSegmentSize) || (sz * n <? 0)) eqn:E; [unfold maxSegmentSize in E; nia|reflexivity].
Qed.

Lemma list_alloc_plain h d pc :
  p_valid h = true -> p_comp h = false -> p_bit h = false -> p_size h = mkOS d pc ->
  0 <= d <= 8 -> (pc = 0 \/ pc = 1 /\ d = 0) -> 0 <= p_len h < 536870912 ->
  list_allocSize h = (d + 8 * pc) * p_len h.
Proof.
  intros Hv Hc Hb Hs Hd Hp Hn. unfold list_allocSize. rewrite Hv, Hb, Hc, Hs. cbn [negb].
  assert (T : totalSize (mkOS d pc) = d + 8 * pc).
  { unfold totalSize, pointerSize, u32. cbn [DataSize PointerCount]. lia. }
  rewrite T. rewrite times_small by lia. reflexivity.
Qed.

Lemma totalSize_wf sz : os_wf sz -> totalSize sz = 8 * (DataSize sz / 8 + PointerCount sz).
Proof. intros (Hd & Hm & Hp). unfold totalSize, pointerSize, u32. lia. Qed.

Lemma list_alloc_comp h :
  p_valid h = true -> p_comp h = true -> p_bit h = false -> os_wf (p_size h) ->
  0 <= p_len h -> p_len h * wc_of h < 536870911 ->
  list_allocSize h = 8 + 8 * (p_len h * wc_of h).
Proof.
  intros Hv Hc Hb Hw Hn Ht. unfold list_allocSize. rewrite Hv, Hb, Hc. cbn [negb].
  rewrite (totalSize_wf _ Hw). fold (wc_of h).
  assert (W0 : 0 <= wc_of h) by (unfold wc_of; destruct Hw as (Hd & Hm & Hp); lia).
  unfold times. cbv zeta.
  assert (E : 8 * wc_of h * p_len h = 8 * (p_len h * wc_of h)) by ring. rewrite E.
  set (k := p_len h * wc_of h) in *. assert (K0 : 0 <= k) by (unfold k; nia). clearbody k.
  destruct ((8 * k >? maxSegmentSize) || (8 * k <? 0)) eqn:EB; [unfold maxSegmentSize in EB; lia|].
  unfold u32. lia.
Qed.

Lemma obj_decode (ms : segs) h :
  p_valid h = true -> good ms h -> tag_ok ms h -> (p_kind h = KStruct -> os_isZero (p_size h) = false) ->
  exists raw, raw_of h = Ok raw /\ raw_word raw /\
    decode_obj ms (p_seg h) (obj_start h) raw = (tgt_of h, [obj_reg h]).
Proof.
  intros Hv (Hs & Hseg & Hin & Hoff) Htag Hnz. unfold raw_of, tgt_of, obj_reg, obj_bytes, shape_ok in *.
  destruct (p_kind h) eqn:EK.
  - (* struct *)
    specialize (Hnz eq_refl). destruct Hs as (Hs & Hcomp & _). unfold obj_start in *. rewrite Hcomp in *.
    destruct (fields_struct (p_size h) Hs) as (raw & E & R0 & R1 & R2 & R3 & R4 & R5).
    exists raw. rewrite E. cbn [of_opt_panic]. split; [reflexivity|].
    destruct Hs as (Hd & Hm & Hp).
    assert (TS : totalSize (p_size h) = DataSize (p_size h) + 8 * PointerCount (p_size h)).
    { unfold totalSize, pointerSize, u32. lia. }
    assert (PW : padToWord (totalSize (p_size h)) = 8 * (DataSize (p_size h) / 8 + PointerCount (p_size h))).
    { rewrite TS. unfold padToWord, u32. lia. }
    split.
    + unfold raw_word. split; [exact R0|]. split; [lia|]. split; [exact R4|].
      left. rewrite R5. unfold os_isZero in Hnz. lia.
    + unfold decode_obj. cbv zeta. unfold f_A. rewrite R1. change (0 =? 0) with true. cbv iota.
      rewrite R4, R2, R3. replace (p_off h + 8 * 0) with (p_off h) by lia.
      cbn [r_size] in Hin. rewrite PW in Hin. rewrite Hin. rewrite PW. reflexivity.
  - (* list *)
    destruct Hs as (Hn & [(Hc & Hk)|(Hc & Hb & Hw & Ht)]).
    + unfold obj_start in *. rewrite Hc in *.
    assert (LR : exists et bits, list_raw h = Ok (rawListPointer 0 et (p_len h)) /\ et = et_of h /\ 0 <= et < 7 /\
                   et_bits et = bits /\
                   padToWord (list_allocSize h) = (p_len h * bits + 63) / 64 * 8).
    { destruct Hk as [[Hb Hsz]|[Hb Hsz]].
      - exists 1, 1. unfold list_raw, list_allocSize, et_of. rewrite Hv, Hc, Hb. cbn [negb].
        repeat split; try lia. unfold bitListSize, padToWord, u32. lia.
      - assert (HA : forall d pc, p_size h = mkOS d pc -> 0 <= d <= 8 -> (pc = 0 \/ pc = 1 /\ d = 0) ->
                  padToWord (list_allocSize h) = (p_len h * (8 * (d + 8 * pc)) + 63) / 64 * 8).
        { intros d pc E1 E2 E3. rewrite (list_alloc_plain h d pc) by auto.
          assert (K : 0 <= (d + 8 * pc) * p_len h <= 4294967288) by nia.
          replace (p_len h * (8 * (d + 8 * pc))) with (8 * ((d + 8 * pc) * p_len h)) by ring.
          set (k := (d + 8 * pc) * p_len h) in *. clearbody k. unfold padToWord, u32. lia. }
        destruct Hsz as [Hsz|(d & Hsz & Hd)].
        + exists 6, 64. unfold list_raw, et_of. rewrite Hv, Hc, Hb, Hsz. cbn [negb PointerCount DataSize].
          change ((1 =? 1) && (0 =? 0)) with true. change (1 =? 1) with true. cbv iota.
          repeat split; try lia. rewrite (HA 0 1) by (auto; lia). cbn. lia.
        + unfold list_raw, et_of. rewrite Hv, Hc, Hb, Hsz. cbn [negb PointerCount DataSize].
          change (0 =? 1) with false. rewrite Bool.andb_false_l. change (0 =? 0) with true. cbn [negb]. cbv iota zeta.
          destruct Hd as [->|[->|[->|[->| ->]]]].
          * exists 0, 0. change (0 =? 0) with true. cbv iota. repeat split; try lia.
            rewrite (HA 0 0) by (auto; lia). cbn. lia.
          * exists 2, 8. change (1 =? 0) with false. change (1 =? 1) with true. cbv iota. repeat split; try lia.
            rewrite (HA 1 0) by (auto; lia). cbn. lia.
          * exists 3, 16. change (2 =? 0) with false. change (2 =? 1) with false. change (2 =? 2) with true. cbv iota. repeat split; try lia.
            rewrite (HA 2 0) by (auto; lia). cbn. lia.
          * exists 4, 32. change (4 =? 0) with false. change (4 =? 1) with false. change (4 =? 2) with false. change (4 =? 4) with true. cbv iota. repeat split; try lia.
            rewrite (HA 4 0) by (auto; lia). cbn. lia.
          * exists 5, 64. change (8 =? 0) with false. change (8 =? 1) with false. change (8 =? 2) with false. change (8 =? 4) with false. change (8 =? 8) with true. cbv iota. repeat split; try lia.
            rewrite (HA 8 0) by (auto; lia). cbn. lia. }
    destruct LR as (et & bits & L1 & L2 & L3 & L4 & L5).
    exists (rawListPointer 0 et (p_len h)). split; [exact L1|].
    destruct (fields_list et (p_len h) ltac:(lia) Hn) as (F0 & F1 & F2 & F3 & F4). cbv zeta in *.
    set (raw := rawListPointer 0 et (p_len h)) in *. split.
    * unfold raw_word. split; [exact F0|]. split; [lia|]. split; [exact F4|]. right. lia.
    * unfold decode_obj. cbv zeta. unfold f_A. rewrite F1. change (1 =? 0) with false. cbv iota.
      rewrite F2, F3, F4. destruct (et <? 7) eqn:E7; [|lia]. rewrite L4.
      replace (p_off h + 8 * 0) with (p_off h) by lia.
      cbn [r_size] in Hin. rewrite L5 in Hin. rewrite Hin. rewrite L5, L2. reflexivity.
    + (* composite list *)
      unfold obj_start in *. rewrite Hc in *.
      destruct (Htag EK Hc) as (tag & Etag & Wtag).
      assert (W0 : 0 <= wc_of h) by (unfold wc_of; destruct Hw as (Hd & Hm & Hp); lia).
      assert (K0 : 0 <= p_len h * wc_of h) by nia.
      assert (TW : totalWordCount (p_size h) = Some (wc_of h)).
      { unfold totalWordCount, dataWordCount, wc_of. destruct Hw as (Hd & Hm & Hp). rewrite Hm. cbn [Z.eqb].
        f_equal. apply s32_id. lia. }
      assert (S32 : s32 (p_len h * wc_of h) = p_len h * wc_of h) by (apply s32_id; lia).
      exists (rawListPointer 0 7 (p_len h * wc_of h)). split.
      { unfold list_raw. rewrite Hv, Hc, TW. cbn [negb]. now rewrite S32. }
      destruct (fields_list 7 (p_len h * wc_of h) ltac:(lia) ltac:(lia)) as (F0 & F1 & F2 & F3 & F4). cbv zeta in *.
      set (raw := rawListPointer 0 7 (p_len h * wc_of h)) in *. split.
      * unfold raw_word. split; [exact F0|]. split; [lia|]. split; [exact F4|]. right. lia.
      * rewrite (list_alloc_comp h) in * by (auto; lia).
        assert (PW : padToWord (8 + 8 * (p_len h * wc_of h)) = 8 + 8 * (p_len h * wc_of h)) by (unfold padToWord, u32; lia).
        rewrite PW in *. cbn [r_size] in Hin.
        destruct (fields_tag (p_len h) (p_size h) Hw Hn) as (tag' & Etag' & T0 & T1 & T2 & T3 & T4).
        rewrite Etag in Etag'. assert (tag' = tag) by congruence. subst tag'.
        unfold decode_obj. cbv zeta. unfold f_A at 1. rewrite F1. change (1 =? 0) with false. cbv iota.
        rewrite F2, F3, F4. change (7 <? 7) with false. cbv iota.
        replace (p_off h - 8 + 8 * 0) with (p_off h - 8) by lia.
        rewrite Hin. cbn [negb]. rewrite Wtag. rewrite T1. change (0 =? 0) with true. cbn [negb].
        rewrite T2, T3, T4. fold (wc_of h). rewrite Z.eqb_refl. cbn [negb].
        replace (p_off h - 8 + 8) with (p_off h) by lia. reflexivity.
  - destruct Hs.
Qed.

(* ------------------------------------------------------------------ from byte frames to words *)
Lemma seg_len_bm m i : seg_len (bm_data m) i = zlen (mem m i).
Proof. unfold seg_len. now rewrite nth_bm_data. Qed.

Lemma zlen_bm m : zlen (bm_data m) = nsegs m.
Proof. unfold bm_data, nsegs. apply zlen_map. Qed.

Lemma word_at_sub m i b : 0 <= i < nsegs m -> 0 <= b -> b + 8 <= zlen (mem m i) ->
  word_at (bm_data m) i b = Some (le_decode (sub (mem m i) b 8)).
Proof.
  intros Hi Hb Hl. unfold word_at. cbv zeta. rewrite zlen_bm, nth_bm_data.
  assert (C1 : (0 <=? i) && (i <? nsegs m) = true) by (apply andb_true_intro; split; lia).
  assert (C2 : (0 <=? b) && (b + 8 <=? zlen (mem m i)) = true) by (apply andb_true_intro; split; lia).
  rewrite C1, C2. reflexivity.
Qed.

Lemma keeps_word m m' (R : Z -> Z -> Prop) i b :
  keeps m m' R -> 0 <= i < nsegs m -> nsegs m <= nsegs m' -> 0 <= b -> b + 8 <= zlen (mem m i) ->
  (forall k, b <= k < b + 8 -> ~ R i k) ->
  word_at (bm_data m') i b = word_at (bm_data m) i b.
Proof.
  intros K Hi Hn Hb Hl HR. pose proof (proj1 K i ltac:(lia)) as L.
  rewrite !word_at_sub by lia. f_equal. f_equal. eapply keeps_sub; eauto; lia.
Qed.

Lemma keeps_grows m m' R : keeps m m' R -> nsegs m <= nsegs m' -> grows (bm_data m) (bm_data m').
Proof.
  intros K Hn. split; [rewrite !zlen_bm; exact Hn|]. intros i Hi. rewrite !seg_len_bm. apply (proj1 K). lia.
Qed.

(* ------------------------------------------------------------------ the invariant *)
Definition root_reg : region := mkReg 0 0 8.
Definition slots (h : Ptr) : list (Z * Z) := children (tgt_of h).
Definition in_msg (ms : segs) (r : region) : Prop := in_seg ms (r_seg r) (r_start r) (r_size r) = true.

(* what a pointer slot holds: the null word, the inline empty struct (offset -1), the words the
   placement switch stores for a table object (with pads of the pad table), or a capability
   pointer *)
Definition empty_struct_word : Z := 4294967292.   (* rawStructPointer (-1) (mkOS 0 0) *)
Lemma empty_struct_word_eq : rawStructPointer (-1) (mkOS 0 0) = Some empty_struct_word.
Proof. reflexivity. Qed.

Definition slot_ok (ms : segs) (pads : list region) (objs : list Ptr) (q : Z * Z) : Prop :=
  word_at ms (fst q) (snd q) = Some 0 \/
  word_at ms (fst q) (snd q) = Some empty_struct_word \/
  (exists h ps raw oldlen, In h objs /\ incl ps pads /\ raw_of h = Ok raw /\
    (p_kind h = KStruct -> os_isZero (p_size h) = false) /\
    placed ms (fst q) (snd q) (p_seg h) (obj_start h) raw oldlen ps) \/
  (exists idx, 0 <= idx < 4294967296 /\ word_at ms (fst q) (snd q) = Some (rawInterfacePointer idx)).

(* ... and how the strict validator resolves it *)
Definition slot_res (ms : segs) (pads : list region) (objs : list Ptr) (q : Z * Z) : Prop :=
  exists t rs, resolve_ptr ms (fst q) (snd q) = (t, rs) /\ simple_target t /\
    (rs = [] /\ no_tag t \/ exists ps r, rs = ps ++ [r] /\ incl ps pads /\
        (r_size r = 0 /\ no_tag t \/ exists h, In h objs /\ r = obj_reg h /\ t = tgt_of h)).

(* a set of written bytes that spares the tag word of a composite list *)
Definition tag_free (R : Z -> Z -> Prop) (h : Ptr) : Prop :=
  p_kind h = KList -> p_comp h = true -> forall k, p_off h - 8 <= k < p_off h -> ~ R (p_seg h) k.

Definition regsO (objs : list Ptr) : list region := root_reg :: map obj_reg objs.
Definition all_regs (objs : list Ptr) (pads : list region) : list region := regsO objs ++ pads.
Definition ord_disjoint (l : list region) : Prop :=
  forall i j, (i < j)%nat -> (j < length l)%nat -> reg_disjoint (nth i l root_reg) (nth j l root_reg) = true.

Record hinv (m : bmsg) (objs : list Ptr) (pads : list region) : Prop := mkHinv {
  hi_inv : inv m;
  hi_small : segs_small m;
  hi_nsegs : nsegs m < 4294967296;
  hi_good : forall h, In h objs -> p_valid h = true /\ good (bm_data m) h;
  hi_tags : forall h, In h objs -> tag_ok (bm_data m) h;
  hi_in : forall r, In r (all_regs objs pads) -> in_msg (bm_data m) r;
  hi_pads : forall r, In r pads -> 0 < r_size r;
  hi_disjO : ord_disjoint (regsO objs);
  hi_disjP : ord_disjoint pads;
  hi_cross : forall a p, In a (regsO objs) -> In p pads -> reg_disjoint a p = true;
  hi_slots : forall q, In q ((0, 0) :: flat_map slots objs) -> slot_ok (bm_data m) pads objs q
}.

Lemma ord_disjoint_snoc l x : ord_disjoint l -> (forall a, In a l -> reg_disjoint a x = true) -> ord_disjoint (l ++ [x]).
Proof.
  intros H Hx i j Hij Hj. rewrite app_length in Hj. cbn [length] in Hj.
  destruct (Nat.lt_ge_cases j (length l)) as [L|G].
  - rewrite !app_nth1 by lia. apply H; auto.
  - assert (j = length l) by lia. subst j. rewrite (app_nth1 l [x]) by lia. rewrite app_nth2 by lia.
    rewrite Nat.sub_diag. cbn [nth]. apply Hx. apply nth_In. lia.
Qed.

(* the pointer slots of a composite list *)
Lemma comp_slot h q : p_kind h = KList -> p_comp h = true -> In q (slots h) ->
  exists e k, 0 <= e < p_len h /\ 0 <= k < PointerCount (p_size h) /\ fst q = p_seg h /\
    snd q = p_off h + 8 * (e * wc_of h + DataSize (p_size h) / 8) + 8 * k.
Proof.
  intros Ek Hc Hq. unfold slots, tgt_of in Hq. rewrite Ek, Hc in Hq. cbn [children] in Hq.
  apply in_flat_map in Hq. destruct Hq as (e & He & Hq).
  unfold zseq in He. apply in_map_iff in He. destruct He as (e0 & <- & He0). apply in_seq in He0.
  apply in_map_iff in Hq. destruct Hq as (a & <- & Ha).
  unfold zseq in Ha. apply in_map_iff in Ha. destruct Ha as (k & <- & Hk). apply in_seq in Hk.
  exists (Z.of_nat e0), (Z.of_nat k). cbn [fst snd]. unfold wc_of. repeat split; try lia.
Qed.

(* a slot's own word lies inside its object (or is the root word) *)
Lemma slot_in_obj (ms : segs) h q : p_valid h = true -> good ms h -> In q (slots h) ->
  fst q = p_seg h /\ p_off h <= snd q /\ snd q + 8 <= obj_start h + r_size (obj_reg h) /\ snd q mod 8 = p_off h mod 8.
Proof.
  intros Hv (Hs & Hseg & Hin & Hoff) Hq.
  destruct (p_kind h) eqn:EK.
  - unfold slots, tgt_of, obj_reg, obj_bytes, shape_ok, obj_start in *. rewrite EK in *. cbn [children] in Hq.
    destruct Hs as ((Hd & Hm & Hp) & Hc & _). rewrite Hc. apply in_map_iff in Hq. destruct Hq as (a & <- & Ha).
    unfold zseq in Ha. apply in_map_iff in Ha. destruct Ha as (k & <- & Hk). apply in_seq in Hk. cbn [fst snd r_size].
    assert (TS : totalSize (p_size h) = DataSize (p_size h) + 8 * PointerCount (p_size h)) by (unfold totalSize, pointerSize, u32; lia).
    rewrite TS. unfold padToWord, u32. lia.
  - unfold shape_ok in Hs. rewrite EK in Hs. destruct Hs as (Hn & [(Hc & Hk)|(Hc & Hb & Hw & Ht)]).
    + unfold slots, tgt_of, obj_reg, obj_bytes, obj_start in *. rewrite EK in *. rewrite Hc in *. cbn [children] in Hq.
      destruct (et_of h =? 6) eqn:E6; [|destruct Hq].
      apply in_map_iff in Hq. destruct Hq as (a & <- & Ha).
      unfold zseq in Ha. apply in_map_iff in Ha. destruct Ha as (k & <- & Hk'). apply in_seq in Hk'. cbn [fst snd r_size].
      (* et = 6 only for pointer lists *)
      assert (PL : p_bit h = false /\ p_size h = mkOS 0 1).
      { unfold et_of in E6. destruct Hk as [[Hb Hsz]|[Hb [Hsz|(d & Hsz & Hd)]]].
        - rewrite Hb in E6. discriminate.
        - auto.
        - rewrite Hb, Hsz in E6. cbn [PointerCount DataSize] in E6. change (0 =? 1) with false in E6. cbv iota zeta in E6.
          destruct Hd as [->|[->|[->|[->| ->]]]]; discriminate. }
      destruct PL as [Pb Ps].
      rewrite (list_alloc_plain h 0 1) by (auto; lia). unfold padToWord, u32. lia.
    + destruct (comp_slot h q EK Hc Hq) as (e & k & He & Hk & Q1 & Q2).
      unfold obj_reg, obj_bytes, obj_start. rewrite EK, Hc. cbn [r_size].
      rewrite (list_alloc_comp h) by (auto; lia).
      assert (W0 : 0 <= wc_of h) by (unfold wc_of; destruct Hw as (Hd & Hm & Hp); lia).
      assert (K1 : e * wc_of h + wc_of h <= p_len h * wc_of h) by nia.
      assert (K2 : 0 <= e * wc_of h) by nia.
      assert (PW : padToWord (8 + 8 * (p_len h * wc_of h)) = 8 + 8 * (p_len h * wc_of h)) by (unfold padToWord, u32; lia).
      rewrite PW. destruct Hw as (Hd & Hm & Hp). unfold wc_of in *.
      set (a := e * (DataSize (p_size h) / 8 + PointerCount (p_size h))) in *.
      set (b := p_len h * (DataSize (p_size h) / 8 + PointerCount (p_size h))) in *. clearbody a b.
      split; [exact Q1|]. rewrite Q2. lia.
  - unfold slots, tgt_of in Hq. rewrite EK in Hq. destruct Hq.
Qed.

Lemma in_seg_elim (ms : segs) sid st sz : in_seg ms sid st sz = true ->
  0 <= sid < zlen ms /\ 0 <= st /\ 0 <= sz /\ st + sz <= seg_len ms sid /\ st mod 8 = 0.
Proof. unfold in_seg. intros H. repeat (apply andb_prop in H; destruct H as [H ?]). lia. Qed.

Lemma removelast_snoc {A} (l : list A) x : removelast (l ++ [x]) = l.
Proof. apply removelast_last. Qed.

Lemma tag_ok_frame m m' (R : Z -> Z -> Prop) h :
  keeps m m' R -> nsegs m <= nsegs m' -> tag_ok (bm_data m) h -> tag_free R h -> tag_ok (bm_data m') h.
Proof.
  intros K Hn T F Ek Hc. destruct (T Ek Hc) as (tag & E1 & E2). exists tag. split; [exact E1|].
  destruct (word_at_range _ _ _ _ E2) as (G1 & G2 & G3). rewrite zlen_bm in G1. rewrite seg_len_bm in G3.
  rewrite <- E2. apply (keeps_word m m' R); auto; try lia.
  intros k Hk. apply (F Ek Hc). lia.
Qed.

Lemma tag_pos_tgt h p : tag_pos (tgt_of h) = Some p -> p_kind h = KList /\ p_comp h = true /\ p = (p_seg h, p_off h - 8).
Proof.
  unfold tgt_of. destruct (p_kind h); cbn; try discriminate. destruct (p_comp h); cbn; try discriminate.
  intros E. injection E as <-. auto.
Qed.

(* ... and resolves exactly as before *)
Lemma slot_resolve_frame m m' (R : Z -> Z -> Prop) pads objs q :
  (forall r, In r pads -> in_msg (bm_data m) r) ->
  (forall h, In h objs -> tag_ok (bm_data m) h) ->
  keeps m m' R -> nsegs m <= nsegs m' ->
  (forall k, snd q <= k < snd q + 8 -> ~ R (fst q) k) ->
  (forall r, In r pads -> forall k, r_start r <= k < r_start r + r_size r -> ~ R (r_seg r) k) ->
  (forall h, In h objs -> tag_free R h) ->
  slot_res (bm_data m) pads objs q ->
  resolve_ptr (bm_data m') (fst q) (snd q) = resolve_ptr (bm_data m) (fst q) (snd q).
Proof.
  intros Hin Htg K Hn Hq Hp Hf (t & rs & E & S & C). rewrite E.
  apply (resolve_stable (bm_data m)); auto.
  - eapply keeps_grows; eauto.
  - unfold resolve_ptr in E. destruct (word_at (bm_data m) (fst q) (snd q)) as [w|] eqn:EW;
      [|bad_target E S].
    destruct (word_at_range _ _ _ _ EW) as (G1 & G2 & G3). rewrite zlen_bm in G1. rewrite seg_len_bm in G3.
    rewrite <- EW. apply (keeps_word m m' R); auto.
  - intros r i b Hr Hw.
    destruct C as [[-> _]|(ps & r0 & -> & Ips & _)]; [destruct Hr|].
    rewrite removelast_snoc in Hr. specialize (Hin r (Ips r Hr)). unfold in_msg in Hin.
    destruct (in_seg_elim _ _ _ _ Hin) as (G1 & G2 & G3 & G4 & _). rewrite zlen_bm in G1. rewrite seg_len_bm in G4.
    destruct Hw as (-> & W1 & W2).
    apply (keeps_word m m' R); auto; try lia.
    intros k Hk. apply (Hp r (Ips r Hr)). lia.
  - intros p Hp'.
    assert (HT : exists h, In h objs /\ t = tgt_of h).
    { destruct C as [[_ N]|(ps & r0 & _ & _ & [[_ N]|(h & Hh & _ & Et)])].
      - destruct t; cbn in N, Hp'; try contradiction; discriminate.
      - destruct t; cbn in N, Hp'; try contradiction; discriminate.
      - exists h. auto. }
    destruct HT as (h & Hh & ->). destruct (tag_pos_tgt _ _ Hp') as (Ek & Hc & ->). cbn [fst snd].
    destruct (Htg h Hh Ek Hc) as (tag & _ & E2).
    destruct (word_at_range _ _ _ _ E2) as (G1 & G2 & G3). rewrite zlen_bm in G1. rewrite seg_len_bm in G3.
    apply (keeps_word m m' R); auto; try lia.
    intros k Hk. apply (Hf h Hh Ek Hc). lia.
Qed.

(* a slot whose own word and whose pads are not touched keeps its content *)
Lemma slot_ok_frame m m' (R : Z -> Z -> Prop) pads objs pads' objs' q :
  keeps m m' R -> nsegs m <= nsegs m' ->
  (forall k, snd q <= k < snd q + 8 -> ~ R (fst q) k) ->
  (forall r, In r pads -> forall k, r_start r <= k < r_start r + r_size r -> ~ R (r_seg r) k) ->
  incl pads pads' -> incl objs objs' ->
  slot_ok (bm_data m) pads objs q -> slot_ok (bm_data m') pads' objs' q.
Proof.
  intros K Hn Hq Hp Ip Io S.
  assert (W : forall i b w, word_at (bm_data m) i b = Some w -> (forall k, b <= k < b + 8 -> ~ R i k) ->
                word_at (bm_data m') i b = Some w).
  { intros i b w E HR. destruct (word_at_range _ _ _ _ E) as (G1 & G2 & G3). rewrite zlen_bm in G1. rewrite seg_len_bm in G3.
    rewrite <- E. apply (keeps_word m m' R); auto. }
  destruct S as [S|[S|[(h & ps & raw & oldlen & Hh & Ips & Er & Hnz & Pl)|(idx & Hi & S)]]].
  4:{ right. right. right. exists idx. split; [exact Hi|]. apply W; auto. }
  - left. apply W; auto.
  - right. left. apply W; auto.
  - right. right. left. exists h, ps, raw, oldlen. split; [apply Io, Hh|]. split; [intros x Hx; apply Ip, Ips, Hx|].
    split; [exact Er|]. split; [exact Hnz|].
    destruct Pl as [E W1|padAddr Hne Epa W1 W2|psid padAddr Hne Hps Epa W1 W2 W3].
    + apply PlNear; auto.
    + assert (Hin : In (mkReg (p_seg h) padAddr 8) pads) by (apply Ips; left; reflexivity).
      apply PlFar; auto. apply W; auto. intros k Hk. apply (Hp _ Hin). cbn [r_start r_size]. lia.
    + assert (Hin : In (mkReg psid padAddr 16) pads) by (apply Ips; left; reflexivity).
      apply PlDfar; auto; apply W; auto; intros k Hk; apply (Hp _ Hin); cbn [r_start r_size]; lia.
Qed.

(* freshly allocated words are null pointers *)
Lemma null_slot_ok (ms : segs) pads objs q : word_at ms (fst q) (snd q) = Some 0 -> slot_ok ms pads objs q.
Proof. intros H. left. exact H. Qed.

(* ------------------------------------------------------------------ a constructor adds an object *)
Lemma in_msg_mono (ms ms' : segs) r : grows ms ms' -> in_msg ms r -> in_msg ms' r.
Proof. unfold in_msg. intros. eapply in_seg_mono; eauto. Qed.

Lemma good_mono (ms ms' : segs) h : grows ms ms' -> good ms h -> good ms' h.
Proof. intros G (A & B & C & D). split; [exact A|]. split; [exact B|]. split; [eapply in_seg_mono; eauto|exact D]. Qed.

Lemma fresh_disjoint (m : bmsg) a r :
  in_msg (bm_data m) a -> (r_size r = 0 \/ zlen (mem m (r_seg r)) <= r_start r) -> reg_disjoint a r = true.
Proof.
  intros Ha Hr. unfold reg_disjoint. unfold in_msg in Ha.
  destruct (in_seg_elim _ _ _ _ Ha) as (G1 & G2 & G3 & G4 & _). rewrite seg_len_bm in G4.
  destruct Hr as [Hr|Hr]; [rewrite Hr; cbn; now rewrite Bool.orb_true_r|].
  destruct (Z.eq_dec (r_seg a) (r_seg r)) as [E|E].
  - rewrite E in G4. assert (X : (r_start a + r_size a <=? r_start r) = true) by lia. rewrite X.
    now rewrite !Bool.orb_true_r.
  - assert (X : negb (r_seg a =? r_seg r) = true) by (destruct (r_seg a =? r_seg r) eqn:EE; [lia|reflexivity]).
    rewrite X. now rewrite !Bool.orb_true_r.
Qed.

Lemma reg_disjoint_sym a b : reg_disjoint a b = true -> reg_disjoint b a = true.
Proof. unfold reg_disjoint. intros H. lia. Qed.

Lemma tag_free_none h : tag_free Rnone h.
Proof. intros _ _ k _ X. exact X. Qed.

Lemma hinv_add_obj m objs pads m' h :
  hinv m objs pads ->
  keeps m m' Rnone -> inv m' -> segs_small m' -> nsegs m <= nsegs m' -> nsegs m' < 4294967296 ->
  p_valid h = true -> good (bm_data m') h -> tag_ok (bm_data m') h ->
  (r_size (obj_reg h) = 0 \/ zlen (mem m (p_seg h)) <= obj_start h) ->
  (forall q, In q (slots h) -> word_at (bm_data m') (fst q) (snd q) = Some 0) ->
  hinv m' (objs ++ [h]) pads.
Proof.
  intros [Hi Hsm Hns Hg Htg Hin Hpd HdO HdP Hcr Hs] K I' Sm' Hn Hn' Hv Gd Tg Fr Z.
  assert (G : grows (bm_data m) (bm_data m')) by (eapply keeps_grows; eauto).
  assert (RO : regsO (objs ++ [h]) = regsO objs ++ [obj_reg h]).
  { unfold regsO. rewrite map_app. reflexivity. }
  assert (InO : forall a, In a (regsO objs) -> in_msg (bm_data m) a).
  { intros a Ha. apply Hin. unfold all_regs. apply in_or_app. left. exact Ha. }
  assert (InP : forall a, In a pads -> in_msg (bm_data m) a).
  { intros a Ha. apply Hin. unfold all_regs. apply in_or_app. right. exact Ha. }
  constructor; auto.
  - intros x Hx. apply in_app_or in Hx. destruct Hx as [Hx|[<-|[]]].
    + destruct (Hg x Hx) as [V Gx]. split; [exact V|eapply good_mono; eauto].
    + split; assumption.
  - intros x Hx. apply in_app_or in Hx. destruct Hx as [Hx|[<-|[]]]; [|exact Tg].
    apply (tag_ok_frame m m' Rnone); auto. apply tag_free_none.
  - intros r Hr. unfold all_regs in Hr. rewrite RO in Hr. apply in_app_or in Hr. destruct Hr as [Hr|Hr].
    + apply in_app_or in Hr. destruct Hr as [Hr|[<-|[]]].
      * eapply in_msg_mono; eauto.
      * destruct Gd as (_ & _ & X & _). exact X.
    + eapply in_msg_mono; eauto.
  - rewrite RO. apply ord_disjoint_snoc; auto. intros a Ha. apply (fresh_disjoint m); auto.
  - intros a p Ha Hp. rewrite RO in Ha. apply in_app_or in Ha. destruct Ha as [Ha|[<-|[]]].
    + apply Hcr; auto.
    + apply reg_disjoint_sym. apply (fresh_disjoint m); auto.
  - intros q Hq. cbn [In] in Hq. rewrite flat_map_app in Hq.
    assert (Hq' : In q ((0, 0) :: flat_map slots objs) \/ In q (slots h)).
    { destruct Hq as [<-|Hq]; [left; left; reflexivity|]. apply in_app_or in Hq. destruct Hq as [Hq|Hq].
      - left. right. exact Hq.
      - cbn in Hq. rewrite app_nil_r in Hq. right. exact Hq. }
    destruct Hq' as [Hq'|Hq'].
    + apply (slot_ok_frame m m' Rnone pads objs); auto.
      * apply incl_refl.
      * intros x Hx. apply in_or_app. left. exact Hx.
    + apply null_slot_ok. apply Z. exact Hq'.
Qed.

(* ------------------------------------------------------------------ writes that keep all lengths *)
Lemma hinv_frame m objs pads m' (R : Z -> Z -> Prop) pads' :
  hinv m objs pads -> keeps m m' R -> inv m' -> segs_small m' -> nsegs m <= nsegs m' -> nsegs m' < 4294967296 ->
  (forall q, In q ((0, 0) :: flat_map slots objs) -> forall k, snd q <= k < snd q + 8 -> ~ R (fst q) k) ->
  (forall r, In r pads -> forall k, r_start r <= k < r_start r + r_size r -> ~ R (r_seg r) k) ->
  (forall h, In h objs -> tag_free R h) ->
  pads' = pads ->
  hinv m' objs pads'.
Proof.
  intros [Hi Hsm Hns Hg Htg Hin Hpd HdO HdP Hcr Hs] K I' Sm' Hn Hn' Hq Hp Hf ->.
  assert (G : grows (bm_data m) (bm_data m')) by (eapply keeps_grows; eauto).
  constructor; auto.
  - intros x Hx. destruct (Hg x Hx) as [V Gx]. split; [exact V|eapply good_mono; eauto].
  - intros x Hx. apply (tag_ok_frame m m' R); auto.
  - intros r Hr. eapply in_msg_mono; eauto.
  - intros q Hq'. apply (slot_ok_frame m m' R pads objs); auto.
    + apply incl_refl.
    + apply incl_refl.
Qed.

Lemma objs_disjoint m objs pads k k' :
  hinv m objs pads -> k <> k' -> (k < length objs)%nat -> (k' < length objs)%nat ->
  reg_disjoint (obj_reg (nth k objs nullPtr)) (obj_reg (nth k' objs nullPtr)) = true.
Proof.
  intros H Hne Hk Hk'. pose proof (hi_disjO _ _ _ H) as D. unfold ord_disjoint, regsO in D.
  assert (E : forall n, (n < length objs)%nat -> nth (S n) (root_reg :: map obj_reg objs) root_reg = obj_reg (nth n objs nullPtr)).
  { intros n Hn'. cbn [nth]. rewrite (nth_indep _ root_reg (obj_reg nullPtr)) by (rewrite map_length; lia). apply map_nth. }
  destruct (Nat.lt_ge_cases k k') as [L|G'].
  - rewrite <- (E k), <- (E k') by lia. apply D; [lia|cbn [length]; rewrite map_length; lia].
  - apply reg_disjoint_sym. rewrite <- (E k), <- (E k') by lia. apply D; [lia|cbn [length]; rewrite map_length; lia].
Qed.

Lemma root_disjoint m objs pads h : hinv m objs pads -> In h objs -> reg_disjoint root_reg (obj_reg h) = true.
Proof.
  intros H Hh. destruct (In_nth _ _ nullPtr Hh) as (k & Hk & <-).
  pose proof (hi_disjO _ _ _ H) as D. unfold ord_disjoint, regsO in D.
  specialize (D O (S k) ltac:(lia) ltac:(cbn [length]; rewrite map_length; lia)). cbn [nth] in D.
  rewrite (nth_indep _ root_reg (obj_reg nullPtr)) in D by (rewrite map_length; lia). rewrite map_nth in D. exact D.
Qed.

(* the tag word of a composite list is the first word of its region *)
Lemma tag_in_reg (ms : segs) h : p_valid h = true -> good ms h -> p_kind h = KList -> p_comp h = true ->
  obj_start h = p_off h - 8 /\ 8 <= r_size (obj_reg h).
Proof.
  intros Hv (Sh & _) Ek Hc. unfold shape_ok in Sh. rewrite Ek in Sh.
  destruct Sh as (Hn & [(Hc' & _)|(_ & Hb & Hw & Ht)]); [congruence|].
  unfold obj_start, obj_reg, obj_bytes. rewrite Ek, Hc. cbn [r_size]. split; [reflexivity|].
  rewrite (list_alloc_comp h) by (auto; lia).
  assert (W0 : 0 <= wc_of h) by (unfold wc_of; destruct Hw as (Hd & Hm & Hp); lia).
  assert (K0 : 0 <= p_len h * wc_of h) by nia. unfold padToWord, u32. lia.
Qed.

(* a byte range inside one object, behind its tag word and beside its pointer slots, touches no
   pointer slot, no pad and no tag word *)
Lemma data_range_avoids m objs pads h lo hi :
  hinv m objs pads -> In h objs -> p_off h <= lo -> hi <= obj_start h + r_size (obj_reg h) ->
  (forall q, In q (slots h) -> hi <= snd q \/ snd q + 8 <= lo) ->
  let R := fun i k => i = p_seg h /\ lo <= k < hi in
  (forall q, In q ((0, 0) :: flat_map slots objs) -> forall k, snd q <= k < snd q + 8 -> ~ R (fst q) k) /\
  (forall r, In r pads -> forall k, r_start r <= k < r_start r + r_size r -> ~ R (r_seg r) k) /\
  (forall h', In h' objs -> tag_free R h').
Proof.
  intros H Hh Hlo Hhi Hsl R.
  assert (OS : obj_start h <= p_off h) by (unfold obj_start; destruct (p_comp h); lia).
  split; [|split].
  - intros q Hq k Hk [E1 E2].
    destruct Hq as [<-|Hq].
    + cbn [fst snd] in *. pose proof (root_disjoint _ _ _ _ H Hh) as D. cbv [reg_disjoint root_reg obj_reg r_seg r_start r_size] in D, Hhi. lia.
    + apply in_flat_map in Hq. destruct Hq as (h' & Hh' & Hq).
      destruct (hi_good _ _ _ H h' Hh') as [V' G'].
      destruct (slot_in_obj _ _ _ V' G' Hq) as (S1 & S2 & S3 & _).
      assert (OS' : obj_start h' <= p_off h') by (unfold obj_start; destruct (p_comp h'); lia).
      destruct (In_nth _ _ nullPtr Hh) as (n & Hn & En). destruct (In_nth _ _ nullPtr Hh') as (n' & Hn' & En').
      destruct (Nat.eq_dec n n') as [->|Hne].
      * rewrite En in En'. subst h'. specialize (Hsl q Hq). lia.
      * pose proof (objs_disjoint _ _ _ n n' H Hne Hn Hn') as D. rewrite En, En' in D.
        cbv [reg_disjoint obj_reg r_seg r_start r_size] in D, S3, Hhi. lia.
  - intros r Hr k Hk [E1 E2].
    assert (Ha : In (obj_reg h) (regsO objs)) by (unfold regsO; right; apply in_map; exact Hh).
    pose proof (hi_cross _ _ _ H _ _ Ha Hr) as D. pose proof (hi_pads _ _ _ H r Hr) as Pz.
    destruct r as [rs rst rsz]. cbv [reg_disjoint obj_reg r_seg r_start r_size] in *. lia.
  - intros h' Hh' Ek Hc k Hk [E1 E2].
    destruct (hi_good _ _ _ H h' Hh') as [V' G'].
    destruct (tag_in_reg _ _ V' G' Ek Hc) as [T1 T2].
    destruct (In_nth _ _ nullPtr Hh) as (n & Hn & En). destruct (In_nth _ _ nullPtr Hh') as (n' & Hn' & En').
    destruct (Nat.eq_dec n n') as [->|Hne].
    + rewrite En in En'. subst h'. lia.
    + pose proof (objs_disjoint _ _ _ n n' H Hne Hn Hn') as D. rewrite En, En' in D.
      cbv [reg_disjoint obj_reg r_seg r_start r_size] in D, T2, Hhi. lia.
Qed.

(* ------------------------------------------------------------------ setting a pointer slot *)
Lemma f_off_ptr_offset w : ptr_offset w = f_off w.
Proof. rewrite ptr_offset_spec. unfold signed, bits, f_off, two30. cbv zeta. reflexivity. Qed.

Lemma raw_word_ok raw : raw_word raw -> raw_ok raw.
Proof.
  intros (R0 & R1 & R2 & R3). unfold raw_ok, word64. split; [exact R0|]. split; [exact R1|]. split.
  - rewrite f_off_ptr_offset. exact R2.
  - intros ->. cbn in R3. lia.
Qed.

(* segments stay addressable under place *)
Lemma place_small w dsid off tsid taddr raw w' :
  inv (w_dst w) -> segs_small (w_dst w) -> 0 <= dsid < nsegs (w_dst w) -> 0 <= tsid < nsegs (w_dst w) ->
  place w dsid off tsid taddr raw = Ok w' -> segs_small (w_dst w').
Proof.
  intros Hinv Hsm Hd Ht. set (m := w_dst w) in *. unfold place. fold m.
  assert (W : forall m1 m2 sid a v, segs_small m1 -> 0 <= sid -> writeRawPointer m1 sid a v = Ok m2 -> segs_small m2).
  { intros m1 m2 sid a v S Hs E. apply writeRawPointer_wrote in E; auto. intros i.
    destruct (Z_lt_ge_dec i 0) as [L|G].
    - unfold mem, get_seg. replace (Z.to_nat i) with O by lia. pose proof (wrote_len _ _ _ _ _ 0 E ltac:(lia)) as X.
      unfold mem, get_seg in X. cbn [Z.to_nat] in X. rewrite X. apply (S 0).
    - rewrite (wrote_len _ _ _ _ _ i E) by lia. apply S. }
  assert (A : forall sid sz m1 s1 a, 0 <= sid < nsegs m -> 0 <= sz -> alloc m sid sz = Ok (m1, s1, a) -> segs_small m1 /\ inv m1 /\ 0 <= s1 /\ nsegs m <= nsegs m1).
  { intros sid sz m1 s1 a Hs Hz E.
    destruct (alloc_keeps _ _ _ _ _ _ Hinv Hs Hz E) as (_ & I1 & N1 & S1 & AD & L1 & _ & _ & _ & MX).
    destruct Hinv as [Hwf Har].
    destruct (alloc_mem _ _ _ _ _ _ Hwf Har Hs Hz E) as (_ & _ & _ & _ & _ & _ & _ & _ & _ & A10 & _).
    split; [|split; [exact I1|split; lia]]. intros i.
    destruct (Z.eq_dec i s1) as [->|Hne]; [exact MX|].
    destruct (Z_lt_ge_dec i 0) as [L|G].
    - unfold mem, get_seg. replace (Z.to_nat i) with O by lia.
      destruct (Z.eq_dec 0 s1) as [<-|H0]; [exact MX|]. pose proof (A10 0 ltac:(lia) H0) as X. unfold mem, get_seg in X.
      cbn [Z.to_nat] in X. rewrite X. apply (Hsm 0).
    - rewrite A10 by lia. apply Hsm. }
  destruct (tsid =? dsid).
  - unfold lift0. destruct (writeRawPointer m dsid off _) as [m'| |] eqn:EW; cbn [bind]; try discriminate.
    intros H. apply Ok_inj in H. subst w'. cbn [w_dst w_set_dst]. eapply W; eauto. lia.
  - destruct (hasCapacity (get_seg m tsid) 8).
    + destruct (alloc m tsid 8) as [[[m1 s1] padAddr]| |] eqn:EA; cbn [bind]; try discriminate.
      assert (H08 : 0 <= 8) by lia. destruct (A _ _ _ _ _ Ht H08 EA) as (S1 & I1 & P1 & N1).
      destruct (writeRawPointer m1 tsid padAddr _) as [m2| |] eqn:EW2; cbn [bind]; try discriminate.
      unfold lift0. destruct (writeRawPointer m2 dsid off _) as [m3| |] eqn:EW3; cbn [bind]; try discriminate.
      intros H. apply Ok_inj in H. subst w'. cbn [w_dst w_set_dst].
      eapply W; [eapply W; [exact S1| |exact EW2]| |exact EW3]; lia.
    + destruct (alloc m dsid 16) as [[[m1 psid] padAddr]| |] eqn:EA; cbn [bind]; try discriminate.
      assert (H016 : 0 <= 16) by lia. destruct (A _ _ _ _ _ Hd H016 EA) as (S1 & I1 & P1 & N1).
      destruct (writeRawPointer m1 psid padAddr _) as [m2| |] eqn:EW2; cbn [bind]; try discriminate.
      destruct (writeRawPointer m2 psid _ raw) as [m3| |] eqn:EW3; cbn [bind]; try discriminate.
      unfold lift0. destruct (writeRawPointer m3 dsid off _) as [m4| |] eqn:EW4; cbn [bind]; try discriminate.
      intros H. apply Ok_inj in H. subst w'. cbn [w_dst w_set_dst].
      eapply W; [eapply W; [eapply W; [exact S1| |exact EW2]| |exact EW3]| |exact EW4]; lia.
Qed.

(* a slot position: existing, aligned, inside root word or an object *)
Lemma slot_geometry m objs pads q :
  hinv m objs pads -> In q ((0, 0) :: flat_map slots objs) ->
  0 <= fst q < nsegs m /\ 0 <= snd q /\ snd q mod 8 = 0 /\ snd q + 8 <= zlen (mem m (fst q)) /\
  exists r, In r (regsO objs) /\ r_seg r = fst q /\ r_start r <= snd q /\ snd q + 8 <= r_start r + r_size r.
Proof.
  intros H Hq. destruct Hq as [<-|Hq].
  - pose proof (hi_in _ _ _ H root_reg ltac:(unfold all_regs, regsO; left; reflexivity)) as I0.
    unfold in_msg, root_reg in I0. cbn [r_seg r_start r_size] in I0.
    destruct (in_seg_elim _ _ _ _ I0) as (G1 & G2 & G3 & G4 & G5). rewrite zlen_bm in G1. rewrite seg_len_bm in G4.
    cbn [fst snd]. repeat split; try lia. exists root_reg. split; [left; reflexivity|]. cbn. lia.
  - apply in_flat_map in Hq. destruct Hq as (h & Hh & Hq).
    destruct (hi_good _ _ _ H h Hh) as [V G].
    destruct (slot_in_obj _ _ _ V G Hq) as (S1 & S2 & S3 & S4).
    destruct G as (_ & _ & Gi & _). destruct (in_seg_elim _ _ _ _ Gi) as (G1 & G2 & G3 & G4 & G5).
    rewrite zlen_bm in G1. rewrite seg_len_bm in G4. rewrite S1.
    assert (OS : obj_start h = p_off h \/ obj_start h = p_off h - 8) by (unfold obj_start; destruct (p_comp h); lia).
    repeat split; try lia. exists (obj_reg h). split; [right; apply in_map; exact Hh|].
    unfold obj_reg in *. cbn [r_seg r_start r_size] in *. lia.
Qed.

(* writing a pointer slot spares every tag word *)
Lemma slot_avoids_tags m objs pads q :
  hinv m objs pads -> In q ((0, 0) :: flat_map slots objs) ->
  forall h, In h objs -> tag_free (Rword (fst q) (snd q)) h.
Proof.
  intros H Hq h Hh Ek Hc k Hk [E1 E2].
  destruct (hi_good _ _ _ H h Hh) as [V G].
  destruct (tag_in_reg _ _ V G Ek Hc) as [T1 T2].
  destruct Hq as [<-|Hq].
  - cbn [fst snd] in *. pose proof (root_disjoint _ _ _ _ H Hh) as D.
    cbv [reg_disjoint root_reg obj_reg r_seg r_start r_size] in D, T2. lia.
  - apply in_flat_map in Hq. destruct Hq as (h' & Hh' & Hq).
    destruct (hi_good _ _ _ H h' Hh') as [V' G'].
    destruct (slot_in_obj _ _ _ V' G' Hq) as (S1 & S2 & S3 & _).
    assert (OS' : obj_start h' <= p_off h') by (unfold obj_start; destruct (p_comp h'); lia).
    destruct (In_nth _ _ nullPtr Hh) as (n & Hn & En). destruct (In_nth _ _ nullPtr Hh') as (n' & Hn' & En').
    destruct (Nat.eq_dec n n') as [->|Hne].
    + rewrite En in En'. subst h'. lia.
    + pose proof (objs_disjoint _ _ _ n n' H Hne Hn Hn') as D. rewrite En, En' in D.
      cbv [reg_disjoint obj_reg r_seg r_start r_size] in D, S3, T2. lia.
Qed.

(* the strict validator resolves every table slot: null, the inline empty struct, or through
   pads of the pad table to exactly one table object *)
Lemma hinv_slot_res m objs pads q :
  hinv m objs pads -> In q ((0, 0) :: flat_map slots objs) -> slot_res (bm_data m) pads objs q.
Proof.
  intros H Hq. destruct (slot_geometry _ _ _ _ H Hq) as (Q1 & Q2 & Q3 & Q4 & _).
  pose proof (hi_small _ _ _ H (fst q)) as Hsq. unfold maxSegmentSize in Hsq.
  destruct (hi_slots _ _ _ H q Hq) as [S|[S|[(h & ps & raw & oldlen & Hh & Ips & Er & Hnz & Pl)|(idx & Hi & S)]]].
  4:{ exists (GCap idx), []. split; [|split; [exact I|left; split; [reflexivity|exact I]]].
      unfold resolve_ptr. rewrite S. rewrite rawInterfacePointer_sum by assumption.
      set (w := idx * 4294967296 + 3).
      assert (E0 : (w =? 0) = false) by (unfold w; lia). rewrite E0.
      assert (E3 : (f_A w =? 3) = true) by (unfold f_A, w; lia). rewrite E3.
      assert (EZ : ((w / 4) mod two30 =? 0) = true) by (unfold two30, w; lia). rewrite EZ.
      assert (EI : w / two32 = idx) by (unfold two32, w; lia). rewrite EI. reflexivity. }
  - exists GNull, []. unfold resolve_ptr. rewrite S. cbn. split; [reflexivity|]. split; [exact I|left; split; [reflexivity|exact I]].
  - exists (GStruct (fst q) (snd q) 0 0), [mkReg (fst q) (snd q) 0]. split; [|split; [exact I|]].
    + unfold resolve_ptr. rewrite S. unfold empty_struct_word.
      change (4294967292 =? 0) with false. change (f_A 4294967292 =? 3) with false. change (f_A 4294967292 =? 2) with false. cbv iota.
      unfold decode_obj. cbv zeta. change (f_A 4294967292 =? 0) with true. cbv iota.
      change (f_off 4294967292) with (-1). change (f_dw 4294967292) with 0. change (f_pc 4294967292) with 0.
      replace (snd q + 8 + 8 * -1) with (snd q) by lia. change (8 * (0 + 0)) with 0.
      rewrite in_seg_intro; [reflexivity| | | | |]; try lia.
      * rewrite zlen_bm. exact Q1.
      * rewrite seg_len_bm. lia.
    + right. exists [], (mkReg (fst q) (snd q) 0). split; [reflexivity|]. split; [intros x []|left; split; [reflexivity|exact I]].
  - destruct (hi_good _ _ _ H h Hh) as [V G]. pose proof (hi_tags _ _ _ H h Hh) as T.
    destruct (obj_decode (bm_data m) h V G T Hnz) as (raw' & Er' & Rw & DE). rewrite Er in Er'. apply Ok_inj in Er'. subst raw'.
    pose proof G as (_ & Gs & Gi & Go). destruct (in_seg_elim _ _ _ _ Gi) as (T1 & T2 & T3 & T4 & T5).
    rewrite zlen_bm in T1. rewrite seg_len_bm in T4.
    pose proof (hi_small _ _ _ H (p_seg h)) as Hsh. unfold maxSegmentSize in Hsh.
    assert (PR := placed_resolve (bm_data m) (fst q) (snd q) (p_seg h) (obj_start h) raw oldlen ps Pl Rw).
    exists (tgt_of h), (ps ++ [obj_reg h]). split; [|split].
    + rewrite PR; try lia.
      * rewrite DE. reflexivity.
      * rewrite zlen_bm. pose proof (hi_nsegs _ _ _ H). lia.
      * intros p Hp. pose proof (hi_in _ _ _ H p ltac:(unfold all_regs; apply in_or_app; right; apply Ips; exact Hp)) as Ip.
        unfold in_msg in Ip. destruct (in_seg_elim _ _ _ _ Ip) as (Y1 & Y2 & Y3 & Y4 & Y5). rewrite seg_len_bm in Y4.
        pose proof (hi_small _ _ _ H (r_seg p)) as Hsp. unfold maxSegmentSize in Hsp. lia.
    + unfold tgt_of. destruct (p_kind h); try exact I. destruct (p_comp h); exact I.
    + right. exists ps, (obj_reg h). split; [reflexivity|]. split; [exact Ips|]. right. exists h. auto.
Qed.

Lemma hinv_place_full m objs pads w q ht raw w' :
  w_dst w = m -> hinv m objs pads ->
  In q ((0, 0) :: flat_map slots objs) -> In ht objs ->
  (p_kind ht = KStruct -> os_isZero (p_size ht) = false) ->
  raw_of ht = Ok raw ->
  place w (fst q) (snd q) (p_seg ht) (obj_start ht) raw = Ok w' ->
  nsegs (w_dst w') < 4294967296 ->
  exists pads', hinv (w_dst w') objs (pads ++ pads') /\
    resolve_ptr (bm_data (w_dst w')) (fst q) (snd q) = (tgt_of ht, pads' ++ [obj_reg ht]) /\
    keeps m (w_dst w') (Rword (fst q) (snd q)) /\
    (forall q', In q' ((0, 0) :: flat_map slots objs) -> ~ (fst q' = fst q /\ snd q' = snd q) ->
       resolve_ptr (bm_data (w_dst w')) (fst q') (snd q') = resolve_ptr (bm_data m) (fst q') (snd q')) /\
    placed (bm_data (w_dst w')) (fst q) (snd q) (p_seg ht) (obj_start ht) raw (fun i => zlen (mem m i)) pads'.
Proof.
  intros Ew H Hq Hht Hnz Hraw Hpl Hns'. subst m. set (m := w_dst w) in *.
  destruct (slot_geometry _ _ _ _ H Hq) as (Q1 & Q2 & Q3 & Q4 & (rq & Rq1 & Rq2 & Rq3 & Rq4)).
  destruct (hi_good _ _ _ H ht Hht) as [Vt Gt].
  pose proof (hi_tags _ _ _ H ht Hht) as Tt.
  destruct (obj_decode (bm_data m) ht Vt Gt Tt Hnz) as (raw' & Er & Rw & _). rewrite Hraw in Er. apply Ok_inj in Er. subst raw'.
  pose proof Gt as (_ & Gs & Gi & Go). destruct (in_seg_elim _ _ _ _ Gi) as (T1 & T2 & T3 & T4 & T5).
  rewrite zlen_bm in T1. rewrite seg_len_bm in T4.
  destruct (hi_inv _ _ _ H) as [Hwf Har]. pose proof (hi_small _ _ _ H) as Hsm. pose proof (hi_nsegs _ _ _ H) as Hns.
  assert (OSt : obj_start ht <= p_off ht) by (unfold obj_start; destruct (p_comp ht); lia).
  assert (Hpre : place_pre m (fst q) (snd q) (p_seg ht) (obj_start ht) raw).
  { unfold place_pre. repeat split; auto; try (apply raw_word_ok; exact Rw); try (unfold nsegs in *; lia).
    all: try (apply (raw_word_ok _ Rw)). }
  destruct (place_layout _ _ _ _ _ _ _ Hpre Hpl) as (pads' & Hpd).
  destruct (place_keeps _ _ _ _ _ _ _ (conj Hwf Har) Q1 T1 Hpl) as (K & I' & N' & _).
  pose proof (place_small _ _ _ _ _ _ _ (conj Hwf Har) Hsm Q1 T1 Hpl) as Sm'.
  set (m' := w_dst w') in *.
  assert (G : grows (bm_data m) (bm_data m')) by (eapply keeps_grows; eauto).
  exists pads'.
  (* the new pads: fresh, inside the new message, of positive size *)
  assert (PF : forall p, In p pads' -> 0 < r_size p /\ zlen (mem m (r_seg p)) <= r_start p /\ in_msg (bm_data m') p).
  { intros p Hp. destruct Hpd as [E W|padAddr Hne Epa W1 W2|psid padAddr Hne Hps Epa W1 W2 W3]; [destruct Hp| |]; cbv beta in Epa; fold m in Epa.
    - destruct Hp as [<-|[]]. cbn [r_size r_seg r_start]. split; [lia|]. split; [lia|].
      destruct (word_at_range _ _ _ _ W2) as (X1 & X2 & X3). unfold in_msg. cbn [r_size r_seg r_start].
      apply in_seg_intro; subst padAddr; try lia; try apply zlen_nonneg.
      pose proof (get_seg_wf m (p_seg ht) Hwf) as [_ A8]. unfold blen in A8. exact A8.
    - destruct Hp as [<-|[]]. cbn [r_size r_seg r_start]. split; [lia|]. split; [lia|].
      destruct (word_at_range _ _ _ _ W3) as (X1 & X2 & X3). unfold in_msg. cbn [r_size r_seg r_start].
      apply in_seg_intro; subst padAddr; try lia; try apply zlen_nonneg.
      pose proof (get_seg_wf m psid Hwf) as [_ A8]. unfold blen in A8. exact A8. }
  assert (InO : forall a, In a (regsO objs) -> in_msg (bm_data m) a).
  { intros a Ha. apply (hi_in _ _ _ H). unfold all_regs. apply in_or_app. left. exact Ha. }
  assert (InP : forall a, In a pads -> in_msg (bm_data m) a).
  { intros a Ha. apply (hi_in _ _ _ H). unfold all_regs. apply in_or_app. right. exact Ha. }
  assert (L1 : (length pads' <= 1)%nat) by (destruct Hpd; cbn; lia).
  assert (TF := slot_avoids_tags _ _ _ _ H Hq).
  assert (PadF : forall r, In r pads -> forall k, r_start r <= k < r_start r + r_size r -> ~ Rword (fst q) (snd q) (r_seg r) k).
  { intros r Hr k Hk [X1 X2].
    pose proof (hi_cross _ _ _ H _ _ Rq1 Hr) as D. pose proof (hi_pads _ _ _ H r Hr) as Pz.
    destruct r as [rs rst rsz]. destruct rq as [qs qst qsz]. cbv [reg_disjoint r_seg r_start r_size] in *. lia. }
  assert (RQ : resolve_ptr (bm_data m') (fst q) (snd q) = (tgt_of ht, pads' ++ [obj_reg ht])).
  { assert (PR := placed_resolve (bm_data m') (fst q) (snd q) (p_seg ht) (obj_start ht) raw (fun i => zlen (mem m i)) pads' Hpd Rw).
    assert (Gt' : good (bm_data m') ht) by (eapply good_mono; eauto).
    assert (Tt' : tag_ok (bm_data m') ht) by (apply (tag_ok_frame m m' (Rword (fst q) (snd q))); auto).
    destruct (obj_decode (bm_data m') ht Vt Gt' Tt' Hnz) as (raw2 & Er2 & _ & DE). rewrite Hraw in Er2. apply Ok_inj in Er2. subst raw2.
    rewrite PR; try lia.
    - rewrite DE. reflexivity.
    - pose proof (Hsm (fst q)). unfold maxSegmentSize in *. lia.
    - rewrite zlen_bm. lia.
    - intros p Hp. destruct (PF p Hp) as (Z1 & Z2 & Z3). unfold in_msg in Z3.
      destruct (in_seg_elim _ _ _ _ Z3) as (Y1 & Y2 & Y3 & Y4 & Y5). rewrite seg_len_bm in Y4.
      pose proof (Sm' (r_seg p)). unfold maxSegmentSize in *. lia. }
  split; [|split; [exact RQ|split; [exact K|split; [|exact Hpd]]]].
  2:{ intros q' Hq' NE. apply (slot_resolve_frame m m' (Rword (fst q) (snd q)) pads objs); auto.
      - apply (hi_tags _ _ _ H).
      - intros k Hk [X1 X2]. destruct (slot_geometry _ _ _ _ H Hq') as (_ & _ & P3 & _). lia.
      - apply hinv_slot_res; auto. }
  constructor; auto.
  - intros x Hx. destruct (hi_good _ _ _ H x Hx) as [V Gx]. split; [exact V|eapply good_mono; eauto].
  - intros x Hx. apply (tag_ok_frame m m' (Rword (fst q) (snd q))); auto. apply (hi_tags _ _ _ H); exact Hx.
  - intros r Hr. unfold all_regs in Hr. apply in_app_or in Hr. destruct Hr as [Hr|Hr].
    + eapply in_msg_mono; eauto.
    + apply in_app_or in Hr. destruct Hr as [Hr|Hr]; [eapply in_msg_mono; eauto|apply PF; exact Hr].
  - intros r Hr. apply in_app_or in Hr. destruct Hr as [Hr|Hr]; [apply (hi_pads _ _ _ H); exact Hr|apply PF; exact Hr].
  - apply (hi_disjO _ _ _ H).
  - destruct pads' as [|p0 [|p1 ps]]; [rewrite app_nil_r; apply (hi_disjP _ _ _ H)| |cbn in L1; lia].
    apply ord_disjoint_snoc; [apply (hi_disjP _ _ _ H)|].
    intros a Ha. apply (fresh_disjoint m); auto. right. apply (PF p0). left. reflexivity.
  - intros a p Ha Hp. apply in_app_or in Hp. destruct Hp as [Hp|Hp]; [apply (hi_cross _ _ _ H); auto|].
    apply (fresh_disjoint m); auto. right. apply (PF p). exact Hp.
  - intros q' Hq'.
    destruct (slot_geometry _ _ _ _ H Hq') as (P1 & P2 & P3 & P4 & (rq' & Rp1 & Rp2 & Rp3 & Rp4)).
    assert (DEC : (fst q' = fst q /\ snd q' = snd q) \/ ~ (fst q' = fst q /\ snd q' = snd q)) by lia.
    destruct DEC as [[E1 E2]|NE].
    + (* the slot just written *)
      assert (Eq : q' = q) by (destruct q, q'; cbn in *; congruence). subst q'.
      right. right. left. exists ht, pads', raw, (fun i => zlen (mem m i)). split; [exact Hht|].
      split; [intros x Hx; apply in_or_app; right; exact Hx|]. split; [exact Hraw|]. split; [exact Hnz|exact Hpd].
    + apply (slot_ok_frame m m' (Rword (fst q) (snd q)) pads objs); auto.
      * intros k Hk [X1 X2]. lia.
      * intros x Hx. apply in_or_app. left. exact Hx.
      * apply incl_refl.
      * apply (hi_slots _ _ _ H). exact Hq'.
Qed.

Lemma hinv_place m objs pads w q ht raw w' :
  w_dst w = m -> hinv m objs pads ->
  In q ((0, 0) :: flat_map slots objs) -> In ht objs ->
  (p_kind ht = KStruct -> os_isZero (p_size ht) = false) ->
  raw_of ht = Ok raw ->
  place w (fst q) (snd q) (p_seg ht) (obj_start ht) raw = Ok w' ->
  nsegs (w_dst w') < 4294967296 ->
  exists pads', hinv (w_dst w') objs (pads ++ pads').
Proof.
  intros A B C D E F G I. destruct (hinv_place_full m objs pads w q ht raw w' A B C D E F G I) as (pads' & X & _).
  exists pads'. exact X.
Qed.

(* ------------------------------------------------------------------ what the invariant gives *)
(* every pointer word in a slot of a table object, and the root word, resolves under the strict
   rules of BuildValid.v: null, or through well-formed pads (taken from the pad table) to a
   region that is exactly one table object with matching kind, element size and count; all
   regions involved lie inside their segments and regions of different table entries are
   disjoint *)
Theorem hinv_pointers_valid m objs pads q :
  hinv m objs pads -> In q ((0, 0) :: flat_map slots objs) ->
  exists t rs, resolve_ptr (bm_data m) (fst q) (snd q) = (t, rs) /\ is_bad t = false /\
    (forall r, In r rs -> in_msg (bm_data m) r \/ r_size r = 0) /\
    (rs = [] /\ no_tag t \/ exists ps r, rs = ps ++ [r] /\ incl ps pads /\
        (r_size r = 0 /\ no_tag t \/ exists h, In h objs /\ r = obj_reg h /\ t = tgt_of h)).
Proof.
  intros H Hq. destruct (hinv_slot_res _ _ _ _ H Hq) as (t & rs & E & S & C).
  exists t, rs. split; [exact E|]. split; [destruct t; cbn in *; auto; contradiction|]. split; [|exact C].
  intros r Hr. destruct C as [[-> _]|(ps & r0 & -> & Ips & D)]; [destruct Hr|].
  apply in_app_or in Hr. destruct Hr as [Hr|[<-|[]]].
  - left. apply (hi_in _ _ _ H). unfold all_regs. apply in_or_app. right. apply Ips. exact Hr.
  - destruct D as [[D _]|(h & Hh & -> & _)]; [right; exact D|left].
    apply (hi_in _ _ _ H). unfold all_regs, regsO. apply in_or_app. left. right. apply in_map. exact Hh.
Qed.

(* a data write inside the data part of a table object keeps the invariant *)
Theorem hinv_data_write m objs pads m' h addr bs :
  hinv m objs pads -> In h objs -> 0 <= p_seg h ->
  wrote m m' (p_seg h) addr bs ->
  p_off h <= addr -> addr + zlen bs <= obj_start h + r_size (obj_reg h) ->
  (forall q, In q (slots h) -> addr + zlen bs <= snd q \/ snd q + 8 <= addr) ->
  hinv m' objs pads.
Proof.
  intros H Hh Hs W Hlo Hhi Hsl.
  pose proof (wrote_keeps _ _ _ _ _ W Hs) as K. pose proof (wrote_inv _ _ _ _ _ W Hs (hi_inv _ _ _ H)) as I'.
  assert (N : nsegs m' = nsegs m) by (unfold nsegs; apply (wrote_nsegs _ _ _ _ _ W)).
  destruct (data_range_avoids m objs pads h addr (addr + zlen bs) H Hh Hlo Hhi Hsl) as (A1 & A2 & A3).
  apply (hinv_frame m objs pads m' (fun i k => i = p_seg h /\ addr <= k < addr + zlen bs)); auto.
  - intros i. destruct (Z_lt_ge_dec i 0) as [L|G].
    + unfold mem, get_seg. replace (Z.to_nat i) with O by lia. pose proof (wrote_len _ _ _ _ _ 0 W ltac:(lia)) as X.
      unfold mem, get_seg in X. cbn [Z.to_nat] in X. rewrite X. apply (hi_small _ _ _ H 0).
    + rewrite (wrote_len _ _ _ _ _ i W) by lia. apply (hi_small _ _ _ H).
  - lia.
  - rewrite N. apply (hi_nsegs _ _ _ H).
Qed.

(* ------------------------------------------------------------------ non-vacuity *)
(* the invariant holds initially: a message whose only content is the null root word, with
   empty object and pad tables *)
Definition hinv_ex_msg : bmsg := mkBM AMulti [mkBS (repeat 0 8) 64] [] 100.
Example hinv_initial : hinv hinv_ex_msg [] [].
Proof.
  constructor.
  - split; [repeat constructor; cbn; lia|unfold arena_wf; cbn; discriminate].
  - intros i. unfold mem, get_seg, hinv_ex_msg. cbn [bm_segs].
    destruct (Z.to_nat i) as [|[|n]]; cbn; unfold maxSegmentSize; lia.
  - cbn. lia.
  - intros h [].
  - intros h [].
  - intros r [<-|[]]. reflexivity.
  - intros r [].
  - intros i j Hij Hj. cbn in Hj. lia.
  - intros i j Hij Hj. cbn in Hj. lia.
  - intros a p _ [].
  - intros q [<-|[]]. apply null_slot_ok. reflexivity.
Qed.

(* ------------------------------------------------------------------ read back over the object table *)
(* the abstract store of a message: the bytes of every table object and the target of every
   pointer slot.  A data write inside one object: the written bytes are read back, every other
   byte of every segment is unchanged (in particular the data of every other object), and
   every pointer slot of the table resolves exactly as before. *)
Theorem data_write_read_back m objs pads m' h addr bs :
  hinv m objs pads -> In h objs -> 0 <= p_seg h ->
  wrote m m' (p_seg h) addr bs ->
  p_off h <= addr -> addr + zlen bs <= obj_start h + r_size (obj_reg h) ->
  (forall q, In q (slots h) -> addr + zlen bs <= snd q \/ snd q + 8 <= addr) ->
  slice (mem m' (p_seg h)) addr (zlen bs) = Ok bs /\
  keeps m m' (fun i k => i = p_seg h /\ addr <= k < addr + zlen bs) /\
  (forall q, In q ((0, 0) :: flat_map slots objs) ->
     resolve_ptr (bm_data m') (fst q) (snd q) = resolve_ptr (bm_data m) (fst q) (snd q)).
Proof.
  intros H Hh Hs W Hlo Hhi Hsl.
  pose proof (wrote_keeps _ _ _ _ _ W Hs) as K.
  assert (N : nsegs m' = nsegs m) by (unfold nsegs; apply (wrote_nsegs _ _ _ _ _ W)).
  destruct (data_range_avoids m objs pads h addr (addr + zlen bs) H Hh Hlo Hhi Hsl) as (A1 & A2 & A3).
  split; [|split; [exact K|]].
  - apply (wrote_slice_same m m'); auto. pose proof (hi_small _ _ _ H (p_seg h)). unfold maxSegmentSize in *. lia.
  - intros q Hq. apply (slot_resolve_frame m m' (fun i k => i = p_seg h /\ addr <= k < addr + zlen bs) pads objs); auto; try lia.
    + intros r Hr. apply (hi_in _ _ _ H). unfold all_regs. apply in_or_app. right. exact Hr.
    + apply (hi_tags _ _ _ H).
    + apply hinv_slot_res; auto.
Qed.
