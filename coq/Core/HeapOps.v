(* C05: the pointer-level invariant [hinv] (HeapInv.v) lifted to the op-list interpreter of
   BuildOps.v for the sub-language
     { NewStruct, New{UInt8..64,Bit,Pointer,Void}List, NewData/NewText, SetUint8..64, SetBit,
       Struct.SetPtr and Message.SetRoot of handles of the same message (all three placements,
       overwrites, null and empty-struct inline words), read-only accessors }
   with "pool = table": the valid handles of the pool are the object table. *)
From CV Require Import Core.Builder Core.ReaderFacts Core.ArithFacts Core.BuilderFacts Core.AllocProofs
  Core.WritePtrProofs Core.HeapProofs Core.CopyProofs Core.BuildOps Core.BuildValid Core.BuildInv Core.HeapInv.
From Coq Require Import ZifyBool ZifyNat.
Open Scope Z_scope.

Ltac Zify.zify_post_hook ::= Z.div_mod_to_equations.

(* ------------------------------------------------------------------ allocation facts *)
Lemma segs_small_same_len m m' : (forall i, 0 <= i -> zlen (mem m' i) = zlen (mem m i)) -> segs_small m -> segs_small m'.
Proof.
  intros E S i. destruct (Z_lt_ge_dec i 0) as [L|G].
  - unfold mem, get_seg. replace (Z.to_nat i) with O by lia. pose proof (E 0 (Z.le_refl 0)) as X.
    unfold mem, get_seg in X. cbn [Z.to_nat] in X. rewrite X. apply (S 0).
  - rewrite E by lia. apply S.
Qed.

Lemma alloc_small m sid sz m1 s1 a :
  inv m -> segs_small m -> 0 <= sid < nsegs m -> 0 <= sz -> alloc m sid sz = Ok (m1, s1, a) -> segs_small m1.
Proof.
  intros Hinv Hsm Hs Hz E.
  destruct (alloc_keeps _ _ _ _ _ _ Hinv Hs Hz E) as (_ & I1 & N1 & S1 & AD & L1 & _ & _ & _ & MX).
  destruct Hinv as [Hwf Har].
  destruct (alloc_mem _ _ _ _ _ _ Hwf Har Hs Hz E) as (_ & _ & _ & _ & _ & _ & _ & _ & _ & A10 & _).
  intros i. destruct (Z.eq_dec i s1) as [->|Hne]; [exact MX|].
  destruct (Z_lt_ge_dec i 0) as [L|G].
  - unfold mem, get_seg. replace (Z.to_nat i) with O by lia.
    destruct (Z.eq_dec 0 s1) as [<-|H0]; [exact MX|]. pose proof (A10 0 (Z.le_refl 0) H0) as X. unfold mem, get_seg in X.
    cbn [Z.to_nat] in X. rewrite X. apply (Hsm 0).
  - rewrite A10 by lia. apply Hsm.
Qed.

(* a word of the zero-filled region an allocation appended *)
Lemma le_decode_zeros n : le_decode (repeat 0 n) = 0.
Proof. induction n as [|n IH]; [reflexivity|]. cbn [repeat le_decode]. rewrite IH. reflexivity. Qed.

Lemma skipn_repeat_local {A} (x : A) k n : skipn k (repeat x n) = repeat x (n - k).
Proof. revert n; induction k as [|k IH]; intros [|n]; cbn; auto. Qed.
Lemma firstn_repeat_local {A} (x : A) k n : (k <= n)%nat -> firstn k (repeat x n) = repeat x k.
Proof. revert n; induction k as [|k IH]; intros [|n] H; cbn; auto; try lia. f_equal. apply IH. lia. Qed.

Lemma sub_app_zeros d n b : zlen d <= b -> 0 <= b -> b + 8 <= zlen d + Z.of_nat n -> sub (d ++ repeat 0 n) b 8 = repeat 0 8.
Proof.
  intros H1 H0 H2. unfold sub, zlen in *. rewrite skipn_app. rewrite skipn_all2 by lia. cbn [app].
  rewrite skipn_repeat_local. rewrite firstn_repeat_local by lia. reflexivity.
Qed.

(* ------------------------------------------------------------------ writing one pointer slot *)
Lemma hinv_write_slot m objs pads m' q pads' :
  hinv m objs pads -> In q ((0, 0) :: flat_map slots objs) ->
  keeps m m' (Rword (fst q) (snd q)) -> inv m' -> segs_small m' -> nsegs m <= nsegs m' -> nsegs m' < 4294967296 ->
  (length pads' <= 1)%nat ->
  (forall p, In p pads' -> 0 < r_size p /\ zlen (mem m (r_seg p)) <= r_start p /\ in_msg (bm_data m') p) ->
  slot_ok (bm_data m') (pads ++ pads') objs q ->
  hinv m' objs (pads ++ pads').
Proof.
  intros H Hq K I' Sm' N' Hns' L1 PF SQ.
  destruct (slot_geometry _ _ _ _ H Hq) as (Q1 & Q2 & Q3 & Q4 & (rq & Rq1 & Rq2 & Rq3 & Rq4)).
  assert (G : grows (bm_data m) (bm_data m')) by (eapply keeps_grows; eauto).
  assert (InO : forall a, In a (regsO objs) -> in_msg (bm_data m) a).
  { intros a Ha. apply (hi_in _ _ _ H). unfold all_regs. apply in_or_app. left. exact Ha. }
  assert (InP : forall a, In a pads -> in_msg (bm_data m) a).
  { intros a Ha. apply (hi_in _ _ _ H). unfold all_regs. apply in_or_app. right. exact Ha. }
  constructor; auto.
  - intros x Hx. destruct (hi_good _ _ _ H x Hx) as [V Gx]. split; [exact V|eapply good_mono; eauto].
  - intros r Hr. unfold all_regs in Hr. apply in_app_or in Hr. destruct Hr as [Hr|Hr].
    + eapply in_msg_mono; eauto.
    + apply in_app_or in Hr. destruct Hr as [Hr|Hr]; [eapply in_msg_mono; eauto|apply PF; exact Hr].
  - intros r Hr. apply in_app_or in Hr. destruct Hr as [Hr|Hr]; [apply (hi_pads _ _ _ H); exact Hr|apply PF; exact Hr].
  - apply (hi_disjO _ _ _ H).
  - destruct pads' as [|p0 [|p1 ps]]; [rewrite app_nil_r; apply (hi_disjP _ _ _ H)| |cbn in L1; lia].
    apply ord_disjoint_snoc; [apply (hi_disjP _ _ _ H)|].
    intros a Ha. apply (fresh_disjoint m); auto. right. apply (PF p0). left. reflexivity.
  - intros a p Ha Hp. apply in_app_or in Hp. destruct Hp as [Hp|Hp]; [apply (hi_cross _ _ _ H); auto|].
    apply (fresh_disjoint m); auto. right. apply (PF p). exact Hp.
  - intros q' Hq'.
    destruct (slot_geometry _ _ _ _ H Hq') as (P1 & P2 & P3 & P4 & _).
    assert (DEC : (fst q' = fst q /\ snd q' = snd q) \/ ~ (fst q' = fst q /\ snd q' = snd q)) by lia.
    destruct DEC as [[E1 E2]|NE].
    + assert (Eq : q' = q) by (destruct q, q'; cbn in *; congruence). subst q'. exact SQ.
    + apply (slot_ok_frame m m' (Rword (fst q) (snd q)) pads objs); auto.
      * intros k Hk [X1 X2]. lia.
      * intros r Hr k Hk [X1 X2].
        pose proof (hi_cross _ _ _ H _ _ Rq1 Hr) as D. pose proof (hi_pads _ _ _ H r Hr) as Pz.
        destruct r as [rs rst rsz]. destruct rq as [qs qst qsz]. cbv [reg_disjoint r_seg r_start r_size] in *. lia.
      * intros x Hx. apply in_or_app. left. exact Hx.
      * apply incl_refl.
      * apply (hi_slots _ _ _ H). exact Hq'.
Qed.

(* the two inline encodings of writePtr: the null word and the empty struct (offset -1) *)
Definition empty_struct_word : Z := 4294967292.   (* rawStructPointer (-1) (mkOS 0 0) *)
Lemma empty_struct_word_eq : rawStructPointer (-1) (mkOS 0 0) = Some empty_struct_word.
Proof. reflexivity. Qed.

Lemma hinv_write_inline m objs pads m' q v :
  hinv m objs pads -> In q ((0, 0) :: flat_map slots objs) ->
  (v = 0 \/ v = empty_struct_word) ->
  writeRawPointer m (fst q) (snd q) v = Ok m' ->
  hinv m' objs pads.
Proof.
  intros H Hq Hv HW.
  destruct (slot_geometry _ _ _ _ H Hq) as (Q1 & Q2 & Q3 & Q4 & _).
  assert (Q0 : 0 <= fst q) by lia.
  destruct (writeRawPointer_keeps _ _ _ _ _ Q0 (hi_inv _ _ _ H) HW) as (K & I' & N & _).
  assert (W := HW). apply writeRawPointer_wrote in W; [|lia].
  assert (Sm' : segs_small m').
  { apply (segs_small_same_len m); [|apply (hi_small _ _ _ H)]. intros i Hi. apply (wrote_len _ _ _ _ _ i W Hi). }
  rewrite <- (app_nil_r pads).
  apply (hinv_write_slot m objs pads m' q []); auto; try lia.
  - rewrite N. apply (hi_nsegs _ _ _ H).
  - intros p [].
  - (* the new word *)
    assert (Hw64 : word64 v) by (destruct Hv as [-> | ->]; unfold word64, empty_struct_word; lia).
    assert (RD : word_at (bm_data m') (fst q) (snd q) = Some v).
    { apply word_at_mem; [rewrite N; exact Q1| |pose proof (hi_small _ _ _ H (fst q)); unfold maxSegmentSize in *; lia].
      apply (wrote_word_back m m'); auto. pose proof (hi_small _ _ _ H (fst q)). unfold maxSegmentSize in *. lia. }
    destruct Hv as [-> | ->].
    + rewrite app_nil_r. apply null_slot_ok. exact RD.
    + exists (GStruct (fst q) (snd q) 0 0), [mkReg (fst q) (snd q) 0]. split; [|split; [exact I|]].
      * unfold resolve_ptr. rewrite RD. unfold empty_struct_word.
        change (4294967292 =? 0) with false. change (f_A 4294967292 =? 3) with false. change (f_A 4294967292 =? 2) with false. cbv iota.
        unfold decode_obj. cbv zeta. change (f_A 4294967292 =? 0) with true. cbv iota.
        change (f_off 4294967292) with (-1). change (f_dw 4294967292) with 0. change (f_pc 4294967292) with 0.
        replace (snd q + 8 + 8 * -1) with (snd q) by lia. change (8 * (0 + 0)) with 0.
        rewrite in_seg_intro; [reflexivity| | | | |]; try lia.
        -- rewrite zlen_bm, N. exact Q1.
        -- rewrite seg_len_bm. rewrite (wrote_len _ _ _ _ _ (fst q) W) by lia. lia.
      * right. exists [], (mkReg (fst q) (snd q) 0). split; [reflexivity|]. split; [intros x []|left; reflexivity].
Qed.

(* ------------------------------------------------------------------ writePtr without copy *)
Lemma write_ptr_hinv f w objs pads q src w' :
  hinv (w_dst w) objs pads -> In q ((0, 0) :: flat_map slots objs) ->
  (p_valid src = false \/ In src objs /\ p_member src = false) ->
  write_ptr (S f) true w (fst q) (snd q) InDst src false = Ok w' ->
  nsegs (w_dst w') < 4294967296 ->
  exists pads', hinv (w_dst w') objs (pads ++ pads').
Proof.
  intros H Hq Hsrc HW Hns. unfold write_ptr in HW. cbn [write_ptr_gen] in HW.
  destruct (p_valid src) eqn:EV; cbn [negb] in HW.
  2:{ unfold lift0 in HW. destruct (writeRawPointer (w_dst w) (fst q) (snd q) 0) as [m'| |] eqn:EW; cbn [bind] in HW; try discriminate.
      apply Ok_inj in HW. subst w'. cbn [w_dst w_set_dst] in *. exists []. rewrite app_nil_r.
      apply (hinv_write_inline (w_dst w) objs pads m' q 0); auto. }
  destruct Hsrc as [X|[Hin Hmem]]; [discriminate|].
  destruct (hi_good _ _ _ H src Hin) as [_ G]. pose proof G as (Sh & _). unfold shape_ok in Sh.
  destruct (p_kind src) eqn:EK.
  - (* struct *)
    destruct (os_isZero (p_size src)) eqn:EZ.
    + rewrite empty_struct_word_eq in HW. cbn [of_opt_panic bind] in HW. unfold lift0 in HW.
      destruct (writeRawPointer (w_dst w) (fst q) (snd q) empty_struct_word) as [m'| |] eqn:EW; cbn [bind] in HW; try discriminate.
      apply Ok_inj in HW. subst w'. cbn [w_dst w_set_dst] in *. exists []. rewrite app_nil_r.
      apply (hinv_write_inline (w_dst w) objs pads m' q empty_struct_word); auto.
    + rewrite Hmem in HW. cbn [orb is_src bind] in HW.
      destruct (of_opt_panic (rawStructPointer 0 (p_size src))) as [raw| |] eqn:ER; cbn [bind] in HW; try discriminate.
      eapply (hinv_place (w_dst w) objs pads w q src raw w'); eauto.
      unfold raw_of. rewrite EK. exact ER.
  - (* list *)
    destruct Sh as (Hc & _). cbn [orb is_src bind] in HW. rewrite Hc in HW.
    destruct (list_raw src) as [raw| |] eqn:ER; cbn [bind] in HW; try discriminate.
    eapply (hinv_place (w_dst w) objs pads w q src raw w'); eauto.
    + intros X. rewrite EK in X. discriminate.
    + unfold raw_of. rewrite EK. exact ER.
  - destruct Sh.
Qed.

(* ------------------------------------------------------------------ constructors *)
Lemma hinv_alloc_obj m objs pads sid sz m1 s1 a h :
  hinv m objs pads -> 0 <= sid < nsegs m -> 0 <= sz -> alloc m sid sz = Ok (m1, s1, a) ->
  nsegs m1 < 4294967296 ->
  p_valid h = true -> p_seg h = s1 -> p_off h = a -> shape_ok h -> obj_bytes h = sz ->
  hinv m1 (objs ++ [h]) pads.
Proof.
  intros H Hs Hz EA Hns Hv Es Eo Sh Eb.
  pose proof (hi_inv _ _ _ H) as Hinv. pose proof Hinv as [Hwf Har].
  destruct (alloc_keeps _ _ _ _ _ _ Hinv Hs Hz EA) as (K & I1 & N1 & S1 & AD & L1 & _ & _ & _ & MX).
  pose proof (alloc_small _ _ _ _ _ _ Hinv (hi_small _ _ _ H) Hs Hz EA) as Sm1.
  pose proof (alloc_fresh _ _ _ _ _ _ Hwf Har Hs Hz EA) as AF. cbv zeta in AF.
  destruct AF as (_ & _ & A3 & _ & _ & A6 & _).
  pose proof (zlen_nonneg (mem m s1)) as Z0. pose proof (padToWord_nonneg sz) as P0. unfold maxSegmentSize in MX.
  assert (Gd : good (bm_data m1) h).
  { split; [exact Sh|]. split; [rewrite Es; lia|]. split.
    - unfold obj_reg. cbn [r_size]. rewrite Eb, Es, Eo. unfold blen in A3.
      apply in_seg_intro; rewrite ?zlen_bm, ?seg_len_bm; try lia.
    - rewrite Eo. lia. }
  apply (hinv_add_obj m objs pads m1 h); auto.
  - right. rewrite Es, Eo. lia.
  - intros q Hq. destruct (slot_in_obj _ _ _ Hv Gd Hq) as (S1' & S2 & S3 & _).
    unfold obj_reg in S3. cbn [r_size] in S3. rewrite Eb, Eo in *. rewrite Es in S1'.
    rewrite S1'. rewrite word_at_sub; try lia.
    unfold mem at 1. rewrite A6. fold (mem m s1). rewrite sub_app_zeros; try lia.
    now rewrite le_decode_zeros.
Qed.

Lemma list_alloc_eq h : p_valid h = true -> shape_ok h -> p_kind h = KList ->
  obj_bytes h = if p_bit h then bitListSize (p_len h)
                else (DataSize (p_size h) + 8 * PointerCount (p_size h)) * p_len h.
Proof.
  intros Hv Sh Ek. unfold obj_bytes, shape_ok in *. rewrite Ek in *. destruct Sh as (Hc & Hn & Hk).
  destruct Hk as [[Hb Hsz]|[Hb Hsz]]; rewrite Hb.
  - unfold list_allocSize. now rewrite Hv, Hb.
  - destruct Hsz as [Hsz|(d & Hsz & Hd)].
    + rewrite (list_alloc_plain h 0 1); auto; try lia. rewrite Hsz. reflexivity.
    + rewrite (list_alloc_plain h d 0); auto; try lia. rewrite Hsz. reflexivity.
Qed.

(* ------------------------------------------------------------------ pool = table *)
Definition objs_of (st : bstate) : list Ptr := filter p_valid (map snd (st_h st)).

Definition pool_ok (st : bstate) : Prop :=
  Forall (fun h => fst h = InDst /\ (p_valid (snd h) = true -> p_member (snd h) = false)) (st_h st).

Definition sinv (st : bstate) (pads : list region) : Prop :=
  hinv (w_dst (st_w st)) (objs_of st) pads /\ pool_ok st.

Lemma objs_of_push st w p : objs_of (hpush st w InDst p) = objs_of st ++ (if p_valid p then [p] else []).
Proof. unfold objs_of, hpush. cbn [st_h]. rewrite map_app, filter_app. cbn. destruct (p_valid p); reflexivity. Qed.

Lemma pool_ok_push st w p : pool_ok st -> (p_valid p = true -> p_member p = false) -> pool_ok (hpush st w InDst p).
Proof. intros H Hp. unfold pool_ok, hpush. cbn [st_h]. apply Forall_app. split; [exact H|]. repeat constructor; auto. Qed.

Lemma sinv_push_null st pads : sinv st pads -> sinv (hpush st (st_w st) InDst nullPtr) pads.
Proof.
  intros [H P]. split.
  - rewrite objs_of_push. cbn [p_valid nullPtr]. rewrite app_nil_r. exact H.
  - apply pool_ok_push; auto.
Qed.

(* a valid pool handle of the wanted kind is a table object *)
Lemma hget_obj st pads h : sinv st pads -> p_valid (snd (hget st h)) = true ->
  In (snd (hget st h)) (objs_of st) /\ p_member (snd (hget st h)) = false /\ fst (hget st h) = InDst.
Proof.
  intros [_ P] Hv. unfold hget in *.
  destruct (Nat.lt_ge_cases (Z.to_nat h) (length (st_h st))) as [L|G].
  - pose proof (nth_In (st_h st) (InDst, nullPtr) L) as Hin.
    unfold pool_ok in P. rewrite Forall_forall in P. destruct (P _ Hin) as [P1 P2].
    split; [|split; auto]. unfold objs_of. apply filter_In. split; [apply in_map; exact Hin|exact Hv].
  - rewrite nth_overflow in Hv by lia. discriminate Hv.
Qed.

(* the sub-language, as an executable predicate on ops *)
Definition width_b (n : Z) : bool := (n =? 1) || (n =? 2) || (n =? 4) || (n =? 8).
Definition ro_op (o : op) : bool :=
  match o with
  | OHasPtr _ _ | OUint _ _ _ | OBit _ _ | OUintAt _ _ _ | OBitAt _ _ | OText _ | OData _ | OInfo _ | ORLimit | OWalk _ _ _ _ => true
  | _ => false
  end.
Definition sub_op (o : bop) : bool :=
  match o with
  | BNewStruct _ dsz pc => (0 <=? dsz) && (0 <=? pc) && (pc <? 65536)
  | BNewPrim _ sz _ => (sz =? 0) || width_b sz
  | BNewBit _ _ | BNewPList _ _ | BNewVoid _ _ => true
  | BNewBytes _ v _ => zlen v <? 536870911
  | BSetUint _ off n _ => (0 <=? off) && width_b n
  | BSetBit _ n _ => 0 <=? n
  | BSetPtr _ i _ => 0 <=? i
  | BSetRoot _ => true
  | BRead _ o => ro_op o
  | BRoundTrip _ _ _ | BDump _ => true
  | _ => false
  end.

Lemma alloc_ctor st pads sid sz m1 s1 a h :
  sinv st pads -> valid_sid st sid = true -> 0 <= sz -> alloc (w_dst (st_w st)) sid sz = Ok (m1, s1, a) ->
  nsegs m1 < 4294967296 ->
  h = mkPtr true s1 a (p_len h) (p_size h) maxDepth (p_kind h) false (p_bit h) false -> shape_ok h -> obj_bytes h = sz ->
  sinv (hpush st (w_set_dst (st_w st) m1) InDst h) pads.
Proof.
  intros [H P] Hv Hz EA Hns Eh Sh Eb. apply valid_sid_range in Hv.
  assert (V : p_valid h = true) by (rewrite Eh; reflexivity).
  split.
  - rewrite objs_of_push, V. cbn [hpush st_w w_dst w_set_dst].
    apply (hinv_alloc_obj (w_dst (st_w st)) (objs_of st) pads sid sz m1 s1 a h); auto; rewrite Eh; reflexivity.
  - apply pool_ok_push; auto. intros _. rewrite Eh. reflexivity.
Qed.
