(* C05: the pointer-level invariant [hinv] (HeapInv.v) lifted to the op-list interpreter of
   BuildOps.v.  The object table is a ghost list next to the interpreter state; every valid
   handle of the pool is a view of it: a handle of a table object (any depth limit), or a
   member (List.Struct) of a table list. *)
From CV Require Import Core.Builder Core.ReaderFacts Core.ArithFacts Core.BuilderFacts Core.AllocProofs
  Core.WritePtrProofs Core.HeapProofs Core.CopyProofs Core.BuildOps Core.BuildValid Core.BuildInv Core.HeapInv Core.ReadBridge.
From Coq Require Import ZifyBool ZifyNat.
Open Scope Z_scope.

Ltac Zify.zify_post_hook ::= Z.div_mod_to_equations.

(* ------------------------------------------------------------------ allocation facts *)
Lemma segs_small_same_len m m' : (forall i, 0 <= i -> zlen (mem m' i) = zlen (mem m i)) -> segs_small m -> segs_small m'.
Proof.
  intros E S i. destruct (Z_lt_ge_dec i 0) as [L|G].
  - unfold mem, get_seg. replace (Z.to_nat i) with O by lia. pose proof (E 0 (Z.le_refl 0)) as X.
    unfold mem, get_seg in X. cbn [Z.to_nat] in X. rewrite X. apply (S 0).
  - rewrite E by lia. apply S.
Qed.

Lemma alloc_small m sid sz m1 s1 a :
  inv m -> segs_small m -> 0 <= sid < nsegs m -> 0 <= sz -> alloc m sid sz = Ok (m1, s1, a) -> segs_small m1.
Proof.
  intros Hinv Hsm Hs Hz E.
  destruct (alloc_keeps _ _ _ _ _ _ Hinv Hs Hz E) as (_ & I1 & N1 & S1 & AD & L1 & _ & _ & _ & MX).
  destruct Hinv as [Hwf Har].
  destruct (alloc_mem _ _ _ _ _ _ Hwf Har Hs Hz E) as (_ & _ & _ & _ & _ & _ & _ & _ & _ & A10 & _).
  intros i. destruct (Z.eq_dec i s1) as [->|Hne]; [exact MX|].
  destruct (Z_lt_ge_dec i 0) as [L|G].
  - unfold mem, get_seg. replace (Z.to_nat i) with O by lia.
    destruct (Z.eq_dec 0 s1) as [<-|H0]; [exact MX|]. pose proof (A10 0 (Z.le_refl 0) H0) as X. unfold mem, get_seg in X.
    cbn [Z.to_nat] in X. rewrite X. apply (Hsm 0).
  - rewrite A10 by lia. apply Hsm.
Qed.

(* a word of the zero-filled region an allocation appended *)
Lemma le_decode_zeros n : le_decode (repeat 0 n) = 0.
Proof. induction n as [|n IH]; [reflexivity|]. cbn [repeat le_decode]. rewrite IH. reflexivity. Qed.

Lemma skipn_repeat_local {A} (x : A) k n : skipn k (repeat x n) = repeat x (n - k).
Proof. revert n; induction k as [|k IH]; intros [|n]; cbn; auto. Qed.
Lemma firstn_repeat_local {A} (x : A) k n : (k <= n)%nat -> firstn k (repeat x n) = repeat x k.
Proof. revert n; induction k as [|k IH]; intros [|n] H; cbn; auto; try lia. f_equal. apply IH. lia. Qed.

Lemma sub_app_zeros d n b : zlen d <= b -> 0 <= b -> b + 8 <= zlen d + Z.of_nat n -> sub (d ++ repeat 0 n) b 8 = repeat 0 8.
Proof.
  intros H1 H0 H2. unfold sub, zlen in *. rewrite skipn_app. rewrite skipn_all2 by lia. cbn [app].
  rewrite skipn_repeat_local. rewrite firstn_repeat_local by lia. reflexivity.
Qed.

(* ------------------------------------------------------------------ writing one pointer slot *)
Lemma hinv_write_slot m objs pads m' q pads' :
  hinv m objs pads -> In q ((0, 0) :: flat_map slots objs) ->
  keeps m m' (Rword (fst q) (snd q)) -> inv m' -> segs_small m' -> nsegs m <= nsegs m' -> nsegs m' < 4294967296 ->
  (length pads' <= 1)%nat ->
  (forall p, In p pads' -> 0 < r_size p /\ zlen (mem m (r_seg p)) <= r_start p /\ in_msg (bm_data m') p) ->
  slot_ok (bm_data m') (pads ++ pads') objs q ->
  hinv m' objs (pads ++ pads').
Proof.
  intros H Hq K I' Sm' N' Hns' L1 PF SQ.
  destruct (slot_geometry _ _ _ _ H Hq) as (Q1 & Q2 & Q3 & Q4 & (rq & Rq1 & Rq2 & Rq3 & Rq4)).
  assert (G : grows (bm_data m) (bm_data m')) by (eapply keeps_grows; eauto).
  assert (InO : forall a, In a (regsO objs) -> in_msg (bm_data m) a).
  { intros a Ha. apply (hi_in _ _ _ H). unfold all_regs. apply in_or_app. left. exact Ha. }
  assert (InP : forall a, In a pads -> in_msg (bm_data m) a).
  { intros a Ha. apply (hi_in _ _ _ H). unfold all_regs. apply in_or_app. right. exact Ha. }
  assert (TF := slot_avoids_tags _ _ _ _ H Hq).
  constructor; auto.
  - intros x Hx. destruct (hi_good _ _ _ H x Hx) as [V Gx]. split; [exact V|eapply good_mono; eauto].
  - intros x Hx. apply (tag_ok_frame m m' (Rword (fst q) (snd q))); auto. apply (hi_tags _ _ _ H); exact Hx.
  - intros r Hr. unfold all_regs in Hr. apply in_app_or in Hr. destruct Hr as [Hr|Hr].
    + eapply in_msg_mono; eauto.
    + apply in_app_or in Hr. destruct Hr as [Hr|Hr]; [eapply in_msg_mono; eauto|apply PF; exact Hr].
  - intros r Hr. apply in_app_or in Hr. destruct Hr as [Hr|Hr]; [apply (hi_pads _ _ _ H); exact Hr|apply PF; exact Hr].
  - apply (hi_disjO _ _ _ H).
  - destruct pads' as [|p0 [|p1 ps]]; [rewrite app_nil_r; apply (hi_disjP _ _ _ H)| |cbn in L1; lia].
    apply ord_disjoint_snoc; [apply (hi_disjP _ _ _ H)|].
    intros a Ha. apply (fresh_disjoint m); auto. right. apply (PF p0). left. reflexivity.
  - intros a p Ha Hp. apply in_app_or in Hp. destruct Hp as [Hp|Hp]; [apply (hi_cross _ _ _ H); auto|].
    apply (fresh_disjoint m); auto. right. apply (PF p). exact Hp.
  - intros q' Hq'.
    destruct (slot_geometry _ _ _ _ H Hq') as (P1 & P2 & P3 & P4 & _).
    assert (DEC : (fst q' = fst q /\ snd q' = snd q) \/ ~ (fst q' = fst q /\ snd q' = snd q)) by lia.
    destruct DEC as [[E1 E2]|NE].
    + assert (Eq : q' = q) by (destruct q, q'; cbn in *; congruence). subst q'. exact SQ.
    + apply (slot_ok_frame m m' (Rword (fst q) (snd q)) pads objs); auto.
      * intros k Hk [X1 X2]. lia.
      * intros r Hr k Hk [X1 X2].
        pose proof (hi_cross _ _ _ H _ _ Rq1 Hr) as D. pose proof (hi_pads _ _ _ H r Hr) as Pz.
        destruct r as [rs rst rsz]. destruct rq as [qs qst qsz]. cbv [reg_disjoint r_seg r_start r_size] in *. lia.
      * intros x Hx. apply in_or_app. left. exact Hx.
      * apply incl_refl.
      * apply (hi_slots _ _ _ H). exact Hq'.
Qed.

(* the two inline encodings of writePtr: the null word and the empty struct (offset -1) *)

Lemma hinv_write_inline m objs pads m' q v :
  hinv m objs pads -> In q ((0, 0) :: flat_map slots objs) ->
  (v = 0 \/ v = empty_struct_word \/ exists idx, 0 <= idx < 4294967296 /\ v = rawInterfacePointer idx) ->
  writeRawPointer m (fst q) (snd q) v = Ok m' ->
  hinv m' objs pads.
Proof.
  intros H Hq Hv HW.
  destruct (slot_geometry _ _ _ _ H Hq) as (Q1 & Q2 & Q3 & Q4 & _).
  assert (Q0 : 0 <= fst q) by lia.
  destruct (writeRawPointer_keeps _ _ _ _ _ Q0 (hi_inv _ _ _ H) HW) as (K & I' & N & _).
  assert (W := HW). apply writeRawPointer_wrote in W; [|lia].
  assert (Sm' : segs_small m').
  { apply (segs_small_same_len m); [|apply (hi_small _ _ _ H)]. intros i Hi. apply (wrote_len _ _ _ _ _ i W Hi). }
  rewrite <- (app_nil_r pads).
  apply (hinv_write_slot m objs pads m' q []); auto; try lia.
  - rewrite N. apply (hi_nsegs _ _ _ H).
  - intros p [].
  - (* the new word *)
    assert (Hw64 : word64 v).
    { destruct Hv as [-> |[-> |(idx & Hi & ->)]]; unfold word64, empty_struct_word; try lia.
      rewrite rawInterfacePointer_sum by assumption. lia. }
    assert (RD : word_at (bm_data m') (fst q) (snd q) = Some v).
    { apply word_at_mem; [rewrite N; exact Q1| |pose proof (hi_small _ _ _ H (fst q)); unfold maxSegmentSize in *; lia].
      apply (wrote_word_back m m'); auto. pose proof (hi_small _ _ _ H (fst q)). unfold maxSegmentSize in *. lia. }
    rewrite app_nil_r. destruct Hv as [-> |[-> |(idx & Hi & ->)]]; [left; exact RD|right; left; exact RD|].
    right. right. right. exists idx. auto.
Qed.

(* ------------------------------------------------------------------ handles and table objects *)
(* what a handle says about its object, without depth limit and member flag *)
Definition core (p : Ptr) : Ptr :=
  mkPtr (p_valid p) (p_seg p) (p_off p) (p_len p) (p_size p) 0 (p_kind p) (p_comp p) (p_bit p) false.

Lemma core_facts p :
  obj_reg (core p) = obj_reg p /\ tgt_of (core p) = tgt_of p /\ slots (core p) = slots p /\
  raw_of (core p) = raw_of p /\ obj_start (core p) = obj_start p /\ obj_bytes (core p) = obj_bytes p /\
  (shape_ok (core p) <-> shape_ok p).
Proof. destruct p. repeat split; try reflexivity; intros X; exact X. Qed.

Lemma core_idem p : core (core p) = core p.
Proof. reflexivity. Qed.

(* ------------------------------------------------------------------ writePtr without copy *)
Lemma write_ptr_hinv_gen f w objs pads q src fc w' :
  hinv (w_dst w) objs pads -> In q ((0, 0) :: flat_map slots objs) ->
  (p_valid src = false \/ In (core src) objs /\ p_member src = false /\ fc = false \/
   p_kind src = KStruct /\ os_isZero (p_size src) = true \/
   p_kind src = KIface /\ 0 <= p_len src < 4294967296) ->
  write_ptr (S f) true w (fst q) (snd q) InDst src fc = Ok w' ->
  nsegs (w_dst w') < 4294967296 ->
  exists pads', hinv (w_dst w') objs (pads ++ pads').
Proof.
  intros H Hq Hsrc HW Hns. unfold write_ptr in HW. cbn [write_ptr_gen] in HW.
  destruct (p_valid src) eqn:EV; cbn [negb] in HW.
  2:{ unfold lift0 in HW. destruct (writeRawPointer (w_dst w) (fst q) (snd q) 0) as [m'| |] eqn:EW; cbn [bind] in HW; try discriminate.
      apply Ok_inj in HW. subst w'. cbn [w_dst w_set_dst] in *. exists []. rewrite app_nil_r.
      apply (hinv_write_inline (w_dst w) objs pads m' q 0); auto. }
  destruct Hsrc as [X|[(Hin & Hmem & ->)|[[EK0 EZ0]|[EKc Hidx]]]]; [discriminate| | |].
  3:{ rewrite EKc in HW. cbn [is_src] in HW. unfold lift0 in HW.
      destruct (writeRawPointer (w_dst w) (fst q) (snd q) (rawInterfacePointer (p_len src))) as [m'| |] eqn:EW; cbn [bind] in HW; try discriminate.
      apply Ok_inj in HW. subst w'. cbn [w_dst w_set_dst] in *. exists []. rewrite app_nil_r.
      apply (hinv_write_inline (w_dst w) objs pads m' q (rawInterfacePointer (p_len src))); auto.
      right. right. exists (p_len src). auto. }
  2:{ rewrite EK0, EZ0 in HW. rewrite empty_struct_word_eq in HW. cbn [of_opt_panic bind] in HW. unfold lift0 in HW.
      destruct (writeRawPointer (w_dst w) (fst q) (snd q) empty_struct_word) as [m'| |] eqn:EW; cbn [bind] in HW; try discriminate.
      apply Ok_inj in HW. subst w'. cbn [w_dst w_set_dst] in *. exists []. rewrite app_nil_r.
      apply (hinv_write_inline (w_dst w) objs pads m' q empty_struct_word); auto. }
  destruct (core_facts src) as (C1 & C2 & C3 & C4 & C5 & C6 & C7).
  destruct (hi_good _ _ _ H _ Hin) as [_ G]. pose proof G as (Sh & _ & Gi & _). apply (proj1 C7) in Sh. unfold shape_ok in Sh.
  rewrite C1, C5 in Gi. destruct (in_seg_elim _ _ _ _ Gi) as (_ & Gi0 & _).
  destruct (p_kind src) eqn:EK.
  - (* struct *)
    cbv beta iota in Sh. destruct Sh as (Sh & Hcomp & _).
    destruct (os_isZero (p_size src)) eqn:EZ.
    + rewrite empty_struct_word_eq in HW. cbn [of_opt_panic bind] in HW. unfold lift0 in HW.
      destruct (writeRawPointer (w_dst w) (fst q) (snd q) empty_struct_word) as [m'| |] eqn:EW; cbn [bind] in HW; try discriminate.
      apply Ok_inj in HW. subst w'. cbn [w_dst w_set_dst] in *. exists []. rewrite app_nil_r.
      apply (hinv_write_inline (w_dst w) objs pads m' q empty_struct_word); auto.
    + rewrite Hmem in HW. cbn [orb is_src bind] in HW.
      destruct (of_opt_panic (rawStructPointer 0 (p_size src))) as [raw| |] eqn:ER; cbn [bind] in HW; try discriminate.
      eapply (hinv_place (w_dst w) objs pads w q (core src) raw w'); eauto.
      * rewrite C4. unfold raw_of. rewrite EK. exact ER.
      * rewrite C5. unfold obj_start. rewrite Hcomp. exact HW.
  - (* list *)
    cbn [orb is_src bind] in HW.
    destruct (list_raw src) as [raw| |] eqn:ER; cbn [bind] in HW; try discriminate.
    eapply (hinv_place (w_dst w) objs pads w q (core src) raw w'); eauto.
    + cbn [core p_kind]. intros X. rewrite EK in X. discriminate.
    + rewrite C4. unfold raw_of. rewrite EK. exact ER.
    + rewrite C5. unfold obj_start in *. destruct (p_comp src); [|exact HW].
      assert (E : u32 (p_off src - 8) = p_off src - 8).
      { destruct G as (_ & _ & _ & Go). cbn [core p_off] in Go. unfold u32. lia. }
      rewrite E in HW. exact HW.
  - destruct Sh.
Qed.

Lemma write_ptr_hinv f w objs pads q src w' :
  hinv (w_dst w) objs pads -> In q ((0, 0) :: flat_map slots objs) ->
  (p_valid src = false \/ In (core src) objs /\ p_member src = false \/
   p_kind src = KStruct /\ os_isZero (p_size src) = true \/
   p_kind src = KIface /\ 0 <= p_len src < 4294967296) ->
  write_ptr (S f) true w (fst q) (snd q) InDst src false = Ok w' ->
  nsegs (w_dst w') < 4294967296 ->
  exists pads', hinv (w_dst w') objs (pads ++ pads').
Proof.
  intros H Hq Hsrc. apply write_ptr_hinv_gen; auto.
  destruct Hsrc as [X|[[A B]|[X|X]]]; auto.
Qed.

(* ------------------------------------------------------------------ constructors *)
Lemma hinv_alloc_obj m objs pads sid sz m1 s1 a h :
  hinv m objs pads -> 0 <= sid < nsegs m -> 0 <= sz -> alloc m sid sz = Ok (m1, s1, a) ->
  nsegs m1 < 4294967296 ->
  p_valid h = true -> p_seg h = s1 -> p_off h = a -> shape_ok h -> obj_bytes h = sz ->
  (p_kind h = KList -> p_comp h = false) ->
  hinv m1 (objs ++ [h]) pads.
Proof.
  intros H Hs Hz EA Hns Hv Es Eo Sh Eb Hnc.
  assert (Hc : p_comp h = false).
  { unfold shape_ok in Sh. destruct (p_kind h); [tauto|auto|contradiction]. }
  assert (OS : obj_start h = a) by (unfold obj_start; rewrite Hc; exact Eo).
  pose proof (hi_inv _ _ _ H) as Hinv. pose proof Hinv as [Hwf Har].
  destruct (alloc_keeps _ _ _ _ _ _ Hinv Hs Hz EA) as (K & I1 & N1 & S1 & AD & L1 & _ & _ & _ & MX).
  pose proof (alloc_small _ _ _ _ _ _ Hinv (hi_small _ _ _ H) Hs Hz EA) as Sm1.
  pose proof (alloc_fresh _ _ _ _ _ _ Hwf Har Hs Hz EA) as AF. cbv zeta in AF.
  destruct AF as (_ & _ & A3 & _ & _ & A6 & _).
  pose proof (zlen_nonneg (mem m s1)) as Z0. pose proof (padToWord_nonneg sz) as P0. unfold maxSegmentSize in MX.
  assert (Gd : good (bm_data m1) h).
  { split; [exact Sh|]. split; [rewrite Es; lia|]. split.
    - rewrite OS. unfold obj_reg. cbn [r_size]. rewrite Eb, Es. unfold blen in A3.
      apply in_seg_intro; rewrite ?zlen_bm, ?seg_len_bm; try lia.
    - rewrite Eo. lia. }
  apply (hinv_add_obj m objs pads m1 h); auto.
  - intros Ek X. congruence.
  - right. rewrite Es, OS. lia.
  - intros q Hq. destruct (slot_in_obj _ _ _ Hv Gd Hq) as (S1' & S2 & S3 & _).
    unfold obj_reg in S3. cbn [r_size] in S3. rewrite Eb, OS, Eo in *. rewrite Es in S1'.
    rewrite S1'. rewrite word_at_sub; try lia.
    unfold mem at 1. rewrite A6. fold (mem m s1). rewrite sub_app_zeros; try lia.
    now rewrite le_decode_zeros.
Qed.

(* a composite list: the allocation, then the tag word at its start *)
Lemma hinv_alloc_comp m objs pads sid sz m1 s1 a tag m2 h :
  hinv m objs pads -> 0 <= sid < nsegs m -> 0 <= sz -> alloc m sid sz = Ok (m1, s1, a) ->
  writeRawPointer m1 s1 a tag = Ok m2 -> rawStructPointer (p_len h) (p_size h) = Some tag ->
  nsegs m1 < 4294967296 ->
  p_valid h = true -> p_seg h = s1 -> p_off h = a + 8 -> shape_ok h -> obj_bytes h = sz ->
  p_kind h = KList -> p_comp h = true ->
  hinv m2 (objs ++ [h]) pads.
Proof.
  intros H Hs Hz EA EW Etag Hns Hv Es Eo Sh Eb Ek Hc.
  assert (OS : obj_start h = a) by (unfold obj_start; rewrite Hc; lia).
  assert (Hsz8 : 8 <= padToWord sz /\ word64 tag).
  { pose proof Sh as Sh'. unfold shape_ok in Sh'. rewrite Ek in Sh'. destruct Sh' as (Hn & [(X & _)|(_ & Hb & Hw & Ht)]); [congruence|].
    unfold obj_bytes in Eb. rewrite Ek in Eb. rewrite (list_alloc_comp h) in Eb by (auto; lia).
    assert (W0 : 0 <= wc_of h) by (unfold wc_of; destruct Hw as (Hd & Hm & Hp); lia).
    assert (K0 : 0 <= p_len h * wc_of h) by nia. split; [subst sz; unfold padToWord, u32; lia|].
    destruct (fields_tag (p_len h) (p_size h) Hw Hn) as (tag' & Etag' & T0 & _). unfold word64. congruence. }
  destruct Hsz8 as [Hsz8 Htag64].
  pose proof (hi_inv _ _ _ H) as Hinv. pose proof Hinv as [Hwf Har].
  destruct (alloc_keeps _ _ _ _ _ _ Hinv Hs Hz EA) as (K & I1 & N1 & S1 & AD & L1 & _ & _ & _ & MX).
  pose proof (alloc_small _ _ _ _ _ _ Hinv (hi_small _ _ _ H) Hs Hz EA) as Sm1.
  pose proof (alloc_fresh _ _ _ _ _ _ Hwf Har Hs Hz EA) as AF. cbv zeta in AF.
  destruct AF as (_ & _ & A3 & _ & _ & A6 & _).
  pose proof (zlen_nonneg (mem m s1)) as Z0. pose proof (padToWord_nonneg sz) as P0. unfold maxSegmentSize in MX.
  assert (S10 : 0 <= s1) by lia.
  destruct (writeRawPointer_keeps _ _ _ _ _ S10 I1 EW) as (K2 & I2 & N2 & _).
  assert (W := EW). apply writeRawPointer_wrote in W; [|lia].
  assert (L2 : forall i, 0 <= i -> zlen (mem m2 i) = zlen (mem m1 i)) by (intros i Hi; apply (wrote_len _ _ _ _ _ i W Hi)).
  assert (Sm2 : segs_small m2) by (apply (segs_small_same_len m1); auto).
  assert (Gd1 : good (bm_data m1) h).
  { split; [exact Sh|]. split; [rewrite Es; lia|]. split.
    - rewrite OS. unfold obj_reg. cbn [r_size]. rewrite Eb, Es. unfold blen in A3.
      apply in_seg_intro; rewrite ?zlen_bm, ?seg_len_bm; try lia.
    - rewrite Eo. lia. }
  destruct (tag_in_reg _ _ Hv Gd1 Ek Hc) as [T1 T2]. unfold obj_reg in T2. cbn [r_size] in T2. rewrite Eb in T2.
  assert (G12 : grows (bm_data m1) (bm_data m2)) by (eapply keeps_grows; eauto; lia).
  assert (Gd : good (bm_data m2) h) by (eapply good_mono; eauto).
  assert (K02 : keeps m m2 Rnone).
  { apply (keeps_step m m1 m2 Rnone (Rword s1 a)); auto. intros i k Hi Hk [X1 X2]. subst i. lia. }
  apply (hinv_add_obj m objs pads m2 h); auto; try lia.
  - intros _ _. exists tag. split; [exact Etag|]. rewrite Es, Eo. replace (a + 8 - 8) with a by lia.
    apply word_at_mem; [rewrite N2; exact S1| |lia].
    apply (wrote_word_back m1 m2); auto. lia.
  - right. rewrite Es, OS. lia.
  - intros q Hq. destruct (slot_in_obj _ _ _ Hv Gd1 Hq) as (S1' & S2 & S3 & _).
    unfold obj_reg in S3. cbn [r_size] in S3. rewrite Eb, OS, Eo in *. rewrite Es in S1'.
    rewrite S1'. rewrite word_at_sub; try lia; [|rewrite L2 by lia; lia].
    assert (E12 : sub (mem m2 s1) (snd q) 8 = sub (mem m1 s1) (snd q) 8).
    { apply (keeps_sub m1 m2 (Rword s1 a)); auto; try lia. intros k Hk [_ X]. lia. }
    rewrite E12. unfold mem at 1. rewrite A6. fold (mem m s1). rewrite sub_app_zeros; try lia.
    now rewrite le_decode_zeros.
Qed.

Lemma list_alloc_eq h : p_valid h = true -> shape_ok h -> p_kind h = KList -> p_comp h = false ->
  obj_bytes h = if p_bit h then bitListSize (p_len h)
                else (DataSize (p_size h) + 8 * PointerCount (p_size h)) * p_len h.
Proof.
  intros Hv Sh Ek Hc. unfold obj_bytes, shape_ok in *. rewrite Ek in *.
  destruct Sh as (Hn & [(_ & Hk)|(Hc' & _)]); [|congruence].
  destruct Hk as [[Hb Hsz]|[Hb Hsz]]; rewrite Hb.
  - unfold list_allocSize. now rewrite Hv, Hb.
  - destruct Hsz as [Hsz|(d & Hsz & Hd)].
    + rewrite (list_alloc_plain h 0 1); auto; try lia. rewrite Hsz. reflexivity.
    + rewrite (list_alloc_plain h d 0); auto; try lia. rewrite Hsz. reflexivity.
Qed.

(* ------------------------------------------------------------------ the pool: views of the table *)
Definition member_at (h : Ptr) (i : Z) (p : Ptr) : Prop :=
  p_kind h = KList /\ p_bit h = false /\ 0 <= i < p_len h /\
  p_valid p = true /\ p_seg p = p_seg h /\ p_off p = p_off h + i * totalSize (p_size h) /\
  p_size p = p_size h /\ p_kind p = KStruct /\ p_member p = true.

Definition empty_view (p : Ptr) : Prop := p_kind p = KStruct /\ p_size p = mkOS 0 0 /\ p_member p = false /\ 0 <= p_seg p.
Definition cap_view (p : Ptr) : Prop := p_kind p = KIface /\ 0 <= p_len p < 4294967296 /\ p_member p = false.
Definition view (objs : list Ptr) (p : Ptr) : Prop :=
  p_valid p = false \/ (p_member p = false /\ In (core p) objs) \/ (exists h i, In h objs /\ member_at h i p) \/
  empty_view p \/ cap_view p.

(* handles of another message (the source of cross-message copies): what readPtr hands out for
   any bytes 0..255 *)
Definition sview (sm : segs) (p : Ptr) : Prop :=
  p_valid p = true ->
  wf_size (p_size p) /\ 0 <= p_seg p < zlen sm /\
  match p_kind p with
  | KStruct => True
  | KList => shape_ok p /\
             (p_comp p = true -> exists tag, rawStructPointer (p_len p) (p_size p) = Some tag /\
                                             word_at sm (p_seg p) (p_off p - 8) = Some tag)
  | KIface => 0 <= p_len p < 4294967296
  end.

Lemma sview_null sm : sview sm nullPtr.
Proof. intros X. discriminate X. Qed.

(* the pool: handles of the message under construction are views of the table, handles of the
   source message are source views *)
Definition pool_ok (objs : list Ptr) (st : bstate) : Prop :=
  Forall (fun x => fst x = InDst -> view objs (snd x)) (st_h st).
Definition spool (st : bstate) : Prop :=
  msg_ok (w_src (st_w st)) /\ Forall (fun x => fst x = InSrc -> sview (w_src (st_w st)) (snd x)) (st_h st).

(* the table holds cores *)
Definition cores (objs : list Ptr) : Prop := forall h, In h objs -> core h = h.

Definition sinv (st : bstate) (objs : list Ptr) (pads : list region) : Prop :=
  hinv (w_dst (st_w st)) objs pads /\ pool_ok objs st /\ cores objs.

Lemma view_incl objs objs' p : incl objs objs' -> view objs p -> view objs' p.
Proof.
  intros I [V|[[M V]|[(h & i & Hh & V)|V]]]; [left; exact V|right; left; split; auto|right; right; left; exists h, i; auto|right; right; right; exact V].
Qed.

Lemma pool_ok_incl objs objs' st : incl objs objs' -> pool_ok objs st -> pool_ok objs' st.
Proof.
  intros I P. unfold pool_ok in *. rewrite Forall_forall in *. intros x Hx El.
  eapply view_incl; eauto.
Qed.

Lemma pool_ok_push objs st w p : pool_ok objs st -> view objs p -> pool_ok objs (hpush st w InDst p).
Proof. intros H Hp. unfold pool_ok, hpush. cbn [st_h]. apply Forall_app. split; [exact H|]. constructor; [intros _; exact Hp|constructor]. Qed.

Lemma view_null objs : view objs nullPtr.
Proof. left. reflexivity. Qed.

Lemma sinv_push_null st objs pads : sinv st objs pads -> sinv (hpush st (st_w st) InDst nullPtr) objs pads.
Proof. intros (H & P & C). split; [exact H|]. split; [|exact C]. apply pool_ok_push; auto. apply view_null. Qed.

Lemma hget_view st objs pads h : sinv st objs pads -> fst (hget st h) = InDst -> view objs (snd (hget st h)).
Proof.
  intros (_ & P & _). unfold hget.
  destruct (Nat.lt_ge_cases (Z.to_nat h) (length (st_h st))) as [L|G].
  - pose proof (nth_In (st_h st) (InDst, nullPtr) L) as Hin.
    unfold pool_ok in P. rewrite Forall_forall in P. apply (P _ Hin).
  - rewrite nth_overflow by lia. intros _. apply view_null.
Qed.

Lemma hget_sview st h : spool st -> fst (hget st h) = InSrc -> sview (w_src (st_w st)) (snd (hget st h)).
Proof.
  intros [_ P]. unfold hget.
  destruct (Nat.lt_ge_cases (Z.to_nat h) (length (st_h st))) as [L|G].
  - pose proof (nth_In (st_h st) (InDst, nullPtr) L) as Hin. rewrite Forall_forall in P. apply (P _ Hin).
  - rewrite nth_overflow by lia. discriminate.
Qed.

(* a valid list handle is a handle of a table object *)
Lemma list_view objs p : view objs p -> p_valid p = true -> p_kind p = KList -> In (core p) objs /\ p_member p = false.
Proof.
  intros [V|[[M V]|[(h & i & Hh & (_ & _ & _ & _ & _ & _ & _ & Ek & _))|[(Ek & _)|(Ek & _)]]]] Hv Hk; [congruence|auto|congruence|congruence|congruence].
Qed.

(* a valid struct handle: where its sections lie in the table object that holds it *)
Lemma elem_sep base W dw e i k lo hi q :
  0 <= W -> 0 <= dw -> 0 <= k -> dw + k < W -> 0 <= e -> 0 <= i ->
  base + 8 * (i * W) <= lo -> hi <= base + 8 * (i * W) + 8 * dw ->
  q = base + 8 * (e * W + dw) + 8 * k ->
  hi <= q \/ q + 8 <= lo.
Proof.
  intros HW Hd Hk Hlt He Hi Hlo Hhi ->.
  destruct (Z.lt_trichotomy e i) as [L|[->|G]].
  - right. assert (X : e * W + W <= i * W) by nia. lia.
  - left. lia.
  - left. assert (X : i * W + W <= e * W) by nia. lia.
Qed.

Lemma comp_slot_in h e k : p_kind h = KList -> p_comp h = true ->
  0 <= e < p_len h -> 0 <= k < PointerCount (p_size h) ->
  In (p_seg h, p_off h + 8 * (e * wc_of h + DataSize (p_size h) / 8) + 8 * k) (slots h).
Proof.
  intros Ek Hc He Hk. unfold slots, tgt_of. rewrite Ek, Hc. cbn [children].
  apply in_flat_map. exists e. split.
  - unfold zseq. apply in_map_iff. exists (Z.to_nat e). split; [lia|apply in_seq; lia].
  - apply in_map. unfold zseq. apply in_map_iff. exists (Z.to_nat k). split; [unfold wc_of; lia|apply in_seq; lia].
Qed.

Lemma struct_view_geom m objs pads p :
  hinv m objs pads -> view objs p -> p_valid p = true -> p_kind p = KStruct ->
  (p_size p = mkOS 0 0 /\ 0 <= p_seg p) \/
  exists h, In h objs /\ p_seg h = p_seg p /\ 0 <= DataSize (p_size p) /\ 0 <= PointerCount (p_size p) /\
    p_off h <= p_off p /\
    p_off p + DataSize (p_size p) + 8 * PointerCount (p_size p) <= obj_start h + r_size (obj_reg h) /\
    (forall q lo hi, In q (slots h) -> p_off p <= lo -> hi <= p_off p + DataSize (p_size p) -> hi <= snd q \/ snd q + 8 <= lo) /\
    (forall j, 0 <= j < PointerCount (p_size p) -> In (p_seg p, p_off p + DataSize (p_size p) + 8 * j) (slots h)).
Proof.
  intros H V Hv Ek. destruct V as [V|[[M V]|[(h & i & Hh & MA)|[(_ & V & _ & Sg)|(V & _)]]]]; [congruence| | |left; split; [exact V|exact Sg]|congruence]; right.
  - (* a table struct *)
    destruct (core_facts p) as (C1 & C2 & C3 & C4 & C5 & C6 & C7).
    destruct (hi_good _ _ _ H _ V) as [_ G]. destruct G as (Sh & _). apply (proj1 C7) in Sh. unfold shape_ok in Sh. rewrite Ek in Sh.
    destruct Sh as ((Hd & Hm & Hp) & Hc & _).
    exists (core p). split; [exact V|]. rewrite C1, C3, C5. cbn [core p_seg p_off].
    assert (TS : totalSize (p_size p) = DataSize (p_size p) + 8 * PointerCount (p_size p)) by (unfold totalSize, pointerSize, u32; lia).
    unfold obj_reg, obj_bytes, obj_start. rewrite Ek, Hc. cbn [r_size]. rewrite TS.
    assert (PW : padToWord (DataSize (p_size p) + 8 * PointerCount (p_size p)) = DataSize (p_size p) + 8 * PointerCount (p_size p)) by (unfold padToWord, u32; lia).
    rewrite PW. repeat split; try lia.
    + intros q lo hi Hq Hlo Hhi. left. unfold slots, tgt_of in Hq. rewrite Ek in Hq. cbn [children] in Hq.
      apply in_map_iff in Hq. destruct Hq as (a & <- & Ha). unfold zseq in Ha. apply in_map_iff in Ha. destruct Ha as (k & <- & _).
      cbn [snd]. lia.
    + intros j Hj. unfold slots, tgt_of. rewrite Ek. cbn [children]. apply in_map. unfold zseq. apply in_map_iff.
      exists (Z.to_nat j). split; [lia|apply in_seq; lia].
  - (* a list member *)
    destruct MA as (Hk & Hb & Hi & _ & Es & Eo & Esz & _ & _).
    destruct (hi_good _ _ _ H _ Hh) as [Hvh G]. pose proof G as (Sh & _). unfold shape_ok in Sh. rewrite Hk in Sh.
    destruct Sh as (Hn & [(Hc & Hsh)|(Hc & _ & Hw & Ht)]).
    + (* of a plain list *)
      destruct Hsh as [[X _]|[_ Hsz]]; [congruence|].
      exists h. split; [exact Hh|]. split; [auto|]. rewrite Esz, Eo.
      unfold obj_reg, obj_bytes, obj_start. rewrite Hk, Hc. cbn [r_size].
      destruct Hsz as [Hsz|(d & Hsz & Hd)].
      * rewrite (list_alloc_plain h 0 1) by (auto; lia). rewrite Hsz. cbn [DataSize PointerCount].
        change (totalSize (mkOS 0 1)) with 8. unfold padToWord, u32.
        repeat split; try lia.
        -- intros q lo hi Hq Hlo Hhi. unfold slots, tgt_of, et_of in Hq. rewrite Hk, Hc, Hb, Hsz in Hq. cbn in Hq.
           apply in_map_iff in Hq. destruct Hq as (a & <- & Ha). unfold zseq in Ha. apply in_map_iff in Ha. destruct Ha as (k & <- & _).
           cbn [snd]. lia.
        -- intros j Hj. assert (j = 0) by lia. subst j. unfold slots, tgt_of, et_of. rewrite Hk, Hc, Hb, Hsz. cbn.
           rewrite Es. apply in_map. unfold zseq. apply in_map_iff. exists (Z.to_nat i). split; [lia|apply in_seq; lia].
      * rewrite (list_alloc_plain h d 0) by (auto; lia). rewrite Hsz. cbn [DataSize PointerCount].
        assert (TS : totalSize (mkOS d 0) = d) by (unfold totalSize, pointerSize, u32; cbn; lia). rewrite TS.
        assert (K1 : i * d + d <= d * p_len h) by nia. assert (K2 : 0 <= i * d) by nia. assert (K3 : d * p_len h <= 4294967288) by nia.
        replace ((d + 8 * 0) * p_len h) with (d * p_len h) by ring.
        set (a := i * d) in *. set (b := d * p_len h) in *. clearbody a b. unfold padToWord, u32.
        repeat split; try lia.
        -- intros q lo hi Hq. exfalso. unfold slots, tgt_of, et_of in Hq. rewrite Hk, Hc, Hb, Hsz in Hq. cbn [PointerCount DataSize children] in Hq.
           change (0 =? 1) with false in Hq. cbv iota zeta in Hq.
           destruct Hd as [->|[->|[->|[->| ->]]]]; cbn in Hq; destruct Hq.
    + (* of a composite list *)
      exists h. split; [exact Hh|]. split; [auto|]. rewrite Esz, Eo.
      unfold obj_reg, obj_bytes, obj_start. rewrite Hk, Hc. cbn [r_size].
      rewrite (list_alloc_comp h) by (auto; lia). rewrite (totalSize_wf _ Hw). fold (wc_of h).
      assert (W0 : 0 <= wc_of h) by (unfold wc_of; destruct Hw as (Hd & Hm & Hp); lia).
      assert (K0 : 0 <= p_len h * wc_of h) by nia.
      assert (K1 : i * wc_of h + wc_of h <= p_len h * wc_of h) by nia. assert (K2 : 0 <= i * wc_of h) by nia.
      assert (PW : padToWord (8 + 8 * (p_len h * wc_of h)) = 8 + 8 * (p_len h * wc_of h)) by (unfold padToWord, u32; lia).
      rewrite PW. destruct Hw as (Hd & Hm & Hp).
      assert (E8 : i * (8 * wc_of h) = 8 * (i * wc_of h)) by ring. rewrite E8.
      assert (WC : wc_of h = DataSize (p_size h) / 8 + PointerCount (p_size h)) by reflexivity.
      repeat split; try lia.
      * intros q lo hi Hq Hlo Hhi. destruct (comp_slot h q Hk Hc Hq) as (e & k & He & Hk' & Q1 & Q2).
        apply (elem_sep (p_off h) (wc_of h) (DataSize (p_size h) / 8) e i k lo hi (snd q)); try lia.
      * intros j Hj. rewrite Es.
        replace (p_off h + 8 * (i * wc_of h) + DataSize (p_size h) + 8 * j)
          with (p_off h + 8 * (i * wc_of h + DataSize (p_size h) / 8) + 8 * j) by lia.
        apply comp_slot_in; auto; lia.
Qed.

(* bounds of a section of a table object *)
Lemma obj_bounds m objs pads h : hinv m objs pads -> In h objs ->
  0 <= p_seg h < nsegs m /\ 0 <= obj_start h /\ obj_start h <= p_off h /\
  obj_start h + r_size (obj_reg h) <= zlen (mem m (p_seg h)) /\ zlen (mem m (p_seg h)) <= 4294967288.
Proof.
  intros H Hh. destruct (hi_good _ _ _ H h Hh) as [_ (_ & _ & Gi & _)].
  destruct (in_seg_elim _ _ _ _ Gi) as (G1 & G2 & G3 & G4 & G5). rewrite zlen_bm in G1. rewrite seg_len_bm in G4.
  pose proof (hi_small _ _ _ H (p_seg h)) as Hsm. unfold maxSegmentSize in Hsm.
  assert (OS : obj_start h <= p_off h) by (unfold obj_start; destruct (p_comp h); lia). lia.
Qed.

(* an element of a table list, as List.primitiveElem addresses it *)
Lemma list_elem_geom m objs pads p i exp addr :
  hinv m objs pads -> In (core p) objs -> p_valid p = true -> p_kind p = KList ->
  primitiveElem true p i exp = Ok addr ->
  (exp = mkOS 0 1 \/ exists n, exp = mkOS n 0 /\ (n = 1 \/ n = 2 \/ n = 4 \/ n = 8)) ->
  p_off p <= addr /\ addr + totalSize exp <= obj_start (core p) + r_size (obj_reg (core p)) /\
  (exp = mkOS 0 1 -> In (p_seg p, addr) (slots (core p))) /\
  (PointerCount exp = 0 -> forall q, In q (slots (core p)) -> addr + DataSize exp <= snd q \/ snd q + 8 <= addr).
Proof.
  intros H Hin Hv Ek PE Hexp.
  destruct (core_facts p) as (C1 & C2 & C3 & C4 & C5 & C6 & C7).
  destruct (obj_bounds _ _ _ _ H Hin) as (B1 & B2 & B3 & B4 & B5). rewrite C1, C5 in *. cbn [core p_seg p_off] in *.
  destruct (hi_good _ _ _ H _ Hin) as [_ G]. destruct G as (Sh & _). apply (proj1 C7) in Sh. unfold shape_ok in Sh. rewrite Ek in Sh.
  rewrite C3.
  unfold primitiveElem in PE. rewrite Hv in PE. cbn [negb orb] in PE.
  destruct ((i <? 0) || (i >=? p_len p)) eqn:EI; [discriminate|].
  destruct Sh as (Hn & [(Hc & Hsh)|(Hc & Hb & Hw & Ht)]); rewrite Hc in PE; cbn [negb andb orb] in PE.
  - (* plain list *)
    destruct (p_bit p) eqn:EB; [discriminate|]. cbn [orb] in PE.
    destruct (negb (os_eqb (p_size p) exp)) eqn:EO; [discriminate|]. rewrite Bool.orb_false_r in PE. cbn [orb] in PE.
    assert (Esz : p_size p = exp).
    { unfold os_eqb in EO. destruct (p_size p) as [d c], exp as [d' c']. cbn in EO. f_equal; lia. }
    rewrite Esz in PE. destruct (element (p_off p) i (totalSize exp)) as [a0|] eqn:EE; [|discriminate].
    apply Ok_inj in PE. subst a0. apply element_spec in EE. destruct EE as [Ead _].
    unfold obj_reg, obj_bytes, obj_start in *. rewrite Ek, Hc in *. cbn [r_size] in *.
    destruct Hexp as [->|(n & -> & Hnn)].
    + rewrite (list_alloc_plain p 0 1) in * by (auto; lia). change (totalSize (mkOS 0 1)) with 8 in *.
      unfold padToWord, u32 in *. split; [lia|]. split; [lia|]. split.
      * intros _. unfold slots, tgt_of, et_of. rewrite Ek, Hc, EB, Esz. cbn. apply in_map. unfold zseq. apply in_map_iff.
        exists (Z.to_nat i). split; [lia|apply in_seq; lia].
      * cbn. discriminate.
    + assert (TS : totalSize (mkOS n 0) = n) by (unfold totalSize, pointerSize, u32; cbn; lia). rewrite TS in *.
      rewrite (list_alloc_plain p n 0) in * by (auto; lia).
      assert (K1 : i * n + n <= n * p_len p) by nia. assert (K2 : 0 <= i * n) by nia. assert (K3 : n * p_len p <= 4294967288) by nia.
      replace ((n + 8 * 0) * p_len p) with (n * p_len p) in * by ring.
      set (a := i * n) in *. set (b := n * p_len p) in *. clearbody a b. unfold padToWord, u32 in *.
      split; [lia|]. split; [lia|]. split; [discriminate|].
      intros _ q Hq. exfalso. unfold slots, tgt_of, et_of in Hq. rewrite Ek, Hc, EB, Esz in Hq. cbn [PointerCount DataSize children] in Hq.
      change (0 =? 1) with false in Hq. cbv iota zeta in Hq.
      destruct Hnn as [->|[->|[->| ->]]]; cbn in Hq; destruct Hq.
  - (* composite list *)
    rewrite Hb in PE. cbn [orb] in PE.
    destruct ((DataSize (p_size p) <? DataSize exp) || (PointerCount (p_size p) <? PointerCount exp)) eqn:EO; [discriminate|].
    rewrite (totalSize_wf _ Hw) in PE. fold (wc_of p) in PE.
    destruct (element (p_off p) i (8 * wc_of p)) as [a0|] eqn:EE; [|discriminate].
    apply element_spec in EE. destruct EE as [Ead _].
    unfold obj_reg, obj_bytes, obj_start in *. rewrite Ek, Hc in *. cbn [r_size] in *.
    rewrite (list_alloc_comp p) in * by (auto; lia).
    assert (W0 : 0 <= wc_of p) by (unfold wc_of; destruct Hw as (Hd & Hm & Hp); lia).
    assert (K0 : 0 <= p_len p * wc_of p) by nia.
    assert (K1 : i * wc_of p + wc_of p <= p_len p * wc_of p) by nia. assert (K2 : 0 <= i * wc_of p) by nia.
    assert (PW : padToWord (8 + 8 * (p_len p * wc_of p)) = 8 + 8 * (p_len p * wc_of p)) by (unfold padToWord, u32; lia).
    rewrite PW in *.
    assert (E8 : i * (8 * wc_of p) = 8 * (i * wc_of p)) by ring. rewrite E8 in Ead.
    assert (WC : wc_of p = DataSize (p_size p) / 8 + PointerCount (p_size p)) by reflexivity.
    destruct Hw as (Hd & Hm & Hp).
    destruct Hexp as [->|(n & -> & Hnn)]; cbn [DataSize PointerCount] in *.
    + change (0 <? 1) with true in PE. cbn [andb] in PE.
      destruct (addSize a0 (DataSize (p_size p))) as [a1|] eqn:EA; [|discriminate].
      apply Ok_inj in PE. subst a1. apply addSize_spec in EA. destruct EA as [EA _].
      change (totalSize (mkOS 0 1)) with 8.
      split; [lia|]. split; [lia|]. split; [|discriminate].
      intros _. subst addr a0.
      replace (p_off p + 8 * (i * wc_of p) + DataSize (p_size p))
        with (p_off p + 8 * (i * wc_of p + DataSize (p_size p) / 8) + 8 * 0) by lia.
      apply comp_slot_in; auto; lia.
    + change (0 <? 0) with false in PE. try rewrite Bool.andb_false_r in PE. cbn [andb] in PE. apply Ok_inj in PE. subst a0.
      assert (TS : totalSize (mkOS n 0) = n) by (unfold totalSize, pointerSize, u32; cbn; lia). rewrite TS.
      split; [lia|]. split; [lia|]. split; [discriminate|].
      intros _ q Hq. destruct (comp_slot p q Ek Hc Hq) as (e & k & He & Hk' & Q1 & Q2).
      apply (elem_sep (p_off p) (wc_of p) (DataSize (p_size p) / 8) e i k addr (addr + n) (snd q)); try lia.
Qed.

(* the sub-language, as an executable predicate on ops *)
Definition width_b (n : Z) : bool := (n =? 1) || (n =? 2) || (n =? 4) || (n =? 8).
Definition ro_op (o : op) : bool :=
  match o with
  | OHasPtr _ _ | OUint _ _ _ | OBit _ _ | OUintAt _ _ _ | OBitAt _ _ | OText _ | OData _ | OInfo _ | ORLimit | OWalk _ _ _ _ => true
  | _ => false
  end.
Definition sub_op (o : bop) : bool :=
  match o with
  | BNewStruct _ dsz pc => (0 <=? dsz) && (0 <=? pc) && (pc <? 65536)
  | BNewPrim _ sz _ => (sz =? 0) || width_b sz
  | BNewBit _ _ | BNewPList _ _ | BNewVoid _ _ => true
  | BNewComp _ dsz pc _ => (0 <=? dsz) && (0 <=? pc) && (pc <? 65536)
  | BNewBytes _ v _ => (zlen v <? 536870911) && forallb (fun b => (0 <=? b) && (b <? 256)) v   (* a []byte *)
  | BNewCap _ idx => (0 <=? idx) && (idx <? 4294967296)
  | BAddCap _ => true
  | BSetUint _ off n _ => (0 <=? off) && width_b n
  | BSetBit _ n _ => 0 <=? n
  | BListSetUint _ _ n _ => width_b n
  | BBitSet _ _ _ => true
  | BSetPtr _ i _ => 0 <=? i
  | BPLSet _ _ _ | BSetStruct _ _ _ | BCopyFrom _ _ => true
  | BSetRoot _ => true
  | BRead _ (OSPtr _ i) => 0 <=? i
  | BRead _ ORoot | BRead _ (OLStruct _ _) | BRead _ (OPLAt _ _) => true
  | BRead _ o => ro_op o
  | BRoundTrip _ _ _ | BDump _ | BReopen => true
  end.

Lemma cores_snoc objs h : cores objs -> cores (objs ++ [core h]).
Proof. intros C x Hx. apply in_app_or in Hx. destruct Hx as [Hx|[<-|[]]]; [apply C; exact Hx|reflexivity]. Qed.

Lemma pool_push_obj objs st w h : pool_ok objs st -> p_valid h = true -> p_member h = false ->
  pool_ok (objs ++ [core h]) (hpush st w InDst h).
Proof.
  intros P Hv Hm. apply pool_ok_push.
  - apply (pool_ok_incl objs); auto. intros x Hx. apply in_or_app. left. exact Hx.
  - right. left. split; [exact Hm|]. apply in_or_app. right. left. reflexivity.
Qed.

Lemma alloc_ctor st objs pads sid sz m1 s1 a h :
  sinv st objs pads -> valid_sid st sid = true -> 0 <= sz -> alloc (w_dst (st_w st)) sid sz = Ok (m1, s1, a) ->
  nsegs m1 < 4294967296 ->
  h = mkPtr true s1 a (p_len h) (p_size h) maxDepth (p_kind h) false (p_bit h) false -> shape_ok h -> obj_bytes h = sz ->
  sinv (hpush st (w_set_dst (st_w st) m1) InDst h) (objs ++ [core h]) pads.
Proof.
  intros (H & P & C) Hv Hz EA Hns Eh Sh Eb. apply valid_sid_range in Hv.
  destruct (core_facts h) as (C1 & C2 & C3 & C4 & C5 & C6 & C7).
  split.
  - cbn [hpush st_w w_dst w_set_dst].
    apply (hinv_alloc_obj (w_dst (st_w st)) objs pads sid sz m1 s1 a (core h)); auto; try (rewrite Eh; reflexivity);
      try (apply C7; exact Sh); try (rewrite C6; exact Eb).
  - split; [|apply cores_snoc; exact C]. apply pool_push_obj; auto; rewrite Eh; reflexivity.
Qed.

(* ------------------------------------------------------------------ every step of the sub-language *)
Lemma width_b_ok n : width_b n = true -> n = 1 \/ n = 2 \/ n = 4 \/ n = 8.
Proof. unfold width_b. lia. Qed.

Lemma sinv_same_segs st objs pads w2 :
  sinv st objs pads -> bm_segs (w_dst w2) = bm_segs (w_dst (st_w st)) -> bm_arena (w_dst w2) = bm_arena (w_dst (st_w st)) ->
  sinv (mkBSt w2 (st_h st)) objs pads.
Proof.
  intros [H P] E1 E2. split; [|exact P]. cbn [st_w st_h].
  destruct H as [Hi Hsm Hns Hg Htg Hin Hpd HdO HdP Hcr Hs].
  assert (EM : forall i, mem (w_dst w2) i = mem (w_dst (st_w st)) i) by (intros i; unfold mem, get_seg; now rewrite E1).
  assert (ED : bm_data (w_dst w2) = bm_data (w_dst (st_w st))) by (unfold bm_data; now rewrite E1).
  constructor; auto; try (rewrite ED; auto).
  - destruct Hi as [A B]. split; [unfold bmsg_wf; now rewrite E1|unfold arena_wf; now rewrite E1, E2].
  - intros i. rewrite EM. apply Hsm.
  - unfold nsegs. rewrite E1. exact Hns.
Qed.

(* the invariant speaks about the segment bytes only *)
Lemma hinv_same_data m m1 objs pads :
  hinv m objs pads -> bm_data m1 = bm_data m -> inv m1 -> hinv m1 objs pads.
Proof.
  intros [Hi Hsm Hns Hg Htg Hin Hpd HdO HdP Hcr Hs] ED I1.
  assert (EM : forall i, mem m1 i = mem m i) by (intros i; rewrite <- !nth_bm_data; now rewrite ED).
  assert (EN : nsegs m1 = nsegs m) by (rewrite <- !zlen_bm; now rewrite ED).
  constructor; auto; try (rewrite ED; auto).
  - intros i. rewrite EM. apply Hsm.
  - rewrite EN. exact Hns.
Qed.

Lemma write_ptr_invalid_loc f strict w d o l src fc : p_valid src = false ->
  write_ptr f strict w d o l src fc = write_ptr f strict w d o InDst src fc.
Proof. intros Hv. destruct f; [reflexivity|]. unfold write_ptr. cbn [write_ptr_gen]. now rewrite Hv. Qed.

Lemma ro_step_handles c ms hs rl o rs' v : ro_op o = true -> step c all_fixes ms (mkRS hs rl) o = (rs', v) -> rs_handles rs' = hs.
Proof.
  intros Hr. destruct o; try discriminate Hr; cbn [step]; try (intros E; inversion E; reflexivity).
  destruct (walk _ _ _ _ _ _ _ _) as [t rl1]. intros E. inversion E. reflexivity.
Qed.

Lemma as_struct_valid p : p_valid (as_struct p) = true -> as_struct p = p /\ p_kind p = KStruct.
Proof.
  unfold as_struct, is_struct. destruct (p_valid p && _) eqn:EE; [|discriminate].
  intros _. split; [reflexivity|]. destruct (p_kind p); auto; rewrite Bool.andb_false_r in EE; discriminate.
Qed.

Lemma as_list_valid p : p_valid (as_list p) = true -> as_list p = p /\ p_kind p = KList.
Proof.
  unfold as_list, is_list. destruct (p_valid p && _) eqn:EE; [|discriminate].
  intros _. split; [reflexivity|]. destruct (p_kind p); auto; rewrite Bool.andb_false_r in EE; discriminate.
Qed.

(* a data write inside the data section of a struct handle *)
Lemma struct_data_write st objs pads p addr bs m1 :
  sinv st objs pads -> view objs p -> p_valid p = true -> p_kind p = KStruct ->
  0 < zlen bs -> p_off p <= addr -> addr + zlen bs <= p_off p + DataSize (p_size p) ->
  (0 <= p_seg p -> zlen (mem (w_dst (st_w st)) (p_seg p)) < 4294967296 -> addr + zlen bs <= zlen (mem (w_dst (st_w st)) (p_seg p)) ->
   wrote (w_dst (st_w st)) m1 (p_seg p) addr bs) ->
  sinv (mkBSt (w_set_dst (st_w st) m1) (st_h st)) objs pads.
Proof.
  intros [H P] Vw Hv Ek Hpos Hlo Hhi HW.
  destruct (struct_view_geom _ _ _ p H Vw Hv Ek) as [[E0 _]|(ho & Hin & Eseg & D0 & P0 & Olo & Ohi & Hsep & _)].
  { exfalso. rewrite E0 in Hhi. cbn [DataSize] in Hhi. lia. }
  destruct (obj_bounds _ _ _ _ H Hin) as (B1 & B2 & B3 & B4 & B5). rewrite Eseg in *.
  split; [|exact P]. cbn [st_h st_w w_dst w_set_dst].
  apply (hinv_data_write (w_dst (st_w st)) objs pads m1 ho addr bs); auto; try lia.
  all: try (intros q Hq; apply (Hsep q addr (addr + zlen bs)); auto; lia).
  rewrite Eseg. apply HW; lia.
Qed.

(* storing a list member without pointer section (List.Struct of a primitive list, or of a
   composite list whose elements have no pointers): writePtr copies it into a fresh struct whose
   data section is the element padded to a word, and places a pointer to the copy *)
Lemma write_ptr_member_data f w objs pads q src w' :
  hinv (w_dst w) objs pads -> cores objs -> In q ((0, 0) :: flat_map slots objs) ->
  (exists h i, In h objs /\ member_at h i src) -> PointerCount (p_size src) = 0 ->
  write_ptr (S f) true w (fst q) (snd q) InDst src false = Ok w' ->
  nsegs (w_dst w') < 4294967296 ->
  exists objs' pads', hinv (w_dst w') objs' pads' /\ cores objs' /\ incl objs objs'.
Proof.
  intros H C Hq (hl & i & Hhl & MA) Hpc HW Hns.
  pose proof MA as (Hk & Hb & Hi & Hv & Es & Eo & Esz & Ek & Hm).
  assert (Vw : view objs src) by (right; right; left; exists hl, i; auto).
  destruct (struct_view_geom _ _ _ src H Vw Hv Ek) as [[E0 _]|(ho & Hin & Eseg & D0 & P0 & Olo & Ohi & _)].
  { (* zero-sized member: the inline empty struct *)
    assert (Hsrc : p_valid src = false \/ In (core src) objs /\ p_member src = false \/
                   p_kind src = KStruct /\ os_isZero (p_size src) = true \/
                   p_kind src = KIface /\ 0 <= p_len src < 4294967296).
    { right. right. left. split; [exact Ek|]. rewrite E0. reflexivity. }
    destruct (write_ptr_hinv f w objs pads q src w' H Hq Hsrc HW Hns) as [pads' H'].
    exists objs, (pads ++ pads'). split; [exact H'|]. split; [exact C|apply incl_refl]. }
  destruct (obj_bounds _ _ _ _ H Hin) as (B1 & B2 & B3 & B4 & B5). rewrite Eseg in *. rewrite Hpc in *.
  destruct (slot_geometry _ _ _ _ H Hq) as (Q1 & Q2 & Q3 & Q4 & _).
  set (DS := DataSize (p_size src)) in *.
  unfold write_ptr in HW. cbn [write_ptr_gen] in HW. rewrite Hv, Ek in HW. cbn [negb] in HW.
  destruct (os_isZero (p_size src)) eqn:EZ.
  { assert (Hsrc : p_valid src = false \/ In (core src) objs /\ p_member src = false \/
                   p_kind src = KStruct /\ os_isZero (p_size src) = true \/
                   p_kind src = KIface /\ 0 <= p_len src < 4294967296) by (right; right; left; auto).
    assert (HW' : write_ptr (S f) true w (fst q) (snd q) InDst src false = Ok w').
    { unfold write_ptr. cbn [write_ptr_gen]. rewrite Hv, Ek, EZ. cbn [negb]. exact HW. }
    destruct (write_ptr_hinv f w objs pads q src w' H Hq Hsrc HW' Hns) as [pads' H'].
    exists objs, (pads ++ pads'). split; [exact H'|]. split; [exact C|apply incl_refl]. }
  assert (DSpos : 0 < DS).
  { unfold os_isZero in EZ. fold DS in EZ. rewrite Hpc in EZ. lia. }
  rewrite Hm in HW. rewrite Bool.orb_true_r in HW. cbn [bind] in HW. fold DS in HW. rewrite Hpc in HW.
  set (csz := mkOS (padToWord DS) 0) in *.
  assert (PW : padToWord DS mod 8 = 0 /\ DS <= padToWord DS <= DS + 7) by (unfold padToWord, u32; lia).
  assert (TS : totalSize csz = padToWord DS) by (unfold totalSize, pointerSize, u32, csz; cbn [DataSize PointerCount]; lia).
  rewrite TS in HW.
  destruct (alloc (w_dst w) (fst q) (padToWord DS)) as [[[m1 nsid] naddr]| |] eqn:EA; cbn [bind] in HW; try discriminate.
  set (dstp := mkPtr true nsid naddr 0 csz maxDepth KStruct false false false) in *.
  destruct f as [|f]; [cbn [copy_struct_gen bind] in HW; discriminate HW|].
  assert (Hz : 0 <= padToWord DS) by lia.
  pose proof (hi_inv _ _ _ H) as Hinv.
  destruct (alloc_keeps _ _ _ _ _ _ Hinv Q1 Hz EA) as (K1 & I1 & N1 & S1 & AD & L1 & _ & _ & _ & MX).
  unfold maxSegmentSize in MX. pose proof (zlen_nonneg (mem (w_dst w) nsid)) as Z0.
  pose proof (alloc_small _ _ _ _ _ _ Hinv (hi_small _ _ _ H) Q1 Hz EA) as Sm1.
  assert (PP : padToWord (padToWord DS) = padToWord DS) by (unfold padToWord, u32 in *; lia).
  rewrite PP in L1.
  (* the element size is a legal data size *)
  assert (DSb : DS <= 524280).
  { destruct (hi_good _ _ _ H hl Hhl) as [_ (Sh & _)]. unfold shape_ok in Sh. rewrite Hk in Sh.
    unfold DS. rewrite Esz. destruct Sh as (_ & [(_ & [[X _]|[_ [Hs|(d & Hs & Hd)]]])|(_ & _ & (Hd & _) & _)]).
    - congruence.
    - rewrite Hs. cbn. lia.
    - rewrite Hs. cbn. lia.
    - lia. }
  (* copyStruct: one write of the element followed by zero padding *)
  cbn [copy_struct_gen] in HW. unfold dstp, csz in HW. cbn [p_valid negb] in HW. rewrite Hv in HW. cbn [negb] in HW.
  cbn [w_segs w_dst w_set_dst p_seg p_off p_size DataSize PointerCount] in HW. fold DS in HW. rewrite Hpc in HW.
  rewrite !nth_bm_data in HW.
  assert (LS : zlen (mem (w_dst w) (p_seg src)) <= zlen (mem m1 (p_seg src))) by (apply (proj1 K1); lia).
  pose proof (Sm1 (p_seg src)) as SmS. unfold maxSegmentSize in SmS.
  rewrite (slice_ok (mem m1 (p_seg src)) (p_off src) DS) in HW by lia.
  rewrite (slice_ok (mem m1 nsid) naddr (padToWord DS)) in HW by lia.
  cbn [bind] in HW.
  assert (Ls : length (sub (mem m1 (p_seg src)) (p_off src) DS) = Z.to_nat DS).
  { pose proof (sub_length (mem m1 (p_seg src)) (p_off src) DS ltac:(lia) ltac:(lia) ltac:(lia)) as X. unfold zlen in X. lia. }
  assert (Ld : length (sub (mem m1 nsid) naddr (padToWord DS)) = Z.to_nat (padToWord DS)).
  { pose proof (sub_length (mem m1 nsid) naddr (padToWord DS) ltac:(lia) ltac:(lia) ltac:(lia)) as X. unfold zlen in X. lia. }
  rewrite Ls, Ld in HW.
  set (bs := firstn (Nat.min (Z.to_nat DS) (Z.to_nat (padToWord DS))) (sub (mem m1 (p_seg src)) (p_off src) DS)
             ++ repeat 0 (Z.to_nat (padToWord DS) - Nat.min (Z.to_nat DS) (Z.to_nat (padToWord DS)))) in *.
  assert (Lb : zlen bs = padToWord DS).
  { unfold bs, zlen. rewrite app_length, firstn_length, repeat_length, Ls. lia. }
  unfold lift0 in HW.
  destruct (seg_write m1 nsid naddr bs) as [m2| |] eqn:EW; cbn [bind] in HW; try discriminate.
  change (Z.min 0 0) with 0 in HW. change (0 - 0) with 0 in HW. change (Z.to_nat 0) with O in HW.
  change (iota 0) with (@nil Z) in HW. cbn [map fold_res bind] in HW.
  apply seg_write_wrote in EW; [|lia|lia].
  assert (N12 : nsegs m2 = nsegs m1) by (unfold nsegs; apply (wrote_nsegs _ _ _ _ _ EW)).
  cbn [p_seg p_off p_size] in HW. fold csz in HW.
  destruct (of_opt_panic (rawStructPointer 0 csz)) as [raw| |] eqn:ER; cbn [bind] in HW; try discriminate.
  cbn [p_seg p_off] in HW.
  (* bounds of the intermediate messages from the final one *)
  assert (I2 : inv m2) by (apply (wrote_inv _ _ _ _ _ EW); [lia|exact I1]).
  assert (Q12 : 0 <= fst q < nsegs m2) by lia.
  assert (S12 : 0 <= nsid < nsegs m2) by lia.
  destruct (place_keeps (w_set_dst (w_set_dst w m1) m2) (fst q) (snd q) nsid naddr raw w' I2 Q12 S12 HW) as (_ & _ & N2' & _).
  cbn [w_dst w_set_dst] in N2'.
  (* the new struct joins the table *)
  assert (H1 : hinv m1 (objs ++ [core dstp]) pads).
  { apply (hinv_alloc_obj (w_dst w) objs pads (fst q) (padToWord DS) m1 nsid naddr (core dstp)); auto; try reflexivity; try lia.
    all: unfold shape_ok, obj_bytes, core, dstp, os_wf; cbn [p_kind p_size p_comp p_len p_bit]; try exact TS; try discriminate.
    all: try (unfold csz; cbn [DataSize PointerCount]; split; [lia|]; split; [reflexivity|]; split; reflexivity). }
  assert (Hd1 : In (core dstp) (objs ++ [core dstp])) by (apply in_or_app; right; left; reflexivity).
  assert (H2 : hinv m2 (objs ++ [core dstp]) pads).
  { apply (hinv_data_write m1 _ pads m2 (core dstp) naddr bs); auto.
    - unfold core, dstp. cbn [p_seg]. lia.
    - unfold core, dstp. cbn [p_off]. lia.
    - rewrite Lb. unfold obj_reg, obj_start, obj_bytes, core, dstp. cbn [p_kind p_comp p_off p_size r_size]. rewrite TS, PP. lia.
    - intros x Hx. unfold slots, tgt_of, core, dstp, csz in Hx. cbn in Hx. destruct Hx. }
  assert (Hq2 : In q ((0, 0) :: flat_map slots (objs ++ [core dstp]))).
  { destruct Hq as [<-|Hq]; [left; reflexivity|right]. rewrite flat_map_app. apply in_or_app. left. exact Hq. }
  destruct (hinv_place m2 (objs ++ [core dstp]) pads (w_set_dst (w_set_dst w m1) m2) q (core dstp) raw w') as [pads' H'];
    auto.
  all: try (unfold core, dstp; cbn [p_size]; intros _; unfold os_isZero, csz; cbn [DataSize PointerCount]; lia).
  all: try (unfold raw_of, core, dstp; cbn [p_kind p_size]; exact ER).
  exists (objs ++ [core dstp]), (pads ++ pads'). split; [exact H'|]. split; [apply cores_snoc; exact C|].
    intros x Hx. apply in_or_app. left. exact Hx.
Qed.

(* ------------------------------------------------------------------ read ops that hand out handles *)
Lemma view_of_read m objs pads q depth p :
  hinv m objs pads -> cores objs -> 0 <= fst q ->
  (p = nullPtr \/ p = empty_handle q depth \/ (exists h, In h objs /\ p = handle_of h depth) \/
   (exists idx, 0 <= idx < 4294967296 /\ p = mkPtr true (fst q) 0 idx (mkOS 0 0) 0 KIface false false false)) -> view objs p.
Proof.
  intros H C Hq0 [->|[->|[(h & Hh & ->)|(idx & Hi & ->)]]].
  4:{ right. right. right. right. split; [reflexivity|]. split; [exact Hi|reflexivity]. }
  - apply view_null.
  - right. right. right. left. repeat split. exact Hq0.
  - right. left. split; [reflexivity|]. destruct (hi_good _ _ _ H h Hh) as [V _].
    assert (E : core (handle_of h depth) = core h) by (unfold core, handle_of; cbn; now rewrite V).
    rewrite E, (C h Hh). exact Hh.
Qed.

Lemma root_view c m objs pads rl p rl' :
  hinv m objs pads -> cores objs -> root c (bm_data m) rl = (Ok p, rl') -> view objs p.
Proof.
  intros H C HR. unfold root in HR. unfold lookup_segment in HR.
  destruct ((0 <=? 0) && (0 <? zlen (bm_data m))); [|discriminate].
  destruct (negb _); [destruct (cfg_root c); discriminate|].
  apply (view_of_read m objs pads (0, 0) (depth_limit c)); auto; [cbn; lia|].
  apply (read_slot (cfg_strict c) m objs pads (0, 0) rl (depth_limit c) p rl'); auto. left. reflexivity.
Qed.

Lemma sptr_view c m objs pads hp i rl p rl' :
  hinv m objs pads -> cores objs -> view objs hp -> 0 <= i ->
  struct_ptr c (bm_data m) rl (as_struct hp) i = (Ok p, rl') -> view objs p.
Proof.
  intros H C V Hi HR. unfold struct_ptr in HR.
  destruct (negb (p_valid (as_struct hp)) || (i >=? PointerCount (p_size (as_struct hp)))) eqn:EE.
  { apply (f_equal fst) in HR. cbn [fst] in HR. apply Ok_inj in HR. subst p. apply view_null. }
  assert (Hval : p_valid (as_struct hp) = true) by (destruct (p_valid (as_struct hp)); auto; discriminate).
  destruct (as_struct_valid hp Hval) as [Eas Ek]. rewrite Eas in *.
  destruct (struct_view_geom _ _ _ hp H V Hval Ek) as [[E0 _]|(ho & Hin & Eseg & D0 & P0 & Olo & Ohi & _ & Hsl)].
  { exfalso. rewrite E0 in EE. cbn [PointerCount] in EE. rewrite Hval in EE. cbn [negb orb] in EE. lia. }
  destruct (obj_bounds _ _ _ _ H Hin) as (B1 & B2 & B3 & B4 & B5). rewrite Eseg in *.
  assert (PA : pointerAddress hp i = p_off hp + DataSize (p_size hp) + 8 * i).
  { apply pointerAddress_eq; unfold maxSegmentSize; lia. }
  apply (view_of_read m objs pads (p_seg hp, pointerAddress hp i) (p_depth hp)); auto; [cbn [fst]; lia|].
  apply (read_slot (cfg_strict c) m objs pads (p_seg hp, pointerAddress hp i) rl (p_depth hp) p rl'); auto.
  right. apply in_flat_map. exists ho. split; [exact Hin|]. rewrite PA. apply Hsl. lia.
Qed.

Lemma plat_view c m objs pads hp i rl p rl' :
  hinv m objs pads -> cores objs -> view objs hp ->
  ptrlist_at c true (bm_data m) rl (as_list hp) i = (Ok p, rl') -> view objs p.
Proof.
  intros H C V HR. unfold ptrlist_at in HR.
  destruct (primitiveElem true (as_list hp) i (mkOS 0 1)) as [addr| |] eqn:PE; try discriminate.
  assert (Hval : p_valid (as_list hp) = true).
  { unfold primitiveElem in PE. destruct (p_valid (as_list hp)); auto. cbn in PE. discriminate. }
  destruct (as_list_valid hp Hval) as [Eas Ek]. rewrite Eas in *.
  destruct (list_view objs hp V Hval Ek) as [Hin _].
  destruct (list_elem_geom _ _ _ hp i (mkOS 0 1) addr H Hin Hval Ek PE ltac:(left; reflexivity)) as (_ & _ & E3 & _).
  destruct (obj_bounds _ _ _ _ H Hin) as (B1 & _). cbn [core p_seg] in B1.
  apply (view_of_read m objs pads (p_seg hp, addr) (p_depth hp)); auto; [cbn [fst]; lia|].
  apply (read_slot (cfg_strict c) m objs pads (p_seg hp, addr) rl (p_depth hp) p rl'); auto.
  right. apply in_flat_map. exists (core hp). split; [exact Hin|]. apply E3. reflexivity.
Qed.

Lemma read_push st objs pads rl1 x : sinv st objs pads -> view objs x ->
  sinv (mkBSt (w_set_rl (st_w st) InDst rl1) (st_h st ++ [(InDst, x)])) objs pads.
Proof.
  intros S V. destruct (w_set_rl_dst (st_w st) InDst rl1) as (U1 & U2 & _).
  destruct (sinv_same_segs st objs pads _ S U1 U2) as (H2 & P2 & C2). split; [exact H2|]. split; [|exact C2].
  cbn [st_h]. unfold pool_ok. apply Forall_app. split; [exact P2|]. constructor; [|constructor]. intros _. exact V.
Qed.

Lemma skipn_push (hs : list (loc * Ptr)) (x : Ptr) : skipn (length hs) (map snd hs ++ [x]) = [x].
Proof. rewrite skipn_app, skipn_all2 by (rewrite map_length; lia). rewrite map_length, Nat.sub_diag. reflexivity. Qed.

Lemma handle_hget st h : nth (Z.to_nat h) (map snd (st_h st)) nullPtr = snd (hget st h).
Proof. unfold hget. change nullPtr with (snd (InDst, nullPtr)). apply map_nth. Qed.

